(* GENERATED from /repo/Python/dawgie/pl/schedule.py (_diff, build) and /repo/Python/dawgie/pl/dag.py (Node.locate) -- do not edit.  sha256=51a14002b899fb15 *)
From Coq Require Import List Arith Bool.
From DV Require Import Model.Catalogue.
Import ListNotations.
Definition nmem (x : name) (l : list name) : bool := existsb (name_eqb x) l.
Definition ncount (x : name) (l : list name) : nat := length (filter (name_eqb x) l).
Definition nhas_key {V} (k : name) (d : list (name * V)) : bool := existsb (fun p => name_eqb (fst p) k) d.
Definition ndget (k : name) (d : list (name * name)) : name :=
  match find (fun p => name_eqb (fst p) k) d with Some p => snd p | None => [] end.
Definition nlget (k : name) (d : list (name * list name)) : list name :=
  match find (fun p => name_eqb (fst p) k) d with Some p => snd p | None => [] end.
(* _diff *)
Definition ndiff_test (curr : list (name * name)) (prev : list (name * list name)) (k : name) : bool :=
  ((negb (nhas_key k prev)) || (Nat.eqb (ncount (ndget k curr) (nlget k prev)) 0)).
Definition ndiff (curr : list (name * name)) (prev : list (name * list name)) : list name :=
  fold_left (fun acc kv => let k := fst kv in if ndiff_test curr prev k then acc ++ [k] else acc) curr [].
(* str.join on a one character separator *)
Definition join_chr (c : nat) (l : list name) : name :=
  match l with [] => [] | x :: r => x ++ flat_map (fun y => c :: y) r end.
(* the element of the set comprehension `ans` of build() *)
Definition alg_of (item : name) : name := join_chr 46 (firstn 2 (split_chr 46 item [])).
(* build(): the names handed to locate() and organize(); l_i = latest[i], p_j = previous[j] *)
Definition changed_names (l0 l1 l2 : list (name * name)) (p1 p2 p3 : list (name * list name)) : list name :=
  map alg_of (ndiff l0 p1 ++ ndiff l1 p2 ++ ndiff l2 p3).
(* dag.Node.locate: the test that selects a node by its tag *)
Definition tag_match (name tag : name) : bool := name_eqb name tag.
