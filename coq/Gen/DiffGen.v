(* GENERATED from /repo/Python/dawgie/pl/schedule.py (_diff) -- do not edit.  sha256=481f4fd4f606e8f7 *)
From Coq Require Import List Arith Bool.
Import ListNotations.
Definition mem_nat (x : nat) (l : list nat) : bool := existsb (Nat.eqb x) l.
Definition count_nat (x : nat) (l : list nat) : nat := length (filter (Nat.eqb x) l).
Definition has_key {V} (k : nat) (d : list (nat * V)) : bool := existsb (fun p => Nat.eqb (fst p) k) d.
Definition dget (k : nat) (d : list (nat * nat)) : nat :=
  match find (fun p => Nat.eqb (fst p) k) d with Some p => snd p | None => 0 end.
Definition lget (k : nat) (d : list (nat * list nat)) : list nat :=
  match find (fun p => Nat.eqb (fst p) k) d with Some p => snd p | None => [] end.
Definition diff_test (curr : list (nat * nat)) (prev : list (nat * list nat)) (k : nat) : bool :=
  ((negb (has_key k prev)) || (Nat.eqb (count_nat (dget k curr) (lget k prev)) 0)).
Definition diff (curr : list (nat * nat)) (prev : list (nat * list nat)) : list nat :=
  fold_left (fun acc kv => let k := fst kv in if diff_test curr prev k then acc ++ [k] else acc) curr [].
