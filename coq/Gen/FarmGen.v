(* GENERATED from /repo/Python/dawgie/pl/farm.py -- do not edit *)
From Coq Require Import List Arith ZArith Bool.
From DV Require Import Model.Sched.
Import ListNotations.
(* ---- fixed prelude of the translation ---- *)
Inductive eff := ESendAbort | ESendProceed | EClose | ERegister.
Definition b2z (b : bool) : Z := if b then 1%Z else 0%Z.
(* list.sort(key=functools.cmp_to_key(cmp)): a stable sort; as an insertion
   sort: an element goes before the first one it is smaller than *)
Fixpoint ins_cmp (cmp : msg -> msg -> Z) (m : msg) (l : list msg) : list msg :=
  match l with
  | [] => [m]
  | y :: r => if (cmp m y <? 0)%Z then m :: y :: r else y :: ins_cmp cmp m r
  end.
(* ---- translated functions ---- *)
(* Hand._reg sha256=d44949935d8edadc *)
Definition hand_reg (rev_ok : bool) : list eff :=
  (if (negb rev_ok) then ([ESendAbort] ++ [EClose]) else [ERegister]).
(* Hand._process sha256=f3e6322ebfdbc57b (branches register,response,status; the status branch) *)
Definition hand_status (rev_ok active : bool) : list eff :=
  ((if ((negb rev_ok) || (negb active)) then [ESendAbort] else [ESendProceed]) ++ [EClose]).
(* something_to_do sha256=b1f408645016f288 *)
Definition something_to_do (crew active : bool) : bool :=
  (if (crew && (negb true)) then false else (if (negb active) then false else true)).
(* _cluster_sort sha256=006f02aed5eb0da6 *)
Definition comparator (cpu : msg -> Z) (msg_a_ : msg) (msg_b_ : msg) : Z :=
  let result_ := ((b2z (Z.ltb (m_rid msg_b_) (m_rid msg_a_))) - (b2z (Z.ltb (m_rid msg_a_) (m_rid msg_b_))))%Z in
  let result_ := (if (Z.eqb result_ (0)%Z) then (let a_ := (cpu msg_a_) in
  let b_ := (cpu msg_b_) in
  let result_ := ((b2z (Z.ltb b_ a_)) - (b2z (Z.ltb a_ b_)))%Z in
  result_) else (result_)) in
  result_.
Definition cluster_sort (cpu : msg -> Z) (l : list msg) : list msg :=
  fold_left (fun acc m => ins_cmp (comparator cpu) m acc) l [].
(* _workers_sort sha256=eef6708760f7b758 -- shape-checked statement by statement:
     wg = {host: [] for host in set(hosts)} ; wk = sorted(wg)
     for worker in _workers: wg[host of worker].append(worker)
     _workers.clear()
     while sum(len(v) for v in wg.values()):
         longest = []
         for k in wk:
             if len(wg[k]) > len(longest): longest = wg[k]      <- the comparison is read from the source
         _workers.append(longest.pop(0))
   A worker is (id, host); wg is an association list whose keys are wk (sorted
   hosts).  `longest` aliases one of the lists of wg: it is kept as the key of
   that list (None = the fresh []), pop(0) removes the head of that list in
   wg.  The while loop runs on fuel = number of workers (every iteration pops
   one).  None = IndexError (pop from the fresh []) / fuel exhausted. *)
Definition ws_keys (w : list (wid * nat)) : list nat :=
  sort_nat (fold_left (fun acc p => add (snd p) acc) w []).
Fixpoint ws_append (h : nat) (x : wid * nat) (wg : list (nat * list (wid * nat))) :=
  match wg with
  | [] => []
  | (k, g) :: r => if Nat.eqb k h then (k, g ++ [x]) :: r else (k, g) :: ws_append h x r
  end.
Definition ws_groups (w : list (wid * nat)) : list (nat * list (wid * nat)) :=
  fold_left (fun wg worker => ws_append (snd worker) worker wg) w (map (fun k => (k, [])) (ws_keys w)).
Definition ws_total (wg : list (nat * list (wid * nat))) : nat :=
  fold_left (fun a kv => a + length (snd kv)) wg 0.
Definition ws_longest (wg : list (nat * list (wid * nat))) : option nat * list (wid * nat) :=
  fold_left (fun best kv => if length (snd best) <? length (snd kv) then (Some (fst kv), snd kv) else best) wg (None, []).
Fixpoint ws_pop (k : nat) (wg : list (nat * list (wid * nat)))
  : option ((wid * nat) * list (nat * list (wid * nat))) :=
  match wg with
  | [] => None
  | (k', g) :: r =>
    if Nat.eqb k' k then match g with [] => None | x :: g' => Some (x, (k', g') :: r) end
    else match ws_pop k r with Some (x, r') => Some (x, (k', g) :: r') | None => None end
  end.
Fixpoint ws_loop (fuel : nat) (wg : list (nat * list (wid * nat))) (acc : list (wid * nat))
  : option (list (wid * nat)) :=
  if Nat.eqb (ws_total wg) 0 then Some acc else
  match fuel with
  | 0 => None
  | S f => match fst (ws_longest wg) with
           | None => None
           | Some k => match ws_pop k wg with
                       | None => None
                       | Some (x, wg') => ws_loop f wg' (acc ++ [x])
                       end
           end
  end.
Definition workers_sort (w : list (wid * nat)) : option (list (wid * nat)) :=
  ws_loop (length w) (ws_groups w) [].
