(* GENERATED from /repo/Python/dawgie/pl/farm.py -- do not edit *)
From Coq Require Import List ZArith Bool.
From DV Require Import Model.Sched.
Import ListNotations.
(* ---- fixed prelude of the translation ---- *)
Inductive eff := ESendAbort | ESendProceed | EClose | ERegister.
Definition b2z (b : bool) : Z := if b then 1%Z else 0%Z.
(* list.sort(key=functools.cmp_to_key(cmp)): a stable sort; as an insertion
   sort: an element goes before the first one it is smaller than *)
Fixpoint ins_cmp (cmp : msg -> msg -> Z) (m : msg) (l : list msg) : list msg :=
  match l with
  | [] => [m]
  | y :: r => if (cmp m y <? 0)%Z then m :: y :: r else y :: ins_cmp cmp m r
  end.
(* ---- translated functions ---- *)
(* Hand._reg sha256=d44949935d8edadc *)
Definition hand_reg (rev_ok : bool) : list eff :=
  (if (negb rev_ok) then ([ESendAbort] ++ [EClose]) else [ERegister]).
(* Hand._process sha256=f3e6322ebfdbc57b (branches register,response,status; the status branch) *)
Definition hand_status (rev_ok active : bool) : list eff :=
  ((if ((negb rev_ok) || (negb active)) then [ESendAbort] else [ESendProceed]) ++ [EClose]).
(* something_to_do sha256=b1f408645016f288 *)
Definition something_to_do (crew active : bool) : bool :=
  (if (crew && (negb true)) then false else (if (negb active) then false else true)).
(* _cluster_sort sha256=006f02aed5eb0da6 *)
Definition comparator (cpu : msg -> Z) (msg_a_ : msg) (msg_b_ : msg) : Z :=
  let result_ := ((b2z (Z.ltb (m_rid msg_b_) (m_rid msg_a_))) - (b2z (Z.ltb (m_rid msg_a_) (m_rid msg_b_))))%Z in
  let result_ := (if (Z.eqb result_ (0)%Z) then (let a_ := (cpu msg_a_) in
  let b_ := (cpu msg_b_) in
  let result_ := ((b2z (Z.ltb b_ a_)) - (b2z (Z.ltb a_ b_)))%Z in
  result_) else (result_)) in
  result_.
Definition cluster_sort (cpu : msg -> Z) (l : list msg) : list msg :=
  fold_left (fun acc m => ins_cmp (comparator cpu) m acc) l [].
