(* GENERATED from /repo/Python/dawgie/util/fifo.py (class Unique) -- do not edit *)
From Coq Require Import List Arith Bool.
Import ListNotations.
(* ---- fixed prelude of the translation: python list / set built-ins ---- *)
Definition py_in (v : nat) (s : list nat) : bool := existsb (Nat.eqb v) s.
Definition set_add (v : nat) (s : list nat) : list nat := if py_in v s then s else v :: s.
Definition set_remove (v : nat) (s : list nat) : option (list nat) :=
  if py_in v s then Some (filter (fun u => negb (Nat.eqb u v)) s) else None.
Definition set_diff (s o : list nat) : list nat := filter (fun u => negb (py_in u o)) s.
Fixpoint list_remove (v : nat) (l : list nat) : option (list nat) :=
  match l with
  | [] => None
  | x :: r => if Nat.eqb x v then Some r
              else match list_remove v r with Some r' => Some (x :: r') | None => None end
  end.
Definition ustate := (list nat * list nat)%type.      (* (__order, __unique) *)
(* ---- translated methods ---- *)
(* Unique.add sha256=8aa1c7f131b0124b *)
Definition add (st_ : ((list nat) * (list nat))) (value_ : nat) : ((list nat) * (list nat)) :=
  let '(order_, unique_) := st_ in
  let '(unique_, order_) := (if (negb (py_in value_ unique_)) then (let unique_ := (set_add value_ unique_) in
  let order_ := (order_ ++ [value_]) in
  (unique_, order_)) else ((unique_, order_))) in
  (order_, unique_).
(* collections.abc.MutableSet.__ior__ (python standard library): for value in it: self.add(value) *)
Definition ior (st_ : ustate) (it_ : list nat) : ustate :=
  fold_left (fun st_ value_ => add st_ value_) it_ st_.
(* Unique.__init__ sha256=26858771d343a490 *)
Definition init0 (st_ : ((list nat) * (list nat))) (it_ : (list nat)) : ((list nat) * (list nat)) :=
  let '(order_, unique_) := st_ in
  let '(order_, unique_) := (match it_ with _ :: _ => (let '(order_, unique_) := (ior (order_, unique_) it_) in
  (order_, unique_)) | [] => ((order_, unique_)) end) in
  (order_, unique_).
Definition init (it_ : list nat) : ustate := init0 ([], []) it_.
(* Unique.__contains__ sha256=ec082404ee5e0c14 *)
Definition contains (st_ : ((list nat) * (list nat))) (value_ : nat) : bool :=
  let '(order_, unique_) := st_ in
  (py_in value_ unique_).
(* Unique.__iter__ sha256=4ddbd5b692b85615 *)
Definition iter (st_ : ((list nat) * (list nat)))  : (list nat) :=
  let '(order_, unique_) := st_ in
  order_.
(* Unique.__len__ sha256=d863c1db1b7de407 *)
Definition len (st_ : ((list nat) * (list nat)))  : nat :=
  let '(order_, unique_) := st_ in
  (length unique_).
(* Unique.copy sha256=ebb7d276fe852cc4 *)
Definition copy (st_ : ((list nat) * (list nat)))  : ustate :=
  let '(order_, unique_) := st_ in
  (init order_).
(* Unique.difference sha256=3678acfd8231ba10 *)
Definition difference (st_ : ((list nat) * (list nat))) (other_ : (list nat)) : (list nat) :=
  let '(order_, unique_) := st_ in
  (set_diff unique_ other_).
(* Unique.discard sha256=4e456aeb5ade739c *)
Definition discard (st_ : ((list nat) * (list nat))) (value_ : nat) : option ((list nat) * (list nat)) :=
  let '(order_, unique_) := st_ in
  match (if (py_in value_ unique_) then (match list_remove value_ order_ with None => None | Some order_ =>
  match set_remove value_ unique_ with None => None | Some unique_ =>
  Some (order_, unique_) end end) else (Some (order_, unique_))) with None => None | Some (order_, unique_) =>
  Some (order_, unique_) end.
(* Unique.update sha256=361b4e5b4ee74dc3 *)
Definition update (st_ : ((list nat) * (list nat))) (it_ : (list nat)) : ((list nat) * (list nat)) :=
  let '(order_, unique_) := st_ in
  let '(order_, unique_) := fold_left (fun '(order_, unique_) value_ =>
  let '(order_, unique_) := (add (order_, unique_) value_) in
  (order_, unique_)) (match it_ with _ :: _ => it_ | [] => [] end) (order_, unique_) in
  (order_, unique_).
