(* GENERATED from Python/dawgie/db/basis.py by tools/translate/range2coq.py -- do not edit *)
From Coq Require Import ZArith Bool.
Open Scope Z_scope.
Open Scope bool_scope.
(* Range(start, stop): stop = None is an open range *)
Definition rng := (Z * option Z)%type.
(* Range.__contains__ sha256=77d3222fa4d1720e *)
Definition rng_contains (r : rng) (m : Z) : bool :=
  (match snd r with None => ((fst r) <=? m) | Some s0 => (((fst r) <=? m) && (m <? s0)) end).
(* Range.__ge__ sha256=c38a5c0aaad9b280 *)
Definition rng_ge (r : rng) (o : Z) : bool :=
  ((fst r) >=? o).
(* _scrub covered-index test sha256=9e0d7398739edf29 *)
Definition scrub_covers (r : rng) (i : Z) : bool :=
  (((fst r) <=? i) && (i <? (match snd r with None => (i + (1)) | Some s0 => s0 end))).
