(* GENERATED from /repo/Python/dawgie/db/shelve/util.py and /repo/Python/dawgie/__init__.py -- do not edit *)
From Coq Require Import List Arith ZArith Bool.
From DV Require Import Model.Catalogue.
Import ListNotations.
(* ---- fixed prelude of the translation ---- *)
Fixpoint str_join (sep : name) (l : list name) : name :=
  match l with
  | [] => []
  | x :: r => match r with [] => x | _ :: _ => x ++ sep ++ str_join sep r end
  end.
Definition v_design (v : ver) : Z := let '(d, _, _) := v in d.
Definition v_implementation (v : ver) : Z := let '(_, i, _) := v in i.
Definition v_bugfix (v : ver) : Z := let '(_, _, b) := v in b.
(* ---- translated functions ---- *)
(* dawgie.Version.asstring sha256=e90589fde389d81b *)
Definition asstring (self_ : ver) : name :=
  (str_join [46] [(dec_Z (v_design self_)); (dec_Z (v_implementation self_)); (dec_Z (v_bugfix self_))]).
(* LocalVersion.__init__ sha256=d09a34104ef814c4 : checked to be what parse_ver models *)
(* util.construct sha256=dbc86d6703a0cf47 *)
Definition construct (name_ : name) (parent_ : (option nat)) (ver_ : (option ver)) : name :=
  let name_ := (match parent_ with Some parent_ => (let name_ := (((dec_nat parent_) ++ [58; 112; 97; 114; 101; 110; 116; 95; 95; 95]) ++ name_) in
  name_) | None => (name_) end) in
  let name_ := (match ver_ with Some ver_ => (let name_ := ((name_ ++ [95; 95; 95; 118; 101; 114; 115; 105; 111; 110; 58]) ++ (asstring ver_)) in
  name_) | None => (name_) end) in
  name_.
(* util.dissect sha256=b37688bbb644e32d *)
Definition dissect (name_ : name) : option ((option nat) * name * (option ver)) :=
  match (if (contains [58; 112; 97; 114; 101; 110; 116; 95; 95; 95] name_) then (match split2 [58; 112; 97; 114; 101; 110; 116; 95; 95; 95] name_ with None => None | Some (parent_, name_) =>
  match int_nat parent_ with None => None | Some parent_ =>
  Some ((Some parent_), name_) end end) else (Some (None, name_))) with None => None | Some (parent_, name_) =>
  match (if (contains [95; 95; 95; 118; 101; 114; 115; 105; 111; 110; 58] name_) then (match split2 [95; 95; 95; 118; 101; 114; 115; 105; 111; 110; 58] name_ with None => None | Some (name_, ver_) =>
  match parse_ver ver_ with None => None | Some ver_ =>
  Some (name_, (Some ver_)) end end) else (Some (name_, None))) with None => None | Some (name_, ver_) =>
  Some (parent_, name_, ver_) end end.
(* util.subset sha256=91e8a0db7ca94ea0  (parents=None is the empty list) *)
Definition subset (from_table_ : tbl) (name_ : name) (parents_ : (list nat)) : tbl :=
  let result_ := ([] : tbl) in
  let result_ := (match parents_ with _ :: _ => (let result_ := fold_left (fun result_ parent_ =>
  let surname_ := (construct name_ (Some parent_) None) in
  let result_ := (tupdate result_ (filter (fun t_ => let sn_ := surname_ in ((name_eqb (fst t_) sn_) || (prefixb (sn_ ++ [95; 95; 95; 118; 101; 114; 115; 105; 111; 110; 58]) (fst t_)))) from_table_)) in
  result_) parents_ result_ in
  result_) | [] => (let result_ := (tupdate result_ (filter (fun t_ => let sn_ := name_ in (prefixb sn_ (fst t_))) from_table_)) in
  result_) end) in
  result_.
