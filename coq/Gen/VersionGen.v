(* GENERATED from /repo/Python/dawgie/__init__.py — do not edit *)
From Coq Require Import ZArith Bool.
Open Scope Z_scope.
Open Scope bool_scope.
Definition ver := (Z * Z * Z)%type.
Definition dsg (v : ver) : Z := let '(d, _, _) := v in d.
Definition imp (v : ver) : Z := let '(_, i, _) := v in i.
Definition bug (v : ver) : Z := let '(_, _, b) := v in b.
(* __eq__ sha256=78da8996d2e3f2ab *)
Definition ver_eq (a b : ver) : bool :=
  (((dsg a) =? (dsg b)) && ((imp a) =? (imp b)) && ((bug a) =? (bug b))).
(* __ne__ sha256=42d32779312bc003 *)
Definition ver_ne (a b : ver) : bool :=
  ((negb ((dsg a) =? (dsg b))) || (negb ((imp a) =? (imp b))) || (negb ((bug a) =? (bug b)))).
(* __ge__ sha256=310a26609f6393e8 *)
Definition ver_ge (a b : ver) : bool :=
  (if ((dsg a) >? (dsg b)) then true else (if ((dsg a) =? (dsg b)) then (if ((imp a) >? (imp b)) then true else (if ((imp a) =? (imp b)) then ((bug a) >=? (bug b)) else false)) else false)).
(* __le__ sha256=aeb73e84701e2354 *)
Definition ver_le (a b : ver) : bool :=
  (if ((dsg a) <? (dsg b)) then true else (if ((dsg a) =? (dsg b)) then (if ((imp a) <? (imp b)) then true else (if ((imp a) =? (imp b)) then ((bug a) <=? (bug b)) else false)) else false)).
(* __gt__ sha256=34f365ff4269bd0f *)
Definition ver_gt (a b : ver) : bool :=
  ((ver_ge a b) && (ver_ne a b)).
(* __lt__ sha256=11e9d9f59e970898 *)
Definition ver_lt (a b : ver) : bool :=
  ((ver_le a b) && (ver_ne a b)).
(* newer sha256=357c4251f1493ba7 *)
Definition ver_newer (a b : ver) : bool :=
  (((dsg b) <? (dsg a)) || (((dsg b) =? (dsg a)) && ((imp b) <? (imp a))) || (((dsg b) =? (dsg a)) && ((imp b) =? (imp a)) && ((bug b) <? (bug a)))).
