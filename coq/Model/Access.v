(* Model/Access.v -- executable model of the access check of the DAWGIE front
   end: security.sanctioned, fe.basis.DynamicContent.__init__ (the methods
   default), DynamicContent.__render / render_GET..render_DELETE and the
   dispatch of twisted.web.resource.Resource.render to them.

   The tables (all_access, the registrations, HttpMethod) and the decision
   function is_sanctioned are GENERATED from the Python source on every run
   (Gen/AccessTable.v).  What is hand-written here mirrors:

     def sanctioned(endpoint, cert):
         try:    return _lookup(context.sanction_override)(endpoint, cert)
         except: log...                      # bare except
         return False

     def __render(self, request, method):
         cert = transport.getPeerCertificate() if it has one else None
         if not security.sanctioned(self.__uri, cert): return <denied json>
         ...
         if 0 < self.__methods.count(method): resp = self.__fnc(kwds...)
         else: resp = self.__err(method)

   The hook (context.sanction_override) is a Section-free parameter of the
   functions: [None] = looking it up raises (no such module / attribute),
   [Some h] with [h e c = None] = the hook itself raises, [Some b] = it
   returns an object whose truth value is b. *)
From Coq Require Import List String Bool.
From DV Require Import Gen.AccessTable.
Import ListNotations.
Local Open Scope string_scope.
Local Open Scope bool_scope.

Definition hook (A : Type) : Type := option (string -> option A -> option bool).

Definition sanctioned {A : Type} (h : hook A) (endpoint : string)
           (cert : option A) : bool :=
  match h with
  | None => false
  | Some f => match f endpoint cert with Some b => b | None => false end
  end.

(* the default value of context.sanction_override: dawgie.security.is_sanctioned;
   clients = bool(security._certs) *)
Definition default_hook {A : Type} (clients : bool) : hook A :=
  Some (fun e c => Some (is_sanctioned clients e c)).

(* self.__methods = methods if methods else [HttpMethod.GET] *)
Definition eff_methods (ms : list method) : list method :=
  match ms with [] => [M_GET] | _ => ms end.

(* 'getPeerCertificate' in dir(request.transport) *)
Definition peer_cert {A : Type} (has_gpc : bool) (tc : option A) : option A :=
  if has_gpc then tc else None.

Inductive outcome : Set :=
| Denied        (* the "requires a client certificate" reply; handler not run *)
| Invoked       (* self.__fnc(kwds...) was called *)
| NotMapped     (* self.__err(method); handler not run *)
| Unsupported.  (* twisted: no render_<VERB>; handler not run *)

Definition render {A : Type} (h : hook A) (has_gpc : bool) (tc : option A)
           (uri : string) (ms : list method) (m : method) : outcome :=
  let cert := peer_cert has_gpc tc in
  if negb (sanctioned h uri cert) then Denied
  else if existsb (method_eqb m) (eff_methods ms) then Invoked
  else NotMapped.

(* twisted.web.resource.Resource.render: getattr(self, 'render_' + verb);
   DynamicContent defines render_GET/POST/PUT/DELETE, Resource defines
   render_HEAD = render_GET; any other verb raises UnsupportedMethod (caught
   by BaseResource.render -> 500) *)
Inductive verb : Set := V_GET | V_POST | V_PUT | V_DELETE | V_HEAD | V_OTHER.
Definition all_verbs : list verb := [V_GET; V_POST; V_PUT; V_DELETE; V_HEAD; V_OTHER].

Definition dispatch (v : verb) : option method :=
  match v with
  | V_GET => Some M_GET
  | V_POST => Some M_POST
  | V_PUT => Some M_PUT
  | V_DELETE => Some M_DEL
  | V_HEAD => Some M_GET
  | V_OTHER => None
  end.

Definition serve {A : Type} (h : hook A) (has_gpc : bool) (tc : option A)
           (uri : string) (ms : list method) (v : verb) : outcome :=
  match dispatch v with
  | None => Unsupported
  | Some m => render h has_gpc tc uri ms m
  end.

(* ---- classification of the generated registrations ---- *)
Definition reg : Type := (string * string * list method * list string)%type.
Definition r_uri (r : reg) : string := let '(u, _, _, _) := r in u.
Definition r_handler (r : reg) : string := let '(_, h, _, _) := r in h.
Definition r_methods (r : reg) : list method := let '(_, _, m, _) := r in m.
Definition r_effects (r : reg) : list string := let '(_, _, _, e) := r in e.

(* handlers that change the pipeline (DESIGN C19): run, reset, snapshot, submit *)
Definition command_handlers : list string :=
  ["api.cmd_run"; "api.cmd_reset"; "api.cmd_snapshot"; "api.REV_SUBMIT";
   "app.schedule_run"; "app.schedule_reset"; "app.start_submit"; "app.snapshot"].

(* effect markers a read-only handler may carry: the deferred state-vector
   renderer (a view) *)
Definition view_markers : list string := ["deferred:svrender.Defer"].

Definition get_only (ms : list method) : bool :=
  forallb (method_eqb M_GET) (eff_methods ms).

Definition read_only (r : reg) : bool :=
  get_only (r_methods r)
  && negb (mem_str (r_handler r) command_handlers)
  && forallb (fun e => mem_str e view_markers) (r_effects r).

Definition is_command (r : reg) : bool :=
  mem_str (r_handler r) command_handlers
  || negb (forallb (fun e => mem_str e view_markers) (r_effects r)).

Definition public (r : reg) : bool := mem_str (r_uri r) all_access.

Fixpoint nodup_str (l : list string) : bool :=
  match l with
  | [] => true
  | x :: r => negb (mem_str x r) && nodup_str r
  end.

(* first registration of a uri wins (DynamicContent.__init__ only puts the
   child when the node is not there yet) *)
Fixpoint lookup_reg (u : string) (rs : list reg) : option reg :=
  match rs with
  | [] => None
  | r :: rs' => if String.eqb u (r_uri r) then Some r else lookup_reg u rs'
  end.

(* one request against a registered endpoint *)
Definition request {A : Type} (h : hook A) (has_gpc : bool) (tc : option A)
           (r : reg) (v : verb) : outcome :=
  serve h has_gpc tc (r_uri r) (r_methods r) v.

Module AccessExamples.
  (* anonymous caller, certificates configured: a public read endpoint runs,
     a command is denied, a POST on a GET endpoint is not mapped *)
  Example anon_public :
    serve (A:=nat) (default_hook true) true None "/api/ae/name" [] V_GET = Invoked.
  Proof. reflexivity. Qed.
  Example anon_command :
    serve (A:=nat) (default_hook true) true None "/api/cmd/run" [M_POST] V_POST = Denied.
  Proof. reflexivity. Qed.
  Example known_command :
    serve (default_hook true) true (Some 7) "/api/cmd/run" [M_POST] V_POST = Invoked.
  Proof. reflexivity. Qed.
  Example wrong_method :
    serve (A:=nat) (default_hook true) true None "/api/ae/name" [] V_POST = NotMapped.
  Proof. reflexivity. Qed.
  Example raising_hook :
    serve (A:=nat) None true (Some 7) "/api/ae/name" [] V_GET = Denied.
  Proof. reflexivity. Qed.
  Example no_certs_open :
    serve (A:=nat) (default_hook false) true None "/api/cmd/run" [M_POST] V_POST = Invoked.
  Proof. reflexivity. Qed.
End AccessExamples.
