(* schedule.build: which algorithms a (re)load schedules.  The version
   difference _diff is GENERATED (Gen/DiffGen.v); the composition around it
   mirrors build():  dalg/dsv/dv, ans = owners of the differing names. *)
From Coq Require Import List Arith ZArith Bool.
From DV Require Import Model.Sched Gen.DiffGen.
Import ListNotations.

Record vtables := {
  cur_alg : list (nat * nat);        (* latest[0]: algorithm name -> version string *)
  cur_sv  : list (nat * nat);        (* latest[1]: state vector name -> version *)
  cur_v   : list (nat * nat);        (* latest[2]: value name -> version *)
  per_alg : list (nat * list nat);   (* previous[1]: persisted versions per algorithm *)
  per_sv  : list (nat * list nat);   (* previous[2] *)
  per_v   : list (nat * list nat);   (* previous[3] *)
  own_sv  : list (nat * node);       (* 'task.alg' prefix of a state vector name *)
  own_v   : list (nat * node);       (* 'task.alg' prefix of a value name *)
}.

Definition owner (m : list (nat * node)) (k : nat) : list node :=
  match find (fun p => Nat.eqb (fst p) k) m with Some p => [snd p] | None => [] end.

Definition changed_of (T : vtables) : list node :=
  diff (cur_alg T) (per_alg T)
  ++ flat_map (owner (own_sv T)) (diff (cur_sv T) (per_sv T))
  ++ flat_map (owner (own_v T)) (diff (cur_v T) (per_v T)).

(* python iterates the set `ans` in an order the model cannot know; the harness
   passes the order it observed as a hint (only the order, membership is the model's) *)
Definition reorder (hint l : list node) : list node :=
  filter (fun x => mem x l) hint ++ filter (fun x => negb (mem x hint)) l.

Definition build_versions (c : cfg) (T : vtables) (hint : list node) (s : state) : state :=
  build c (reorder hint (changed_of T)) s.
