(* Model/BuildNames.v -- schedule.build() from NAMES to the set of algorithms
   to reschedule.  Definitions only.

   persisted side : what shelve.versions() returns for a catalogue -- the rows
                    Catalogue.versions lists, collated into the dictionaries
                    'task.alg' -> [versions], 'task.alg.sv' -> [versions],
                    'task.alg.sv.value' -> [versions]   (collate / persisted);
   current side   : dawgie.pl.version.current on an engine given by its names
                    and versions (current);
   build()        : the GENERATED name level difference, the GENERATED
                    'task.alg' prefix of a differing name and the GENERATED tag
                    test of Node.locate (Gen/BuildNamesGen.v), then the
                    scheduler model's build (Model/Sched.v) on the node ids
                    found (build_names);
   refinement     : the id-level tables of Model/Build.v computed from the
                    name-level ones (tables_of).

   Names and version strings are lists of code points (Catalogue.name). *)
From Coq Require Import List Arith ZArith Bool.
From DV Require Import Model.Catalogue Model.Store Model.Sched Model.Build Gen.DiffGen Gen.BuildNamesGen.
Import ListNotations.

Definition cdict := list (name * name).        (* name -> version string *)
Definition pdict := list (name * list name).   (* name -> [version strings] *)

(* '.'.join([...]) *)
Definition dots (l : list name) : name := join_chr 46 l.

(* ---- persisted side: the collation loop of shelve.versions() -------------
   if key in d: d[key].append(v) else: d[key] = [v] *)
Definition dappend (k v : name) (d : pdict) : pdict :=
  if nhas_key k d
  then map (fun p => if name_eqb (fst p) k then (fst p, snd p ++ [v]) else p) d
  else d ++ [(k, [v])].

Definition tset_true (k : name) (d : list name) : list name :=
  if nmem k d then d else d ++ [k].

(* (tasks_vers keys, algs_vers, svs_vers, vals_vers); None = the python raises *)
Definition persisted4 := (list name * pdict * pdict * pdict)%type.

Definition collate_row (acc : persisted4) (r : vrow) : persisted4 :=
  let '(ts, al, sv, vl) := acc in
  let '(tskn, algn, svn, vn, algv, svv, vv) := r in
  (tset_true tskn ts,
   dappend (dots [tskn; algn]) (ver_str algv) al,
   dappend (dots [tskn; algn; svn]) (ver_str svv) sv,
   dappend (dots [tskn; algn; svn; vn]) (ver_str vv) vl).

Definition collate (rows : list (option vrow)) : option persisted4 :=
  fold_left (fun acc r => match acc, r with
                          | Some a, Some r => Some (collate_row a r)
                          | _, _ => None
                          end) rows (Some ([], [], [], [])).

Definition persisted (c : cat) : option persisted4 := collate (versions c).

(* ---- current side: dawgie.pl.version.current ------------------------------ *)
Record e_sv := mk_sv { sv_name : name; sv_ver : ver; sv_vals : list (name * ver) }.
Record e_alg := mk_alg { a_name : name; a_ver : ver; a_svs : list e_sv }.
Record e_task := mk_task { t_name : name; t_algs : list e_alg }.
Definition engine := list e_task.   (* one entry per factory, in the order current() visits them *)

(* the three dictionaries are filled independently; each `if name not in d:
   d[name] = version` keeps the first version seen for a name *)
Definition first_wins (l : cdict) : cdict :=
  fold_left (fun d kv => if nhas_key (fst kv) d then d else d ++ [kv]) l [].

Definition alg_items (e : engine) : cdict :=
  flat_map (fun tk => map (fun a => (dots [t_name tk; a_name a], ver_str (a_ver a))) (t_algs tk)) e.

(* `if sv.keys() and name not in tsv`: a state vector without values is skipped *)
Definition sv_items (e : engine) : cdict :=
  flat_map (fun tk => flat_map (fun a =>
    flat_map (fun s => match sv_vals s with
                       | [] => []
                       | _ => [(dots [t_name tk; a_name a; sv_name s], ver_str (sv_ver s))]
                       end) (a_svs a)) (t_algs tk)) e.

Definition val_items (e : engine) : cdict :=
  flat_map (fun tk => flat_map (fun a => flat_map (fun s =>
    map (fun kv => (dots [t_name tk; a_name a; sv_name s; fst kv], ver_str (snd kv))) (sv_vals s))
    (a_svs a)) (t_algs tk)) e.

Definition current (e : engine) : cdict * cdict * cdict :=
  (first_wins (alg_items e), first_wins (sv_items e), first_wins (val_items e)).

(* dawgie.pl.version.record(task) for every task: the identities a complete run
   of the engine registers (an algorithm without a value registers nothing) *)
Definition record_all (e : engine) : list ident :=
  flat_map (fun tk => flat_map (fun a => flat_map (fun s =>
    map (fun kv => mkid (t_name tk) (a_name a) (a_ver a) (sv_name s) (sv_ver s) (fst kv) (snd kv))
        (sv_vals s)) (a_svs a)) (t_algs tk)) e.

Definition registered (ids : list ident) : cat := fold_left register ids cat0.

(* ---- build(): names -> nodes ------------------------------------------------
   tags: the tag of node i of the algorithm tree (ae.at), index = node id *)
Fixpoint locate_from (i : nat) (tags : list name) (tn : name) : list node :=
  match tags with
  | [] => []
  | t :: r => (if tag_match tn t then [i] else []) ++ locate_from (S i) r tn
  end.
Definition locate_all (tags : list name) (tn : name) : list node := locate_from 0 tags tn.

Definition names_changed (e : engine) (p : persisted4) : list name :=
  let '(l0, l1, l2) := current e in
  let '(_, p1, p2, p3) := p in
  changed_names l0 l1 l2 p1 p2 p3.

Definition nodes_changed (tags : list name) (e : engine) (p : persisted4) : list node :=
  flat_map (locate_all tags) (names_changed e p).

(* None: versions() raised.  hint: the order python iterated the set `ans` *)
Definition build_names (c : cfg) (tags : list name) (e : engine) (ct : cat)
           (hint : list node) (s : state) : option state :=
  match persisted ct with
  | None => None
  | Some p => Some (build c (reorder hint (nodes_changed tags e p)) s)
  end.

(* ---- refinement: the id-level tables of Model/Build.v ----------------------
   a name is numbered by its position in a list that holds it *)
Fixpoint index_of (x : name) (u : list name) : nat :=
  match u with
  | [] => 0
  | y :: r => if name_eqb x y then 0 else S (index_of x r)
  end.

Definition keys_c (d : cdict) : list name := map fst d.
Definition keys_p (d : pdict) : list name := map fst d.

Definition tables_of (tags : list name) (e : engine) (p : persisted4) : vtables :=
  let '(l0, l1, l2) := current e in
  let '(_, p1, p2, p3) := p in
  let vu := map snd l0 ++ map snd l1 ++ map snd l2
            ++ flat_map snd p1 ++ flat_map snd p2 ++ flat_map snd p3 in
  let u1 := keys_c l1 ++ keys_p p2 in
  let u2 := keys_c l2 ++ keys_p p3 in
  let vn := fun s => index_of s vu in
  let cur := fun (kn : name -> nat) (d : cdict) => map (fun q => (kn (fst q), vn (snd q))) d in
  let per := fun (kn : name -> nat) (d : pdict) => map (fun q => (kn (fst q), map vn (snd q))) d in
  let nid := fun x => index_of x tags in
  {| cur_alg := cur nid l0;
     cur_sv := cur (fun x => index_of x u1) l1;
     cur_v := cur (fun x => index_of x u2) l2;
     per_alg := per nid p1;
     per_sv := per (fun x => index_of x u1) p2;
     per_v := per (fun x => index_of x u2) p3;
     own_sv := map (fun q => (index_of (fst q) u1, nid (alg_of (fst q)))) l1;
     own_v := map (fun q => (index_of (fst q) u2, nid (alg_of (fst q)))) l2 |}.

(* ---- examples (names as code points) ---------------------------------------- *)
Definition s_net : name := [110; 101; 116].            (* "net"    *)
Definition s_cal : name := [99; 97; 108].              (* "cal"    *)
Definition s_fit : name := [102; 105; 116].            (* "fit"    *)
Definition s_fit2 : name := [102; 105; 116; 50].       (* "fit2"   *)
Definition s_fitter : name := [102; 105; 116; 116; 101; 114].   (* "fitter" *)
Definition s_sv : name := [115].                       (* "s" *)
Definition s_v : name := [118].                        (* "v" *)

Definition ex_alg (n : name) (av sv vv : ver) : e_alg :=
  mk_alg n av [mk_sv s_sv sv [(s_v, vv)]].

(* net.fit / net.fit2 / cal.fit / cal.fitter *)
Definition ex_engine (b : ver) : engine :=
  [mk_task s_net [ex_alg s_fit (1, 0, 0)%Z (1, 0, 0)%Z (1, 0, 0)%Z;
                  ex_alg s_fit2 (1, 0, 0)%Z b (1, 0, 0)%Z];
   mk_task s_cal [ex_alg s_fit (1, 0, 0)%Z (1, 0, 0)%Z (1, 0, 0)%Z;
                  ex_alg s_fitter (1, 0, 0)%Z (1, 0, 0)%Z (1, 0, 0)%Z]].
Definition ex_tags : list name :=
  [dots [s_cal; s_fit]; dots [s_cal; s_fitter]; dots [s_net; s_fit]; dots [s_net; s_fit2]].
