(* Model/Catalogue.v -- executable model of the shelve catalogue
   (dawgie/db/shelve/util.py, state.py DBI.open/close, __init__.py
   next/remove/reset/trace/_prime_keys).  Definitions only.

   Names are lists of code points (list nat); numeric ids are nat; run ids
   and version components are Z.  One Gallina function per Python function,
   same branch structure.  A python exception is the result None. *)
From Coq Require Import Decimal DecimalNat DecimalZ.
From Coq Require Import List Arith ZArith Bool.
Import ListNotations.

Definition name := list nat.
Definition ver := (Z * Z * Z)%type.

Fixpoint name_eqb (a b : name) : bool :=
  match a, b with
  | [], [] => true
  | x :: a', y :: b' => Nat.eqb x y && name_eqb a' b'
  | _, _ => false
  end.

(* str.startswith *)
Fixpoint prefixb (p s : name) : bool :=
  match p, s with
  | [], _ => true
  | x :: p', y :: s' => Nat.eqb x y && prefixb p' s'
  | _ :: _, [] => false
  end.

(* ---- str(int) ---------------------------------------------------------- *)
Fixpoint uint_codes (d : uint) : name :=
  match d with
  | Nil => []
  | D0 d => 48 :: uint_codes d | D1 d => 49 :: uint_codes d
  | D2 d => 50 :: uint_codes d | D3 d => 51 :: uint_codes d
  | D4 d => 52 :: uint_codes d | D5 d => 53 :: uint_codes d
  | D6 d => 54 :: uint_codes d | D7 d => 55 :: uint_codes d
  | D8 d => 56 :: uint_codes d | D9 d => 57 :: uint_codes d
  end.

Definition dec_nat (n : nat) : name := uint_codes (Nat.to_uint n).
Definition dec_Z (z : Z) : name :=
  match Z.to_int z with
  | Pos d => uint_codes d
  | Neg d => 45 :: uint_codes d
  end.

(* int(str): digits only (optionally a leading '-'), non empty *)
Definition digit_of (c : nat) : option (uint -> uint) :=
  if Nat.eqb c 48 then Some D0 else if Nat.eqb c 49 then Some D1
  else if Nat.eqb c 50 then Some D2 else if Nat.eqb c 51 then Some D3
  else if Nat.eqb c 52 then Some D4 else if Nat.eqb c 53 then Some D5
  else if Nat.eqb c 54 then Some D6 else if Nat.eqb c 55 then Some D7
  else if Nat.eqb c 56 then Some D8 else if Nat.eqb c 57 then Some D9
  else None.

Fixpoint codes_uint (s : name) : option uint :=
  match s with
  | [] => Some Nil
  | c :: s' =>
    match digit_of c, codes_uint s' with
    | Some f, Some d => Some (f d)
    | _, _ => None
    end
  end.

Definition int_nat (s : name) : option nat :=
  match s with
  | [] => None
  | _ => option_map Nat.of_uint (codes_uint s)
  end.

Definition int_Z (s : name) : option Z :=
  match s with
  | [] => None
  | c :: s' =>
    if Nat.eqb c 45 then
      match s' with
      | [] => None
      | _ => option_map (fun d => Z.of_int (Neg d)) (codes_uint s')
      end
    else option_map (fun d => Z.of_int (Pos d)) (codes_uint s)
  end.

(* ---- separators --------------------------------------------------------- *)
(* ":parent___" *)
Definition SEP_P : name := [58; 112; 97; 114; 101; 110; 116; 95; 95; 95].
(* "___version:" *)
Definition SEP_V : name := [95; 95; 95; 118; 101; 114; 115; 105; 111; 110; 58].

(* Version.asstring *)
Definition ver_str (v : ver) : name :=
  let '(d, i, b) := v in dec_Z d ++ [46] ++ dec_Z i ++ [46] ++ dec_Z b.

(* util.construct *)
Definition construct (n : name) (parent : option nat) (v : option ver) : name :=
  let n1 := match parent with
            | Some p => dec_nat p ++ SEP_P ++ n
            | None => n
            end in
  match v with
  | Some v => n1 ++ SEP_V ++ ver_str v
  | None => n1
  end.

(* ---- str.split(sep) / "sep in s" ---------------------------------------- *)
(* first occurrence: (before, after) *)
Fixpoint find_sep (sep s acc : name) {struct s} : option (name * name) :=
  match s with
  | [] => None
  | c :: s' =>
    if prefixb sep s then Some (rev acc, skipn (length sep) s)
    else find_sep sep s' (c :: acc)
  end.

Definition contains (sep s : name) : bool :=
  match find_sep sep s [] with Some _ => true | None => false end.

(* "a, b = s.split(sep)": exactly one occurrence, else ValueError (= None) *)
Definition split2 (sep s : name) : option (name * name) :=
  match find_sep sep s [] with
  | None => None
  | Some (a, rest) =>
    if contains sep rest then None else Some (a, rest)
  end.

(* split on a single character (for '.'), all pieces *)
Fixpoint split_chr (c : nat) (s acc : name) : list name :=
  match s with
  | [] => [rev acc]
  | x :: s' => if Nat.eqb x c then rev acc :: split_chr c s' []
               else split_chr c s' (x :: acc)
  end.

(* LocalVersion(str): [int(v) for v in s.split('.')], VERSION of exactly three *)
Definition parse_ver (s : name) : option ver :=
  match split_chr 46 s [] with
  | [a; b; c] =>
    match int_Z a, int_Z b, int_Z c with
    | Some x, Some y, Some z => Some (x, y, z)
    | _, _, _ => None
    end
  | _ => None
  end.

(* util.dissect; None = exception *)
Definition dissect (nm : name) : option (option nat * name * option ver) :=
  let r1 :=
    if contains SEP_P nm then
      match split2 SEP_P nm with
      | None => None
      | Some (p, n) =>
        match int_nat p with None => None | Some p => Some (Some p, n) end
      end
    else Some (None, nm) in
  match r1 with
  | None => None
  | Some (p, n) =>
    if contains SEP_V n then
      match split2 SEP_V n with
      | None => None
      | Some (n', vs) =>
        match parse_ver vs with
        | None => None
        | Some v => Some (p, n', Some v)
        end
      end
    else Some (p, n, None)
  end.

(* ---- tables ------------------------------------------------------------- *)
Definition tbl := list (name * nat).   (* shelve dict: name -> id *)
Definition idx := list name.           (* id -> name *)

Fixpoint alookup (k : name) (t : tbl) : option nat :=
  match t with
  | [] => None
  | (k', i) :: t' => if name_eqb k k' then Some i else alookup k t'
  end.

(* util.append: (exists, idx, name) -- exists is always True in the code *)
Definition append (n : name) (t : tbl) (ix : idx) (parent : option nat)
           (v : option ver) : tbl * idx * nat * name :=
  let nm := construct n parent v in
  match alookup nm t with
  | Some i => (t, ix, i, nm)
  | None => (t ++ [(nm, length ix)], ix ++ [nm], length ix, nm)
  end.

(* sorted(items, key) -- stable insertion sort with a "<=" on keys *)
Section Sort.
  Context {A : Type} (leb : A -> A -> bool).
  Fixpoint sinsert (x : A) (l : list A) : list A :=
    match l with
    | [] => [x]
    | y :: l' => if leb x y then x :: l else y :: sinsert x l'
    end.
  Fixpoint ssort (l : list A) : list A :=
    match l with
    | [] => []
    | x :: l' => sinsert x (ssort l')
    end.
End Sort.

(* util.indexed *)
Definition indexed (t : tbl) : idx :=
  map fst (ssort (fun a b => Nat.leb (snd a) (snd b)) t).

(* dict.update on association lists *)
Fixpoint tset (k : name) (i : nat) (t : tbl) : tbl :=
  match t with
  | [] => [(k, i)]
  | (k', i') :: t' => if name_eqb k k' then (k, i) :: t' else (k', i') :: tset k i t'
  end.
Definition tupdate (res extra : tbl) : tbl :=
  fold_left (fun r e => tset (fst e) (snd e) r) extra res.

(* util.subset on a name table *)
Definition subset (t : tbl) (n : name) (parents : list nat) : tbl :=
  match parents with
  | [] => tupdate [] (filter (fun e => prefixb n (fst e)) t)
  | _ =>
    fold_left
      (fun res parent =>
         let sn := construct n (Some parent) None in
         tupdate res
           (filter (fun e => name_eqb (fst e) sn || prefixb (sn ++ SEP_V) (fst e)) t))
      parents []
  end.

(* the subset() of the pinned snapshot (before commit 5adadeb): kept for the
   refutation theorem and the revert-the-fix test *)
Definition subset_old (t : tbl) (n : name) (parents : list nat) : tbl :=
  match parents with
  | [] => tupdate [] (filter (fun e => prefixb n (fst e)) t)
  | _ =>
    fold_left
      (fun res parent =>
         let sn := construct n (Some parent) None in
         tupdate res (filter (fun e => prefixb sn (fst e)) t))
      parents []
  end.

(* ---- prime table -------------------------------------------------------- *)
Definition pkey := (Z * nat * nat * nat * nat * nat)%type.

Definition pk_run (k : pkey) : Z := let '(r, _, _, _, _, _) := k in r.
Definition pk_tail (k : pkey) := let '(_, t, k, a, s, v) := k in (t, k, a, s, v).

Definition pkey_eqb (a b : pkey) : bool :=
  let '(r, t, k, a1, s, v) := a in
  let '(r', t', k', a1', s', v') := b in
  Z.eqb r r' && Nat.eqb t t' && Nat.eqb k k' && Nat.eqb a1 a1' && Nat.eqb s s'
  && Nat.eqb v v'.

Definition tail_eqb (a b : pkey) : bool :=
  let '(_, t, k, a1, s, v) := a in
  let '(_, t', k', a1', s', v') := b in
  Nat.eqb t t' && Nat.eqb k k' && Nat.eqb a1 a1' && Nat.eqb s s' && Nat.eqb v v'.

(* ", " *)
Definition COMMA : name := [44; 32].

(* str(tuple) of a prime key: "(r, t, k, a, s, v)" *)
Definition pkey_str (k : pkey) : name :=
  let '(r, t, k, a, s, v) := k in
  [40] ++ dec_Z r ++ COMMA ++ dec_nat t ++ COMMA ++ dec_nat k ++ COMMA
       ++ dec_nat a ++ COMMA ++ dec_nat s ++ COMMA ++ dec_nat v ++ [41].

(* str(tuple(pk)).replace(')', ',') for pk = [run, target, task] and
   [run, target, task, alg] *)
Definition pfx3 (r : Z) (t k : nat) : name :=
  [40] ++ dec_Z r ++ COMMA ++ dec_nat t ++ COMMA ++ dec_nat k ++ [44].
Definition pfx4 (r : Z) (t k a : nat) : name :=
  [40] ++ dec_Z r ++ COMMA ++ dec_nat t ++ COMMA ++ dec_nat k ++ COMMA
       ++ dec_nat a ++ [44].

Definition ptbl := list (pkey * Z).    (* str(key) -> blob name *)

Fixpoint plookup (k : pkey) (p : ptbl) : option Z :=
  match p with
  | [] => None
  | (k', b) :: p' => if pkey_eqb k k' then Some b else plookup k p'
  end.
Fixpoint pset (k : pkey) (b : Z) (p : ptbl) : ptbl :=
  match p with
  | [] => [(k, b)]
  | (k', b') :: p' => if pkey_eqb k k' then (k, b) :: p' else (k', b') :: pset k b p'
  end.
Fixpoint pdel (k : pkey) (p : ptbl) : ptbl :=
  match p with
  | [] => []
  | (k', b') :: p' => if pkey_eqb k k' then p' else (k', b') :: pdel k p'
  end.

(* util.subset(prime, prefix) -- the no-parents branch on the prime table *)
Definition psubset (p : ptbl) (pre : name) : ptbl :=
  filter (fun e => prefixb pre (pkey_str (fst e))) p.

(* ---- the catalogue ------------------------------------------------------ *)
Record cat := mkcat {
  t_target : tbl; t_task : tbl; t_alg : tbl; t_state : tbl; t_value : tbl;
  i_target : idx; i_task : idx; i_alg : idx; i_state : idx; i_value : idx;
  prime : ptbl }.

Definition cat0 : cat := mkcat [] [] [] [] [] [] [] [] [] [] [].

Inductive tab := Ttarget | Ttask | Talg | Tstate | Tvalue.

Definition tb (c : cat) (x : tab) : tbl :=
  match x with Ttarget => t_target c | Ttask => t_task c | Talg => t_alg c
          | Tstate => t_state c | Tvalue => t_value c end.
Definition ix (c : cat) (x : tab) : idx :=
  match x with Ttarget => i_target c | Ttask => i_task c | Talg => i_alg c
          | Tstate => i_state c | Tvalue => i_value c end.

Definition set_tab (c : cat) (x : tab) (t : tbl) (i : idx) : cat :=
  match x with
  | Ttarget => mkcat t (t_task c) (t_alg c) (t_state c) (t_value c)
                     i (i_task c) (i_alg c) (i_state c) (i_value c) (prime c)
  | Ttask => mkcat (t_target c) t (t_alg c) (t_state c) (t_value c)
                   (i_target c) i (i_alg c) (i_state c) (i_value c) (prime c)
  | Talg => mkcat (t_target c) (t_task c) t (t_state c) (t_value c)
                  (i_target c) (i_task c) i (i_state c) (i_value c) (prime c)
  | Tstate => mkcat (t_target c) (t_task c) (t_alg c) t (t_value c)
                    (i_target c) (i_task c) (i_alg c) i (i_value c) (prime c)
  | Tvalue => mkcat (t_target c) (t_task c) (t_alg c) (t_state c) t
                    (i_target c) (i_task c) (i_alg c) (i_state c) i (prime c)
  end.

Definition set_prime (c : cat) (p : ptbl) : cat :=
  mkcat (t_target c) (t_task c) (t_alg c) (t_state c) (t_value c)
        (i_target c) (i_task c) (i_alg c) (i_state c) (i_value c) p.

(* Worker.do Func.upd / util.append on table x *)
Definition cat_append (c : cat) (x : tab) (n : name) (parent : option nat)
           (v : option ver) : cat * nat :=
  let '(t, i, id, _) := append n (tb c x) (ix c x) parent v in
  (set_tab c x t i, id).

(* DBI.close ; DBI.open : the indices are rebuilt from the tables *)
Definition reopen (c : cat) : cat :=
  mkcat (t_target c) (t_task c) (t_alg c) (t_state c) (t_value c)
        (indexed (t_target c)) (indexed (t_task c)) (indexed (t_alg c))
        (indexed (t_state c)) (indexed (t_value c)) (prime c).

(* shelve.next *)
Definition next_run (c : cat) : Z :=
  match map (fun e => pk_run (fst e)) (prime c) with
  | [] => 1%Z
  | r :: rs => (fold_left Z.max rs r + 1)%Z
  end.

(* shelve.remove; None = KeyError on an unknown target/task *)
Definition remove (c : cat) (r : Z) (tn taskn algn svn vn : name) : option cat :=
  match alookup tn (t_target c), alookup taskn (t_task c) with
  | Some tnid, Some tskid =>
    let algids := map snd (subset (t_alg c) algn [tskid]) in
    let svids := map snd (subset (t_state c) svn algids) in
    let vids := map snd (subset (t_value c) vn svids) in
    let p :=
      fold_left (fun p algid =>
        fold_left (fun p svid =>
          fold_left (fun p vid => pdel (r, tnid, tskid, algid, svid, vid) p)
                    vids p)
          svids p)
        algids (prime c) in
    Some (set_prime c p)
  | _, _ => None
  end.

(* the same with the pre-fix subset, for the refutation *)
Definition remove_old (c : cat) (r : Z) (tn taskn algn svn vn : name) : option cat :=
  match alookup tn (t_target c), alookup taskn (t_task c) with
  | Some tnid, Some tskid =>
    let algids := map snd (subset_old (t_alg c) algn [tskid]) in
    let svids := map snd (subset_old (t_state c) svn algids) in
    let vids := map snd (subset_old (t_value c) vn svids) in
    let p :=
      fold_left (fun p algid =>
        fold_left (fun p svid =>
          fold_left (fun p vid => pdel (r, tnid, tskid, algid, svid, vid) p)
                    vids p)
          svids p)
        algids (prime c) in
    Some (set_prime c p)
  | _, _ => None
  end.

(* shelve._prime_keys: the six names of every prime key; None = exception *)
Definition nm_of (i : idx) (k : nat) : option name :=
  match nth_error i k with
  | None => None
  | Some full => match dissect full with
                 | Some (_, n, _) => Some n
                 | None => None
                 end
  end.

Definition key_names (c : cat) (k : pkey)
  : option (Z * name * name * name * name * name) :=
  let '(r, t, tk, a, s, v) := k in
  match nm_of (i_target c) t, nm_of (i_task c) tk, nm_of (i_alg c) a,
        nm_of (i_state c) s, nm_of (i_value c) v with
  | Some x1, Some x2, Some x3, Some x4, Some x5 => Some (r, x1, x2, x3, x4, x5)
  | _, _, _, _, _ => None
  end.

Definition prime_names (c : cat) := map (fun e => key_names c (fst e)) (prime c).

(* ---- shelve.versions(): the persisted versions ---------------------------
   one row per entry of the value table: the names along the chain value ->
   state vector -> algorithm -> task (by the parent ids) with the version of
   value, state vector and algorithm; None = the python raises (a name without
   parent or version, an id outside the index).  The python collates the rows
   into  task.alg -> [alg versions],  task.alg.sv -> [sv versions],
   task.alg.sv.value -> [value versions]. *)
Definition vrow := (name * name * name * name * ver * ver * ver)%type.
Definition version_row (c : cat) (vk : name) : option vrow :=
  match dissect vk with
  | Some (Some p1, vn, Some vv) =>
    match nth_error (i_state c) p1 with
    | Some sfull =>
      match dissect sfull with
      | Some (Some p2, svn, Some svv) =>
        match nth_error (i_alg c) p2 with
        | Some afull =>
          match dissect afull with
          | Some (Some p3, algn, Some algv) =>
            match nth_error (i_task c) p3 with
            | Some tfull =>
              match dissect tfull with
              | Some (_, tskn, _) => Some (tskn, algn, svn, vn, algv, svv, vv)
              | None => None
              end
            | None => None
            end
          | _ => None
          end
        | None => None
        end
      | _ => None
      end
    | None => None
    end
  | _ => None
  end.
Definition versions (c : cat) : list (option vrow) :=
  map (fun e => version_row c (fst e)) (t_value c).

(* ---- version order (dawgie.Version.__lt__ = __le__ and __ne__) ---------- *)
Definition ver_leb (a b : ver) : bool :=
  let '(d, i, f) := a in
  let '(d', i', f') := b in
  if (d <? d')%Z then true
  else if (d =? d')%Z then
         if (i <? i')%Z then true
         else if (i =? i')%Z then (f <=? f')%Z else false
       else false.

Definition ver_of (nm : name) : option ver :=
  match dissect nm with
  | Some (_, _, Some v) => Some v
  | _ => None
  end.

(* ---- shelve.trace ------------------------------------------------------- *)
Definition sub3 := (nat * nat * nat)%type.
Definition sub3_eqb (a b : sub3) : bool :=
  let '(x, y, z) := a in let '(x', y', z') := b in
  Nat.eqb x x' && Nat.eqb y y' && Nat.eqb z z'.

Fixpoint sp_add (k : sub3) (r : Z) (m : list (sub3 * Z)) : list (sub3 * Z) :=
  match m with
  | [] => [(k, r)]
  | (k', r') :: m' => if sub3_eqb k k' then (k', Z.max r r') :: m'
                      else (k', r') :: sp_add k r m'
  end.
Fixpoint sp_get (k : sub3) (m : list (sub3 * Z)) : option Z :=
  match m with
  | [] => None
  | (k', r') :: m' => if sub3_eqb k k' then Some r' else sp_get k m'
  end.

Definition subprime (c : cat) : list (sub3 * Z) :=
  fold_left (fun m e => let '(r, t, k, a, _, _) := fst e in sp_add (t, k, a) r m)
            (prime c) [].

(* newest alg id of (task, alg name): sorted(subset, key=version)[-1] *)
Definition newest_alg (c : cat) (tskid : nat) (algn : name) : option nat :=
  let cands := subset (t_alg c) algn [tskid] in
  let keyed := map (fun e => (ver_of (fst e), snd e)) cands in
  if existsb (fun kv => match fst kv with None => true | Some _ => false end) keyed
  then None
  else
    let srt := ssort (fun a b => match fst a, fst b with
                                 | Some x, Some y => ver_leb x y
                                 | _, _ => true end) keyed in
    match rev srt with
    | [] => None
    | kv :: _ => Some (snd kv)
    end.

(* one target's row of the result; None = exception *)
Fixpoint trace_row (c : cat) (sp : list (sub3 * Z)) (tid : nat)
         (tans : list (name * name)) : option (list ((name * name) * Z)) :=
  match tans with
  | [] => Some []
  | (taskn, algn) :: rest =>
    match alookup taskn (t_task c) with
    | None => None
    | Some tskid =>
      match newest_alg c tskid algn with
      | None => None
      | Some algid =>
        match trace_row c sp tid rest with
        | None => None
        | Some row =>
          match sp_get (tid, tskid, algid) sp with
          | Some r => Some (((taskn, algn), r) :: row)
          | None =>
            match alookup [95;95;97;108;108;95;95] (t_target c) with
            | Some allid =>
              match sp_get (allid, tskid, algid) sp with
              | Some r => Some (((taskn, algn), r) :: row)
              | None => Some row
              end
            | None => Some row
            end
          end
        end
      end
    end
  end.

(* dawgie.db.targets(): names that start and end with "__" are hidden *)
Definition dunder (n : name) : bool :=
  prefixb [95; 95] n && prefixb [95; 95] (rev n).

Fixpoint trace_go (c : cat) (sp : list (sub3 * Z)) (tgts : tbl)
         (tans : list (name * name))
  : option (list (name * list ((name * name) * Z))) :=
  match tgts with
  | [] => Some []
  | (tn, tid) :: rest =>
    if dunder tn then trace_go c sp rest tans
    else
      match trace_row c sp tid tans, trace_go c sp rest tans with
      | Some row, Some more => Some ((tn, row) :: more)
      | _, _ => None
      end
  end.

Definition trace (c : cat) (tans : list (name * name)) :=
  trace_go c (subprime c) (t_target c) tans.

(* ---- shelve.reset: which prime entries it reads ------------------------- *)
(* ptab: the entries of (run, target, task, first alg version that has any),
   else nothing (ptab = {} since commit 4962e8d) *)
Fixpoint first_nonempty (p : ptbl) (r : Z) (t k : nat) (algis : list nat) : option ptbl :=
  match algis with
  | [] => None
  | a :: rest =>
    match psubset p (pfx4 r t k a) with
    | [] => first_nonempty p r t k rest
    | tab => Some tab
    end
  end.

Definition reset_ptab (c : cat) (r : Z) (tn tskn algn : name) : option ptbl :=
  match alookup tn (t_target c), alookup tskn (t_task c) with
  | Some t, Some k =>
    match first_nonempty (prime c) r t k
            (map snd (subset (t_alg c) algn [k])) with
    | Some tab => Some tab
    | None => Some []
    end
  | _, _ => None
  end.

(* reset() before commit 4962e8d: the default selection was every entry of
   (run, target, task); kept for the refutation theorem *)
Definition reset_ptab_old (c : cat) (r : Z) (tn tskn algn : name) : option ptbl :=
  match alookup tn (t_target c), alookup tskn (t_task c) with
  | Some t, Some k =>
    match first_nonempty (prime c) r t k
            (map snd (subset (t_alg c) algn [k])) with
    | Some tab => Some tab
    | None => Some (psubset (prime c) (pfx3 r t k))
    end
  | _, _ => None
  end.

(* the (alg version, [(sv name, sv version)]) assignments reset performs, in
   order; None = exception *)
Definition reset_reads (c : cat) (r : Z) (tn tskn algn : name)
  : option (list (option ver * option (name * option ver))) :=
  match reset_ptab c r tn tskn algn with
  | None => None
  | Some ptab =>
    Some (map (fun e =>
                 let '(_, _, _, a, s, _) := fst e in
                 (match nth_error (i_alg c) a with
                  | Some full => ver_of full | None => None end,
                  match nth_error (i_state c) s with
                  | Some full => match dissect full with
                                 | Some (_, n, v) => Some (n, v)
                                 | None => None end
                  | None => None end))
              ptab)
  end.

(* ---- examples ----------------------------------------------------------- *)
Definition s_alg : name := [97; 108; 103].          (* "alg"  *)
Definition s_alg2 : name := [97; 108; 103; 50].     (* "alg2" *)

Example construct_ex :
  construct s_alg (Some 12) (Some (1, 10, 0)%Z)
  = [49;50] ++ SEP_P ++ s_alg ++ SEP_V ++ [49;46;49;48;46;48].
Proof. vm_compute. reflexivity. Qed.

Example dissect_ex :
  dissect (construct s_alg2 (Some 3) (Some (1, 0, 2)%Z))
  = Some (Some 3, s_alg2, Some (1, 0, 2)%Z).
Proof. vm_compute. reflexivity. Qed.

Example dissect_two_seps_raises :
  dissect (construct ([120] ++ SEP_P ++ [121]) (Some 3) None) = None.
Proof. vm_compute. reflexivity. Qed.
