(* C18 -- executable model of the execution history
   (pl/logger/chronicle.py: append, _load, _most_recent_first, find; the
   chronicle part of pl/schedule.py: complete).
   Time = Z ticks (microseconds) since 1980-01-01T00:00:00Z; a day is
   day_len ticks.  The journal is the directory tree
   chronicles/YYYY/MM/DD/<runid>.json: a list of files, each with its day
   number, run id and entry list.  The calendar (which days share a month /
   a year directory) is a parameter: `greg` is the Gregorian instance used
   for evaluation; the theorems hold for every calendar obeying three laws.
   Definitions only (+ Examples by vm_compute). *)
From Coq Require Import List ZArith Bool.
From DV Require Import Model.Search.   (* lexc / cmp_pair : python tuple order *)
Import ListNotations.
Open Scope Z_scope.

Record entry := mkE {
  e_completed : Z;   (* timing.completed, ticks *)
  e_runid : Z;
  e_target : Z;      (* name code, assigned in string order *)
  e_task : Z;        (* name code, assigned in string order *)
  e_status : Z;      (* 0 success, 1 failure, other = other State names *)
  e_id : Z }.        (* identity of the record (changeset etc.), not inspected *)

Record file := mkF { f_day : Z; f_runid : Z; f_entries : list entry }.
Definition journal := list file.

Definition day_len : Z := 86400000000.
Definition day_of (t : Z) : Z := t / day_len.

(* ---- append: read-modify-write of <day>/<runid>.json ---- *)
Fixpoint append_to (j : journal) (d r : Z) (e : entry) : journal :=
  match j with
  | [] => [mkF d r [e]]                                   (* new file *)
  | f :: t => if (f_day f =? d) && (f_runid f =? r)
              then mkF d r (f_entries f ++ [e]) :: t       (* entries.append(entry) *)
              else f :: append_to t d r e
  end.
Definition append (j : journal) (e : entry) : journal :=
  append_to j (day_of (e_completed e)) (e_runid e) e.

(* ---- schedule.complete: exactly one append with the reply's data ---- *)
Definition complete (j : journal) (now runid target task status id : Z) : journal :=
  append j (mkE now runid target task status id).

(* ---- _most_recent_first: (completed, runid, target, task) ---- *)
Definition ekey (e : entry) : Z * Z * Z * Z := (e_completed e, e_runid e, e_target e, e_task e).
Definition cmp4 : Z * Z * Z * Z -> Z * Z * Z * Z -> comparison :=
  cmp_pair (cmp_pair (cmp_pair Z.compare Z.compare) Z.compare) Z.compare.
Definition key_cmp (x y : entry) : comparison := cmp4 (ekey x) (ekey y).

(* entries.sort(key=..., reverse=True): stable, descending *)
Fixpoint dinsert (x : entry) (l : list entry) : list entry :=
  match l with
  | [] => [x]
  | h :: t => match key_cmp x h with
              | Lt => h :: dinsert x t
              | _ => x :: h :: t
              end
  end.
Definition dsort (l : list entry) : list entry := fold_right dinsert [] l.

(* ---- _load(after, before, journal_dir, succeeded) ---- *)
Definition in_window (a b s : Z) (e : entry) : bool :=
  (a <? e_completed e) && (e_completed e <? b) && (e_status e =? s).
Definition load (a b s : Z) (files : list file) : list entry :=
  dsort (filter (in_window a b s) (flat_map f_entries files)).

(* ---- the calendar: first day of the month / of the year of a day ---- *)
Record cal := mkCal { ms : Z -> Z; ys : Z -> Z }.

Definition has_year (c : cal) (j : journal) (d : Z) : bool :=
  existsb (fun f => ys c (f_day f) =? ys c d) j.          (* isdir(chronicles/YYYY) *)
Definition has_month (c : cal) (j : journal) (d : Z) : bool :=
  existsb (fun f => ms c (f_day f) =? ms c d) j.          (* isdir(.../MM) *)
Definition day_files (j : journal) (d : Z) : list file :=
  filter (fun f => f_day f =? d) j.                        (* listdir(.../DD) *)

Definition under_limit (limit : option Z) (entries : list entry) : bool :=
  match limit with
  | None => true
  | Some n => Z.of_nat (length entries) <? n
  end.

(* the while loop of find; None = out of fuel *)
Fixpoint walk (c : cal) (j : journal) (a b s : Z) (limit : option Z)
         (fuel : nat) (day : Z) (entries : list entry) : option (list entry) :=
  if under_limit limit entries && (day_of a <=? day) then
    match fuel with
    | O => None
    | S fuel' =>
        if has_year c j day then
          if has_month c j day then
            let entries' := match day_files j day with
                            | [] => entries                               (* no DD directory *)
                            | fs => entries ++ load a b s fs
                            end in
            walk c j a b s limit fuel' (day - 1) entries'
          else walk c j a b s limit fuel' (ms c day - 1) entries
        else walk c j a b s limit fuel' (ys c day - 1) entries
    end
  else Some entries.

(* entries[:limit] and entries[-limit:] *)
Definition py_head (limit : option Z) (l : list entry) : list entry :=
  match limit with
  | None => l
  | Some n => if n <? 0 then firstn (Z.to_nat (Z.of_nat (length l) + n)) l
              else firstn (Z.to_nat n) l
  end.
Definition py_tail (n : Z) (l : list entry) : list entry :=
  if n =? 0 then l
  else if n <? 0 then skipn (Z.to_nat (- n)) l
  else skipn (Z.to_nat (Z.of_nat (length l) - n)) l.

Inductive result := Ok (l : list entry) | ValueError | OutOfFuel.

(* find(after, before, limit, succeeded) with datetime.now() = now;
   datetime(1980,1,1) = tick 0 *)
Definition find (c : cal) (j : journal) (after before limit : option Z) (succeeded : bool)
           (now : Z) : result :=
  match after, before, limit with
  | None, None, None => ValueError
  | _, _, _ =>
      let limit := match after, before with Some _, Some _ => None | _, _ => limit end in
      let a := match after with None => 0 | Some t => t end in
      let b := match before with None => now | Some t => t end in
      let s := if succeeded then 0 else 1 in
      let oldest := (0 <? a) && match limit with None => false | Some _ => true end in
      match walk c j a b s limit (Z.to_nat (day_of b - day_of a + 1)) (day_of b) [] with
      | None => OutOfFuel
      | Some es => Ok (if oldest
                       then match limit with Some n => py_tail n es | None => es end
                       else py_head limit es)
      end
  end.

(* ---- fe/api/__init__.py: df_model_statistics(node) once the node is neither
   executing nor pending: the failed, then the succeeded entries completed
   since boot_time whose task is the node; of those, the run with the highest
   id; its most recent completion time and whether that run failed (1),
   succeeded (0) or both (2).  None = one of the two find calls did not
   return a list. ---- *)
Inductive stat := NoStat | Stat (date runid status : Z).
Definition of_task (task : Z) (l : list entry) : list entry :=
  filter (fun e => e_task e =? task) l.
Definition of_run (rid : Z) (l : list entry) : list entry :=
  filter (fun e => e_runid e =? rid) l.
Definition stats (c : cal) (j : journal) (boot now task : Z) : option stat :=
  match find c j (Some boot) None None false now, find c j (Some boot) None None true now with
  | Ok fl, Ok sl =>
      let mf := of_task task fl in
      let msu := of_task task sl in
      match mf ++ msu with
      | [] => Some NoStat
      | e0 :: rest =>
          let rid := fold_left Z.max (map e_runid rest) (e_runid e0) in
          let f' := of_run rid mf in
          let s' := of_run rid msu in
          let status := match f', s' with [], _ => 0 | _, [] => 1 | _, _ => 2 end in
          match f' ++ s' with
          | [] => None
          | m0 :: mr =>
              Some (Stat (fold_left Z.max (map e_completed mr) (e_completed m0)) rid status)
          end
      end
  | _, _ => None
  end.

(* ---- the Gregorian instance (days since 1980-01-01) ---- *)
(* civil_from_days / days_from_civil (H. Hinnant), z = days since 1970-01-01 *)
Definition civil (z : Z) : Z * Z * Z :=
  let z := z + 719468 in
  let era := z / 146097 in
  let doe := z - era * 146097 in
  let yoe := (doe - doe / 1460 + doe / 36524 - doe / 146096) / 365 in
  let y := yoe + era * 400 in
  let doy := doe - (365 * yoe + yoe / 4 - yoe / 100) in
  let mp := (5 * doy + 2) / 153 in
  let d := doy - (153 * mp + 2) / 5 + 1 in
  let m := if mp <? 10 then mp + 3 else mp - 9 in
  (if m <=? 2 then y + 1 else y, m, d).
Definition days_from_civil (y m d : Z) : Z :=
  let y := if m <=? 2 then y - 1 else y in
  let era := y / 400 in
  let yoe := y - era * 400 in
  let doy := (153 * (if m >? 2 then m - 3 else m + 9) + 2) / 5 + d - 1 in
  let doe := yoe * 365 + yoe / 4 - yoe / 100 + doy in
  era * 146097 + doe - 719468.
Definition epoch1980 : Z := 3652.   (* 1980-01-01 in days since 1970-01-01 *)
Definition greg_ms (d : Z) : Z :=
  let '(y, m, _) := civil (d + epoch1980) in days_from_civil y m 1 - epoch1980.
Definition greg_ys (d : Z) : Z :=
  let '(y, _, _) := civil (d + epoch1980) in days_from_civil y 1 1 - epoch1980.
(* the instance is Gregorian for 1980-01-01 .. 2100-12-31 (days 0 .. 44194);
   outside that range every day is a month and a year of its own.  The
   result of find does not depend on the calendar (Proofs/ChronProofs.v), only
   the path of the walk does. *)
Definition cal_lo : Z := 0.
Definition cal_hi : Z := 44195.
Definition clampf (f : Z -> Z) (d : Z) : Z := if (cal_lo <=? d) && (d <? cal_hi) then f d else d.
Definition greg : cal := mkCal (clampf greg_ms) (clampf greg_ys).

(* ---- Examples ---- *)
Example civil_ex : civil 0 = (1970, 1, 1) /\ civil (epoch1980) = (1980, 1, 1)
                   /\ civil 19782 = (2024, 2, 29) /\ days_from_civil 2024 2 29 = 19782.
Proof. vm_compute. repeat split. Qed.
Example greg_ex : greg_ms 59 = 31 /\ greg_ms 60 = 60 /\ greg_ys 365 = 0 /\ greg_ys 366 = 366
                  /\ days_from_civil 2101 1 1 - epoch1980 = cal_hi.
Proof. vm_compute. repeat split. Qed.

(* the design-phase witness: entries on 2026-01-09 15:00 (id 1), 01-10 08:00
   (id 2), 01-09 09:00 (id 3), 2025-12-31 23:59 (id 4); ticks in microseconds *)
Definition tick (y m d hh mm : Z) : Z :=
  (days_from_civil y m d - epoch1980) * day_len + (hh * 3600 + mm * 60) * 1000000.
Definition ex_journal : journal :=
  fold_left append
    [ mkE (tick 2026 1 9 15 0) 1 0 0 0 1; mkE (tick 2026 1 10 8 0) 2 0 0 0 2;
      mkE (tick 2026 1 9 9 0) 3 0 0 0 3; mkE (tick 2025 12 31 23 59) 4 0 0 0 4 ] [].
Definition ids (r : result) : list Z := match r with Ok l => map e_id l | _ => [-1] end.

Example find_window_ex :
  ids (find greg ex_journal (Some (tick 2026 1 9 10 0)) (Some (tick 2026 1 10 9 0)) None true 0) = [2; 1].
Proof. vm_compute. reflexivity. Qed.
Example stats_ex :
  stats greg ex_journal (tick 2026 1 1 0 0) (tick 2026 2 1 0 0) 0 = Some (Stat (tick 2026 1 9 9 0) 3 0)
  /\ stats greg ex_journal (tick 2026 1 1 0 0) (tick 2026 2 1 0 0) 7 = Some NoStat.
Proof. vm_compute. split; reflexivity. Qed.
Example find_before_ex :
  ids (find greg ex_journal None (Some (tick 2026 1 10 9 0)) (Some 3) true 0) = [2; 1; 3]
  /\ ids (find greg ex_journal None None (Some 10) true (tick 2026 2 1 0 0)) = [2; 1; 3; 4].
Proof. vm_compute. split; reflexivity. Qed.
