(* Model/Client.v -- C14 (and the client half of C13): the blocking, socket
   side of the framing: dawgie.pl.message.send / receive,
   dawgie.db.shelve.comms.Connector.__do, comms.acquire / comms.release.

     def receive(s):                          def send(m, s):
         buf = b''                                stream = dumps(m)
         while len(buf) < 4:                      return s.sendall(struct.pack('>I', len(stream)) + stream)
             buf += s.recv(4 - len(buf))
         length = struct.unpack('>I', buf)[0]
         buf = b''
         while len(buf) < length:
             buf += s.recv(length - len(buf))
         return loads(buf)

   A socket is the list of chunks the kernel will hand out, in order; recv(k)
   returns at most k bytes and never crosses a chunk boundary.  An exhausted
   socket returns b'' for ever (EOF): the real loops then never end -- the model
   runs out of fuel (None).  Definitions only. *)
From Coq Require Import List ZArith Bool.
From DV Require Import Model.Frame.
Import ListNotations.
Open Scope Z_scope.

Definition sock := list (list Z).

(* s.recv(k) *)
Definition recv (k : Z) (s : sock) : list Z * sock :=
  match s with
  | [] => ([], [])
  | c :: r =>
      if k <? Z.of_nat (length c)
      then (firstn (Z.to_nat k) c, skipn (Z.to_nat k) c :: r)
      else (c, r)
  end.

(* while len(buf) < n: buf += s.recv(n - len(buf)) *)
Fixpoint recv_exact (fuel : nat) (n : Z) (buf : list Z) (s : sock) : option (list Z * sock) :=
  if Z.of_nat (length buf) <? n then
    match fuel with
    | O => None
    | S f => let '(d, s') := recv (n - Z.of_nat (length buf)) s in recv_exact f n (buf ++ d) s'
    end
  else Some (buf, s).

(* every recv in a loop takes a whole chunk or ends the loop: |s| calls suffice *)
Definition receive (s : sock) : option (list Z * sock) :=
  match recv_exact (length s) 4 [] s with
  | None => None
  | Some (hdr, s1) => recv_exact (length s1) (be32 hdr) [] s1
  end.

(* k messages in a row from the same socket *)
Fixpoint receive_n (k : nat) (s : sock) : option (list (list Z) * sock) :=
  match k with
  | O => Some ([], s)
  | S k' =>
      match receive s with
      | None => None
      | Some (p, s1) =>
          match receive_n k' s1 with
          | None => None
          | Some (ps, s2) => Some (p :: ps, s2)
          end
      end
  end.

(* message.send(m, s) / Worker._send(response): one sendall of header + payload *)
Definition send (p : list Z) : list Z := frame p.

(* comms.acquire: after sending the request,
     buf = b''
     while buf != Mutex.unlock: buf = message.receive(s)
   yours p = (loads(p) == Mutex.unlock), an oracle decided by pickle.
   Returns the statuses read (the last one is the "yours") and the socket. *)
Fixpoint acquire_wait (fuel : nat) (yours : list Z -> bool) (s : sock)
  : option (list (list Z) * sock) :=
  match fuel with
  | O => None
  | S f =>
      match receive s with
      | None => None
      | Some (p, s1) =>
          if yours p then Some ([p], s1)
          else match acquire_wait f yours s1 with
               | None => None
               | Some (ps, s2) => Some (p :: ps, s2)
               end
      end
  end.

(* ---- correspondence helpers ---------------------------------------------------- *)
Definition obs_recv (tbl : list (list Z)) (r : option (list (list Z) * sock)) :=
  match r with
  | None => ([[-9]], @nil (list Z))
  | Some (ps, s) => (map (fun p => obs_out tbl (Deliver p)) ps, s)
  end.

Example receive_example :
  receive_n 2 [[0;0]; [0;2;7]; [8;0;0;0;1;9;5]] = Some ([[7;8]; [9]], [[5]]).
Proof. vm_compute. reflexivity. Qed.
Example receive_eof : receive [[0;0;0;2;7]] = None.
Proof. vm_compute. reflexivity. Qed.
Example acquire_example :
  acquire_wait 5 (fun p => list_eqb p [1]) [[0;0;0;1;0;0]; [0;0;1;0;0;0;0;1;1;0;0]]
  = Some ([[0]; [0]; [1]], [[0;0]]).
Proof. vm_compute. reflexivity. Qed.
