(* Dag.v -- executable model of dawgie.pl.dag.Construct (C09).

   Input: the engine descriptor of DESIGN Appendix A.1 rendered as a Gallina
   term by tools/harness/engine_gen.to_gallina (names are nat ids; a dotted
   name "pkg.alg.sv.val" is the list [pkg; alg; sv; val], so that
   Construct.trim(tag, L) is [firstn L]).

   One Gallina function per Python function:
     expand            util.refs.as_vref + vref_as_name
     events/flat_order/edges/roots
                       Construct._build_tree + _sub_task/_sub_analysis/
                       _sub_regression (the three are the same code)
     fb_of/feedbacks   Construct._feedback
     par_dfs           Construct._parents
     anc_loop/ancestry Construct._ancestry
     trim_dfs/...      Construct._trim_trees + Node.trim
     lvl_dfs           Node.graph (the 'level' attribute only)

   Python sets are lists without duplicates; the two places where the code
   iterates a set and the ORDER is observable downstream (self._roots and a
   node's 'feedback' set -- they determine the order of children of the trimmed
   nodes and the DFS levels) take the iteration order as an oracle argument
   ([reorder]); the members are always computed by the model.
   Python recursion / while loops run on fuel; Proofs/DagProofs.v shows that the
   fuel [dfuel] used by [construct] suffices for every engine with a rank
   witness. *)
From Coq Require Import List Arith Bool ZArith.
Import ListNotations.

(* ---------------------------------------------------------------- engine *)
Definition name := list nat.
Definition ver := (Z * Z * Z)%type.
Inductive rlvl := LAlg | LSv | LV.
Inductive fkind := Task | Analysis | Regress.
Record ref := mkRef { r_lvl : rlvl; r_pkg : nat; r_fac : fkind; r_alg : nat;
                      r_sv : nat; r_val : nat }.
Record svd := mkSv { sv_name : nat; sv_ver : ver; sv_vals : list (nat * ver) }.
Record algd := mkAlg { a_name : nat; a_ver : ver; a_svs : list svd;
                       a_deps : list ref; a_fb : list ref }.
Record pkgd := mkPkg { p_name : nat; p_task : list algd;
                       p_analysis : list algd; p_regress : list algd }.
Definition engine := list pkgd.

(* ------------------------------------------------------- names and sets *)
Fixpoint name_eqb (a b : name) : bool :=
  match a, b with
  | [], [] => true
  | x :: a', y :: b' => Nat.eqb x y && name_eqb a' b'
  | _, _ => false
  end.
Definition pair_eqb (a b : name * name) : bool :=
  name_eqb (fst a) (fst b) && name_eqb (snd a) (snd b).

Definition mem (x : name) (l : list name) : bool := existsb (name_eqb x) l.
Definition memp (x : name * name) (l : list (name * name)) : bool :=
  existsb (pair_eqb x) l.
(* set.add / Node.add: append unless present *)
Definition add_uniq (l : list name) (x : name) := if mem x l then l else l ++ [x].
Definition addp_uniq (l : list (name * name)) (x : name * name) :=
  if memp x l then l else l ++ [x].
Definition adds (l xs : list name) := fold_left add_uniq xs l.
Definition addps (l xs : list (name * name)) := fold_left addp_uniq xs l.
(* iteration order of a python set: the oracle's order on the model's members *)
Definition reorder (oracle own : list name) : list name :=
  filter (fun x => mem x own) (adds [] oracle)
  ++ filter (fun x => negb (mem x oracle)) own.

Definition trim (L : nat) (n : name) : name := firstn L n.

(* ------------------------------------------------ reference expansion *)
Definition algs_of_kind (k : fkind) (p : pkgd) : list algd :=
  match k with Task => p_task p | Analysis => p_analysis p | Regress => p_regress p end.
Definition find_alg (e : engine) (pkg : nat) (k : fkind) (alg : nat) : option algd :=
  match find (fun p => Nat.eqb (p_name p) pkg) e with
  | None => None
  | Some p => find (fun a => Nat.eqb (a_name a) alg) (algs_of_kind k p)
  end.
Definition sv_values (pkg alg : nat) (s : svd) : list name :=
  map (fun v => [pkg; alg; sv_name s; fst v]) (sv_vals s).
Definition own (pkg : nat) (a : algd) : list name :=
  flat_map (sv_values pkg (a_name a)) (a_svs a).
(* as_vref: a V_REF is yielded as it is; SV_REF -> its keys; ALG_REF -> all *)
Definition expand (e : engine) (r : ref) : list name :=
  match r_lvl r with
  | LV => [[r_pkg r; r_alg r; r_sv r; r_val r]]
  | LSv =>
      match find_alg e (r_pkg r) (r_fac r) (r_alg r) with
      | None => []
      | Some a =>
          match find (fun s => Nat.eqb (sv_name s) (r_sv r)) (a_svs a) with
          | None => []
          | Some s => sv_values (r_pkg r) (a_name a) s
          end
      end
  | LAlg =>
      match find_alg e (r_pkg r) (r_fac r) (r_alg r) with
      | None => []
      | Some a => own (r_pkg r) a
      end
  end.
Definition expands (e : engine) (rs : list ref) : list name := flat_map (expand e) rs.

(* ------------------------------------------------------- _build_tree x3 *)
Record balg := mkB { b_pkg : nat; b_kind : fkind; b_alg : algd }.
Definition kind_algs (k : fkind) (e : engine) : list balg :=
  flat_map (fun p => map (mkB (p_name p) k) (algs_of_kind k p)) e.
(* Construct.__init__: analysis, regress, task *)
Definition build_order (e : engine) : list balg :=
  kind_algs Analysis e ++ kind_algs Regress e ++ kind_algs Task e.
Definition b_own (b : balg) : list name := own (b_pkg b) (b_alg b).
Definition b_ins (e : engine) (b : balg) : list name := expands e (a_deps (b_alg b)).
Definition b_tag (b : balg) : name := [b_pkg b; a_name (b_alg b)].

(* one iteration of the innermost loop of _build_tree: the value fn, whether
   its algorithm has no inputs, the expanded parent names *)
Record vev := mkEv { ve_fn : name; ve_root : bool; ve_ps : list name }.
Definition is_nil {A} (l : list A) : bool := match l with [] => true | _ => false end.
Definition alg_events (e : engine) (b : balg) : list vev :=
  map (fun fn => mkEv fn (is_nil (a_deps (b_alg b))) (b_ins e b)) (b_own b).
Definition events (e : engine) : list vev := flat_map (alg_events e) (build_order e).

(* keys of self._flat in insertion order *)
Definition flat_order (evs : list vev) : list name :=
  fold_left (fun ord ev => adds (add_uniq ord (ve_fn ev)) (ve_ps ev)) evs [].
(* (parent, child) in the order the children were appended *)
Definition edges (evs : list vev) : list (name * name) :=
  fold_left (fun ed ev => addps ed (map (fun p => (p, ve_fn ev)) (ve_ps ev))) evs [].
Definition roots (evs : list vev) : list name :=
  fold_left (fun r ev => if ve_root ev then add_uniq r (ve_fn ev) else r) evs [].
(* list(node): children of a value-level node *)
Definition kids (E : list (name * name)) (n : name) : list name :=
  map snd (filter (fun pc => name_eqb (fst pc) n) E).

(* ------------------------------------------------------------ _feedback *)
(* node.get('alg'): the algorithm object the node was created for.  Tags are
   "pkg.alg....": for engines whose (package, algorithm) names are unique this
   is the first algorithm in construction order with that prefix. *)
Definition owner (e : engine) (n : name) : option balg :=
  find (fun b => name_eqb (b_tag b) (trim 2 n)) (build_order e).
(* as_vref(node.get('alg').feedback()) as names *)
Definition fb_of (e : engine) (n : name) : list name :=
  match owner e n with Some b => expands e (a_fb (b_alg b)) | None => [] end.
Fixpoint dict_set (d : list (name * name)) (k v : name) : list (name * name) :=
  match d with
  | [] => [(k, v)]
  | (k', v') :: d' =>
      if name_eqb k' k then (k', v) :: d' else (k', v') :: dict_set d' k v
  end.
(* self._feedbacks: fed-back value name -> tag of the LAST consumer in _flat order *)
Definition feedbacks (e : engine) (ord : list name) : list (name * name) :=
  fold_left (fun d n => fold_left (fun d f => dict_set d f n) (fb_of e n) d) ord [].
Definition dict_get (d : list (name * name)) (k : name) : option name :=
  match find (fun kv => name_eqb (fst kv) k) d with Some kv => Some (snd kv) | None => None end.

(* ------------------------------------------------------------- _parents *)
Definition xkids (E : list (name * name)) (n : name) : list name :=
  filter (fun c => negb (name_eqb (trim 2 c) (trim 2 n))) (kids E n).
(* state: known tags, (child, parent) marks *)
Definition pst := (list name * list (name * name))%type.
Fixpoint par_dfs (E : list (name * name)) (fuel : nat) (nodes : list name) (st : pst) : pst :=
  match fuel with
  | 0 => st
  | S f =>
      fold_left
        (fun st node =>
           let known := add_uniq (fst st) node in
           let ch := xkids E node in
           let par := addps (snd st) (map (fun c => (c, node)) ch) in
           par_dfs E f (filter (fun c => negb (mem c known)) ch) (known, par))
        nodes st
  end.
Definition parents_of (P : list (name * name)) (n : name) : list name :=
  map snd (filter (fun cp => name_eqb (fst cp) n) P).

(* ------------------------------------------------------------ _ancestry *)
Fixpoint anc_loop (P : list (name * name)) (fuel : nat) (nm : name)
         (heritage parents : list name) : list name :=
  match fuel with
  | 0 => heritage
  | S f =>
      match parents with
      | [] => heritage
      | _ =>
          let grands :=
            fold_left (fun g p => adds g (parents_of P p))
                      (filter (fun p => negb (name_eqb p nm)) parents) [] in
          anc_loop P f nm (adds heritage grands) grands
      end
  end.
Definition ancestry (P : list (name * name)) (fuel : nat) (nm : name) : list name :=
  let h := adds [] (parents_of P nm) in anc_loop P fuel nm h h.

(* ------------------------------------------- _trim_trees / Node.trim *)
(* what a call of Node.trim does to the short nodes, in execution order *)
Inductive tev := EKid (x y : name) | EFb (x y : name).
Definition tst := (list name * list tev)%type.   (* visitors, log *)
Fixpoint trim_dfs (K FB : name -> list name) (L fuel : nat) (v : name) (st : tst) : tst :=
  if mem v (fst st) then st else
  match fuel with
  | 0 => st
  | S f =>
      let st1 := (fst st ++ [v], snd st) in
      let st2 :=
        fold_left (fun s x => let s' := trim_dfs K FB L f x s in
                              (fst s', snd s' ++ [EFb (trim L v) (trim L x)]))
                  (FB v) st1 in
      fold_left (fun s c => let s' := trim_dfs K FB L f c s in
                            (fst s', snd s' ++ [EKid (trim L v) (trim L c)]))
                (K v) st2
  end.
Definition trim_run (K FB : name -> list name) (L fuel : nat) (rts : list name) : tst :=
  fold_left (fun s r => trim_dfs K FB L fuel r s) rts ([], []).
Definition kid_of (x : name) (t : tev) : list name :=
  match t with EKid a b => if name_eqb a x then [b] else [] | _ => [] end.
Definition fbk_of (x : name) (t : tev) : list name :=
  match t with EFb a b => if name_eqb a x then [b] else [] | _ => [] end.
(* children / feedback of the short node x *)
Definition skids (log : list tev) (x : name) : list name := adds [] (flat_map (kid_of x) log).
Definition sfb (log : list tev) (x : name) : list name := adds [] (flat_map (fbk_of x) log).
(* L = 2: union of the trimmed attribute over the value nodes mapped to x *)
Definition slift (vis : list name) (f : name -> list name) (x : name) : list name :=
  adds [] (flat_map (fun v => if name_eqb (trim 2 v) x then map (trim 2) (f v) else []) vis).

(* --------------------------------------------------- Node.graph: level *)
Definition lmem (x : name) (l : list (name * nat)) : bool :=
  existsb (fun kv => name_eqb (fst kv) x) l.
Fixpoint lvl_dfs (K : name -> list name) (fuel lv : nat) (x : name)
         (st : list (name * nat)) : list (name * nat) :=
  if lmem x st then st else
  match fuel with
  | 0 => st
  | S f => fold_left (fun s c => lvl_dfs K f (S lv) c s) (K x) (st ++ [(x, lv)])
  end.
Definition lvl_run (K : name -> list name) (fuel : nat) (rts : list name) :=
  fold_left (fun s r => lvl_dfs K fuel 0 r s) rts [].
(* None: the node was never reached by graph() (python: attribute absent) *)
Definition lvl_get (l : list (name * nat)) (x : name) : option nat :=
  match find (fun kv => name_eqb (fst kv) x) l with Some kv => Some (snd kv) | None => None end.

(* ------------------------------------------------------------ Construct *)
Record dag := mkDag {
  d_flat : list name;                 (* list(self._flat) *)
  d_edges : list (name * name);       (* value level (parent, child) *)
  d_roots : list name;                (* self._roots, iteration order *)
  d_fbs : list (name * name);         (* self._feedbacks.items() *)
  d_par : list (name * name);         (* value level (child, parent) *)
  d_fuel : nat;
  d_vis : nat -> list name;           (* L -> value nodes visited by trim *)
  d_log : nat -> list tev;
  d_lvl : nat -> list (name * nat);   (* L -> level attribute (4 = value tree) *)
  d_ancs : list (name * list name)    (* value node -> its 'ancestry' set *)
}.
Definition dfuel (e : engine) (fl : list name) : nat := S (length (build_order e) + length fl).

(* ro: iteration order of the set self._roots; fo: of each node's feedback set *)
Definition construct (e : engine) (ro : list name) (fo : name -> list name) : dag :=
  let evs := events e in
  let fl := flat_order evs in
  let E := edges evs in
  let rts := reorder ro (roots evs) in
  let fuel := dfuel e fl in
  let P := snd (par_dfs E fuel rts ([], [])) in
  let FB := fun v => reorder (fo v) (adds [] (fb_of e v)) in
  let tr := fun L => trim_run (kids E) FB L fuel rts in
  (* the three trees the code builds are computed once (tables), any other
     granularity on demand *)
  let tr1 := tr 1 in let tr2 := tr 2 in let tr3 := tr 3 in
  let trf := fun L => match L with 1 => tr1 | 2 => tr2 | 3 => tr3 | _ => tr L end in
  let lv := fun L =>
    if Nat.eqb L 4 then lvl_run (kids E) fuel rts
    else lvl_run (skids (snd (trf L))) fuel (map (trim L) rts) in
  let lv1 := lv 1 in let lv2 := lv 2 in let lv3 := lv 3 in let lv4 := lv 4 in
  let lvf := fun L => match L with 1 => lv1 | 2 => lv2 | 3 => lv3 | 4 => lv4 | _ => lv L end in
  mkDag fl E rts (feedbacks e fl) P fuel (fun L => fst (trf L)) (fun L => snd (trf L)) lvf
        (map (fun n => (n, ancestry P fuel n)) fl).

Definition d_anc (d : dag) (n : name) : list name :=
  match find (fun kv => name_eqb (fst kv) n) (d_ancs d) with
  | Some kv => snd kv
  | None => ancestry (d_par d) (d_fuel d) n
  end.
(* the trees *)
Definition t_roots (d : dag) (L : nat) : list name := map (trim L) (d_roots d).   (* at / svt / tt *)
Definition t_kids (d : dag) (L : nat) (x : name) : list name := skids (d_log d L) x.
Definition t_fb (d : dag) (L : nat) (x : name) : list name := sfb (d_log d L) x.
Definition t_anc (d : dag) (x : name) : list name := slift (d_vis d 2) (d_anc d) x.
Definition t_par (d : dag) (x : name) : list name := slift (d_vis d 2) (parents_of (d_par d)) x.
Definition t_nodes (d : dag) (L : nat) : list name := adds [] (map (trim L) (d_vis d L)).
Definition t_lvl (d : dag) (L : nat) (x : name) : option nat := lvl_get (d_lvl d L) x.

(* -------------------------- per-algorithm data for the scheduler model *)
Record gnode := mkG {
  g_tag : name;            (* [pkg; alg] *)
  g_kids : list name;      (* children in Construct.at *)
  g_anc : list name;       (* the 'ancestry' attribute *)
  g_asp : bool;            (* factory is analysis *)
  g_fac : fkind;
  g_lvl : nat;             (* the 'level' attribute *)
  g_ins : list name;       (* as_vref(_priors(alg)) as value names *)
  g_outs : list name       (* own value names *)
}.
Definition kind_eqb (a b : fkind) : bool :=
  match a, b with Task, Task | Analysis, Analysis | Regress, Regress => true | _, _ => false end.
Definition gnode_of (e : engine) (d : dag) (b : balg) : gnode :=
  mkG (b_tag b) (t_kids d 2 (b_tag b)) (t_anc d (b_tag b))
      (kind_eqb (b_kind b) Analysis) (b_kind b)
      (match t_lvl d 2 (b_tag b) with Some l => l | None => 0 end)
      (b_ins e b) (b_own b).
(* one record per node of Construct.at, and Construct.feedbacks *)
Definition graph_of (e : engine) (ro : list name) (fo : name -> list name)
  : list gnode * list (name * name) :=
  let d := construct e ro fo in
  (map (gnode_of e d)
       (filter (fun b => mem (b_tag b) (t_nodes d 2)) (build_order e)),
   d_fbs d).

(* ------------------------- hypotheses of the theorems, as a boolean check *)
(* rank witness: an association list tag -> rank (absent = 0) *)
Definition rank_of (rk : list (name * nat)) (x : name) : nat :=
  match find (fun kv => name_eqb (fst kv) x) rk with Some kv => snd kv | None => 0 end.
Fixpoint nodupb (l : list name) : bool :=
  match l with [] => true | x :: l' => negb (mem x l') && nodupb l' end.
Definition ownedb (e : engine) (p : name) : bool :=
  existsb (fun b => mem p (b_own b)) (build_order e).
(* unique (package, algorithm) names; every reference resolves to at least one
   owned value; every declared input has a strictly smaller rank than its
   consumer; ranks are below the number of algorithms *)
Definition wf_engineb (e : engine) (rk : list (name * nat)) : bool :=
  let bo := build_order e in
  nodupb (map b_tag bo) &&
  forallb (fun b =>
    forallb (fun r => negb (is_nil (expand e r))) (a_deps (b_alg b)) &&
    forallb (ownedb e) (b_ins e b) &&
    forallb (ownedb e) (expands e (a_fb (b_alg b))) &&
    forallb (fun p => Nat.ltb (rank_of rk (trim 2 p)) (rank_of rk (b_tag b))) (b_ins e b) &&
    Nat.ltb (rank_of rk (b_tag b)) (length bo)) bo.

(* --------------------------------------------- observation (harness) *)
Definition assoc_fo (l : list (name * list name)) (v : name) : list name :=
  match find (fun kv => name_eqb (fst kv) v) l with Some kv => snd kv | None => [] end.
Definition obs_tree (d : dag) (L : nat) :=
  let log := d_log d L in
  let lv := d_lvl d L in
  (t_roots d L,
   map (fun x => (x, skids log x, sfb log x, lvl_get lv x)) (t_nodes d L)).
Definition observe (e : engine) (ro : list name) (fo : list (name * list name)) :=
  let d := construct e ro (assoc_fo fo) in
  let lv4 := d_lvl d 4 in
  let vis2 := d_vis d 2 in
  let nodes2 := t_nodes d 2 in
  let anc2 := map (fun x => (x, slift vis2 (d_anc d) x, slift vis2 (parents_of (d_par d)) x)) nodes2 in
  (d_flat d, d_roots d,
   map (fun n => (n, kids (d_edges d) n, parents_of (d_par d) n, d_anc d n,
                  adds [] (fb_of e n), lvl_get lv4 n)) (d_flat d),
   d_fbs d,
   (obs_tree d 2, anc2),
   obs_tree d 3, obs_tree d 1,
   (* = fst (graph_of e ro fo), without running construct twice *)
   map (fun g => (g_tag g, g_kids g, g_anc g, g_asp g, g_fac g, g_lvl g, g_ins g, g_outs g))
       (map (gnode_of e d) (filter (fun b => mem (b_tag b) nodes2) (build_order e)))).

(* ------------------------------------------------------------- examples *)
(* a0 -> a1 -> a2, a0 -> a2 (value ref), a0 consumes a2's value as feedback *)
Definition ex_sv := [mkSv 10 (1,0,0)%Z [(20, (1,0,0)%Z); (21, (1,0,0)%Z)]].
Definition ex_eng : engine :=
  [mkPkg 1
     [mkAlg 2 (1,0,0)%Z ex_sv [] [mkRef LV 1 Task 4 10 20];
      mkAlg 3 (1,0,0)%Z ex_sv [mkRef LAlg 1 Task 2 0 0] [];
      mkAlg 4 (1,0,0)%Z ex_sv [mkRef LSv 1 Task 3 10 0; mkRef LV 1 Task 2 10 21] []]
     [] []].
Definition ex_dag := construct ex_eng [] (fun _ => []).
Example ex_nodes : t_nodes ex_dag 2 = [[1;2]; [1;4]; [1;3]].
Proof. vm_compute. reflexivity. Qed.
Example ex_kids : t_kids ex_dag 2 [1;2] = [[1;3]; [1;4]] /\ t_kids ex_dag 2 [1;3] = [[1;4]]
                  /\ t_kids ex_dag 2 [1;4] = [].
Proof. vm_compute. repeat split. Qed.
Example ex_anc : t_anc ex_dag [1;4] = [[1;3]; [1;2]] /\ t_anc ex_dag [1;2] = [].
Proof. vm_compute. repeat split. Qed.
Example ex_fb : d_fbs ex_dag = [([1;4;10;20], [1;2;10;21])] /\ t_fb ex_dag 2 [1;2] = [[1;4]].
Proof. vm_compute. repeat split. Qed.
Definition ex_rank : list (name * nat) := [([1;2], 0); ([1;3], 1); ([1;4], 2)].
Example ex_wf : wf_engineb ex_eng ex_rank = true.
Proof. vm_compute. reflexivity. Qed.
Example ex_lvl : map (t_lvl ex_dag 2) [[1;2]; [1;3]; [1;4]] = [Some 0; Some 1; Some 2].
Proof. vm_compute. reflexivity. Qed.
