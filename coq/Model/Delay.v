(* Model/Delay.v -- executable model of the timer events of dawgie.pl.schedule:
   _delay, defer, (the effect of) periodics, booted, and -- as a small
   self-contained piece, NOT the scheduler model of Model/Sched.v -- the
   status changes of farm.dispatch and schedule.complete that decide whether
   a periodic event can fire again.

   Calendar: proleptic Gregorian, as python's datetime.  A date is the civil
   triple (y, m, d); ord y m d is date.toordinal() (validated against python
   on every run); weekday o = isoweekday() - 1.  An instant is (ordinal day,
   second of day, microsecond); all differences are in microseconds (python:
   timedelta, exact integers).

   One Gallina function per python function, same branch structure:
     mk_dt        datetime.datetime(year=.., month=.., day=.., hour=.., ...)
                  (None = ValueError)
     delay_then   the `else:` part of _delay (three sequential `if`s: day, dom,
                  dow, a later one overriding an earlier one)
     delay        _delay (boot branch + booted list)
     run_period / run_per / defer    the loops of defer()
     dispatch     next_job_batch + farm.dispatch for queued nodes that have no
                  queued ancestor: todo -> doing, status running
     complete     schedule.complete: doing shrinks; when nothing is left the
                  job leaves que (one list.remove) and becomes `waiting` *)
From Coq Require Import ZArith List Bool Lia.
Import ListNotations.
Local Open Scope Z_scope.

(* ---------------- calendar ---------------- *)
Definition is_leap (y : Z) : bool :=
  (y mod 4 =? 0) && (negb (y mod 100 =? 0) || (y mod 400 =? 0)).

Definition days_in_month (y m : Z) : Z :=
  if m =? 2 then (if is_leap y then 29 else 28)
  else if (m =? 4) || (m =? 6) || (m =? 9) || (m =? 11) then 30
  else if (1 <=? m) && (m <=? 12) then 31
  else 0.

Definition days_before_year (y : Z) : Z :=
  let p := y - 1 in p * 365 + p / 4 - p / 100 + p / 400.

Definition dbm_common (m : Z) : Z :=
  if m =? 1 then 0 else if m =? 2 then 31 else if m =? 3 then 59
  else if m =? 4 then 90 else if m =? 5 then 120 else if m =? 6 then 151
  else if m =? 7 then 181 else if m =? 8 then 212 else if m =? 9 then 243
  else if m =? 10 then 273 else if m =? 11 then 304 else 334.

Definition days_before_month (y m : Z) : Z :=
  dbm_common m + (if (2 <? m) && is_leap y then 1 else 0).

(* date(y, m, d).toordinal() *)
Definition ord (y m d : Z) : Z := days_before_year y + days_before_month y m + d.

Definition MAXORD : Z := 3652059.   (* date.max.toordinal() *)

(* isoweekday() - 1 : Monday = 0 *)
Definition weekday (o : Z) : Z := (o + 6) mod 7.

Definition valid_dateb (y m d : Z) : bool :=
  (1 <=? y) && (y <=? 9999) && (1 <=? m) && (m <=? 12) &&
  (1 <=? d) && (d <=? days_in_month y m).

Definition valid_timeb (t : Z * Z * Z) : bool :=
  let '(h, mi, s) := t in
  (0 <=? h) && (h <? 24) && (0 <=? mi) && (mi <? 60) && (0 <=? s) && (s <? 60).

Definition sod_of (t : Z * Z * Z) : Z := let '(h, mi, s) := t in h * 3600 + mi * 60 + s.

Definition US : Z := 1000000.
Definition DAYUS : Z := 86400 * US.

Record instant : Set := mkI { i_ord : Z; i_sod : Z; i_us : Z }.
Definition inst_us (t : instant) : Z := i_ord t * DAYUS + i_sod t * US + i_us t.

(* datetime.datetime.now(datetime.UTC) *)
Record clock : Set := mkNow { n_y : Z; n_m : Z; n_d : Z; n_sod : Z; n_us : Z }.
Definition now_inst (c : clock) : instant :=
  mkI (ord (n_y c) (n_m c) (n_d c)) (n_sod c) (n_us c).
Definition valid_clockb (c : clock) : bool :=
  valid_dateb (n_y c) (n_m c) (n_d c) && (0 <=? n_sod c) && (n_sod c <? 86400) &&
  (0 <=? n_us c) && (n_us c <? US).

(* ---------------- events ---------------- *)
(* dawgie.MOMENT(boot, day, dom, dow, time); None = not given *)
Record moment : Set := mkM {
  m_boot : option bool; m_day : option (Z * Z * Z); m_dom : option Z;
  m_dow : option Z; m_time : option (Z * Z * Z) }.
(* dawgie.EVENT(algref, moment); the algorithm reference is an id *)
Definition event : Set := (nat * moment)%type.

Definition opt_eqb {A : Type} (eqb : A -> A -> bool) (a b : option A) : bool :=
  match a, b with
  | None, None => true
  | Some x, Some y => eqb x y
  | _, _ => false
  end.
Definition z3_eqb (a b : Z * Z * Z) : bool :=
  let '(a1, a2, a3) := a in let '(b1, b2, b3) := b in
  (a1 =? b1) && (a2 =? b2) && (a3 =? b3).
Definition moment_eqb (a b : moment) : bool :=
  opt_eqb Bool.eqb (m_boot a) (m_boot b) && opt_eqb z3_eqb (m_day a) (m_day b) &&
  opt_eqb Z.eqb (m_dom a) (m_dom b) && opt_eqb Z.eqb (m_dow a) (m_dow b) &&
  opt_eqb z3_eqb (m_time a) (m_time b).
Definition event_eqb (a b : event) : bool :=
  Nat.eqb (fst a) (fst b) && moment_eqb (snd a) (snd b).

Inductive err : Set := ValueError | OverflowError | AttributeError.
Inductive res (A : Type) : Type := Val (a : A) | Fail (e : err).
Arguments Val {A} a.
Arguments Fail {A} e.

(* datetime.datetime(year=y, month=m, day=d, hour=.., minute=.., second=..,
   tzinfo=UTC); reading when.moment.time.hour of a missing time raises
   AttributeError before the constructor is entered *)
Definition mk_dt (y m d : Z) (time : option (Z * Z * Z)) : res instant :=
  match time with
  | None => Fail AttributeError
  | Some t =>
      if valid_dateb y m d && valid_timeb t then Val (mkI (ord y m d) (sod_of t) 0)
      else Fail ValueError
  end.

Definition MAXTD : Z := 999999999.   (* timedelta.max.days *)

(* the `else:` branch of _delay: then = now, then the three `if`s in order *)
Definition delay_then (mo : moment) (now : clock) : res instant :=
  let t0 := now_inst now in
  match (match m_day mo with
         | None => Val t0
         | Some (y, m, d) => mk_dt y m d (m_time mo)
         end) with
  | Fail e => Fail e
  | Val t1 =>
      match (match m_dom mo with
             | None => Val t1
             | Some dom =>
                 let nm := n_m now + 1 in
                 mk_dt (n_y now + (if nm =? 13 then 1 else 0))
                       (if nm =? 13 then 1 else nm) dom (m_time mo)
             end) with
      | Fail e => Fail e
      | Val t2 =>
          match m_dow mo with
          | None => Val t2
          | Some dow =>
              let today := weekday (ord (n_y now) (n_m now) (n_d now)) in
              let dd := if dow <? today then 7 + dow - today else dow - today in
              if (dd <? - MAXTD) || (MAXTD <? dd) then Fail OverflowError
              else
                match mk_dt (n_y now) (n_m now) (n_d now) (m_time mo) with
                | Fail e => Fail e
                | Val b =>
                    let o := i_ord b + dd in
                    if (1 <=? o) && (o <=? MAXORD) then Val (mkI o (i_sod b) 0)
                    else Fail OverflowError
                end
          end
      end
  end.

Inductive dres : Set :=
| Ok (then_ : instant) (delta_us : Z)
| NotKnowable
| Err (e : err).

(* _delay(when) with the module list `booted`; returns the new list *)
Definition delay (booted : list event) (when : event) (now : clock)
  : dres * list event :=
  match m_boot (snd when) with
  | Some _ =>
      if existsb (event_eqb when) booted then (NotKnowable, booted)
      else (Ok (now_inst now) 0, booted ++ [when])
  | None =>
      match delay_then (snd when) now with
      | Val t => (Ok t (inst_us t - inst_us (now_inst now)), booted)
      | Fail e => (Err e, booted)
      end
  end.

(* ---------------- defer / dispatch / complete ---------------- *)
Inductive status : Set :=
| St_delayed | St_failure | St_initial | St_invalid | St_running | St_success
| St_waiting.

(* targets are ids; 0 is '__all__'.  todo/doing are python sets: kept as
   duplicate-free sorted lists *)
Definition ALL : nat := 0%nat.

Record node : Set := mkN {
  nd_status : status; nd_period : list event; nd_todo : list nat;
  nd_doing : list nat; nd_asp : bool; nd_level : Z; nd_timer_event : bool }.

Record sched : Type := mkS {
  s_node : nat -> node;      (* the dag nodes that carry events, by id *)
  s_per : list nat;          (* schedule.per (a node once per located path and event) *)
  s_que : list nat;          (* schedule.que *)
  s_booted : list event;     (* schedule.booted *)
  s_paused : bool;           (* schedule.pipeline_paused *)
  s_timers : list Z }.       (* delays handed to reactor.callLater, in order *)

Fixpoint set_add (x : nat) (l : list nat) : list nat :=
  match l with
  | [] => [x]
  | y :: r => if Nat.eqb x y then l else if Nat.ltb x y then x :: l else y :: set_add x r
  end.
Definition set_union (xs l : list nat) : list nat := fold_left (fun acc x => set_add x acc) xs l.
Fixpoint remove_first (x : nat) (l : list nat) : list nat :=
  match l with
  | [] => []
  | y :: r => if Nat.eqb x y then r else y :: remove_first x r
  end.

Definition upd (id : nat) (f : node -> node) (st : sched) : sched :=
  mkS (fun k => if Nat.eqb k id then f (s_node st k) else s_node st k)
      (s_per st) (s_que st) (s_booted st) (s_paused st) (s_timers st).
Definition set_que (q : list nat) (st : sched) : sched :=
  mkS (s_node st) (s_per st) q (s_booted st) (s_paused st) (s_timers st).
Definition set_booted (b : list event) (st : sched) : sched :=
  mkS (s_node st) (s_per st) (s_que st) b (s_paused st) (s_timers st).
Definition add_timer (d : Z) (st : sched) : sched :=
  mkS (s_node st) (s_per st) (s_que st) (s_booted st) (s_paused st) (s_timers st ++ [d]).
Definition set_paused (b : bool) (st : sched) : sched :=
  mkS (s_node st) (s_per st) (s_que st) (s_booted st) b (s_timers st).

Definition with_status (s : status) (n : node) : node :=
  mkN s (nd_period n) (nd_todo n) (nd_doing n) (nd_asp n) (nd_level n) (nd_timer_event n).
Definition with_todo (t : list nat) (n : node) : node :=
  mkN (nd_status n) (nd_period n) t (nd_doing n) (nd_asp n) (nd_level n) (nd_timer_event n).
Definition with_doing (t : list nat) (n : node) : node :=
  mkN (nd_status n) (nd_period n) (nd_todo n) t (nd_asp n) (nd_level n) (nd_timer_event n).
Definition with_timer_event (n : node) : node :=
  mkN (nd_status n) (nd_period n) (nd_todo n) (nd_doing n) (nd_asp n) (nd_level n) true.

(* list.sort(key=level): stable insertion sort *)
Fixpoint insert_level (lv : nat -> Z) (x : nat) (l : list nat) : list nat :=
  match l with
  | [] => [x]
  | y :: r => if lv x <? lv y then x :: l else y :: insert_level lv x r
  end.
Definition sort_level (lv : nat -> Z) (l : list nat) : list nat :=
  fold_left (fun acc x => insert_level lv x acc) l [].

(* the body of `if ts <= 300.0:` (after the repair 399dc9a: `if t not in que:
   que.append(t)`, then the stable sort by level) *)
Definition enqueue (targets : list nat) (id : nat) (st : sched) : sched :=
  let q := if existsb (Nat.eqb id) (s_que st) then s_que st else s_que st ++ [id] in
  let st1 := set_que (sort_level (fun k => nd_level (s_node st k)) q) st in
  upd id (fun n =>
            with_todo (if nd_asp n then set_add ALL (nd_todo n)
                       else set_union targets (nd_todo n))
                      (with_timer_event (with_status St_waiting n))) st1.

Definition WINDOW_US : Z := 300 * US.

(* for p in t.get('period'): ... ; an exception other than
   _DelayNotKnowableError leaves defer() at once *)
Fixpoint run_period (now : clock) (targets : list nat) (id : nat) (ps : list event)
         (st : sched) (delays : list Z) : sched * list Z * option err :=
  match ps with
  | [] => (st, delays, None)
  | p :: ps' =>
      match delay (s_booted st) p now with
      | (Err e, _) => (st, delays, Some e)
      | (NotKnowable, _) => run_period now targets id ps' st delays
      | (Ok _ d, b') =>
          let st1 := set_booted b' st in
          if d <=? WINDOW_US then run_period now targets id ps' (enqueue targets id st1) delays
          else run_period now targets id ps' st1 (delays ++ [d])
      end
  end.

Definition skipped (s : status) : bool :=
  match s with St_running | St_waiting => true | _ => false end.

(* for t in filter(lambda j: status not in [running, waiting], per): the
   filter is lazy, the status is read when the loop reaches the entry *)
Fixpoint run_per (now : clock) (targets : list nat) (ids : list nat)
         (st : sched) (delays : list Z) : sched * list Z * option err :=
  match ids with
  | [] => (st, delays, None)
  | id :: ids' =>
      if skipped (nd_status (s_node st id)) then run_per now targets ids' st delays
      else
        let st1 := upd id (with_status St_delayed) st in
        match run_period now targets id (nd_period (s_node st1 id)) st1 delays with
        | (st2, dl, Some e) => (st2, dl, Some e)
        | (st2, dl, None) => run_per now targets ids' st2 dl
        end
  end.

Fixpoint min_list (d : Z) (l : list Z) : Z :=
  match l with [] => d | x :: r => min_list (Z.min d x) r end.

(* round(us / 1e6) as python rounds a float: half to even *)
Definition round_seconds (us : Z) : Z :=
  let q := us / US in
  let r := us mod US in
  if 2 * r <? US then q
  else if US <? 2 * r then q + 1
  else if Z.even q then q else q + 1.

Definition defer (now : clock) (targets : list nat) (st : sched) : sched * option err :=
  if s_paused st then (add_timer 10 st, None)
  else
    match run_per now targets (s_per st) st [] with
    | (st', _, Some e) => (st', Some e)
    | (st', dl, None) =>
        (match dl with
         | [] => st'
         | d :: r => add_timer (round_seconds (min_list d r)) st'
         end, None)
    end.

(* next_job_batch + farm.dispatch, for queued nodes none of which is an
   ancestor of another and with the pipeline not paused: everything to do is
   handed out, the job is marked running *)
Fixpoint dispatch_ids (ids : list nat) (st : sched) : sched :=
  match ids with
  | [] => st
  | id :: ids' =>
      let n := s_node st id in
      match nd_todo n with
      | [] => dispatch_ids ids' st
      | _ =>
          dispatch_ids ids'
            (upd id (fun n => with_status St_running
                                (with_doing (set_union (nd_todo n) (nd_doing n))
                                            (with_todo [] n))) st)
      end
  end.
Definition dispatch (st : sched) : sched :=
  if s_paused st then st else dispatch_ids (s_que st) st.

(* schedule.complete(job, runid, target, timing, status); false = que.remove
   raised ValueError (job not queued): the `doing` update already happened *)
Definition complete (id : nat) (target : nat) (st : sched) : sched * bool :=
  let n := s_node st id in
  let doing' := if Nat.eqb target ALL then [] else remove_first target (nd_doing n) in
  let st1 := upd id (with_doing doing') st in
  match nd_todo n, doing' with
  | [], [] =>
      if existsb (Nat.eqb id) (s_que st) then
        (upd id (with_status St_waiting) (set_que (remove_first id (s_que st)) st1), true)
      else (st1, false)
  | _, _ => (st1, true)
  end.

(* periodics(factories): every event is attached to every located node, then
   defer() runs.  `located` lists (node id, event) once per located path *)
Definition attach (located : list (nat * event)) (st : sched) : sched :=
  fold_left (fun s ne =>
               let '(id, e) := ne in
               let s1 := upd id (fun n => mkN (nd_status n) (nd_period n ++ [e]) (nd_todo n)
                                             (nd_doing n) (nd_asp n) (nd_level n)
                                             (nd_timer_event n)) s in
               mkS (s_node s1) (s_per s1 ++ [id]) (s_que s1) (s_booted s1)
                   (s_paused s1) (s_timers s1))
            located st.

Definition init_node (asp : bool) (level : Z) : node :=
  mkN St_initial [] [] [] asp level false.
Definition init_sched (nodes : nat -> node) (paused : bool) : sched :=
  mkS nodes [] [] [] paused [].

(* ---------------- observation (what the harness compares) ---------------- *)
Definition status_code (s : status) : Z :=
  match s with
  | St_delayed => 0 | St_failure => 1 | St_running => 2 | St_success => 3
  | St_waiting => 4 | St_initial => 5 | St_invalid => 6
  end.
Definition view (ids : list nat) (st : sched)
  : list nat * list (Z * list nat * list nat) * list Z * nat :=
  (s_que st,
   map (fun id => let n := s_node st id in
                  (status_code (nd_status n), nd_todo n, nd_doing n)) ids,
   s_timers st, length (s_booted st)).

(* scenario steps of the correspondence *)
Inductive step : Type :=
| SDefer (now : clock)
| STimers (now : clock) (n : nat)     (* the reactor fires n armed timers: defer() n times *)
| SDispatch
| SComplete (id target : nat)
| SPause | SUnpause.

Definition exc_code (e : option err) : Z :=
  match e with None => 0 | Some ValueError => 1 | Some OverflowError => 2
  | Some AttributeError => 3 end.

(* a timer calls defer() through DeferWithLogOnError: an exception is logged
   by the errback and swallowed; the next timer still runs *)
Fixpoint defer_n (now : clock) (targets : list nat) (n : nat) (st : sched) : sched :=
  match n with
  | O => st
  | S k => defer_n now targets k (fst (defer now targets st))
  end.

Definition do_step (targets : list nat) (st : sched) (s : step) : sched * Z :=
  match s with
  | SDefer now => let '(st', e) := defer now targets st in (st', exc_code e)
  | STimers now n =>
      (* the armed timers are consumed, each one calls defer() *)
      let st0 := mkS (s_node st) (s_per st) (s_que st) (s_booted st) (s_paused st) [] in
      (defer_n now targets n st0, 0)
  | SDispatch => (dispatch st, 0)
  | SComplete id t => let '(st', ok) := complete id t st in (st', if ok then 0 else 1)
  | SPause => (set_paused true st, 0)
  | SUnpause => (set_paused false st, 0)
  end.

Fixpoint run_steps (targets : list nat) (ids : list nat) (st : sched) (ss : list step)
  : list (list nat * list (Z * list nat * list nat) * list Z * nat * Z) :=
  match ss with
  | [] => []
  | s :: ss' => let '(st', e) := do_step targets st s in
                (view ids st', e) :: run_steps targets ids st' ss'
  end.

(* ---------------- examples ---------------- *)
Module DelayExamples.
  Definition t0100 : option (Z * Z * Z) := Some (1, 0, 0).
  Definition weekly (dow : Z) : moment := mkM None None None (Some dow) t0100.
  Definition monthly (dom : Z) : moment := mkM None None (Some dom) None t0100.
  (* Monday 2026-03-02 00:58:00 UTC *)
  Definition mon : clock := mkNow 2026 3 2 (58 * 60) 0.
  Example ord_example : ord 2026 3 2 = 739677 /\ weekday (ord 2026 3 2) = 0.
  Proof. vm_compute. split; reflexivity. Qed.
  Example dow_today : fst (delay [] (1%nat, weekly 0) mon)
                      = Ok (mkI 739677 3600 0) (120 * US).
  Proof. vm_compute. reflexivity. Qed.
  (* dom = 31 evaluated on 31 March: 31 April does not exist *)
  Example dom_overflow :
    fst (delay [] (1%nat, monthly 31) (mkNow 2026 3 31 0 0)) = Err ValueError.
  Proof. vm_compute. reflexivity. Qed.
  (* dom = 20 evaluated on 15 March: 20 April, 36 days ahead *)
  Example dom_skips :
    fst (delay [] (1%nat, monthly 20) (mkNow 2026 3 15 3600 0))
    = Ok (mkI (ord 2026 4 20) 3600 0) (36 * DAYUS).
  Proof. vm_compute. reflexivity. Qed.
  Example round_half_even :
    map round_seconds [500000; 1500000; 2500000; 2500001; -500000; 499999]
    = [0; 2; 2; 3; 0; 0].
  Proof. vm_compute. reflexivity. Qed.
End DelayExamples.
