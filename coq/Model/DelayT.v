(* C20: scenarios in which the set of known targets changes between steps
   (dawgie.db.targets() is asked again by every defer()).  Model/Delay.v's
   do_step takes the target list of the moment; run_steps fixes one list for
   the whole scenario, run_steps_t pairs every step with the list known when
   it happens.  Definitions only. *)
From Coq Require Import List ZArith.
From DV Require Import Model.Delay.
Import ListNotations.

Fixpoint run_steps_t (ids : list nat) (st : sched) (ss : list (list nat * step))
  : list (list nat * list (Z * list nat * list nat) * list Z * nat * Z) :=
  match ss with
  | [] => []
  | (tg, s) :: ss' => let '(st', e) := do_step tg st s in
                      (view ids st', e) :: run_steps_t ids st' ss'
  end.
