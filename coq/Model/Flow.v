(* Executable model of a whole reprocessing history END TO END (property C02,
   end-state clause): the scheduler model of Model/Sched.v (organize /
   next_job_batch / put_job = the rerunid loop of farm.dispatch / Hand._res ->
   complete -> update) composed with

   (i)   run ids as the code hands them out: every organize overwrites the
         node's single `runid` attribute (None for an external request, the
         reporting run's id for a propagation); farm.rerunid asks db.next()
         (= highest run id in the primary table + 1) when the attribute is None;
   (ii)  the primary table of the shelve back end, keyed (run id, target, value),
         with the load rule of shelve.model.Interface._load: the entry of the
         job's OWN run id if there is one, else the entry with the HIGHEST run id
         (whatever it is), else nothing (the value keeps its initial content);
   (iii) deterministic algorithms: the content an algorithm stores for its value
         v and target t is the injective term  CVal v t base (inputs as loaded)
         (base = the external input of an algorithm without declared inputs);
         a value is reported NEW iff no blob with that content exists in the
         store yet (db.util.move: content-addressed blob files; Interface._update).

   What is left out: worker registration and hand-out (the task messages wait
   in farm._cluster and an event `FRun k` executes the k-th of them: any order),
   the archive trigger, failures (every worker succeeds), analyses/regressions
   (the theorems are about task-only engines; target ALL is never used).
   Tie: tools/harness/drive_flow.py runs the same history on the real
   scheduler + farm.dispatch + worker.Context.run + shelve store and
   props/C02.py compares every step and the final primary table. *)
From Coq Require Import List Arith ZArith Bool Lia.
From DV Require Import Model.Sched.
Import ListNotations.

(* ---- contents ---- *)
Inductive content :=
| CNone                                                   (* nothing loaded: initial value *)
| CVal (v : vname) (t : tgt) (base : nat) (inputs : list content).

Fixpoint content_eqb (a b : content) : bool :=
  match a, b with
  | CNone, CNone => true
  | CVal v t k i, CVal v' t' k' i' =>
      Nat.eqb v v' && Nat.eqb t t' && Nat.eqb k k' &&
      (fix leq (x y : list content) : bool :=
         match x, y with
         | [], [] => true
         | p :: x', q :: y' => content_eqb p q && leq x' y'
         | _, _ => false
         end) i i'
  | _, _ => false
  end.

Definition cmem (x : content) (l : list content) : bool := existsb (content_eqb x) l.

(* ---- the primary table ---- *)
Record entry := { e_rid : Z; e_tgt : tgt; e_val : vname; e_con : content }.
Definition store := list entry.

Definition same_key (e : entry) (t : tgt) (v : vname) : bool :=
  Nat.eqb (e_tgt e) t && Nat.eqb (e_val e) v.
Definition exact_key (e : entry) (r : Z) (t : tgt) (v : vname) : bool :=
  Z.eqb (e_rid e) r && same_key e t v.

(* tables.prime[key] = value: a write under an existing key replaces it *)
Definition sput (st : store) (r : Z) (t : tgt) (v : vname) (x : content) : store :=
  filter (fun e => negb (exact_key e r t v)) st ++ [{| e_rid := r; e_tgt := t; e_val := v; e_con := x |}].

Definition sexact (st : store) (r : Z) (t : tgt) (v : vname) : option entry :=
  find (fun e => exact_key e r t v) st.

(* spks = entries of the same (target, value); sort by run id; take the last *)
Definition shighest (st : store) (t : tgt) (v : vname) : option entry :=
  fold_left (fun best e =>
               if same_key e t v then
                 match best with
                 | None => Some e
                 | Some b => if (e_rid b <? e_rid e)%Z then Some e else Some b
                 end
               else best) st None.

(* Interface._load for one value, by a job of run r *)
Definition sload (st : store) (r : Z) (t : tgt) (v : vname) : content :=
  match sexact st r t v with
  | Some e => e_con e
  | None => match shighest st t v with Some e => e_con e | None => CNone end
  end.

(* what a later reader sees (a fresh run id has no entry of its own): the
   content under the highest run id -- "the latest stored value" *)
Definition latest (st : store) (t : tgt) (v : vname) : content :=
  match shighest st t v with Some e => e_con e | None => CNone end.

(* ---- engine description: Sched.cfg + the values each algorithm produces ---- *)
Record fcfg := { fc : cfg; fouts : list (list vname) }.
Definition outs (c : fcfg) (x : node) : list vname := nth x (fouts c) [].
Definition owner (c : fcfg) (v : vname) : node :=
  match find (fun x => mem v (outs c x)) (seq 0 (nnodes (fc c))) with Some x => x | None => 0 end.

(* ---- state ---- *)
Record fstate := {
  sch : state;                      (* scheduler + farm (Model/Sched.v) *)
  sto : store;                      (* primary table (metric rows left out) *)
  blobs : list content;             (* blob files that exist in data_dbs *)
  ctr : nat;                        (* number of change events so far *)
  rin : list (node * tgt * nat);    (* external input of (root algorithm, target) *)
}.

Definition rin_get (l : list (node * tgt * nat)) (x : node) (t : tgt) : nat :=
  match find (fun p => Nat.eqb (fst (fst p)) x && Nat.eqb (snd (fst p)) t) l with
  | Some p => snd p
  | None => 0
  end.

Definition base_of (c : fcfg) (l : list (node * tgt * nat)) (x : node) (t : tgt) : nat :=
  match ins (gi (fc c) x) with [] => rin_get l x t | _ :: _ => 0 end.

Inductive fev :=
| FChg (names : list node) (tgts : list tgt)   (* external inputs change; organize(names, None, tgts) *)
| FTick                                        (* farm.dispatch *)
| FRun (k : nat).                              (* the k-th waiting task message is executed and answered *)

Definition finit (c : fcfg) : fstate :=
  {| sch := init (fc c); sto := []; blobs := []; ctr := 0; rin := [] |}.

(* ---- a change event ---- *)
Definition fchg (c : fcfg) (names : list node) (tgts : list tgt) (f : fstate) : fstate :=
  let k := S (ctr f) in
  {| sch := organize (fc c) names None tgts (sch f);
     sto := sto f; blobs := blobs f; ctr := k;
     rin := flat_map (fun x => map (fun t => (x, t, k)) tgts) names ++ rin f |}.

(* ---- farm.dispatch with no hand registered: next_job_batch, then the loop
        `for j in _jobs.copy(): runid = rerunid(j) ... _put(...)`, then _cluster_sort;
        the task messages stay in _cluster.  Hands, the archive trigger and the
        pipeline switch are outside this model: no hand, flag down, pipeline active ---- *)
Definition prep (s : state) : state :=
  {| ns := ns s; que := que s; paused := paused s; jobs := jobs s; cluster := cluster s;
     busy := busy s; workers := []; archive := false; active := true;
     stored := stored s; inflight := inflight s |}.
Definition ftick_s (c : cfg) (s : state) : state := fst (dispatch c (prep s)).

Definition ftick (c : fcfg) (f : fstate) : fstate :=
  {| sch := ftick_s (fc c) (sch f); sto := sto f; blobs := blobs f; ctr := ctr f; rin := rin f |}.

(* ---- one worker: Context.run (load, run, update) then Hand._res ---- *)
Fixpoint remove_nth {A} (k : nat) (l : list A) : list A :=
  match l, k with
  | [], _ => []
  | _ :: r, 0 => r
  | a :: r, S j => a :: remove_nth j r
  end.

(* Interface._update: one value after the other; isnew = the blob did not exist *)
Definition write1 (r : Z) (t : tgt) (base : nat) (loaded : list content)
           (acc : store * list content * list (tgt * vname * bool)) (v : vname)
  : store * list content * list (tgt * vname * bool) :=
  let '(st, bl, vals) := acc in
  let x := CVal v t base loaded in
  let isnew := negb (cmem x bl) in
  (sput st r t v x, if isnew then bl ++ [x] else bl, vals ++ [(t, v, isnew)]).

Definition frun (c : fcfg) (k : nat) (f : fstate) : fstate :=
  match nth_error (cluster (sch f)) k with
  | None => f
  | Some m =>
    let x := m_job m in let t := m_tgt m in let r := m_rid m in
    let loaded := map (sload (sto f) r t) (ins (gi (fc c) x)) in
    let '(st, bl, vals) :=
        fold_left (write1 r t (base_of c (rin f) x t) loaded) (outs c x) (sto f, blobs f, []) in
    let s := sch f in
    let s1 := set_farm s (jobs s) (remove_nth k (cluster s)) (busy s) (workers s) (inflight s) in
    (* the worker has stored under run r: db.next() sees it *)
    let s2 := set_flags s1 (active s1) (paused s1) (Z.max r (stored s1)) in
    {| sch := fst (res (fc c) x t r Success vals s2);
       sto := st; blobs := bl; ctr := ctr f; rin := rin f |}
  end.

Definition fstep (c : fcfg) (f : fstate) (e : fev) : fstate :=
  match e with
  | FChg names tgts => fchg c names tgts f
  | FTick => ftick c f
  | FRun k => frun c k f
  end.

Definition frun_all (c : fcfg) (f : fstate) (es : list fev) : fstate := fold_left (fstep c) es f.

(* ---- nothing pending, nothing executing ---- *)
Definition quiescent (c : fcfg) (f : fstate) : bool :=
  match cluster (sch f), jobs (sch f) with
  | [], [] => forallb (fun x => match todo (getn (ns (sch f)) x), doing (getn (ns (sch f)) x) with
                                | [], [] => true | _, _ => false end)
                      (seq 0 (nnodes (fc c)))
  | _, _ => false
  end.

(* a history whose change events do not overlap: each one arrives when the
   propagation of the previous ones is over *)
Fixpoint nonoverlap (c : fcfg) (f : fstate) (es : list fev) : bool :=
  match es with
  | [] => true
  | e :: r => match e with FChg _ _ => quiescent c f | _ => true end && nonoverlap c (fstep c f e) r
  end.

(* ---- the reference: a from-scratch run in dependency order ----
   every algorithm once, parents first (stable order by level), each reading
   what the earlier ones produced *)
Definition lookup (m : list (vname * content)) (v : vname) : content :=
  match find (fun p => Nat.eqb (fst p) v) m with Some p => snd p | None => CNone end.

Definition eval_node (c : fcfg) (l : list (node * tgt * nat)) (t : tgt)
           (m : list (vname * content)) (x : node) : list (vname * content) :=
  m ++ map (fun v => (v, CVal v t (base_of c l x t) (map (lookup m) (ins (gi (fc c) x))))) (outs c x).

Definition topo_order (c : fcfg) : list node := sort_lvl (fc c) (seq 0 (nnodes (fc c))).

Definition eval_topo (c : fcfg) (l : list (node * tgt * nat)) (t : tgt) : list (vname * content) :=
  fold_left (eval_node c l t) (topo_order c) [].

(* the same by recursion on the declared inputs (fuel = number of nodes) *)
Fixpoint eval_rec (c : fcfg) (l : list (node * tgt * nat)) (fuel : nat) (t : tgt) (v : vname) : content :=
  match fuel with
  | 0 => CNone
  | S f => let x := owner c v in
           CVal v t (base_of c l x t) (map (eval_rec c l f t) (ins (gi (fc c) x)))
  end.

Definition all_values (c : fcfg) : list vname := flat_map (outs c) (seq 0 (nnodes (fc c))).

(* the end state agrees with the from-scratch run on every target and value *)
Definition consistent (c : fcfg) (f : fstate) : bool :=
  forallb (fun t => forallb (fun v => content_eqb (latest (sto f) t v) (lookup (eval_topo c (rin f) t) v))
                            (all_values c)) (gtargets (fc c)).

(* values whose latest stored content differs from the from-scratch run *)
Definition stale_values (c : fcfg) (f : fstate) : list (tgt * vname) :=
  flat_map (fun t => flat_map (fun v => if content_eqb (latest (sto f) t v) (lookup (eval_topo c (rin f) t) v)
                                        then [] else [(t, v)]) (all_values c)) (gtargets (fc c)).

(* ---- observation printed for the correspondence ---- *)
Definition fobs (c : fcfg) (f : fstate)
  : list node * list (list tgt * list tgt * option Z) * list (node * tgt * Z) * Z :=
  let s := sch f in
  (que s,
   map (fun x => let n := getn (ns s) x in (sort_nat (todo n), sort_nat (doing n), rid n)) (seq 0 (nnodes (fc c))),
   map (fun m => (m_job m, m_tgt m, m_rid m)) (cluster s),
   (stored s + 1)%Z).

Fixpoint ftrace (c : fcfg) (f : fstate) (es : list fev) : list (list node * list (list tgt * list tgt * option Z) * list (node * tgt * Z) * Z) :=
  match es with
  | [] => []
  | e :: r => let f' := fstep c f e in fobs c f' :: ftrace c f' r
  end.

Definition store_dump (f : fstate) : list (Z * tgt * vname * content) :=
  map (fun e => (e_rid e, e_tgt e, e_val e, e_con e)) (sto f).

(* ---- examples ---- *)
(* diamond a -> {b, c} -> d, one value per algorithm (value id = node id), one target *)
Definition ex_diamond : fcfg :=
  {| fc := {| gnodes := [ {| kids := [1; 2]; anc := []; gfac := Task; lvl := 0; ins := [] |};
                          {| kids := [3]; anc := [0]; gfac := Task; lvl := 1; ins := [0] |};
                          {| kids := [3]; anc := [0]; gfac := Task; lvl := 1; ins := [0] |};
                          {| kids := []; anc := [0; 1; 2]; gfac := Task; lvl := 2; ins := [1; 2] |} ];
              gfb := []; gtargets := [1] |};
     fouts := [[0]; [1]; [2]; [3]] |}.

Definition ex_hist : list fev :=
  [FChg [0] [1]; FTick; FRun 0; FTick; FRun 1; FRun 0; FTick; FRun 0;
   FChg [0] [1]; FTick; FRun 0; FTick; FRun 0; FRun 0; FTick; FRun 0].

Example ex_diamond_consistent :
  let f := frun_all ex_diamond (finit ex_diamond) ex_hist in
  nonoverlap ex_diamond (finit ex_diamond) ex_hist = true /\ quiescent ex_diamond f = true /\
  consistent ex_diamond f = true /\
  latest (sto f) 1 3 = CVal 3 1 0 [CVal 1 1 0 [CVal 0 1 2 []]; CVal 2 1 0 [CVal 0 1 2 []]] /\
  lookup (eval_topo ex_diamond (rin f) 1) 3 = eval_rec ex_diamond (rin f) 4 1 3.
Proof. vm_compute. repeat split; reflexivity. Qed.
