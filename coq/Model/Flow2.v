(* Model/Flow.v extended with worker FAILURES (property C02, end-state clause).

   A new event `FFail k`: the k-th waiting task message is executed, the
   algorithm raises after its inputs were loaded and before it updates its data
   set (nothing reaches the primary table, no blob is written), and the worker
   answers suc=False (pl/worker/cluster.py); Hand._res -> complete -> purge
   withdraws the target from the job and from everything below it.

   Next to the state of Flow.v the extended state carries a GHOST list `wd` of
   the units (algorithm, target) whose result was WITHDRAWN by a failed run and
   that have not completed a successful run since, each with the contents its
   values held when it was withdrawn.  The ghost is written by the two run
   events only and read by nothing: `fs` of a run of the extended model is the
   run of Flow.v on the same events (Proofs/Flow2Inv.v: frun_all2_embed).

   Tie: tools/harness/drive_flow.py executes ['fail', k] on the real scheduler +
   worker.Context.run + shelve store; props/c02_flow.py compares every step and
   the final primary table with this model. *)
From Coq Require Import List Arith ZArith Bool Lia.
From DV Require Import Model.Sched Model.Flow.
Import ListNotations.

Inductive fev2 :=
| F1 (e : fev)          (* an event of Flow.v: change event, tick, successful run *)
| FFail (k : nat).      (* the k-th waiting task message is executed and FAILS *)

Definition wdl := list (node * tgt * list content).

Record fstate2 := { fs : fstate; wd : wdl }.

Definition wd_key (x : node) (t : tgt) (p : node * tgt * list content) : bool :=
  Nat.eqb (fst (fst p)) x && Nat.eqb (snd (fst p)) t.
Definition wd_has (w : wdl) (x : node) (t : tgt) : bool := existsb (wd_key x t) w.

(* the failed reply: no write, no new blob, db.next() unchanged *)
Definition ffail (c : fcfg) (k : nat) (f : fstate) : fstate :=
  match nth_error (cluster (sch f)) k with
  | None => f
  | Some m =>
    let s := sch f in
    let s1 := set_farm s (jobs s) (remove_nth k (cluster s)) (busy s) (workers s) (inflight s) in
    {| sch := fst (res (fc c) (m_job m) (m_tgt m) (m_rid m) Failure [] s1);
       sto := sto f; blobs := blobs f; ctr := ctr f; rin := rin f |}
  end.

(* ghost: a unit reached by the purge recursion is recorded once, with what it holds *)
Definition wd_add (c : fcfg) (st : store) (t : tgt) (w : wdl) (y : node) : wdl :=
  if wd_has w y t then w else w ++ [(y, t, map (latest st t) (outs c y))].

Definition fstep2 (c : fcfg) (g : fstate2) (e : fev2) : fstate2 :=
  match e with
  | F1 (FRun k) =>
      match nth_error (cluster (sch (fs g))) k with
      | None => g
      | Some m => {| fs := frun c k (fs g);
                     wd := filter (fun p => negb (wd_key (m_job m) (m_tgt m) p)) (wd g) |}
      end
  | F1 e1 => {| fs := fstep c (fs g) e1; wd := wd g |}
  | FFail k =>
      match nth_error (cluster (sch (fs g))) k with
      | None => g
      | Some m => {| fs := ffail c k (fs g);
                     wd := fold_left (wd_add c (sto (fs g)) (m_tgt m))
                                     (descend (fc c) (nnodes (fc c)) (m_job m)) (wd g) |}
      end
  end.

Definition frun_all2 (c : fcfg) (g : fstate2) (es : list fev2) : fstate2 := fold_left (fstep2 c) es g.
Definition finit2 (c : fcfg) : fstate2 := {| fs := finit c; wd := [] |}.

(* change events do not overlap (as Flow.nonoverlap) *)
Fixpoint nonoverlap2 (c : fcfg) (g : fstate2) (es : list fev2) : bool :=
  match es with
  | [] => true
  | e :: r => match e with F1 (FChg _ _) => quiescent c (fs g) | _ => true end && nonoverlap2 c (fstep2 c g e) r
  end.

(* the content an algorithm computes from what the store holds NOW for its inputs *)
Definition lev (c : fcfg) (f : fstate) (t : tgt) (x : node) (v : vname) : content :=
  CVal v t (base_of c (rin f) x t) (map (latest (sto f) t) (ins (gi (fc c) x))).

(* units whose latest stored content is not what the algorithm computes from
   the latest stored content of its inputs *)
Definition locally_stale (c : fcfg) (f : fstate) : list (tgt * node) :=
  flat_map (fun t => flat_map (fun x =>
      if forallb (fun v => content_eqb (latest (sto f) t v) (lev c f t x v)) (outs c x) then [] else [(t, x)])
    (seq 0 (nnodes (fc c)))) (gtargets (fc c)).

(* ---- observation printed for the correspondence ---- *)
Fixpoint ftrace2 (c : fcfg) (g : fstate2) (es : list fev2)
  : list (list node * list (list tgt * list tgt * option Z) * list (node * tgt * Z) * Z) :=
  match es with
  | [] => []
  | e :: r => let g' := fstep2 c g e in fobs c (fs g') :: ftrace2 c g' r
  end.

Definition wd_units (g : fstate2) : list (node * tgt) := map fst (wd g).

(* ---- example: diamond a -> {b, c} -> d; c fails in the first event (d is
   withdrawn although b reported a new value); second event: everything succeeds *)
Definition ex_fail_hist : list fev2 :=
  [F1 (FChg [0] [1]); F1 FTick; F1 (FRun 0); F1 FTick; F1 (FRun 0); FFail 0; F1 FTick].
Definition ex_fail_hist2 : list fev2 :=
  ex_fail_hist ++ [F1 (FChg [0] [1]); F1 FTick; F1 (FRun 0); F1 FTick; F1 (FRun 1); F1 (FRun 0); F1 FTick; F1 (FRun 0)].

Example ex_fail_withdrawn :
  let g := frun_all2 ex_diamond (finit2 ex_diamond) ex_fail_hist in
  quiescent ex_diamond (fs g) = true /\ wd_units g = [(2, 1); (3, 1)] /\
  latest (sto (fs g)) 1 2 = CNone /\ latest (sto (fs g)) 1 3 = CNone /\
  latest (sto (fs g)) 1 1 = CVal 1 1 0 [CVal 0 1 1 []] /\
  consistent ex_diamond (fs g) = false.
Proof. vm_compute. repeat split; reflexivity. Qed.

Example ex_fail_recovered :
  let g := frun_all2 ex_diamond (finit2 ex_diamond) ex_fail_hist2 in
  quiescent ex_diamond (fs g) = true /\ wd g = [] /\ consistent ex_diamond (fs g) = true.
Proof. vm_compute. repeat split; reflexivity. Qed.
