(* Model/Frame.v -- C14: the length-prefixed reassembly loop shared by
   dawgie.pl.farm.Hand.dataReceived, dawgie.db.shelve.comms.Worker.dataReceived
   and dawgie.pl.logger.LogSink.dataReceived.

   Bytes are Z (0..255 on the wire; the model does not need the range except
   for the header round trip).  Definitions only.

   Python (the three copies are the same up to the delivery action):

     buf += data
     length = blen if len is None else len
     while length <= len(buf):
         if len is None:  len = struct.unpack('>I', buf[:length])[0]; buf = buf[length:]
         else:            msg = loads(buf[:length]); buf = buf[length:]; len = None; deliver(msg)
         length = blen if len is None else len
*)
From Coq Require Import List ZArith Bool.
Import ListNotations.
Open Scope Z_scope.

(* ---- the 4-byte big-endian header: struct.pack('>I') / struct.unpack('>I') *)
Definition be32 (h : list Z) : Z := fold_left (fun a b => a * 256 + b) h 0.
Definition enc32 (n : Z) : list Z :=
  [ (n / 16777216) mod 256; (n / 65536) mod 256; (n / 256) mod 256; n mod 256 ].
Definition frame (p : list Z) : list Z := enc32 (Z.of_nat (length p)) ++ p.

Definition hlen : nat := 4.      (* self.__blen = len(struct.pack('>I', 0)) *)

(* ---- per-connection reassembly state: __buf, __len (None = header expected) *)
Record fstate := mkF { fbuf : list Z; flen : option Z }.
Definition finit : fstate := mkF [] None.

(* length = self.__blen if self.__len is None else self.__len *)
Definition need (s : fstate) : Z :=
  match flen s with None => Z.of_nat hlen | Some n => n end.

(* one iteration of the while loop; None = the loop condition is false.
   The output is the list of raw payloads handed to loads() in this iteration. *)
Definition iter (s : fstate) : option (fstate * list (list Z)) :=
  if need s <=? Z.of_nat (length (fbuf s)) then
    match flen s with
    | None =>
        Some (mkF (skipn hlen (fbuf s)) (Some (be32 (firstn hlen (fbuf s)))), [])
    | Some n =>
        Some (mkF (skipn (Z.to_nat n) (fbuf s)) None, [firstn (Z.to_nat n) (fbuf s)])
    end
  else None.

(* the while loop on explicit fuel *)
Fixpoint drain (fuel : nat) (s : fstate) : fstate * list (list Z) :=
  match fuel with
  | O => (s, [])
  | S f =>
      match iter s with
      | None => (s, [])
      | Some (s', out) => let '(s'', out') := drain f s' in (s'', out ++ out')
      end
  end.

Definition app_buf (s : fstate) (d : list Z) : fstate := mkF (fbuf s ++ d) (flen s).
Definition fuel_for (s : fstate) : nat := (2 * length (fbuf s) + 2)%nat.

(* dataReceived(data), raw payload level *)
Definition feed (s : fstate) (data : list Z) : fstate * list (list Z) :=
  let s0 := app_buf s data in drain (fuel_for s0) s0.

Fixpoint feed_all (s : fstate) (chunks : list (list Z)) : fstate * list (list Z) :=
  match chunks with
  | [] => (s, [])
  | c :: cs =>
      let '(s1, o1) := feed s c in
      let '(s2, o2) := feed_all s1 cs in (s2, o1 ++ o2)
  end.

(* ---- delivery actions and the transport -------------------------------- *)
(* What the outside sees of one connection.  Sent is only produced by the
   handshake (Model/Shake.v). *)
Inductive out :=
| Deliver (p : list Z)     (* _process(msg) / do(request) / actual.handle(record) *)
| Close                    (* transport.loseConnection() *)
| Abort                    (* loads() raised: the exception leaves dataReceived,
                              Twisted drops the connection *)
| Sent (b : list Z).       (* transport.write(b) by the handshake *)

Definition is_stop (o : out) : bool :=
  match o with Close | Abort => true | _ => false end.
Definition is_deliver (o : out) : bool :=
  match o with Deliver _ => true | _ => false end.

(* The channels differ only here.
   closing p   : comms.Worker: request.func not in [Func.acquire, Func.dbcopy]
                 => transport.loseConnection() right after do(request);
                 Hand and LogSink never close (fun _ => false).
   decodable p : loads(p) returns (for LogSink also: makeLogRecord accepts it).
   Both are functions of the payload bytes decided by pickle: oracles. *)
Record chan := mkChan { closing : list Z -> bool; decodable : list Z -> bool }.

(* the deliveries of ONE dataReceived call whose loop handed over payloads ps:
   the loop goes on after loseConnection(), it stops at an exception *)
Fixpoint emit (ch : chan) (ps : list (list Z)) : list out :=
  match ps with
  | [] => []
  | p :: r =>
      if decodable ch p
      then Deliver p :: (if closing ch p then [Close] else []) ++ emit ch r
      else [Abort]
  end.

(* a connection: reassembly state + "the transport still delivers data".
   Twisted contract: no dataReceived after loseConnection() or after an
   exception escaped dataReceived. *)
Record conn := mkC { cfs : fstate; clive : bool }.
Definition cinit : conn := mkC finit true.

Definition conn_feed (ch : chan) (c : conn) (data : list Z) : conn * list out :=
  if clive c then
    let '(fs, ps) := feed (cfs c) data in
    let o := emit ch ps in
    (mkC fs (negb (existsb is_stop o)), o)
  else (c, []).

Fixpoint conn_run (ch : chan) (c : conn) (chunks : list (list Z)) : conn * list out :=
  match chunks with
  | [] => (c, [])
  | d :: ds =>
      let '(c1, o1) := conn_feed ch c d in
      let '(c2, o2) := conn_run ch c1 ds in (c2, o1 ++ o2)
  end.

(* trace up to and including the first Close/Abort *)
Fixpoint cut (o : list out) : list out :=
  match o with
  | [] => []
  | x :: r => if is_stop x then [x] else x :: cut r
  end.

(* ---- helpers for the correspondence (case files) ------------------------ *)
Fixpoint list_eqb (a b : list Z) : bool :=
  match a, b with
  | [], [] => true
  | x :: a', y :: b' => (x =? y) && list_eqb a' b'
  | _, _ => false
  end.
Definition mem (p : list Z) (l : list (list Z)) : bool := existsb (list_eqb p) l.

(* channel given by the payloads that close and the payloads that decode *)
Definition chan_of (closers good : list (list Z)) : chan :=
  mkChan (fun p => mem p closers) (fun p => mem p good).

(* cut a stream into chunks of the given lengths (the rest is the last chunk) *)
Fixpoint split_lens (lens : list Z) (s : list Z) : list (list Z) :=
  match lens with
  | [] => [s]
  | n :: r => firstn (Z.to_nat n) s :: split_lens r (skipn (Z.to_nat n) s)
  end.

(* every way of cutting a non-empty stream into non-empty chunks (2^(n-1)) *)
Fixpoint chunkings (s : list Z) : list (list (list Z)) :=
  match s with
  | [] => [[]]
  | x :: r =>
      match r with
      | [] => [[[x]]]
      | _ =>
          flat_map (fun cs =>
            match cs with
            | [] => [[[x]]]
            | c :: cs' => [ (x :: c) :: cs' ; [x] :: c :: cs' ]
            end) (chunkings r)
      end
  end.

Fixpoint index_of (p : list Z) (tbl : list (list Z)) (k : Z) : Z :=
  match tbl with
  | [] => -1
  | q :: r => if list_eqb p q then k else index_of p r (k + 1)
  end.

(* canonical observation: Deliver of a known payload -> [0; index],
   unknown -> 0 :: -1 :: bytes ; Close -> [1] ; Abort -> [2] ; Sent b -> 3 :: b *)
Definition obs_out (tbl : list (list Z)) (o : out) : list Z :=
  match o with
  | Deliver p => let k := index_of p tbl 0 in if k <? 0 then 0 :: -1 :: p else [0; k]
  | Close => [1]
  | Abort => [2]
  | Sent b => 3 :: b
  end.
Definition obs_len (l : option Z) : Z := match l with None => -1 | Some n => n end.
Definition obs_conn (tbl : list (list Z)) (r : conn * list out)
  : list (list Z) * (bool * (list Z * Z)) :=
  (map (obs_out tbl) (snd r),
   (clive (fst r), (fbuf (cfs (fst r)), obs_len (flen (cfs (fst r)))))).

Definition run_lens ch tbl (lens : list Z) (s : list Z) :=
  obs_conn tbl (conn_run ch cinit (split_lens lens s)).
Definition run_all ch tbl (s : list Z) :=
  map (fun cs => (map (fun c => Z.of_nat (length c)) cs, obs_conn tbl (conn_run ch cinit cs)))
      (chunkings s).

(* ---- examples ----------------------------------------------------------- *)
Example be32_example : be32 [0; 0; 1; 2] = 258.
Proof. vm_compute. reflexivity. Qed.
Example enc32_example : enc32 258 = [0; 0; 1; 2].
Proof. vm_compute. reflexivity. Qed.
Example feed_example :
  feed_all finit [[0; 0]; [0; 2; 7]; [8; 0; 0; 0; 1; 9; 0]]
  = (mkF [0] None, [[7; 8]; [9]]).
Proof. vm_compute. reflexivity. Qed.
Example chunkings_example : length (chunkings [1; 2; 3; 4; 5]) = 16%nat.
Proof. vm_compute. reflexivity. Qed.
Example conn_example :
  conn_run (chan_of [[9]] [[9]; [5]]) cinit [[0; 0; 0; 1; 9; 0; 0; 0; 1; 5]; [0; 0; 0; 1; 5]]
  = (mkC (mkF [] None) false, [Deliver [9]; Close; Deliver [5]]).
Proof. vm_compute. reflexivity. Qed.

(* no Close/Abort in a trace *)
Definition quiet (o : list out) : bool := forallb (fun x => negb (is_stop x)) o.
Definition deliveries (o : list out) : list (list Z) :=
  flat_map (fun x => match x with Deliver p => [p] | _ => [] end) o.
