(* Model/Fsm.v -- executable model of dawgie.pl.state.FSM (non-doctest mode)
   over the transition table generated from pl/state.dot (Gen/FsmTable.v) and
   the priority order generated from tools/submit.py (Gen/PriorityGen.v).

   One Gallina function per Python function, same branch structure.
   Mutation = returning the new state; an exception = an [outcome] other than
   [Ok] returned together with the state as it was when the exception was
   raised (everything done before the raise is kept, as in Python).

   Deferred work (twisted.internet.threads.deferToThread) is explicit: the
   background steps are the list [pending] (thread body + callback run when
   [Done i] arrives); a poller thread is [Some false] (in its loop) or
   [Some true] (returned, callback not yet run on the reactor) in [handles].
   The case decides the interleaving.

   Modelled behaviour of transitions.Machine 0.9 (queued=False, no conditions,
   default on_exception): a trigger without an edge from the current state
   raises MachineError and runs nothing; `before` callbacks, then the state
   change, then `after` callbacks; an exception propagates at once. *)
From Coq Require Import List Bool Arith.
From DV Require Import Gen.FsmTable Gen.PriorityGen.
Import ListNotations.

(* dawgie.pl.state.Status *)
Inductive status : Set := Active | Entering | Exiting.

(* the four deferred bodies *)
Inductive bg : Set := BgPipeline | BgNavel | BgReload | BgArchive.

(* the three pollers is_crew_done / is_doing_done / is_todo_done *)
Inductive pk : Set := KCrew | KDoing | KTodo.

Inductive outcome : Set :=
| Ok
| Rejected       (* transitions.MachineError: no edge for the trigger here *)
| SetterErr      (* raised by the `transitioning` setter *)
| NoPrior        (* _archive_done with __prior = None (TypeError) *)
| NoAttr         (* getattr(self, prior + '_trigger') does not exist *)
| OutOfFuel      (* model artefact, excluded by fuel_enough *)
| Noop.          (* the event's guard was false / nothing to complete *)

(* what the three pollers look at: farm._busy non-empty, schedule.view_doing()
   non-empty, schedule.que non-empty -- an arbitrary environment, given by the
   event *)
Definition env : Set := (bool * bool * bool)%type.

(* FSM attributes used by the submit crossroads *)
Record wstate : Set := mkW {
  priority : option prio;                                 (* FSM.priority *)
  waits : bool * bool * bool;       (* not wait_on_{crew,doing,todo}.is_set() *)
  handles : option bool * option bool * option bool       (* {crew,doing,todo}_thread *)
}.

(* one call of update_trigger: who called, did its condition hold at that
   instant, was it accepted *)
Record urec : Set := mkU { u_who : option pk; u_cond : bool; u_ok : bool }.

Record ghost : Set := mkG {
  epoch : nat;                     (* number of reset() calls completed *)
  updates : nat;                   (* accepted update_trigger since the last reset() *)
  hops : list (state * state);     (* every change of `state`, newest first *)
  insub : list nat;                (* per submit endpoint: 0 idle, 1 a Process is past
                                      step_1, 2 Defer.__busy stuck (step_3 raised) *)
  ulog : list urec                 (* update_trigger calls, newest first *)
}.

Record fstate : Set := mkF {
  st : state;                      (* Machine model attribute `state` *)
  tr : status;                     (* FSM.__transitioning *)
  prior : option state;            (* FSM.__prior *)
  pending : list bg;               (* outstanding background steps, oldest first *)
  archive_flag : bool;             (* dawgie.pl.farm.ARCHIVE *)
  ws : wstate;
  gh : ghost
}.

Definition init_ws : wstate := mkW None (false, false, false) (None, None, None).
Definition init : fstate :=
  mkF initial_state Active None [] false init_ws (mkG 0 0 [] [0; 0] []).

(* FSM(initial_state=s0) *)
Definition init_at (s0 : state) : fstate :=
  mkF s0 Active None [] false init_ws (mkG 0 0 [] [0; 0] []).

Definition status_eqb (a b : status) : bool :=
  match a, b with Active, Active | Entering, Entering | Exiting, Exiting => true | _, _ => false end.

Definition get3 {A} (k : pk) (t : A * A * A) : A :=
  let '(a, b, c) := t in match k with KCrew => a | KDoing => b | KTodo => c end.
Definition set3 {A} (k : pk) (v : A) (t : A * A * A) : A * A * A :=
  let '(a, b, c) := t in match k with KCrew => (v, b, c) | KDoing => (a, v, c) | KTodo => (a, b, v) end.

Definition set_tr_raw s v := mkF (st s) v (prior s) (pending s) (archive_flag s) (ws s) (gh s).
Definition set_prior s v := mkF (st s) (tr s) v (pending s) (archive_flag s) (ws s) (gh s).
Definition set_pending s v := mkF (st s) (tr s) (prior s) v (archive_flag s) (ws s) (gh s).
Definition set_archive s v := mkF (st s) (tr s) (prior s) (pending s) v (ws s) (gh s).
Definition set_ws s v := mkF (st s) (tr s) (prior s) (pending s) (archive_flag s) v (gh s).
Definition set_gh s v := mkF (st s) (tr s) (prior s) (pending s) (archive_flag s) (ws s) v.
Definition set_st s v :=
  mkF v (tr s) (prior s) (pending s) (archive_flag s) (ws s)
      (let g := gh s in mkG (epoch g) (updates g) ((st s, v) :: hops g) (insub g) (ulog g)).
Definition set_insub s v :=
  set_gh s (let g := gh s in mkG (epoch g) (updates g) (hops g) v (ulog g)).
Definition log_update s u :=
  set_gh s (let g := gh s in mkG (epoch g) (updates g) (hops g) (insub g) (u :: ulog g)).
Definition count_update s :=
  set_gh s (let g := gh s in mkG (epoch g) (S (updates g)) (hops g) (insub g) (ulog g)).
Definition new_epoch s :=
  set_gh s (let g := gh s in mkG (S (epoch g)) 0 (hops g) (insub g) (ulog g)).
Definition set_priority s v := set_ws s (mkW v (waits (ws s)) (handles (ws s))).
Definition set_waits s v := set_ws s (mkW (priority (ws s)) v (handles (ws s))).
Definition set_handle s k v := set_ws s (mkW (priority (ws s)) (waits (ws s)) (set3 k v (handles (ws s)))).

Definition defer s b := set_pending s (pending s ++ [b]).

(* @transitioning.setter *)
Definition set_tr (s : fstate) (v : status) : fstate * outcome :=
  match v with
  | Active => (set_tr_raw s v, Ok)
  | _ => if status_eqb (tr s) Active then (set_tr_raw s v, Ok) else (s, SetterErr)
  end.

(* sequencing: run [k] on the new state when the first part did not raise *)
Definition bind (r : fstate * outcome) (k : fstate -> fstate * outcome) : fstate * outcome :=
  match snd r with Ok => k (fst r) | _ => r end.
Notation "r >>= k" := (bind r k) (at level 50, left associativity).

Definition find_edge (t : trigger) (src : state) : option edge :=
  find (fun e => trigger_eqb (e_trig e) t && state_eqb (e_src e) src) edges.

(* FSM.is_pipeline_active *)
Definition is_pipeline_active (s : fstate) : bool :=
  state_eqb (st s) S_running && status_eqb (tr s) Active.

(* FSM.start : _security/_gui/_logging/farm.plow/RollbackImporter are the
   outside world (stubs in the driver) *)
Definition cb_start s := set_tr s Exiting >>= fun s => set_tr s Active.
(* FSM.load (non-doctest branch) *)
Definition cb_load s := set_tr s Entering >>= fun s => (defer s BgPipeline, Ok).
(* FSM.navel_gaze *)
Definition cb_navel_gaze s := set_tr s Entering >>= fun s => (defer s BgNavel, Ok).
(* FSM.save_prior_state *)
Definition cb_save_prior_state s :=
  set_tr s Exiting >>= fun s => set_tr (set_prior s (Some (st s))) Active.
(* FSM.reload *)
Definition cb_reload s := set_tr s Exiting >>= fun s => (defer s BgReload, Ok).
(* FSM.reset *)
Definition cb_reset s :=
  set_tr s Exiting >>= fun s =>
  set_tr (new_epoch (set_priority (set_waits s (false, false, false)) None)) Active.

(* one callback of an edge; [rec] = Event.trigger for the nested triggers *)
Definition run_cb (rec : fstate -> trigger -> fstate * outcome) (s : fstate) (c : callback)
  : fstate * outcome :=
  match c with
  | Cb_start => cb_start s
  | Cb_load => cb_load s
  | Cb_navel_gaze => cb_navel_gaze s
  | Cb_save_prior_state => cb_save_prior_state s
  | Cb_reload => cb_reload s
  | Cb_reset => cb_reset s
  | Cb_fire t' => rec s t'
  | Cb_archive =>
    (* FSM.archive *)
    set_tr s Entering >>= fun s =>
    if archive_flag s then (defer s BgArchive, Ok)
    else
      (* FSM._archive_done *)
      let s := set_tr_raw (set_archive s false) Active in
      match prior s with
      | None => (s, NoPrior)
      | Some p => match state_trigger p with
                  | None => (s, NoAttr)
                  | Some t' => rec s t'
                  end
      end
  end.

Fixpoint run_cbs (rec : fstate -> trigger -> fstate * outcome) (s : fstate) (cs : list callback)
  : fstate * outcome :=
  match cs with
  | [] => (s, Ok)
  | c :: cs' => run_cb rec s c >>= fun s => run_cbs rec s cs'
  end.

(* Event.trigger of transitions, with the callbacks of FSM inlined by name;
   [fire] and the callbacks that fire nested triggers are mutually
   recursive, hence the fuel *)
Fixpoint fire (fuel : nat) (s : fstate) (t : trigger) {struct fuel} : fstate * outcome :=
  match fuel with
  | 0 => (s, OutOfFuel)
  | S f =>
    match find_edge t (st s) with
    | None => (s, Rejected)
    | Some e =>
      run_cbs (fire f) s (e_before e) >>= fun s =>
      let s := if trigger_eqb t T_update then count_update s else s in
      run_cbs (fire f) (set_st s (e_dst e)) (e_after e)
    end
  end.

Definition FUEL : nat := 8.
Definition trigger_ (s : fstate) (t : trigger) := fire FUEL s t.

(* FSM._archive_done, called from the archive thread through db.archive(done) *)
Definition archive_done (s : fstate) : fstate * outcome :=
  let s := set_tr_raw (set_archive s false) Active in
  match prior s with
  | None => (s, NoPrior)
  | Some p => match state_trigger p with
              | None => (s, NoAttr)
              | Some t' => trigger_ s t'
              end
  end.

Fixpoint remove_nth {A} (i : nat) (l : list A) : list A :=
  match i, l with
  | _, [] => []
  | 0, _ :: l' => l'
  | S i', x :: l' => x :: remove_nth i' l'
  end.

Fixpoint set_nth {A} (i : nat) (v : A) (l : list A) : list A :=
  match i, l with
  | _, [] => []
  | 0, _ :: l' => v :: l'
  | S i', x :: l' => x :: set_nth i' v l'
  end.

(* completion of a deferred step: thread body, then its callback *)
Definition complete (s : fstate) (b : bg) : fstate * outcome :=
  match b with
  | BgPipeline => (* _pipeline ; load.done *)
      trigger_ (set_tr_raw s Active) T_contemplation
  | BgNavel =>    (* _navel_gaze *)
      trigger_ (set_tr_raw s Active) T_running
  | BgReload =>   (* _reload ; reload.done *)
      trigger_ (set_tr_raw s Active) T_archiving
  | BgArchive =>  (* _archive -> db.archive(self._archive_done) *)
      archive_done s
  end.

(* ---- the submit crossroads ---------------------------------------------- *)

(* the condition a poller waits for: is_crew_done / is_doing_done / is_todo_done *)
Definition cond_holds (k : pk) (e : env) : bool :=
  let '(busy, doing, que) := e in
  match k with KCrew => negb busy | KDoing => negb doing | KTodo => negb que end.

(* update_trigger as called by a waiter / wait_for_nothing: logged *)
Definition update_by (who : option pk) (cond : bool) (s : fstate) : fstate * outcome :=
  let r := trigger_ s T_update in
  (log_update (fst r) (mkU who cond match snd r with Ok => true | _ => false end), snd r).

(* FSM.set_submit_info : Priority(priority) or TODO when it does not convert *)
Definition set_submit_info (s : fstate) (p : option prio) : fstate :=
  let p := match p with Some p => p | None => P_TODO end in
  set_priority s (Some (prio_max [priority (ws s); Some p])).

Definition start_poller (s : fstate) (k : pk) : fstate :=
  match get3 k (handles (ws s)) with
  | None => set_handle s k (Some false)
  | Some _ => s
  end.

(* FSM.wait_for_crew / wait_for_doing / wait_for_todo *)
Definition wait_for_crew s :=
  start_poller (set_waits s (true, false, false)) KCrew.
Definition wait_for_doing s :=
  let '(c, _, _) := waits (ws s) in start_poller (set_waits s (c, true, false)) KDoing.
Definition wait_for_todo s :=
  let '(c, d, _) := waits (ws s) in start_poller (set_waits s (c, d, true)) KTodo.
(* FSM.wait_for_nothing *)
Definition wait_for_nothing (s : fstate) : fstate * outcome :=
  update_by None true (set_waits s (false, false, false)).

(* FSM.submit_crossroads *)
Definition submit_crossroads (s : fstate) : fstate * outcome :=
  if negb (is_pipeline_active s) then (s, Ok)
  else match priority (ws s) with
       | None => (s, Ok)
       | Some P_CREW => (wait_for_crew s, Ok)
       | Some P_DOING => (wait_for_doing s, Ok)
       | Some P_TODO => (wait_for_todo s, Ok)
       | Some P_NOW => wait_for_nothing s
       end.

(* one evaluation of the poller's loop condition
   `while <world not done> and self.waiting_on_X()` *)
Definition poll (s : fstate) (k : pk) (e : env) : fstate * outcome :=
  match get3 k (handles (ws s)) with
  | Some false =>
      if negb (cond_holds k e) && get3 k (waits (ws s)) then (s, Ok)
      else (set_handle s k (Some true), Ok)
  | _ => (s, Noop)
  end.

(* wait_for_X.done on the reactor *)
Definition done_cb (s : fstate) (k : pk) (e : env) : fstate * outcome :=
  match get3 k (handles (ws s)) with
  | Some true =>
      let s := set_handle s k None in
      if get3 k (waits (ws s)) then update_by (Some k) (cond_holds k e) s else (s, Ok)
  | _ => (s, Noop)
  end.

(* ---- events -------------------------------------------------------------
   Fire/Done/SetInfo/Crossroads are unrestricted (by hand).  The E* events and
   Poll/DoneCb are the environment that exists: one per call site of
   Gen/TriggerSites.v, with the guard written at that site. *)
Inductive event : Set :=
| Fire (t : trigger)
| Done (i : nat)                 (* the i-th pending step completes *)
| EBoot                          (* pl/__main__.py Start.run *)
| ESubStart (k : nat) (p : option prio) (* fe[/api]/submit.py Defer.__call__ ; Process.step_1 (k = 1: .. step_3) *)
| ESubFail (k : nat)             (* VerifyHandler.processEnded -> Process.failure *)
| ESubDone (k : nat) (p : option prio)  (* VerifyHandler.processEnded -> Process.step_3 *)
| EIdleArchive                   (* pl/farm.py dispatch: idle + ARCHIVE *)
| ECmdReset (archive : bool)     (* fe/api cmd_reset, fe/app schedule_reset *)
| ENewData                       (* pl/farm.py Hand._res: ARCHIVE |= any(new values) *)
| EWaiterUpdate                  (* update_trigger by hand, as a waiter would *)
| SetInfo (p : option prio)
| Crossroads
| Poll (k : pk) (e : env)
| DoneCb (k : pk) (e : env).

(* Process.failure : `if fsm.state == 'gitting': fsm.running_trigger()` *)
Definition proc_failure (s : fstate) : fstate * outcome :=
  if state_eqb (st s) S_gitting then trigger_ s T_running else (s, Noop).

Definition step (s : fstate) (e : event) : fstate * outcome :=
  match e with
  | Fire t => trigger_ s t
  | Done i =>
      match nth_error (pending s) i with
      | None => (s, Noop)
      | Some b => complete (set_pending s (remove_nth i (pending s))) b
      end
  | EBoot => trigger_ s T_starting
  | ESubStart k p =>
      match nth_error (insub (gh s)) k with
      | Some 0 =>                          (* Defer.__busy of that endpoint is clear *)
          if is_pipeline_active s
          then
            trigger_ s T_gitting >>= fun s =>
            let s := set_insub s (set_nth k 1 (insub (gh s))) in
            if Nat.eqb k 0 then (s, Ok)
            else
              (* the deprecated fe/submit.py chains step_1, step_2 and step_3 in one
                 Deferred: step_3 runs at once (and again when compliance ends) *)
              trigger_ s T_running >>= fun s => submit_crossroads (set_submit_info s p)
          else proc_failure s               (* step_1 refuses; errback = failure *)
      | _ => (s, Noop)
      end
  | ESubFail k =>
      match nth_error (insub (gh s)) k with
      | Some 1 => proc_failure (set_insub s (set_nth k 0 (insub (gh s))))
      | _ => (s, Noop)
      end
  | ESubDone k p =>
      match nth_error (insub (gh s)) k with
      | Some 1 =>
          (* step_3: running_trigger ; clear() ; set_submit_info ; crossroads.
             The Deferred of processEnded has no errback: if running_trigger
             raises, clear() is never called (endpoint 0: __busy stays set;
             endpoint 1 cleared it in its first step_3 already) *)
          trigger_ (set_insub s (set_nth k (if Nat.eqb k 0 then 2 else 0) (insub (gh s)))) T_running
          >>= fun s =>
          submit_crossroads (set_submit_info (set_insub s (set_nth k 0 (insub (gh s)))) p)
      | _ => (s, Noop)
      end
  | EIdleArchive =>
      if is_pipeline_active s && archive_flag s then trigger_ s T_archiving else (s, Noop)
  | ECmdReset a =>
      if is_pipeline_active s
      then wait_for_nothing (set_archive s (archive_flag s || a))
      else (s, Noop)
  | ENewData => (set_archive s true, Ok)
  | EWaiterUpdate => trigger_ s T_update
  | SetInfo p => (set_submit_info s p, Ok)
  | Crossroads => submit_crossroads s
  | Poll k e => poll s k e
  | DoneCb k e => done_cb s k e
  end.

Definition run (s : fstate) (evs : list event) : fstate :=
  fold_left (fun s e => fst (step s e)) evs s.

(* what the correspondence compares after every event *)
Definition obs (r : fstate * outcome) :=
  (st (fst r), tr (fst r), prior (fst r), pending (fst r), archive_flag (fst r), snd r,
   (priority (ws (fst r)), waits (ws (fst r)), handles (ws (fst r))), insub (gh (fst r))).

Fixpoint trace (s : fstate) (evs : list event) :=
  match evs with
  | [] => []
  | e :: evs' =>
      let r := step s e in
      (obs r,
       rev (firstn (length (hops (gh (fst r))) - length (hops (gh s))) (hops (gh (fst r)))),
       map (fun u => (u_who u, u_cond u, u_ok u))
           (rev (firstn (length (ulog (gh (fst r))) - length (ulog (gh s))) (ulog (gh (fst r))))))
      :: trace (fst r) evs'
  end.

Definition at_rest (s : fstate) : bool :=
  (state_eqb (st s) S_running || state_eqb (st s) S_gitting) && status_eqb (tr s) Active.

(* the environment: everything but the by-hand events *)
Definition is_env (e : event) : bool :=
  match e with Fire _ | SetInfo _ | Crossroads | EWaiterUpdate => false | _ => true end.
(* one submit endpoint only *)
Definition single_endpoint (e : event) : bool :=
  match e with ESubStart k _ | ESubFail k | ESubDone k _ => Nat.eqb k 0 | _ => true end.

Example boot_example :
  map (fun x => fst (fst x)) (trace init [EBoot; Done 0; Done 0]) =
  [ (S_loading, Entering, None, [BgPipeline], false, Ok, (None, (false, false, false), (None, None, None)), [0; 0]);
    (S_contemplation, Entering, None, [BgNavel], false, Ok, (None, (false, false, false), (None, None, None)), [0; 0]);
    (S_running, Active, None, [], false, Ok, (None, (false, false, false), (None, None, None)), [0; 0]) ].
Proof. vm_compute. reflexivity. Qed.
