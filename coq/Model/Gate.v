(* Gate.v -- descriptor-level executable model of dawgie.tools.compliant
   (_verify, _walk, rule_01 .. rule_11) as the code is NOW in /repo
   (after the fix: commit "compliance walk reads feedback of the regression
   being walked").

   An engine is a list of packages; a package offers any subset of the four
   factory kinds; what a factory returns is described by the FACTS the rules
   inspect.  A rule's outcome is [res = option bool]:
        Some b  -- the rule returned all(findings) = b
        None    -- the rule raised (any exception); _verify counts it as False
   Names are lists of code points (46 = '.').

   Definitions only (+ Examples by vm_compute).  Proofs: Proofs/GateProofs.v. *)
From Coq Require Import List Bool Arith ZArith.
Import ListNotations.

(* ------------------------------------------------------------------ names *)
Definition name := list nat.
Definition DOT : nat := 46.

Fixpoint name_eqb (a b : name) : bool :=
  match a, b with
  | [], [] => true
  | x :: a', y :: b' => Nat.eqb x y && name_eqb a' b'
  | _, _ => false
  end.

Definition has_dot (n : name) : bool := existsb (Nat.eqb DOT) n.

(* str.startswith *)
Fixpoint prefixb (p s : name) : bool :=
  match p, s with
  | [], _ => true
  | x :: p', y :: s' => Nat.eqb x y && prefixb p' s'
  | _ :: _, [] => false
  end.

(* ------------------------------------------------------- descriptor types *)
(* iteration order of the enum dawgie.Factories *)
Inductive kind := KAnalysis | KEvents | KRegress | KTask.
Definition kinds : list kind := [KAnalysis; KEvents; KRegress; KTask].

Definition kind_eqb (a b : kind) : bool :=
  match a, b with
  | KAnalysis, KAnalysis | KEvents, KEvents | KRegress, KRegress | KTask, KTask => true
  | _, _ => false
  end.

(* one parameter of a factory function as inspect.signature shows it *)
Inductive pdefault := DEmpty | DInt (z : Z) | DStr (s : name).
Inductive pannot := ANone | AStr | AInt | AOther.
Record param := mkParam { p_default : pdefault; p_annot : pannot }.

(* Version protocol as _verify_version sees it: ok / wrong answer / raises
   something that is not NotImplementedError *)
Inductive ver3 := VerOk | VerBad | VerExc.

Record value := mkValue {
  v_key : name;          (* key in the state vector *)
  v_isval : bool;        (* isinstance(v, dawgie.Value) *)
  v_ver : ver3;
  v_pick : bool;         (* pickle.loads(pickle.dumps(v)) works *)
  v_feat : bool          (* features() overridden -- no rule can observe it *)
}.

Record svec := mkSv {
  s_issv : bool;         (* isinstance(sv, dawgie.StateVector) *)
  s_name : option name;  (* None: name() not overridden (NotImplementedError) *)
  s_ver : ver3;
  s_items : list value;
  s_view : bool          (* view() overridden -- no rule can observe it *)
}.

(* what a *_REF holds: snapshots of the objects inside the tuple *)
Inductive rlvl := LAlg | LSv | LV | LNone.      (* LNone: not one of the three tuples *)
Record iteminfo := mkItem { i_name : name; i_keys : list name }.
Record ref := mkRef {
  r_lvl : rlvl;
  r_fac : option (nat * kind);  (* the factory object: kind-factory of package #n;
                                   None: not a function/method at all *)
  r_impl_ok : bool;             (* isinstance(impl, (Algorithm, Analyzer, Regression)) *)
  r_impl_home : nat;            (* package whose module defines impl's class *)
  r_impl_name : name;           (* impl.name() *)
  r_impl_svs : list iteminfo;   (* impl.state_vectors(): names and keys *)
  r_item_ok : bool;             (* isinstance(item, StateVector) *)
  r_item : iteminfo;            (* item.name(), list(item) *)
  r_feat : option name          (* None: feat is not a str *)
}.

Record alg := mkAlg {
  a_isalg : bool;               (* isinstance of the base class of its factory kind *)
  a_name : option name;         (* None: name() not overridden *)
  a_ver : ver3;
  a_deps : option (list ref);   (* previous()/traits()/variables(); None: not overridden *)
  a_fb : list ref;              (* feedback() -- has a default implementation *)
  a_svs : option (list svec);   (* state_vectors(); None: not overridden *)
  a_run : bool                  (* run() overridden -- no rule can observe it *)
}.

Record bot := mkBot {
  b_isbot : bool;               (* isinstance of Task/Analysis/Regress (dawgie or dawgie.base) *)
  b_algs : list alg             (* routines() *)
}.

Inductive mfield := MNone | MGood | MBad.   (* None / right type / wrong type *)
Record moment := mkMoment {
  m_boot : option bool; m_day : mfield; m_dom : mfield; m_dow : mfield; m_time : mfield
}.
Record event := mkEvent { e_isevent : bool; e_moment : moment }.

Record factory := mkFac { f_params : list param; f_bot : bot }.
Record efactory := mkEFac { ef_params : list param; ef_events : list event }.

Record package := mkPkg {
  p_name : name;                        (* module name below the AE base package *)
  p_analysis : option factory;
  p_events : option efactory;
  p_regress : option factory;
  p_task : option factory
}.
Definition engine := list package.

(* ---------------------------------------------------------- small helpers *)
Definition res := option bool.

(* statement sequencing: the second part only matters when the first did not raise *)
Definition andr (a b : res) : res :=
  match a with
  | None => None
  | Some x => match b with None => None | Some y => Some (x && y) end
  end.

Fixpoint allr {A} (f : A -> res) (l : list A) : res :=
  match l with
  | [] => Some true
  | x :: t => andr (f x) (allr f t)
  end.

Definition fac_of (p : package) (k : kind) : option factory :=
  match k with
  | KAnalysis => p_analysis p
  | KRegress => p_regress p
  | KTask => p_task p
  | KEvents => None
  end.

Definition has_kind (p : package) (k : kind) : bool :=
  match k with
  | KEvents => match p_events p with Some _ => true | None => false end
  | _ => match fac_of p k with Some _ => true | None => false end
  end.

Definition params_of (p : package) (k : kind) : list param :=
  match k with
  | KEvents => match p_events p with Some e => ef_params e | None => [] end
  | _ => match fac_of p k with Some f => f_params f | None => [] end
  end.

Definition has_default (q : param) : bool :=
  match p_default q with DEmpty => false | _ => true end.

(* calling f with n positional arguments succeeds (no TypeError) *)
Definition callable (n : nat) (ps : list param) : bool :=
  Nat.leb n (length ps) && forallb has_default (skipn n ps).

(* fargs of _walk *)
Definition walk_nargs (k : kind) : nat :=
  match k with KAnalysis => 3 | KTask => 4 | KEvents => 0 | KRegress => 3 end.

(* --------------------------------------------------------------- _walk *)
Record cbs := mkCbs {
  ifbot : bot -> res; ifalg : alg -> res; ifsv : svec -> res; ifv : value -> res;
  ifanl : bot -> res; ifanz : alg -> res; ifret : bot -> res; ifrec : alg -> res;
  ifref : ref -> res; ifmom : event -> res
}.
Definition t_ {A} (_ : A) : res := Some true.     (* _t: appends no finding *)
Definition no_cbs : cbs := mkCbs t_ t_ t_ t_ t_ t_ t_ t_ t_ t_.

Definition walk_svs (c : cbs) (svs : option (list svec)) : res :=
  match svs with
  | None => None                                   (* a.state_vectors() raises *)
  | Some l => allr (fun sv => andr (ifsv c sv) (allr (ifv c) (s_items sv))) l
  end.

Definition walk_refs (c : cbs) (rs : option (list ref)) : res :=
  match rs with None => None | Some l => allr (ifref c) l end.

(* body of `for x in bot.routines()`: cb(x); feedback of [fbsrc]; deps; svs *)
Definition walk_alg (c : cbs) (cb : alg -> res) (fbsrc : option alg) (x : alg) : res :=
  andr (cb x)
    (andr (match fbsrc with None => None        (* UnboundLocalError *)
           | Some y => allr (ifref c) (a_fb y) end)
       (andr (walk_refs c (a_deps x)) (walk_svs c (a_svs x)))).

(* The python local variable `a` is threaded through the factories in enum
   order.  [rfb a r] says whose feedback() the regress branch reads:
   the repaired code reads r's, the pinned code read a's. *)
Fixpoint walk_algs (c : cbs) (cb : alg -> res) (l : list alg) (a : option alg)
  : res * option alg :=
  match l with
  | [] => (Some true, a)
  | x :: t => let (r, a') := walk_algs c cb t (Some x) in
              (andr (walk_alg c cb (Some x) x) r, a')
  end.

Definition walk_kind (rfb : option alg -> alg -> option alg) (c : cbs)
           (p : package) (k : kind) (a : option alg) : res * option alg :=
  if negb (has_kind p k) then (Some true, a)
  else if negb (callable (walk_nargs k) (params_of p k)) then (None, a)
  else match k with
  | KAnalysis =>
      match p_analysis p with None => (Some true, a) | Some f =>
        let (r, a') := walk_algs c (ifanz c) (b_algs (f_bot f)) a in
        (andr (ifanl c (f_bot f)) r, a') end
  | KTask =>
      match p_task p with None => (Some true, a) | Some f =>
        let (r, a') := walk_algs c (ifalg c) (b_algs (f_bot f)) a in
        (andr (ifbot c (f_bot f)) r, a') end
  | KEvents =>
      match p_events p with None => (Some true, a) | Some e =>
        (allr (ifmom c) (ef_events e), a) end
  | KRegress =>
      match p_regress p with None => (Some true, a) | Some f =>
        (andr (ifret c (f_bot f))
              (allr (fun r => walk_alg c (ifrec c) (rfb a r) r) (b_algs (f_bot f))), a) end
  end.

Fixpoint walk_kinds rfb c p (ks : list kind) (a : option alg) : res :=
  match ks with
  | [] => Some true
  | k :: t => let (r, a') := walk_kind rfb c p k a in
              match r with None => None | Some _ => andr r (walk_kinds rfb c p t a') end
  end.

Definition walk_with rfb (c : cbs) (p : package) : res := walk_kinds rfb c p kinds None.

(* the code as it is now *)
Definition walk : cbs -> package -> res := walk_with (fun _ r => Some r).
(* the pinned snapshot (before the fix): `for ref in a.feedback()` *)
Definition walk_pinned : cbs -> package -> res := walk_with (fun a _ => a).

(* ------------------------------------------------------------- rule_01 *)
Definition exp_sig (k : kind) : list param :=
  match k with
  | KAnalysis => [mkParam DEmpty AStr; mkParam (DInt 0) AInt; mkParam (DInt (-1)) AInt]
  | KEvents => []
  | KRegress => [mkParam DEmpty AStr; mkParam (DInt 0) AInt;
                 mkParam (DStr [95;95;110;111;110;101;95;95]) AStr]   (* '__none__' *)
  | KTask => [mkParam DEmpty AStr; mkParam (DInt 0) AInt; mkParam (DInt (-1)) AInt;
              mkParam (DStr [95;95;110;111;110;101;95;95]) AStr]
  end.

Definition default_eqb (a b : pdefault) : bool :=
  match a, b with
  | DEmpty, DEmpty => true
  | DInt x, DInt y => Z.eqb x y
  | DStr x, DStr y => name_eqb x y
  | _, _ => false
  end.
Definition annot_eqb (a b : pannot) : bool :=
  match a, b with
  | ANone, ANone | AStr, AStr | AInt, AInt | AOther, AOther => true
  | _, _ => false
  end.

Fixpoint zip_all {A} (f : A -> A -> bool) (xs ys : list A) : bool :=
  match xs, ys with
  | x :: xs', y :: ys' => f x y && zip_all f xs' ys'
  | _, _ => true
  end.

Definition sig_ok (k : kind) (ps : list param) : bool :=
  if Nat.eqb (length ps) (length (exp_sig k)) then
    if zip_all default_eqb (map p_default (exp_sig k)) (map p_default ps) then
      zip_all annot_eqb (map p_annot (exp_sig k)) (map p_annot ps)
    else false
  else false.

Definition rule_01 (E : engine) (p : package) : res :=
  if negb (existsb (has_kind p) kinds) then None      (* raise ValueError *)
  else Some (forallb (fun k => negb (has_kind p k) || sig_ok k (params_of p k)) kinds).

(* ------------------------------------------------------------- rule_02 *)
Definition is_reftuple (r : ref) : bool :=
  match r_lvl r with LNone => false | _ => true end.

Definition cbs_02 : cbs := mkCbs
  (fun b => Some (b_isbot b)) (fun a => Some (a_isalg a))
  (fun sv => Some (s_issv sv)) (fun v => Some (v_isval v))
  (fun b => Some (b_isbot b)) (fun a => Some (a_isalg a))
  (fun b => Some (b_isbot b)) (fun a => Some (a_isalg a))
  (fun r => Some (is_reftuple r)) (fun m => Some (e_isevent m)).
Definition rule_02 (E : engine) (p : package) : res := walk cbs_02 p.

(* ------------------------------------------------------------- rule_03 *)
(* _verify_version *)
Definition ver_res (v : ver3) : res :=
  match v with VerOk => Some true | VerBad => Some false | VerExc => None end.

(* which reference tuples rule_03 allows in previous()/traits()/variables() *)
Definition dep_lvl_ok (k : kind) (r : ref) : bool :=
  match k, r_lvl r with
  | _, LNone => false
  | KTask, _ => true
  | _, LAlg => false
  | _, _ => true
  end.

(* _verify_task / _verify_analysis / _verify_regress *)
Definition verify_bot (b : bot) : res :=
  Some (match b_algs b with [] => false | l => forallb a_isalg l end).

(* _verify_alg / _verify_analyzer / _verify_regression, called inside
   try/except NotImplementedError by _signal *)
Definition verify_alg (k : kind) (a : alg) : res :=
  match a_deps a with
  | None => Some false                         (* NotImplementedError, caught *)
  | Some ds =>
    match a_svs a with
    | None => Some false                       (* NotImplementedError, caught *)
    | Some svs =>
      andr (Some (forallb (dep_lvl_ok k) ds && forallb s_issv svs)) (ver_res (a_ver a))
    end
  end.

(* lambda a: _signal(a, _verify_alg, a.name()) -- a.name() is evaluated
   outside the try *)
Definition cb03_alg (k : kind) (a : alg) : res :=
  match a_name a with None => None | Some _ => verify_alg k a end.
Definition cb03_sv (sv : svec) : res :=
  match s_name sv with None => None | Some _ => ver_res (s_ver sv) end.

Definition cbs_03 : cbs := mkCbs
  verify_bot (cb03_alg KTask) cb03_sv (fun v => ver_res (v_ver v))
  verify_bot (cb03_alg KAnalysis) verify_bot (cb03_alg KRegress)
  t_ t_.
Definition rule_03 (E : engine) (p : package) : res := walk cbs_03 p.

(* ------------------------------------------------------------- rule_04 *)
Definition cb04_alg (a : alg) : res :=
  match a_name a with None => None | Some n => Some (negb (has_dot n)) end.
Definition cb04_sv (sv : svec) : res :=
  match s_name sv with None => None | Some n => Some (negb (has_dot n)) end.
Definition cbs_04 : cbs := mkCbs
  (fun _ => Some true) cb04_alg cb04_sv (fun v => Some (negb (has_dot (v_key v))))
  (fun _ => Some true) cb04_alg (fun _ => Some true) cb04_alg t_ t_.
Definition rule_04 (E : engine) (p : package) : res := walk cbs_04 p.

(* ------------------------------------------------------------- rule_05 *)
(* the error message evaluates sv.name() *)
Definition cb05_sv (sv : svec) : res :=
  match s_items sv with
  | _ :: _ => Some true
  | [] => match s_name sv with None => None | Some _ => Some false end
  end.
Definition cbs_05 : cbs := mkCbs t_ t_ cb05_sv t_ t_ t_ t_ t_ t_ t_.
Definition rule_05 (E : engine) (p : package) : res := walk cbs_05 p.

(* ------------------------------------------------------------- rule_06 *)
Definition pkg_name (E : engine) (i : nat) : option name :=
  match nth_error E i with Some p => Some (p_name p) | None => None end.

(* prev.impl.__module__.startswith(task_module(prev.factory)); both strings
   begin with the same "<base>." so the test is on the package names *)
Definition cb06_ref (E : engine) (r : ref) : res :=
  match r_lvl r with
  | LNone => None                                   (* no attribute impl *)
  | _ => match r_fac r with
         | None => None                             (* task_module(non function) raises *)
         | Some (i, _) =>
           match pkg_name E i, pkg_name E (r_impl_home r) with
           | Some fm, Some im => Some (prefixb fm im)
           | _, _ => None
           end
         end
  end.

Definition rule_06 (E : engine) (p : package) : res :=
  match p_task p with
  | None => Some true
  | Some f =>
    if negb (callable 4 (f_params f)) then None
    else allr (fun a => match a_deps a with None => None
                        | Some ds => allr (cb06_ref E) ds end) (b_algs (f_bot f))
  end.

(* ------------------------------------------------------------- rule_07 *)
Definition cbs_07 : cbs := mkCbs t_ t_ t_ (fun v => Some (v_pick v)) t_ t_ t_ t_ t_ t_.
Definition rule_07 (E : engine) (p : package) : res := walk cbs_07 p.

(* ------------------------------------------------------------- rule_08 *)
Definition isSome {A} (o : option A) : bool := match o with Some _ => true | None => false end.
Definition cb08_ref (r : ref) : res :=
  match r_lvl r with
  | LNone => None                                   (* no attribute factory *)
  | l => Some (isSome (r_fac r) && r_impl_ok r
               && (match l with LSv | LV => r_item_ok r | _ => true end)
               && (match l with LV => isSome (r_feat r) | _ => true end))
  end.
Definition cbs_08 : cbs := mkCbs t_ t_ t_ t_ t_ t_ t_ t_ cb08_ref t_.
Definition rule_08 (E : engine) (p : package) : res := walk cbs_08 p.

(* ------------------------------------------------------------- rule_09 *)
Definition cb09_alg (a : alg) : res :=
  match a_svs a with None => None | Some [] => Some false | Some _ => Some true end.
Definition cbs_09 : cbs := mkCbs t_ cb09_alg t_ t_ t_ cb09_alg t_ cb09_alg t_ t_.
Definition rule_09 (E : engine) (p : package) : res := walk cbs_09 p.

(* ------------------------------------------------------------- rule_10 *)
Definition mf_none (f : mfield) : bool := match f with MNone => true | _ => false end.
Definition mf_ok (f : mfield) : bool := match f with MBad => false | _ => true end.
Definition b2n (b : bool) : nat := if b then 1 else 0.

Definition moment_ok (m : moment) : bool :=
  let boot_none := match m_boot m with None => true | Some _ => false end in
  Nat.eqb (b2n boot_none + b2n (mf_none (m_day m)) + b2n (mf_none (m_dom m))
           + b2n (mf_none (m_dow m))) 3
  && mf_ok (m_day m) && mf_ok (m_dom m) && mf_ok (m_dow m)
  && (if boot_none then match m_time m with MGood => true | _ => false end else true).

Definition rule_10 (E : engine) (p : package) : res :=
  match p_events p with
  | None => Some true
  | Some e => if negb (callable 0 (ef_params e)) then None
              else Some (forallb (fun ev => moment_ok (e_moment ev)) (ef_events e))
  end.

(* ------------------------------------------------------------- rule_11 *)
(* dawgie.util.as_vref([ref]) as (item, feat) pairs *)
Definition expand (r : ref) : list (iteminfo * option name) :=
  match r_lvl r with
  | LV => [(r_item r, r_feat r)]
  | LSv => map (fun k => (r_item r, Some k)) (i_keys (r_item r))
  | LAlg => flat_map (fun it => map (fun k => (it, Some k)) (i_keys it)) (r_impl_svs r)
  | LNone => []
  end.

Fixpoint set_nth (n : nat) (l : list bool) (v : bool) : list bool :=
  match l, n with
  | [], _ => []
  | _ :: t, O => v :: t
  | x :: t, S n' => x :: set_nth n' t v
  end.

Definition feat_in (f : option name) (sv : svec) : bool :=
  match f with
  | None => false
  | Some k => existsb (fun v => name_eqb k (v_key v)) (s_items sv)
  end.

(* state of _resolve: the list `resolved` and the local `index` *)
Definition rstate := option (list bool * nat).

Definition step_sv (it : iteminfo) (feat : option name) (st : rstate) (sv : svec) : rstate :=
  match st with
  | None => None
  | Some (rs, idx) =>
    match s_name sv with
    | None => None
    | Some sn =>
      if name_eqb (i_name it) sn
      then Some (set_nth idx rs true ++ [feat_in feat sv], S idx)
      else Some (rs, idx)
    end
  end.

Definition step_vref (svs : option (list svec)) (st : rstate) (v : iteminfo * option name) : rstate :=
  match st with
  | None => None
  | Some (rs, idx) =>
    match svs with
    | None => None
    | Some l => fold_left (step_sv (fst v) (snd v)) l (Some (rs ++ [false], S idx))
    end
  end.

Definition step_alg (r : ref) (st : rstate) (a : alg) : rstate :=
  match st with
  | None => None
  | Some (rs, idx) =>
    match a_name a with
    | None => None
    | Some an =>
      if name_eqb an (r_impl_name r)
      then fold_left (step_vref (a_svs a)) (expand r) (Some (set_nth 0 rs true, 0))
      else Some (rs, idx)
    end
  end.

Definition factory_at (E : engine) (i : nat) (k : kind) : option factory :=
  match nth_error E i with Some p => fac_of p k | None => None end.

Definition resolve (E : engine) (r : ref) : res :=
  match r_lvl r with
  | LNone => None
  | _ =>
    match r_fac r with
    | None => None
    | Some (i, k) =>
      match factory_at E i k with
      | None => None
      | Some f =>
        if negb (callable 1 (f_params f)) then None
        else match fold_left (step_alg r) (b_algs (f_bot f)) (Some ([false], 0)) with
             | None => None
             | Some (rs, _) => Some (forallb (fun b => b) rs)
             end
      end
    end
  end.

Definition cbs_11 (E : engine) : cbs := mkCbs t_ t_ t_ t_ t_ t_ t_ t_ (resolve E) t_.
Definition rule_11 (E : engine) (p : package) : res := walk (cbs_11 E) p.

(* ------------------------------------------------------------- _verify *)
Definition rules : list (engine -> package -> res) :=
  [rule_01; rule_02; rule_03; rule_04; rule_05; rule_06; rule_07; rule_08; rule_09;
   rule_10; rule_11].

(* status = False unless the rule returned True *)
Definition status (r : res) : bool := match r with Some true => true | _ => false end.

Definition outcomes (E : engine) (p : package) : list res := map (fun r => r E p) rules.
Definition verify_pkg (E : engine) (p : package) : bool := forallb status (outcomes E p).
Definition gate (E : engine) : bool := forallb (verify_pkg E) E.

(* the gate of the pinned snapshot: same rules over walk_pinned *)
Definition rules_pinned : list (engine -> package -> res) :=
  [rule_01; (fun _ => walk_pinned cbs_02); (fun _ => walk_pinned cbs_03);
   (fun _ => walk_pinned cbs_04); (fun _ => walk_pinned cbs_05); rule_06;
   (fun _ => walk_pinned cbs_07); (fun _ => walk_pinned cbs_08);
   (fun _ => walk_pinned cbs_09); rule_10; (fun E => walk_pinned (cbs_11 E))].
Definition gate_pinned (E : engine) : bool :=
  forallb (fun p => forallb status (map (fun r => r E p) rules_pinned)) E.

(* ------------------------------------------- the rules, read declaratively *)
Definition svs_of (a : alg) : list svec := match a_svs a with Some l => l | None => [] end.
Definition deps_of (a : alg) : list ref := match a_deps a with Some l => l | None => [] end.
Definition refs_of (a : alg) : list ref := a_fb a ++ deps_of a.
Definition events_of (p : package) : list event :=
  match p_events p with Some e => ef_events e | None => [] end.

(* quantifiers over the parts of a package *)
Definition each_fac (p : package) (P : kind -> factory -> Prop) : Prop :=
  forall k f, fac_of p k = Some f -> P k f.
Definition each_alg (p : package) (P : kind -> alg -> Prop) : Prop :=
  each_fac p (fun k f => forall a, In a (b_algs (f_bot f)) -> P k a).
Definition each_sv (p : package) (P : svec -> Prop) : Prop :=
  each_alg p (fun _ a => forall sv, In sv (svs_of a) -> P sv).
Definition each_val (p : package) (P : value -> Prop) : Prop :=
  each_sv p (fun sv => forall v, In v (s_items sv) -> P v).
Definition each_ref (p : package) (P : ref -> Prop) : Prop :=
  each_alg p (fun _ a => forall r, In r (refs_of a) -> P r).
Definition each_dep (p : package) (P : kind -> ref -> Prop) : Prop :=
  each_alg p (fun k a => forall r, In r (deps_of a) -> P k r).
Definition each_event (p : package) (P : event -> Prop) : Prop :=
  forall e, In e (events_of p) -> P e.

(* rule 1: at least one factory; every factory has exactly the documented
   signature (count, defaults, annotations) *)
Definition F01 (p : package) : Prop :=
  (exists k, has_kind p k = true) /\
  forall k, has_kind p k = true -> params_of p k = exp_sig k.

(* rule 2: base types *)
Definition F02 (p : package) : Prop :=
  each_fac p (fun _ f => b_isbot (f_bot f) = true) /\
  each_alg p (fun _ a => a_isalg a = true) /\
  each_sv p (fun sv => s_issv sv = true) /\
  each_val p (fun v => v_isval v = true) /\
  each_ref p (fun r => r_lvl r <> LNone) /\
  each_event p (fun e => e_isevent e = true).

(* rule 3: abstract methods overridden, correct returns, version protocol --
   the part the rule can observe ... *)
Definition F03 (p : package) : Prop :=
  each_fac p (fun _ f => b_algs (f_bot f) <> []) /\
  each_alg p (fun _ a => a_name a <> None /\ a_deps a <> None /\ a_svs a <> None /\
                         a_ver a = VerOk) /\
  each_dep p (fun k r => dep_lvl_ok k r = true) /\
  each_sv p (fun sv => s_name sv <> None /\ s_ver sv = VerOk) /\
  each_val p (fun v => v_ver v = VerOk).
(* ... and the part its docstring promises but no rule looks at *)
Definition F03_unobserved (p : package) : Prop :=
  each_alg p (fun _ a => a_run a = true) /\
  each_sv p (fun sv => s_view sv = true) /\
  each_val p (fun v => v_feat v = true).

(* rule 4: no "." in names *)
Definition F04 (p : package) : Prop :=
  each_alg p (fun _ a => forall n, a_name a = Some n -> has_dot n = false) /\
  each_sv p (fun sv => forall n, s_name sv = Some n -> has_dot n = false) /\
  each_val p (fun v => has_dot (v_key v) = false).

(* rule 5: a state vector has keys *)
Definition F05 (p : package) : Prop := each_sv p (fun sv => s_items sv <> []).

(* rule 6: in a task's previous(), impl belongs to the package of factory *)
Definition F06 (E : engine) (p : package) : Prop :=
  forall f, p_task p = Some f -> forall a, In a (b_algs (f_bot f)) ->
  forall r, In r (deps_of a) ->
  exists i k, r_fac r = Some (i, k) /\ i < length E /\ r_impl_home r = i.

(* rule 7: values can be pickled *)
Definition F07 (p : package) : Prop := each_val p (fun v => v_pick v = true).

(* rule 8: the slots of a reference have the documented types *)
Definition F08 (p : package) : Prop :=
  each_ref p (fun r => r_fac r <> None /\ r_impl_ok r = true /\
                       (r_lvl r = LSv \/ r_lvl r = LV -> r_item_ok r = true) /\
                       (r_lvl r = LV -> r_feat r <> None)).

(* rule 9: every algorithm/analyzer/regression has a state vector *)
Definition F09 (p : package) : Prop := each_alg p (fun _ a => svs_of a <> []).

(* rule 10: exactly one of boot/day/dom/dow, of the right type; a time of day
   unless it is a boot event *)
Definition moment_follows (m : moment) : Prop :=
  ((m_boot m <> None /\ m_day m = MNone /\ m_dom m = MNone /\ m_dow m = MNone) \/
   (m_boot m = None /\ m_day m = MGood /\ m_dom m = MNone /\ m_dow m = MNone /\ m_time m = MGood) \/
   (m_boot m = None /\ m_day m = MNone /\ m_dom m = MGood /\ m_dow m = MNone /\ m_time m = MGood) \/
   (m_boot m = None /\ m_day m = MNone /\ m_dom m = MNone /\ m_dow m = MGood /\ m_time m = MGood)).
Definition F10 (p : package) : Prop :=
  each_event p (fun e => moment_follows (e_moment e)).

(* rule 11: the factory of the reference produces an algorithm of impl's name
   that holds every value the reference denotes *)
Definition resolves (E : engine) (r : ref) : Prop :=
  exists i k f a, r_fac r = Some (i, k) /\ factory_at E i k = Some f /\
    In a (b_algs (f_bot f)) /\ a_name a = Some (r_impl_name r) /\
    forall it feat, In (it, feat) (expand r) ->
      exists sv ft v, In sv (svs_of a) /\ s_name sv = Some (i_name it) /\
                      feat = Some ft /\ In v (s_items sv) /\ v_key v = ft.
Definition F11 (E : engine) (p : package) : Prop := each_ref p (resolves E).

(* what the gate can observe of the rules *)
Definition follows_obs_pkg (E : engine) (p : package) : Prop :=
  F01 p /\ F02 p /\ F03 p /\ F04 p /\ F05 p /\ F06 E p /\ F07 p /\ F08 p /\ F09 p /\
  F10 p /\ F11 E p.
Definition follows_obs (E : engine) : Prop := forall p, In p E -> follows_obs_pkg E p.
(* the rules as documented *)
Definition follows (E : engine) : Prop :=
  follows_obs E /\ forall p, In p E -> F03_unobserved p.

(* side conditions under which the code's name-based tests mean what the
   rules say: names are unique where the architecture needs them unique, and
   no package name is a string prefix of another one (rule 6 uses startswith) *)
Definition uniq_pkg (p : package) : Prop :=
  each_fac p (fun _ f => NoDup (map a_name (b_algs (f_bot f)))) /\
  each_alg p (fun _ a => NoDup (map s_name (svs_of a))).
Definition uniq (E : engine) : Prop := forall p, In p E -> uniq_pkg p.
Definition prefix_free (E : engine) : Prop :=
  forall i j pi pj, nth_error E i = Some pi -> nth_error E j = Some pj ->
    prefixb (p_name pi) (p_name pj) = true -> i = j.

(* ------------------------------------------------------ smoke examples *)
Module GateExamples.
  Definition n (l : list nat) : name := l.
  Definition V := mkValue [118] true VerOk true true.                      (* 'v' *)
  Definition SV := mkSv true (Some [115;118]) VerOk [V] true.         (* 'sv' *)
  Definition R_up : ref :=
    mkRef LSv (Some (0, KTask)) true 0 [117;112] [mkItem [115;118] [[118]]] true
          (mkItem [115;118] [[118]]) None.
  Definition A_up := mkAlg true (Some [117;112]) VerOk (Some []) [] (Some [SV]) true.
  Definition A_r := mkAlg true (Some [114]) VerOk (Some [R_up]) [] (Some [SV]) true.
  Definition P_up := mkPkg [117;112] None None None
                       (Some (mkFac (exp_sig KTask) (mkBot true [A_up]))).
  (* a package that only offers a regression *)
  Definition P_ronly := mkPkg [114;111] None None
                       (Some (mkFac (exp_sig KRegress) (mkBot true [A_r]))) None.
  Definition E := [P_up; P_ronly].
  Example now_accepts_regress_only : gate E = true.
  Proof. vm_compute. reflexivity. Qed.
  Example pinned_rejected_regress_only : gate_pinned E = false.
  Proof. vm_compute. reflexivity. Qed.
End GateExamples.
