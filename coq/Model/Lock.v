(* Model/Lock.v -- C13: the database lock protocol of
   dawgie.db.shelve.comms.Worker (server side).  Definitions only.

   Global: dawgie.context.db_lock.  Per connection (one Worker object):
     has      self.__has_lock
     running  self.__looping_call.running        (twisted LoopingCall)
     stopped  self.__looping_call_stopped
     lost     self.__connection_lost
     closed   transport.loseConnection() was called (no more requests delivered)
     timers   pending reactor.callLater(1, self.__looping_call.stop)

   Events (the case decides the interleaving; each is one atomic reactor call):
     Acquire c  dataReceived(frame(COMMAND(Func.acquire))) -> do -> looping_call.start(3)
                (start runs _do_acquire at once)
     Poll c     the LoopingCall fires: _do_acquire
     Release c  dataReceived(frame(COMMAND(Func.release))) -> _do_release ; loseConnection
     Drop c     connectionLost
     Timer c    a pending callLater(1, looping_call.stop) fires
*)
From Coq Require Import List ZArith Bool Arith.
Import ListNotations.

Record cst := mkCst {
  has : bool; running : bool; stopped : bool; lost : bool; closed : bool; timers : nat }.
Definition fresh : cst := mkCst false false false false false 0.

Record lstate := mkL { lock : bool; conns : list cst }.
Definition linit (n : nat) : lstate := mkL false (repeat fresh n).

Inductive event := Acquire (c : nat) | Poll (c : nat) | Release (c : nat) | Drop (c : nat) | Timer (c : nat).

Inductive lout :=
| ToldYours (c : nat)       (* _send(Mutex.unlock): "the lock is yours" *)
| ToldBusy (c : nat)        (* _send(Mutex.lock) *)
| Released (c : nat) (b : bool)   (* _send(True/False) by _do_release *)
| Closed (c : nat)          (* transport.loseConnection() *)
| Crashed (c : nat).        (* AssertionError of LoopingCall.start/stop *)

Definition get (c : nat) (l : list cst) : cst := nth c l fresh.
Fixpoint upd (c : nat) (x : cst) (l : list cst) : list cst :=
  match l, c with
  | [], _ => []
  | _ :: r, O => x :: r
  | y :: r, S c' => y :: upd c' x r
  end.

(* _do_acquire of connection c *)
Definition do_acquire (c : nat) (st : lstate) : lstate * list lout :=
  let k := get c (conns st) in
  if stopped k then (st, [])
  else if lost k then (st, [])
  else if lock st then (st, [ToldBusy c])                    (* status lock: tell busy *)
  else (* status unlock: _lock_db, callLater(1, stop), stopped, tell yours *)
    (mkL true (upd c (mkCst true (running k) true (lost k) (closed k) (S (timers k))) (conns st)),
     [ToldYours c]).

(* connectionLost of connection c *)
Definition do_drop (c : nat) (st : lstate) : lstate :=
  let k := get c (conns st) in
  let sched := running k && negb (stopped k) in
  let k1 := mkCst false (running k) (stopped k || sched) true (closed k)
                  (if sched then S (timers k) else timers k) in
  mkL (if has k then false else lock st) (upd c k1 (conns st)).

Definition step (st : lstate) (e : event) : lstate * list lout :=
  match e with
  | Acquire c =>
      let k := get c (conns st) in
      if negb (c <? length (conns st)) || closed k || lost k then (st, [])  (* not delivered *)
      else if running k
      then (* LoopingCall.start asserts not running: the exception leaves
              dataReceived, Twisted drops the connection *)
           (do_drop c st, [Crashed c])
      else do_acquire c (mkL (lock st)
             (upd c (mkCst (has k) true (stopped k) (lost k) (closed k) (timers k)) (conns st)))
  | Poll c =>
      if running (get c (conns st)) then do_acquire c st else (st, [])
  | Release c =>
      let k := get c (conns st) in
      if negb (c <? length (conns st)) || closed k || lost k then (st, [])  (* not delivered *)
      else if has k
      then (mkL false (upd c (mkCst false (running k) (stopped k) (lost k) true (timers k)) (conns st)),
            [Released c true; Closed c])
      else (mkL (lock st) (upd c (mkCst false (running k) (stopped k) (lost k) true (timers k)) (conns st)),
            [Released c false; Closed c])
  | Drop c =>
      let k := get c (conns st) in
      if negb (c <? length (conns st)) || lost k then (st, [])   (* connectionLost comes once *)
      else (do_drop c st, [])
  | Timer c =>
      let k := get c (conns st) in
      match timers k with
      | O => (st, [])
      | S t =>
          if running k
          then (mkL (lock st) (upd c (mkCst (has k) false (stopped k) (lost k) (closed k) t) (conns st)), [])
          else (mkL (lock st) (upd c (mkCst (has k) false (stopped k) (lost k) (closed k) t) (conns st)),
                [Crashed c])
      end
  end.

Fixpoint run (st : lstate) (evs : list event) : lstate * list lout :=
  match evs with
  | [] => (st, [])
  | e :: r => let '(s1, o1) := step st e in let '(s2, o2) := run s1 r in (s2, o1 ++ o2)
  end.

(* all the intermediate observations (correspondence: one per step) *)
Fixpoint trace (st : lstate) (evs : list event) : list (lstate * list lout) :=
  match evs with
  | [] => []
  | e :: r => let '(s1, o1) := step st e in (s1, o1) :: trace s1 r
  end.

(* c is waiting for the lock: its poller runs and can still take it *)
Definition waiting (k : cst) : bool := running k && negb (stopped k) && negb (lost k).

(* ---- canonical observation ---------------------------------------------- *)
Definition b2z (b : bool) : Z := if b then 1%Z else 0%Z.
Definition obs_lout (o : lout) : Z * Z :=
  match o with
  | ToldYours c => (1, Z.of_nat c) | ToldBusy c => (2, Z.of_nat c)
  | Released c true => (3, Z.of_nat c) | Released c false => (4, Z.of_nat c)
  | Closed c => (5, Z.of_nat c) | Crashed c => (6, Z.of_nat c)
  end%Z.
Definition obs_cst (k : cst) :=
  (has k, running k, stopped k, lost k, closed k, Z.of_nat (timers k)).
Definition obs_step (r : lstate * list lout) :=
  (map obs_lout (snd r), lock (fst r), map obs_cst (conns (fst r))).
Definition obs_trace (n : nat) (evs : list event) := map obs_step (trace (linit n) evs).

(* ---- histories in which the database is closed and reopened between lock
   events (Worker._do_copy and shelve.archive do that while a client holds the
   lock): the lock protocol state is untouched ---- *)
Inductive xevent := Ev (e : event) | Reopen.
Definition xstep (st : lstate) (x : xevent) : lstate * list lout :=
  match x with Ev e => step st e | Reopen => (st, []) end.
Fixpoint xrun (st : lstate) (xs : list xevent) : lstate * list lout :=
  match xs with
  | [] => (st, [])
  | x :: r => let '(s1, o1) := xstep st x in let '(s2, o2) := xrun s1 r in (s2, o1 ++ o2)
  end.
Fixpoint xtrace (st : lstate) (xs : list xevent) : list (lstate * list lout) :=
  match xs with
  | [] => []
  | x :: r => let '(s1, o1) := xstep st x in (s1, o1) :: xtrace s1 r
  end.
Fixpoint erase (xs : list xevent) : list event :=
  match xs with [] => [] | Ev e :: r => e :: erase r | Reopen :: r => erase r end.
Definition obs_xtrace (n : nat) (xs : list xevent) := map obs_step (xtrace (linit n) xs).

Example lock_example :
  snd (run (linit 2) [Acquire 0; Acquire 1; Poll 1; Release 0; Poll 1; Drop 0; Drop 1])
  = [ToldYours 0; ToldBusy 1; ToldBusy 1; Released 0 true; Closed 0; ToldYours 1].
Proof. vm_compute. reflexivity. Qed.
Example lock_example_final :
  lock (fst (run (linit 2) [Acquire 0; Acquire 1; Poll 1; Release 0; Poll 1; Drop 0; Drop 1])) = false.
Proof. vm_compute. reflexivity. Qed.
