(* Model/LogSend.v -- C14, SENDER side of the log channel:
   dawgie.pl.logger.TwistedHandler on top of logging.handlers.SocketHandler
   (python 3.12), the peer of LogSink.dataReceived (Model/Frame.v).
   Definitions only; all names carry the prefix ls_/LS (Frame.v, Shake.v and
   Client.v own the short ones).

   class SocketHandler:                           class TwistedHandler(SocketHandler):
     def makePickle(self, record):                  def emit(self, record):
         ... s = pickle.dumps(d, 1)                     if _ROOT is not None and _ROOT.isWithinReactor():
         return struct.pack(">L", len(s)) + s               _ROOT.actual().handle(record)
     def createSocket(self):                            else:
         now = time.time()                                  if self.__shaking: self.__q.append(record)
         if self.retryTime is None: attempt = True          else:
         else: attempt = (now >= self.retryTime)                for r in self.__q: super().emit(r)
         if attempt:                                            self.__q = []
             try:                                               super().emit(record)
                 self.sock = self.makeSocket()          def makeSocket(self, timeout=1):
                 self.retryTime = None                      self.__shaking = True
             except OSError:                                s = dawgie.security.connect(self.address)
                 if self.retryTime is None:                 self.__shaking = False
                     self.retryPeriod = self.retryStart     return s
                 else:
                     self.retryPeriod = self.retryPeriod * self.retryFactor
                     if self.retryPeriod > self.retryMax: self.retryPeriod = self.retryMax
                 self.retryTime = now + self.retryPeriod
     def send(self, s):
         if self.sock is None: self.createSocket()
         if self.sock:
             try: self.sock.sendall(s)
             except OSError: self.sock.close(); self.sock = None
     def emit(self, record):
         try: s = self.makePickle(record); self.send(s)
         except Exception: self.handleError(record)      # closeOnError is False: no state change
     def close(self): ... sock = self.sock; if sock: self.sock = None; sock.close()

   Records are identifiers (Z); [pk r] is the pickle of record r (an oracle:
   pickle.dumps(d, 1)).  The outside world is scripted:
     ls_env   : one entry per call of dawgie.security.connect -- the records that
                are logged while it runs (they re-enter emit through the root
                logger while __shaking is set), how it ends (0 returns a socket,
                1 raises OSError, 2 raises another exception) and the identifier
                of the record that security.connect itself logs when it fails
                (log.exception('Could not connect ...'));
     ls_sends : one entry per sock.sendall -- -1: all bytes accepted, j >= 0:
                OSError after min(j, len-1) bytes were accepted;
     ls_ticks : increment of time.time() at each createSocket call.
   What the outside sees: per connection (a socket returned by connect) the bytes
   accepted from sendall, in order.  [ls_wids] is a ghost: the records whose
   whole frame was accepted on that connection. *)
From Coq Require Import List ZArith Bool.
From DV Require Import Model.Frame.
Import ListNotations.
Open Scope Z_scope.

Record ls_wire := mkLW { ls_wids : list Z; ls_wbytes : list Z }.
Record ls_attempt := mkLA { ls_nested : list Z; ls_res : Z; ls_fid : Z }.

Record ls_st := mkLS {
  ls_sock : option ls_wire;     (* self.sock (None / the connection it writes to) *)
  ls_rtime : option Z;          (* self.retryTime *)
  ls_rperiod : Z;               (* self.retryPeriod; -1: attribute not set yet *)
  ls_shaking : bool;            (* self.__shaking *)
  ls_q : list Z;                (* self.__q *)
  ls_closed : list ls_wire;     (* connections that are over, newest first *)
  ls_local : list Z;            (* records handed to _ROOT.actual() directly *)
  ls_dropped : list Z;          (* ghost: records emit() gave up on *)
  ls_now : Z;                   (* the clock *)
  ls_ticks : list Z;
  ls_env : list ls_attempt;
  ls_sends : list Z
}.

Definition ls_init (ticks : list Z) (env : list ls_attempt) (sends : list Z) : ls_st :=
  mkLS None None (-1) false [] [] [] [] 0 ticks env sends.

Definition ls_set_sock s x := mkLS x (ls_rtime s) (ls_rperiod s) (ls_shaking s) (ls_q s) (ls_closed s) (ls_local s) (ls_dropped s) (ls_now s) (ls_ticks s) (ls_env s) (ls_sends s).
Definition ls_set_retry s t p := mkLS (ls_sock s) t p (ls_shaking s) (ls_q s) (ls_closed s) (ls_local s) (ls_dropped s) (ls_now s) (ls_ticks s) (ls_env s) (ls_sends s).
Definition ls_set_shaking s x := mkLS (ls_sock s) (ls_rtime s) (ls_rperiod s) x (ls_q s) (ls_closed s) (ls_local s) (ls_dropped s) (ls_now s) (ls_ticks s) (ls_env s) (ls_sends s).
Definition ls_set_q s x := mkLS (ls_sock s) (ls_rtime s) (ls_rperiod s) (ls_shaking s) x (ls_closed s) (ls_local s) (ls_dropped s) (ls_now s) (ls_ticks s) (ls_env s) (ls_sends s).
Definition ls_set_closed s x := mkLS (ls_sock s) (ls_rtime s) (ls_rperiod s) (ls_shaking s) (ls_q s) x (ls_local s) (ls_dropped s) (ls_now s) (ls_ticks s) (ls_env s) (ls_sends s).
Definition ls_set_local s x := mkLS (ls_sock s) (ls_rtime s) (ls_rperiod s) (ls_shaking s) (ls_q s) (ls_closed s) x (ls_dropped s) (ls_now s) (ls_ticks s) (ls_env s) (ls_sends s).
Definition ls_set_dropped s x := mkLS (ls_sock s) (ls_rtime s) (ls_rperiod s) (ls_shaking s) (ls_q s) (ls_closed s) (ls_local s) x (ls_now s) (ls_ticks s) (ls_env s) (ls_sends s).
Definition ls_set_clock s t k := mkLS (ls_sock s) (ls_rtime s) (ls_rperiod s) (ls_shaking s) (ls_q s) (ls_closed s) (ls_local s) (ls_dropped s) t k (ls_env s) (ls_sends s).
Definition ls_set_env s x := mkLS (ls_sock s) (ls_rtime s) (ls_rperiod s) (ls_shaking s) (ls_q s) (ls_closed s) (ls_local s) (ls_dropped s) (ls_now s) (ls_ticks s) x (ls_sends s).
Definition ls_set_sends s x := mkLS (ls_sock s) (ls_rtime s) (ls_rperiod s) (ls_shaking s) (ls_q s) (ls_closed s) (ls_local s) (ls_dropped s) (ls_now s) (ls_ticks s) (ls_env s) x.

(* the records queued by one run of security.connect under makeSocket *)
Definition ls_logged (a : ls_attempt) : list Z :=
  ls_nested a ++ (if ls_res a =? 0 then [] else [ls_fid a]).

(* beyond the end of the script the world is silent: the connection is refused
   and the record security.connect logs about it is filtered out (the driver's
   filter does that), so that a history is a finite object *)
Definition ls_refused : ls_attempt := mkLA [] 1 (-1).
Definition ls_logged_hd (e : list ls_attempt) : list Z :=
  match e with [] => [] | a :: _ => ls_logged a end.

(* SocketHandler.createSocket with TwistedHandler.makeSocket inlined.
   The boolean says that an exception other than OSError escapes. *)
Definition ls_createSocket (s : ls_st) : ls_st * bool :=
  let t := ls_now s + hd 0 (ls_ticks s) in                       (* now = time.time() *)
  let s1 := ls_set_clock s t (tl (ls_ticks s)) in
  if match ls_rtime s1 with None => true | Some rt => rt <=? t end then
    let a := hd ls_refused (ls_env s1) in
    (* makeSocket: __shaking = True; security.connect(address) -- what it logs is queued *)
    let s2 := ls_set_env (ls_set_q (ls_set_shaking s1 true) (ls_q s1 ++ ls_logged_hd (ls_env s1))) (tl (ls_env s1)) in
    if ls_res a =? 0 then
      (* __shaking = False; self.sock = s; self.retryTime = None *)
      (ls_set_retry (ls_set_sock (ls_set_shaking s2 false) (Some (mkLW [] []))) None (ls_rperiod s2), false)
    else if ls_res a =? 1 then
      (* except OSError: back off; __shaking stays True *)
      let p := match ls_rtime s2 with None => 1 | Some _ => Z.min (ls_rperiod s2 * 2) 30 end in
      (ls_set_retry s2 (Some (t + p)) p, false)
    else (s2, true)
  else (s1, false).

Section Sender.
Variable pk : Z -> list Z.     (* pickle.dumps(record dict, 1) *)

(* SocketHandler.makePickle *)
Definition ls_makePickle (r : Z) : list Z := frame (pk r).

Definition ls_drop (s : ls_st) (r : Z) : ls_st := ls_set_dropped s (ls_dropped s ++ [r]).

(* SocketHandler.emit(record) = makePickle + send, inside try/except Exception *)
Definition ls_send (s : ls_st) (r : Z) : ls_st :=
  let '(s1, exc) := match ls_sock s with None => ls_createSocket s | Some _ => (s, false) end in
  if exc then ls_drop s1 r                               (* handleError: nothing changes *)
  else
    match ls_sock s1 with
    | Some w =>                                          (* self.sock.sendall(s) *)
        let b := ls_makePickle r in
        let j := hd (-1) (ls_sends s1) in
        let s2 := ls_set_sends s1 (tl (ls_sends s1)) in
        if j <? 0 then ls_set_sock s2 (Some (mkLW (ls_wids w ++ [r]) (ls_wbytes w ++ b)))
        else                                             (* OSError: sock.close(); self.sock = None *)
          let got := firstn (Z.to_nat (Z.min j (Z.of_nat (length b) - 1))) b in
          ls_drop (ls_set_closed (ls_set_sock s2 None) (mkLW (ls_wids w) (ls_wbytes w ++ got) :: ls_closed s2)) r
    | None => ls_drop s1 r                               (* if self.sock: false -- silently dropped *)
    end.

(* for r in self.__q: super().emit(r)   -- the list may grow while the loop runs
   (a reconnect inside the loop queues what security.connect logs; the list
   iterator goes on over the new items).  The model keeps in ls_q the part of
   self.__q the loop has not reached yet, so that "self.__q = []" after the loop
   is the state the loop ends in.  Each iteration takes one record from the queue
   and a reconnect adds at most what one entry of ls_env holds: ls_fuel bounds
   the number of iterations (Proofs/LogSendProofs.v, LS_flush_done). *)
Fixpoint ls_flush (fuel : nat) (s : ls_st) : ls_st :=
  match fuel with
  | O => s
  | S f => match ls_q s with
           | [] => s
           | r :: rest => ls_flush f (ls_send (ls_set_q s rest) r)
           end
  end.

Fixpoint ls_envsize (e : list ls_attempt) : nat :=
  match e with [] => O | a :: r => (S (length (ls_nested a)) + ls_envsize r)%nat end.
Definition ls_fuel (s : ls_st) : nat := (length (ls_q s) + ls_envsize (ls_env s))%nat.

(* TwistedHandler.emit *)
Definition ls_emit (within : bool) (s : ls_st) (r : Z) : ls_st :=
  if within then ls_set_local s (ls_local s ++ [r])
  else if ls_shaking s then ls_set_q s (ls_q s ++ [r])
  else ls_send (ls_flush (ls_fuel s) s) r.

(* SocketHandler.close *)
Definition ls_close (s : ls_st) : ls_st :=
  match ls_sock s with
  | Some w => ls_set_closed (ls_set_sock s None) (w :: ls_closed s)
  | None => s
  end.

Inductive ls_ev := LEmit (t r : Z) | LClose (t : Z).

Definition ls_at (s : ls_st) (t : Z) : ls_st := ls_set_clock s (Z.max (ls_now s) t) (ls_ticks s).

Definition ls_step (within : bool) (s : ls_st) (e : ls_ev) : ls_st :=
  match e with
  | LEmit t r => ls_emit within (ls_at s t) r
  | LClose t => ls_close (ls_at s t)
  end.

Definition ls_run (within : bool) (s : ls_st) (evs : list ls_ev) : ls_st :=
  fold_left (ls_step within) evs s.

Fixpoint ls_trace (within : bool) (s : ls_st) (evs : list ls_ev) : list ls_st :=
  match evs with
  | [] => []
  | e :: r => let s' := ls_step within s e in s' :: ls_trace within s' r
  end.

(* all connections, oldest first *)
Definition ls_wires (s : ls_st) : list ls_wire :=
  rev (ls_closed s) ++ match ls_sock s with Some w => [w] | None => [] end.

End Sender.

(* ---- the receiving end: a fresh LogSink per connection ------------------- *)
(* LogSink never calls loseConnection; what makePickle produced unpickles *)
Definition ls_chan : chan := mkChan (fun _ => false) (fun _ => true).

(* the LogSink of one connection is handed [chunks] *)
Definition ls_sink (chunks : list (list Z)) : list out := snd (conn_run ls_chan cinit chunks).

(* ---- correspondence helpers ------------------------------------------------ *)
Fixpoint ls_assoc (tbl : list (Z * list Z)) (r : Z) : list Z :=
  match tbl with
  | [] => []
  | (k, p) :: t => if k =? r then p else ls_assoc t r
  end.

Definition ls_optz (o : option Z) : Z := match o with None => -1 | Some x => x end.

(* per step: sock is set, shaking, q, retryTime, retryPeriod, records and number
   of bytes on the current connection, number of finished connections, local, clock *)
Definition ls_obs (s : ls_st) :=
  (match ls_sock s with Some _ => true | None => false end, ls_shaking s, ls_q s,
   (ls_optz (ls_rtime s), ls_rperiod s),
   (match ls_sock s with Some w => (ls_wids w, Z.of_nat (length (ls_wbytes w))) | None => ([], -1) end,
    Z.of_nat (length (ls_closed s)), ls_local s, ls_now s)).

(* the end of a history: every connection with the records and bytes it carried,
   and what a LogSink makes of the bytes that arrive (all but the last [lose]),
   cut as [cuts] says *)
Definition ls_arrive (lose : Z) (b : list Z) : list Z :=
  firstn (Z.to_nat (Z.of_nat (length b) - lose)) b.
Definition ls_final (net : list (Z * list Z)) (s : ls_st) :=
  (map (fun w => (ls_wids w, ls_wbytes w)) (ls_wires s),
   map (fun wn => let '(w, (lose, cuts)) := wn in
                  deliveries (ls_sink (split_lens cuts (ls_arrive lose (ls_wbytes w)))))
       (combine (ls_wires s) (net ++ repeat (0, []) (length (ls_wires s)))),
   ls_dropped s, (Z.of_nat (length (ls_env s)), Z.of_nat (length (ls_sends s)))).

Definition ls_history (tbl : list (Z * list Z)) (within : bool) ticks env sends
                      (evs : list ls_ev) (net : list (Z * list Z)) :=
  let s0 := ls_init ticks env sends in
  (map ls_obs (ls_trace (ls_assoc tbl) within s0 evs),
   ls_final net (ls_run (ls_assoc tbl) within s0 evs)).

(* ---- examples ---------------------------------------------------------------- *)
Definition ls_ex_pk (r : Z) : list Z := [r; r].

(* a connection that stays up: frames in order *)
Example ls_example_up :
  ls_wires (ls_run ls_ex_pk false (ls_init [] [mkLA [] 0 0] []) [LEmit 0 7; LEmit 1 8])
  = [mkLW [7; 8] [0;0;0;2;7;7; 0;0;0;2;8;8]].
Proof. vm_compute. reflexivity. Qed.

(* records logged during the handshake are queued and go out before the next record *)
Example ls_example_nested :
  let s := ls_run ls_ex_pk false (ls_init [] [mkLA [50; 51] 0 0] []) [LEmit 0 7] in
  (ls_q s, map ls_wids (ls_wires s)) = ([50; 51], [[7]])
  /\ map ls_wids (ls_wires (ls_step ls_ex_pk false s (LEmit 1 8))) = [[7; 50; 51; 8]].
Proof. vm_compute. split; reflexivity. Qed.

(* a send that fails after 3 bytes: torn frame on the dead connection, the
   record is dropped, the next record reconnects at once *)
Example ls_example_break :
  let s := ls_run ls_ex_pk false (ls_init [] [mkLA [] 0 0; mkLA [] 0 0] [-1; 3])
                  [LEmit 0 7; LEmit 1 8; LEmit 1 9] in
  (ls_wires s, ls_dropped s) = ([mkLW [7] [0;0;0;2;7;7; 0;0;0]; mkLW [9] [0;0;0;2;9;9]], [8]).
Proof. vm_compute. reflexivity. Qed.

(* a refused connection: the record is dropped, __shaking stays set, every
   later record is queued and no connection is ever tried again *)
Example ls_example_stuck :
  let s := ls_run ls_ex_pk false (ls_init [] [mkLA [] 1 900; mkLA [] 0 0] [])
                  [LEmit 0 7; LEmit 5 8; LEmit 100 9] in
  (ls_shaking s, ls_q s, ls_dropped s, ls_wires s, length (ls_env s), ls_rtime s)
  = (true, [900; 8; 9], [7], [], 1%nat, Some 1).
Proof. vm_compute. reflexivity. Qed.

(* back-off inside one flush: the clock moves at each createSocket call *)
Example ls_example_backoff :
  let s0 := ls_set_q (ls_init [0; 0; 2; 1; 5] [mkLA [] 1 900; mkLA [] 1 901; mkLA [] 0 0] []) [1; 2; 3; 4; 5] in
  let s := ls_emit ls_ex_pk false s0 6 in
  (ls_dropped s, map ls_wids (ls_wires s), ls_q s, ls_now s) = ([1; 2; 3; 4], [[5; 900; 901; 6]], [], 8).
Proof. vm_compute. reflexivity. Qed.
