(* Executable model of dawgie.pl.schedule (organize / next_job_batch / complete /
   purge / update / build / defer) and dawgie.pl.farm (dispatch / _put / rerunid /
   Hand._res / _reg / _process(status) / connectionLost / notify_all).

   One Gallina function per Python function, same branch structure.  Definitions
   only (DESIGN 7.0).  Names are nat ids: the harness numbers the algorithm
   nodes in sorted tag order, so sorting by id = sorting by tag; target 0 is
   '__all__'.  Python sets (doing, do) are duplicate-free lists compared as
   sorted sets; todo (fifo.Unique) keeps insertion order. *)
From Coq Require Import List Arith ZArith Bool Lia.
Import ListNotations.

Definition node := nat.
Definition tgt := nat.
Definition ALL : tgt := 0.
Definition vname := nat.
Definition wid := nat.

Inductive fac := Task | Analysis | Regress.
Inductive status := Initial | Waiting | Running | Delayed.
Inductive outcome := Success | Failure | Invalid.

Definition fac_eqb (a b : fac) : bool :=
  match a, b with Task, Task | Analysis, Analysis | Regress, Regress => true | _, _ => false end.
Definition status_eqb (a b : status) : bool :=
  match a, b with Initial, Initial | Waiting, Waiting | Running, Running | Delayed, Delayed => true
  | _, _ => false end.

(* ---- static description of one engine (what dag.Construct produced) ---- *)
Record ginfo := {
  kids : list node;      (* children of the node in Construct.at *)
  anc  : list node;      (* the node's 'ancestry' attribute *)
  gfac : fac;            (* factory kind *)
  lvl  : nat;            (* 'level' attribute (orders the queue) *)
  ins  : list vname;     (* value names declared as input: as_vref(_priors(alg)) *)
}.
Definition dflt_ginfo := {| kids := []; anc := []; gfac := Task; lvl := 0; ins := [] |}.

Record cfg := {
  gnodes : list ginfo;             (* index = node id *)
  gfb : list (vname * node);       (* Construct.feedbacks: fed-back value -> consumer algorithm *)
  gtargets : list tgt;             (* dawgie.db.targets() *)
}.
Definition gi (c : cfg) (x : node) : ginfo := nth x (gnodes c) dflt_ginfo.
Definition asp (c : cfg) (x : node) : bool := fac_eqb (gfac (gi c x)) Analysis.
Definition nnodes (c : cfg) : nat := length (gnodes c).

(* ---- per-node scheduling attributes ---- *)
Record nstate := {
  todo : list tgt; doing : list tgt; do_ : list tgt;
  stat : status; rid : option Z;
}.
Definition dflt_ns := {| todo := []; doing := []; do_ := []; stat := Initial; rid := None |}.

Record msg := { m_job : node; m_tgt : tgt; m_rid : Z; m_fac : fac }.

Record state := {
  ns : list nstate;                 (* index = node id *)
  que : list node;                  (* schedule.que *)
  paused : bool;
  jobs : list node;                 (* farm._jobs *)
  cluster : list msg;               (* farm._cluster *)
  busy : list (node * tgt);         (* farm._busy *)
  workers : list (wid * nat);       (* farm._workers: (hand, host) *)
  archive : bool;                   (* farm.ARCHIVE *)
  active : bool;                    (* fsm.is_pipeline_active() *)
  stored : Z;                       (* max run id in the database (db.next() = stored+1) *)
  (* ghost: truth about the world, not a python variable *)
  inflight : list (wid * msg);      (* task messages written to a worker, not yet answered *)
}.

(* observable outputs of one event *)
Inductive out :=
| OTask (w : wid) (m : msg)         (* task message written to hand w *)
| OWait (w : wid)                   (* notify: wait message *)
| OAbort (w : wid)                  (* abort response + loseConnection *)
| OProceed (w : wid)                (* status poll answered 'proceed' + loseConnection *)
| OChron (x : node) (t : tgt) (r : Z) (o : outcome)   (* chronicle.append *)
| ODropped (x : node)               (* IndexError in schedule.find: reply dropped *)
| OArchive                          (* fsm.archiving_trigger() *)
| ONext (r : Z).                    (* db.next() consulted, returned r *)

(* ---- small list library ---- *)
Definition mem (t : nat) (l : list nat) : bool := existsb (Nat.eqb t) l.
Definition add (t : nat) (l : list nat) : list nat := if mem t l then l else l ++ [t].
Definition addl (ts l : list nat) : list nat := fold_left (fun acc t => add t acc) ts l.
Definition rem (t : nat) (l : list nat) : list nat := filter (fun u => negb (Nat.eqb u t)) l.

Definition getn (l : list nstate) (x : node) : nstate := nth x l dflt_ns.
Fixpoint setn (l : list nstate) (x : node) (v : nstate) : list nstate :=
  match l, x with
  | [], _ => []
  | _ :: r, 0 => v :: r
  | a :: r, S k => a :: setn r k v
  end.

Definition set_ns (s : state) (l : list nstate) : state :=
  {| ns := l; que := que s; paused := paused s; jobs := jobs s; cluster := cluster s;
     busy := busy s; workers := workers s; archive := archive s; active := active s;
     stored := stored s; inflight := inflight s |}.
Definition set_que (s : state) (q : list node) : state :=
  {| ns := ns s; que := q; paused := paused s; jobs := jobs s; cluster := cluster s;
     busy := busy s; workers := workers s; archive := archive s; active := active s;
     stored := stored s; inflight := inflight s |}.

(* stable insertion sort by level = python's sorted(key=level) *)
Fixpoint ins_lvl (c : cfg) (x : node) (l : list node) : list node :=
  match l with
  | [] => [x]
  | y :: r => if lvl (gi c x) <? lvl (gi c y) then x :: y :: r else y :: ins_lvl c x r
  end.
Definition sort_lvl (c : cfg) (l : list node) : list node :=
  fold_left (fun acc x => ins_lvl c x acc) l [].

(* ---- schedule.organize ---- *)
Definition organize1 (c : cfg) (r : option Z) (tg : list tgt) (s : state) (x : node) : state :=
  if nnodes c <=? x then s else
  let n := getn (ns s) x in
  let td := if asp c x then add ALL (todo n)
            else if mem ALL tg then addl (gtargets c) (todo n)
            else addl tg (todo n) in
  let n' := {| todo := td; doing := doing n; do_ := do_ n;
               stat := if status_eqb (stat n) Running then Running else Waiting;
               rid := r |} in
  set_que (set_ns s (setn (ns s) x n')) (add x (que s)).

Definition organize (c : cfg) (names : list node) (r : option Z) (tg : list tgt) (s : state) : state :=
  let s' := fold_left (organize1 c r tg) names s in
  set_que s' (sort_lvl c (que s')).

(* ---- schedule.next_job_batch (promotion off) ---- *)
Definition pend (l : list nstate) (a : node) (t : tgt) : bool :=
  mem t (todo (getn l a)) || mem t (doing (getn l a)).

Definition deps (c : cfg) (q : list node) (x : node) : list node :=
  filter (fun d => mem d (anc (gi c x))) q.

Definition blocked_all (c : cfg) (l : list nstate) (q : list node) (x : node) : bool :=
  existsb (fun d => existsb (fun t => Nat.eqb t ALL || pend l d ALL) (todo (getn l x))) (deps c q x).

Definition avail (c : cfg) (l : list nstate) (q : list node) (x : node) : list tgt :=
  if blocked_all c l q x then []
  else filter (fun t => negb (mem t (doing (getn l x)))
                        && negb (existsb (fun d => pend l d t) (deps c q x)))
              (todo (getn l x)).

Definition release (c : cfg) (q : list node) (acc : list nstate * list node) (x : node)
  : list nstate * list node :=
  let '(l, rel) := acc in
  match todo (getn l x) with
  | [] => (l, rel)
  | _ :: _ =>
    let av := avail c l q x in
    let n := getn l x in
    let n' := {| todo := filter (fun t => negb (mem t av)) (todo n);
                 doing := addl av (doing n); do_ := addl av (do_ n);
                 stat := stat n; rid := rid n |} in
    (setn l x n', match av with [] => rel | _ :: _ => rel ++ [x] end)
  end.

Definition next_job_batch (c : cfg) (s : state) : state * list node :=
  if paused s then (s, []) else
  let '(l, rel) := fold_left (release c (que s)) (que s) (ns s, []) in
  (set_ns s l, sort_lvl c rel).

(* ---- schedule.complete ---- *)
Definition complete (c : cfg) (x : node) (t : tgt) (s : state) : state :=
  let n := getn (ns s) x in
  let dg := if Nat.eqb t ALL then [] else rem t (doing n) in
  let idle := match todo n, dg with [], [] => true | _, _ => false end in
  let n' := {| todo := todo n; doing := dg; do_ := do_ n;
               stat := if idle then Waiting else stat n; rid := rid n |} in
  let s' := set_ns s (setn (ns s) x n') in
  if idle then set_que s' (rem x (que s')) else s'.

(* ---- schedule.purge ---- *)
Fixpoint descend (c : cfg) (fuel : nat) (x : node) : list node :=
  match fuel with
  | 0 => [x]
  | S f => x :: flat_map (descend c f) (kids (gi c x))
  end.
Definition purge1 (t : tgt) (l : list nstate) (y : node) : list nstate :=
  let n := getn l y in
  setn l y {| todo := rem t (todo n); doing := rem t (doing n); do_ := rem t (do_ n);
              stat := stat n; rid := rid n |}.
Definition purge (c : cfg) (x : node) (t : tgt) (s : state) : state :=
  set_ns s (fold_left (purge1 t) (descend c (nnodes c) x) (ns s)).

(* ---- schedule.update ---- *)
Definition assoc (v : vname) (l : list (vname * node)) : option node :=
  match find (fun p => Nat.eqb (fst p) v) l with Some p => Some (snd p) | None => None end.

Definition update (c : cfg) (values : list (tgt * vname * bool)) (x : node) (r : Z) (s : state)
  : state :=
  match values with
  | [] => s
  | _ :: _ =>
    let news := filter (fun v => snd v) values in
    let tg := fold_left (fun acc v => add (fst (fst v)) acc) news [] in
    let vns := map (fun v => snd (fst v)) news in
    let fbs := flat_map (fun v => match assoc v (gfb c) with Some y => [y] | None => [] end) vns in
    let r' := match fbs with [] => Some r | _ :: _ => None end in
    let ch := filter (fun y => negb (Nat.eqb y x)
                               && existsb (fun i => mem i vns) (ins (gi c y)))
                     (kids (gi c x)) in
    let names := filter (fun y => mem y fbs || mem y ch) (seq 0 (nnodes c)) in
    organize c names r' tg s
  end.

(* ---- Hand._res ---- *)
Definition unit_eqb (a b : node * tgt) : bool := Nat.eqb (fst a) (fst b) && Nat.eqb (snd a) (snd b).
Definition msg_unit (m : msg) : node * tgt := (m_job m, m_tgt m).

Definition set_busy (s : state) (b : list (node * tgt)) : state :=
  {| ns := ns s; que := que s; paused := paused s; jobs := jobs s; cluster := cluster s;
     busy := b; workers := workers s; archive := archive s; active := active s;
     stored := stored s; inflight := inflight s |}.
Definition set_archive (s : state) (a : bool) : state :=
  {| ns := ns s; que := que s; paused := paused s; jobs := jobs s; cluster := cluster s;
     busy := busy s; workers := workers s; archive := a; active := active s;
     stored := stored s; inflight := inflight s |}.

Definition res (c : cfg) (x : node) (t : tgt) (r : Z) (o : outcome)
           (values : list (tgt * vname * bool)) (s : state) : state * list out :=
  let s1 := set_busy s (filter (fun u => negb (unit_eqb u (x, t))) (busy s)) in
  if mem x (que s1) then
    let s2 := complete c x t s1 in
    match o with
    | Success =>
      let s3 := set_archive s2 (archive s2 || match values with [] => false | _ :: _ => true end) in
      (update c values x r s3, [OChron x t r o])
    | _ => (purge c x t s2, [OChron x t r o])
    end
  else (s1, [ODropped x]).

(* ---- farm.dispatch ---- *)
Definition set_farm (s : state) (j : list node) (cl : list msg) (b : list (node * tgt))
           (w : list (wid * nat)) (fl : list (wid * msg)) : state :=
  {| ns := ns s; que := que s; paused := paused s; jobs := j; cluster := cl;
     busy := b; workers := w; archive := archive s; active := active s;
     stored := stored s; inflight := fl |}.

Fixpoint ins_nat (x : nat) (l : list nat) : list nat :=
  match l with [] => [x] | y :: r => if x <? y then x :: y :: r else y :: ins_nat x r end.
Definition sort_nat (l : list nat) : list nat := fold_left (fun acc x => ins_nat x acc) l [].

Definition set_flags (s : state) (a p : bool) (st : Z) : state :=
  {| ns := ns s; que := que s; paused := p; jobs := jobs s; cluster := cluster s;
     busy := busy s; workers := workers s; archive := archive s; active := a;
     stored := st; inflight := inflight s |}.

(* one job of the `for j in _jobs.copy()` loop *)
Definition put_job (c : cfg) (acc : state * list out) (x : node) : state * list out :=
  let '(s, o) := acc in
  let n := getn (ns s) x in
  let '(r, o1) := match rid n with
                  | Some r => (r, [])
                  | None => ((stored s + 1)%Z, [ONext (stored s + 1)%Z])
                  end in
  let f := gfac (gi c x) in
  let ms := match f with
            | Analysis => [{| m_job := x; m_tgt := ALL; m_rid := r; m_fac := f |}]
            | Task => map (fun t => {| m_job := x; m_tgt := t; m_rid := r; m_fac := f |})
                          (sort_nat (do_ n))
            | Regress => map (fun t => {| m_job := x; m_tgt := t; m_rid := 0%Z; m_fac := f |})
                             (sort_nat (do_ n))
            end in
  let n' := {| todo := todo n; doing := doing n; do_ := []; stat := Running; rid := rid n |} in
  let s1 := set_ns s (setn (ns s) x n') in
  (set_farm s1 (rem x (jobs s1)) (cluster s1 ++ ms) (busy s1) (workers s1) (inflight s1),
   o ++ o1).

(* _cluster_sort with empty insights: stable sort by run id *)
Fixpoint ins_msg (m : msg) (l : list msg) : list msg :=
  match l with
  | [] => [m]
  | y :: r => if (m_rid m <? m_rid y)%Z then m :: y :: r else y :: ins_msg m r
  end.
Definition cluster_sort (l : list msg) : list msg := fold_left (fun acc m => ins_msg m acc) l [].

(* _workers_sort: repeatedly take the head of the longest per-host list
   (first such host in sorted host order) *)
Definition hosts (w : list (wid * nat)) : list nat :=
  sort_nat (fold_left (fun acc p => add (snd p) acc) w []).
Definition of_host (w : list (wid * nat)) (h : nat) : list (wid * nat) :=
  filter (fun p => Nat.eqb (snd p) h) w.
Definition pick_host (w : list (wid * nat)) : option nat :=
  fold_left (fun best h =>
               match best with
               | None => if 0 <? length (of_host w h) then Some h else None
               | Some b => if length (of_host w b) <? length (of_host w h) then Some h else Some b
               end) (hosts w) None.
Fixpoint remove_first (x : wid) (w : list (wid * nat)) : list (wid * nat) :=
  match w with
  | [] => []
  | p :: r => if Nat.eqb (fst p) x then r else p :: remove_first x r
  end.
Fixpoint workers_sort_aux (fuel : nat) (w : list (wid * nat)) : list (wid * nat) :=
  match fuel with
  | 0 => []
  | S f => match pick_host w with
           | None => []
           | Some h => match of_host w h with
                       | [] => []
                       | p :: _ => p :: workers_sort_aux f (remove_first (fst p) w)
                       end
           end
  end.
Definition workers_sort (w : list (wid * nat)) : list (wid * nat) := workers_sort_aux (length w) w.

(* hand out: min(len cluster, len workers) times  _workers.pop(0).do(_cluster.pop(0)) *)
Fixpoint hand_out (cl : list msg) (w : list (wid * nat)) (b : list (node * tgt))
         (fl : list (wid * msg)) (o : list out)
  : list msg * list (wid * nat) * list (node * tgt) * list (wid * msg) * list out :=
  match cl, w with
  | m :: cl', p :: w' => hand_out cl' w' (b ++ [msg_unit m]) (fl ++ [(fst p, m)]) (o ++ [OTask (fst p) m])
  | _, _ => (cl, w, b, fl, o)
  end.

Definition dispatch (c : cfg) (s : state) : state * list out :=
  if negb (active s) then (s, []) else
  let '(s1, rel) := next_job_batch c s in
  let s2 := set_farm s1 (jobs s1 ++ rel) (cluster s1) (busy s1) (workers s1) (inflight s1) in
  let o0 := if archive s2 && match jobs s2, busy s2, cluster s2 with [], [], [] => true | _, _, _ => false end
            then [OArchive] else [] in
  let '(s3, o1) := fold_left (put_job c) (jobs s2) (s2, o0) in
  let cl := cluster_sort (cluster s3) in
  let w := workers_sort (workers s3) in
  let '(cl', w', b', fl', o2) := hand_out cl w (busy s3) (inflight s3) o1 in
  (* notify_all: keep = is_pipeline_active().  The archiving trigger has just
     taken the pipeline out of `running`: every remaining hand is told to
     leave (abort response, connection closed, dropped from the idle list);
     otherwise every remaining hand gets the wait message *)
  if archive s2 && match jobs s2, busy s2, cluster s2 with [], [], [] => true | _, _, _ => false end
  then (set_flags (set_farm s3 (jobs s3) cl' b' [] fl') false (paused s3) (stored s3),
        o2 ++ map (fun p => OAbort (fst p)) w')
  else (set_farm s3 (jobs s3) cl' b' w' fl', o2 ++ map (fun p => OWait (fst p)) w').

(* ---- Hand._reg / status poll / connectionLost ---- *)
Definition reg (w : wid) (host : nat) (rev_ok : bool) (s : state) : state * list out :=
  if rev_ok then (set_farm s (jobs s) (cluster s) (busy s) (workers s ++ [(w, host)]) (inflight s), [])
  else (s, [OAbort w]).
Definition poll (w : wid) (rev_ok : bool) (s : state) : state * list out :=
  if rev_ok && active s then (s, [OProceed w]) else (s, [OAbort w]).
Definition drop (w : wid) (s : state) : state :=
  set_farm s (jobs s) (cluster s) (busy s) (filter (fun p => negb (Nat.eqb (fst p) w)) (workers s))
           (inflight s).

(* ---- schedule.build (version differences computed by _diff, see Gen/DiffGen) ---- *)
(* build() makes a fresh dag.Construct: every node attribute starts anew *)
Definition build_set (c : cfg) (l : list nstate) (x : node) : list nstate :=
  if nnodes c <=? x then l else
  let n := getn l x in
  setn l x {| todo := if asp c x then [ALL] else addl (gtargets c) [];
              doing := doing n; do_ := do_ n; stat := stat n; rid := rid n |}.
Definition build (c : cfg) (changed : list node) (s : state) : state :=
  let s0 := set_que s [] in
  let s1 := set_ns s0 (fold_left (build_set c) changed (repeat dflt_ns (nnodes c))) in
  organize c changed None [] s1.

(* ---- events ---- *)
Inductive ev :=
| Org (names : list node) (r : option Z) (tg : list tgt)
| Tick
| Rep (w : wid) (x : node) (t : tgt) (r : Z) (o : outcome) (values : list (tgt * vname * bool))
| Reg (w : wid) (host : nat) (rev_ok : bool)
| Poll (w : wid) (rev_ok : bool)
| Drop (w : wid)
| Act (b : bool)
| Pause (b : bool)
| Stored (r : Z)
| Build (changed : list node).

Definition rm_inflight (w : wid) (x : node) (t : tgt) (fl : list (wid * msg)) : list (wid * msg) :=
  filter (fun p => negb (Nat.eqb (fst p) w && unit_eqb (msg_unit (snd p)) (x, t))) fl.

Definition step (c : cfg) (s : state) (e : ev) : state * list out :=
  match e with
  | Org names r tg => (organize c names r tg s, [])
  | Tick => dispatch c s
  | Rep w x t r o vs =>
      let '(s', outs) := res c x t r o vs s in
      (set_farm s' (jobs s') (cluster s') (busy s') (workers s') (rm_inflight w x t (inflight s')), outs)
  | Reg w h ok => reg w h ok s
  | Poll w ok => poll w ok s
  | Drop w => (drop w s, [])
  | Act b => (set_flags s b (paused s) (stored s), [])
  | Pause b => (set_flags s (active s) b (stored s), [])
  | Stored r => (set_flags s (active s) (paused s) (Z.max r (stored s)), [])
  | Build ch => (build c ch s, [])
  end.

Definition init (c : cfg) : state :=
  {| ns := repeat dflt_ns (nnodes c); que := []; paused := false; jobs := []; cluster := [];
     busy := []; workers := []; archive := false; active := true; stored := 0%Z; inflight := [] |}.

Fixpoint run (c : cfg) (s : state) (es : list ev) : state * list (list out) :=
  match es with
  | [] => (s, [])
  | e :: r => let '(s1, o) := step c s e in
              let '(s2, os) := run c s1 r in (s2, o :: os)
  end.

(* the trace of all intermediate states (for the correspondence) *)
Fixpoint trace (c : cfg) (s : state) (es : list ev) : list (state * list out) :=
  match es with
  | [] => []
  | e :: r => let so := step c s e in so :: trace c (fst so) r
  end.

(* ---- the graph hypothesis of the scheduler theorems, as a boolean ----
   y is reached by purge's recursion from x  iff  y = x or x is an ancestor of y;
   (checked on every graph the real dag.Construct produced; C09 proves it of the
   Dag model) *)
Definition wf_graphb (c : cfg) : bool :=
  forallb (fun x => forallb (fun y =>
     Bool.eqb (mem y (descend c (nnodes c) x)) (Nat.eqb y x || mem x (anc (gi c y))))
     (seq 0 (nnodes c))) (seq 0 (nnodes c))
  && forallb (fun x => forallb (fun y => y <? nnodes c) (descend c (nnodes c) x)) (seq 0 (nnodes c))
  && forallb (fun y => negb (mem y (anc (gi c y))) && forallb (fun a => a <? nnodes c) (anc (gi c y)))
             (seq 0 (nnodes c)).

(* ---- the views the submit waiters poll (schedule.view_todo / view_doing) ---- *)
Definition view_todo (s : state) : list (node * list tgt) :=
  map (fun x => (x, todo (getn (ns s) x)))
      (filter (fun x => (status_eqb (stat (getn (ns s) x)) Waiting || status_eqb (stat (getn (ns s) x)) Running)
                        && match todo (getn (ns s) x) with [] => false | _ :: _ => true end) (que s)).
Definition view_doing (s : state) : list (node * list tgt) :=
  map (fun x => (x, doing (getn (ns s) x)))
      (filter (fun x => status_eqb (stat (getn (ns s) x)) Running) (que s)).
