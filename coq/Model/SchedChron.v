(* C18 x C03/C05 -- the scheduler composed with the execution history.

   Model/Sched.v says WHEN the scheduler writes a history entry: Hand._res ->
   schedule.complete -> chronicle.append is the output `OChron x t r o` of a
   `Rep` event whose job is found in the queue (otherwise `ODropped x`: the
   IndexError of schedule.find, nothing is written).  Model/Chron.v says WHAT
   the journal does with an entry (append / find).  Here the two run together:
   a history is a list of scheduler events, each with the reading of the wall
   clock (datetime.now(UTC), ticks since 1980-01-01) at the moment the event is
   handled; every `OChron` output of Sched.step is fed, with that clock reading,
   to Chron.complete.  The combined state is (scheduler state, journal).

   Names become the codes Chron.v sorts by: `tc` target -> code, `kc`
   algorithm node -> code (both in string order of the names; parameters of
   the definitions, the theorems hold for every coding).  The identity field
   of an entry (context.git_rev, not inspected by the chronicle) is the index
   of the event in the history.
   Definitions only (+ Examples by vm_compute). *)
From Coq Require Import List Arith ZArith Bool.
From DV Require Import Model.Search Model.Chron Model.Sched.
Import ListNotations.
Local Open Scope nat_scope.   (* Model/Chron.v opens Z_scope for its importers *)

(* State.name of the reply's outcome as Chron.v's status code *)
Definition ocode (o : outcome) : Z :=
  match o with Success => 0%Z | Failure => 1%Z | Invalid => 2%Z end.

Section Coding.
Variables (tc : tgt -> Z) (kc : node -> Z).

(* the entry schedule.complete hands to chronicle.append *)
Definition entry_of (now id : Z) (x : node) (t : tgt) (r : Z) (o : outcome) : entry :=
  mkE now r (tc t) (kc x) (ocode o) id.

(* one output of the scheduler, seen by the journal *)
Definition record1 (now id : Z) (j : journal) (o : out) : journal :=
  match o with
  | OChron x t r oc => Chron.complete j now r (tc t) (kc x) (ocode oc) id
  | _ => j
  end.
Definition record (now id : Z) (outs : list out) (j : journal) : journal :=
  fold_left (record1 now id) outs j.

(* a timed event: (clock reading, scheduler event) *)
Definition tev : Type := Z * ev.

Definition sc_step (c : cfg) (sj : state * journal) (id : Z) (te : tev)
  : (state * journal) * list out :=
  let so := step c (fst sj) (snd te) in
  ((fst so, record (fst te) id (snd so) (snd sj)), snd so).

Fixpoint sc_run (c : cfg) (sj : state * journal) (id : Z) (tes : list tev) : state * journal :=
  match tes with
  | [] => sj
  | te :: r => sc_run c (fst (sc_step c sj id te)) (id + 1)%Z r
  end.

Definition sc_boot (c : cfg) (tes : list tev) : state * journal := sc_run c (init c, []) 0%Z tes.

(* ---- the specification side: the replies the scheduler applies ----
   a reply is applied iff its job is (still) in the queue when it arrives
   (Hand._res: schedule.find(msg.jobid) succeeds) *)
Definition applies (s : state) (e : ev) : bool :=
  match e with
  | Rep _ x _ _ _ _ => mem x (que s)
  | _ => false
  end.
Definition reply_entry (now id : Z) (e : ev) : list entry :=
  match e with
  | Rep _ x t r o _ => [entry_of now id x t r o]
  | _ => []
  end.
Fixpoint applied (c : cfg) (s : state) (id : Z) (tes : list tev) : list entry :=
  match tes with
  | [] => []
  | te :: r =>
      (if applies s (snd te) then reply_entry (fst te) id (snd te) else [])
      ++ applied c (fst (step c s (snd te))) (id + 1)%Z r
  end.
(* the replies that are dropped (ids of the events) *)
Fixpoint dropped (c : cfg) (s : state) (id : Z) (tes : list tev) : list Z :=
  match tes with
  | [] => []
  | te :: r =>
      (match snd te with
       | Rep _ x _ _ _ _ => if mem x (que s) then [] else [id]
       | _ => []
       end) ++ dropped c (fst (step c s (snd te))) (id + 1)%Z r
  end.
End Coding.

(* ---- observation for the correspondence: files in journal order, each with
   day, run id and the ids of its entries in file order ---- *)
Definition jfiles (j : journal) : list (Z * Z * list Z) :=
  map (fun f => (f_day f, f_runid f, map e_id (f_entries f))) j.
Definition jentries (j : journal) : list (list Z) :=
  map (fun e => [e_id e; e_completed e; e_runid e; e_target e; e_task e; e_status e])
      (flat_map f_entries j).
Definition zc (n : nat) : Z := Z.of_nat n.

(* ---- Examples ---- *)
(* chain a0 -> a1 of Props/C03.v; the open known finding C03 reply-dropped:
   events 10 and 11 answer the two executions of (a1, T) in flight; the job
   leaves the queue on the first, the second finds no job: no entry 11 *)
Definition sc_chain : cfg :=
  {| gnodes := [ {| kids := [1]; anc := []; gfac := Task; lvl := 0; ins := [] |};
                 {| kids := []; anc := [0]; gfac := Task; lvl := 1; ins := [0] |} ];
     gfb := []; gtargets := [1] |}.
Definition sc_witness : list tev :=
  let t0 := tick 2026 1 9 23 59 in
  let at_ (sec : Z) := (t0 + sec * 1000000)%Z in
  [ (t0, Reg 1 0 true); (t0, Reg 2 0 true); (t0, Reg 3 0 true);
    (t0, Org [1] None [1]); (t0, Tick); (t0, Org [0] None [1]); (t0, Tick);
    (at_ 1%Z, Rep 2 0 1 1%Z Failure []);
    (at_ 2%Z, Org [1] None [1]); (at_ 3%Z, Tick);
    (at_ 70%Z, Rep 1 1 1 1%Z Success [(1, 1, false)]);      (* next day *)
    (at_ 80%Z, Rep 3 1 1 1%Z Success [(1, 1, true)]) ].

Example sc_witness_ex :
  jfiles (snd (sc_boot zc zc sc_chain sc_witness))
  = [ (day_of (tick 2026 1 9 0 0), 1, [7]); (day_of (tick 2026 1 10 0 0), 1, [10]) ]%Z
  /\ map e_id (applied zc zc sc_chain (init sc_chain) 0%Z sc_witness) = [7; 10]%Z
  /\ dropped sc_chain (init sc_chain) 0%Z sc_witness = [11]%Z.
Proof. vm_compute. repeat split; reflexivity. Qed.
