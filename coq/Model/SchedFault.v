(* Scheduler / farm model, extension: a dispatch during which the database
   refuses to hand out a run id (farm.dispatch: "allow db impl to throw an
   exception via rerunid() ..." -- the job loop is left by the exception, the
   jobs not yet turned into messages stay in farm._jobs with their `do` sets
   and are taken up again by the next dispatch).

   TickFault k = farm.dispatch() in which the k-th call of dawgie.db.next()
   raises (k >= 1; a dispatch that asks fewer than k times is an ordinary
   dispatch).  Everything else is Model/Sched.v; an `xev` history without
   TickFault is exactly a Sched history (Proofs/SchedFaultProofs.v).
   Definitions only. *)
From Coq Require Import List Arith ZArith Bool.
From DV Require Import Model.Sched Model.SchedObs.
Import ListNotations.

Inductive xout :=
| XO (o : out)
| XRefused           (* db.next() raised *)
| XLogged.           (* log.exception("Error processing from next_job_batch()") *)

(* the `for j in _jobs.copy()` loop with a failing k-th request: processes the
   jobs in order; a job without run id consumes one request; the job at which
   the k-th request is made raises: it and every later job stay untouched.
   `k = 0` = no (more) failure pending. *)
(* `_jobs.remove(j)` takes out ONE copy of the job: after a refused request the
   kept job can be released again before the retry and then sits on the list
   twice (in histories without refused requests the list has no duplicates and
   Sched.rem agrees) *)
Fixpoint rem1 (x : nat) (l : list nat) : list nat :=
  match l with [] => [] | y :: r => if Nat.eqb y x then r else y :: rem1 x r end.
Definition put_job1 (c : cfg) (acc : state * list out) (x : node) : state * list out :=
  let '(s', o) := put_job c acc x in
  (set_farm s' (rem1 x (jobs (fst acc))) (cluster s') (busy s') (workers s') (inflight s'), o).

Fixpoint put_jobs_fault (c : cfg) (k : nat) (js : list node) (acc : state * list out)
  : (state * list out) * bool :=
  match js with
  | [] => (acc, false)
  | x :: r =>
      match rid (getn (ns (fst acc)) x), k with
      | None, 1 => (acc, true)                                  (* rerunid(j) raises *)
      | None, S (S k') => put_jobs_fault c (S k') r (put_job1 c acc x)
      | _, _ => put_jobs_fault c k r (put_job1 c acc x)
      end
  end.

Definition dispatch_fault (c : cfg) (k : nat) (s : state) : state * list xout :=
  if negb (active s) then (s, []) else
  let '(s1, rel) := next_job_batch c s in
  let s2 := set_farm s1 (jobs s1 ++ rel) (cluster s1) (busy s1) (workers s1) (inflight s1) in
  let trig := archive s2 && match jobs s2, busy s2, cluster s2 with [], [], [] => true | _, _, _ => false end in
  let o0 := if trig then [OArchive] else [] in
  let '((s3, o1), raised) := put_jobs_fault c k (jobs s2) (s2, o0) in
  let cl := cluster_sort (cluster s3) in
  let w := workers_sort (workers s3) in
  let '(cl', w', b', fl', o2) := hand_out cl w (busy s3) (inflight s3) o1 in
  let outs := map XO (firstn (length o1) o2) ++ (if raised then [XRefused; XLogged] else [])
              ++ map XO (skipn (length o1) o2) in
  if trig
  then (set_flags (set_farm s3 (jobs s3) cl' b' [] fl') false (paused s3) (stored s3),
        outs ++ map (fun p => XO (OAbort (fst p))) w')
  else (set_farm s3 (jobs s3) cl' b' w' fl', outs ++ map (fun p => XO (OWait (fst p))) w').

Inductive xev := Ev (e : ev) | TickFault (k : nat).

Definition xstep (c : cfg) (s : state) (x : xev) : state * list xout :=
  match x with
  | Ev e => let '(s', o) := step c s e in (s', map XO o)
  | TickFault k => dispatch_fault c k s
  end.

Fixpoint xtrace (c : cfg) (s : state) (xs : list xev) : list (state * list xout) :=
  match xs with
  | [] => []
  | x :: r => let so := xstep c s x in so :: xtrace c (fst so) r
  end.

Fixpoint xrun (c : cfg) (s : state) (xs : list xev) : state :=
  match xs with
  | [] => s
  | x :: r => xrun c (fst (xstep c s x)) r
  end.

Fixpoint erase (xs : list xev) : option (list ev) :=
  match xs with
  | [] => Some []
  | Ev e :: r => option_map (cons e) (erase r)
  | TickFault _ :: _ => None
  end.

(* observation: as SchedObs.obs, the refused request printed as [10] *)
Definition obs_xout (o : xout) : list Z :=
  match o with XO o => obs_out o | XRefused => [10%Z] | XLogged => [9%Z; 0%Z] end.
Definition xobs (so : state * list xout) :=
  let s := fst so in
  (zl (que s), map obs_ns (ns s), zl (jobs s), map obs_msg (cluster s),
   map (fun u => [zn (fst u); zn (snd u)]) (busy s), zl (map fst (workers s)),
   (archive s, active s, paused s), map obs_xout (snd so),
   map (fun p => zn (fst p) :: obs_msg (snd p)) (inflight s)).
Definition obs_xtrace (c : cfg) (xs : list xev) := map xobs (xtrace c (init c) xs).
