(* Canonical observation of the scheduler/farm model state and outputs as plain
   nested lists of numbers (what the correspondence compares, DESIGN A.3). *)
From Coq Require Import List Arith ZArith Bool.
From DV Require Import Model.Sched.
Import ListNotations.
Local Open Scope Z_scope.

Definition zn (n : nat) : Z := Z.of_nat n.
Definition zl (l : list nat) : list Z := map zn l.
Definition fac_code (f : fac) : Z := match f with Task => 0 | Analysis => 1 | Regress => 2 end.
Definition stat_code (s : status) : Z :=
  match s with Initial => 5 | Waiting => 4 | Running => 2 | Delayed => 0 end.
Definition out_code (o : outcome) : Z := match o with Success => 3 | Failure => 1 | Invalid => 6 end.
Definition obs_msg (m : msg) : list Z := [zn (m_job m); zn (m_tgt m); m_rid m; fac_code (m_fac m)].
Definition obs_out (o : out) : list Z :=
  match o with
  | OTask w m => 1 :: zn w :: obs_msg m
  | OWait w => [2; zn w]
  | OAbort w => [3; zn w]
  | OProceed w => [4; zn w]
  | OChron x t r oc => [5; zn x; zn t; r; out_code oc]
  | ODropped x => [6; zn x]
  | OArchive => [7]
  | ONext r => [8; r]
  end.
Definition obs_ns (n : nstate) : list Z * list Z * list Z * Z * option Z :=
  (zl (todo n), zl (doing n), zl (do_ n), stat_code (stat n), rid n).

Definition obs (so : state * list out) :=
  let s := fst so in
  (zl (que s), map obs_ns (ns s), zl (jobs s), map obs_msg (cluster s),
   map (fun u => [zn (fst u); zn (snd u)]) (busy s), zl (map fst (workers s)),
   (archive s, active s, paused s), map obs_out (snd so),
   map (fun p => zn (fst p) :: obs_msg (snd p)) (inflight s)).

Definition obs_trace (c : cfg) (es : list ev) := map obs (trace c (init c) es).
