(* C17 -- executable model of the run-id expression normaliser
   (db/basis.py: SearchFacade._divide on item lists, _scrub) and of the shelve
   search (db/shelve/search.py: _prime_keys, _find, _facet, _subset).
   One Gallina function per Python function, same branch structure.
   The three integer tests on a Range are NOT written here: they come from
   Gen/RangeGen.v, regenerated from the Python source on every run.
   Definitions only (+ Examples by vm_compute). *)
From Coq Require Import List ZArith Bool.
From DV Require Import Gen.RangeGen.
Import ListNotations.
Open Scope Z_scope.

(* ------------------------------------------------------------------ *)
(* run-id expressions                                                   *)
(* ------------------------------------------------------------------ *)

(* an element of Params.runids after parsing: an int or a Range *)
Inductive item := Idx (z : Z) | Rng (r : rng).

Definition item_eqb (a b : item) : bool :=
  match a, b with
  | Idx x, Idx y => x =? y
  | Rng (s, None), Rng (s', None) => s =? s'
  | Rng (s, Some e), Rng (s', Some e') => (s =? s') && (e =? e')
  | _, _ => false
  end.

(* the set of run ids an expression denotes; -1 is an ordinary integer here *)
Definition item_has (z : Z) (it : item) : bool :=
  match it with Idx i => i =? z | Rng r => rng_contains r z end.
Definition denote (e : list item) (z : Z) : bool := existsb (item_has z) e.

(* python set of ints = duplicate-free list (first occurrence order); every
   use below is followed by sorted() or is order-insensitive *)
Definition zmem (z : Z) (s : list Z) : bool := existsb (Z.eqb z) s.
Definition zadd (s : list Z) (z : Z) : list Z := if zmem z s then s else s ++ [z].

(* SearchFacade._divide, list branch: for val in runids: Range -> ranges.append,
   else indices.add *)
Definition divide (e : list item) : list Z * list rng :=
  fold_left (fun acc it =>
               match it with
               | Rng r => (fst acc, snd acc ++ [r])
               | Idx z => (zadd (fst acc) z, snd acc)
               end) e ([], []).

(* list.sort(key=lambda r: r.start): stable *)
Fixpoint rinsert (r : rng) (l : list rng) : list rng :=
  match l with
  | [] => [r]
  | h :: t => if fst r <=? fst h then r :: h :: t else h :: rinsert r t
  end.
Definition rsort (l : list rng) : list rng := fold_right rinsert [] l.

(* body of `for r in ranges[1:]`; acc = merged reversed (head = merged[-1]) *)
Definition merge_step (acc : list rng) (r : rng) : list rng :=
  match acc with
  | [] => [r]
  | (a, None) :: _ => acc                               (* continue *)
  | (a, Some b) :: tl =>
      if fst r >? b then r :: acc                       (* merged.append(r) *)
      else match snd r with
           | None => (a, None) :: tl                    (* merged[-1] = Range(start, r.stop) *)
           | Some rb => if rb >? b then (a, Some rb) :: tl else acc
           end
  end.
Definition merge (l : list rng) : list rng :=
  match l with [] => [] | r :: rs => rev (fold_left merge_step rs [r]) end.

(* sorted(idx) *)
Fixpoint zinsert (z : Z) (l : list Z) : list Z :=
  match l with
  | [] => [z]
  | h :: t => if z <=? h then z :: h :: t else h :: zinsert z t
  end.
Definition zsort (l : list Z) : list Z := fold_right zinsert [] l.

(* indices != {-1} *)
Definition is_only_latest (indices : list Z) : bool :=
  match indices with [z] => z =? -1 | _ => false end.

(* SearchFacade._scrub applied to Params.runids = Some e *)
Definition scrub (e : list item) : list item :=
  let '(indices, ranges) := divide e in
  if negb (is_only_latest indices) || negb (match ranges with [] => true | _ => false end) then
    let ranges' := match ranges with [] => [] | _ => merge (rsort ranges) end in
    let idx := filter (fun i => negb (existsb (fun r => scrub_covers r i) ranges')) indices in
    map Rng ranges' ++ map Idx (zsort idx)
  else [Idx (-1)].

(* ------------------------------------------------------------------ *)
(* the shelve search                                                    *)
(* ------------------------------------------------------------------ *)

Definition pk6 := (Z * Z * Z * Z * Z * Z)%type.   (* run, target, task, alg, sv, value *)
Definition pk5 := (Z * Z * Z * Z * Z)%type.
Definition pk_prefix (k : pk6) : pk5 := fst k.    (* pk[:5] *)

(* name tables: position = id, content = code of the (dissected) name *)
Record db := mkDB {
  t_target : list Z; t_task : list Z; t_alg : list Z; t_state : list Z; t_value : list Z;
  prime : list pk6 }.

Record params := mkP {
  p_runids : option (list item);
  p_targets : option (list Z); p_tasks : option (list Z); p_algs : option (list Z);
  p_svs : option (list Z); p_vals : option (list Z) }.

(* _subset(table, name).values(): ids whose name is exactly `name` *)
Fixpoint subset_from (i : Z) (table : list Z) (name : Z) : list Z :=
  match table with
  | [] => []
  | n :: t => if n =? name then i :: subset_from (i + 1) t name else subset_from (i + 1) t name
  end.
Definition subset_ids (table : list Z) (name : Z) : list Z := subset_from 0 table name.

(* one name column: for name in v: constraints.update(ids or [-1]);
   None and [] are filtered out by bool(t[1]) *)
Definition name_ids (table : list Z) (n : Z) : list item :=
  match subset_ids table n with
  | [] => [Idx (-1)]                 (* subtable empty: [-1] *)
  | ids => map Idx ids               (* subtable.values() *)
  end.
Definition name_constraint (table : list Z) (v : option (list Z)) : list item :=
  match v with
  | None => []
  | Some names => flat_map (name_ids table) names
  end.

(* the runids column: update(v); discard(-1) *)
Definition run_constraint (v : option (list item)) : list item :=
  match v with
  | None => []
  | Some l => filter (fun it => negb (item_eqb it (Idx (-1)))) l
  end.

(* not c or e in c or any(isinstance(r, Range) and e in r for r in c) *)
Definition col_ok (c : list item) (e : Z) : bool :=
  match c with [] => true | _ => false end
  || existsb (fun it => match it with Idx i => i =? e | Rng _ => false end) c
  || existsb (fun it => match it with Rng r => rng_contains r e | Idx _ => false end) c.

Definition constraints (d : db) (p : params) : list (list item) :=
  [ run_constraint (p_runids p);
    name_constraint (t_target d) (p_targets p);
    name_constraint (t_task d) (p_tasks p);
    name_constraint (t_alg d) (p_algs p);
    name_constraint (t_state d) (p_svs p);
    name_constraint (t_value d) (p_vals p) ].

Definition pk_list (k : pk6) : list Z :=
  let '(r, t, k', a, s, v) := k in [r; t; k'; a; s; v].

(* all(... for c, e in zip(constraints, pk)) *)
Definition sat (cs : list (list item)) (k : pk6) : bool :=
  forallb (fun ce => col_ok (fst ce) (snd ce)) (combine cs (pk_list k)).

(* lexicographic tuple comparison (python tuple order) *)
Definition lexc (c1 c2 : comparison) : comparison := match c1 with Eq => c2 | c => c end.
Definition cmp_pair {A B} (ca : A -> A -> comparison) (cb : B -> B -> comparison)
  (x y : A * B) : comparison := lexc (ca (fst x) (fst y)) (cb (snd x) (snd y)).
Definition cmp5 : pk5 -> pk5 -> comparison :=
  cmp_pair (cmp_pair (cmp_pair (cmp_pair Z.compare Z.compare) Z.compare) Z.compare) Z.compare.

(* sorted(set(...)): insertion into a strictly increasing list *)
Fixpoint uinsert {A} (cmp : A -> A -> comparison) (x : A) (l : list A) : list A :=
  match l with
  | [] => [x]
  | h :: t => match cmp x h with
              | Lt => x :: h :: t
              | Eq => h :: t
              | Gt => h :: uinsert cmp x t
              end
  end.
Definition usort {A} (cmp : A -> A -> comparison) (l : list A) : list A :=
  fold_right (uinsert cmp) [] l.

(* SearchImplementation._prime_keys(parameters)  (keylen = 5) *)
Definition prime_keys (d : db) (p : params) : list pk5 :=
  usort cmp5 (map pk_prefix (filter (sat (constraints d p)) (prime d))).

(* python slice l[a:b] for arbitrary integers *)
Definition clampi (n i : Z) : Z := if i <? 0 then Z.max 0 (i + n) else Z.min i n.
Definition pyslice {A} (a : Z) (b : option Z) (l : list A) : list A :=
  let n := Z.of_nat (length l) in
  let lo := clampi n a in
  let hi := match b with None => n | Some b => clampi n b end in
  firstn (Z.to_nat (hi - lo)) (skipn (Z.to_nat lo) l).

(* SearchImplementation._find: (keys of the page, total); the rendering of a
   key as 'run.target.task.alg.sv' is done by the harness from the same ids *)
Definition find (d : db) (p : params) (index : Z) (limit : option Z) : list pk5 * Z :=
  let pks := prime_keys d p in
  let stop := match limit with
              | None => None
              | Some l => Some (index + l)
              end in
  (pyslice index stop pks, Z.of_nat (length pks)).

(* SearchFacade.find = _find after _scrub *)
Definition scrub_params (p : params) : params :=
  match p_runids p with
  | None => p
  | Some e => mkP (Some (scrub e)) (p_targets p) (p_tasks p) (p_algs p) (p_svs p) (p_vals p)
  end.
Definition search_find (d : db) (p : params) (index : Z) (limit : option Z) :=
  find d (scrub_params p) index limit.

(* SearchImplementation._facet for the four name columns (col = 1..4):
   sorted({name of table[pk[col]] for pk in pks}); name codes are assigned by
   the harness in string order *)
Definition col5 (col : nat) (k : pk5) : Z :=
  let '(r, t, k', a, s) := k in nth col [r; t; k'; a; s] (-1).
Definition facet_table (d : db) (col : nat) : list Z :=
  match col with
  | 1%nat => t_target d
  | 2%nat => t_task d
  | 3%nat => t_alg d
  | _ => t_state d
  end.
Definition facet (d : db) (p : params) (col : nat) : list Z :=
  usort Z.compare
    (map (fun k => nth (Z.to_nat (col5 col k)) (facet_table d col) (-1)) (prime_keys d p)).
Definition search_facet (d : db) (p : params) (col : nat) := facet d (scrub_params p) col.

(* ------------------------------------------------------------------ *)
(* Examples                                                             *)
(* ------------------------------------------------------------------ *)

(* '6,1:3,2:5,:1,9:' -> [0:5, 9:, 6]  (observed on the real code) *)
Example scrub_ex1 :
  scrub [Idx 6; Rng (1, Some 3); Rng (2, Some 5); Rng (0, Some 1); Rng (9, None)]
  = [Rng (0, Some 5); Rng (9, None); Idx 6].
Proof. vm_compute. reflexivity. Qed.

(* the stable sort matters: an empty range before a range of the same start *)
Example scrub_ex2 :
  scrub [Rng (1, Some 0); Rng (1, Some 3); Idx (-1)] = [Rng (1, Some 0); Rng (1, Some 3); Idx (-1)].
Proof. vm_compute. reflexivity. Qed.

Example scrub_ex3 : scrub [Idx (-1); Idx (-1)] = [Idx (-1)].
Proof. vm_compute. reflexivity. Qed.

Definition ex_db : db :=
  mkDB [0; 1] [0] [0; 1; 0] [0; 0; 0] [0; 0; 1]
       [(1,0,0,0,0,0); (1,0,0,0,0,2); (2,0,0,1,1,1); (3,1,0,2,2,0); (5,1,0,0,0,0)].
Definition no_params := mkP None None None None None None.

Example find_ex1 :
  search_find ex_db (mkP (Some [Rng (2, Some 4)]) None None None None None) 0 None
  = ([(2,0,0,1,1); (3,1,0,2,2)], 2).
Proof. vm_compute. reflexivity. Qed.

Example find_ex2 :
  search_find ex_db (mkP None None None (Some [0]) None None) 1 (Some 1) = ([(3,1,0,2,2)], 3).
Proof. vm_compute. reflexivity. Qed.

Example find_ex3 : search_find ex_db no_params (-2) (Some 5) = ([(3,1,0,2,2)], 4).
Proof. vm_compute. reflexivity. Qed.

Example facet_ex1 : search_facet ex_db (mkP None None None (Some []) None None) 3 = [0; 1].
Proof. vm_compute. reflexivity. Qed.
