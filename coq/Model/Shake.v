(* Model/Shake.v -- C14: the legacy (non-TLS) handshake gate,
   dawgie.security.TwistedWrapper, in front of a framed protocol
   (farm.Hand / shelve.comms.Worker / logger.LogSink).  Definitions only.

   The wrapper replaces protocol.dataReceived by self.process until phase 5
   succeeds; then it puts the original dataReceived back and hands it the bytes
   left in its own buffer.

     def process(self, data):
         self.__buf += data
         while self.__len <= len(self.__buf):
             data = self.__buf[:self.__len]; self.__buf = self.__buf[self.__len:]
             if not self.__phase(data):
                 self.__p.transport.loseConnection()
                 self.__len = len(self.__buf) + 1
*)
From Coq Require Import List ZArith Bool.
From DV Require Import Model.Frame.
Import ListNotations.
Open Scope Z_scope.

Inductive phase := P1 | P2 | P3 | P4 | P5 | P6.

(* The outside world of the handshake:
   verify b   : _PGP.verify(b).valid
   echo_ok b  : _PGP.decrypt(b).data.decode().strip() == self.__msg.strip()
   challenge  : self.__msg.encode()  ('timestamp: ...\nunique id: ...', ASCII) *)
Record oracle := mkO { verify : list Z -> bool; echo_ok : list Z -> bool; challenge : list Z }.

Record wstate := mkW {
  wbuf : list Z;          (* self.__buf *)
  wlen : Z;               (* self.__len *)
  wphase : phase;         (* self.__phase *)
  wrestored : bool;       (* protocol.dataReceived is the original one again *)
  winner : conn           (* the wrapped protocol (Model/Frame.v) *)
}.
Definition winit : wstate := mkW [] 4 P1 false cinit.

Definition set_buf w b := mkW b (wlen w) (wphase w) (wrestored w) (winner w).
Definition set_len w n := mkW (wbuf w) n (wphase w) (wrestored w) (winner w).
Definition set_phase w p := mkW (wbuf w) (wlen w) p (wrestored w) (winner w).
Definition set_inner w i := mkW (wbuf w) (wlen w) (wphase w) (wrestored w) i.

(* the phase functions: called with the consumed slice, self.__buf already
   holds the rest; result = (return value, new self, what the outside sees) *)
Definition p1 (w : wstate) (data : list Z) : bool * wstate * list out :=
  (be32 data =? 4, set_phase w P2, []).

Definition p2 (w : wstate) (data : list Z) : bool * wstate * list out :=
  (true, set_phase (set_len w (be32 data)) P3, []).

Definition p3 (O : oracle) (w : wstate) (hid : list Z) : bool * wstate * list out :=
  if verify O hid
  then (true, set_phase (set_len w 8) P4,
        [Sent (enc32 (Z.of_nat (length (challenge O))) ++ challenge O)])
  else (false, w, []).

Definition p4 (w : wstate) (data : list Z) : bool * wstate * list out :=
  (be32 (firstn 4 data) =? 4, set_phase (set_len w (be32 (skipn 4 data))) P5, []).

Definition p5 (O : oracle) (ch : chan) (w : wstate) (reply : list Z) : bool * wstate * list out :=
  let valid := if verify O reply then echo_ok O reply else false in
  if valid
  then (* setattr(p, 'dataReceived', dr); dr(self.__buf); self.__buf = b'' *)
       let '(i, o) := conn_feed ch (winner w) (wbuf w) in
       (true, set_phase (mkW [] (wlen w) (wphase w) true i) P6, o)
  else (false, set_phase w P6, []).

Definition p6 (w : wstate) (_ : list Z) : bool * wstate * list out := (false, w, []).

Definition sphase (O : oracle) (ch : chan) (w : wstate) (data : list Z) :=
  match wphase w with
  | P1 => p1 w data | P2 => p2 w data | P3 => p3 O w data
  | P4 => p4 w data | P5 => p5 O ch w data | P6 => p6 w data
  end.

Definition is_abort (o : out) : bool := match o with Abort => true | _ => false end.

(* one iteration of process's while loop; None = loop condition false *)
Definition siter (O : oracle) (ch : chan) (w : wstate) : option (wstate * list out) :=
  if wlen w <=? Z.of_nat (length (wbuf w)) then
    let data := firstn (Z.to_nat (wlen w)) (wbuf w) in
    let w1 := set_buf w (skipn (Z.to_nat (wlen w)) (wbuf w)) in
    let '(ok, w2, o) := sphase O ch w1 data in
    if ok then Some (w2, o)
    else Some (set_len w2 (Z.of_nat (length (wbuf w2)) + 1), o ++ [Close])
  else None.

(* the loop; an exception of the wrapped dataReceived (Abort) leaves it *)
Fixpoint sdrain (O : oracle) (ch : chan) (fuel : nat) (w : wstate) : wstate * list out :=
  match fuel with
  | O%nat => (w, [])
  | S f =>
      match siter O ch w with
      | None => (w, [])
      | Some (w', o) =>
          if existsb is_abort o then (w', o)
          else let '(w'', o') := sdrain O ch f w' in (w'', o ++ o')
      end
  end.

(* phases only advance and a failing phase ends the loop: at most 6 iterations *)
Definition sfuel : nat := 7.

Definition sprocess (O : oracle) (ch : chan) (w : wstate) (data : list Z) : wstate * list out :=
  sdrain O ch sfuel (set_buf w (wbuf w ++ data)).

(* the connection as the transport sees it: protocol.dataReceived is
   wrapper.process until restored, the wrapped protocol's own afterwards;
   nothing is delivered after loseConnection / an escaped exception *)
Record sconn := mkS { sw : wstate; slive : bool }.
Definition sinit : sconn := mkS winit true.

Definition sconn_feed (O : oracle) (ch : chan) (c : sconn) (data : list Z) : sconn * list out :=
  if slive c then
    if wrestored (sw c) then
      let '(i, o) := conn_feed ch (winner (sw c)) data in
      (mkS (set_inner (sw c) i) (negb (existsb is_stop o)), o)
    else
      let '(w, o) := sprocess O ch (sw c) data in
      (mkS w (negb (existsb is_stop o)), o)
  else (c, []).

Fixpoint sconn_run (O : oracle) (ch : chan) (c : sconn) (chunks : list (list Z)) : sconn * list out :=
  match chunks with
  | [] => (c, [])
  | d :: ds =>
      let '(c1, o1) := sconn_feed O ch c d in
      let '(c2, o2) := sconn_run O ch c1 ds in (c2, o1 ++ o2)
  end.

(* ---- correspondence helpers --------------------------------------------- *)
Definition oracle_of (valid echo : list (list Z)) (chal : list Z) : oracle :=
  mkO (fun b => mem b valid) (fun b => mem b echo) chal.

Definition phase_no (p : phase) : Z :=
  match p with P1 => 1 | P2 => 2 | P3 => 3 | P4 => 4 | P5 => 5 | P6 => 6 end.

(* the challenge packet the case expects is abbreviated to [3] *)
Definition obs_out_s (tbl : list (list Z)) (sent : list Z) (o : out) : list Z :=
  match o with
  | Sent b => if list_eqb b sent then [3] else 3 :: b
  | _ => obs_out tbl o
  end.

Definition obs_sconn (tbl : list (list Z)) (sent : list Z) (r : sconn * list out) :=
  let w := sw (fst r) in
  (map (obs_out_s tbl sent) (snd r),
   (slive (fst r), wrestored w, phase_no (wphase w), wlen w, wbuf w,
    (fbuf (cfs (winner w)), obs_len (flen (cfs (winner w)))))).

Definition srun_lens O ch tbl sent (lens : list Z) (s : list Z) :=
  obs_sconn tbl sent (sconn_run O ch sinit (split_lens lens s)).

(* ---- examples ------------------------------------------------------------- *)
Definition ex_O := oracle_of [[7]; [8]] [[8]] [99; 100].
Definition ex_ch := chan_of [] [[5]].
(* 4 | len 1 | ident 7 | 4, len 1 | reply 8 | frame [5] *)
Definition ex_stream := [0;0;0;4; 0;0;0;1; 7; 0;0;0;4; 0;0;0;1; 8; 0;0;0;1;5].

Example shake_good :
  snd (sconn_run ex_O ex_ch sinit [ex_stream])
  = [Sent [0;0;0;2;99;100]; Deliver [5]].
Proof. vm_compute. reflexivity. Qed.
Example shake_good_cut :
  snd (sconn_run ex_O ex_ch sinit (split_lens [3; 7; 9] ex_stream))
  = [Sent [0;0;0;2;99;100]; Deliver [5]].
Proof. vm_compute. reflexivity. Qed.
Example shake_bad_echo :
  snd (sconn_run (oracle_of [[7]; [8]] [] [99]) ex_ch sinit [ex_stream]) = [Sent [0;0;0;1;99]; Close].
Proof. vm_compute. reflexivity. Qed.
Example shake_bad_first_word :
  sconn_run ex_O ex_ch sinit [[0;0;0;5; 0;0]; [1;2;3]]
  = (mkS (mkW [0;0] 3 P2 false cinit) false, [Close]).
Proof. vm_compute. reflexivity. Qed.
