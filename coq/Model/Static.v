(* Model/Static.v -- executable model of dawgie.fe._static (Python/dawgie/fe/
   __init__.py) as it is after the repair e24f07b.

   Paths are absolute POSIX paths represented by their parts after "/":
   path = list seg, seg = list of code points.  The lexical part of pathlib
   is modelled concretely:
     fn.lstrip('/')            -> lstrip_slash
     d / fn                    -> join d fn = d ++ parts fn   (PurePosixPath
                                  parsing: split on '/', drop '' and '.',
                                  keep '..')
     ffn / 'index.html'        -> ffn ++ [INDEX]
     ffn.is_relative_to(d)     -> under d ffn  (d is a prefix of ffn, part by
                                  part; purely lexical in pathlib)
   The operating system enters as Section variables (oracles):
     resolve : path -> option path   Path.resolve(); None = it raises
                                     (symlink loop, embedded NUL)
     is_dir, is_file : path -> option bool
                                     Path.is_dir() / Path.is_file(); None =
                                     it raises (pathlib re-raises an OSError
                                     other than ENOENT/ENOTDIR/EBADF/ELOOP,
                                     e.g. ENAMETOOLONG)
   No assumption is made about them.

   One Gallina function per piece of the Python function, same branch
   structure:  visit = body of the `for d in [...]` loop, loop = the loop,
   static = the function up to `if found:`.  What happens after `if found:`
   (read the accepted file, inline style sheets for the deprecated site,
   set the content type) is not modelled: Served p means "open(p) is the
   file that is read and returned". *)
From Coq Require Import List Bool Arith PeanoNat.
Import ListNotations.

Definition seg := list nat.
Definition path := list seg.

Definition SLASH : nat := 47.
Definition DOT : nat := 46.
(* "index.html" *)
Definition INDEX : seg := [105; 110; 100; 101; 120; 46; 104; 116; 109; 108].

Fixpoint seg_eqb (a b : seg) : bool :=
  match a, b with
  | [], [] => true
  | x :: a', y :: b' => Nat.eqb x y && seg_eqb a' b'
  | _, _ => false
  end.

Fixpoint path_eqb (a b : path) : bool :=
  match a, b with
  | [], [] => true
  | x :: a', y :: b' => seg_eqb x y && path_eqb a' b'
  | _, _ => false
  end.

(* str.lstrip('/') *)
Fixpoint lstrip_slash (s : list nat) : list nat :=
  match s with
  | c :: r => if Nat.eqb c SLASH then lstrip_slash r else s
  | [] => []
  end.

(* str.split('/') with the current (reversed) piece as accumulator *)
Fixpoint split_slash (s : list nat) (cur : seg) : list seg :=
  match s with
  | [] => [rev cur]
  | c :: r =>
      if Nat.eqb c SLASH then rev cur :: split_slash r []
      else split_slash r (c :: cur)
  end.

(* pathlib keeps a piece x `if x and x != '.'` *)
Definition keep (x : seg) : bool :=
  match x with
  | [] => false
  | _ => negb (seg_eqb x [DOT])
  end.

Definition parts (s : list nat) : list seg := filter keep (split_slash s []).

(* d / fn for a relative fn (fn never starts with '/' after lstrip) *)
Definition join (d : path) (fn : list nat) : path := d ++ parts fn.

(* PurePath.is_relative_to: other == self or other in self.parents *)
Fixpoint under (d p : path) : bool :=
  match d, p with
  | [], _ => true
  | x :: d', y :: p' => seg_eqb x y && under d' p'
  | _ :: _, [] => false
  end.

Inductive entry : Type :=
| Jail                    (* result += b'attempted jail break' ; continue *)
| Missing (p : path).     (* result += bytes(ffn) + b'     ' *)

Inductive outcome : Type :=
| Served (p : path)       (* found = True; the file opened afterwards is p *)
| NotFound (trace : list entry)
| Raised.                 (* an exception of Path.resolve propagates *)

Inductive iter : Type :=
| IBreak (p : path) | IContinue | INext (p : path) | IRaise.

Section Static.
  Variable resolve : path -> option path.
  Variable is_dir is_file : path -> option bool.

  (* body of the for loop for root d *)
  Definition visit (d : path) (fn : list nat) : iter :=
    match resolve (join d fn) with
    | None => IRaise
    | Some ffn =>
        (* `ffn.is_relative_to(d) and ffn.is_dir()` (short circuit) *)
        match (if under d ffn then is_dir ffn else Some false) with
        | None => IRaise
        | Some isd =>
            match (if isd then resolve (ffn ++ [INDEX]) else Some ffn) with
            | None => IRaise
            | Some ffn' =>
                if negb (under d ffn') then IContinue
                else match is_file ffn' with
                     | None => IRaise
                     | Some true => IBreak ffn'
                     | Some false => INext ffn'
                     end
            end
        end
    end.

  Fixpoint loop (ds : list path) (fn : list nat) (trace : list entry) : outcome :=
    match ds with
    | [] => NotFound (rev trace)
    | d :: ds' =>
        match visit d fn with
        | IRaise => Raised
        | IBreak p => Served p
        | IContinue => loop ds' fn (Jail :: trace)
        | INext p => loop ds' fn (Missing p :: trace)
        end
    end.

  (* fe_path = Path(dawgie.context.fe_path), bdir = Path(bdir): the list
     [fe_path.resolve(), bdir.resolve()] is built before the loop starts *)
  Definition static (fn : list nat) (fe_path bdir : path) : outcome :=
    let fn' := lstrip_slash fn in
    match resolve fe_path with
    | None => Raised
    | Some d1 =>
        match resolve bdir with
        | None => Raised
        | Some d2 => loop [d1; d2] fn' []
        end
    end.
End Static.

(* ---- finite oracles for the correspondence: association lists recorded by
   the harness from the real file system ---- *)
Fixpoint assoc {B : Type} (k : path) (t : list (path * B)) : option B :=
  match t with
  | [] => None
  | (k', v) :: t' => if path_eqb k k' then Some v else assoc k t'
  end.

Definition tbl_resolve (t : list (path * option path)) (p : path) : option path :=
  match assoc p t with Some r => r | None => None end.
Definition tbl_bool (t : list (path * option bool)) (p : path) : option bool :=
  match assoc p t with Some b => b | None => None end.

(* ---- examples (a tiny world): roots /r1 and /r2, file /r1/a, directory
   /r1/d with index, /r1/ln -> /secret, request strings as code points ---- *)
Module StaticExamples.
  Definition R1 : path := [[114; 49]].
  Definition R2 : path := [[114; 50]].
  Definition A : seg := [97].
  Definition D : seg := [100].
  Definition LN : seg := [108; 110].
  Definition SECRET : path := [[115]].
  Definition DOTDOT : seg := [46; 46].
  (* a resolve that knows one symlink and collapses a leading r?/.. *)
  Definition res (p : path) : option path :=
    if path_eqb p (R1 ++ [LN]) then Some SECRET
    else if path_eqb p (R1 ++ [DOTDOT; [115]]) then Some SECRET
    else if path_eqb p (R2 ++ [DOTDOT; [115]]) then Some SECRET
    else Some p.
  Definition isd (p : path) : option bool := Some (path_eqb p (R1 ++ [D])).
  Definition isf (p : path) : option bool :=
    Some (path_eqb p (R1 ++ [A]) || path_eqb p (R1 ++ [D; INDEX]) || path_eqb p SECRET).

  (* "/a" *)
  Example serves_file :
    static res isd isf [47; 97] R1 R2 = Served (R1 ++ [A]).
  Proof. vm_compute. reflexivity. Qed.
  (* "//d/" -> index.html of the directory *)
  Example serves_index :
    static res isd isf [47; 47; 100; 47] R1 R2 = Served (R1 ++ [D; INDEX]).
  Proof. vm_compute. reflexivity. Qed.
  (* "/../s" leaves both roots: refused although /s is a file *)
  Example refuses_traversal :
    static res isd isf [47; 46; 46; 47; 115] R1 R2 = NotFound [Jail; Jail].
  Proof. vm_compute. reflexivity. Qed.
  (* "/ln" : symlink to the outside: jail break in r1, missing in r2 *)
  Example refuses_symlink :
    static res isd isf [47; 108; 110] R1 R2 = NotFound [Jail; Missing (R2 ++ [LN])].
  Proof. vm_compute. reflexivity. Qed.
  Example parts_example :
    parts [97; 47; 47; 46; 47; 46; 46; 47; 98; 47] = [[97]; [46; 46]; [98]].
  Proof. vm_compute. reflexivity. Qed.
End StaticExamples.
