(* Model/Store.v -- executable model of the value path of the shelve backend:
   model.Interface.__to_key/_update/_load, comms.Worker.do (upd/set/get),
   db.util.encode/move/decode, plus the operation language and the run
   function used by the correspondence (C06, C07, C08).  Definitions only.

   content = Z (the harness keeps the table  pickled bytes <-> Z);
   blob name = digest content, digest is a parameter (the theorems hold for
   every digest; the correspondence instantiates it with the identity and the
   harness canonicalises real blob names to the content they hold). *)
From Coq Require Import List Arith ZArith Bool.
From DV Require Import Model.Catalogue.
Import ListNotations.

Record ident := mkid {
  d_task : name; d_alg : name; d_aver : ver;
  d_sv : name; d_sver : ver; d_vn : name; d_vver : ver }.

(* Interface.__to_key: five Func.upd requests -> util.append *)
Definition to_key (c : cat) (r : Z) (tn : name) (id : ident) : cat * pkey :=
  let '(c1, trg) := cat_append c Ttarget tn None None in
  let '(c2, tid) := cat_append c1 Ttask (d_task id) None None in
  let '(c3, aid) := cat_append c2 Talg (d_alg id) (Some tid) (Some (d_aver id)) in
  let '(c4, sid) := cat_append c3 Tstate (d_sv id) (Some aid) (Some (d_sver id)) in
  let '(c5, vid) := cat_append c4 Tvalue (d_vn id) (Some sid) (Some (d_vver id)) in
  (c5, (r, trg, tid, aid, sid, vid)).

(* shelve.update(tsk, alg, sv, vn, v): registration without a target *)
Definition register (c : cat) (id : ident) : cat :=
  let '(c2, tid) := cat_append c Ttask (d_task id) None None in
  let '(c3, aid) := cat_append c2 Talg (d_alg id) (Some tid) (Some (d_aver id)) in
  let '(c4, sid) := cat_append c3 Tstate (d_sv id) (Some aid) (Some (d_sver id)) in
  let '(c5, _) := cat_append c4 Tvalue (d_vn id) (Some sid) (Some (d_vver id)) in
  c5.

Record db := mkdb {
  dcat : cat;
  store : list (Z * Z);          (* data_dbs: blob name -> content *)
  stage : list (option Z) }.     (* data_stg: staged files (None = empty) *)

Definition db0 : db := mkdb cat0 [] [].

Fixpoint slookup (b : Z) (s : list (Z * Z)) : option Z :=
  match s with
  | [] => None
  | (b', c) :: s' => if Z.eqb b b' then Some c else slookup b s'
  end.
Definition smem (b : Z) (s : list (Z * Z)) : bool :=
  match slookup b s with Some _ => true | None => false end.

Inductive reply :=
| RUnit | RExc | RCrash
| RNew (isnew : bool)
| RLoaded (c : option Z)
| RNext (z : Z)
| RTrace (res : list (name * list ((name * name) * Z)))
| RReset (reads : list (option ver * option (name * option ver)))
| RNames (l : list (option (Z * name * name * name * name * name))).

Inductive op :=
| OAdd (tn : name)
| OReg (id : ident)
| OUpd (r : Z) (tn : name) (id : ident) (c : Z) (steps : option nat)
| OLoad (r : Z) (tn : name) (id : ident)
| ORemove (r : Z) (tn task alg sv vn : name)
| OReopen
| ONext
| OTrace (tans : list (name * name))
| OReset (r : Z) (tn task alg : name)
| ONames.

Section WithDigest.
Variable digest : Z -> Z.

(* ---- the atomic steps of one value update -------------------------------
   encode: 1 tempfile.mkstemp  2 pickle.dump  3 md5sum  4 sha1sum
   move:   5 os.unlink (content already stored) | shutil.move (rename)
   Worker.do(set): 6 prime[str(key)] = blob name                          *)
Definition st_mkstemp (d : db) : db :=
  mkdb (dcat d) (store d) (stage d ++ [None]).
Definition st_dump (c : Z) (d : db) : db :=
  mkdb (dcat d) (store d) (removelast (stage d) ++ [Some c]).
Definition st_sum (d : db) : db := d.
Definition st_move (c : Z) (d : db) : db :=
  if smem (digest c) (store d)
  then mkdb (dcat d) (store d) (removelast (stage d))
  else mkdb (dcat d) (store d ++ [(digest c, c)]) (removelast (stage d)).
Definition st_record (k : pkey) (c : Z) (d : db) : db :=
  mkdb (set_prime (dcat d) (pset k (digest c) (prime (dcat d)))) (store d) (stage d).

Definition upd_steps (k : pkey) (c : Z) : list (db -> db) :=
  [st_mkstemp; st_dump c; st_sum; st_sum; st_move c; st_record k c].

Definition run_steps (n : option nat) (steps : list (db -> db)) (d : db) : db :=
  fold_left (fun s f => f s)
            (match n with None => steps | Some n => firstn n steps end) d.

(* Interface._update for one value; steps = Some n: the process dies after n
   atomic steps of this update *)
Definition update1 (d : db) (r : Z) (tn : name) (id : ident) (c : Z)
           (steps : option nat) : db * reply :=
  let '(c1, k) := to_key (dcat d) r tn id in
  let d1 := mkdb c1 (store d) (stage d) in
  let exists_ := smem (digest c) (store d1) in
  let d2 := run_steps steps (upd_steps k c) d1 in
  (d2, match steps with
       | None => RNew (negb exists_)
       | Some n => if Nat.leb 6 n then RNew (negb exists_) else RCrash
       end).

(* Interface._load for one value *)
Definition load_pick (p : ptbl) (pk : pkey) : option Z :=
  match plookup pk p with
  | Some b => Some b
  | None =>
    let spks := filter (fun e => tail_eqb (fst e) pk) p in
    let srt := ssort (fun a b => Z.leb (pk_run (fst a)) (pk_run (fst b))) spks in
    match rev srt with
    | [] => None
    | e :: _ => Some (snd e)
    end
  end.

Definition load1 (d : db) (r : Z) (tn : name) (id : ident) : db * reply :=
  let '(c1, pk) := to_key (dcat d) r tn id in
  let d1 := mkdb c1 (store d) (stage d) in
  (d1, match load_pick (prime c1) pk with
       | None => RLoaded None
       | Some b => match slookup b (store d) with
                   | Some c => RLoaded (Some c)
                   | None => RExc
                   end
       end).

Definition with_cat (d : db) (c : cat) : db := mkdb c (store d) (stage d).

Definition exec (d : db) (o : op) : db * reply :=
  match o with
  | OAdd tn => (with_cat d (fst (cat_append (dcat d) Ttarget tn None None)), RUnit)
  | OReg id => (with_cat d (register (dcat d) id), RUnit)
  | OUpd r tn id c steps => update1 d r tn id c steps
  | OLoad r tn id => load1 d r tn id
  | ORemove r tn task alg sv vn =>
    match remove (dcat d) r tn task alg sv vn with
    | Some c => (with_cat d c, RUnit)
    | None => (d, RExc)
    end
  | OReopen => (with_cat d (reopen (dcat d)), RUnit)
  | ONext => (d, RNext (next_run (dcat d)))
  | OTrace tans => (d, match trace (dcat d) tans with
                       | Some r => RTrace r | None => RExc end)
  | OReset r tn task alg =>
    (d, match reset_reads (dcat d) r tn task alg with
        | Some l => RReset l | None => RExc end)
  | ONames => (d, RNames (prime_names (dcat d)))
  end.

Definition run (d : db) (ops : list op) : db :=
  fold_left (fun s o => fst (exec s o)) ops d.

(* ---- observations for the correspondence -------------------------------- *)
Definition lens (c : cat) : list nat :=
  [length (i_target c); length (i_task c); length (i_alg c);
   length (i_state c); length (i_value c)].

Definition obs := (reply * list nat * ptbl * list (Z * Z) * list (option Z))%type.

Fixpoint run_obs (d : db) (ops : list op) : list obs :=
  match ops with
  | [] => []
  | o :: rest =>
    let '(d', r) := exec d o in
    (r, lens (dcat d'), prime (dcat d'), store d', stage d') :: run_obs d' rest
  end.

Definition final (d : db) (ops : list op) :=
  let c := dcat (run d ops) in
  ([i_target c; i_task c; i_alg c; i_state c; i_value c],
   [t_target c; t_task c; t_alg c; t_state c; t_value c]).

End WithDigest.

Definition idig (c : Z) : Z := c.

(* ---- examples ----------------------------------------------------------- *)
Definition ex_id (alg : name) : ident :=
  mkid [116] alg (1, 0, 0)%Z [115] (1, 0, 0)%Z [118] (1, 0, 0)%Z.

(* store under alg and alg2, remove alg: alg2 stays (the repaired subset) *)
Example remove_exact_ex :
  let d := run idig db0
             [OUpd 3 [84] (ex_id s_alg) 7 None; OUpd 3 [84] (ex_id s_alg2) 8 None;
              ORemove 3 [84] [116] s_alg [115] [118]] in
  map fst (prime (dcat d)) = [(3%Z, 0, 0, 1, 1, 1)].
Proof. vm_compute. reflexivity. Qed.

(* same content twice: second is not new, one copy, staging empty *)
Example single_copy_ex :
  let o := run_obs idig db0
             [OUpd 1 [84] (ex_id s_alg) 7 None; OUpd 2 [84] (ex_id s_alg) 7 None] in
  map (fun x => fst (fst (fst (fst x)))) o = [RNew true; RNew false]
  /\ store (run idig db0 [OUpd 1 [84] (ex_id s_alg) 7 None;
                          OUpd 2 [84] (ex_id s_alg) 7 None]) = [(7%Z, 7%Z)].
Proof. vm_compute. split; reflexivity. Qed.

(* a crash after the rename but before the table write: file stored, no entry *)
Example crash_ex :
  let d := run idig db0 [OUpd 1 [84] (ex_id s_alg) 7 (Some 5)] in
  store d = [(7%Z, 7%Z)] /\ prime (dcat d) = [] /\ stage d = [].
Proof. vm_compute. repeat split; reflexivity. Qed.
