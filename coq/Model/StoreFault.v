(* Model/StoreFault.v -- the shelve catalogue / value store when the file
   system REFUSES a write to one of the five name tables (target, task, alg,
   state, value shelves: OSError, no space / quota / I/O error) and the
   database process carries on.  Extends Model/Catalogue.v and Model/Store.v
   (nothing there is changed).  Definitions only.

   What the real code does (dawgie/db/shelve/util.py::append):

       name = construct(name, parent, ver)
       if name not in table:
           table[name] = len(index)      <- the table write; may raise
           index.append(name)            <- only after the write succeeded
       idx = table[name]

   so a refused write leaves table AND index as they were, nothing that was
   registered before is touched, and the exception leaves the client call
   (shelve.add / shelve.update / Interface.__to_key -> _update / _load): the
   appends that the call did BEFORE the refused one stay, the ones after it
   are never attempted.

   The fault counter `w : nat` is the driver's (tools/harness/drive_store.py,
   op field `wfail`):  0 = nothing armed;  S k = the (k+1)-th table WRITE from
   now on raises (a name that is registered already writes nothing and is not
   counted; writes to the primary table are not counted either).

   Everything is parameterised by the append function so that the order of the
   seeded change C08-4 (index extended BEFORE the table write) runs through
   the same operations: `append_f` = the code as it is, `append_e` = index
   first. *)
From Coq Require Import List Arith ZArith Bool.
From Coq Require String.
From DV Require Import Model.Catalogue Model.Store Model.StoreIO.
Import ListNotations.

Definition app_t :=
  nat -> name -> tbl -> idx -> option nat -> option ver
  -> tbl * idx * option (nat * name) * nat.

(* util.append as it is: table write, then index; None = OSError *)
Definition append_f : app_t := fun w n t ix parent v =>
  let nm := construct n parent v in
  match alookup nm t with
  | Some i => (t, ix, Some (i, nm), w)
  | None =>
    match w with
    | 1 => (t, ix, None, 0)
    | _ => (t ++ [(nm, length ix)], ix ++ [nm], Some (length ix, nm), pred w)
    end
  end.

(* the order of seeded change C08-4: idx = len(index); index.append(name);
   table[name] = idx  -- a refused write leaves the name in the index *)
Definition append_e : app_t := fun w n t ix parent v =>
  let nm := construct n parent v in
  match alookup nm t with
  | Some i => (t, ix, Some (i, nm), w)
  | None =>
    match w with
    | 1 => (t, ix ++ [nm], None, 0)
    | _ => (t ++ [(nm, length ix)], ix ++ [nm], Some (length ix, nm), pred w)
    end
  end.

Section Generic.
Variable app : app_t.

(* Worker.do Func.upd / Func.append on table x; id = None: the write raised *)
Definition cat_append_g (w : nat) (c : cat) (x : tab) (n : name)
           (parent : option nat) (v : option ver) : cat * option nat * nat :=
  let '(t, i, r, w') := app w n (tb c x) (ix c x) parent v in
  (set_tab c x t i, option_map fst r, w').

(* Interface.__to_key: five appends, the exception of any of them leaves *)
Definition to_key_g (w : nat) (c : cat) (r : Z) (tn : name) (id : ident)
  : cat * option pkey * nat :=
  match cat_append_g w c Ttarget tn None None with
  | (c1, None, w1) => (c1, None, w1)
  | (c1, Some trg, w1) =>
  match cat_append_g w1 c1 Ttask (d_task id) None None with
  | (c2, None, w2) => (c2, None, w2)
  | (c2, Some tid, w2) =>
  match cat_append_g w2 c2 Talg (d_alg id) (Some tid) (Some (d_aver id)) with
  | (c3, None, w3) => (c3, None, w3)
  | (c3, Some aid, w3) =>
  match cat_append_g w3 c3 Tstate (d_sv id) (Some aid) (Some (d_sver id)) with
  | (c4, None, w4) => (c4, None, w4)
  | (c4, Some sid, w4) =>
  match cat_append_g w4 c4 Tvalue (d_vn id) (Some sid) (Some (d_vver id)) with
  | (c5, None, w5) => (c5, None, w5)
  | (c5, Some vid, w5) => (c5, Some (r, trg, tid, aid, sid, vid), w5)
  end end end end end.

(* shelve.update(tsk, alg, sv, vn, v): four appends; false = raised *)
Definition register_g (w : nat) (c : cat) (id : ident) : cat * bool * nat :=
  match cat_append_g w c Ttask (d_task id) None None with
  | (c2, None, w2) => (c2, false, w2)
  | (c2, Some tid, w2) =>
  match cat_append_g w2 c2 Talg (d_alg id) (Some tid) (Some (d_aver id)) with
  | (c3, None, w3) => (c3, false, w3)
  | (c3, Some aid, w3) =>
  match cat_append_g w3 c3 Tstate (d_sv id) (Some aid) (Some (d_sver id)) with
  | (c4, None, w4) => (c4, false, w4)
  | (c4, Some sid, w4) =>
  match cat_append_g w4 c4 Tvalue (d_vn id) (Some sid) (Some (d_vver id)) with
  | (c5, None, w5) => (c5, false, w5)
  | (c5, Some _, w5) => (c5, true, w5)
  end end end end.

Section WithDigest.
Variable digest : Z -> Z.

(* the part of Store.update1 / Store.load1 after __to_key returned *)
Definition update_tail (d : db) (c1 : cat) (k : pkey) (c : Z) (steps : option nat)
  : db * reply :=
  let d1 := mkdb c1 (store d) (stage d) in
  let exists_ := smem (digest c) (store d1) in
  let d2 := run_steps steps (upd_steps digest k c) d1 in
  (d2, match steps with
       | None => RNew (negb exists_)
       | Some n => if Nat.leb 6 n then RNew (negb exists_) else RCrash
       end).

Definition load_tail (d : db) (c1 : cat) (pk : pkey) : db * reply :=
  let d1 := mkdb c1 (store d) (stage d) in
  (d1, match load_pick (prime c1) pk with
       | None => RLoaded None
       | Some b => match slookup b (store d) with
                   | Some c => RLoaded (Some c)
                   | None => RExc
                   end
       end).

(* one operation with the fault counter; reply None = the OSError of the
   refused table write reached the client *)
Definition exec_g (w : nat) (d : db) (o : op) : db * option reply * nat :=
  match o with
  | OAdd tn =>
    match cat_append_g w (dcat d) Ttarget tn None None with
    | (c1, Some _, w1) => (with_cat d c1, Some RUnit, w1)
    | (c1, None, w1) => (with_cat d c1, None, w1)
    end
  | OReg id =>
    match register_g w (dcat d) id with
    | (c1, true, w1) => (with_cat d c1, Some RUnit, w1)
    | (c1, false, w1) => (with_cat d c1, None, w1)
    end
  | OUpd r tn id c steps =>
    match to_key_g w (dcat d) r tn id with
    | (c1, Some k, w1) => let '(d2, rep) := update_tail d c1 k c steps in (d2, Some rep, w1)
    | (c1, None, w1) => (with_cat d c1, None, w1)
    end
  | OLoad r tn id =>
    match to_key_g w (dcat d) r tn id with
    | (c1, Some k, w1) => let '(d2, rep) := load_tail d c1 k in (d2, Some rep, w1)
    | (c1, None, w1) => (with_cat d c1, None, w1)
    end
  | _ => let '(d1, rep) := exec digest d o in (d1, Some rep, w)
  end.

(* one client call = one group of operations (an _update / _load walks the
   values of the state vector); the exception ends the call *)
Fixpoint exec_group_g (w : nat) (d : db) (ops : list op)
  : db * list (option reply) * nat :=
  match ops with
  | [] => (d, [], w)
  | o :: rest =>
    match exec_g w d o with
    | (d1, None, w1) => (d1, [None], w1)
    | (d1, Some r, w1) =>
      let '(d2, rs, w2) := exec_group_g w1 d1 rest in (d2, Some r :: rs, w2)
    end
  end.

(* a history: client calls, each with the fault armed for it (0 = none) *)
Definition fgroup := (nat * list op)%type.

Definition step_g (d : db) (g : fgroup) : db :=
  fst (fst (exec_group_g (fst g) d (snd g))).

Definition run_g (d : db) (gs : list fgroup) : db := fold_left step_g gs d.

End WithDigest.
End Generic.

(* the code as it is / the seeded order *)
Definition run_f := run_g append_f.
Definition run_e := run_g append_e.

(* ---- adapters of the correspondence ------------------------------------- *)
Definition p_oreply (r : option reply) : preply :=
  match r with Some r => p_reply r | None => PExc end.

Definition refused (rs : list (option reply)) : bool :=
  existsb (fun r => match r with None => true | Some _ => false end) rs.

Definition dump (c : cat) :=
  (map (map PS) [i_target c; i_task c; i_alg c; i_state c; i_value c],
   map (map (fun e => (PS (fst e), snd e)))
       [t_target c; t_task c; t_alg c; t_state c; t_value c]).

Definition fobs :=
  (list preply * bool * list nat * ptbl * list (Z * Z) * list (option Z)
   * (list (list String.string) * list (list (String.string * nat))))%type.

Fixpoint run_groups_g (app : app_t) (d : db) (gs : list fgroup) : list fobs :=
  match gs with
  | [] => []
  | g :: rest =>
    let '(d1, rs, _) := exec_group_g app idig (fst g) d (snd g) in
    (map p_oreply rs, refused rs, lens (dcat d1), prime (dcat d1), store d1,
     stage d1, dump (dcat d1)) :: run_groups_g app d1 rest
  end.

Definition run_io_f (gs : list fgroup) := run_groups_g append_f db0 gs.
Definition run_io_e (gs : list fgroup) := run_groups_g append_e db0 gs.

(* ---- examples ------------------------------------------------------------- *)
(* the third table write of an update (the algorithm row) is refused: target
   and task rows stay, no algorithm / state vector / value row, no primary
   entry, no file, the call answers with the exception; the retry registers
   the algorithm under the id the refused write would have had *)
Example refused_third_write_ex :
  let g := [(3, [OUpd 3 [84] (ex_id s_alg) 7 None])] in
  let d := run_f idig db0 g in
  lens (dcat d) = [1; 1; 0; 0; 0] /\ prime (dcat d) = [] /\ store d = [] /\
  t_alg (dcat d) = [] /\ i_alg (dcat d) = [] /\
  snd (fst (exec_group_g append_f idig 3 db0 [OUpd 3 [84] (ex_id s_alg) 7 None]))
    = [None] /\
  let d' := run_f idig d [(0, [OUpd 3 [84] (ex_id s_alg) 7 None])] in
  map fst (prime (dcat d')) = [(3%Z, 0, 0, 0, 0, 0)] /\ reopen (dcat d') = dcat d'.
Proof. vm_compute. repeat split; reflexivity. Qed.

(* the seeded order: the refused write leaves a ghost in the index; the retry
   appends the name again and persists id 1 for the first algorithm; after
   close / reopen the rebuilt index has ONE row, so id 1 is out of range *)
Example refused_third_write_early_ex :
  let g := [(3, [OUpd 3 [84] (ex_id s_alg) 7 None]);
            (0, [OUpd 3 [84] (ex_id s_alg) 7 None])] in
  let c := dcat (run_e idig db0 g) in
  i_alg c = [construct s_alg (Some 0) (Some (1, 0, 0)%Z);
             construct s_alg (Some 0) (Some (1, 0, 0)%Z)] /\
  map snd (t_alg c) = [1] /\ length (i_alg (reopen c)) = 1.
Proof. vm_compute. repeat split; reflexivity. Qed.
