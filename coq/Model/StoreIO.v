(* Model/StoreIO.v -- input/output adapters of the correspondence only:
   names travel as Coq strings (fast to parse and print) and are converted
   to / from the code-point lists the model works on. *)
From Coq Require Import List Arith ZArith Bool String Ascii.
From DV Require Import Model.Catalogue Model.Store.
Import ListNotations.

Definition NM (s : string) : name := map nat_of_ascii (list_ascii_of_string s).
Definition PS (n : name) : string := string_of_list_ascii (map ascii_of_nat n).

Definition Pver := ver.

Inductive preply :=
| PUnit | PExc | PCrash
| PNew (isnew : bool)
| PLoaded (c : option Z)
| PNext (z : Z)
| PTrace (res : list (string * list (string * string * Z)))
| PReset (reads : list (option ver * option (string * option ver)))
| PNames (l : list (option (Z * string * string * string * string * string))).

Definition p_reply (r : reply) : preply :=
  match r with
  | RUnit => PUnit | RExc => PExc | RCrash => PCrash
  | RNew b => PNew b | RLoaded c => PLoaded c | RNext z => PNext z
  | RTrace res =>
    PTrace (map (fun e => (PS (fst e),
                           map (fun x => (PS (fst (fst x)), PS (snd (fst x)), snd x)) (snd e)))
                res)
  | RReset l =>
    PReset (map (fun e => (fst e, option_map (fun x => (PS (fst x), snd x)) (snd e))) l)
  | RNames l =>
    PNames (map (option_map (fun x =>
      let '(r, a, b, c, d, e) := x in (r, PS a, PS b, PS c, PS d, PS e))) l)
  end.

Definition p_obs (o : obs) :=
  let '(r, l, p, s, g) := o in (p_reply r, l, p, s, g).

Definition run_io (ops : list op) :=
  (map p_obs (run_obs idig db0 ops),
   let '(ixs, tbs) := final idig db0 ops in
   (map (map PS) ixs, map (map (fun e => (PS (fst e), snd e))) tbs)).
