(* Model/StoreIO.v -- input/output adapters of the correspondence only:
   names travel as Coq strings (fast to parse and print) and are converted
   to / from the code-point lists the model works on. *)
From Coq Require Import List Arith ZArith Bool String Ascii.
From DV Require Import Model.Catalogue Model.Store.
Import ListNotations.

Definition NM (s : string) : name := map nat_of_ascii (list_ascii_of_string s).
Definition PS (n : name) : string := string_of_list_ascii (map ascii_of_nat n).

Definition Pver := ver.

Inductive preply :=
| PUnit | PExc | PCrash
| PNew (isnew : bool)
| PLoaded (c : option Z)
| PNext (z : Z)
| PTrace (res : list (string * list (string * string * Z)))
| PReset (reads : list (option ver * option (string * option ver)))
| PNames (l : list (option (Z * string * string * string * string * string))).

Definition p_reply (r : reply) : preply :=
  match r with
  | RUnit => PUnit | RExc => PExc | RCrash => PCrash
  | RNew b => PNew b | RLoaded c => PLoaded c | RNext z => PNext z
  | RTrace res =>
    PTrace (map (fun e => (PS (fst e),
                           map (fun x => (PS (fst (fst x)), PS (snd (fst x)), snd x)) (snd e)))
                res)
  | RReset l =>
    PReset (map (fun e => (fst e, option_map (fun x => (PS (fst x), snd x)) (snd e))) l)
  | RNames l =>
    PNames (map (option_map (fun x =>
      let '(r, a, b, c, d, e) := x in (r, PS a, PS b, PS c, PS d, PS e))) l)
  end.

(* ---- grouped execution: one group = the sub-operations of one client call -- *)
Fixpoint exec_group (d : db) (ops : list op) : db * list reply :=
  match ops with
  | [] => (d, [])
  | o :: rest =>
    let '(d1, r) := exec idig d o in
    let '(d2, rs) := exec_group d1 rest in
    (d2, r :: rs)
  end.

Definition gobs :=
  (list preply * list nat * ptbl * list (Z * Z) * list (option Z))%type.

Fixpoint run_groups (d : db) (gs : list (list op)) : list gobs * db :=
  match gs with
  | [] => ([], d)
  | g :: rest =>
    let '(d1, rs) := exec_group d g in
    let '(os, d2) := run_groups d1 rest in
    ((map p_reply rs, lens (dcat d1), prime (dcat d1), store d1, stage d1) :: os, d2)
  end.

Definition run_io (gs : list (list op)) :=
  let '(os, d) := run_groups db0 gs in
  let c := dcat d in
  (os,
   (map (map PS) [i_target c; i_task c; i_alg c; i_state c; i_value c],
    map (map (fun e => (PS (fst e), snd e)))
        [t_target c; t_task c; t_alg c; t_state c; t_value c],
    map (option_map (fun x : vrow =>
           let '(a, b, c0, d, e, f, g) := x in (PS a, PS b, PS c0, PS d, e, f, g)))
        (versions c))).

(* Interface._load walks the state vector of the algorithm and then the
   MetricStateVector (dawgie.util.metrics): 14 values, sv version 1.1.1,
   value version 1.1.0 *)
Definition MSV_VALS : list string :=
  ["db_input"; "db_memory"; "db_output"; "db_pages"; "db_system"; "db_user";
   "db_wall"; "task_input"; "task_memory"; "task_output"; "task_pages";
   "task_system"; "task_user"; "task_wall"]%string.

Definition hl_load (r : Z) (tn task alg : name) (aver : ver) (sv : name)
           (sver : ver) (vals : list (name * ver)) : list op :=
  map (fun x => OLoad r tn (mkid task alg aver sv sver (fst x) (snd x))) vals
  ++ map (fun vn => OLoad r tn (mkid task alg aver (NM "__metric__") (1, 1, 1)%Z
                                     (NM vn) (1, 1, 0)%Z)) MSV_VALS.

Definition hl_upd (r : Z) (tn task alg : name) (aver : ver) (sv : name)
           (sver : ver) (vals : list (name * ver * Z * option nat)) : list op :=
  map (fun x => let '(vn, vv, c, st) := x in
                OUpd r tn (mkid task alg aver sv sver vn vv) c st) vals.
