(* Model/Submit.v -- C12 vocabulary on top of Model/Fsm.v (which already
   carries FSM.priority, the wait flags, the poller handles, set_submit_info,
   submit_crossroads, wait_for_*, poll = one evaluation of is_*_done's loop
   condition, done_cb = wait_for_*.done, and the ghost log [ulog] of every
   update_trigger call with the condition at that instant). *)
From Coq Require Import List Bool Arith.
From DV Require Import Gen.FsmTable Gen.PriorityGen Model.Fsm.
Import ListNotations.

(* the poller of a priority *)
Definition pk_of (p : prio) : option pk :=
  match p with P_NOW => None | P_CREW => Some KCrew | P_DOING => Some KDoing | P_TODO => Some KTodo end.

(* strength: NOW > CREW > DOING > TODO *)
Definition prank (p : prio) : nat :=
  match p with P_NOW => 0 | P_CREW => 1 | P_DOING => 2 | P_TODO => 3 end.

(* a waiter fired update_trigger at a moment its condition did not hold *)
Definition raced (u : urec) : bool :=
  match u_who u with Some _ => negb (u_cond u) && u_ok u | None => false end.
(* a waiter fired update_trigger and it was rejected *)
Definition lost (u : urec) : bool :=
  match u_who u with Some _ => negb (u_ok u) | None => false end.

(* the headline: every update_trigger fired by a waiter is accepted, at a
   moment its condition holds *)
Definition every_fire_good (s : fstate) : bool :=
  forallb (fun u => negb (raced u) && negb (lost u)) (ulog (gh s)).

(* no live waiter: nothing will ever fire update_trigger again by itself *)
Definition no_waiter (s : fstate) : bool :=
  match handles (ws s) with (None, None, None) => true | _ => false end.

Example race_example :
  every_fire_good (run init [EBoot; Done 0; Done 0; ESubStart 0 None; ESubDone 0 (Some P_CREW);
                             Poll KCrew (false, false, false); DoneCb KCrew (true, false, false)]) = false.
Proof. vm_compute. reflexivity. Qed.
