(* C05, worker side: dawgie/pl/worker/cluster.py::execute -- how the end of an
   algorithm's run becomes the message the worker sends back to the farm.

     try:    nv = ctxt.run(...)            ; m = response(suc=True, val=nv)
     except (NoValidInputDataError, NoValidOutputDataError): m = response(suc=None)
     except:                                 m = response(suc=False)
     finally: ...; if not ctxt.abort(): send(m)

   `m` is bound to the TASK message until one of the three branches rebinds it:
   an ending that no branch catches would send the task message back (the farm
   answers "Unexpected message type" and hangs up: Hand._res never runs, nothing
   is recorded, nothing is withdrawn).  The bare `except:` is what makes every
   ending of the run -- SystemExit and KeyboardInterrupt included -- a reply.
   Definitions only. *)
From Coq Require Import List Bool.
Import ListNotations.

(* how ctxt.run(...) ends *)
Inductive ending :=
| Returned            (* returns the new-value list *)
| InvalidIn           (* raises dawgie.NoValidInputDataError *)
| InvalidOut          (* raises dawgie.NoValidOutputDataError *)
| Raised              (* raises any other Exception (AbortAEError included) *)
| Exited              (* raises SystemExit: sys.exit() in the algorithm or a library *)
| Interrupted.        (* raises KeyboardInterrupt: SIGINT while running *)

(* what the worker writes to the farm *)
Inductive wmsg :=
| Response (suc : option bool) (with_values : bool)   (* Type.response; suc None = invalid data *)
| TaskEcho                                            (* the task message itself *)
| Silent.                                             (* ctxt.abort(): the pipeline told the worker to stop *)

Definition reply (e : ending) (abort : bool) : wmsg :=
  if abort then Silent else
  match e with
  | Returned => Response (Some true) true
  | InvalidIn | InvalidOut => Response None false
  | Raised | Exited | Interrupted => Response (Some false) false
  end.

(* the outcome Hand._res / Hand._translate derive from the message
   (Model/Sched.v: Success = 3, Failure = 1, Invalid = 6 in the observations) *)
Inductive woutcome := WSuccess | WFailure | WInvalid.
Definition outcome_of (m : wmsg) : option woutcome :=
  match m with
  | Response (Some true) _ => Some WSuccess
  | Response (Some false) _ => Some WFailure
  | Response None _ => Some WInvalid
  | TaskEcho | Silent => None
  end.

(* observation for the correspondence: 0 silent, 1 task echoed,
   [2; suc code; values?] response with suc code 0 False / 1 True / 2 None *)
Definition obs_reply (m : wmsg) : list nat :=
  match m with
  | Silent => [0]
  | TaskEcho => [1]
  | Response s v => [2; match s with Some false => 0 | Some true => 1 | None => 2 end; if v then 1 else 0]
  end.
Definition ending_of (n : nat) : ending :=
  match n with 0 => Returned | 1 => InvalidIn | 2 => InvalidOut | 3 => Raised | 4 => Exited | _ => Interrupted end.

Example reply_example : map (fun e => obs_reply (reply e false)) [Returned; InvalidOut; Raised; Exited]
                        = [[2; 1; 1]; [2; 2; 0]; [2; 0; 0]; [2; 0; 0]].
Proof. reflexivity. Qed.
