(* Proofs/AccessProofs.v -- lemmas about Model/Access.v over the GENERATED
   tables and decision function of Gen/AccessTable.v.  The proofs use the
   shape-stable interface (is_sanctioned : bool -> string -> option A -> bool,
   all_access, registered) and automation, so a reformatting of the Python
   does not break them while a changed decision or table does. *)
From Coq Require Import List String Bool.
From DV Require Import Gen.AccessTable Model.Access.
Import ListNotations.
Local Open Scope string_scope.
Local Open Scope bool_scope.

Lemma ac_mem_str_In : forall x l, mem_str x l = true <-> In x l.
Proof.
  intros x l. unfold mem_str. rewrite existsb_exists. split.
  - intros [y [I E]]. apply String.eqb_eq in E. subst. exact I.
  - intro I. exists x. split; [exact I|apply String.eqb_refl].
Qed.

(* ---- the generated decision function ---- *)
(* anonymous + certificates configured: sanctioned only inside the allow-list *)
Lemma ac_anon_allowlist : forall (A : Type) e,
  is_sanctioned (A:=A) true e None = true -> In e all_access.
Proof.
  intros A e. unfold is_sanctioned. cbn [is_anon].
  destruct (mem_str e all_access) eqn:M; cbn [andb].
  - intros _. apply (proj1 (ac_mem_str_In e all_access)). exact M.
  - discriminate.
Qed.

Lemma ac_anon_allowlist_iff : forall (A : Type) e,
  is_sanctioned (A:=A) true e None = mem_str e all_access.
Proof.
  intros A e. unfold is_sanctioned. cbn [is_anon].
  destruct (mem_str e all_access); reflexivity.
Qed.

(* a caller with a certificate, or a service without client certificates, is
   always sanctioned by the default hook (documented behaviour) *)
Lemma ac_cert_open : forall (A : Type) clients e (c : A),
  is_sanctioned clients e (Some c) = true.
Proof. intros. unfold is_sanctioned. cbn [is_anon]. destruct clients; reflexivity. Qed.

Lemma ac_noclients_open : forall (A : Type) e (c : option A),
  is_sanctioned false e c = true.
Proof. intros. reflexivity. Qed.

(* ---- sanctioned / render ---- *)
Lemma ac_lookup_raises : forall (A : Type) e (c : option A), sanctioned None e c = false.
Proof. reflexivity. Qed.

Lemma ac_hook_raises : forall (A : Type) f e (c : option A),
  f e c = None -> sanctioned (Some f) e c = false.
Proof. intros A f e c H. cbn. rewrite H. reflexivity. Qed.

Lemma ac_denied_not_invoked : forall (A : Type) (h : hook A) has tc uri ms m,
  sanctioned h uri (peer_cert has tc) = false -> render h has tc uri ms m = Denied.
Proof. intros. unfold render. rewrite H. reflexivity. Qed.

Lemma ac_invoked_sanctioned : forall (A : Type) (h : hook A) has tc uri ms m,
  render h has tc uri ms m = Invoked ->
  sanctioned h uri (peer_cert has tc) = true /\ In m (eff_methods ms).
Proof.
  intros A h has tc uri ms m. unfold render.
  destruct (sanctioned h uri (peer_cert has tc)); cbn; [|discriminate].
  destruct (existsb (method_eqb m) (eff_methods ms)) eqn:E; [|discriminate].
  intros _. split; [reflexivity|].
  apply existsb_exists in E. destruct E as [x [I Q]].
  destruct m, x; try discriminate; exact I.
Qed.

Lemma ac_serve_invoked : forall (A : Type) (h : hook A) has tc uri ms v,
  serve h has tc uri ms v = Invoked ->
  exists m, dispatch v = Some m /\ render h has tc uri ms m = Invoked.
Proof.
  intros A h has tc uri ms v. unfold serve.
  destruct (dispatch v) as [m|]; [|discriminate]. intro H. exists m. split; [reflexivity|exact H].
Qed.

Lemma ac_anonymous : forall (A : Type) has (tc : option A) uri ms v,
  peer_cert has tc = None ->
  serve (default_hook true) has tc uri ms v = Invoked -> In uri all_access.
Proof.
  intros A has tc uri ms v P H. apply ac_serve_invoked in H. destruct H as [m [_ H]].
  apply ac_invoked_sanctioned in H. destruct H as [S _]. rewrite P in S.
  unfold default_hook, sanctioned in S.
  exact (ac_anon_allowlist A uri S).
Qed.

Lemma ac_fail_closed : forall (A : Type) (h : hook A) has tc uri ms v,
  (h = None \/ exists f, h = Some f /\ f uri (peer_cert has tc) = None) ->
  serve h has tc uri ms v = Denied \/ serve h has tc uri ms v = Unsupported.
Proof.
  intros A h has tc uri ms v H. unfold serve. destruct (dispatch v); [left|right; reflexivity].
  apply ac_denied_not_invoked. destruct H as [->|[f [-> F]]].
  - reflexivity.
  - apply ac_hook_raises. exact F.
Qed.

(* ---- the generated tables (finite, by computation) ---- *)
Definition allowlist_readonly_b : bool :=
  forallb (fun r => implb (public r) (read_only r)) registered.

Definition commands_restricted_b : bool :=
  forallb (fun r => implb (is_command r) (negb (public r))) registered.

Definition uris_unique_b : bool := nodup_str (map r_uri registered).

Definition allowlist_registered_b : bool :=
  forallb (fun u => mem_str u (map r_uri registered)) all_access.

Definition commands_present_b : bool :=
  forallb (fun h => mem_str h (map r_handler registered)) command_handlers.

Lemma ac_allowlist_readonly_b : allowlist_readonly_b = true.
Proof. vm_compute. reflexivity. Qed.
Lemma ac_commands_restricted_b : commands_restricted_b = true.
Proof. vm_compute. reflexivity. Qed.
Lemma ac_uris_unique_b : uris_unique_b = true.
Proof. vm_compute. reflexivity. Qed.
Lemma ac_allowlist_registered_b : allowlist_registered_b = true.
Proof. vm_compute. reflexivity. Qed.
Lemma ac_commands_present_b : commands_present_b = true.
Proof. vm_compute. reflexivity. Qed.

Lemma ac_allowlist_readonly : forall r,
  In r registered -> In (r_uri r) all_access ->
  read_only r = true.
Proof.
  intros r I P. pose proof ac_allowlist_readonly_b as H. unfold allowlist_readonly_b in H.
  rewrite forallb_forall in H. specialize (H r I).
  unfold public in H. apply ac_mem_str_In in P. rewrite P in H. exact H.
Qed.

Lemma ac_commands_restricted : forall r,
  In r registered -> is_command r = true -> ~ In (r_uri r) all_access.
Proof.
  intros r I C P. pose proof ac_commands_restricted_b as H.
  unfold commands_restricted_b in H. rewrite forallb_forall in H. specialize (H r I).
  rewrite C in H. unfold public in H. apply ac_mem_str_In in P. rewrite P in H.
  discriminate.
Qed.

Lemma ac_read_only_get : forall r m,
  read_only r = true -> In m (eff_methods (r_methods r)) -> m = M_GET.
Proof.
  intros r m R I. unfold read_only in R.
  apply andb_true_iff in R. destruct R as [R _].
  apply andb_true_iff in R. destruct R as [R _].
  unfold get_only in R. rewrite forallb_forall in R. specialize (R m I).
  destruct m; try discriminate; reflexivity.
Qed.

Lemma ac_read_only_not_command : forall r, read_only r = true -> is_command r = false.
Proof.
  intros r R. unfold read_only in R. unfold is_command.
  apply andb_true_iff in R. destruct R as [R E].
  apply andb_true_iff in R. destruct R as [_ C].
  rewrite E. destruct (mem_str (r_handler r) command_handlers); [discriminate|reflexivity].
Qed.

(* the end-to-end statement over the registered endpoints *)
Lemma ac_anonymous_registered : forall (A : Type) has (tc : option A) r v,
  In r registered -> peer_cert has tc = None ->
  request (default_hook true) has tc r v = Invoked ->
  read_only r = true /\ is_command r = false /\ (v = V_GET \/ v = V_HEAD).
Proof.
  intros A has tc r v I P H. unfold request in H.
  pose proof (ac_anonymous A has tc _ _ _ P H) as Pub.
  pose proof (ac_allowlist_readonly r I Pub) as RO.
  split; [exact RO|]. split; [apply ac_read_only_not_command; exact RO|].
  apply ac_serve_invoked in H. destruct H as [m [D H]].
  apply ac_invoked_sanctioned in H. destruct H as [_ M].
  apply (ac_read_only_get r m RO) in M. subst m.
  destruct v; cbn in D; try discriminate; auto.
Qed.
