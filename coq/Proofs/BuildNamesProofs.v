(* Proofs/BuildNamesProofs.v -- C15 end to end on names: from the identities
   registered in the catalogue (Store.register) and the engine (names, versions)
   to the algorithms schedule.build reschedules (Model/BuildNames.v over the
   GENERATED Gen/BuildNamesGen.v), and the refinement to the id-level tables
   of Model/Build.v. *)
From Coq Require Import List Arith ZArith Bool Lia.
From DV Require Import Model.Catalogue Model.Store Model.Sched Model.Build Gen.DiffGen Gen.BuildNamesGen
  Model.BuildNames.
From DV Require Import Proofs.CatalogueProofs Proofs.DissectProofs Proofs.SchedLib Proofs.SchedBuild Proofs.SchedC15.
Import ListNotations.

(* ===== A. association lists keyed by names ================================== *)
Definition keyis {V} (k : name) := fun p : name * V => name_eqb (fst p) k.

Lemma BN_find_app {A} (P : A -> bool) a b :
  find P (a ++ b) = match find P a with Some x => Some x | None => find P b end.
Proof. induction a as [|x a IH]; cbn; [reflexivity|]. destruct (P x); auto. Qed.

Lemma BN_find_key_in {V} k (d : list (name * V)) :
  (exists p, find (keyis k) d = Some p) <-> In k (map fst d).
Proof.
  induction d as [|q d IH]; cbn.
  - split; [intros [p H]; discriminate|intros []].
  - unfold keyis at 1. destruct (name_eqb (fst q) k) eqn:E.
    + apply CP_name_eqb_eq in E. split; eauto.
    + apply CP_name_eqb_neq in E. rewrite IH. split; [auto|intros [H|H]; [congruence|exact H]].
Qed.

Lemma BN_find_some_key {V} k (d : list (name * V)) p :
  find (keyis k) d = Some p -> fst p = k /\ In p d.
Proof.
  intros H. apply find_some in H. destruct H as [H E]. apply CP_name_eqb_eq in E. auto.
Qed.

Lemma BN_find_none_key {V} k (d : list (name * V)) :
  find (keyis k) d = None <-> ~ In k (map fst d).
Proof.
  rewrite <- BN_find_key_in. destruct (find (keyis k) d) as [q|]; split; try congruence.
  - intros H. exfalso. apply H. eauto.
  - intros _ [q H]. discriminate.
Qed.

Lemma BN_has_key {V} k (d : list (name * V)) : nhas_key k d = true <-> In k (map fst d).
Proof.
  unfold nhas_key. rewrite existsb_exists, in_map_iff. split.
  - intros [p [H E]]. apply CP_name_eqb_eq in E. eauto.
  - intros [p [E H]]. exists p. split; [exact H|]. apply CP_name_eqb_eq. exact E.
Qed.

Lemma BN_has_key_false {V} k (d : list (name * V)) : nhas_key k d = false <-> ~ In k (map fst d).
Proof. rewrite <- BN_has_key. destruct (nhas_key k d); split; congruence. Qed.

Lemma BN_find_map_key {V} k (f : name * V -> name * V) (d : list (name * V)) :
  (forall p, fst (f p) = fst p) ->
  find (keyis k) (map f d) = option_map f (find (keyis k) d).
Proof.
  intros Hf. induction d as [|q d IH]; cbn; [reflexivity|].
  unfold keyis at 1 3. rewrite Hf. destruct (name_eqb (fst q) k); [reflexivity|exact IH].
Qed.

Definition functional_d {V} (d : list (name * V)) : Prop :=
  forall k v v', In (k, v) d -> In (k, v') d -> v = v'.

Lemma BN_ndget_functional (d : cdict) k v : functional_d d -> In (k, v) d -> ndget k d = v.
Proof.
  intros F H. unfold ndget. fold (@keyis name k).
  destruct (find (keyis k) d) as [p|] eqn:E.
  - apply BN_find_some_key in E. destruct E as [E1 E2]. destruct p as [k' v']. cbn in *. subst k'.
    apply (F k); assumption.
  - apply BN_find_none_key in E. exfalso. apply E. apply in_map_iff. exists (k, v). auto.
Qed.

(* ===== B. the generated name-level _diff ===================================== *)
Lemma BN_ndiff_fold curr prev (l : cdict) : forall acc k,
  In k (fold_left (fun acc (kv : name * name) => let k := fst kv in
                     if ndiff_test curr prev k then acc ++ [k] else acc) l acc)
  <-> In k acc \/ (In k (map fst l) /\ ndiff_test curr prev k = true).
Proof.
  induction l as [|kv l IH]; intros acc k; cbn [fold_left map In].
  - intuition.
  - rewrite IH. cbn zeta. destruct (ndiff_test curr prev (fst kv)) eqn:E.
    + rewrite in_app_iff. cbn [In]. intuition; subst; auto.
    + intuition; subst; congruence.
Qed.

Lemma BN_ncount_zero x l : ncount x l = 0 <-> ~ In x l.
Proof.
  unfold ncount. induction l as [|a l IH]; cbn [filter]; [cbn; intuition|].
  destruct (name_eqb x a) eqn:E; cbn [length In].
  - apply CP_name_eqb_eq in E. subst. split; [discriminate|]. intros H. exfalso. apply H. left. reflexivity.
  - apply CP_name_eqb_neq in E. rewrite IH. intuition.
Qed.

Lemma BN_nlget_nokey k (d : pdict) : nhas_key k d = false -> nlget k d = [].
Proof.
  intros H. apply BN_has_key_false in H. unfold nlget. fold (@keyis (list name) k).
  apply BN_find_none_key in H. rewrite H. reflexivity.
Qed.

(* the current version string of the name is not among the persisted ones *)
Lemma BN_ndiff_test_spec curr prev k :
  ndiff_test curr prev k = true <-> ~ In (ndget k curr) (nlget k prev).
Proof.
  unfold ndiff_test. rewrite orb_true_iff, negb_true_iff, Nat.eqb_eq, BN_ncount_zero. split.
  - intros [H|H]; [rewrite (BN_nlget_nokey _ _ H); intros []|exact H].
  - intros H. right. exact H.
Qed.

Lemma BN_ndiff_spec curr prev k :
  In k (ndiff curr prev) <-> In k (map fst curr) /\ ~ In (ndget k curr) (nlget k prev).
Proof. unfold ndiff. rewrite BN_ndiff_fold, BN_ndiff_test_spec. cbn [In]. intuition. Qed.

(* ===== C. dotted names ======================================================= *)
Definition nodot (n : name) : Prop := ~ In 46 n.

Lemma BN_dots2 t a : dots [t; a] = t ++ 46 :: a.
Proof. unfold dots, join_chr. cbn [flat_map]. rewrite app_nil_r. reflexivity. Qed.
Lemma BN_dots3 t a s : dots [t; a; s] = t ++ 46 :: a ++ 46 :: s.
Proof. unfold dots, join_chr. cbn [flat_map app]. rewrite app_nil_r. reflexivity. Qed.
Lemma BN_dots4 t a s n : dots [t; a; s; n] = t ++ 46 :: a ++ 46 :: s ++ 46 :: n.
Proof. unfold dots, join_chr. cbn [flat_map app]. rewrite app_nil_r. reflexivity. Qed.

Lemma BN_dots2_inj t a t' a' : nodot t -> nodot t' -> dots [t; a] = dots [t'; a'] -> t = t' /\ a = a'.
Proof. intros H1 H2. rewrite !BN_dots2. apply CP_split_first; assumption. Qed.

Lemma BN_dots3_inj t a s t' a' s' : nodot t -> nodot t' -> nodot a -> nodot a' ->
  dots [t; a; s] = dots [t'; a'; s'] -> t = t' /\ a = a' /\ s = s'.
Proof.
  intros H1 H2 H3 H4. rewrite !BN_dots3. intros E.
  apply CP_split_first in E; try assumption. destruct E as [-> E].
  apply CP_split_first in E; try assumption. tauto.
Qed.

Lemma BN_dots4_inj t a s n t' a' s' n' :
  nodot t -> nodot t' -> nodot a -> nodot a' -> nodot s -> nodot s' ->
  dots [t; a; s; n] = dots [t'; a'; s'; n'] -> t = t' /\ a = a' /\ s = s' /\ n = n'.
Proof.
  intros H1 H2 H3 H4 H5 H6. rewrite !BN_dots4. intros E.
  apply CP_split_first in E; try assumption. destruct E as [-> E].
  apply CP_split_first in E; try assumption. destruct E as [-> E].
  apply CP_split_first in E; try assumption. tauto.
Qed.

(* the GENERATED element of `ans`: the 'task.alg' part, cut at the dots *)
Lemma BN_alg_of_2 t a : nodot t -> nodot a -> alg_of (dots [t; a]) = dots [t; a].
Proof.
  intros Ht Ha. unfold alg_of. rewrite BN_dots2.
  rewrite (split_chr_app 46 t a []) by exact Ht. rewrite (split_chr_plain 46 a []) by exact Ha.
  cbn [rev app firstn]. rewrite <- BN_dots2. reflexivity.
Qed.

Lemma BN_alg_of_more t a r : nodot t -> nodot a -> alg_of (t ++ 46 :: a ++ 46 :: r) = dots [t; a].
Proof.
  intros Ht Ha. unfold alg_of.
  rewrite (split_chr_app 46 t (a ++ 46 :: r) []) by exact Ht.
  rewrite (split_chr_app 46 a r []) by exact Ha. cbn [rev app firstn]. reflexivity.
Qed.

Lemma BN_alg_of_3 t a s : nodot t -> nodot a -> alg_of (dots [t; a; s]) = dots [t; a].
Proof. intros. rewrite BN_dots3. apply BN_alg_of_more; assumption. Qed.

Lemma BN_alg_of_4 t a s n : nodot t -> nodot a -> alg_of (dots [t; a; s; n]) = dots [t; a].
Proof. intros. rewrite BN_dots4. apply BN_alg_of_more; assumption. Qed.

(* ===== D. locate: the GENERATED tag test selects exactly the node of that tag = *)
Lemma BN_locate_from tags tn : forall i y,
  In y (locate_from i tags tn) <-> exists j, y = i + j /\ nth_error tags j = Some tn.
Proof.
  induction tags as [|t r IH]; intros i y; cbn [locate_from].
  - split; [intros []|]. intros [j [_ H]]. destruct j; discriminate.
  - rewrite in_app_iff, IH. unfold tag_match. split.
    + intros [H|[j [-> H]]].
      * destruct (name_eqb tn t) eqn:E; [|destruct H]. apply CP_name_eqb_eq in E. subst t.
        destruct H as [<-|[]]. exists 0. split; [lia|reflexivity].
      * exists (S j). split; [lia|exact H].
    + intros [[|j] [-> H]]; cbn in H.
      * injection H as ->. left. rewrite CP_name_eqb_refl. left. lia.
      * right. exists j. split; [lia|exact H].
Qed.

Lemma BN_locate_all tags tn y : In y (locate_all tags tn) <-> nth_error tags y = Some tn.
Proof.
  unfold locate_all. rewrite BN_locate_from. split.
  - intros [j [-> H]]. exact H.
  - intros H. exists y. auto.
Qed.

(* ===== E. the collation loop of shelve.versions() =========================== *)
Lemma BN_dappend_get k k' v (d : pdict) x :
  In x (nlget k (dappend k' v d)) <-> In x (nlget k d) \/ (k = k' /\ x = v).
Proof.
  unfold dappend. destruct (nhas_key k' d) eqn:H.
  - apply BN_has_key in H. unfold nlget. fold (@keyis (list name) k).
    rewrite BN_find_map_key by (intros p; destruct (name_eqb (fst p) k'); reflexivity).
    destruct (find (keyis k) d) as [q|] eqn:E; cbn [option_map].
    + apply BN_find_some_key in E. destruct E as [E _].
      destruct (name_eqb (fst q) k') eqn:E'; cbn [snd].
      * apply CP_name_eqb_eq in E'. rewrite in_app_iff. cbn [In]. intuition congruence.
      * apply CP_name_eqb_neq in E'. intuition congruence.
    + apply BN_find_none_key in E. split; [intros []|]. intros [[]|[-> _]]. tauto.
  - apply BN_has_key_false in H. unfold nlget. fold (@keyis (list name) k).
    rewrite BN_find_app. destruct (find (keyis k) d) as [q|] eqn:E.
    + apply BN_find_some_key in E. destruct E as [E Hq]. split; [auto|]. intros [H1|[-> _]]; [exact H1|].
      exfalso. apply H. apply in_map_iff. exists q. auto.
    + cbn [find]. unfold keyis at 1. cbn [fst]. destruct (name_eqb k' k) eqn:E'.
      * apply CP_name_eqb_eq in E'. cbn [snd In]. intuition congruence.
      * apply CP_name_eqb_neq in E'. cbn [In]. intuition congruence.
Qed.

Definition row_of (id : ident) : vrow :=
  (d_task id, d_alg id, d_sv id, d_vn id, d_aver id, d_sver id, d_vver id).

Lemma BN_row_of_inj a b : row_of a = row_of b -> a = b.
Proof. destruct a, b. unfold row_of. cbn. intros [= -> -> -> -> -> -> ->]. reflexivity. Qed.

Definition p_alg (p : persisted4) : pdict := let '(_, a, _, _) := p in a.
Definition p_sv (p : persisted4) : pdict := let '(_, _, s, _) := p in s.
Definition p_val (p : persisted4) : pdict := let '(_, _, _, v) := p in v.

Lemma BN_collate_some rs : forall acc,
  fold_left (fun acc r => match acc, r with
                          | Some a, Some r => Some (collate_row a r)
                          | _, _ => None
                          end) (map Some rs) (Some acc) = Some (fold_left collate_row rs acc).
Proof. induction rs as [|r rs IH]; intros acc; cbn; [reflexivity|apply IH]. Qed.

Lemma BN_collate_alg ids : forall acc k x,
  In x (nlget k (p_alg (fold_left collate_row (map row_of ids) acc))) <->
  In x (nlget k (p_alg acc)) \/
  exists id, In id ids /\ k = dots [d_task id; d_alg id] /\ x = ver_str (d_aver id).
Proof.
  induction ids as [|id ids IH]; intros acc k x; cbn [map fold_left].
  - split; [auto|]. intros [H|[id [[] _]]]. exact H.
  - rewrite IH. destruct acc as [[[ts al] sv] vl]. cbn [collate_row row_of p_alg].
    rewrite BN_dappend_get. cbn [In]. split.
    + intros [[H|[-> ->]]|[i [H1 H2]]].
      * auto.
      * right. exists id. auto.
      * right. exists i. tauto.
    + intros [H|[i [[<-|H1] [H2 H3]]]].
      * auto.
      * left. right. auto.
      * right. exists i. auto.
Qed.

Lemma BN_collate_sv ids : forall acc k x,
  In x (nlget k (p_sv (fold_left collate_row (map row_of ids) acc))) <->
  In x (nlget k (p_sv acc)) \/
  exists id, In id ids /\ k = dots [d_task id; d_alg id; d_sv id] /\ x = ver_str (d_sver id).
Proof.
  induction ids as [|id ids IH]; intros acc k x; cbn [map fold_left].
  - split; [auto|]. intros [H|[id [[] _]]]. exact H.
  - rewrite IH. destruct acc as [[[ts al] sv] vl]. cbn [collate_row row_of p_sv].
    rewrite BN_dappend_get. cbn [In]. split.
    + intros [[H|[-> ->]]|[i [H1 H2]]].
      * auto.
      * right. exists id. auto.
      * right. exists i. tauto.
    + intros [H|[i [[<-|H1] [H2 H3]]]].
      * auto.
      * left. right. auto.
      * right. exists i. auto.
Qed.

Lemma BN_collate_val ids : forall acc k x,
  In x (nlget k (p_val (fold_left collate_row (map row_of ids) acc))) <->
  In x (nlget k (p_val acc)) \/
  exists id, In id ids /\ k = dots [d_task id; d_alg id; d_sv id; d_vn id] /\ x = ver_str (d_vver id).
Proof.
  induction ids as [|id ids IH]; intros acc k x; cbn [map fold_left].
  - split; [auto|]. intros [H|[id [[] _]]]. exact H.
  - rewrite IH. destruct acc as [[[ts al] sv] vl]. cbn [collate_row row_of p_val].
    rewrite BN_dappend_get. cbn [In]. split.
    + intros [[H|[-> ->]]|[i [H1 H2]]].
      * auto.
      * right. exists id. auto.
      * right. exists i. tauto.
    + intros [H|[i [[<-|H1] [H2 H3]]]].
      * auto.
      * left. right. auto.
      * right. exists i. auto.
Qed.

(* ===== F. the catalogue after registrations ================================== *)
Definition ok_ident (id : ident) : Prop :=
  plain (d_task id) /\ plain (d_alg id) /\ plain (d_sv id) /\ plain (d_vn id).

Definition chain (c : cat) (id : ident) (vk : name) : Prop :=
  exists s a k, vk = construct (d_vn id) (Some s) (Some (d_vver id)) /\
    nth_error (i_state c) s = Some (construct (d_sv id) (Some a) (Some (d_sver id))) /\
    nth_error (i_alg c) a = Some (construct (d_alg id) (Some k) (Some (d_aver id))) /\
    nth_error (i_task c) k = Some (d_task id).

Definition Jreg (ids : list ident) (c : cat) : Prop :=
  Iwf c /\
  (forall vk x, In (vk, x) (t_value c) -> exists id, In id ids /\ chain c id vk) /\
  (forall id, In id ids -> exists vk x, In (vk, x) (t_value c) /\ chain c id vk).

Lemma BN_chain_ext c c' id vk : ext c c' -> chain c id vk -> chain c' id vk.
Proof.
  intros H (s & a & k & E & H1 & H2 & H3). exists s, a, k. split; [exact E|]. split; [|split].
  - apply (CP_ext_nth c c' Tstate); assumption.
  - apply (CP_ext_nth c c' Talg); assumption.
  - apply (CP_ext_nth c c' Ttask); assumption.
Qed.

Lemma BN_cat_append_tb c x n p v c' id :
  cat_append c x n p v = (c', id) ->
  (forall e, In e (tb c x) -> In e (tb c' x)) /\
  (forall e, In e (tb c' x) -> In e (tb c x) \/ fst e = construct n p v).
Proof.
  unfold cat_append. destruct (append n (tb c x) (ix c x) p v) as [[[t i] id0] nm] eqn:E.
  intros [= <- <-]. destruct (CP_tb_set_same c x t i) as [-> _].
  unfold append in E. destruct (alookup (construct n p v) (tb c x)).
  - injection E as <- _ _ _. auto.
  - injection E as <- _ _ _. split; intros e; rewrite in_app_iff; cbn [In]; [auto|].
    intros [H|[<-|[]]]; auto.
Qed.

Lemma BN_register_step ids c id :
  Jreg ids c -> ok_ident id -> Jreg (ids ++ [id]) (register c id).
Proof.
  intros (W & A & B) (Pt & Pa & Ps & Pv). unfold register.
  destruct (cat_append c Ttask (d_task id) None None) as [c2 tid] eqn:E2.
  destruct (cat_append c2 Talg (d_alg id) (Some tid) (Some (d_aver id))) as [c3 aid] eqn:E3.
  destruct (cat_append c3 Tstate (d_sv id) (Some aid) (Some (d_sver id))) as [c4 sid] eqn:E4.
  destruct (cat_append c4 Tvalue (d_vn id) (Some sid) (Some (d_vver id))) as [c5 vid] eqn:E5.
  assert (K2 : okargs Ttask (d_task id) None None) by (split; [exact Pt|split; reflexivity]).
  assert (K3 : okargs Talg (d_alg id) (Some tid) (Some (d_aver id))) by (split; [exact Pa|cbn; eauto]).
  assert (K4 : okargs Tstate (d_sv id) (Some aid) (Some (d_sver id))) by (split; [exact Ps|cbn; eauto]).
  assert (K5 : okargs Tvalue (d_vn id) (Some sid) (Some (d_vver id))) by (split; [exact Pv|cbn; eauto]).
  destruct (CP_cat_append _ _ _ _ _ _ _ W K2 E2) as (W2 & _ & X2 & N2 & _ & O2).
  destruct (CP_cat_append _ _ _ _ _ _ _ W2 K3 E3) as (W3 & _ & X3 & N3 & _ & O3).
  destruct (CP_cat_append _ _ _ _ _ _ _ W3 K4 E4) as (W4 & _ & X4 & N4 & _ & O4).
  destruct (CP_cat_append _ _ _ _ _ _ _ W4 K5 E5) as (W5 & _ & X5 & N5 & L5 & O5).
  assert (X : ext c c5) by (eapply CP_ext_trans; [|exact X5]; eapply CP_ext_trans; [|exact X4];
                            eapply CP_ext_trans; [exact X2|exact X3]).
  assert (Tv : t_value c4 = t_value c).
  { change (tb c4 Tvalue = tb c Tvalue). destruct (O4 Tvalue ltac:(discriminate)) as [-> _]. destruct (O3 Tvalue ltac:(discriminate)) as [-> _].
    destruct (O2 Tvalue ltac:(discriminate)) as [-> _]. reflexivity. }
  destruct (BN_cat_append_tb _ _ _ _ _ _ _ E5) as [M5 S5]. cbn [tb] in M5, S5. rewrite Tv in M5, S5.
  assert (Cn : chain c5 id (construct (d_vn id) (Some sid) (Some (d_vver id)))).
  { exists sid, aid, tid. split; [reflexivity|]. split; [|split].
    - apply (CP_ext_nth c4 c5 Tstate _ _ X5). exact N4.
    - apply (CP_ext_nth c4 c5 Talg _ _ X5). apply (CP_ext_nth c3 c4 Talg _ _ X4). exact N3.
    - apply (CP_ext_nth c4 c5 Ttask _ _ X5). apply (CP_ext_nth c3 c4 Ttask _ _ X4).
      apply (CP_ext_nth c2 c3 Ttask _ _ X3). exact N2. }
  split; [exact W5|]. split.
  - intros vk x H. destruct (S5 _ H) as [H'|H'].
    + destruct (A _ _ H') as [i [Hi Hc]]. exists i. split; [apply in_or_app; auto|].
      eapply BN_chain_ext; eassumption.
    + cbn [fst] in H'. subst vk. exists id. split; [apply in_or_app; right; left; reflexivity|exact Cn].
  - intros i Hi. apply in_app_or in Hi. destruct Hi as [Hi|[<-|[]]].
    + destruct (B _ Hi) as (vk & x & H1 & H2). exists vk, x. split; [apply M5; exact H1|].
      eapply BN_chain_ext; eassumption.
    + exists (construct (d_vn id) (Some sid) (Some (d_vver id))), vid. split; [|exact Cn].
      apply CP_alookup_in. exact L5.
Qed.

Lemma BN_registered_J ids : forall c ids0,
  Forall ok_ident ids -> Jreg ids0 c -> Jreg (ids0 ++ ids) (fold_left register ids c).
Proof.
  induction ids as [|id ids IH]; intros c ids0 F J; cbn [fold_left].
  - rewrite app_nil_r. exact J.
  - inversion F as [|? ? F1 F2]; subst.
    replace (ids0 ++ id :: ids) with ((ids0 ++ [id]) ++ ids) by (rewrite <- app_assoc; reflexivity).
    apply IH; [exact F2|]. apply BN_register_step; assumption.
Qed.

Lemma BN_J0 : Jreg [] cat0.
Proof.
  split; [apply CP_Icat0|]. split.
  - intros vk x [].
  - intros id [].
Qed.

Lemma BN_all_some {A B} (f : A -> option B) (P : B -> Prop) (l : list A) :
  (forall e, In e l -> exists b, P b /\ f e = Some b) ->
  exists bs, map f l = map Some bs /\ Forall P bs.
Proof.
  induction l as [|e l IH]; intros H.
  - exists []. split; [reflexivity|constructor].
  - destruct (H e (or_introl eq_refl)) as (b & Pb & Eb).
    destruct IH as (bs & E & F); [intros e' He'; apply H; right; exact He'|].
    exists (b :: bs). cbn [map]. rewrite Eb, E. split; [reflexivity|constructor; assumption].
Qed.

(* what versions() reports after registrations: exactly the registered rows *)
Lemma BN_versions_registered ids : Forall ok_ident ids ->
  exists ids', versions (registered ids) = map Some (map row_of ids') /\
               (forall id, In id ids' <-> In id ids).
Proof.
  intros F. pose proof (BN_registered_J ids cat0 [] F BN_J0) as (W & A & B). cbn [app] in A, B.
  fold (registered ids) in W, A, B. set (c := registered ids) in *.
  rewrite Forall_forall in F.
  assert (R : forall id vk, In id ids -> chain c id vk -> version_row c vk = Some (row_of id)).
  { intros id vk Hi (s & a & k & -> & H1 & H2 & H3). destruct (F _ Hi) as (Pt & Pa & Ps & Pv).
    apply (version_row_chain c (d_vn id) s (d_vver id) (d_sv id) a (d_sver id) (d_alg id) k (d_aver id) (d_task id));
      assumption. }
  destruct (BN_all_some (fun e => version_row c (fst e)) (fun r => exists id, In id ids /\ r = row_of id) (t_value c))
    as (bs & E & Fb).
  { intros [vk x] He. destruct (A _ _ He) as (id & Hi & Hc). exists (row_of id). split; [eauto|].
    cbn [fst]. apply R; assumption. }
  assert (Hbs : exists ids', bs = map row_of ids' /\ forall id, In id ids' -> In id ids).
  { clear E. induction Fb as [|b bs (id & Hi & ->) _ IH].
    - exists []. split; [reflexivity|intros ? []].
    - destruct IH as (l & -> & Hl). exists (id :: l). split; [reflexivity|].
      intros i [<-|H]; auto. }
  destruct Hbs as (ids' & -> & Hsub). exists ids'. split; [exact E|].
  intros id. split; [apply Hsub|]. intros Hi.
  destruct (B _ Hi) as (vk & x & He & Hc).
  assert (Hin : In (Some (row_of id)) (versions c)).
  { unfold versions. apply in_map_iff. exists (vk, x). split; [|exact He]. cbn [fst]. apply R; assumption. }
  unfold versions in Hin. rewrite E in Hin. apply in_map_iff in Hin. destruct Hin as (r & [= Er] & Hr).
  apply in_map_iff in Hr. destruct Hr as (id' & E' & Hid'). rewrite Er in E'. apply BN_row_of_inj in E'.
  subst id'. exact Hid'.
Qed.

Definition alg_reg (ids : list ident) (t a : name) (v : ver) : Prop :=
  exists id, In id ids /\ d_task id = t /\ d_alg id = a /\ d_aver id = v.
Definition sv_reg (ids : list ident) (t a s : name) (v : ver) : Prop :=
  exists id, In id ids /\ d_task id = t /\ d_alg id = a /\ d_sv id = s /\ d_sver id = v.
Definition val_reg (ids : list ident) (t a s n : name) (v : ver) : Prop :=
  exists id, In id ids /\ d_task id = t /\ d_alg id = a /\ d_sv id = s /\ d_vn id = n /\ d_vver id = v.

Theorem BN_persisted_registered ids : Forall ok_ident ids ->
  exists p, persisted (registered ids) = Some p /\
    (forall k x, In x (nlget k (p_alg p)) <->
       exists id, In id ids /\ k = dots [d_task id; d_alg id] /\ x = ver_str (d_aver id)) /\
    (forall k x, In x (nlget k (p_sv p)) <->
       exists id, In id ids /\ k = dots [d_task id; d_alg id; d_sv id] /\ x = ver_str (d_sver id)) /\
    (forall k x, In x (nlget k (p_val p)) <->
       exists id, In id ids /\ k = dots [d_task id; d_alg id; d_sv id; d_vn id] /\ x = ver_str (d_vver id)).
Proof.
  intros F. destruct (BN_versions_registered ids F) as (ids' & E & Hi).
  exists (fold_left collate_row (map row_of ids') ([], [], [], [])). split.
  - unfold persisted, collate. rewrite E. apply BN_collate_some.
  - split; [|split]; intros k x.
    + rewrite BN_collate_alg. cbn [p_alg nlget find]. split.
      * intros [[]|(id & H1 & H2)]. exists id. rewrite <- Hi. auto.
      * intros (id & H1 & H2). right. exists id. rewrite Hi. auto.
    + rewrite BN_collate_sv. cbn [p_sv nlget find]. split.
      * intros [[]|(id & H1 & H2)]. exists id. rewrite <- Hi. auto.
      * intros (id & H1 & H2). right. exists id. rewrite Hi. auto.
    + rewrite BN_collate_val. cbn [p_val nlget find]. split.
      * intros [[]|(id & H1 & H2)]. exists id. rewrite <- Hi. auto.
      * intros (id & H1 & H2). right. exists id. rewrite Hi. auto.
Qed.

(* ===== G. the current side: pl.version.current =============================== *)
Lemma BN_first_wins_find k (l : cdict) : forall acc,
  find (keyis k) (fold_left (fun d kv => if nhas_key (fst kv) d then d else d ++ [kv]) l acc)
  = match find (keyis k) acc with Some p => Some p | None => find (keyis k) l end.
Proof.
  induction l as [|q l IH]; intros acc; cbn [fold_left find].
  - destruct (find (keyis k) acc); reflexivity.
  - rewrite IH. destruct (nhas_key (fst q) acc) eqn:H.
    + destruct (find (keyis k) acc) eqn:E; [reflexivity|].
      unfold keyis at 2. destruct (name_eqb (fst q) k) eqn:E'; [|reflexivity].
      exfalso. apply CP_name_eqb_eq in E'. apply BN_has_key in H. apply BN_find_none_key in E.
      rewrite E' in H. tauto.
    + rewrite BN_find_app. destruct (find (keyis k) acc); [reflexivity|].
      cbn [find]. destruct (keyis k q); reflexivity.
Qed.

Lemma BN_first_wins_get k l : ndget k (first_wins l) = ndget k l.
Proof. unfold ndget, first_wins. fold (@keyis name k). rewrite BN_first_wins_find. reflexivity. Qed.

Lemma BN_first_wins_keys k l : In k (map fst (first_wins l)) <-> In k (map fst l).
Proof. rewrite <- !BN_find_key_in. unfold first_wins. rewrite BN_first_wins_find. cbn [find]. reflexivity. Qed.

Lemma BN_ndiff_fw (l : cdict) (P : pdict) k : functional_d l ->
  (In k (ndiff (first_wins l) P) <-> exists v, In (k, v) l /\ ~ In v (nlget k P)).
Proof.
  intros F. rewrite BN_ndiff_spec, BN_first_wins_keys, BN_first_wins_get. split.
  - intros [H N]. apply in_map_iff in H. destruct H as [[k' v] [E H]]. cbn in E. subst k'.
    exists v. split; [exact H|]. rewrite (BN_ndget_functional l k v F H) in N. exact N.
  - intros [v [H N]]. split; [apply in_map_iff; exists (k, v); auto|].
    rewrite (BN_ndget_functional l k v F H). exact N.
Qed.

Lemma BN_nodup_map_inj {A B} (f : A -> B) l x y :
  NoDup (map f l) -> In x l -> In y l -> f x = f y -> x = y.
Proof.
  induction l as [|a l IH]; intros N Hx Hy E; [destruct Hx|].
  cbn [map] in N. inversion N as [|? ? Na Nl]; subst.
  destruct Hx as [->|Hx], Hy as [->|Hy]; auto.
  - exfalso. apply Na. rewrite E. apply in_map. exact Hy.
  - exfalso. apply Na. rewrite <- E. apply in_map. exact Hx.
Qed.

Definition alg_pairs (e : engine) : list (e_task * e_alg) :=
  flat_map (fun tk => map (pair tk) (t_algs tk)) e.

(* names without dots (compliance rule), no two algorithms with the same
   task.algorithm name, no two state vectors of an algorithm / values of a state
   vector with the same name *)
Definition wf_engine (e : engine) : Prop :=
  NoDup (map (fun q => (t_name (fst q), a_name (snd q))) (alg_pairs e)) /\
  (forall tk a, In tk e -> In a (t_algs tk) ->
     nodot (t_name tk) /\ nodot (a_name a) /\ NoDup (map sv_name (a_svs a)) /\
     forall s, In s (a_svs a) -> nodot (sv_name s) /\ NoDup (map fst (sv_vals s))).

Lemma BN_alg_pairs_in e tk a : In (tk, a) (alg_pairs e) <-> In tk e /\ In a (t_algs tk).
Proof.
  unfold alg_pairs. rewrite in_flat_map. split.
  - intros [tk' [H1 H2]]. apply in_map_iff in H2. destruct H2 as [a' [[= -> ->] H2]]. auto.
  - intros [H1 H2]. exists tk. split; [exact H1|]. apply in_map. exact H2.
Qed.

Lemma BN_same_alg e tk a tk' a' : wf_engine e ->
  In tk e -> In a (t_algs tk) -> In tk' e -> In a' (t_algs tk') ->
  t_name tk = t_name tk' -> a_name a = a_name a' -> tk = tk' /\ a = a'.
Proof.
  intros [N _] H1 H2 H3 H4 E1 E2.
  assert (E : (tk, a) = (tk', a')).
  { apply (BN_nodup_map_inj (fun q => (t_name (fst q), a_name (snd q))) (alg_pairs e)); try assumption.
    - apply BN_alg_pairs_in. auto.
    - apply BN_alg_pairs_in. auto.
    - cbn. congruence. }
  injection E as -> ->. auto.
Qed.

Lemma BN_alg_items_in e k v :
  In (k, v) (alg_items e) <->
  exists tk a, In tk e /\ In a (t_algs tk) /\ k = dots [t_name tk; a_name a] /\ v = ver_str (a_ver a).
Proof.
  unfold alg_items. rewrite in_flat_map. split.
  - intros [tk [H1 H2]]. apply in_map_iff in H2. destruct H2 as [a [[= <- <-] H2]]. exists tk, a. auto.
  - intros (tk & a & H1 & H2 & -> & ->). exists tk. split; [exact H1|]. apply in_map_iff. exists a. auto.
Qed.

Lemma BN_sv_items_in e k v :
  In (k, v) (sv_items e) <->
  exists tk a s, In tk e /\ In a (t_algs tk) /\ In s (a_svs a) /\ sv_vals s <> [] /\
                 k = dots [t_name tk; a_name a; sv_name s] /\ v = ver_str (sv_ver s).
Proof.
  unfold sv_items. rewrite in_flat_map. split.
  - intros [tk [H1 H2]]. apply in_flat_map in H2. destruct H2 as [a [H2 H3]].
    apply in_flat_map in H3. destruct H3 as [s [H3 H4]].
    destruct (sv_vals s) eqn:E; [destruct H4|]. destruct H4 as [[= <- <-]|[]].
    exists tk, a, s. rewrite E. repeat split; auto. discriminate.
  - intros (tk & a & s & H1 & H2 & H3 & H4 & -> & ->). exists tk. split; [exact H1|].
    apply in_flat_map. exists a. split; [exact H2|]. apply in_flat_map. exists s. split; [exact H3|].
    destruct (sv_vals s); [congruence|]. left. reflexivity.
Qed.

Lemma BN_val_items_in e k v :
  In (k, v) (val_items e) <->
  exists tk a s n vv, In tk e /\ In a (t_algs tk) /\ In s (a_svs a) /\ In (n, vv) (sv_vals s) /\
                 k = dots [t_name tk; a_name a; sv_name s; n] /\ v = ver_str vv.
Proof.
  unfold val_items. rewrite in_flat_map. split.
  - intros [tk [H1 H2]]. apply in_flat_map in H2. destruct H2 as [a [H2 H3]].
    apply in_flat_map in H3. destruct H3 as [s [H3 H4]].
    apply in_map_iff in H4. destruct H4 as [[n vv] [[= <- <-] H4]].
    exists tk, a, s, n, vv. auto 10.
  - intros (tk & a & s & n & vv & H1 & H2 & H3 & H4 & -> & ->). exists tk. split; [exact H1|].
    apply in_flat_map. exists a. split; [exact H2|]. apply in_flat_map. exists s. split; [exact H3|].
    apply in_map_iff. exists (n, vv). auto.
Qed.

Lemma BN_alg_items_functional e : wf_engine e -> functional_d (alg_items e).
Proof.
  intros W k v v' H H'. apply BN_alg_items_in in H, H'.
  destruct H as (tk & a & H1 & H2 & -> & ->), H' as (tk' & a' & H1' & H2' & E & ->).
  destruct (proj2 W tk a H1 H2) as (D1 & _). destruct (proj2 W tk' a' H1' H2') as (D1' & _).
  apply BN_dots2_inj in E; try assumption. destruct E as [E1 E2].
  destruct (BN_same_alg e tk a tk' a' W H1 H2 H1' H2' E1 E2) as [-> ->]. reflexivity.
Qed.

Lemma BN_sv_items_functional e : wf_engine e -> functional_d (sv_items e).
Proof.
  intros W k v v' H H'. apply BN_sv_items_in in H, H'.
  destruct H as (tk & a & s & H1 & H2 & H3 & _ & -> & ->), H' as (tk' & a' & s' & H1' & H2' & H3' & _ & E & ->).
  destruct (proj2 W tk a H1 H2) as (D1 & D2 & N & _). destruct (proj2 W tk' a' H1' H2') as (D1' & D2' & _).
  apply BN_dots3_inj in E; try assumption. destruct E as (E1 & E2 & E3).
  destruct (BN_same_alg e tk a tk' a' W H1 H2 H1' H2' E1 E2) as [-> ->].
  rewrite (BN_nodup_map_inj sv_name (a_svs a') s s' N H3 H3' E3). reflexivity.
Qed.

Lemma BN_val_items_functional e : wf_engine e -> functional_d (val_items e).
Proof.
  intros W k v v' H H'. apply BN_val_items_in in H, H'.
  destruct H as (tk & a & s & n & vv & H1 & H2 & H3 & H4 & -> & ->),
           H' as (tk' & a' & s' & n' & vv' & H1' & H2' & H3' & H4' & E & ->).
  destruct (proj2 W tk a H1 H2) as (D1 & D2 & N & S). destruct (proj2 W tk' a' H1' H2') as (D1' & D2' & _ & S').
  destruct (S s H3) as [D3 Nv]. destruct (S' s' H3') as [D3' _].
  apply BN_dots4_inj in E; try assumption. destruct E as (E1 & E2 & E3 & E4).
  destruct (BN_same_alg e tk a tk' a' W H1 H2 H1' H2' E1 E2) as [-> ->].
  pose proof (BN_nodup_map_inj sv_name (a_svs a') s s' N H3 H3' E3) as ->. subst n'.
  pose proof (BN_nodup_map_inj fst (sv_vals s') (n, vv) (n, vv') Nv H4 H4' eq_refl) as E.
  injection E as ->. reflexivity.
Qed.

(* ===== H. which algorithms build() reschedules =============================== *)
Definition dotfree_ident (id : ident) : Prop :=
  nodot (d_task id) /\ nodot (d_alg id) /\ nodot (d_sv id).

Definition alg_changed (ids : list ident) (tk : e_task) (a : e_alg) : Prop :=
  ~ alg_reg ids (t_name tk) (a_name a) (a_ver a) \/
  (exists s, In s (a_svs a) /\ sv_vals s <> [] /\
             ~ sv_reg ids (t_name tk) (a_name a) (sv_name s) (sv_ver s)) \/
  (exists s n v, In s (a_svs a) /\ In (n, v) (sv_vals s) /\
                 ~ val_reg ids (t_name tk) (a_name a) (sv_name s) n v).

Lemma BN_names_changed_unfold e p :
  names_changed e p = changed_names (first_wins (alg_items e)) (first_wins (sv_items e))
                                    (first_wins (val_items e)) (p_alg p) (p_sv p) (p_val p).
Proof. destruct p as [[[ts p1] p2] p3]. reflexivity. Qed.

Section Changed.
Variables (ids : list ident) (e : engine) (p : persisted4).
Hypothesis Hok : Forall ok_ident ids.
Hypothesis Hdf : Forall dotfree_ident ids.
Hypothesis Hwf : wf_engine e.
Hypothesis Hp : persisted (registered ids) = Some p.

Lemma BN_p_spec :
  (forall k x, In x (nlget k (p_alg p)) <->
     exists id, In id ids /\ k = dots [d_task id; d_alg id] /\ x = ver_str (d_aver id)) /\
  (forall k x, In x (nlget k (p_sv p)) <->
     exists id, In id ids /\ k = dots [d_task id; d_alg id; d_sv id] /\ x = ver_str (d_sver id)) /\
  (forall k x, In x (nlget k (p_val p)) <->
     exists id, In id ids /\ k = dots [d_task id; d_alg id; d_sv id; d_vn id] /\ x = ver_str (d_vver id)).
Proof.
  destruct (BN_persisted_registered ids Hok) as (p' & E & S). rewrite Hp in E. injection E as <-. exact S.
Qed.

Lemma BN_level_alg k :
  In k (ndiff (first_wins (alg_items e)) (p_alg p)) <->
  exists tk a, In tk e /\ In a (t_algs tk) /\ k = dots [t_name tk; a_name a] /\
               ~ alg_reg ids (t_name tk) (a_name a) (a_ver a).
Proof.
  destruct BN_p_spec as (S & _ & _). rewrite Forall_forall in Hdf.
  rewrite (BN_ndiff_fw _ _ _ (BN_alg_items_functional e Hwf)). split.
  - intros (v & H & N). apply BN_alg_items_in in H. destruct H as (tk & a & H1 & H2 & -> & ->).
    exists tk, a. repeat split; auto. intros (id & Hi & E1 & E2 & E3). apply N. apply S.
    exists id. split; [exact Hi|]. rewrite E1, E2, E3. auto.
  - intros (tk & a & H1 & H2 & -> & N). exists (ver_str (a_ver a)). split.
    + apply BN_alg_items_in. exists tk, a. auto.
    + intros H. apply S in H. destruct H as (id & Hi & E & Ev). apply N. exists id.
      destruct (proj2 Hwf tk a H1 H2) as (D1 & _). destruct (Hdf _ Hi) as (D1' & _).
      apply BN_dots2_inj in E; try assumption. destruct E as [E1 E2].
      apply CP_ver_str_inj in Ev. auto.
Qed.

Lemma BN_level_sv k :
  In k (ndiff (first_wins (sv_items e)) (p_sv p)) <->
  exists tk a s, In tk e /\ In a (t_algs tk) /\ In s (a_svs a) /\ sv_vals s <> [] /\
               k = dots [t_name tk; a_name a; sv_name s] /\
               ~ sv_reg ids (t_name tk) (a_name a) (sv_name s) (sv_ver s).
Proof.
  destruct BN_p_spec as (_ & S & _). rewrite Forall_forall in Hdf.
  rewrite (BN_ndiff_fw _ _ _ (BN_sv_items_functional e Hwf)). split.
  - intros (v & H & N). apply BN_sv_items_in in H. destruct H as (tk & a & s & H1 & H2 & H3 & H4 & -> & ->).
    exists tk, a, s. repeat split; auto. intros (id & Hi & E1 & E2 & E3 & E4). apply N. apply S.
    exists id. split; [exact Hi|]. rewrite E1, E2, E3, E4. auto.
  - intros (tk & a & s & H1 & H2 & H3 & H4 & -> & N). exists (ver_str (sv_ver s)). split.
    + apply BN_sv_items_in. exists tk, a, s. auto 10.
    + intros H. apply S in H. destruct H as (id & Hi & E & Ev). apply N. exists id.
      destruct (proj2 Hwf tk a H1 H2) as (D1 & D2 & _). destruct (Hdf _ Hi) as (D1' & D2' & _).
      apply BN_dots3_inj in E; try assumption. destruct E as (E1 & E2 & E3).
      apply CP_ver_str_inj in Ev. auto 10.
Qed.

Lemma BN_level_val k :
  In k (ndiff (first_wins (val_items e)) (p_val p)) <->
  exists tk a s n v, In tk e /\ In a (t_algs tk) /\ In s (a_svs a) /\ In (n, v) (sv_vals s) /\
               k = dots [t_name tk; a_name a; sv_name s; n] /\
               ~ val_reg ids (t_name tk) (a_name a) (sv_name s) n v.
Proof.
  destruct BN_p_spec as (_ & _ & S). rewrite Forall_forall in Hdf.
  rewrite (BN_ndiff_fw _ _ _ (BN_val_items_functional e Hwf)). split.
  - intros (v & H & N). apply BN_val_items_in in H.
    destruct H as (tk & a & s & n & vv & H1 & H2 & H3 & H4 & -> & ->).
    exists tk, a, s, n, vv. repeat split; auto. intros (id & Hi & E1 & E2 & E3 & E4 & E5). apply N. apply S.
    exists id. split; [exact Hi|]. rewrite E1, E2, E3, E4, E5. auto.
  - intros (tk & a & s & n & vv & H1 & H2 & H3 & H4 & -> & N). exists (ver_str vv). split.
    + apply BN_val_items_in. exists tk, a, s, n, vv. auto 10.
    + intros H. apply S in H. destruct H as (id & Hi & E & Ev). apply N. exists id.
      destruct (proj2 Hwf tk a H1 H2) as (D1 & D2 & _ & Ss). destruct (Ss s H3) as [D3 _].
      destruct (Hdf _ Hi) as (D1' & D2' & D3').
      apply BN_dots4_inj in E; try assumption. destruct E as (E1 & E2 & E3 & E4).
      apply CP_ver_str_inj in Ev. auto 10.
Qed.

(* the names handed to locate()/organize(): exactly the task.algorithm names of
   the algorithms with an unregistered version *)
Lemma BN_names_changed tn :
  In tn (names_changed e p) <->
  exists tk a, In tk e /\ In a (t_algs tk) /\ tn = dots [t_name tk; a_name a] /\ alg_changed ids tk a.
Proof.
  rewrite BN_names_changed_unfold. unfold changed_names.
  pose proof BN_level_alg as L0. pose proof BN_level_sv as L1. pose proof BN_level_val as L2.
  rewrite in_map_iff. split.
  - intros (item & <- & H). rewrite !in_app_iff, L0, L1, L2 in H.
    destruct H as [(tk & a & H1 & H2 & -> & N)|[(tk & a & s & H1 & H2 & H3 & H4 & -> & N)|
                   (tk & a & s & n & v & H1 & H2 & H3 & H4 & -> & N)]];
      destruct (proj2 Hwf tk a H1 H2) as (D1 & D2 & _); exists tk, a; (split; [exact H1|]); (split; [exact H2|]).
    + split; [apply BN_alg_of_2; assumption|]. left. exact N.
    + split; [apply BN_alg_of_3; assumption|]. right. left. exists s. auto.
    + split; [apply BN_alg_of_4; assumption|]. right. right. exists s, n, v. auto.
  - intros (tk & a & H1 & H2 & -> & C). destruct (proj2 Hwf tk a H1 H2) as (D1 & D2 & _).
    destruct C as [N|[(s & H3 & H4 & N)|(s & n & v & H3 & H4 & N)]].
    + exists (dots [t_name tk; a_name a]). split; [apply BN_alg_of_2; assumption|].
      rewrite !in_app_iff, L0. left. exists tk, a. auto.
    + exists (dots [t_name tk; a_name a; sv_name s]). split; [apply BN_alg_of_3; assumption|].
      rewrite !in_app_iff, L1. right. left. exists tk, a, s. auto 10.
    + exists (dots [t_name tk; a_name a; sv_name s; n]). split; [apply BN_alg_of_4; assumption|].
      rewrite !in_app_iff, L2. right. right. exists tk, a, s, n, v. auto 10.
Qed.

Lemma BN_nodes_changed tags y :
  In y (nodes_changed tags e p) <->
  exists tk a, In tk e /\ In a (t_algs tk) /\
               nth_error tags y = Some (dots [t_name tk; a_name a]) /\ alg_changed ids tk a.
Proof.
  unfold nodes_changed. rewrite in_flat_map. split.
  - intros (tn & H & L). apply BN_locate_all in L. apply BN_names_changed in H.
    destruct H as (tk & a & H1 & H2 & -> & C). exists tk, a. auto.
  - intros (tk & a & H1 & H2 & L & C). exists (dots [t_name tk; a_name a]). split.
    + apply BN_names_changed. exists tk, a. auto.
    + apply BN_locate_all. exact L.
Qed.
End Changed.

(* ===== I. end to end ========================================================== *)
Definition resched (ids : list ident) (e : engine) (tags : list name) (y : node) : Prop :=
  exists tk a, In tk e /\ In a (t_algs tk) /\
               nth_error tags y = Some (dots [t_name tk; a_name a]) /\ alg_changed ids tk a.

Theorem BN_end_to_end ids e c tags hint s :
  Forall ok_ident ids -> Forall dotfree_ident ids -> wf_engine e ->
  exists s', build_names c tags e (registered ids) hint s = Some s' /\
    (forall y t, In t (todo (getn (ns s') y)) <->
       resched ids e tags y /\ y < nnodes c /\ (if asp c y then t = ALL else In t (gtargets c))) /\
    (forall y, doing (getn (ns s') y) = [] /\ do_ (getn (ns s') y) = []) /\
    (forall z, In z (que s') <-> resched ids e tags z /\ z < nnodes c).
Proof.
  intros Hok Hdf Hwf. destruct (BN_persisted_registered ids Hok) as (p & Ep & _).
  unfold build_names. rewrite Ep. eexists. split; [reflexivity|].
  destruct (build_exact c (reorder hint (nodes_changed tags e p)) s) as (_ & A & B & C).
  split; [|split; [exact B|]].
  - intros y t. rewrite A, reorder_In, (BN_nodes_changed ids e p Hok Hdf Hwf Ep). reflexivity.
  - intros z. rewrite C, reorder_In, (BN_nodes_changed ids e p Hok Hdf Hwf Ep). reflexivity.
Qed.

(* names that merely extend / are a prefix of the name of a changed algorithm are
   not affected: being rescheduled depends on the registrations made for exactly
   the names of the algorithm itself *)
Lemma BN_alg_changed_own ids ids' tk a :
  (forall id, d_task id = t_name tk -> d_alg id = a_name a -> (In id ids <-> In id ids')) ->
  (alg_changed ids tk a <-> alg_changed ids' tk a).
Proof.
  intros H.
  assert (A : forall v, alg_reg ids (t_name tk) (a_name a) v <-> alg_reg ids' (t_name tk) (a_name a) v).
  { intros v. split; intros (id & Hi & E1 & E2 & E3); exists id; (split; [apply (H id E1 E2); exact Hi|auto]). }
  assert (B : forall s v, sv_reg ids (t_name tk) (a_name a) s v <-> sv_reg ids' (t_name tk) (a_name a) s v).
  { intros s v. split; intros (id & Hi & E1 & E2 & E3); exists id; (split; [apply (H id E1 E2); exact Hi|auto]). }
  assert (C : forall s n v, val_reg ids (t_name tk) (a_name a) s n v <-> val_reg ids' (t_name tk) (a_name a) s n v).
  { intros s n v. split; intros (id & Hi & E1 & E2 & E3); exists id; (split; [apply (H id E1 E2); exact Hi|auto]). }
  unfold alg_changed. rewrite A. split.
  - intros [N|[(s & H1 & H2 & N)|(s & n & v & H1 & H2 & N)]]; [left; exact N|right; left|right; right].
    + exists s. rewrite <- B. auto.
    + exists s, n, v. rewrite <- C. auto.
  - intros [N|[(s & H1 & H2 & N)|(s & n & v & H1 & H2 & N)]]; [left; exact N|right; left|right; right].
    + exists s. rewrite B. auto.
    + exists s, n, v. rewrite C. auto.
Qed.

(* ===== J. register everything, then nothing is rescheduled ==================== *)
Definition plain_engine (e : engine) : Prop :=
  forall tk a, In tk e -> In a (t_algs tk) ->
    plain (t_name tk) /\ plain (a_name a) /\
    forall s, In s (a_svs a) -> plain (sv_name s) /\ forall n v, In (n, v) (sv_vals s) -> plain n.

(* every algorithm has a state vector with a value (an algorithm without any
   value registers nothing: pl.version.record loops over the values) *)
Definition populated (e : engine) : Prop :=
  forall tk a, In tk e -> In a (t_algs tk) -> exists s, In s (a_svs a) /\ sv_vals s <> [].

Lemma BN_record_all_in e id :
  In id (record_all e) <->
  exists tk a s n v, In tk e /\ In a (t_algs tk) /\ In s (a_svs a) /\ In (n, v) (sv_vals s) /\
    id = mkid (t_name tk) (a_name a) (a_ver a) (sv_name s) (sv_ver s) n v.
Proof.
  unfold record_all. rewrite in_flat_map. split.
  - intros [tk [H1 H2]]. apply in_flat_map in H2. destruct H2 as [a [H2 H3]].
    apply in_flat_map in H3. destruct H3 as [s [H3 H4]].
    apply in_map_iff in H4. destruct H4 as [[n v] [<- H4]]. exists tk, a, s, n, v. auto 10.
  - intros (tk & a & s & n & v & H1 & H2 & H3 & H4 & ->). exists tk. split; [exact H1|].
    apply in_flat_map. exists a. split; [exact H2|]. apply in_flat_map. exists s. split; [exact H3|].
    apply in_map_iff. exists (n, v). auto.
Qed.

Lemma BN_record_all_ok e : plain_engine e -> Forall ok_ident (record_all e).
Proof.
  intros P. apply Forall_forall. intros id H. apply BN_record_all_in in H.
  destruct H as (tk & a & s & n & v & H1 & H2 & H3 & H4 & ->).
  destruct (P tk a H1 H2) as (P1 & P2 & Ps). destruct (Ps s H3) as (P3 & Pn).
  repeat split; cbn; eauto.
Qed.

Lemma BN_record_all_dotfree e : wf_engine e -> Forall dotfree_ident (record_all e).
Proof.
  intros W. apply Forall_forall. intros id H. apply BN_record_all_in in H.
  destruct H as (tk & a & s & n & v & H1 & H2 & H3 & H4 & ->).
  destruct (proj2 W tk a H1 H2) as (D1 & D2 & _ & Ss). destruct (Ss s H3) as (D3 & _).
  repeat split; cbn; assumption.
Qed.

Lemma BN_recorded_unchanged e tk a :
  populated e -> In tk e -> In a (t_algs tk) -> ~ alg_changed (record_all e) tk a.
Proof.
  intros Pop H1 H2 [N|[(s & H3 & H4 & N)|(s & n & v & H3 & H4 & N)]]; apply N.
  - destruct (Pop tk a H1 H2) as (s & H3 & H4). destruct (sv_vals s) as [|[n v] r] eqn:E; [congruence|].
    exists (mkid (t_name tk) (a_name a) (a_ver a) (sv_name s) (sv_ver s) n v). split; [|cbn; auto].
    apply BN_record_all_in. exists tk, a, s, n, v. rewrite E. cbn. auto 10.
  - destruct (sv_vals s) as [|[n v] r] eqn:E; [congruence|].
    exists (mkid (t_name tk) (a_name a) (a_ver a) (sv_name s) (sv_ver s) n v). split; [|cbn; auto].
    apply BN_record_all_in. exists tk, a, s, n, v. rewrite E. cbn. auto 10.
  - exists (mkid (t_name tk) (a_name a) (a_ver a) (sv_name s) (sv_ver s) n v). split; [|cbn; auto 10].
    apply BN_record_all_in. exists tk, a, s, n, v. auto 10.
Qed.

Theorem BN_register_then_unchanged e c tags hint s :
  wf_engine e -> plain_engine e -> populated e ->
  exists s', build_names c tags e (registered (record_all e)) hint s = Some s' /\
    que s' = [] /\ forall y, todo (getn (ns s') y) = [].
Proof.
  intros W P Pop.
  destruct (BN_end_to_end (record_all e) e c tags hint s (BN_record_all_ok e P) (BN_record_all_dotfree e W) W)
    as (s' & E & T & _ & Q).
  exists s'. split; [exact E|].
  assert (N : forall y, ~ resched (record_all e) e tags y).
  { intros y (tk & a & H1 & H2 & _ & C). exact (BN_recorded_unchanged e tk a Pop H1 H2 C). }
  split.
  - destruct (que s') as [|z q] eqn:Eq; [reflexivity|]. exfalso. apply (N z). apply Q. left. reflexivity.
  - intros y. destruct (todo (getn (ns s') y)) as [|t r] eqn:Et; [reflexivity|]. exfalso. apply (N y).
    apply (T y t). rewrite Et. left. reflexivity.
Qed.

(* then the software changes: e' agrees with the registered engine e on every
   algorithm except (tk0, a0), which carries a version e never registered for
   that name -- exactly the nodes tagged with its name are rescheduled *)
Theorem BN_bump_reschedules_owner e e' tk0 a0 c tags hint s :
  wf_engine e -> plain_engine e -> populated e -> wf_engine e' ->
  In tk0 e' -> In a0 (t_algs tk0) ->
  (forall tk' a', In tk' e' -> In a' (t_algs tk') ->
     (tk' = tk0 /\ a' = a0) \/ exists tk, In tk e /\ t_name tk = t_name tk' /\ In a' (t_algs tk)) ->
  alg_changed (record_all e) tk0 a0 ->
  exists s', build_names c tags e' (registered (record_all e)) hint s = Some s' /\
    (forall z, In z (que s') <-> nth_error tags z = Some (dots [t_name tk0; a_name a0]) /\ z < nnodes c) /\
    (forall y t, In t (todo (getn (ns s') y)) <->
       nth_error tags y = Some (dots [t_name tk0; a_name a0]) /\ y < nnodes c /\
       (if asp c y then t = ALL else In t (gtargets c))).
Proof.
  intros W P Pop W' H0 H0' Same Ch.
  destruct (BN_end_to_end (record_all e) e' c tags hint s (BN_record_all_ok e P) (BN_record_all_dotfree e W) W')
    as (s' & E & T & _ & Q).
  exists s'. split; [exact E|].
  assert (R : forall y, resched (record_all e) e' tags y <-> nth_error tags y = Some (dots [t_name tk0; a_name a0])).
  { intros y. split.
    - intros (tk & a & H1 & H2 & L & C). destruct (Same tk a H1 H2) as [[-> ->]|(tk1 & K1 & K2 & K3)]; [exact L|].
      exfalso. apply (BN_recorded_unchanged e tk1 a Pop K1 K3).
      unfold alg_changed in *. rewrite K2. exact C.
    - intros L. exists tk0, a0. auto. }
  split.
  - intros z. rewrite Q, R. reflexivity.
  - intros y t. rewrite T, R. reflexivity.
Qed.

(* ===== K. the example engine satisfies the hypotheses ========================= *)
Ltac bn_nd := repeat (constructor; [cbn; intuition (try discriminate; try congruence)|]); try constructor.
Ltac bn_no := unfold nodot, plain; cbn; intuition (try discriminate; try lia).

Lemma BN_ex_wf b : wf_engine (ex_engine b) /\ plain_engine (ex_engine b) /\ populated (ex_engine b).
Proof.
  split; [|split].
  - split.
    + cbn. bn_nd.
    + intros tk a [<-|[<-|[]]] [<-|[<-|[]]]; cbn;
        (split; [bn_no|]); (split; [bn_no|]); (split; [bn_nd|]);
        intros s [<-|[]]; cbn; (split; [bn_no|bn_nd]).
  - intros tk a [<-|[<-|[]]] [<-|[<-|[]]]; cbn;
      (split; [bn_no|]); (split; [bn_no|]);
      intros s [<-|[]]; cbn; (split; [bn_no|]); intros n v [[= <- <-]|[]]; bn_no.
  - intros tk a [<-|[<-|[]]] [<-|[<-|[]]]; cbn; eexists; (split; [left; reflexivity|]); cbn; discriminate.
Qed.

(* ===== L. refinement: the id-level tables of Model/Build.v ===================== *)
Lemma BN_index_of_notin x u : ~ In x u -> index_of x u = length u.
Proof.
  induction u as [|y r IH]; intros H; cbn; [reflexivity|].
  destruct (name_eqb x y) eqn:E.
  - apply CP_name_eqb_eq in E. subst. exfalso. apply H. left. reflexivity.
  - rewrite IH; [reflexivity|]. intros H'. apply H. right. exact H'.
Qed.

Lemma BN_index_of_nth x u : In x u -> nth_error u (index_of x u) = Some x.
Proof.
  induction u as [|y r IH]; intros H; [destruct H|]. cbn [index_of].
  destruct (name_eqb x y) eqn:E.
  - apply CP_name_eqb_eq in E. subst. reflexivity.
  - apply CP_name_eqb_neq in E. destruct H as [H|H]; [congruence|]. cbn. apply IH. exact H.
Qed.

Lemma BN_index_of_le x u : index_of x u <= length u.
Proof. induction u as [|y r IH]; cbn; [lia|]. destruct (name_eqb x y); lia. Qed.

Lemma BN_index_of_lt_in x u : index_of x u < length u -> In x u.
Proof.
  induction u as [|y r IH]; cbn; [lia|]. destruct (name_eqb x y) eqn:E.
  - apply CP_name_eqb_eq in E. auto.
  - intros H. right. apply IH. lia.
Qed.

Lemma BN_index_of_inj x y u : In x u -> index_of x u = index_of y u -> x = y.
Proof.
  intros H E. pose proof (BN_index_of_nth x u H) as N.
  assert (Hy : In y u).
  { apply BN_index_of_lt_in. rewrite <- E. apply nth_error_Some. congruence. }
  pose proof (BN_index_of_nth y u Hy) as N'. rewrite <- E in N'. congruence.
Qed.

Lemma BN_index_of_pos u : forall y x, NoDup u -> nth_error u y = Some x -> index_of x u = y.
Proof.
  induction u as [|z r IH]; intros y x N H; [destruct y; discriminate|].
  inversion N as [|? ? Nz Nr]; subst. destruct y as [|y]; cbn in H |- *.
  - injection H as ->. rewrite CP_name_eqb_refl. reflexivity.
  - destruct (name_eqb x z) eqn:E.
    + apply CP_name_eqb_eq in E. subst. exfalso. apply Nz. eapply nth_error_In. exact H.
    + f_equal. apply IH; assumption.
Qed.

Definition inj_at (f : name -> nat) (k : name) : Prop := forall b, f k = f b -> k = b.

Lemma BN_ndget_in k (d : cdict) : In k (map fst d) -> In (ndget k d) (map snd d).
Proof.
  intros H. apply BN_find_key_in in H. destruct H as [p H]. unfold ndget. fold (@keyis name k). rewrite H.
  apply BN_find_some_key in H. apply in_map. tauto.
Qed.

Section Num.
Variables (kn vn : name -> nat).
Definition curN (d : cdict) : list (nat * nat) := map (fun q => (kn (fst q), vn (snd q))) d.
Definition perN (d : pdict) : list (nat * list nat) := map (fun q => (kn (fst q), map vn (snd q))) d.

Lemma BN_find_num {V W} (g : V -> W) k (d : list (name * V)) : inj_at kn k ->
  find (fun p => Nat.eqb (fst p) (kn k)) (map (fun q => (kn (fst q), g (snd q))) d)
  = option_map (fun q => (kn (fst q), g (snd q))) (find (keyis k) d).
Proof.
  intros I. induction d as [|q d IH]; cbn [map find]; [reflexivity|]. cbn [fst]. unfold keyis at 1.
  destruct (name_eqb (fst q) k) eqn:E.
  - apply CP_name_eqb_eq in E. assert (E2 : Nat.eqb (kn (fst q)) (kn k) = true) by (apply Nat.eqb_eq; congruence).
    rewrite E2. reflexivity.
  - apply CP_name_eqb_neq in E. destruct (Nat.eqb (kn (fst q)) (kn k)) eqn:E'; [|exact IH].
    apply Nat.eqb_eq in E'. exfalso. apply E. symmetry. apply I. congruence.
Qed.

Lemma BN_num_dget k L : inj_at kn k -> In k (map fst L) -> dget (kn k) (curN L) = vn (ndget k L).
Proof.
  intros I H. unfold dget, curN. rewrite (BN_find_num vn k L I). unfold ndget. fold (@keyis name k).
  apply BN_find_key_in in H. destruct H as [p ->]. reflexivity.
Qed.

Lemma BN_num_lget k P : inj_at kn k -> lget (kn k) (perN P) = map vn (nlget k P).
Proof.
  intros I. unfold lget, perN. rewrite (BN_find_num (map vn) k P I). unfold nlget. fold (@keyis (list name) k).
  destruct (find (keyis k) P); reflexivity.
Qed.

Lemma BN_num_key k L : inj_at kn k -> (In (kn k) (map fst (curN L)) <-> In k (map fst L)).
Proof.
  intros I. unfold curN. rewrite map_map. cbn [fst]. rewrite in_map_iff. split.
  - intros [q [E H]]. symmetry in E. apply I in E. subst k. apply in_map. exact H.
  - intros H. apply in_map_iff in H. destruct H as [q [<- H]]. exists q. auto.
Qed.

Lemma BN_num_test k L P : inj_at kn k -> In k (map fst L) -> inj_at vn (ndget k L) ->
  (~ In (dget (kn k) (curN L)) (lget (kn k) (perN P)) <-> ~ In (ndget k L) (nlget k P)).
Proof.
  intros I H Iv. rewrite (BN_num_dget k L I H), (BN_num_lget k P I), in_map_iff. split.
  - intros N H'. apply N. exists (ndget k L). auto.
  - intros N [b [E H']]. apply N. symmetry in E. apply Iv in E. subst b. exact H'.
Qed.

Lemma BN_num_diff L P k : inj_at kn k -> (In k (map fst L) -> inj_at vn (ndget k L)) ->
  (In (kn k) (diff (curN L) (perN P)) <-> In k (ndiff L P)).
Proof.
  intros I Iv. rewrite diff_spec, diff_test_spec, BN_ndiff_spec, (BN_num_key k L I). split.
  - intros [H N]. split; [exact H|]. apply (BN_num_test k L P I H (Iv H)). exact N.
  - intros [H N]. split; [exact H|]. apply (BN_num_test k L P I H (Iv H)). exact N.
Qed.

Lemma BN_num_diff_ex L P y : (forall k, In k (map fst L) -> inj_at kn k /\ inj_at vn (ndget k L)) ->
  (In y (diff (curN L) (perN P)) <-> exists k, In k (ndiff L P) /\ y = kn k).
Proof.
  intros I. split.
  - intros H. assert (K : In y (map fst (curN L))) by (apply diff_spec in H; tauto).
    unfold curN in K. rewrite map_map in K. cbn [fst] in K. apply in_map_iff in K. destruct K as [q [<- K]].
    assert (K' : In (fst q) (map fst L)) by (apply in_map; exact K).
    exists (fst q). split; [|reflexivity]. destruct (I _ K') as [I1 I2].
    apply (BN_num_diff L P (fst q) I1 (fun _ => I2)). exact H.
  - intros [k [H ->]]. assert (K : In k (map fst L)) by (apply BN_ndiff_spec in H; tauto).
    destruct (I _ K) as [I1 I2]. apply (BN_num_diff L P k I1 (fun _ => I2)). exact H.
Qed.
End Num.

Lemma BN_owner_num (kn : name -> nat) (f : name -> nat) (l : cdict) k : inj_at kn k -> In k (map fst l) ->
  owner (map (fun q => (kn (fst q), f (fst q))) l) (kn k) = [f k].
Proof.
  intros I H.
  assert (E : owner (map (fun q : name * name => (kn (fst q), f (fst q))) l) (kn k)
              = match find (keyis k) l with Some q => [f (fst q)] | None => [] end).
  { clear H. unfold owner. induction l as [|q l IH]; cbn [map find]; [reflexivity|]. cbn [fst]. unfold keyis at 1.
    destruct (name_eqb (fst q) k) eqn:E.
    - apply CP_name_eqb_eq in E. assert (E2 : Nat.eqb (kn (fst q)) (kn k) = true) by (apply Nat.eqb_eq; congruence).
      rewrite E2. reflexivity.
    - apply CP_name_eqb_neq in E. destruct (Nat.eqb (kn (fst q)) (kn k)) eqn:E'; [|exact IH].
      apply Nat.eqb_eq in E'. exfalso. apply E. symmetry. apply I. congruence. }
  rewrite E. apply BN_find_key_in in H. destruct H as [p H]. rewrite H.
  apply BN_find_some_key in H. destruct H as [-> _]. reflexivity.
Qed.

(* the name-level build and the id-level tables T of Model/Build.v select the same
   nodes: tags without duplicates (a dictionary keyed by tag); algorithm-level names
   are their own 'task.alg' prefix (names without dots) *)
Theorem BN_refines_tables tags e p y :
  NoDup tags -> y < length tags ->
  (forall k, In k (map fst (fst (fst (current e)))) -> alg_of k = k) ->
  (In y (nodes_changed tags e p) <-> In y (changed_of (tables_of tags e p))).
Proof.
  intros Nd Hy Hl0. destruct (nth_error tags y) as [x|] eqn:Ex; [|apply nth_error_None in Ex; lia].
  assert (Hx : In x tags) by (eapply nth_error_In; exact Ex).
  assert (Ix : inj_at (fun n => index_of n tags) x) by (intros b E; eapply BN_index_of_inj; eassumption).
  assert (Ey : index_of x tags = y) by (apply BN_index_of_pos; assumption).
  unfold nodes_changed. rewrite in_flat_map.
  assert (L : forall tn, In y (locate_all tags tn) <-> tn = x).
  { intros tn. rewrite BN_locate_all, Ex. split; congruence. }
  rewrite BN_names_changed_unfold. unfold tables_of, current in *. destruct p as [[[ts p1] p2] p3].
  cbn [fst p_alg p_sv p_val] in *.
  set (l0 := first_wins (alg_items e)) in *. set (l1 := first_wins (sv_items e)) in *.
  set (l2 := first_wins (val_items e)) in *.
  set (vu := map snd l0 ++ map snd l1 ++ map snd l2 ++ flat_map snd p1 ++ flat_map snd p2 ++ flat_map snd p3).
  set (u1 := keys_c l1 ++ keys_p p2). set (u2 := keys_c l2 ++ keys_p p3).
  set (vn := fun s => index_of s vu). set (nid := fun x => index_of x tags) in *.
  set (k1 := fun x => index_of x u1). set (k2 := fun x => index_of x u2).
  assert (Iv0 : forall k, In k (map fst l0) -> inj_at vn (ndget k l0)).
  { intros k H b E. eapply BN_index_of_inj; [|exact E]. unfold vu. apply in_or_app. left. apply BN_ndget_in. exact H. }
  assert (I1 : forall k, In k (map fst l1) -> inj_at k1 k /\ inj_at vn (ndget k l1)).
  { intros k H. split; intros b E; (eapply BN_index_of_inj; [|exact E]).
    - unfold u1. apply in_or_app. left. exact H.
    - unfold vu. apply in_or_app. right. apply in_or_app. left. apply BN_ndget_in. exact H. }
  assert (I2 : forall k, In k (map fst l2) -> inj_at k2 k /\ inj_at vn (ndget k l2)).
  { intros k H. split; intros b E; (eapply BN_index_of_inj; [|exact E]).
    - unfold u2. apply in_or_app. left. exact H.
    - unfold vu. do 2 (apply in_or_app; right). apply in_or_app. left. apply BN_ndget_in. exact H. }
  assert (Nth : forall k, nid (alg_of k) = y <-> alg_of k = x).
  { intros k. split.
    - intros E. assert (Hin : In (alg_of k) tags) by (apply BN_index_of_lt_in; unfold nid in E; lia).
      pose proof (BN_index_of_nth _ _ Hin) as N. unfold nid in E. rewrite E, Ex in N. congruence.
    - intros ->. exact Ey. }
  unfold changed_of. cbn [cur_alg per_alg cur_sv per_sv cur_v per_v own_sv own_v].
  change (map (fun q : name * name => (nid (fst q), vn (snd q))) l0) with (curN nid vn l0).
  change (map (fun q : name * list name => (nid (fst q), map vn (snd q))) p1) with (perN nid vn p1).
  change (map (fun q : name * name => (k1 (fst q), vn (snd q))) l1) with (curN k1 vn l1).
  change (map (fun q : name * list name => (k1 (fst q), map vn (snd q))) p2) with (perN k1 vn p2).
  change (map (fun q : name * name => (k2 (fst q), vn (snd q))) l2) with (curN k2 vn l2).
  change (map (fun q : name * list name => (k2 (fst q), map vn (snd q))) p3) with (perN k2 vn p3).
  rewrite !in_app_iff, !in_flat_map. unfold changed_names.
  assert (A0 : In y (diff (curN nid vn l0) (perN nid vn p1)) <-> In x (ndiff l0 p1)).
  { rewrite <- Ey. apply (BN_num_diff nid vn l0 p1 x Ix). apply Iv0. }
  assert (A1 : (exists kid, In kid (diff (curN k1 vn l1) (perN k1 vn p2)) /\
                 In y (owner (map (fun q : name * name => (k1 (fst q), nid (alg_of (fst q)))) l1) kid))
               <-> exists k, In k (ndiff l1 p2) /\ alg_of k = x).
  { split.
    - intros (kid & H & O). apply (BN_num_diff_ex k1 vn l1 p2 kid I1) in H. destruct H as (k & H & ->).
      assert (K : In k (map fst l1)) by (apply BN_ndiff_spec in H; tauto).
      rewrite (BN_owner_num k1 (fun n => nid (alg_of n)) l1 k (proj1 (I1 k K)) K) in O.
      destruct O as [O|[]]. exists k. split; [exact H|]. apply Nth. exact O.
    - intros (k & H & E). assert (K : In k (map fst l1)) by (apply BN_ndiff_spec in H; tauto).
      exists (k1 k). split; [apply (BN_num_diff_ex k1 vn l1 p2 (k1 k) I1); eauto|].
      rewrite (BN_owner_num k1 (fun n => nid (alg_of n)) l1 k (proj1 (I1 k K)) K). left. apply Nth. exact E. }
  assert (A2 : (exists kid, In kid (diff (curN k2 vn l2) (perN k2 vn p3)) /\
                 In y (owner (map (fun q : name * name => (k2 (fst q), nid (alg_of (fst q)))) l2) kid))
               <-> exists k, In k (ndiff l2 p3) /\ alg_of k = x).
  { split.
    - intros (kid & H & O). apply (BN_num_diff_ex k2 vn l2 p3 kid I2) in H. destruct H as (k & H & ->).
      assert (K : In k (map fst l2)) by (apply BN_ndiff_spec in H; tauto).
      rewrite (BN_owner_num k2 (fun n => nid (alg_of n)) l2 k (proj1 (I2 k K)) K) in O.
      destruct O as [O|[]]. exists k. split; [exact H|]. apply Nth. exact O.
    - intros (k & H & E). assert (K : In k (map fst l2)) by (apply BN_ndiff_spec in H; tauto).
      exists (k2 k). split; [apply (BN_num_diff_ex k2 vn l2 p3 (k2 k) I2); eauto|].
      rewrite (BN_owner_num k2 (fun n => nid (alg_of n)) l2 k (proj1 (I2 k K)) K). left. apply Nth. exact E. }
  enough (G : (exists tn, In tn (map alg_of (ndiff l0 p1 ++ ndiff l1 p2 ++ ndiff l2 p3)) /\ In y (locate_all tags tn)) <->
              In y (diff (curN nid vn l0) (perN nid vn p1)) \/
              (exists kid, In kid (diff (curN k1 vn l1) (perN k1 vn p2)) /\
                 In y (owner (map (fun q : name * name => (k1 (fst q), nid (alg_of (fst q)))) l1) kid)) \/
              (exists kid, In kid (diff (curN k2 vn l2) (perN k2 vn p3)) /\
                 In y (owner (map (fun q : name * name => (k2 (fst q), nid (alg_of (fst q)))) l2) kid)))
    by exact G.
  rewrite A0, A1, A2. split.
  - intros (tn & H & Lc). apply L in Lc. subst tn. apply in_map_iff in H. destruct H as (item & E & H).
    rewrite !in_app_iff in H. destruct H as [H|[H|H]].
    + left. assert (K : In item (map fst l0)) by (apply BN_ndiff_spec in H; tauto).
      rewrite (Hl0 _ K) in E. subst item. exact H.
    + right. left. eauto.
    + right. right. eauto.
  - intros [H|[(k & H & E)|(k & H & E)]].
    + exists x. split; [|apply L; reflexivity]. apply in_map_iff. exists x. split.
      * apply Hl0. apply BN_ndiff_spec in H. tauto.
      * rewrite !in_app_iff. auto.
    + exists x. split; [|apply L; reflexivity]. apply in_map_iff. exists k. rewrite !in_app_iff. auto.
    + exists x. split; [|apply L; reflexivity]. apply in_map_iff. exists k. rewrite !in_app_iff. auto.
Qed.

(* hence build() on names and build_versions on the tables agree on every node *)
Corollary BN_refines_build c tags e ct p hint s :
  persisted ct = Some p -> NoDup tags -> length tags = nnodes c ->
  (forall k, In k (map fst (fst (fst (current e)))) -> alg_of k = k) ->
  exists s', build_names c tags e ct hint s = Some s' /\
    let s2 := build_versions c (tables_of tags e p) hint s in
    (forall y t, In t (todo (getn (ns s') y)) <-> In t (todo (getn (ns s2) y))) /\
    (forall z, In z (que s') <-> In z (que s2)).
Proof.
  intros Ep Nd Len Hl0. unfold build_names. rewrite Ep. eexists. split; [reflexivity|].
  unfold build_versions.
  destruct (build_exact c (reorder hint (nodes_changed tags e p)) s) as (_ & A & _ & C).
  destruct (build_exact c (reorder hint (changed_of (tables_of tags e p))) s) as (_ & A' & _ & C').
  split.
  - intros y t. rewrite A, A', !reorder_In. split; intros (H1 & H2 & H3); (split; [|auto]);
      apply (BN_refines_tables tags e p y Nd ltac:(lia) Hl0); exact H1.
  - intros z. rewrite C, C', !reorder_In. split; intros (H1 & H2); (split; [|auto]);
      apply (BN_refines_tables tags e p z Nd ltac:(lia) Hl0); exact H1.
Qed.

(* the side condition holds for engines whose names have no dots *)
Lemma BN_alg_keys_own e : wf_engine e ->
  forall k, In k (map fst (fst (fst (current e)))) -> alg_of k = k.
Proof.
  intros W k H. unfold current in H. cbn [fst] in H. apply (proj1 (BN_first_wins_keys _ _)) in H.
  apply in_map_iff in H. destruct H as [[k' v] [E H]]. cbn in E. subst k'.
  apply BN_alg_items_in in H. destruct H as (tk & a & H1 & H2 & -> & _).
  destruct (proj2 W tk a H1 H2) as (D1 & D2 & _). apply BN_alg_of_2; assumption.
Qed.
