(* Proofs/CatalogueProofs.v -- lemmas about the catalogue model (C08, shared
   with C06): decimal strings, construct is injective, table/index bijection,
   exactness of subset() and of the prime-key prefixes. *)
From Coq Require Import Decimal DecimalNat DecimalZ.
From Coq Require Import List Arith ZArith Bool Lia.
From DV Require Import Model.Catalogue.
Import ListNotations.

(* ===== A. lists of code points ============================================ *)

Lemma CP_name_eqb_eq : forall a b, name_eqb a b = true <-> a = b.
Proof.
  induction a as [|x a IH]; destruct b as [|y b]; cbn; try (split; congruence).
  rewrite andb_true_iff, Nat.eqb_eq, IH. split.
  - intros [-> ->]. reflexivity.
  - intros [= -> ->]. auto.
Qed.

Lemma CP_name_eqb_refl : forall a, name_eqb a a = true.
Proof. intros a. now apply CP_name_eqb_eq. Qed.

Lemma CP_name_eqb_neq : forall a b, name_eqb a b = false <-> a <> b.
Proof.
  intros a b. rewrite <- CP_name_eqb_eq. destruct (name_eqb a b); split; congruence.
Qed.

Lemma CP_prefixb_iff : forall p s, prefixb p s = true <-> exists r, s = p ++ r.
Proof.
  induction p as [|x p IH]; intros s; cbn.
  - split; [eauto|auto].
  - destruct s as [|y s].
    + split; [discriminate|]. intros [r Hr]. discriminate.
    + rewrite andb_true_iff, Nat.eqb_eq, IH. split.
      * intros [-> [r ->]]. eauto.
      * intros [r [= -> ->]]. eauto.
Qed.

(* the first / the last occurrence of a character delimits *)
Lemma CP_split_first : forall (x : nat) l1 l2 r1 r2,
  ~ In x l1 -> ~ In x l2 -> l1 ++ x :: r1 = l2 ++ x :: r2 -> l1 = l2 /\ r1 = r2.
Proof.
  intros x. induction l1 as [|a l1 IH]; intros [|b l2] r1 r2 H1 H2 E; cbn in *.
  - injection E as ->. auto.
  - injection E as -> _. tauto.
  - injection E as -> _. tauto.
  - injection E as -> E. destruct (IH l2 r1 r2) as [-> ->]; auto.
Qed.

Lemma CP_split_last : forall (x : nat) l1 l2 r1 r2,
  ~ In x r1 -> ~ In x r2 -> l1 ++ x :: r1 = l2 ++ x :: r2 -> l1 = l2 /\ r1 = r2.
Proof.
  intros x l1 l2 r1 r2 H1 H2 E.
  apply (f_equal (@rev nat)) in E. rewrite !rev_app_distr in E. cbn in E.
  rewrite <- !app_assoc in E. cbn in E.
  apply CP_split_first in E; try (rewrite <- in_rev; assumption).
  destruct E as [E1 E2].
  apply (f_equal (@rev nat)) in E1, E2. rewrite !rev_involutive in E1, E2. auto.
Qed.

(* ===== B. decimal strings =================================================== *)

Definition isdigit (c : nat) : Prop := 48 <= c <= 57.

Lemma CP_uint_digits : forall d, Forall isdigit (uint_codes d).
Proof. induction d; cbn; constructor; auto; unfold isdigit; lia. Qed.

Lemma CP_uint_inj : forall d d', uint_codes d = uint_codes d' -> d = d'.
Proof.
  induction d; destruct d'; cbn; intros E; try discriminate; try reflexivity;
    injection E as E; f_equal; auto.
Qed.

Lemma CP_dec_nat_digits : forall n, Forall isdigit (dec_nat n).
Proof. intros n. apply CP_uint_digits. Qed.

Lemma CP_dec_nat_inj : forall n m, dec_nat n = dec_nat m -> n = m.
Proof.
  intros n m E. apply CP_uint_inj in E.
  rewrite <- (DecimalNat.Unsigned.of_to n), <- (DecimalNat.Unsigned.of_to m).
  now rewrite E.
Qed.

Definition isnum (c : nat) : Prop := c = 45 \/ isdigit c.

Lemma CP_dec_Z_num : forall z, Forall isnum (dec_Z z).
Proof.
  intros z. unfold dec_Z. destruct (Z.to_int z) as [d|d].
  - eapply Forall_impl; [|apply CP_uint_digits]. intros c H. now right.
  - constructor; [now left|]. eapply Forall_impl; [|apply CP_uint_digits].
    intros c H. now right.
Qed.

Lemma CP_dec_Z_inj : forall a b, dec_Z a = dec_Z b -> a = b.
Proof.
  intros a b E. unfold dec_Z in E.
  rewrite <- (DecimalZ.of_to a), <- (DecimalZ.of_to b).
  destruct (Z.to_int a) as [d|d] eqn:Ea, (Z.to_int b) as [d'|d'] eqn:Eb.
  - apply CP_uint_inj in E. now subst.
  - exfalso. pose proof (CP_uint_digits d) as H. rewrite E in H.
    inversion H as [|? ? H1 _]. unfold isdigit in H1. lia.
  - exfalso. pose proof (CP_uint_digits d') as H. rewrite <- E in H.
    inversion H as [|? ? H1 _]. unfold isdigit in H1. lia.
  - injection E as E. apply CP_uint_inj in E. now subst.
Qed.

Lemma CP_notin_digits : forall x l, Forall isdigit l -> ~ isdigit x -> ~ In x l.
Proof. intros x l H Hx Hin. rewrite Forall_forall in H. apply Hx. auto. Qed.

Lemma CP_notin_num : forall x l, Forall isnum l -> ~ isnum x -> ~ In x l.
Proof. intros x l H Hx Hin. rewrite Forall_forall in H. apply Hx. auto. Qed.

Lemma CP_not_isnum : forall x, x <> 45 -> (x < 48 \/ 57 < x) -> ~ isnum x.
Proof. intros x H1 H2 [H|H]; [congruence|]. unfold isdigit in H. lia. Qed.

Definition isverch (c : nat) : Prop := c = 46 \/ isnum c.

Lemma CP_ver_str_chars : forall v, Forall isverch (ver_str v).
Proof.
  intros [[d i] b]. unfold ver_str.
  assert (Hn : forall z, Forall isverch (dec_Z z)).
  { intros z. eapply Forall_impl; [|apply CP_dec_Z_num]. intros c H. now right. }
  assert (Hd : Forall isverch [46]) by (constructor; [now left|constructor]).
  repeat (apply Forall_app; split); auto.
Qed.

Lemma CP_ver_no_colon : forall v, ~ In 58 (ver_str v).
Proof.
  intros v Hin. pose proof (CP_ver_str_chars v) as H. rewrite Forall_forall in H.
  destruct (H _ Hin) as [E|[E|E]]; try discriminate. unfold isdigit in E. lia.
Qed.

Lemma CP_ver_str_inj : forall v w, ver_str v = ver_str w -> v = w.
Proof.
  intros [[d i] b] [[d' i'] b'] E. unfold ver_str in E. cbn [app] in E.
  assert (N46 : forall z, ~ In 46 (dec_Z z)).
  { intros z. apply CP_notin_num; [apply CP_dec_Z_num|]. apply CP_not_isnum; lia. }
  apply CP_split_first in E; auto. destruct E as [E1 E].
  apply CP_split_first in E; auto. destruct E as [E2 E3].
  apply CP_dec_Z_inj in E1, E2, E3. now subst.
Qed.

(* ===== C. construct is injective ============================================ *)

Definition plain (n : name) : Prop := ~ In 58 n.

Definition SEP_V' : name := [95; 95; 95; 118; 101; 114; 115; 105; 111; 110].
Definition SEP_P' : name := [112; 97; 114; 101; 110; 116; 95; 95; 95].

Lemma CP_sepv : SEP_V = SEP_V' ++ [58]. Proof. reflexivity. Qed.
Lemma CP_sepp : SEP_P = 58 :: SEP_P'. Proof. reflexivity. Qed.
Lemma CP_sepv'_plain : ~ In 58 SEP_V'.
Proof. cbn. intuition discriminate. Qed.

Lemma CP_dec_nat_no_colon : forall p, ~ In 58 (dec_nat p).
Proof.
  intros p. apply CP_notin_digits; [apply CP_dec_nat_digits|]. unfold isdigit. lia.
Qed.

(* parent + version form: injective for ALL names *)
Lemma CP_construct_inj : forall n p v n' p' v',
  construct n (Some p) (Some v) = construct n' (Some p') (Some v') ->
  n = n' /\ p = p' /\ v = v'.
Proof.
  intros n p v n' p' v' E. unfold construct in E.
  rewrite CP_sepp in E. rewrite <- !app_assoc in E. cbn [app] in E.
  apply CP_split_first in E; try apply CP_dec_nat_no_colon.
  destruct E as [Ep E]. apply CP_dec_nat_inj in Ep.
  rewrite CP_sepv in E. rewrite !app_assoc in E.
  rewrite <- !(app_assoc _ [58]) in E. cbn [app] in E.
  apply CP_split_last in E; try apply CP_ver_no_colon.
  destruct E as [E Ev]. apply CP_ver_str_inj in Ev.
  rewrite <- !app_assoc in E. apply app_inv_head in E. apply app_inv_tail in E.
  auto.
Qed.

Lemma CP_construct_plain : forall n, construct n None None = n.
Proof. reflexivity. Qed.

(* ===== D. exactness of the match used by subset() =========================== *)

Definition smatch (n : name) (parent : nat) (key : name) : bool :=
  let sn := construct n (Some parent) None in
  name_eqb key sn || prefixb (sn ++ SEP_V) key.

Lemma CP_smatch_exact : forall n p n' p' v',
  plain n -> plain n' ->
  (smatch n p (construct n' (Some p') (Some v')) = true <-> p = p' /\ n = n').
Proof.
  intros n p n' p' v' Hn Hn'. unfold smatch, construct.
  rewrite orb_true_iff, CP_name_eqb_eq, CP_prefixb_iff. split.
  - intros [E|[r E]].
    + (* equality is impossible: the key carries a version, the surname not *)
      exfalso. rewrite CP_sepp in E. rewrite <- !app_assoc in E. cbn [app] in E.
      apply CP_split_first in E; try apply CP_dec_nat_no_colon.
      destruct E as [_ E]. apply app_inv_head in E.
      apply Hn. rewrite <- E. rewrite CP_sepv. rewrite !in_app_iff. right. left.
      right. now left.
    + rewrite CP_sepp in E. rewrite <- !app_assoc in E. cbn [app] in E.
      apply CP_split_first in E; try apply CP_dec_nat_no_colon.
      destruct E as [Ep E]. apply CP_dec_nat_inj in Ep. apply app_inv_head in E.
      rewrite CP_sepv in E. rewrite <- !app_assoc in E. cbn [app] in E.
      rewrite !app_assoc in E.
      apply CP_split_first in E.
      * destruct E as [E _]. apply app_inv_tail in E. auto.
      * rewrite in_app_iff. intros [H|H]; [now apply Hn'|now apply CP_sepv'_plain].
      * rewrite in_app_iff. intros [H|H]; [now apply Hn|now apply CP_sepv'_plain].
  - intros [-> ->]. right. exists (ver_str v'). rewrite <- !app_assoc. reflexivity.
Qed.

(* the pre-fix match (startswith surname) is NOT exact *)
Definition smatch_old (n : name) (parent : nat) (key : name) : bool :=
  prefixb (construct n (Some parent) None) key.

Lemma CP_smatch_old_inexact :
  smatch_old s_alg 0 (construct s_alg2 (Some 0) (Some (1, 0, 0)%Z)) = true.
Proof. vm_compute. reflexivity. Qed.

(* ===== E. table / index bijection =========================================== *)

Definition I_tab (t : tbl) (i : idx) : Prop :=
  t = combine i (seq 0 (length i)) /\ NoDup i.

Lemma CP_alookup_combine : forall i k nm x, NoDup i ->
  (alookup nm (combine i (seq k (length i))) = Some x
   <-> exists j, x = k + j /\ nth_error i j = Some nm).
Proof.
  induction i as [|a i IH]; intros k nm x Hnd; cbn.
  - split; [discriminate|]. intros [j [_ H]]. destruct j; discriminate.
  - inversion Hnd as [|? ? Ha Hnd']; subst.
    destruct (name_eqb nm a) eqn:E.
    + apply CP_name_eqb_eq in E. subst a. split.
      * intros [= <-]. exists 0. split; [lia|reflexivity].
      * intros [[|j] [-> H]]; [f_equal; lia|]. cbn in H.
        apply nth_error_In in H. tauto.
    + apply CP_name_eqb_neq in E. rewrite (IH (S k) nm x Hnd'). split.
      * intros [j [-> H]]. exists (S j). split; [lia|exact H].
      * intros [[|j] [-> H]]; cbn in H; [congruence|]. exists j. split; [lia|exact H].
Qed.

Lemma CP_lookup_index : forall t i nm x, I_tab t i ->
  (alookup nm t = Some x <-> nth_error i x = Some nm).
Proof.
  intros t i nm x [-> Hnd]. rewrite CP_alookup_combine by exact Hnd. split.
  - intros [j [-> H]]. exact H.
  - intros H. exists x. auto.
Qed.

Lemma CP_alookup_none : forall nm t, alookup nm t = None <-> ~ In nm (map fst t).
Proof.
  intros nm t. induction t as [|[k x] t IH]; cbn; [tauto|].
  destruct (name_eqb nm k) eqn:E.
  - apply CP_name_eqb_eq in E. subst. split; [discriminate|tauto].
  - apply CP_name_eqb_neq in E. rewrite IH. split; [intros H [H1|H1]; congruence || tauto|tauto].
Qed.

Lemma CP_alookup_in : forall nm t x, alookup nm t = Some x -> In (nm, x) t.
Proof.
  intros nm t x. induction t as [|[k y] t IH]; cbn; [discriminate|].
  destruct (name_eqb nm k) eqn:E.
  - apply CP_name_eqb_eq in E. subst. intros [= ->]. now left.
  - intros H. right. auto.
Qed.

Lemma CP_map_fst_combine : forall (i : idx) k, map fst (combine i (seq k (length i))) = i.
Proof. induction i as [|a i IH]; intros k; cbn; [reflexivity|]. now rewrite IH. Qed.

Lemma CP_map_snd_combine : forall (i : idx) k,
  map snd (combine i (seq k (length i))) = seq k (length i).
Proof. induction i as [|a i IH]; intros k; cbn; [reflexivity|]. now rewrite IH. Qed.

Lemma CP_combine_snoc : forall (i : idx) k nm,
  combine (i ++ [nm]) (seq k (length (i ++ [nm])))
  = combine i (seq k (length i)) ++ [(nm, k + length i)].
Proof.
  induction i as [|a i IH]; intros k nm; cbn.
  - now rewrite Nat.add_0_r.
  - rewrite IH, Nat.add_succ_r. reflexivity.
Qed.

Lemma CP_tab0 : I_tab [] [].
Proof. split; [reflexivity|constructor]. Qed.

(* util.append keeps the bijection, never reassigns, returns the id of the name *)
Lemma CP_append : forall n t i p v t' i' x nm,
  I_tab t i -> append n t i p v = (t', i', x, nm) ->
  I_tab t' i' /\ (exists l, i' = i ++ l) /\ nm = construct n p v /\
  nth_error i' x = Some nm /\ alookup nm t' = Some x.
Proof.
  intros n t i p v t' i' x nm Hi H. unfold append in H.
  destruct (alookup (construct n p v) t) as [y|] eqn:E.
  - injection H as <- <- <- <-. split; [exact Hi|]. split; [exists []; now rewrite app_nil_r|].
    split; [reflexivity|]. split; [|exact E]. now apply (CP_lookup_index t i).
  - injection H as <- <- <- <-. destruct Hi as [Ht Hnd].
    assert (Hnot : ~ In (construct n p v) i).
    { apply CP_alookup_none in E. rewrite Ht, CP_map_fst_combine in E. exact E. }
    assert (Hi' : I_tab (t ++ [(construct n p v, length i)]) (i ++ [construct n p v])).
    { split.
      - rewrite CP_combine_snoc. cbn. now rewrite <- Ht.
      - clear -Hnd Hnot. induction Hnd as [|a l Ha Hnd IH]; cbn.
        + constructor; [tauto|constructor].
        + constructor.
          * rewrite in_app_iff. cbn. intros [H|[H|[]]]; [tauto|]. subst. apply Hnot. now left.
          * apply IH. intros H. apply Hnot. now right. }
    split; [exact Hi'|]. split; [eauto|]. split; [reflexivity|].
    assert (Hn : nth_error (i ++ [construct n p v]) (length i) = Some (construct n p v)).
    { rewrite nth_error_app2 by lia. now rewrite Nat.sub_diag. }
    split; [exact Hn|]. now apply (CP_lookup_index _ _ _ _ Hi').
Qed.

(* DBI.close / DBI.open: indexed(table) is the index that was dropped *)
Lemma CP_ssort_sorted : forall (i : idx) k,
  ssort (fun a b : name * nat => Nat.leb (snd a) (snd b)) (combine i (seq k (length i)))
  = combine i (seq k (length i)).
Proof.
  induction i as [|a i IH]; intros k; cbn; [reflexivity|].
  rewrite IH. destruct i as [|b i]; cbn; [reflexivity|].
  destruct (Nat.leb_spec k (S k)); [reflexivity|lia].
Qed.

Lemma CP_indexed : forall t i, I_tab t i -> indexed t = i.
Proof.
  intros t i [-> _]. unfold indexed. rewrite CP_ssort_sorted. apply CP_map_fst_combine.
Qed.

Lemma CP_ids_gap_free : forall t i, I_tab t i -> map snd t = seq 0 (length i).
Proof. intros t i [-> _]. apply CP_map_snd_combine. Qed.

Lemma CP_keys_nodup : forall t i, I_tab t i -> NoDup (map fst t).
Proof. intros t i [-> H]. now rewrite CP_map_fst_combine. Qed.

Lemma CP_in_lookup : forall t i nm x, I_tab t i -> (In (nm, x) t <-> alookup nm t = Some x).
Proof.
  intros t i nm x Hi. split; [|apply CP_alookup_in].
  intros Hin. pose proof (CP_keys_nodup _ _ Hi) as Hnd. clear Hi.
  induction t as [|[k y] t IH]; cbn in *; [tauto|].
  inversion Hnd as [|? ? Hk Hnd']; subst.
  destruct Hin as [[= -> ->]|Hin].
  - now rewrite CP_name_eqb_refl.
  - destruct (name_eqb nm k) eqn:E; [|auto].
    apply CP_name_eqb_eq in E. subst. exfalso. apply Hk.
    apply in_map_iff. exists (k, x). auto.
Qed.

(* ===== F. subset(): membership ============================================== *)

Definition functional (t : tbl) : Prop :=
  forall k x y, In (k, x) t -> In (k, y) t -> x = y.

Lemma CP_functional_tab : forall t i, I_tab t i -> functional t.
Proof.
  intros t i Hi k x y Hx Hy.
  apply (CP_in_lookup _ _ _ _ Hi) in Hx, Hy. congruence.
Qed.

Lemma CP_tset_in : forall k x r e,
  (forall y, In (k, y) r -> y = x) ->
  (In e (tset k x r) <-> In e r \/ e = (k, x)).
Proof.
  intros k x r e. induction r as [|[k' y] r IH]; cbn; intros Hf.
  - intuition.
  - destruct (name_eqb k k') eqn:E.
    + apply CP_name_eqb_eq in E. subst k'. assert (y = x) by (apply Hf; now left). subst y.
      cbn. intuition.
    + cbn. rewrite IH by (intros z Hz; apply Hf; now right). intuition.
Qed.

Lemma CP_tupdate_in : forall l res e,
  functional (res ++ l) -> (In e (tupdate res l) <-> In e res \/ In e l).
Proof.
  unfold tupdate. induction l as [|[k x] l IH]; intros res e Hf; cbn.
  - tauto.
  - rewrite IH.
    + rewrite CP_tset_in.
      * cbn. intuition (subst; auto).
      * intros y Hy. eapply Hf; rewrite in_app_iff; [left; exact Hy|right; now left].
    + intros k' a b Ha Hb. rewrite in_app_iff in Ha, Hb.
      assert (Hk : forall z, In (k, z) res -> z = x).
      { intros z Hz. eapply Hf; rewrite in_app_iff; [left; exact Hz|right; now left]. }
      rewrite CP_tset_in in Ha, Hb by exact Hk.
      eapply Hf; rewrite in_app_iff; cbn.
      * destruct Ha as [[Ha|Ha]|Ha]; [left; exact Ha|right; left; symmetry; exact Ha|right; right; exact Ha].
      * destruct Hb as [[Hb|Hb]|Hb]; [left; exact Hb|right; left; symmetry; exact Hb|right; right; exact Hb].
Qed.

Lemma CP_functional_sub : forall t l, functional t -> (forall e, In e l -> In e t) -> functional l.
Proof. intros t l Hf Hs k x y Hx Hy. eapply Hf; eauto. Qed.

Lemma CP_subset_in : forall t n ps k x, functional t -> ps <> [] ->
  (In (k, x) (subset t n ps)
   <-> In (k, x) t /\ exists p, In p ps /\ smatch n p k = true).
Proof.
  intros t n ps k x Hf Hne. unfold subset. destruct ps as [|p0 ps0]; [congruence|].
  clear Hne. set (ps := p0 :: ps0). clearbody ps.
  set (step := fun (res : tbl) parent =>
                 tupdate res (filter (fun e => name_eqb (fst e) (construct n (Some parent) None)
                                               || prefixb (construct n (Some parent) None ++ SEP_V) (fst e)) t)).
  assert (G : forall qs res, (forall e, In e res -> In e t) ->
     (In (k, x) (fold_left step qs res)
      <-> In (k, x) res \/ (In (k, x) t /\ exists p, In p qs /\ smatch n p k = true))).
  { induction qs as [|p ps' IH]; intros res Hres; cbn.
    - split; [auto|]. intros [H0|[_ [p [Hin _]]]]; [exact H0|destruct Hin].
    - rewrite IH.
      + unfold step. rewrite CP_tupdate_in.
        * rewrite filter_In. cbn [fst]. unfold smatch. split.
          -- intros [[H|[H1 H2]]|[H1 [p' [H2 H3]]]]; [auto| |].
             ++ right. split; [exact H1|]. exists p. split; [now left|exact H2].
             ++ right. split; [exact H1|]. exists p'. split; [now right|exact H3].
          -- intros [H|[H1 [p' [[->|H2] H3]]]]; [auto| |].
             ++ left. right. split; assumption.
             ++ right. split; [exact H1|]. exists p'. split; assumption.
        * eapply CP_functional_sub; [exact Hf|]. intros e. rewrite in_app_iff, filter_In.
          intros [H|[H _]]; auto.
      + intros e. unfold step. rewrite CP_tupdate_in.
        * rewrite filter_In. intros [H|[H _]]; auto.
        * eapply CP_functional_sub; [exact Hf|]. intros e'. rewrite in_app_iff, filter_In.
          intros [H|[H _]]; auto. }
  rewrite G by (intros e []). split; [intros [[]|H]; exact H|auto].
Qed.

(* tables whose keys all carry a parent and a version, over plain names *)
Definition shaped (t : tbl) : Prop :=
  forall k x, In (k, x) t -> exists n p v, plain n /\ k = construct n (Some p) (Some v).

Theorem CP_subset_exact : forall t n ps k x,
  functional t -> shaped t -> plain n -> ps <> [] ->
  (In (k, x) (subset t n ps)
   <-> In (k, x) t /\ exists p v, In p ps /\ k = construct n (Some p) (Some v)).
Proof.
  intros t n ps k x Hf Hs Hn Hne. rewrite CP_subset_in by assumption. split.
  - intros [Hin [p [Hp Hm]]]. split; [exact Hin|].
    destruct (Hs _ _ Hin) as (n' & p' & v' & Hn' & ->).
    apply CP_smatch_exact in Hm; auto. destruct Hm as [-> ->]. eauto.
  - intros [Hin (p & v & Hp & ->)]. split; [exact Hin|]. exists p. split; [exact Hp|].
    apply CP_smatch_exact; auto.
Qed.

(* ===== G. the prime-key prefixes "(r, t, k," and "(r, t, k, a," are exact ==== *)

Lemma CP_dec_Z_no44 : forall z, ~ In 44 (dec_Z z).
Proof. intros z. apply CP_notin_num; [apply CP_dec_Z_num|]. apply CP_not_isnum; lia. Qed.
Lemma CP_dec_nat_no44 : forall n, ~ In 44 (dec_nat n).
Proof. intros n. apply CP_notin_digits; [apply CP_dec_nat_digits|]. unfold isdigit. lia. Qed.

Ltac cp_norm E := repeat (first [rewrite <- app_assoc in E | progress cbn [app] in E]).

Lemma CP_pfx3_exact : forall r t k key,
  prefixb (pfx3 r t k) (pkey_str key) = true
  <-> pk_run key = r /\ (let '(_, t', k', _, _, _) := key in t' = t /\ k' = k).
Proof.
  intros r t k [[[[[r' t'] k'] a'] s'] v']. cbn [pk_run]. rewrite CP_prefixb_iff.
  unfold pfx3, pkey_str, COMMA. split.
  - intros [rest E]. cbn [app] in E. injection E as E.
    cp_norm E.
    apply CP_split_first in E; try apply CP_dec_Z_no44. destruct E as [Er E].
    injection E as E.
    apply CP_split_first in E; try apply CP_dec_nat_no44. destruct E as [Et E].
    injection E as E.
    apply CP_split_first in E; try apply CP_dec_nat_no44. destruct E as [Ek _].
    apply CP_dec_Z_inj in Er. apply CP_dec_nat_inj in Et, Ek. subst. auto.
  - intros [-> [-> ->]].
    exists ([32] ++ dec_nat a' ++ [44; 32] ++ dec_nat s' ++ [44; 32] ++ dec_nat v' ++ [41]).
    repeat (first [rewrite <- app_assoc | progress cbn [app]]). reflexivity.
Qed.

Lemma CP_pfx4_exact : forall r t k a key,
  prefixb (pfx4 r t k a) (pkey_str key) = true
  <-> pk_run key = r /\ (let '(_, t', k', a', _, _) := key in t' = t /\ k' = k /\ a' = a).
Proof.
  intros r t k a [[[[[r' t'] k'] a'] s'] v']. cbn [pk_run]. rewrite CP_prefixb_iff.
  unfold pfx4, pkey_str, COMMA. split.
  - intros [rest E]. cbn [app] in E. injection E as E.
    cp_norm E.
    apply CP_split_first in E; try apply CP_dec_Z_no44. destruct E as [Er E].
    injection E as E.
    apply CP_split_first in E; try apply CP_dec_nat_no44. destruct E as [Et E].
    injection E as E.
    apply CP_split_first in E; try apply CP_dec_nat_no44. destruct E as [Ek E].
    injection E as E.
    apply CP_split_first in E; try apply CP_dec_nat_no44. destruct E as [Ea _].
    apply CP_dec_Z_inj in Er. apply CP_dec_nat_inj in Et, Ek, Ea. subst. auto.
  - intros [-> [-> [-> ->]]].
    exists ([32] ++ dec_nat s' ++ [44; 32] ++ dec_nat v' ++ [41]).
    repeat (first [rewrite <- app_assoc | progress cbn [app]]). reflexivity.
Qed.

(* ===== H. next run id ========================================================= *)

Lemma CP_fold_max_ge : forall l a, (a <= fold_left Z.max l a)%Z /\
  forall x, In x l -> (x <= fold_left Z.max l a)%Z.
Proof.
  induction l as [|y l IH]; intros a; cbn.
  - split; [lia|tauto].
  - destruct (IH (Z.max a y)) as [H1 H2]. split; [lia|].
    intros x [->|Hx]; [lia|auto].
Qed.

Theorem CP_next_greater : forall c k b, In (k, b) (prime c) -> (pk_run k < next_run c)%Z.
Proof.
  intros c k b Hin. unfold next_run.
  assert (Hr : In (pk_run k) (map (fun e => pk_run (fst e)) (prime c))).
  { apply in_map_iff. exists (k, b). auto. }
  destruct (map (fun e => pk_run (fst e)) (prime c)) as [|r rs]; [destruct Hr|].
  destruct (CP_fold_max_ge rs r) as [H1 H2]. destruct Hr as [<-|Hr]; [lia|].
  specialize (H2 _ Hr). lia.
Qed.

Lemma CP_next_empty : forall c, prime c = [] -> next_run c = 1%Z.
Proof. intros c H. unfold next_run. now rewrite H. Qed.

(* ===== I. the catalogue invariant ============================================ *)

Definition tshape (x : tab) (i : idx) : Prop :=
  match x with
  | Ttarget | Ttask => Forall plain i
  | _ => forall nm, In nm i -> exists n p v, plain n /\ nm = construct n (Some p) (Some v)
  end.

Definition Iwf (c : cat) : Prop :=
  forall x, I_tab (tb c x) (ix c x) /\ tshape x (ix c x).

Definition ext (c c' : cat) : Prop := forall y, exists l, ix c' y = ix c y ++ l.

Lemma CP_ext_refl : forall c, ext c c.
Proof. intros c y. exists []. now rewrite app_nil_r. Qed.

Lemma CP_ext_trans : forall a b c, ext a b -> ext b c -> ext a c.
Proof.
  intros a b c H1 H2 y. destruct (H1 y) as [l1 E1], (H2 y) as [l2 E2].
  exists (l1 ++ l2). now rewrite E2, E1, app_assoc.
Qed.

Lemma CP_ext_nth : forall c c' y x nm,
  ext c c' -> nth_error (ix c y) x = Some nm -> nth_error (ix c' y) x = Some nm.
Proof.
  intros c c' y x nm H Hn. destruct (H y) as [l ->].
  rewrite nth_error_app1; [exact Hn|]. apply nth_error_Some. congruence.
Qed.

Lemma CP_ext_len : forall c c' y, ext c c' -> length (ix c y) <= length (ix c' y).
Proof. intros c c' y H. destruct (H y) as [l ->]. rewrite app_length. lia. Qed.

Definition chained (c : cat) (key : pkey) : Prop :=
  let '(_, t, k, a, s, v) := key in
  t < length (ix c Ttarget) /\ k < length (ix c Ttask) /\
  (exists an av, nth_error (ix c Talg) a = Some (construct an (Some k) (Some av))) /\
  (exists sn sv, nth_error (ix c Tstate) s = Some (construct sn (Some a) (Some sv))) /\
  (exists vn vv, nth_error (ix c Tvalue) v = Some (construct vn (Some s) (Some vv))).

Lemma CP_chained_ext : forall c c' key, ext c c' -> chained c key -> chained c' key.
Proof.
  intros c c' [[[[[r t] k] a] s] v] H (H1 & H2 & (an & av & H3) & (sn & sv & H4) & (vn & vv & H5)).
  repeat split.
  - pose proof (CP_ext_len _ _ Ttarget H). lia.
  - pose proof (CP_ext_len _ _ Ttask H). lia.
  - exists an, av. eapply CP_ext_nth; eauto.
  - exists sn, sv. eapply CP_ext_nth; eauto.
  - exists vn, vv. eapply CP_ext_nth; eauto.
Qed.

Definition Icat (c : cat) : Prop :=
  Iwf c /\ NoDup (map fst (prime c)) /\
  forall k b, In (k, b) (prime c) -> chained c k.

Lemma CP_Icat0 : Icat cat0.
Proof.
  split; [|split].
  - intros x. split; [destruct x; apply CP_tab0|]. destruct x; cbn; try constructor; tauto.
  - constructor.
  - intros k b [].
Qed.

Lemma CP_tb_set_same : forall c x t i, tb (set_tab c x t i) x = t /\ ix (set_tab c x t i) x = i.
Proof. intros c x t i. destruct x; auto. Qed.

Lemma CP_tb_set_other : forall c x y t i, x <> y ->
  tb (set_tab c x t i) y = tb c y /\ ix (set_tab c x t i) y = ix c y.
Proof. intros c x y t i H. destruct x, y; try congruence; auto. Qed.

Lemma SP_prime_set_tab_c : forall c x t i, prime (set_tab c x t i) = prime c.
Proof. intros c x t i; destruct x; reflexivity. Qed.

Definition okargs (x : tab) (n : name) (p : option nat) (v : option ver) : Prop :=
  plain n /\
  match x with
  | Ttarget | Ttask => p = None /\ v = None
  | _ => exists p' v', p = Some p' /\ v = Some v'
  end.

Lemma tab_eq_dec : forall x y : tab, {x = y} + {x <> y}.
Proof. decide equality. Qed.

Lemma CP_cat_append : forall c x n p v c' id,
  Iwf c -> okargs x n p v -> cat_append c x n p v = (c', id) ->
  Iwf c' /\ prime c' = prime c /\ ext c c' /\
  nth_error (ix c' x) id = Some (construct n p v) /\
  alookup (construct n p v) (tb c' x) = Some id /\
  (forall y, y <> x -> tb c' y = tb c y /\ ix c' y = ix c y).
Proof.
  intros c x n p v c' id Hw [Hpl Hok] H. unfold cat_append in H.
  destruct (append n (tb c x) (ix c x) p v) as [[[t i] id0] nm] eqn:E.
  injection H as <- <-.
  destruct (Hw x) as [Hi Hs].
  destruct (CP_append _ _ _ _ _ _ _ _ _ Hi E) as (Hi' & [l Hl] & -> & Hn & Hlk).
  destruct (CP_tb_set_same c x t i) as [Et Ei].
  split; [|split; [|split; [|split; [|split]]]].
  - intros y. destruct (tab_eq_dec x y) as [<-|Hne].
    + rewrite Et, Ei. split; [exact Hi'|].
      assert (Hin : forall nm, In nm i -> In nm (ix c x) \/ nm = construct n p v).
      { intros nm. rewrite Hl. unfold append in E.
        destruct (alookup (construct n p v) (tb c x));
          apply (f_equal (fun q => snd (fst (fst q)))) in E; cbn in E.
        - rewrite Hl in E. intros H. left. rewrite E. exact H.
        - rewrite Hl in E. apply app_inv_head in E. subst l.
          rewrite in_app_iff. cbn. intuition. }
      destruct x; cbn in Hs, Hok |- *.
      * apply Forall_forall. intros nm Hnm. destruct (Hin _ Hnm) as [H| ->].
        -- rewrite Forall_forall in Hs. auto.
        -- destruct Hok as [-> ->]. exact Hpl.
      * apply Forall_forall. intros nm Hnm. destruct (Hin _ Hnm) as [H| ->].
        -- rewrite Forall_forall in Hs. auto.
        -- destruct Hok as [-> ->]. exact Hpl.
      * intros nm Hnm. destruct (Hin _ Hnm) as [H| ->]; [auto|].
        destruct Hok as (p' & v' & -> & ->). exists n, p', v'. auto.
      * intros nm Hnm. destruct (Hin _ Hnm) as [H| ->]; [auto|].
        destruct Hok as (p' & v' & -> & ->). exists n, p', v'. auto.
      * intros nm Hnm. destruct (Hin _ Hnm) as [H| ->]; [auto|].
        destruct Hok as (p' & v' & -> & ->). exists n, p', v'. auto.
    + destruct (CP_tb_set_other c x y t i Hne) as [-> ->]. apply Hw.
  - apply SP_prime_set_tab_c.
  - intros y. destruct (tab_eq_dec x y) as [<-|Hne].
    + rewrite Ei. eauto.
    + destruct (CP_tb_set_other c x y t i Hne) as [_ ->]. exists []. now rewrite app_nil_r.
  - now rewrite Ei.
  - now rewrite Et.
  - intros y Hne. apply CP_tb_set_other. congruence.
Qed.

(* ===== J. remove() addresses exactly the entries with the given names ========= *)

Lemma CP_pkey_eqb_eq : forall a b, pkey_eqb a b = true <-> a = b.
Proof.
  intros [[[[[r t] k] a] s] v] [[[[[r' t'] k'] a'] s'] v']. cbn.
  rewrite !andb_true_iff, Z.eqb_eq, !Nat.eqb_eq. split.
  - intros [[[[[-> ->] ->] ->] ->] ->]. reflexivity.
  - intros [= -> -> -> -> -> ->]. auto 10.
Qed.

Lemma CP_pdel_keys : forall k p x, In x (map fst (pdel k p)) -> In x (map fst p).
Proof.
  intros k p x. induction p as [|[k' b'] p IH]; cbn; [tauto|].
  destruct (pkey_eqb k k'); cbn; intuition.
Qed.

Lemma CP_pdel_spec : forall k p, NoDup (map fst p) ->
  NoDup (map fst (pdel k p)) /\
  forall e, In e (pdel k p) <-> In e p /\ fst e <> k.
Proof.
  intros k p. induction p as [|[k' b'] p IH]; cbn; intros Hnd.
  - split; [constructor|]. tauto.
  - inversion Hnd as [|? ? Hk Hnd']; subst. destruct (IH Hnd') as [IH1 IH2].
    destruct (pkey_eqb k k') eqn:E.
    + apply CP_pkey_eqb_eq in E. subst k'. split; [exact Hnd'|].
      intros [k0 b0]. cbn. split.
      * intros Hin. split; [now right|]. intros ->. apply Hk.
        apply in_map_iff. exists (k, b0). auto.
      * intros [[[= <- <-]|Hin] Hne]; [congruence|exact Hin].
    + assert (k <> k') as Hne by (intros ->; rewrite (proj2 (CP_pkey_eqb_eq k' k') eq_refl) in E; discriminate).
      split.
      * cbn. constructor; [|exact IH1]. intros Hin. apply Hk. eapply CP_pdel_keys; eauto.
      * intros e. cbn. rewrite IH2. split.
        -- intros [<-|[H1 H2]]; [split; [now left|cbn; congruence]|split; [now right|exact H2]].
        -- intros [[<-|H1] H2]; [now left|right; auto].
Qed.

(* a loop whose body only deletes *)
Lemma CP_fold_del : forall (A : Type) (f : ptbl -> A -> ptbl) (P : A -> pkey -> Prop),
  (forall p x, NoDup (map fst p) ->
     NoDup (map fst (f p x)) /\ forall e, In e (f p x) <-> In e p /\ ~ P x (fst e)) ->
  forall l p, NoDup (map fst p) ->
    NoDup (map fst (fold_left f l p)) /\
    forall e, In e (fold_left f l p) <-> In e p /\ ~ exists x, In x l /\ P x (fst e).
Proof.
  intros A f P Hf. induction l as [|x l IH]; intros p Hnd; cbn.
  - split; [exact Hnd|]. intros e. split; [intros H; split; [exact H|]|tauto].
    intros [x [[] _]].
  - destruct (Hf p x Hnd) as [H1 H2]. destruct (IH _ H1) as [H3 H4]. split; [exact H3|].
    intros e. rewrite H4, H2. split.
    + intros [[Hin Hnp] Hnl]. split; [exact Hin|]. intros [y [[<-|Hy] Hp]]; [tauto|].
      apply Hnl. eauto.
    + intros [Hin Hn]. split; [split; [exact Hin|]|].
      * intros Hp. apply Hn. exists x. split; [now left|exact Hp].
      * intros [y [Hy Hp]]. apply Hn. exists y. split; [now right|exact Hp].
Qed.

Definition has_names (c : cat) (key : pkey) (tn taskn algn svn vn : name) : Prop :=
  let '(_, t, k, a, s, v) := key in
  nth_error (ix c Ttarget) t = Some tn /\ nth_error (ix c Ttask) k = Some taskn /\
  (exists av, nth_error (ix c Talg) a = Some (construct algn (Some k) (Some av))) /\
  (exists sv, nth_error (ix c Tstate) s = Some (construct svn (Some a) (Some sv))) /\
  (exists vv, nth_error (ix c Tvalue) v = Some (construct vn (Some s) (Some vv))).

Lemma CP_shaped_tab : forall c x, Iwf c -> x <> Ttarget -> x <> Ttask -> shaped (tb c x).
Proof.
  intros c x Hw H1 H2 k y Hin. destruct (Hw x) as [Hi Hs].
  assert (In k (ix c x)).
  { apply (CP_in_lookup _ _ _ _ Hi) in Hin. apply (CP_lookup_index _ _ _ _ Hi) in Hin.
    eapply nth_error_In; eauto. }
  destruct x; try congruence; cbn in Hs; auto.
Qed.

(* ids selected by subset on a well-formed table *)
Lemma CP_subset_ids : forall c x n ps id,
  Iwf c -> x <> Ttarget -> x <> Ttask -> plain n -> ps <> [] ->
  (In id (map snd (subset (tb c x) n ps))
   <-> exists p v, In p ps /\ nth_error (ix c x) id = Some (construct n (Some p) (Some v))).
Proof.
  intros c x n ps id Hw H1 H2 Hn Hne. destruct (Hw x) as [Hi _].
  pose proof (CP_functional_tab _ _ Hi) as Hf.
  pose proof (CP_shaped_tab c x Hw H1 H2) as Hs.
  rewrite in_map_iff. split.
  - intros [[k y] [<- Hin]]. cbn.
    apply CP_subset_exact in Hin; auto. destruct Hin as [Hin (p & v & Hp & ->)].
    exists p, v. split; [exact Hp|].
    apply (CP_lookup_index _ _ _ _ Hi). now apply (CP_in_lookup _ _ _ _ Hi).
  - intros (p & v & Hp & Hnth). exists (construct n (Some p) (Some v), id). split; [reflexivity|].
    apply CP_subset_exact; auto. split; [|eauto].
    apply (CP_in_lookup _ _ _ _ Hi). now apply (CP_lookup_index _ _ _ _ Hi).
Qed.

Lemma CP_nth_inj : forall (i : idx) a b nm, NoDup i ->
  nth_error i a = Some nm -> nth_error i b = Some nm -> a = b.
Proof.
  intros i a b nm Hnd Ha Hb. eapply NoDup_nth_error; eauto.
  - apply nth_error_Some. congruence.
  - congruence.
Qed.

Theorem CP_remove_exact : forall c r tn taskn algn svn vn c',
  Icat c -> plain algn -> plain svn -> plain vn ->
  remove c r tn taskn algn svn vn = Some c' ->
  (forall x, tb c' x = tb c x /\ ix c' x = ix c x) /\
  NoDup (map fst (prime c')) /\
  forall key b, In (key, b) (prime c')
    <-> In (key, b) (prime c) /\
        ~ (pk_run key = r /\ has_names c key tn taskn algn svn vn).
Proof.
  intros c r tn taskn algn svn vn c' (Hw & Hnd & Hch) Ha Hs Hv H.
  unfold remove in H.
  destruct (alookup tn (t_target c)) as [tnid|] eqn:Etn; [|discriminate].
  destruct (alookup taskn (t_task c)) as [tskid|] eqn:Etk; [|discriminate].
  set (algids := map snd (subset (t_alg c) algn [tskid])) in H.
  set (svids := map snd (subset (t_state c) svn algids)) in H.
  set (vids := map snd (subset (t_value c) vn svids)) in H.
  injection H as <-.
  split; [intros x; destruct x; auto|].
  unfold set_prime. cbv beta iota delta [prime].
  (* the three nested loops *)
  pose (P3 := fun (a s v : nat) (k : pkey) => k = (r, tnid, tskid, a, s, v)).
  pose (P2 := fun (a s : nat) (k : pkey) => exists v, In v vids /\ P3 a s v k).
  pose (P1 := fun (a : nat) (k : pkey) => exists s, In s svids /\ P2 a s k).
  assert (L3 : forall a s p, NoDup (map fst p) ->
    NoDup (map fst (fold_left (fun p vid => pdel (r, tnid, tskid, a, s, vid) p) vids p)) /\
    forall e, In e (fold_left (fun p vid => pdel (r, tnid, tskid, a, s, vid) p) vids p)
              <-> In e p /\ ~ P2 a s (fst e)).
  { intros a s. apply (CP_fold_del nat (fun p vid => pdel (r, tnid, tskid, a, s, vid) p) (P3 a s)).
    intros p v Hp. destruct (CP_pdel_spec (r, tnid, tskid, a, s, v) p Hp) as [H1 H2].
    split; [exact H1|]. intros e. rewrite H2. unfold P3. tauto. }
  assert (L2 : forall a p, NoDup (map fst p) ->
    NoDup (map fst (fold_left (fun p svid =>
        fold_left (fun p vid => pdel (r, tnid, tskid, a, svid, vid) p) vids p) svids p)) /\
    forall e, In e (fold_left (fun p svid =>
        fold_left (fun p vid => pdel (r, tnid, tskid, a, svid, vid) p) vids p) svids p)
              <-> In e p /\ ~ P1 a (fst e)).
  { intros a. apply (CP_fold_del nat _ (P2 a)). intros p s Hp. apply L3. exact Hp. }
  destruct (CP_fold_del nat _ P1 (fun p a => L2 a p) algids (prime c) Hnd) as [G1 G2].
  split; [exact G1|].
  intros key b. rewrite G2. cbv beta iota delta [fst].
  assert (Hin_dec : In (key, b) (prime c) ->
     ((exists a, In a algids /\ P1 a key)
      <-> pk_run key = r /\ has_names c key tn taskn algn svn vn)); [|tauto].
  intros Hin. pose proof (Hch _ _ Hin) as Hc.
  destruct (Hw Ttarget) as [Hit _], (Hw Ttask) as [Hik _].
  pose proof (proj1 (CP_lookup_index _ _ _ _ Hit) Etn) as Htn.
  pose proof (proj1 (CP_lookup_index _ _ _ _ Hik) Etk) as Htk.
  assert (Talg <> Ttarget /\ Talg <> Ttask /\ Tstate <> Ttarget /\ Tstate <> Ttask
          /\ Tvalue <> Ttarget /\ Tvalue <> Ttask) as (N1 & N2 & N3 & N4 & N5 & N6)
      by (repeat split; discriminate).
  split.
  - intros (a & Hain & s & Hsin & v & Hvin & ->). cbn [pk_run]. split; [reflexivity|].
    destruct Hc as (_ & _ & (an & av & Hc3) & (sn & sv & Hc4) & (vn' & vv & Hc5)).
    assert (algids <> []) as NE1 by (intros E; rewrite E in Hain; destruct Hain).
    assert (svids <> []) as NE2 by (intros E; rewrite E in Hsin; destruct Hsin).
    apply (CP_subset_ids c Talg algn [tskid] a Hw N1 N2 Ha) in Hain; [|discriminate].
    destruct Hain as (p & av' & [<-|[]] & Hain).
    apply (CP_subset_ids c Tstate svn algids s Hw N3 N4 Hs NE1) in Hsin.
    destruct Hsin as (p & sv' & Hp & Hsin).
    apply (CP_subset_ids c Tvalue vn svids v Hw N5 N6 Hv NE2) in Hvin.
    destruct Hvin as (p' & vv' & Hp' & Hvin).
    cbv beta iota delta [ix] in *. rewrite Hsin in Hc4. injection Hc4 as Hc4.
    apply CP_construct_inj in Hc4. destruct Hc4 as (_ & -> & _).
    rewrite Hvin in Hc5. injection Hc5 as Hc5.
    apply CP_construct_inj in Hc5. destruct Hc5 as (_ & -> & _).
    repeat split; eauto.
  - destruct key as [[[[[r' t] k] a] s] v]. cbn [pk_run].
    intros [-> (H1 & H2 & (av & H3) & (sv & H4) & (vv & H5))].
    assert (t = tnid) as -> by (eapply CP_nth_inj; [apply Hit| |]; eauto).
    assert (k = tskid) as -> by (eapply CP_nth_inj; [apply Hik| |]; eauto).
    assert (Hain : In a algids).
    { apply (CP_subset_ids c Talg algn [tskid] a Hw N1 N2 Ha); [discriminate|].
      exists tskid, av. split; [now left|exact H3]. }
    assert (algids <> []) as NE1 by (intros E; rewrite E in Hain; destruct Hain).
    assert (Hsin : In s svids).
    { apply (CP_subset_ids c Tstate svn algids s Hw N3 N4 Hs NE1). eauto. }
    assert (svids <> []) as NE2 by (intros E; rewrite E in Hsin; destruct Hsin).
    assert (Hvin : In v vids).
    { apply (CP_subset_ids c Tvalue vn svids v Hw N5 N6 Hv NE2). eauto. }
    exists a. split; [exact Hain|]. exists s. split; [exact Hsin|].
    exists v. split; [exact Hvin|]. reflexivity.
Qed.

(* ===== K. reset() reads exactly entries of the named algorithm ================ *)

Lemma CP_first_nonempty : forall p r t k l tab,
  first_nonempty p r t k l = Some tab ->
  exists a, In a l /\ tab = psubset p (pfx4 r t k a).
Proof.
  intros p r t k. induction l as [|a l IH]; cbn [first_nonempty]; intros tab H; [discriminate|].
  destruct (psubset p (pfx4 r t k a)) as [|e tab'] eqn:E.
  - destruct (IH _ H) as (a' & Hin & ->). exists a'. split; [now right|reflexivity].
  - injection H as <-. exists a. split; [now left|]. now rewrite E.
Qed.

Theorem CP_reset_exact : forall c r tn tskn algn ptab,
  Icat c -> plain algn -> reset_ptab c r tn tskn algn = Some ptab ->
  forall key b, In (key, b) ptab ->
    In (key, b) (prime c) /\ pk_run key = r /\
    let '(_, t, k, a, _, _) := key in
    nth_error (ix c Ttarget) t = Some tn /\ nth_error (ix c Ttask) k = Some tskn /\
    exists av, nth_error (ix c Talg) a = Some (construct algn (Some k) (Some av)).
Proof.
  intros c r tn tskn algn ptab (Hw & Hnd & Hch) Ha H key b Hin. unfold reset_ptab in H.
  destruct (alookup tn (t_target c)) as [t|] eqn:Et; [|discriminate].
  destruct (alookup tskn (t_task c)) as [k|] eqn:Ek; [|discriminate].
  destruct (first_nonempty (prime c) r t k (map snd (subset (t_alg c) algn [k]))) as [tab|] eqn:E.
  - injection H as <-. apply CP_first_nonempty in E. destruct E as (a & Hain & ->).
    unfold psubset in Hin. apply filter_In in Hin. destruct Hin as [Hin Hp]. cbn [fst] in Hp.
    apply CP_pfx4_exact in Hp. destruct Hp as [Hr Hk]. split; [exact Hin|]. split; [exact Hr|].
    destruct key as [[[[[r' t'] k'] a'] s'] v']. destruct Hk as (-> & -> & ->).
    destruct (Hw Ttarget) as [Hit _], (Hw Ttask) as [Hik _].
    split; [now apply (CP_lookup_index _ _ _ _ Hit)|].
    split; [now apply (CP_lookup_index _ _ _ _ Hik)|].
    apply (CP_subset_ids c Talg algn [k] a Hw) in Hain; try discriminate; auto.
    destruct Hain as (p & av & [<-|[]] & Hn). exists av. exact Hn.
  - injection H as <-. destruct Hin.
Qed.

(* reset() before commit 4962e8d read entries of a sibling algorithm *)
Definition reset_old_witness : cat :=
  mkcat [([84], 0)] [([116], 0)]
        [(construct [111] (Some 0) (Some (7, 7, 7)%Z), 0);
         (construct [109] (Some 0) (Some (1, 0, 0)%Z), 1)]
        [(construct [115] (Some 0) (Some (9, 9, 9)%Z), 0)]
        [(construct [118] (Some 0) (Some (1, 0, 0)%Z), 0)]
        [[84]] [[116]]
        [construct [111] (Some 0) (Some (7, 7, 7)%Z); construct [109] (Some 0) (Some (1, 0, 0)%Z)]
        [construct [115] (Some 0) (Some (9, 9, 9)%Z)]
        [construct [118] (Some 0) (Some (1, 0, 0)%Z)]
        [((3%Z, 0, 0, 0, 0, 0), 5%Z)].

Lemma CP_reset_old_inexact :
  reset_ptab_old reset_old_witness 3 [84] [116] [109] = Some [((3%Z, 0, 0, 0, 0, 0), 5%Z)]
  /\ nth_error (i_alg reset_old_witness) 0 = Some (construct [111] (Some 0) (Some (7, 7, 7)%Z))
  /\ reset_ptab reset_old_witness 3 [84] [116] [109] = Some [].
Proof. vm_compute. repeat split; reflexivity. Qed.

(* ===== L. indexed() does not depend on the iteration order of the table ======= *)
From Coq Require Import Permutation Sorted.

Definition le_id (a b : name * nat) : Prop := snd a <= snd b.
Definition leb_id (a b : name * nat) : bool := Nat.leb (snd a) (snd b).

Lemma CP_sinsert_perm : forall x l, Permutation (sinsert leb_id x l) (x :: l).
Proof.
  intros x l. induction l as [|y l IH]; cbn; [reflexivity|].
  destruct (leb_id x y); [reflexivity|].
  rewrite IH. apply perm_swap.
Qed.

Lemma CP_ssort_perm : forall l, Permutation (ssort leb_id l) l.
Proof.
  induction l as [|x l IH]; cbn; [reflexivity|].
  rewrite CP_sinsert_perm. now constructor.
Qed.

Lemma CP_sinsert_sorted : forall x l,
  StronglySorted le_id l -> StronglySorted le_id (sinsert leb_id x l).
Proof.
  intros x l H. induction H as [|y l Hs IH Hy]; cbn.
  - constructor; constructor.
  - unfold leb_id at 1. destruct (Nat.leb_spec (snd x) (snd y)).
    + constructor; [constructor; assumption|]. constructor; [exact H|].
      rewrite Forall_forall in *. intros z Hz. specialize (Hy z Hz). unfold le_id in *. lia.
    + constructor; [exact IH|].
      rewrite Forall_forall in *. intros z Hz.
      apply (Permutation_in _ (CP_sinsert_perm x l)) in Hz. destruct Hz as [<-|Hz].
      * unfold le_id. lia.
      * auto.
Qed.

Lemma CP_ssort_sorted' : forall l, StronglySorted le_id (ssort leb_id l).
Proof.
  induction l as [|x l IH]; cbn; [constructor|]. now apply CP_sinsert_sorted.
Qed.

Lemma CP_sorted_unique : forall l1 l2,
  StronglySorted le_id l1 -> StronglySorted le_id l2 -> Permutation l1 l2 ->
  NoDup (map snd l1) -> l1 = l2.
Proof.
  induction l1 as [|a l1 IH]; intros l2 S1 S2 P Hnd.
  - apply Permutation_nil in P. now subst.
  - destruct l2 as [|b l2]; [apply Permutation_sym, Permutation_nil in P; discriminate|].
    inversion S1 as [|? ? S1' Ha]; subst. inversion S2 as [|? ? S2' Hb]; subst.
    assert (a = b) as <-.
    { assert (Hain : In a (b :: l2)) by (eapply Permutation_in; [exact P|now left]).
      assert (Hbin : In b (a :: l1)) by (eapply Permutation_in; [apply Permutation_sym; exact P|now left]).
      destruct Hain as [->|Hain]; [reflexivity|]. destruct Hbin as [->|Hbin]; [reflexivity|].
      rewrite Forall_forall in Ha, Hb. pose proof (Ha _ Hbin). pose proof (Hb _ Hain).
      unfold le_id in *. assert (snd a = snd b) by lia.
      inversion Hnd as [|? ? Hna _]; subst. exfalso. apply Hna.
      rewrite H1. now apply in_map. }
    f_equal. apply IH; auto.
    + eapply Permutation_cons_inv; eauto.
    + now inversion Hnd.
Qed.

Theorem CP_indexed_any_order : forall t i t',
  I_tab t i -> Permutation t t' -> indexed t' = i.
Proof.
  intros t i t' Hi P. rewrite <- (CP_indexed _ _ Hi). unfold indexed. f_equal.
  change (fun a b : name * nat => Nat.leb (snd a) (snd b)) with leb_id.
  apply CP_sorted_unique.
  - apply CP_ssort_sorted'.
  - apply CP_ssort_sorted'.
  - rewrite !CP_ssort_perm. now apply Permutation_sym.
  - eapply Permutation_NoDup.
    + apply Permutation_map, Permutation_sym. etransitivity; [apply CP_ssort_perm|].
      apply Permutation_sym. exact P.
    + rewrite (CP_ids_gap_free _ _ Hi). apply seq_NoDup.
Qed.
