(* C18 -- lemmas about Model/Chron.v. *)
From Coq Require Import List ZArith Lia Bool ZifyBool Sorting.Sorted Sorting.Permutation.
From DV Require Import Model.Search Proofs.SearchProofs Model.Chron.
Import ListNotations.
Open Scope Z_scope.

(* ================================================================== *)
(* 1. append                                                            *)
(* ================================================================== *)

Definition all_entries (j : journal) : list entry := flat_map f_entries j.

(* the content of the file chronicles/<day>/<runid>.json ([] = no file) *)
Definition lookup (j : journal) (d r : Z) : list entry :=
  match List.find (fun f => (f_day f =? d) && (f_runid f =? r)) j with
  | Some f => f_entries f
  | None => []
  end.

Lemma C_lookup_append_to j d r e d' r' :
  lookup (append_to j d r e) d' r'
  = lookup j d' r' ++ (if (d' =? d) && (r' =? r) then [e] else []).
Proof.
  induction j as [|f t IH]; cbn [append_to].
  - unfold lookup. cbn [List.find f_day f_runid f_entries].
    destruct ((d =? d') && (r =? r')) eqn:E;
      [replace ((d' =? d) && (r' =? r)) with true by lia
      |replace ((d' =? d) && (r' =? r)) with false by lia]; reflexivity.
  - destruct ((f_day f =? d) && (f_runid f =? r)) eqn:E.
    + unfold lookup. cbn [List.find f_day f_runid f_entries].
      destruct ((d =? d') && (r =? r')) eqn:E2.
      * replace ((f_day f =? d') && (f_runid f =? r')) with true by lia.
        replace ((d' =? d) && (r' =? r)) with true by lia. reflexivity.
      * replace ((f_day f =? d') && (f_runid f =? r')) with false by lia.
        replace ((d' =? d) && (r' =? r)) with false by lia. rewrite app_nil_r. reflexivity.
    + unfold lookup in *. cbn [List.find].
      destruct ((f_day f =? d') && (f_runid f =? r')) eqn:E2.
      * replace ((d' =? d) && (r' =? r)) with false by lia. rewrite app_nil_r. reflexivity.
      * exact IH.
Qed.

Lemma C_all_append_to j d r e : Permutation (all_entries (append_to j d r e)) (e :: all_entries j).
Proof.
  induction j as [|f t IH]; cbn [append_to].
  - cbn. apply Permutation_refl.
  - destruct ((f_day f =? d) && (f_runid f =? r)).
    + unfold all_entries. cbn [flat_map f_entries]. rewrite <- app_assoc. cbn [app].
      apply Permutation_sym. apply Permutation_middle.
    + unfold all_entries in *. cbn [flat_map].
      eapply Permutation_trans; [apply Permutation_app_head; exact IH|].
      apply Permutation_sym. apply Permutation_middle.
Qed.

(* every entry sits in the file of its own day *)
Definition file_wf (f : file) : Prop :=
  Forall (fun e => day_of (e_completed e) = f_day f) (f_entries f).
Definition wf (j : journal) : Prop := Forall file_wf j.

Lemma C_wf_append_to j d r e : day_of (e_completed e) = d -> wf j -> wf (append_to j d r e).
Proof.
  intros Hd. induction j as [|f t IH]; intros Hw; cbn [append_to].
  - constructor; [|constructor]. unfold file_wf. cbn. constructor; [exact Hd|constructor].
  - apply Forall_cons_iff in Hw. destruct Hw as [Hf Ht]. destruct ((f_day f =? d) && (f_runid f =? r)) eqn:E.
    + constructor; [|exact Ht]. unfold file_wf in *. cbn [f_entries f_day].
      apply Forall_app. split.
      * eapply Forall_impl; [|exact Hf]. cbn. intros x Hx. lia.
      * constructor; [exact Hd|constructor].
    + constructor; [exact Hf|apply IH; exact Ht].
Qed.

(* file keys stay unique *)
Definition fkey (f : file) : Z * Z := (f_day f, f_runid f).
Lemma C_keys_append_to j d r e x :
  In x (map fkey (append_to j d r e)) <-> x = (d, r) \/ In x (map fkey j).
Proof.
  induction j as [|f t IH]; cbn [append_to].
  - cbn. intuition.
  - destruct ((f_day f =? d) && (f_runid f =? r)) eqn:E.
    + cbn [map In fkey f_day f_runid]. assert (fkey f = (d, r)) by (unfold fkey; f_equal; lia).
      unfold fkey in *. rewrite H. intuition.
    + cbn [map In]. rewrite IH. intuition.
Qed.

Lemma C_nodup_append_to j d r e : NoDup (map fkey j) -> NoDup (map fkey (append_to j d r e)).
Proof.
  induction j as [|f t IH]; intros Hn; cbn [append_to].
  - cbn. constructor; [intros []|constructor].
  - destruct ((f_day f =? d) && (f_runid f =? r)) eqn:E.
    + assert (K : fkey f = (d, r)) by (unfold fkey; f_equal; lia).
      cbn [map] in *. change (fkey (mkF d r (f_entries f ++ [e]))) with (d, r).
      rewrite <- K. exact Hn.
    + cbn [map] in *. apply NoDup_cons_iff in Hn. destruct Hn as [Hnin Hn'].
      constructor; [|apply IH; exact Hn'].
      rewrite C_keys_append_to. intros [K|K]; [|exact (Hnin K)].
      unfold fkey in K. injection K as K1 K2. lia.
Qed.

(* ================================================================== *)
(* 2. the descending stable sort                                        *)
(* ================================================================== *)

Definition key_ge (x y : entry) : Prop := key_cmp x y <> Lt.

Lemma C_ord_cmp4 : ord_ok cmp4.
Proof. unfold cmp4. repeat apply S_ord_pair; apply S_ord_Z. Qed.

Lemma C_key_ge_trans x y z : key_ge x y -> key_ge y z -> key_ge x z.
Proof.
  unfold key_ge, key_cmp. intros H1 H2 H3. destruct C_ord_cmp4 as [oe oa ot].
  destruct (cmp4 (ekey x) (ekey y)) eqn:E; [| |].
  - apply oe in E. rewrite E in H3. exact (H2 H3).
  - exact (H1 eq_refl).
  - assert (L : cmp4 (ekey y) (ekey x) = Lt) by (rewrite oa, E; reflexivity).
    exact (H2 (ot _ _ _ L H3)).
Qed.

Lemma C_key_lt_ge x h : key_cmp x h = Lt -> key_ge h x.
Proof.
  unfold key_ge, key_cmp. intros H. destruct C_ord_cmp4 as [oe oa ot].
  rewrite oa, H. discriminate.
Qed.

Lemma C_dinsert_perm x l : Permutation (dinsert x l) (x :: l).
Proof.
  induction l as [|h t IH]; cbn [dinsert]; [apply Permutation_refl|].
  destruct (key_cmp x h); try apply Permutation_refl.
  eapply Permutation_trans; [apply perm_skip; exact IH|apply perm_swap].
Qed.

Lemma C_dsort_perm l : Permutation (dsort l) l.
Proof.
  induction l as [|x l IH]; [apply Permutation_refl|]. cbn [dsort fold_right]. fold (dsort l).
  eapply Permutation_trans; [apply C_dinsert_perm|apply perm_skip; exact IH].
Qed.

Lemma C_dinsert_sorted x l : StronglySorted key_ge l -> StronglySorted key_ge (dinsert x l).
Proof.
  induction l as [|h t IH]; intros Hs; cbn [dinsert].
  - constructor; constructor.
  - inversion Hs as [|? ? Hs' Hall]; subst.
    assert (G : key_cmp x h <> Lt -> StronglySorted key_ge (x :: h :: t)).
    { intros Hx. constructor; [exact Hs|]. constructor; [exact Hx|].
      rewrite Forall_forall in *. intros y Hy. eapply C_key_ge_trans; [exact Hx|apply Hall; exact Hy]. }
    destruct (key_cmp x h) eqn:E; try (apply G; discriminate).
    constructor; [apply IH; exact Hs'|].
    rewrite Forall_forall in *. intros y Hy.
    apply (Permutation_in _ (C_dinsert_perm x t)) in Hy. destruct Hy as [<-|Hy].
    + apply C_key_lt_ge. exact E.
    + apply Hall. exact Hy.
Qed.

Lemma C_dsort_sorted l : StronglySorted key_ge (dsort l).
Proof.
  induction l as [|x l IH]; [constructor|]. cbn [dsort fold_right]. fold (dsort l).
  apply C_dinsert_sorted. exact IH.
Qed.

Lemma C_load_nil a b s : load a b s [] = [].
Proof. reflexivity. Qed.

Lemma C_load_perm a b s fs :
  Permutation (load a b s fs) (filter (in_window a b s) (flat_map f_entries fs)).
Proof. apply C_dsort_perm. Qed.

(* ================================================================== *)
(* 3. the day walk                                                      *)
(* ================================================================== *)

(* the three-line laws a calendar has to obey: a month (year) is an interval
   of days that starts at ms (ys) *)
Record cal_ok (c : cal) : Prop := {
  ms_le : forall d, ms c d <= d;
  ms_int : forall d d', ms c d <= d' <= d -> ms c d' = ms c d;
  ys_le : forall d, ys c d <= d;
  ys_int : forall d d', ys c d <= d' <= d -> ys c d' = ys c d }.

(* days d, d-1, ..., d-n+1, every one loaded *)
Fixpoint span (j : journal) (a b s : Z) (n : nat) (d : Z) : list entry :=
  match n with
  | O => []
  | S n' => load a b s (day_files j d) ++ span j a b s n' (d - 1)
  end.

Lemma C_span_step j a b s lo d : lo <= d ->
  span j a b s (Z.to_nat (d - lo + 1)) d
  = load a b s (day_files j d) ++ span j a b s (Z.to_nat (d - 1 - lo + 1)) (d - 1).
Proof.
  intros H. replace (Z.to_nat (d - lo + 1)) with (S (Z.to_nat (d - 1 - lo + 1))) by lia. reflexivity.
Qed.

Lemma C_span_below j a b s lo d : d < lo -> span j a b s (Z.to_nat (d - lo + 1)) d = [].
Proof. intros H. replace (Z.to_nat (d - lo + 1)) with 0%nat by lia. reflexivity. Qed.

Lemma C_span_skip j a b s lo (k : nat) : forall d d',
  d - d' = Z.of_nat k ->
  (forall x, d' < x <= d -> lo <= x -> day_files j x = []) ->
  span j a b s (Z.to_nat (d - lo + 1)) d = span j a b s (Z.to_nat (d' - lo + 1)) d'.
Proof.
  induction k as [|k IH]; intros d d' Hk Hx.
  - replace d' with d by lia. reflexivity.
  - destruct (Z_lt_le_dec d lo) as [Hlo|Hlo].
    + rewrite !C_span_below by lia. reflexivity.
    + rewrite C_span_step by exact Hlo. rewrite (Hx d) by lia. rewrite C_load_nil. cbn [app].
      apply IH; [lia|]. intros x H1 H2. apply Hx; lia.
Qed.

Lemma C_day_files_nil j d : day_files j d = [] <-> forall f, In f j -> f_day f <> d.
Proof.
  unfold day_files. rewrite S_filter_nil. split.
  - intros H f Hf E. assert (existsb (fun f0 => f_day f0 =? d) j = true).
    { apply existsb_exists. exists f. split; [exact Hf|lia]. }
    congruence.
  - intros H. apply not_true_iff_false. rewrite existsb_exists. intros [f [Hf E]].
    apply (H f Hf). lia.
Qed.

Lemma C_no_year c j d : cal_ok c -> has_year c j d = false ->
  forall x, ys c d <= x <= d -> day_files j x = [].
Proof.
  intros OK H x Hx. apply C_day_files_nil. intros f Hf E.
  assert (has_year c j d = true); [|congruence].
  unfold has_year. apply existsb_exists. exists f. split; [exact Hf|].
  rewrite E, (ys_int c OK d x Hx). apply Z.eqb_refl.
Qed.

Lemma C_no_month c j d : cal_ok c -> has_month c j d = false ->
  forall x, ms c d <= x <= d -> day_files j x = [].
Proof.
  intros OK H x Hx. apply C_day_files_nil. intros f Hf E.
  assert (has_month c j d = true); [|congruence].
  unfold has_month. apply existsb_exists. exists f. split; [exact Hf|].
  rewrite E, (ms_int c OK d x Hx). apply Z.eqb_refl.
Qed.

Lemma C_walk_unfold c j a b s limit fuel day entries :
  walk c j a b s limit fuel day entries =
  if under_limit limit entries && (day_of a <=? day) then
    match fuel with
    | O => None
    | S fuel' =>
        if has_year c j day then
          if has_month c j day then
            walk c j a b s limit fuel' (day - 1)
              (match day_files j day with [] => entries | fs => entries ++ load a b s fs end)
          else walk c j a b s limit fuel' (ms c day - 1) entries
        else walk c j a b s limit fuel' (ys c day - 1) entries
    end
  else Some entries.
Proof. destruct fuel; reflexivity. Qed.

Lemma C_walk_spec c j a b s limit : cal_ok c -> forall fuel day acc,
  day - day_of a + 1 <= Z.of_nat fuel ->
  exists r rest,
    walk c j a b s limit fuel day acc = Some r /\
    acc ++ span j a b s (Z.to_nat (day - day_of a + 1)) day = r ++ rest /\
    (rest = [] \/ exists n, limit = Some n /\ n <= Z.of_nat (length r)).
Proof.
  intros OK. induction fuel as [|fuel IH]; intros day acc Hf; rewrite C_walk_unfold.
  - replace (day_of a <=? day) with false by lia. rewrite andb_false_r.
    exists acc, []. rewrite C_span_below by lia. rewrite !app_nil_r. auto.
  - destruct (under_limit limit acc) eqn:U; cbn [andb].
    2:{ exists acc, (span j a b s (Z.to_nat (day - day_of a + 1)) day). split; [reflexivity|].
        split; [reflexivity|]. right. destruct limit as [n|]; [|discriminate].
        exists n. split; [reflexivity|]. cbn [under_limit] in U. lia. }
    destruct (day_of a <=? day) eqn:D.
    2:{ exists acc, []. rewrite C_span_below by lia. rewrite !app_nil_r. auto. }
    destruct (has_year c j day) eqn:HY.
    2:{ destruct (IH (ys c day - 1) acc) as (r & rest & W & E & L).
        { pose proof (ys_le c OK day). lia. }
        exists r, rest. split; [exact W|]. split; [|exact L]. rewrite <- E. f_equal.
        pose proof (ys_le c OK day) as Hle.
        apply (C_span_skip j a b s (day_of a) (Z.to_nat (day - (ys c day - 1)))); [lia|].
        intros x H1 H2. apply (C_no_year c j day OK HY). lia. }
    destruct (has_month c j day) eqn:HM.
    2:{ destruct (IH (ms c day - 1) acc) as (r & rest & W & E & L).
        { pose proof (ms_le c OK day). lia. }
        exists r, rest. split; [exact W|]. split; [|exact L]. rewrite <- E. f_equal.
        pose proof (ms_le c OK day) as Hle.
        apply (C_span_skip j a b s (day_of a) (Z.to_nat (day - (ms c day - 1)))); [lia|].
        intros x H1 H2. apply (C_no_month c j day OK HM). lia. }
    assert (A : match day_files j day with [] => acc | fs => acc ++ load a b s fs end
                = acc ++ load a b s (day_files j day)).
    { destruct (day_files j day); [rewrite C_load_nil, app_nil_r|]; reflexivity. }
    rewrite A.
    destruct (IH (day - 1) (acc ++ load a b s (day_files j day))) as (r & rest & W & E & L); [lia|].
    exists r, rest. split; [exact W|]. split; [|exact L]. rewrite <- E.
    rewrite C_span_step by lia. rewrite app_assoc. reflexivity.
Qed.

(* ================================================================== *)
(* 4. what find returns                                                 *)
(* ================================================================== *)

(* every day between the bounds, loaded, newest day first *)
Definition full (j : journal) (a b s : Z) : list entry :=
  span j a b s (Z.to_nat (day_of b - day_of a + 1)) (day_of b).
Definition status_code (succeeded : bool) : Z := if succeeded then 0 else 1.

Lemma C_walk_full c j a b s limit : cal_ok c ->
  exists r rest,
    walk c j a b s limit (Z.to_nat (day_of b - day_of a + 1)) (day_of b) [] = Some r /\
    full j a b s = r ++ rest /\
    (rest = [] \/ exists n, limit = Some n /\ n <= Z.of_nat (length r)).
Proof.
  intros OK.
  destruct (C_walk_spec c j a b s limit OK (Z.to_nat (day_of b - day_of a + 1)) (day_of b) [])
    as (r & rest & W & E & L); [lia|].
  exists r, rest. split; [exact W|]. split; [exact E|exact L].
Qed.

Theorem C_find_window c j a b limit succ now : cal_ok c ->
  Chron.find c j (Some a) (Some b) limit succ now = Ok (full j a b (status_code succ)).
Proof.
  intros OK. unfold Chron.find.
  destruct (C_walk_full c j a b (status_code succ) None OK) as (r & rest & W & E & L).
  fold (status_code succ). rewrite W.
  destruct L as [->|[n [Hn _]]]; [|discriminate]. rewrite app_nil_r in E. subst r.
  rewrite andb_false_r. reflexivity.
Qed.

Lemma C_firstn_prefix {A} (k : nat) (r rest : list A) :
  rest = [] \/ (k <= length r)%nat -> firstn k r = firstn k (r ++ rest).
Proof.
  intros [->|H]; [rewrite app_nil_r; reflexivity|].
  rewrite firstn_app. replace (k - length r)%nat with 0%nat by lia. cbn [firstn].
  rewrite app_nil_r. reflexivity.
Qed.

(* after = None: the newest `limit` entries below the upper bound *)
Lemma C_find_upper c j (before : option Z) (limit : option Z) succ now :
  cal_ok c -> (before <> None \/ limit <> None) ->
  Chron.find c j None before limit succ now
  = Ok (match limit with
        | None => full j 0 (match before with None => now | Some t => t end) (status_code succ)
        | Some n => firstn (Z.to_nat n)
                      (full j 0 (match before with None => now | Some t => t end) (status_code succ))
        end).
Proof.
  intros OK Hsome. set (b := match before with None => now | Some t => t end).
  assert (U : Chron.find c j None before limit succ now =
              match walk c j 0 b (status_code succ) limit
                         (Z.to_nat (day_of b - day_of 0 + 1)) (day_of b) [] with
              | None => OutOfFuel
              | Some es => Ok (py_head limit es)
              end).
  { unfold Chron.find. destruct before as [t|], limit as [n|]; try reflexivity.
    destruct Hsome as [H|H]; congruence. }
  rewrite U.
  destruct (C_walk_full c j 0 b (status_code succ) limit OK) as (r & rest & W & E & L).
  rewrite W, E. f_equal. destruct limit as [n|]; cbn [py_head].
  - destruct (n <? 0) eqn:N.
    + (* the loop never starts: r = [] *)
      assert (r = []).
      { rewrite C_walk_unfold in W. cbn [under_limit length] in W.
        replace (Z.of_nat 0 <? n) with false in W by lia. cbn [andb] in W. congruence. }
      subst r. rewrite firstn_nil. replace (Z.to_nat n) with 0%nat by lia. reflexivity.
    + apply C_firstn_prefix. destruct L as [->|[m [Hm Hl]]]; [left; reflexivity|].
      right. injection Hm as <-. lia.
  - destruct L as [->|[m [Hm _]]]; [|discriminate]. rewrite app_nil_r. reflexivity.
Qed.

(* ---- the list `full` is the window, newest first ---- *)

Lemma C_day_mono x y : x <= y -> day_of x <= day_of y.
Proof. intros H. unfold day_of, day_len. apply Z.div_le_mono; lia. Qed.

Lemma C_key_gt x y : e_completed y < e_completed x -> key_ge x y.
Proof.
  intros H. unfold key_ge, key_cmp, cmp4, cmp_pair, lexc, ekey. cbn [fst snd].
  replace (e_completed x ?= e_completed y) with Gt; [discriminate|].
  symmetry. apply Z.compare_gt_iff. exact H.
Qed.

Lemma C_ss_app {A} (R : A -> A -> Prop) l1 l2 :
  StronglySorted R l1 -> StronglySorted R l2 ->
  (forall x y, In x l1 -> In y l2 -> R x y) -> StronglySorted R (l1 ++ l2).
Proof.
  induction l1 as [|h t IH]; intros H1 H2 H; [exact H2|]. cbn [app].
  inversion H1 as [|? ? H1' Hall]; subst. constructor.
  - apply IH; auto. intros x y Hx Hy. apply H; [right; exact Hx|exact Hy].
  - apply Forall_app. split; [exact Hall|]. apply Forall_forall. intros y Hy.
    apply H; [left; reflexivity|exact Hy].
Qed.

Lemma C_in_day_files j d f : In f (day_files j d) <-> In f j /\ f_day f = d.
Proof. unfold day_files. rewrite filter_In. intuition lia. Qed.

Lemma C_in_load j a b s d e : wf j -> In e (load a b s (day_files j d)) ->
  day_of (e_completed e) = d /\ in_window a b s e = true.
Proof.
  intros Hw He. apply (Permutation_in _ (C_load_perm a b s _)) in He.
  apply filter_In in He. destruct He as [He Hwin]. split; [|exact Hwin].
  apply in_flat_map in He. destruct He as [f [Hf He]]. apply C_in_day_files in Hf.
  destruct Hf as [Hf Hd]. unfold wf in Hw. rewrite Forall_forall in Hw.
  specialize (Hw f Hf). unfold file_wf in Hw. rewrite Forall_forall in Hw. rewrite <- Hd. apply Hw. exact He.
Qed.

Lemma C_in_span j a b s : wf j -> forall n d e, In e (span j a b s n d) ->
  d - Z.of_nat n < day_of (e_completed e) <= d.
Proof.
  intros Hw. induction n as [|n IH]; intros d e He; [destruct He|]. cbn [span] in He.
  apply in_app_or in He. destruct He as [He|He].
  - destruct (C_in_load j a b s d e Hw He) as [Hd _]. lia.
  - specialize (IH (d - 1) e He). lia.
Qed.

Lemma C_span_sorted j a b s : wf j -> forall n d, StronglySorted key_ge (span j a b s n d).
Proof.
  intros Hw. induction n as [|n IH]; intros d; [constructor|]. cbn [span].
  apply C_ss_app; [apply C_dsort_sorted|apply IH|].
  intros x y Hx Hy. destruct (C_in_load j a b s d x Hw Hx) as [Hdx _].
  pose proof (C_in_span j a b s Hw n (d - 1) y Hy) as Hdy.
  apply C_key_gt. destruct (Z_lt_le_dec (e_completed y) (e_completed x)) as [H|H]; [exact H|].
  apply C_day_mono in H. lia.
Qed.

(* the files visited, as a list *)
Fixpoint dayspan (j : journal) (n : nat) (d : Z) : list file :=
  match n with O => [] | S n' => day_files j d ++ dayspan j n' (d - 1) end.

Definition in_days (n : nat) (d : Z) (f : file) : bool :=
  (d - Z.of_nat n <? f_day f) && (f_day f <=? d).

Lemma C_dayspan_cons f j : forall n d,
  Permutation (dayspan (f :: j) n d) ((if in_days n d f then [f] else []) ++ dayspan j n d).
Proof.
  induction n as [|n IH]; intros d.
  - cbn [dayspan]. unfold in_days. replace ((d - Z.of_nat 0 <? f_day f) && (f_day f <=? d)) with false by lia.
    apply Permutation_refl.
  - cbn [dayspan]. unfold day_files at 1. cbn [filter]. fold (day_files j d).
    destruct (f_day f =? d) eqn:E.
    + replace (in_days (S n) d f) with true by (unfold in_days; lia). cbn [app].
      apply perm_skip. eapply Permutation_trans; [apply Permutation_app_head; apply IH|].
      replace (in_days n (d - 1) f) with false by (unfold in_days; lia). apply Permutation_refl.
    + eapply Permutation_trans; [apply Permutation_app_head; apply IH|].
      replace (in_days n (d - 1) f) with (in_days (S n) d f) by (unfold in_days; lia).
      destruct (in_days (S n) d f); cbn [app]; [|apply Permutation_refl].
      apply Permutation_sym. apply Permutation_middle.
Qed.

Lemma C_dayspan_nil n : forall d, dayspan [] n d = [].
Proof. induction n as [|n IH]; intros d; [reflexivity|]. cbn [dayspan]. rewrite IH. reflexivity. Qed.

Lemma C_dayspan_filter j n d : Permutation (dayspan j n d) (filter (in_days n d) j).
Proof.
  induction j as [|f j IH]; [rewrite C_dayspan_nil; apply Permutation_refl|].
  eapply Permutation_trans; [apply C_dayspan_cons|]. cbn [filter].
  destruct (in_days n d f); cbn [app]; [apply perm_skip|]; exact IH.
Qed.

Lemma C_perm_entries w (l l' : list file) : Permutation l l' ->
  Permutation (filter w (flat_map f_entries l)) (filter w (flat_map f_entries l')).
Proof.
  induction 1 as [|x l l' H IH|x y l|l l' l'' H1 IH1 H2 IH2].
  - apply Permutation_refl.
  - cbn [flat_map]. rewrite !filter_app. apply Permutation_app_head. exact IH.
  - cbn [flat_map]. rewrite !filter_app, !app_assoc. apply Permutation_app_tail. apply Permutation_app_comm.
  - eapply Permutation_trans; eassumption.
Qed.

Lemma C_span_dayspan j a b s : forall n d,
  Permutation (span j a b s n d) (filter (in_window a b s) (flat_map f_entries (dayspan j n d))).
Proof.
  induction n as [|n IH]; intros d; [apply Permutation_refl|]. cbn [span dayspan].
  rewrite flat_map_app, filter_app. apply Permutation_app; [apply C_load_perm|apply IH].
Qed.

Lemma C_filter_out_of_range j a b s n d : wf j ->
  (forall e, in_window a b s e = true -> d - Z.of_nat n < day_of (e_completed e) <= d) ->
  filter (in_window a b s) (flat_map f_entries (filter (in_days n d) j))
  = filter (in_window a b s) (flat_map f_entries j).
Proof.
  intros Hw Hr. induction j as [|f j IH]; [reflexivity|].
  inversion Hw as [|? ? Hf Hj]; subst. cbn [filter flat_map].
  destruct (in_days n d f) eqn:E; cbn [flat_map]; rewrite !filter_app, IH by exact Hj; [reflexivity|].
  replace (filter (in_window a b s) (f_entries f)) with (@nil entry); [reflexivity|].
  symmetry. apply S_filter_nil. apply not_true_iff_false. rewrite existsb_exists.
  intros [e [He Hwin]]. unfold file_wf in Hf. rewrite Forall_forall in Hf.
  specialize (Hf e He). specialize (Hr e Hwin). unfold in_days in E. lia.
Qed.

Theorem C_full_perm j a b s : wf j ->
  Permutation (full j a b s) (filter (in_window a b s) (all_entries j)).
Proof.
  intros Hw. unfold full, all_entries.
  eapply Permutation_trans; [apply C_span_dayspan|].
  eapply Permutation_trans; [apply C_perm_entries; apply C_dayspan_filter|].
  rewrite C_filter_out_of_range; [apply Permutation_refl|exact Hw|].
  intros e He. unfold in_window in He.
  assert (H1 : a < e_completed e) by lia. assert (H2 : e_completed e < b) by lia.
  assert (D1 : day_of a <= day_of (e_completed e)) by (apply C_day_mono; lia).
  assert (D2 : day_of (e_completed e) <= day_of b) by (apply C_day_mono; lia).
  lia.
Qed.

Theorem C_full_sorted j a b s : wf j -> StronglySorted key_ge (full j a b s).
Proof. intros Hw. apply C_span_sorted. exact Hw. Qed.

(* ---- reachable journals are well formed ---- *)
Lemma C_wf_append j e : wf j -> wf (append j e).
Proof. intros H. apply C_wf_append_to; [reflexivity|exact H]. Qed.

Lemma C_wf_history es : wf (fold_left append es []).
Proof.
  assert (G : forall j, wf j -> wf (fold_left append es j)).
  { induction es as [|e es IH]; intros j Hj; [exact Hj|]. cbn [fold_left]. apply IH.
    apply C_wf_append. exact Hj. }
  apply G. constructor.
Qed.

Lemma C_all_history es : Permutation (all_entries (fold_left append es [])) es.
Proof.
  assert (G : forall j, Permutation (all_entries (fold_left append es j)) (all_entries j ++ es)).
  { induction es as [|e es IH]; intros j; cbn [fold_left]; [rewrite app_nil_r; apply Permutation_refl|].
    eapply Permutation_trans; [apply IH|].
    eapply Permutation_trans; [apply Permutation_app_tail; apply C_all_append_to|].
    cbn [app]. apply Permutation_middle. }
  exact (G []).
Qed.

(* ================================================================== *)
(* 5. more of find: lower bound only; never out of fuel                  *)
(* ================================================================== *)

Theorem C_find_lower c j a succ now : cal_ok c ->
  Chron.find c j (Some a) None None succ now = Ok (full j a now (status_code succ)).
Proof.
  intros OK. unfold Chron.find.
  destruct (C_walk_full c j a now (status_code succ) None OK) as (r & rest & W & E & L).
  fold (status_code succ). rewrite W.
  destruct L as [->|[n [Hn _]]]; [|discriminate]. rewrite app_nil_r in E. subst r.
  rewrite andb_false_r. reflexivity.
Qed.

Theorem C_find_fuel c j after before limit succ now : cal_ok c ->
  Chron.find c j after before limit succ now <> OutOfFuel.
Proof.
  intros OK. unfold Chron.find. fold (status_code succ).
  destruct after as [a|], before as [b|], limit as [n|]; try discriminate;
  match goal with
  | |- context [walk ?c ?j ?a ?b ?s ?l _ _ []] =>
      destruct (C_walk_full c j a b s l OK) as (r & rest & W & _ & _); rewrite W
  end; discriminate.
Qed.

(* ================================================================== *)
(* 6. the calendar instance obeys the laws                              *)
(* ================================================================== *)

Fixpoint zrange (n : nat) (lo : Z) : list Z :=
  match n with O => [] | S n' => lo :: zrange n' (lo + 1) end.

Lemma C_zrange_In n : forall lo d, In d (zrange n lo) <-> lo <= d < lo + Z.of_nat n.
Proof.
  induction n as [|n IH]; intros lo d; cbn [zrange In]; [lia|]. rewrite IH. lia.
Qed.

Definition step_ok (f : Z -> Z) (d : Z) : bool :=
  (cal_lo <=? f d) && (f d <=? d) && ((f d =? d) || (f d =? f (d - 1))).

Lemma C_greg_checked :
  forallb (fun d => step_ok greg_ms d && step_ok greg_ys d)
          (zrange (Z.to_nat (cal_hi - cal_lo)) cal_lo) = true.
Proof. vm_compute. reflexivity. Qed.

Lemma C_step_interval (f : Z -> Z) :
  (forall d, cal_lo <= d < cal_hi -> step_ok f d = true) ->
  forall (k : nat) d d', d - d' = Z.of_nat k -> cal_lo <= d < cal_hi -> f d <= d' <= d -> f d' = f d.
Proof.
  intros H. induction k as [|k IH]; intros d d' Hk Hd Hr.
  - replace d' with d by lia. reflexivity.
  - pose proof (H d Hd) as S. unfold step_ok in S.
    assert (S1 : cal_lo <= f d) by lia. assert (S3 : f d = d \/ f d = f (d - 1)) by lia.
    destruct S3 as [S3|S3]; [lia|].
    rewrite S3. apply IH; [lia| |rewrite <- S3; lia].
    assert (d <> cal_lo); [|lia]. intros ->. pose proof (H cal_lo Hd) as S'. unfold step_ok in S'. lia.
Qed.

Lemma C_clamp_ok (f : Z -> Z) :
  (forall d, cal_lo <= d < cal_hi -> step_ok f d = true) ->
  (forall d, clampf f d <= d) /\
  (forall d d', clampf f d <= d' <= d -> clampf f d' = clampf f d).
Proof.
  intros H. split.
  - intros d. unfold clampf. destruct ((cal_lo <=? d) && (d <? cal_hi)) eqn:E; [|lia].
    assert (Hd : cal_lo <= d < cal_hi) by lia. pose proof (H d Hd) as S. unfold step_ok in S. lia.
  - intros d d'. unfold clampf. destruct ((cal_lo <=? d) && (d <? cal_hi)) eqn:E.
    + assert (Hd : cal_lo <= d < cal_hi) by lia. pose proof (H d Hd) as S. unfold step_ok in S.
      intros Hr. replace ((cal_lo <=? d') && (d' <? cal_hi)) with true by lia.
      apply (C_step_interval f H (Z.to_nat (d - d'))); lia.
    + intros Hr. replace d' with d by lia. rewrite E. reflexivity.
Qed.

Theorem C_greg_ok : cal_ok greg.
Proof.
  pose proof C_greg_checked as G. rewrite forallb_forall in G.
  assert (M : forall d, cal_lo <= d < cal_hi -> step_ok greg_ms d = true).
  { intros d Hd. assert (I : In d (zrange (Z.to_nat (cal_hi - cal_lo)) cal_lo)) by (apply C_zrange_In; lia).
    specialize (G d I). apply andb_true_iff in G. tauto. }
  assert (Y : forall d, cal_lo <= d < cal_hi -> step_ok greg_ys d = true).
  { intros d Hd. assert (I : In d (zrange (Z.to_nat (cal_hi - cal_lo)) cal_lo)) by (apply C_zrange_In; lia).
    specialize (G d I). apply andb_true_iff in G. tauto. }
  destruct (C_clamp_ok greg_ms M) as [M1 M2]. destruct (C_clamp_ok greg_ys Y) as [Y1 Y2].
  split; cbn [ms ys greg]; assumption.
Qed.

Lemma C_perm_filter {A} (w : A -> bool) l l' :
  Permutation l l' -> Permutation (filter w l) (filter w l').
Proof.
  induction 1 as [|x l l' H IH|x y l|l l' l'' H1 IH1 H2 IH2]; cbn [filter].
  - apply Permutation_refl.
  - destruct (w x); [apply perm_skip|]; exact IH.
  - destruct (w x), (w y); try apply Permutation_refl. apply perm_swap.
  - eapply Permutation_trans; eassumption.
Qed.
