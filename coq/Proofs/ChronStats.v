(* C18 -- df_model_statistics (Model/Chron.v: stats) reports the run with the
   highest id among the recorded failed/succeeded entries of the node
   completed since boot, its latest completion and its outcome. *)
From DV Require Import Model.Chron Proofs.ChronProofs.
From Coq Require Import List ZArith Bool Lia Sorting.Permutation.
Import ListNotations.
Open Scope Z_scope.

Definition is_max (m : Z) (l : list Z) : Prop := In m l /\ Forall (fun x => x <= m) l.

Lemma fold_max_ge l : forall x, x <= fold_left Z.max l x.
Proof.
  induction l as [|y l IH]; intros x; cbn [fold_left]; [lia|].
  specialize (IH (Z.max x y)). lia.
Qed.

Lemma fold_max_spec l : forall x, is_max (fold_left Z.max l x) (x :: l).
Proof.
  induction l as [|y l IH]; intros x; cbn [fold_left].
  - split; [left; reflexivity|constructor; [lia|constructor]].
  - destruct (IH (Z.max x y)) as [Hin Hall]. split.
    + destruct Hin as [E|Hin].
      * rewrite <- E. destruct (Z.max_spec x y) as [[_ M]|[_ M]]; rewrite M.
        -- right; left; reflexivity.
        -- left; reflexivity.
      * right; right; exact Hin.
    + inversion Hall as [|? ? Hm Hl]; subst.
      constructor; [lia|]. constructor; [lia|exact Hl].
Qed.

Lemma is_max_perm m l l' : Permutation l l' -> is_max m l -> is_max m l'.
Proof.
  intros P [Hin Hall]. split.
  - eapply Permutation_in; eassumption.
  - rewrite Forall_forall in *. intros x Hx. apply Hall.
    eapply Permutation_in; [apply Permutation_sym; exact P|exact Hx].
Qed.

Lemma perm_nil_iff {A} (l l' : list A) : Permutation l l' -> (l = [] <-> l' = []).
Proof.
  intros P. split; intros E; subst.
  - apply Permutation_nil. exact P.
  - apply Permutation_nil. apply Permutation_sym. exact P.
Qed.

(* the recorded entries of a node with a status inside (boot, now) *)
Definition node_window (j : journal) (boot now task s : Z) : list entry :=
  of_task task (filter (in_window boot now s) (all_entries j)).

Lemma of_run_app r l l' : of_run r (l ++ l') = of_run r l ++ of_run r l'.
Proof. unfold of_run. apply filter_app. Qed.

Lemma C_stats c j boot now task : cal_ok c -> wf j ->
  let F := node_window j boot now task 1 in
  let S := node_window j boot now task 0 in
  (F ++ S = [] -> stats c j boot now task = Some NoStat) /\
  (F ++ S <> [] ->
   exists d r st, stats c j boot now task = Some (Stat d r st) /\
     is_max r (map e_runid (F ++ S)) /\
     is_max d (map e_completed (of_run r (F ++ S))) /\
     (st = 0 <-> of_run r F = []) /\
     (st = 1 <-> of_run r F <> [] /\ of_run r S = []) /\
     (st = 2 <-> of_run r F <> [] /\ of_run r S <> [])).
Proof.
  intros OK Hw F S.
  pose proof (C_find_lower c j boot false now OK) as Ff.
  pose proof (C_find_lower c j boot true now OK) as Fs.
  cbn [status_code] in Ff, Fs.
  assert (PF : Permutation (of_task task (full j boot now 1)) F).
  { unfold F, node_window, of_task. apply C_perm_filter. apply C_full_perm. exact Hw. }
  assert (PS : Permutation (of_task task (full j boot now 0)) S).
  { unfold S, node_window, of_task. apply C_perm_filter. apply C_full_perm. exact Hw. }
  unfold stats. rewrite Ff, Fs.
  set (mf := of_task task (full j boot now 1)) in *.
  set (msu := of_task task (full j boot now 0)) in *.
  assert (PA : Permutation (mf ++ msu) (F ++ S)) by (apply Permutation_app; assumption).
  split.
  - intros E. apply (perm_nil_iff _ _ PA) in E. rewrite E. reflexivity.
  - intros NE.
    destruct (mf ++ msu) as [|e0 rest] eqn:EA.
    { exfalso. apply NE. apply (perm_nil_iff _ _ PA). reflexivity. }
    set (rid := fold_left Z.max (map e_runid rest) (e_runid e0)).
    assert (Mr : is_max rid (map e_runid (F ++ S))).
    { eapply is_max_perm; [apply Permutation_map; exact PA|].
      cbn [map]. apply fold_max_spec. }
    assert (PF' : Permutation (of_run rid mf) (of_run rid F))
      by (unfold of_run; apply C_perm_filter; exact PF).
    assert (PS' : Permutation (of_run rid msu) (of_run rid S))
      by (unfold of_run; apply C_perm_filter; exact PS).
    assert (PA' : Permutation (of_run rid mf ++ of_run rid msu) (of_run rid (F ++ S))).
    { rewrite of_run_app. apply Permutation_app; assumption. }
    (* the run of the highest id has at least one entry *)
    assert (NEr : of_run rid (F ++ S) <> []).
    { destruct Mr as [Hin _]. apply in_map_iff in Hin. destruct Hin as (e & He & Hin).
      intros E0. assert (Hf : In e (of_run rid (F ++ S))).
      { unfold of_run. apply filter_In. split; [exact Hin|]. apply Z.eqb_eq. exact He. }
      rewrite E0 in Hf. exact Hf. }
    destruct (of_run rid mf ++ of_run rid msu) as [|m0 mr] eqn:EM.
    { exfalso. apply NEr. apply (perm_nil_iff _ _ PA'). reflexivity. }
    eexists _, rid, _. split; [reflexivity|]. split; [exact Mr|]. split.
    { eapply is_max_perm; [apply Permutation_map; exact PA'|].
      cbn [map]. apply fold_max_spec. }
    pose proof (perm_nil_iff _ _ PF') as NF.
    pose proof (perm_nil_iff _ _ PS') as NS.
    destruct (of_run rid mf) as [|f0 fr] eqn:EF; destruct (of_run rid msu) as [|s0 sr] eqn:ES.
    + discriminate EM.
    + split; [|split].
      * split; intros _; [apply NF; reflexivity|reflexivity].
      * split; [discriminate|]. intros [H _]. exfalso. apply H. apply NF. reflexivity.
      * split; [discriminate|]. intros [H _]. exfalso. apply H. apply NF. reflexivity.
    + split; [|split].
      * split; [discriminate|]. intros H. apply NF in H. discriminate H.
      * split; intros _; [|reflexivity]. split; [intros H; apply NF in H; discriminate H|apply NS; reflexivity].
      * split; [discriminate|]. intros [_ H]. exfalso. apply H. apply NS. reflexivity.
    + split; [|split].
      * split; [discriminate|]. intros H. apply NF in H. discriminate H.
      * split; [discriminate|]. intros [_ H]. apply NS in H. discriminate H.
      * split; intros _; [|reflexivity].
        split; intros H; [apply NF in H|apply NS in H]; discriminate H.
Qed.
