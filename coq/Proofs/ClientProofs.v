(* Proofs/ClientProofs.v -- the blocking client side of the framing reads
   exactly the framed messages, whatever the kernel's chunking. *)
From Coq Require Import List ZArith Bool Lia Arith.
From DV Require Import Model.Frame Model.Client Proofs.FrameProofs.
Import ListNotations.
Open Scope Z_scope.

Definition nonempty (s : sock) : Prop := Forall (fun c : list Z => c <> []) s.

Lemma C_len_pos (c : list Z) : c <> [] -> (0 < length c)%nat.
Proof. destruct c; [congruence|cbn; lia]. Qed.

Lemma C_firstn_app_le (l d : list Z) n : (n <= length l)%nat -> firstn n (l ++ d) = firstn n l.
Proof.
  intros H. rewrite firstn_app. replace (n - length l)%nat with 0%nat by lia.
  cbn [firstn]. apply app_nil_r.
Qed.

(* the receive loop: given enough bytes it returns exactly the next bytes *)
Lemma C_recv_exact : forall s buf n fuel,
  nonempty s -> (length s <= fuel)%nat ->
  n <= Z.of_nat (length buf) + Z.of_nat (length (concat s)) ->
  let m := Z.to_nat (n - Z.of_nat (length buf)) in
  exists s', recv_exact fuel n buf s = Some (buf ++ firstn m (concat s), s')
             /\ concat s' = skipn m (concat s) /\ nonempty s' /\ (length s' <= length s)%nat.
Proof.
  induction s as [|c r IH]; intros buf n fuel NE Hf En m.
  - cbn [concat length] in *. exists []. destruct fuel; cbn [recv_exact];
    (destruct (Z.of_nat (length buf) <? n) eqn:C; [apply Z.ltb_lt in C; lia|]);
    subst m; replace (Z.to_nat (n - Z.of_nat (length buf))) with 0%nat by (apply Z.ltb_ge in C; lia);
    cbn [firstn skipn]; rewrite app_nil_r; auto.
  - pose proof (Forall_inv NE) as Hc. apply C_len_pos in Hc. pose proof (Forall_inv_tail NE) as NEr.
    cbn [concat length] in *. rewrite app_length in En.
    destruct (Z.of_nat (length buf) <? n) eqn:C.
    + apply Z.ltb_lt in C. destruct fuel as [|f]; [lia|]. cbn [recv_exact]. rewrite (proj2 (Z.ltb_lt _ _) C).
      unfold recv. destruct (n - Z.of_nat (length buf) <? Z.of_nat (length c)) eqn:K.
      * (* the chunk holds more than what is missing *)
        apply Z.ltb_lt in K. fold m.
        assert (Hm : (m < length c)%nat) by (subst m; lia).
        exists (skipn m c :: r).
        assert (Done : recv_exact f n (buf ++ firstn m c) (skipn m c :: r)
                       = Some (buf ++ firstn m c, skipn m c :: r)).
        { destruct f; cbn [recv_exact]; rewrite app_length, firstn_length_le by lia;
          (destruct (Z.of_nat (length buf + m) <? n) eqn:D; [apply Z.ltb_lt in D; subst m; lia|reflexivity]). }
        rewrite Done. rewrite C_firstn_app_le by lia. split; [reflexivity|]. split.
        -- cbn [concat]. rewrite skipn_app. replace (m - length c)%nat with 0%nat by lia. reflexivity.
        -- split; [|cbn [length]; lia]. constructor; [|exact NEr].
           intros E. apply (f_equal (@length Z)) in E. rewrite skipn_length in E. cbn in E. lia.
      * (* the whole chunk is taken *)
        apply Z.ltb_ge in K.
        destruct (IH (buf ++ c) n f NEr ltac:(lia) ltac:(rewrite app_length; lia)) as (s' & R & Cs & NEs & Ls).
        exists s'. rewrite R. rewrite app_length in *.
        replace (Z.to_nat (n - Z.of_nat (length buf + length c))) with (m - length c)%nat in * by (subst m; lia).
        assert (Hm : (length c <= m)%nat) by (subst m; lia).
        rewrite firstn_app, (firstn_all2 c) by lia. rewrite <- app_assoc. split; [reflexivity|].
        split; [rewrite Cs, skipn_app, (skipn_all2 c) by lia; reflexivity|]. split; [exact NEs|lia].
    + apply Z.ltb_ge in C. exists (c :: r).
      assert (R : recv_exact fuel n buf (c :: r) = Some (buf, c :: r)).
      { destruct fuel; cbn [recv_exact]; rewrite (proj2 (Z.ltb_ge _ _) C); reflexivity. }
      rewrite R. subst m. replace (Z.to_nat (n - Z.of_nat (length buf))) with 0%nat by lia.
      cbn [firstn skipn]. rewrite app_nil_r. auto.
Qed.

(* one receive on a socket whose byte stream starts with a framed message *)
Theorem C_receive s p rest :
  nonempty s -> Z.of_nat (length p) < 4294967296 -> concat s = frame p ++ rest ->
  exists s', receive s = Some (p, s') /\ concat s' = rest /\ nonempty s'.
Proof.
  intros NE Hp E. unfold receive.
  assert (L : length (concat s) = (4 + length p + length rest)%nat).
  { rewrite E. unfold frame. rewrite !app_length, F_enc32_length. lia. }
  destruct (C_recv_exact s [] 4 (length s) NE (le_n _) ltac:(cbn [length]; lia)) as (s1 & R1 & C1 & NE1 & _).
  cbn [length app] in R1, C1. change (Z.to_nat (4 - Z.of_nat 0)) with 4%nat in R1, C1.
  rewrite R1. rewrite E in R1, C1. unfold frame in R1, C1. rewrite <- app_assoc in C1.
  assert (H4 : firstn 4 (concat s) = enc32 (Z.of_nat (length p))).
  { rewrite E. unfold frame. rewrite <- app_assoc. reflexivity. }
  rewrite H4. change (skipn 4 (enc32 (Z.of_nat (length p)) ++ p ++ rest)) with (p ++ rest) in C1.
  rewrite F_be32_enc32 by lia.
  destruct (C_recv_exact s1 [] (Z.of_nat (length p)) (length s1) NE1 (le_n _)
              ltac:(cbn [length]; rewrite C1, app_length; lia)) as (s2 & R2 & C2 & NE2 & _).
  cbn [length app] in R2, C2. rewrite Z.sub_0_r, Nat2Z.id in R2, C2.
  rewrite R2, C1. exists s2. rewrite C_firstn_app_le, firstn_all by lia.
  split; [reflexivity|]. split; [|exact NE2].
  rewrite C2, C1, skipn_app, skipn_all, Nat.sub_diag. reflexivity.
Qed.

(* successive receives return the framed messages in order and leave exactly
   the bytes behind them *)
Theorem C_receive_n : forall ms s rest,
  nonempty s -> Forall (fun m => Z.of_nat (length m) < 4294967296) ms ->
  concat s = concat (map frame ms) ++ rest ->
  exists s', receive_n (length ms) s = Some (ms, s') /\ concat s' = rest /\ nonempty s'.
Proof.
  induction ms as [|m ms IH]; intros s rest NE H E; cbn [map concat length receive_n] in *.
  - exists s. auto.
  - rewrite <- app_assoc in E.
    destruct (C_receive s m _ NE (Forall_inv H) E) as (s1 & R1 & C1 & NE1). rewrite R1.
    destruct (IH s1 rest NE1 (Forall_inv_tail H) C1) as (s2 & R2 & C2 & NE2). rewrite R2.
    exists s2. auto.
Qed.

(* comms.acquire: the client returns at the first "yours", having read the
   busy statuses before it and nothing behind it *)
Theorem C_acquire_wait yours : forall bs y s rest fuel,
  nonempty s -> Forall (fun m => Z.of_nat (length m) < 4294967296) (bs ++ [y]) ->
  Forall (fun m => yours m = false) bs -> yours y = true -> (length bs < fuel)%nat ->
  concat s = concat (map frame (bs ++ [y])) ++ rest ->
  exists s', acquire_wait fuel yours s = Some (bs ++ [y], s') /\ concat s' = rest /\ nonempty s'.
Proof.
  induction bs as [|b bs IH]; intros y s rest fuel NE Hl Hb Hy Hf E;
  (destruct fuel as [|f]; [cbn in Hf; lia|]); cbn [app map concat acquire_wait] in *.
  - rewrite app_nil_r in E. destruct (C_receive s y rest NE (Forall_inv Hl) E) as (s1 & R1 & C1 & NE1).
    rewrite R1, Hy. exists s1. auto.
  - rewrite <- app_assoc in E.
    destruct (C_receive s b _ NE (Forall_inv Hl) E) as (s1 & R1 & C1 & NE1).
    rewrite R1, (Forall_inv Hb).
    destruct (IH y s1 rest f NE1 (Forall_inv_tail Hl) (Forall_inv_tail Hb) Hy ltac:(cbn in Hf; lia) C1)
      as (s2 & R2 & C2 & NE2).
    rewrite R2. exists s2. auto.
Qed.

(* an exhausted socket: the real loop spins on b'' for ever; the model says None *)
Lemma C_receive_eof : receive [] = None.
Proof. reflexivity. Qed.
