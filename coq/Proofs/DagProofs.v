(* DagProofs.v -- lemmas about the model of dawgie.pl.dag.Construct (C09). *)
From DV Require Import Model.Dag.
From Coq Require Import List Arith Bool Lia Relations.
Import ListNotations.

(* ------------------------------------------------------------ 0. basics *)
Lemma name_eqb_eq a b : name_eqb a b = true <-> a = b.
Proof.
  revert b. induction a as [|x a IH]; destruct b as [|y b]; simpl; split; intro H;
    try discriminate; try reflexivity.
  - apply andb_true_iff in H as [H1 H2]. apply Nat.eqb_eq in H1. apply IH in H2. congruence.
  - inversion H; subst. rewrite Nat.eqb_refl. simpl. apply IH. reflexivity.
Qed.
Lemma name_eqb_refl a : name_eqb a a = true.
Proof. apply name_eqb_eq. reflexivity. Qed.
Lemma name_eqb_neq a b : name_eqb a b = false <-> a <> b.
Proof.
  split; intro H.
  - intro E. apply name_eqb_eq in E. congruence.
  - destruct (name_eqb a b) eqn:E; [apply name_eqb_eq in E; contradiction | reflexivity].
Qed.
Lemma pair_eqb_eq a b : pair_eqb a b = true <-> a = b.
Proof.
  destruct a as [a1 a2], b as [b1 b2]. unfold pair_eqb. simpl.
  rewrite andb_true_iff, !name_eqb_eq. split; [intros [-> ->]; reflexivity | intro H; inversion H; auto].
Qed.
Lemma mem_In x l : mem x l = true <-> In x l.
Proof.
  unfold mem. rewrite existsb_exists. split.
  - intros [y [Hy E]]. apply name_eqb_eq in E. subst. exact Hy.
  - intro H. exists x. split; [exact H | apply name_eqb_refl].
Qed.
Lemma mem_false x l : mem x l = false <-> ~ In x l.
Proof. rewrite <- mem_In. destruct (mem x l); split; congruence. Qed.
Lemma memp_In x l : memp x l = true <-> In x l.
Proof.
  unfold memp. rewrite existsb_exists. split.
  - intros [y [Hy E]]. apply pair_eqb_eq in E. subst. exact Hy.
  - intro H. exists x. split; [exact H | apply pair_eqb_eq; reflexivity].
Qed.

Lemma In_add_uniq l x y : In y (add_uniq l x) <-> In y l \/ y = x.
Proof.
  unfold add_uniq. destruct (mem x l) eqn:E.
  - apply mem_In in E. split; [auto | intros [H | ->]; auto].
  - rewrite in_app_iff. simpl. intuition.
Qed.
Lemma In_adds xs : forall l y, In y (adds l xs) <-> In y l \/ In y xs.
Proof.
  unfold adds. induction xs as [|x xs IH]; intros l y; simpl.
  - intuition.
  - rewrite IH, In_add_uniq. intuition.
Qed.
Lemma In_addp_uniq l x y : In y (addp_uniq l x) <-> In y l \/ y = x.
Proof.
  unfold addp_uniq. destruct (memp x l) eqn:E.
  - apply memp_In in E. split; [auto | intros [H | ->]; auto].
  - rewrite in_app_iff. simpl. intuition.
Qed.
Lemma In_addps xs : forall l y, In y (addps l xs) <-> In y l \/ In y xs.
Proof.
  unfold addps. induction xs as [|x xs IH]; intros l y; simpl.
  - intuition.
  - rewrite IH, In_addp_uniq. intuition.
Qed.
Lemma NoDup_snoc (l : list name) x : NoDup l -> ~ In x l -> NoDup (l ++ [x]).
Proof.
  induction l as [|a l IH]; simpl; intros H Hx.
  - constructor; [intros []|constructor].
  - inversion H; subst. constructor.
    + rewrite in_app_iff. simpl. intros [Hi | [E | []]]; [contradiction | subst; apply Hx; left; reflexivity].
    + apply IH; [assumption | intro Hi; apply Hx; right; exact Hi].
Qed.
Lemma NoDup_add_uniq l x : NoDup l -> NoDup (add_uniq l x).
Proof.
  intro H. unfold add_uniq. destruct (mem x l) eqn:E; [exact H|].
  apply mem_false in E. apply NoDup_snoc; assumption.
Qed.
Lemma NoDup_adds xs : forall l, NoDup l -> NoDup (adds l xs).
Proof.
  unfold adds. induction xs as [|x xs IH]; intros l H; simpl; [exact H|].
  apply IH. apply NoDup_add_uniq. exact H.
Qed.
Lemma In_reorder o own x : In x (reorder o own) <-> In x own.
Proof.
  unfold reorder. rewrite in_app_iff, !filter_In, In_adds. simpl.
  rewrite mem_In. split.
  - intros [[_ H] | [H _]]; exact H.
  - intro H. destruct (mem x o) eqn:E.
    + left. apply mem_In in E. auto.
    + right. auto.
Qed.

(* fold_left of a monotone "add" *)
Lemma fold_left_In_gen {A B} (f : list B -> A -> list B) (g : A -> B -> Prop) :
  (forall l a y, In y (f l a) <-> In y l \/ g a y) ->
  forall xs l y, In y (fold_left f xs l) <-> In y l \/ exists a, In a xs /\ g a y.
Proof.
  intros Hf xs. induction xs as [|a xs IH]; intros l y; simpl.
  - split; [auto | intros [H | [a [[] _]]]; exact H].
  - rewrite IH, Hf. split.
    + intros [[H | H] | [a' [Ha Hg]]]; eauto.
    + intros [H | [a' [[-> | Ha] Hg]]]; eauto.
Qed.

(* ------------------------------------------- 1. _build_tree: membership *)
Lemma In_edges evs p c :
  In (p, c) (edges evs) <-> exists ev, In ev evs /\ ve_fn ev = c /\ In p (ve_ps ev).
Proof.
  unfold edges.
  rewrite (fold_left_In_gen _ (fun ev y => In y (map (fun p => (p, ve_fn ev)) (ve_ps ev)))).
  - simpl. split.
    + intros [[] | [ev [Hev H]]]. apply in_map_iff in H as [p' [E Hp]]. inversion E; subst. eauto.
    + intros [ev [Hev [E Hp]]]. right. exists ev. split; [exact Hev|].
      apply in_map_iff. exists p. subst. auto.
  - intros. apply In_addps.
Qed.
Lemma In_flat_order evs n :
  In n (flat_order evs) <-> exists ev, In ev evs /\ (ve_fn ev = n \/ In n (ve_ps ev)).
Proof.
  unfold flat_order.
  rewrite (fold_left_In_gen _ (fun ev y => y = ve_fn ev \/ In y (ve_ps ev))).
  - simpl. split.
    + intros [[] | [ev [Hev [H | H]]]]; eauto.
    + intros [ev [Hev [H | H]]]; right; exists ev; auto.
  - intros. rewrite In_adds, In_add_uniq. tauto.
Qed.
Lemma In_roots evs n :
  In n (roots evs) <-> exists ev, In ev evs /\ ve_fn ev = n /\ ve_root ev = true.
Proof.
  unfold roots.
  rewrite (fold_left_In_gen _ (fun ev y => y = ve_fn ev /\ ve_root ev = true)).
  - simpl. split.
    + intros [[] | [ev [Hev [H1 H2]]]]; eauto.
    + intros [ev [Hev [H1 H2]]]; right; exists ev; auto.
  - intros l a y. destruct (ve_root a).
    + rewrite In_add_uniq. intuition.
    + intuition. discriminate.
Qed.
Lemma In_events e ev :
  In ev (events e) <->
  exists b, In b (build_order e) /\ In (ve_fn ev) (b_own b) /\
            ve_root ev = is_nil (a_deps (b_alg b)) /\ ve_ps ev = b_ins e b.
Proof.
  unfold events, alg_events. rewrite in_flat_map. split.
  - intros [b [Hb H]]. apply in_map_iff in H as [fn [E Hfn]]. subst ev. simpl. eauto.
  - intros [b [Hb [H1 [H2 H3]]]]. exists b. split; [exact Hb|].
    apply in_map_iff. exists (ve_fn ev). split; [|exact H1].
    destruct ev; simpl in *; subst; reflexivity.
Qed.
Lemma In_kids E p c : In c (kids E p) <-> In (p, c) E.
Proof.
  unfold kids. rewrite in_map_iff. split.
  - intros [[p' c'] [E1 H]]. simpl in *. subst. apply filter_In in H as [H E2].
    simpl in E2. apply name_eqb_eq in E2. subst. exact H.
  - intro H. exists (p, c). split; [reflexivity|]. apply filter_In. split; [exact H|].
    simpl. apply name_eqb_refl.
Qed.
Lemma In_parents_of P c p : In p (parents_of P c) <-> In (c, p) P.
Proof. apply In_kids. Qed.

(* value-level edges: exactly the declared (expanded) inputs *)
Definition vedge (e : engine) (p c : name) : Prop :=
  exists b, In b (build_order e) /\ In c (b_own b) /\ In p (b_ins e b).
Lemma vedge_iff e p c : In c (kids (edges (events e)) p) <-> vedge e p c.
Proof.
  rewrite In_kids, In_edges. unfold vedge. split.
  - intros [ev [Hev [E Hp]]]. apply In_events in Hev as [b [Hb [H1 [_ H3]]]].
    exists b. subst. rewrite <- H3. auto.
  - intros [b [Hb [Hc Hp]]].
    exists (mkEv c (is_nil (a_deps (b_alg b))) (b_ins e b)). simpl. repeat split; auto.
    apply In_events. exists b. simpl. auto.
Qed.
Definition owned (e : engine) (n : name) : Prop := exists b, In b (build_order e) /\ In n (b_own b).
Lemma In_flat e n :
  In n (flat_order (events e)) <-> owned e n \/ exists c, vedge e n c.
Proof.
  rewrite In_flat_order. split.
  - intros [ev [Hev H]]. apply In_events in Hev as [b [Hb [H1 [_ H3]]]]. destruct H as [H | H].
    + left. exists b. subst. auto.
    + right. exists (ve_fn ev), b. rewrite <- H3. auto.
  - intros [[b [Hb Hn]] | [c [b [Hb [Hc Hp]]]]].
    + exists (mkEv n (is_nil (a_deps (b_alg b))) (b_ins e b)). simpl. split; [|auto].
      apply In_events. exists b. simpl. auto.
    + exists (mkEv c (is_nil (a_deps (b_alg b))) (b_ins e b)). simpl. split; [|auto].
      apply In_events. exists b. simpl. auto.
Qed.
Lemma In_roots_e e n :
  In n (roots (events e)) <-> exists b, In b (build_order e) /\ In n (b_own b) /\ a_deps (b_alg b) = [].
Proof.
  rewrite In_roots. split.
  - intros [ev [Hev [E Hr]]]. apply In_events in Hev as [b [Hb [H1 [H2 _]]]].
    exists b. subst. repeat split; auto. rewrite Hr in H2. destruct (a_deps (b_alg b)); [reflexivity | discriminate].
  - intros [b [Hb [Hn Hd]]]. exists (mkEv n true (b_ins e b)). simpl. repeat split.
    apply In_events. exists b. simpl. rewrite Hd. auto.
Qed.

Lemma own_tag pkg a n : In n (own pkg a) -> trim 2 n = [pkg; a_name a].
Proof.
  unfold own, sv_values. intro H. apply in_flat_map in H as [s [_ H]].
  apply in_map_iff in H as [v [E _]]. subst. reflexivity.
Qed.
Lemma b_own_tag b n : In n (b_own b) -> trim 2 n = b_tag b.
Proof. apply own_tag. Qed.
Lemma own_len pkg a n : In n (own pkg a) -> length n = 4.
Proof.
  unfold own, sv_values. intro H. apply in_flat_map in H as [s [_ H]].
  apply in_map_iff in H as [v [E _]]. subst. reflexivity.
Qed.

(* --------------------------------------------------- 2. _parents (DFS) *)
Section ParDfs.
  Variable E : list (name * name).
  Variable rv : name -> nat.
  Variable N : nat.
  Definition xedge (p c : name) : Prop := In c (xkids E p).
  Hypothesis Hmono : forall p c, xedge p c -> rv p < rv c.
  Hypothesis Hbound : forall p c, xedge p c -> rv c < N.

  Definition preach (rts : list name) (n : name) : Prop :=
    exists r, In r rts /\ clos_refl_trans name xedge r n.

  Definition pstep (f : nat) (st : pst) (node : name) : pst :=
    let known := add_uniq (fst st) node in
    let ch := xkids E node in
    let par := addps (snd st) (map (fun c => (c, node)) ch) in
    par_dfs E f (filter (fun c => negb (mem c known)) ch) (known, par).
  Lemma par_dfs_S f nodes st : par_dfs E (S f) nodes st = fold_left (pstep f) nodes st.
  Proof. reflexivity. Qed.

  (* what a call guarantees *)
  Definition ppost (nodes : list name) (st st' : pst) : Prop :=
    (forall k, In k (fst st) -> In k (fst st')) /\
    (forall m, In m (snd st) -> In m (snd st')) /\
    (forall n, In n nodes -> In n (fst st')) /\
    (forall k, In k (fst st') -> In k (fst st) \/ forall c, xedge k c -> In c (fst st')) /\
    ((forall k c, In k (fst st) -> xedge k c -> In (c, k) (snd st)) ->
     (forall k c, In k (fst st') -> xedge k c -> In (c, k) (snd st'))) /\
    (forall k, In k (fst st') -> In k (fst st) \/ preach nodes k) /\
    (forall c p, In (c, p) (snd st') -> In (c, p) (snd st) \/ (In p (fst st') /\ xedge p c)).

  Lemma ppost_nil st : ppost [] st st.
  Proof. unfold ppost. repeat split; auto. intros n []. Qed.

  Lemma ppost_cons n ns st st1 st2 :
    ppost [n] st st1 -> ppost ns st1 st2 -> ppost (n :: ns) st st2.
  Proof.
    intros (A1 & A2 & A3 & A4 & A5 & A6 & A7) (B1 & B2 & B3 & B4 & B5 & B6 & B7).
    unfold ppost. repeat split.
    - auto.
    - auto.
    - intros x [<- | Hx]; [apply B1, A3; left; reflexivity | apply B3; exact Hx].
    - intros k Hk. destruct (B4 k Hk) as [H | H]; [|right; exact H].
      destruct (A4 k H) as [H' | H']; [left; exact H' | right; intros c Hc; apply B1, H'; exact Hc].
    - auto.
    - intros k Hk. destruct (B6 k Hk) as [H | [r [Hr Hp]]].
      + destruct (A6 k H) as [H' | [r [Hr Hp]]]; [left; exact H' | right].
        exists r. split; [|exact Hp]. destruct Hr as [<- | []]. left. reflexivity.
      + right. exists r. split; [right; exact Hr | exact Hp].
    - intros c p H. destruct (B7 c p H) as [H' | H']; [|right; exact H'].
      destruct (A7 c p H') as [H'' | [H1 H2]]; [left; exact H'' | right; split; [apply B1; exact H1 | exact H2]].
  Qed.

  Lemma ppost_fold f : 
    (forall n st, rv n < N -> N <= rv n + S f -> ppost [n] st (pstep f st n)) ->
    forall nodes st, (forall n, In n nodes -> rv n < N /\ N <= rv n + S f) ->
                     ppost nodes st (fold_left (pstep f) nodes st).
  Proof.
    intros Hstep nodes. induction nodes as [|n ns IH]; intros st Hn; simpl.
    - apply ppost_nil.
    - eapply ppost_cons.
      + apply Hstep; apply Hn; left; reflexivity.
      + apply IH. intros m Hm. apply Hn. right. exact Hm.
  Qed.

  Lemma par_dfs_post : forall f nodes st,
    (forall n, In n nodes -> rv n < N /\ N <= rv n + f) -> ppost nodes st (par_dfs E f nodes st).
  Proof.
    induction f as [|f IH]; intros nodes st Hn.
    - destruct nodes as [|n ns]; [apply ppost_nil|].
      destruct (Hn n (or_introl eq_refl)). lia.
    - rewrite par_dfs_S. apply ppost_fold; [|exact Hn].
      clear nodes st Hn. intros n st Hlt Hge. unfold pstep.
      set (known := add_uniq (fst st) n).
      set (ch := xkids E n).
      set (par := addps (snd st) (map (fun c => (c, n)) ch)).
      set (ch' := filter (fun c => negb (mem c known)) ch).
      assert (Hch : forall c, In c ch' -> rv c < N /\ N <= rv c + f).
      { intros c Hc. apply filter_In in Hc as [Hc _]. split.
        - eapply Hbound. exact Hc.
        - apply Hmono in Hc. lia. }
      specialize (IH ch' (known, par) Hch).
      destruct IH as (B1 & B2 & B3 & B4 & B5 & B6 & B7). simpl in *.
      assert (Hk : forall k, In k known <-> In k (fst st) \/ k = n) by (intro; apply In_add_uniq).
      assert (Hp : forall m, In m par <-> In m (snd st) \/ In m (map (fun c => (c, n)) ch))
        by (intro; apply In_addps).
      unfold ppost. repeat split.
      + intros k H. apply B1, Hk. left. exact H.
      + intros m H. apply B2, Hp. left. exact H.
      + intros x [<- | []]. apply B1, Hk. right. reflexivity.
      + intros k H. destruct (B4 k H) as [H' | H']; [|right; exact H'].
        apply Hk in H' as [H' | ->]; [left; exact H'|]. right. intros c Hc.
        destruct (mem c known) eqn:Em.
        * apply B1. apply mem_In. exact Em.
        * apply B3. apply filter_In. split; [exact Hc | rewrite Em; reflexivity].
      + intros Hinv. apply B5. intros k c Hkk Hc. apply Hp. apply Hk in Hkk as [Hkk | ->].
        * left. apply Hinv; assumption.
        * right. apply in_map_iff. exists c. split; [reflexivity | exact Hc].
      + intros k H. destruct (B6 k H) as [H' | [r [Hr Hrp]]].
        * apply Hk in H' as [H' | ->]; [left; exact H' | right].
          exists n. split; [left; reflexivity | apply rt_refl].
        * right. exists n. split; [left; reflexivity|].
          apply filter_In in Hr as [Hr _].
          eapply rt_trans; [apply rt_step; exact Hr | exact Hrp].
      + intros c p H. destruct (B7 c p H) as [H' | H']; [|right; exact H'].
        apply Hp in H' as [H' | H']; [left; exact H' | right].
        apply in_map_iff in H' as [c' [E' Hc']]. inversion E'; subst. split; [|exact Hc'].
        apply B1, Hk. right. reflexivity.
  Qed.

  (* the top-level call *)
  Theorem par_dfs_spec fuel rts :
    (forall r, In r rts -> rv r < N /\ N <= rv r + fuel) ->
    forall c p, In (c, p) (snd (par_dfs E fuel rts ([], []))) <-> preach rts p /\ xedge p c.
  Proof.
    intros Hr c p. pose proof (par_dfs_post fuel rts ([], []) Hr) as (B1 & B2 & B3 & B4 & B5 & B6 & B7).
    simpl in *. split.
    - intro H. destruct (B7 c p H) as [[] | [Hk Hx]]. split; [|exact Hx].
      destruct (B6 p Hk) as [[] | H']. exact H'.
    - intros [[r [Hrr Hp]] Hx]. apply B5; [intros k c' [] | | exact Hx].
      assert (Hk : In r (fst (par_dfs E fuel rts ([], [])))) by (apply B3; exact Hrr).
      clear Hrr. apply clos_rt_rt1n in Hp. induction Hp as [|x y z Hxy Hyz IHp]; [exact Hk|].
      apply IHp; [exact Hx|]. destruct (B4 x Hk) as [[] | Hc]. apply Hc. exact Hxy.
  Qed.
End ParDfs.

(* ------------------------------------------------- 3. _ancestry (closure) *)
Lemma ct_last {A} (R : relation A) a p :
  clos_trans A R a p -> R a p \/ exists g, clos_trans A R a g /\ R g p.
Proof.
  intro H. apply clos_trans_tn1 in H. destruct H as [p H | p q Hpq Hap].
  - left. exact H.
  - right. exists p. split; [apply clos_tn1_trans; exact Hap | exact Hpq].
Qed.
Section Ancestry.
  Variable P : list (name * name).          (* (child, parent) *)
  Variable rv : name -> nat.
  Definition pedge (a n : name) : Prop := In (n, a) P.
  Hypothesis Hdec : forall a n, pedge a n -> rv a < rv n.

  Lemma In_grands ps g :
    In g (fold_left (fun g p => adds g (parents_of P p)) ps []) <-> exists p, In p ps /\ pedge g p.
  Proof.
    rewrite (fold_left_In_gen _ (fun p y => In y (parents_of P p))).
    - simpl. split.
      + intros [[] | [p [Hp H]]]. exists p. split; [exact Hp | apply In_parents_of; exact H].
      + intros [p [Hp H]]. right. exists p. split; [exact Hp | apply In_parents_of; exact H].
    - intros. apply In_adds.
  Qed.

  Lemma anc_loop_spec nm : forall f H Ps,
    (forall p, In p Ps -> rv p < f /\ rv p < rv nm) ->
    forall a, In a (anc_loop P f nm H Ps) <-> In a H \/ exists p, In p Ps /\ clos_trans name pedge a p.
  Proof.
    induction f as [|f IH]; intros H Ps HPs a.
    - simpl. split; [auto|]. intros [Ha | [p [Hp _]]]; [exact Ha|]. destruct (HPs p Hp). lia.
    - simpl. destruct Ps as [|p0 Ps0] eqn:EPs.
      + split; [auto | intros [Ha | [p [[] _]]]; exact Ha].
      + rewrite <- EPs in *. clear EPs p0 Ps0.
        set (flt := filter (fun p => negb (name_eqb p nm)) Ps).
        assert (Hflt : forall p, In p flt <-> In p Ps).
        { intro p. unfold flt. rewrite filter_In. split; [tauto|]. intro Hp. split; [exact Hp|].
          destruct (name_eqb p nm) eqn:Ee; [|reflexivity]. apply name_eqb_eq in Ee. subst.
          destruct (HPs nm Hp). lia. }
        set (grands := fold_left (fun g p => adds g (parents_of P p)) flt []).
        assert (Hg : forall g, In g grands <-> exists p, In p Ps /\ pedge g p).
        { intro g. unfold grands. rewrite In_grands. split; intros [p [Hp Hgp]]; exists p; split; auto; apply Hflt; exact Hp. }
        rewrite IH.
        * rewrite In_adds. split.
          -- intros [[Ha | Ha] | [g [Hgg Hc]]]; [left; exact Ha | right | right].
             ++ apply Hg in Ha as [p [Hp Hap]]. exists p. split; [exact Hp | apply t_step; exact Hap].
             ++ apply Hg in Hgg as [p [Hp Hgp]]. exists p. split; [exact Hp|].
                eapply t_trans; [exact Hc | apply t_step; exact Hgp].
          -- intros [Ha | [p [Hp Hc]]]; [left; left; exact Ha|].
             apply ct_last in Hc as [Hap | [g [Hag Hgp]]].
             ++ left. right. apply Hg. exists p. auto.
             ++ right. exists g. split; [apply Hg; exists p; auto | exact Hag].
        * intros g Hgg. apply Hg in Hgg as [p [Hp Hgp]]. apply Hdec in Hgp. destruct (HPs p Hp). lia.
  Qed.

  Theorem ancestry_spec fuel nm : rv nm <= fuel ->
    forall a, In a (ancestry P fuel nm) <-> clos_trans name pedge a nm.
  Proof.
    intros Hf a. unfold ancestry. rewrite anc_loop_spec.
    - rewrite In_adds. simpl. split.
      + intros [[[] | Ha] | [p [Hp Hc]]].
        * apply t_step. apply In_parents_of. exact Ha.
        * rewrite In_adds in Hp. destruct Hp as [[] | Hp].
          eapply t_trans; [exact Hc | apply t_step; apply In_parents_of; exact Hp].
      + intro Hc. apply ct_last in Hc as [Hap | [g [Hag Hgp]]].
        * left. right. apply In_parents_of. exact Hap.
        * right. exists g. split; [rewrite In_adds; right; apply In_parents_of; exact Hgp | exact Hag].
    - intros p Hp. rewrite In_adds in Hp. destruct Hp as [[] | Hp].
      apply In_parents_of in Hp. apply Hdec in Hp. lia.
  Qed.
End Ancestry.

(* ---------------------------------------------------- 4. Node.trim (DFS) *)
Lemma filter_len_le {A} (f g : A -> bool) l :
  (forall u, In u l -> f u = true -> g u = true) -> length (filter f l) <= length (filter g l).
Proof.
  induction l as [|a l IH]; intro H; simpl; [lia|].
  assert (IH' : length (filter f l) <= length (filter g l)) by (apply IH; intros; apply H; [right|]; assumption).
  destruct (f a) eqn:Ef.
  - rewrite (H a (or_introl eq_refl) Ef). simpl. lia.
  - destruct (g a); simpl; lia.
Qed.
Lemma filter_len_lt {A} (f g : A -> bool) l v :
  (forall u, In u l -> f u = true -> g u = true) -> In v l -> f v = false -> g v = true ->
  length (filter f l) < length (filter g l).
Proof.
  induction l as [|a l IH]; intros H Hv Hf Hg; simpl; [destruct Hv|].
  assert (Hl : forall u, In u l -> f u = true -> g u = true) by (intros; apply H; [right|]; assumption).
  destruct Hv as [-> | Hv].
  - rewrite Hf, Hg. simpl. pose proof (filter_len_le f g l Hl). lia.
  - specialize (IH Hl Hv Hf Hg). destruct (f a) eqn:Ef.
    + rewrite (H a (or_introl eq_refl) Ef). simpl. lia.
    + destruct (g a); simpl; lia.
Qed.

Lemma filter_len_all {A} (f : A -> bool) l : length (filter f l) <= length l.
Proof. induction l as [|a l IH]; simpl; [lia|]. destruct (f a); simpl; lia. Qed.

Section TrimDfs.
  Variables K FB : name -> list name.
  Variable L : nat.
  Variable U : list name.
  Hypothesis UK : forall v c, In v U -> In c (K v) -> In c U.
  Hypothesis UF : forall v c, In v U -> In c (FB v) -> In c U.

  Definition sedge (a b : name) : Prop := In b (FB a) \/ In b (K a).
  Definition unvis (vis : list name) : nat := length (filter (fun u => negb (mem u vis)) U).
  Lemma unvis_mono vis vis' : (forall k, In k vis -> In k vis') -> unvis vis' <= unvis vis.
  Proof.
    intro H. apply filter_len_le. intros u _ Hu. apply negb_true_iff in Hu. apply negb_true_iff.
    apply mem_false. apply mem_false in Hu. intro Hi. apply Hu. apply H. exact Hi.
  Qed.
  Lemma unvis_lt vis v : In v U -> ~ In v vis -> unvis (vis ++ [v]) < unvis vis.
  Proof.
    intros HU Hv. apply filter_len_lt with (v := v).
    - intros u _ Hu. apply negb_true_iff in Hu. apply negb_true_iff.
      apply mem_false. apply mem_false in Hu. intro Hi. apply Hu. apply in_or_app. left. exact Hi.
    - exact HU.
    - apply negb_false_iff. apply mem_In. apply in_or_app. right. left. reflexivity.
    - apply negb_true_iff. apply mem_false. exact Hv.
  Qed.

  Definition complete (k : name) (s : tst) : Prop :=
    (forall x, In x (FB k) -> In x (fst s) /\ In (EFb (trim L k) (trim L x)) (snd s)) /\
    (forall c, In c (K k) -> In c (fst s) /\ In (EKid (trim L k) (trim L c)) (snd s)).
  Definition sound_ev (vis : list name) (ev : tev) : Prop :=
    exists k, In k vis /\
      ((exists x, In x (FB k) /\ ev = EFb (trim L k) (trim L x)) \/
       (exists c, In c (K k) /\ ev = EKid (trim L k) (trim L c))).
  Definition mono (s s' : tst) : Prop :=
    (forall k, In k (fst s) -> In k (fst s')) /\ (forall ev, In ev (snd s) -> In ev (snd s')).
  Lemma complete_mono k s s' : mono s s' -> complete k s -> complete k s'.
  Proof.
    intros [M1 M2] [C1 C2]. split; intros x Hx; [destruct (C1 x Hx) | destruct (C2 x Hx)]; split; auto.
  Qed.
  Lemma sound_mono vis vis' ev : (forall k, In k vis -> In k vis') -> sound_ev vis ev -> sound_ev vis' ev.
  Proof. intros M [k [Hk H]]. exists k. split; [apply M; exact Hk | exact H]. Qed.

  Definition tpost (v : name) (s s' : tst) : Prop :=
    mono s s' /\ In v (fst s') /\
    (forall k, In k (fst s') -> In k (fst s) \/ complete k s') /\
    (forall k, In k (fst s') -> In k (fst s) \/ clos_refl_trans name sedge v k) /\
    (forall ev, In ev (snd s') -> In ev (snd s) \/ sound_ev (fst s') ev).

  Definition tfold (mk : name -> tev) (f : nat) (xs : list name) (s : tst) : tst :=
    fold_left (fun s x => let s' := trim_dfs K FB L f x s in (fst s', snd s' ++ [mk x])) xs s.
  Definition fpost (mk : name -> tev) (xs : list name) (s s' : tst) : Prop :=
    mono s s' /\
    (forall x, In x xs -> In x (fst s') /\ In (mk x) (snd s')) /\
    (forall k, In k (fst s') -> In k (fst s) \/ complete k s') /\
    (forall k, In k (fst s') -> In k (fst s) \/ exists x, In x xs /\ clos_refl_trans name sedge x k) /\
    (forall ev, In ev (snd s') -> In ev (snd s) \/ (exists x, In x xs /\ ev = mk x) \/ sound_ev (fst s') ev).

  Lemma tfold_post mk f :
    (forall x s, In x U -> unvis (fst s) < f -> tpost x s (trim_dfs K FB L f x s)) ->
    forall xs s, (forall x, In x xs -> In x U) -> unvis (fst s) < f ->
                 fpost mk xs s (tfold mk f xs s).
  Proof.
    intros Hcall xs. induction xs as [|x xs IH]; intros s HU Hf.
    - simpl. unfold fpost, mono. repeat split; auto; simpl in *; contradiction.
    - simpl. set (s1 := trim_dfs K FB L f x s).
      destruct (Hcall x s (HU x (or_introl eq_refl)) Hf) as ([M1 M2] & T2 & T3 & T4 & T5).
      fold s1 in M1, M2, T2, T3, T4, T5.
      set (s1' := (fst s1, snd s1 ++ [mk x])).
      assert (M11 : mono s1 s1') by (split; simpl; auto; intros; apply in_or_app; left; assumption).
      assert (Hf1 : unvis (fst s1') < f) by (simpl; pose proof (unvis_mono _ _ M1); lia).
      destruct (IH s1' (fun y Hy => HU y (or_intror Hy)) Hf1) as ([N1 N2] & F2 & F3 & F4 & F5).
      fold (tfold mk f xs s1') in *. set (s2 := tfold mk f xs s1') in *.
      unfold fpost, mono. repeat split.
      + intros k Hk. apply N1. simpl. apply M1. exact Hk.
      + intros ev Hev. apply N2. simpl. apply in_or_app. left. apply M2. exact Hev.
      + destruct H as [<- | Hx]; [apply N1; exact T2 | apply F2; exact Hx].
      + destruct H as [<- | Hx]; [apply N2; simpl; apply in_or_app; right; left; reflexivity | apply F2; exact Hx].
      + intros k Hk. destruct (F3 k Hk) as [H | H]; [|right; exact H]. simpl in H.
        destruct (T3 k H) as [H' | H']; [left; exact H' | right].
        apply complete_mono with (s := s1'); [split; assumption|].
        apply complete_mono with (s := s1); assumption.
      + intros k Hk. destruct (F4 k Hk) as [H | [y [Hy Hr]]].
        * simpl in H. destruct (T4 k H) as [H' | H']; [left; exact H' | right].
          exists x. split; [left; reflexivity | exact H'].
        * right. exists y. split; [right; exact Hy | exact Hr].
      + intros ev Hev. destruct (F5 ev Hev) as [H | [[y [Hy E]] | H]].
        * simpl in H. apply in_app_or in H as [H | [<- | []]].
          -- destruct (T5 ev H) as [H' | H']; [left; exact H' | right; right].
             eapply sound_mono; [|exact H']. intros k Hk. apply N1. exact Hk.
          -- right. left. exists x. split; [left|]; reflexivity.
        * right. left. exists y. split; [right; exact Hy | exact E].
        * right. right. exact H.
  Qed.

  Lemma trim_dfs_post : forall f v s, In v U -> unvis (fst s) < f -> tpost v s (trim_dfs K FB L f v s).
  Proof.
    induction f as [|f IH]; intros v s HvU Hf; [lia|].
    cbn [trim_dfs]. destruct (mem v (fst s)) eqn:Em.
    - apply mem_In in Em. unfold tpost, mono. repeat split; auto.
    - apply mem_false in Em.
      set (s1 := (fst s ++ [v], snd s)).
      assert (M01 : mono s s1) by (split; simpl; auto; intros; apply in_or_app; left; assumption).
      assert (Hf1 : unvis (fst s1) < f) by (simpl; pose proof (unvis_lt (fst s) v HvU Em); lia).
      fold (tfold (fun x => EFb (trim L v) (trim L x)) f (FB v) s1).
      set (s2 := tfold (fun x => EFb (trim L v) (trim L x)) f (FB v) s1).
      destruct (tfold_post (fun x => EFb (trim L v) (trim L x)) f IH (FB v) s1
                           (fun x Hx => UF v x HvU Hx) Hf1) as ([A1 A2] & A3 & A4 & A5 & A6).
      fold s2 in A1, A2, A3, A4, A5, A6.
      assert (Hf2 : unvis (fst s2) < f) by (pose proof (unvis_mono _ _ A1); lia).
      fold (tfold (fun c => EKid (trim L v) (trim L c)) f (K v) s2).
      set (s3 := tfold (fun c => EKid (trim L v) (trim L c)) f (K v) s2).
      destruct (tfold_post (fun c => EKid (trim L v) (trim L c)) f IH (K v) s2
                           (fun x Hx => UK v x HvU Hx) Hf2) as ([B1 B2] & B3 & B4 & B5 & B6).
      fold s3 in B1, B2, B3, B4, B5, B6.
      assert (Hv3 : In v (fst s3)) by (apply B1, A1; simpl; apply in_or_app; right; left; reflexivity).
      unfold tpost, mono. repeat split.
      + intros k Hk. apply B1, A1. simpl. apply in_or_app. left. exact Hk.
      + intros ev Hev. apply B2, A2. exact Hev.
      + exact Hv3.
      + intros k Hk. destruct (B4 k Hk) as [H | H]; [|right; exact H].
        destruct (A4 k H) as [H' | H'].
        * simpl in H'. apply in_app_or in H' as [H' | [<- | []]]; [left; exact H' | right].
          split; intros x Hx.
          -- destruct (A3 x Hx). split; [apply B1 | apply B2]; assumption.
          -- apply B3. exact Hx.
        * right. apply complete_mono with (s := s2); [split; assumption | exact H'].
      + intros k Hk. destruct (B5 k Hk) as [H | [c [Hc Hr]]].
        * destruct (A5 k H) as [H' | [x [Hx Hr]]].
          -- simpl in H'. apply in_app_or in H' as [H' | [<- | []]]; [left; exact H' | right; apply rt_refl].
          -- right. eapply rt_trans; [apply rt_step; left; exact Hx | exact Hr].
        * right. eapply rt_trans; [apply rt_step; right; exact Hc | exact Hr].
      + intros ev Hev. destruct (B6 ev Hev) as [H | [[c [Hc E]] | H]].
        * destruct (A6 ev H) as [H' | [[x [Hx E]] | H']].
          -- left. exact H'.
          -- right. exists v. split; [exact Hv3 | left; exists x; auto].
          -- right. eapply sound_mono; [|exact H']. exact B1.
        * right. exists v. split; [exact Hv3 | right; exists c; auto].
        * right. exact H.
  Qed.

  (* _trim_trees: the loop over the roots *)
  Theorem trim_run_spec fuel rts :
    (forall r, In r rts -> In r U) -> length U < fuel ->
    let s := trim_run K FB L fuel rts in
    (forall r, In r rts -> In r (fst s)) /\
    (forall k, In k (fst s) -> complete k s) /\
    (forall k, In k (fst s) -> exists r, In r rts /\ clos_refl_trans name sedge r k) /\
    (forall ev, In ev (snd s) -> sound_ev (fst s) ev).
  Proof.
    intros HU Hfuel. unfold trim_run.
    assert (G : forall rts s0, (forall r, In r rts -> In r U) -> unvis (fst s0) < fuel ->
      let s := fold_left (fun s r => trim_dfs K FB L fuel r s) rts s0 in
      mono s0 s /\ (forall r, In r rts -> In r (fst s)) /\
      (forall k, In k (fst s) -> In k (fst s0) \/ complete k s) /\
      (forall k, In k (fst s) -> In k (fst s0) \/ exists r, In r rts /\ clos_refl_trans name sedge r k) /\
      (forall ev, In ev (snd s) -> In ev (snd s0) \/ sound_ev (fst s) ev)).
    { clear rts HU. induction rts as [|r rts IH]; intros s0 HU Hf; simpl.
      - unfold mono. repeat split; auto. intros r [].
      - destruct (trim_dfs_post fuel r s0 (HU r (or_introl eq_refl)) Hf) as ([M1 M2] & T2 & T3 & T4 & T5).
        set (s1 := trim_dfs K FB L fuel r s0) in *.
        assert (Hf1 : unvis (fst s1) < fuel) by (pose proof (unvis_mono _ _ M1); lia).
        destruct (IH s1 (fun y Hy => HU y (or_intror Hy)) Hf1) as ([N1 N2] & F2 & F3 & F4 & F5).
        set (s2 := fold_left (fun s r => trim_dfs K FB L fuel r s) rts s1) in *.
        unfold mono. repeat split; auto.
        + intros x [<- | Hx]; [apply N1; exact T2 | apply F2; exact Hx].
        + intros k Hk. destruct (F3 k Hk) as [H | H]; [|right; exact H].
          destruct (T3 k H) as [H' | H']; [left; exact H' | right].
          apply complete_mono with (s := s1); [split; assumption | exact H'].
        + intros k Hk. destruct (F4 k Hk) as [H | [y [Hy Hr]]].
          * destruct (T4 k H) as [H' | H']; [left; exact H' | right]. exists r. split; [left; reflexivity | exact H'].
          * right. exists y. split; [right; exact Hy | exact Hr].
        + intros ev Hev. destruct (F5 ev Hev) as [H | H]; [|right; exact H].
          destruct (T5 ev H) as [H' | H']; [left; exact H' | right].
          eapply sound_mono; [|exact H']. exact N1. }
    assert (H0 : unvis (fst (([], []) : tst)) < fuel).
    { unfold unvis. pose proof (filter_len_all (fun u => negb (mem u (fst (([], []) : tst)))) U). lia. }
    destruct (G rts (@nil name, @nil tev) HU H0) as (_ & G2 & G3 & G4 & G5). simpl in *.
    split; [exact G2|]. split; [|split].
    - intros k Hk. destruct (G3 k Hk) as [[] | C]. exact C.
    - intros k Hk. destruct (G4 k Hk) as [[] | Hr]. exact Hr.
    - intros ev Hev. destruct (G5 ev Hev) as [[] | Hs]. exact Hs.
  Qed.
End TrimDfs.
