From DV Require Import Model.Dag.
From Coq Require Import List Arith Bool Lia.
Import ListNotations.
