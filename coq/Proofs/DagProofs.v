(* DagProofs.v -- lemmas about the model of dawgie.pl.dag.Construct (C09). *)
From DV Require Import Model.Dag.
From Coq Require Import List Arith Bool Lia Relations.
Import ListNotations.

(* ------------------------------------------------------------ 0. basics *)
Lemma name_eqb_eq a b : name_eqb a b = true <-> a = b.
Proof.
  revert b. induction a as [|x a IH]; destruct b as [|y b]; simpl; split; intro H;
    try discriminate; try reflexivity.
  - apply andb_true_iff in H as [H1 H2]. apply Nat.eqb_eq in H1. apply IH in H2. congruence.
  - inversion H; subst. rewrite Nat.eqb_refl. simpl. apply IH. reflexivity.
Qed.
Lemma name_eqb_refl a : name_eqb a a = true.
Proof. apply name_eqb_eq. reflexivity. Qed.
Lemma name_eqb_neq a b : name_eqb a b = false <-> a <> b.
Proof.
  split; intro H.
  - intro E. apply name_eqb_eq in E. congruence.
  - destruct (name_eqb a b) eqn:E; [apply name_eqb_eq in E; contradiction | reflexivity].
Qed.
Lemma pair_eqb_eq a b : pair_eqb a b = true <-> a = b.
Proof.
  destruct a as [a1 a2], b as [b1 b2]. unfold pair_eqb. simpl.
  rewrite andb_true_iff, !name_eqb_eq. split; [intros [-> ->]; reflexivity | intro H; inversion H; auto].
Qed.
Lemma mem_In x l : mem x l = true <-> In x l.
Proof.
  unfold mem. rewrite existsb_exists. split.
  - intros [y [Hy E]]. apply name_eqb_eq in E. subst. exact Hy.
  - intro H. exists x. split; [exact H | apply name_eqb_refl].
Qed.
Lemma mem_false x l : mem x l = false <-> ~ In x l.
Proof. rewrite <- mem_In. destruct (mem x l); split; congruence. Qed.
Lemma memp_In x l : memp x l = true <-> In x l.
Proof.
  unfold memp. rewrite existsb_exists. split.
  - intros [y [Hy E]]. apply pair_eqb_eq in E. subst. exact Hy.
  - intro H. exists x. split; [exact H | apply pair_eqb_eq; reflexivity].
Qed.

Lemma In_add_uniq l x y : In y (add_uniq l x) <-> In y l \/ y = x.
Proof.
  unfold add_uniq. destruct (mem x l) eqn:E.
  - apply mem_In in E. split; [auto | intros [H | ->]; auto].
  - rewrite in_app_iff. simpl. intuition.
Qed.
Lemma In_adds xs : forall l y, In y (adds l xs) <-> In y l \/ In y xs.
Proof.
  unfold adds. induction xs as [|x xs IH]; intros l y; simpl.
  - intuition.
  - rewrite IH, In_add_uniq. intuition.
Qed.
Lemma In_addp_uniq l x y : In y (addp_uniq l x) <-> In y l \/ y = x.
Proof.
  unfold addp_uniq. destruct (memp x l) eqn:E.
  - apply memp_In in E. split; [auto | intros [H | ->]; auto].
  - rewrite in_app_iff. simpl. intuition.
Qed.
Lemma In_addps xs : forall l y, In y (addps l xs) <-> In y l \/ In y xs.
Proof.
  unfold addps. induction xs as [|x xs IH]; intros l y; simpl.
  - intuition.
  - rewrite IH, In_addp_uniq. intuition.
Qed.
Lemma NoDup_snoc (l : list name) x : NoDup l -> ~ In x l -> NoDup (l ++ [x]).
Proof.
  induction l as [|a l IH]; simpl; intros H Hx.
  - constructor; [intros []|constructor].
  - inversion H; subst. constructor.
    + rewrite in_app_iff. simpl. intros [Hi | [E | []]]; [contradiction | subst; apply Hx; left; reflexivity].
    + apply IH; [assumption | intro Hi; apply Hx; right; exact Hi].
Qed.
Lemma NoDup_add_uniq l x : NoDup l -> NoDup (add_uniq l x).
Proof.
  intro H. unfold add_uniq. destruct (mem x l) eqn:E; [exact H|].
  apply mem_false in E. apply NoDup_snoc; assumption.
Qed.
Lemma NoDup_adds xs : forall l, NoDup l -> NoDup (adds l xs).
Proof.
  unfold adds. induction xs as [|x xs IH]; intros l H; simpl; [exact H|].
  apply IH. apply NoDup_add_uniq. exact H.
Qed.
Lemma In_reorder o own x : In x (reorder o own) <-> In x own.
Proof.
  unfold reorder. rewrite in_app_iff, !filter_In, In_adds. simpl.
  rewrite mem_In. split.
  - intros [[_ H] | [H _]]; exact H.
  - intro H. destruct (mem x o) eqn:E.
    + left. apply mem_In in E. auto.
    + right. auto.
Qed.

(* fold_left of a monotone "add" *)
Lemma fold_left_In_gen {A B} (f : list B -> A -> list B) (g : A -> B -> Prop) :
  (forall l a y, In y (f l a) <-> In y l \/ g a y) ->
  forall xs l y, In y (fold_left f xs l) <-> In y l \/ exists a, In a xs /\ g a y.
Proof.
  intros Hf xs. induction xs as [|a xs IH]; intros l y; simpl.
  - split; [auto | intros [H | [a [[] _]]]; exact H].
  - rewrite IH, Hf. split.
    + intros [[H | H] | [a' [Ha Hg]]]; eauto.
    + intros [H | [a' [[-> | Ha] Hg]]]; eauto.
Qed.

(* ------------------------------------------- 1. _build_tree: membership *)
Lemma In_edges evs p c :
  In (p, c) (edges evs) <-> exists ev, In ev evs /\ ve_fn ev = c /\ In p (ve_ps ev).
Proof.
  unfold edges.
  rewrite (fold_left_In_gen _ (fun ev y => In y (map (fun p => (p, ve_fn ev)) (ve_ps ev)))).
  - simpl. split.
    + intros [[] | [ev [Hev H]]]. apply in_map_iff in H as [p' [E Hp]]. inversion E; subst. eauto.
    + intros [ev [Hev [E Hp]]]. right. exists ev. split; [exact Hev|].
      apply in_map_iff. exists p. subst. auto.
  - intros. apply In_addps.
Qed.
Lemma In_flat_order evs n :
  In n (flat_order evs) <-> exists ev, In ev evs /\ (ve_fn ev = n \/ In n (ve_ps ev)).
Proof.
  unfold flat_order.
  rewrite (fold_left_In_gen _ (fun ev y => y = ve_fn ev \/ In y (ve_ps ev))).
  - simpl. split.
    + intros [[] | [ev [Hev [H | H]]]]; eauto.
    + intros [ev [Hev [H | H]]]; right; exists ev; auto.
  - intros. rewrite In_adds, In_add_uniq. tauto.
Qed.
Lemma In_roots evs n :
  In n (roots evs) <-> exists ev, In ev evs /\ ve_fn ev = n /\ ve_root ev = true.
Proof.
  unfold roots.
  rewrite (fold_left_In_gen _ (fun ev y => y = ve_fn ev /\ ve_root ev = true)).
  - simpl. split.
    + intros [[] | [ev [Hev [H1 H2]]]]; eauto.
    + intros [ev [Hev [H1 H2]]]; right; exists ev; auto.
  - intros l a y. destruct (ve_root a).
    + rewrite In_add_uniq. intuition.
    + intuition. discriminate.
Qed.
Lemma In_events e ev :
  In ev (events e) <->
  exists b, In b (build_order e) /\ In (ve_fn ev) (b_own b) /\
            ve_root ev = is_nil (a_deps (b_alg b)) /\ ve_ps ev = b_ins e b.
Proof.
  unfold events, alg_events. rewrite in_flat_map. split.
  - intros [b [Hb H]]. apply in_map_iff in H as [fn [E Hfn]]. subst ev. simpl. eauto.
  - intros [b [Hb [H1 [H2 H3]]]]. exists b. split; [exact Hb|].
    apply in_map_iff. exists (ve_fn ev). split; [|exact H1].
    destruct ev; simpl in *; subst; reflexivity.
Qed.
Lemma In_kids E p c : In c (kids E p) <-> In (p, c) E.
Proof.
  unfold kids. rewrite in_map_iff. split.
  - intros [[p' c'] [E1 H]]. simpl in *. subst. apply filter_In in H as [H E2].
    simpl in E2. apply name_eqb_eq in E2. subst. exact H.
  - intro H. exists (p, c). split; [reflexivity|]. apply filter_In. split; [exact H|].
    simpl. apply name_eqb_refl.
Qed.
Lemma In_parents_of P c p : In p (parents_of P c) <-> In (c, p) P.
Proof. apply In_kids. Qed.

(* value-level edges: exactly the declared (expanded) inputs *)
Definition vedge (e : engine) (p c : name) : Prop :=
  exists b, In b (build_order e) /\ In c (b_own b) /\ In p (b_ins e b).
Lemma vedge_iff e p c : In c (kids (edges (events e)) p) <-> vedge e p c.
Proof.
  rewrite In_kids, In_edges. unfold vedge. split.
  - intros [ev [Hev [E Hp]]]. apply In_events in Hev as [b [Hb [H1 [_ H3]]]].
    exists b. subst. rewrite <- H3. auto.
  - intros [b [Hb [Hc Hp]]].
    exists (mkEv c (is_nil (a_deps (b_alg b))) (b_ins e b)). simpl. repeat split; auto.
    apply In_events. exists b. simpl. auto.
Qed.
Definition owned (e : engine) (n : name) : Prop := exists b, In b (build_order e) /\ In n (b_own b).
Lemma In_flat e n :
  In n (flat_order (events e)) <-> owned e n \/ exists c, vedge e n c.
Proof.
  rewrite In_flat_order. split.
  - intros [ev [Hev H]]. apply In_events in Hev as [b [Hb [H1 [_ H3]]]]. destruct H as [H | H].
    + left. exists b. subst. auto.
    + right. exists (ve_fn ev), b. rewrite <- H3. auto.
  - intros [[b [Hb Hn]] | [c [b [Hb [Hc Hp]]]]].
    + exists (mkEv n (is_nil (a_deps (b_alg b))) (b_ins e b)). simpl. split; [|auto].
      apply In_events. exists b. simpl. auto.
    + exists (mkEv c (is_nil (a_deps (b_alg b))) (b_ins e b)). simpl. split; [|auto].
      apply In_events. exists b. simpl. auto.
Qed.
Lemma In_roots_e e n :
  In n (roots (events e)) <-> exists b, In b (build_order e) /\ In n (b_own b) /\ a_deps (b_alg b) = [].
Proof.
  rewrite In_roots. split.
  - intros [ev [Hev [E Hr]]]. apply In_events in Hev as [b [Hb [H1 [H2 _]]]].
    exists b. subst. repeat split; auto. rewrite Hr in H2. destruct (a_deps (b_alg b)); [reflexivity | discriminate].
  - intros [b [Hb [Hn Hd]]]. exists (mkEv n true (b_ins e b)). simpl. repeat split.
    apply In_events. exists b. simpl. rewrite Hd. auto.
Qed.

Lemma own_tag pkg a n : In n (own pkg a) -> trim 2 n = [pkg; a_name a].
Proof.
  unfold own, sv_values. intro H. apply in_flat_map in H as [s [_ H]].
  apply in_map_iff in H as [v [E _]]. subst. reflexivity.
Qed.
Lemma b_own_tag b n : In n (b_own b) -> trim 2 n = b_tag b.
Proof. apply own_tag. Qed.
Lemma own_len pkg a n : In n (own pkg a) -> length n = 4.
Proof.
  unfold own, sv_values. intro H. apply in_flat_map in H as [s [_ H]].
  apply in_map_iff in H as [v [E _]]. subst. reflexivity.
Qed.

(* --------------------------------------------------- 2. _parents (DFS) *)
Section ParDfs.
  Variable E : list (name * name).
  Variable rv : name -> nat.
  Variable N : nat.
  Definition xedge (p c : name) : Prop := In c (xkids E p).
  Hypothesis Hmono : forall p c, xedge p c -> rv p < rv c.
  Hypothesis Hbound : forall p c, xedge p c -> rv c < N.

  Definition preach (rts : list name) (n : name) : Prop :=
    exists r, In r rts /\ clos_refl_trans name xedge r n.

  Definition pstep (f : nat) (st : pst) (node : name) : pst :=
    let known := add_uniq (fst st) node in
    let ch := xkids E node in
    let par := addps (snd st) (map (fun c => (c, node)) ch) in
    par_dfs E f (filter (fun c => negb (mem c known)) ch) (known, par).
  Lemma par_dfs_S f nodes st : par_dfs E (S f) nodes st = fold_left (pstep f) nodes st.
  Proof. reflexivity. Qed.

  (* what a call guarantees *)
  Definition ppost (nodes : list name) (st st' : pst) : Prop :=
    (forall k, In k (fst st) -> In k (fst st')) /\
    (forall m, In m (snd st) -> In m (snd st')) /\
    (forall n, In n nodes -> In n (fst st')) /\
    (forall k, In k (fst st') -> In k (fst st) \/ forall c, xedge k c -> In c (fst st')) /\
    ((forall k c, In k (fst st) -> xedge k c -> In (c, k) (snd st)) ->
     (forall k c, In k (fst st') -> xedge k c -> In (c, k) (snd st'))) /\
    (forall k, In k (fst st') -> In k (fst st) \/ preach nodes k) /\
    (forall c p, In (c, p) (snd st') -> In (c, p) (snd st) \/ (In p (fst st') /\ xedge p c)).

  Lemma ppost_nil st : ppost [] st st.
  Proof. unfold ppost. repeat split; auto. intros n []. Qed.

  Lemma ppost_cons n ns st st1 st2 :
    ppost [n] st st1 -> ppost ns st1 st2 -> ppost (n :: ns) st st2.
  Proof.
    intros (A1 & A2 & A3 & A4 & A5 & A6 & A7) (B1 & B2 & B3 & B4 & B5 & B6 & B7).
    unfold ppost. repeat split.
    - auto.
    - auto.
    - intros x [<- | Hx]; [apply B1, A3; left; reflexivity | apply B3; exact Hx].
    - intros k Hk. destruct (B4 k Hk) as [H | H]; [|right; exact H].
      destruct (A4 k H) as [H' | H']; [left; exact H' | right; intros c Hc; apply B1, H'; exact Hc].
    - auto.
    - intros k Hk. destruct (B6 k Hk) as [H | [r [Hr Hp]]].
      + destruct (A6 k H) as [H' | [r [Hr Hp]]]; [left; exact H' | right].
        exists r. split; [|exact Hp]. destruct Hr as [<- | []]. left. reflexivity.
      + right. exists r. split; [right; exact Hr | exact Hp].
    - intros c p H. destruct (B7 c p H) as [H' | H']; [|right; exact H'].
      destruct (A7 c p H') as [H'' | [H1 H2]]; [left; exact H'' | right; split; [apply B1; exact H1 | exact H2]].
  Qed.

  Lemma ppost_fold f : 
    (forall n st, rv n < N -> N <= rv n + S f -> ppost [n] st (pstep f st n)) ->
    forall nodes st, (forall n, In n nodes -> rv n < N /\ N <= rv n + S f) ->
                     ppost nodes st (fold_left (pstep f) nodes st).
  Proof.
    intros Hstep nodes. induction nodes as [|n ns IH]; intros st Hn; simpl.
    - apply ppost_nil.
    - eapply ppost_cons.
      + apply Hstep; apply Hn; left; reflexivity.
      + apply IH. intros m Hm. apply Hn. right. exact Hm.
  Qed.

  Lemma par_dfs_post : forall f nodes st,
    (forall n, In n nodes -> rv n < N /\ N <= rv n + f) -> ppost nodes st (par_dfs E f nodes st).
  Proof.
    induction f as [|f IH]; intros nodes st Hn.
    - destruct nodes as [|n ns]; [apply ppost_nil|].
      destruct (Hn n (or_introl eq_refl)). lia.
    - rewrite par_dfs_S. apply ppost_fold; [|exact Hn].
      clear nodes st Hn. intros n st Hlt Hge. unfold pstep.
      set (known := add_uniq (fst st) n).
      set (ch := xkids E n).
      set (par := addps (snd st) (map (fun c => (c, n)) ch)).
      set (ch' := filter (fun c => negb (mem c known)) ch).
      assert (Hch : forall c, In c ch' -> rv c < N /\ N <= rv c + f).
      { intros c Hc. apply filter_In in Hc as [Hc _]. split.
        - eapply Hbound. exact Hc.
        - apply Hmono in Hc. lia. }
      specialize (IH ch' (known, par) Hch).
      destruct IH as (B1 & B2 & B3 & B4 & B5 & B6 & B7). simpl in *.
      assert (Hk : forall k, In k known <-> In k (fst st) \/ k = n) by (intro; apply In_add_uniq).
      assert (Hp : forall m, In m par <-> In m (snd st) \/ In m (map (fun c => (c, n)) ch))
        by (intro; apply In_addps).
      unfold ppost. repeat split.
      + intros k H. apply B1, Hk. left. exact H.
      + intros m H. apply B2, Hp. left. exact H.
      + intros x [<- | []]. apply B1, Hk. right. reflexivity.
      + intros k H. destruct (B4 k H) as [H' | H']; [|right; exact H'].
        apply Hk in H' as [H' | ->]; [left; exact H'|]. right. intros c Hc.
        destruct (mem c known) eqn:Em.
        * apply B1. apply mem_In. exact Em.
        * apply B3. apply filter_In. split; [exact Hc | rewrite Em; reflexivity].
      + intros Hinv. apply B5. intros k c Hkk Hc. apply Hp. apply Hk in Hkk as [Hkk | ->].
        * left. apply Hinv; assumption.
        * right. apply in_map_iff. exists c. split; [reflexivity | exact Hc].
      + intros k H. destruct (B6 k H) as [H' | [r [Hr Hrp]]].
        * apply Hk in H' as [H' | ->]; [left; exact H' | right].
          exists n. split; [left; reflexivity | apply rt_refl].
        * right. exists n. split; [left; reflexivity|].
          apply filter_In in Hr as [Hr _].
          eapply rt_trans; [apply rt_step; exact Hr | exact Hrp].
      + intros c p H. destruct (B7 c p H) as [H' | H']; [|right; exact H'].
        apply Hp in H' as [H' | H']; [left; exact H' | right].
        apply in_map_iff in H' as [c' [E' Hc']]. inversion E'; subst. split; [|exact Hc'].
        apply B1, Hk. right. reflexivity.
  Qed.

  (* the top-level call *)
  Theorem par_dfs_spec fuel rts :
    (forall r, In r rts -> rv r < N /\ N <= rv r + fuel) ->
    forall c p, In (c, p) (snd (par_dfs E fuel rts ([], []))) <-> preach rts p /\ xedge p c.
  Proof.
    intros Hr c p. pose proof (par_dfs_post fuel rts ([], []) Hr) as (B1 & B2 & B3 & B4 & B5 & B6 & B7).
    simpl in *. split.
    - intro H. destruct (B7 c p H) as [[] | [Hk Hx]]. split; [|exact Hx].
      destruct (B6 p Hk) as [[] | H']. exact H'.
    - intros [[r [Hrr Hp]] Hx]. apply B5; [intros k c' [] | | exact Hx].
      assert (Hk : In r (fst (par_dfs E fuel rts ([], [])))) by (apply B3; exact Hrr).
      clear Hrr. apply clos_rt_rt1n in Hp. induction Hp as [|x y z Hxy Hyz IHp]; [exact Hk|].
      apply IHp; [exact Hx|]. destruct (B4 x Hk) as [[] | Hc]. apply Hc. exact Hxy.
  Qed.
End ParDfs.

(* ------------------------------------------------- 3. _ancestry (closure) *)
Lemma ct_last {A} (R : relation A) a p :
  clos_trans A R a p -> R a p \/ exists g, clos_trans A R a g /\ R g p.
Proof.
  intro H. apply clos_trans_tn1 in H. destruct H as [p H | p q Hpq Hap].
  - left. exact H.
  - right. exists p. split; [apply clos_tn1_trans; exact Hap | exact Hpq].
Qed.
Section Ancestry.
  Variable P : list (name * name).          (* (child, parent) *)
  Variable rv : name -> nat.
  Definition pedge (a n : name) : Prop := In (n, a) P.
  Hypothesis Hdec : forall a n, pedge a n -> rv a < rv n.

  Lemma In_grands ps g :
    In g (fold_left (fun g p => adds g (parents_of P p)) ps []) <-> exists p, In p ps /\ pedge g p.
  Proof.
    rewrite (fold_left_In_gen _ (fun p y => In y (parents_of P p))).
    - simpl. split.
      + intros [[] | [p [Hp H]]]. exists p. split; [exact Hp | apply In_parents_of; exact H].
      + intros [p [Hp H]]. right. exists p. split; [exact Hp | apply In_parents_of; exact H].
    - intros. apply In_adds.
  Qed.

  Lemma anc_loop_spec nm : forall f H Ps,
    (forall p, In p Ps -> rv p < f /\ rv p < rv nm) ->
    forall a, In a (anc_loop P f nm H Ps) <-> In a H \/ exists p, In p Ps /\ clos_trans name pedge a p.
  Proof.
    induction f as [|f IH]; intros H Ps HPs a.
    - simpl. split; [auto|]. intros [Ha | [p [Hp _]]]; [exact Ha|]. destruct (HPs p Hp). lia.
    - simpl. destruct Ps as [|p0 Ps0] eqn:EPs.
      + split; [auto | intros [Ha | [p [[] _]]]; exact Ha].
      + rewrite <- EPs in *. clear EPs p0 Ps0.
        set (flt := filter (fun p => negb (name_eqb p nm)) Ps).
        assert (Hflt : forall p, In p flt <-> In p Ps).
        { intro p. unfold flt. rewrite filter_In. split; [tauto|]. intro Hp. split; [exact Hp|].
          destruct (name_eqb p nm) eqn:Ee; [|reflexivity]. apply name_eqb_eq in Ee. subst.
          destruct (HPs nm Hp). lia. }
        set (grands := fold_left (fun g p => adds g (parents_of P p)) flt []).
        assert (Hg : forall g, In g grands <-> exists p, In p Ps /\ pedge g p).
        { intro g. unfold grands. rewrite In_grands. split; intros [p [Hp Hgp]]; exists p; split; auto; apply Hflt; exact Hp. }
        rewrite IH.
        * rewrite In_adds. split.
          -- intros [[Ha | Ha] | [g [Hgg Hc]]]; [left; exact Ha | right | right].
             ++ apply Hg in Ha as [p [Hp Hap]]. exists p. split; [exact Hp | apply t_step; exact Hap].
             ++ apply Hg in Hgg as [p [Hp Hgp]]. exists p. split; [exact Hp|].
                eapply t_trans; [exact Hc | apply t_step; exact Hgp].
          -- intros [Ha | [p [Hp Hc]]]; [left; left; exact Ha|].
             apply ct_last in Hc as [Hap | [g [Hag Hgp]]].
             ++ left. right. apply Hg. exists p. auto.
             ++ right. exists g. split; [apply Hg; exists p; auto | exact Hag].
        * intros g Hgg. apply Hg in Hgg as [p [Hp Hgp]]. apply Hdec in Hgp. destruct (HPs p Hp). lia.
  Qed.

  Theorem ancestry_spec fuel nm : rv nm <= fuel ->
    forall a, In a (ancestry P fuel nm) <-> clos_trans name pedge a nm.
  Proof.
    intros Hf a. unfold ancestry. rewrite anc_loop_spec.
    - rewrite In_adds. simpl. split.
      + intros [[[] | Ha] | [p [Hp Hc]]].
        * apply t_step. apply In_parents_of. exact Ha.
        * rewrite In_adds in Hp. destruct Hp as [[] | Hp].
          eapply t_trans; [exact Hc | apply t_step; apply In_parents_of; exact Hp].
      + intro Hc. apply ct_last in Hc as [Hap | [g [Hag Hgp]]].
        * left. right. apply In_parents_of. exact Hap.
        * right. exists g. split; [rewrite In_adds; right; apply In_parents_of; exact Hgp | exact Hag].
    - intros p Hp. rewrite In_adds in Hp. destruct Hp as [[] | Hp].
      apply In_parents_of in Hp. apply Hdec in Hp. lia.
  Qed.
End Ancestry.

(* ---------------------------------------------------- 4. Node.trim (DFS) *)
Lemma filter_len_le {A} (f g : A -> bool) l :
  (forall u, In u l -> f u = true -> g u = true) -> length (filter f l) <= length (filter g l).
Proof.
  induction l as [|a l IH]; intro H; simpl; [lia|].
  assert (IH' : length (filter f l) <= length (filter g l)) by (apply IH; intros; apply H; [right|]; assumption).
  destruct (f a) eqn:Ef.
  - rewrite (H a (or_introl eq_refl) Ef). simpl. lia.
  - destruct (g a); simpl; lia.
Qed.
Lemma filter_len_lt {A} (f g : A -> bool) l v :
  (forall u, In u l -> f u = true -> g u = true) -> In v l -> f v = false -> g v = true ->
  length (filter f l) < length (filter g l).
Proof.
  induction l as [|a l IH]; intros H Hv Hf Hg; simpl; [destruct Hv|].
  assert (Hl : forall u, In u l -> f u = true -> g u = true) by (intros; apply H; [right|]; assumption).
  destruct Hv as [-> | Hv].
  - rewrite Hf, Hg. simpl. pose proof (filter_len_le f g l Hl). lia.
  - specialize (IH Hl Hv Hf Hg). destruct (f a) eqn:Ef.
    + rewrite (H a (or_introl eq_refl) Ef). simpl. lia.
    + destruct (g a); simpl; lia.
Qed.

Lemma filter_len_all {A} (f : A -> bool) l : length (filter f l) <= length l.
Proof. induction l as [|a l IH]; simpl; [lia|]. destruct (f a); simpl; lia. Qed.

Section TrimDfs.
  Variables K FB : name -> list name.
  Variable L : nat.
  Variable U : list name.
  Hypothesis UK : forall v c, In v U -> In c (K v) -> In c U.
  Hypothesis UF : forall v c, In v U -> In c (FB v) -> In c U.

  Definition sedge (a b : name) : Prop := In b (FB a) \/ In b (K a).
  Definition unvis (vis : list name) : nat := length (filter (fun u => negb (mem u vis)) U).
  Lemma unvis_mono vis vis' : (forall k, In k vis -> In k vis') -> unvis vis' <= unvis vis.
  Proof.
    intro H. apply filter_len_le. intros u _ Hu. apply negb_true_iff in Hu. apply negb_true_iff.
    apply mem_false. apply mem_false in Hu. intro Hi. apply Hu. apply H. exact Hi.
  Qed.
  Lemma unvis_lt vis v : In v U -> ~ In v vis -> unvis (vis ++ [v]) < unvis vis.
  Proof.
    intros HU Hv. apply filter_len_lt with (v := v).
    - intros u _ Hu. apply negb_true_iff in Hu. apply negb_true_iff.
      apply mem_false. apply mem_false in Hu. intro Hi. apply Hu. apply in_or_app. left. exact Hi.
    - exact HU.
    - apply negb_false_iff. apply mem_In. apply in_or_app. right. left. reflexivity.
    - apply negb_true_iff. apply mem_false. exact Hv.
  Qed.

  Definition complete (k : name) (s : tst) : Prop :=
    (forall x, In x (FB k) -> In x (fst s) /\ In (EFb (trim L k) (trim L x)) (snd s)) /\
    (forall c, In c (K k) -> In c (fst s) /\ In (EKid (trim L k) (trim L c)) (snd s)).
  Definition sound_ev (vis : list name) (ev : tev) : Prop :=
    exists k, In k vis /\
      ((exists x, In x (FB k) /\ ev = EFb (trim L k) (trim L x)) \/
       (exists c, In c (K k) /\ ev = EKid (trim L k) (trim L c))).
  Definition mono (s s' : tst) : Prop :=
    (forall k, In k (fst s) -> In k (fst s')) /\ (forall ev, In ev (snd s) -> In ev (snd s')).
  Lemma complete_mono k s s' : mono s s' -> complete k s -> complete k s'.
  Proof.
    intros [M1 M2] [C1 C2]. split; intros x Hx; [destruct (C1 x Hx) | destruct (C2 x Hx)]; split; auto.
  Qed.
  Lemma sound_mono vis vis' ev : (forall k, In k vis -> In k vis') -> sound_ev vis ev -> sound_ev vis' ev.
  Proof. intros M [k [Hk H]]. exists k. split; [apply M; exact Hk | exact H]. Qed.

  Definition tpost (v : name) (s s' : tst) : Prop :=
    mono s s' /\ In v (fst s') /\
    (forall k, In k (fst s') -> In k (fst s) \/ complete k s') /\
    (forall k, In k (fst s') -> In k (fst s) \/ clos_refl_trans name sedge v k) /\
    (forall ev, In ev (snd s') -> In ev (snd s) \/ sound_ev (fst s') ev).

  Definition tfold (mk : name -> tev) (f : nat) (xs : list name) (s : tst) : tst :=
    fold_left (fun s x => let s' := trim_dfs K FB L f x s in (fst s', snd s' ++ [mk x])) xs s.
  Definition fpost (mk : name -> tev) (xs : list name) (s s' : tst) : Prop :=
    mono s s' /\
    (forall x, In x xs -> In x (fst s') /\ In (mk x) (snd s')) /\
    (forall k, In k (fst s') -> In k (fst s) \/ complete k s') /\
    (forall k, In k (fst s') -> In k (fst s) \/ exists x, In x xs /\ clos_refl_trans name sedge x k) /\
    (forall ev, In ev (snd s') -> In ev (snd s) \/ (exists x, In x xs /\ ev = mk x) \/ sound_ev (fst s') ev).

  Lemma tfold_post mk f :
    (forall x s, In x U -> unvis (fst s) < f -> tpost x s (trim_dfs K FB L f x s)) ->
    forall xs s, (forall x, In x xs -> In x U) -> unvis (fst s) < f ->
                 fpost mk xs s (tfold mk f xs s).
  Proof.
    intros Hcall xs. induction xs as [|x xs IH]; intros s HU Hf.
    - simpl. unfold fpost, mono. repeat split; auto; simpl in *; contradiction.
    - simpl. set (s1 := trim_dfs K FB L f x s).
      destruct (Hcall x s (HU x (or_introl eq_refl)) Hf) as ([M1 M2] & T2 & T3 & T4 & T5).
      fold s1 in M1, M2, T2, T3, T4, T5.
      set (s1' := (fst s1, snd s1 ++ [mk x])).
      assert (M11 : mono s1 s1') by (split; simpl; auto; intros; apply in_or_app; left; assumption).
      assert (Hf1 : unvis (fst s1') < f) by (simpl; pose proof (unvis_mono _ _ M1); lia).
      destruct (IH s1' (fun y Hy => HU y (or_intror Hy)) Hf1) as ([N1 N2] & F2 & F3 & F4 & F5).
      fold (tfold mk f xs s1') in *. set (s2 := tfold mk f xs s1') in *.
      unfold fpost, mono. repeat split.
      + intros k Hk. apply N1. simpl. apply M1. exact Hk.
      + intros ev Hev. apply N2. simpl. apply in_or_app. left. apply M2. exact Hev.
      + destruct H as [<- | Hx]; [apply N1; exact T2 | apply F2; exact Hx].
      + destruct H as [<- | Hx]; [apply N2; simpl; apply in_or_app; right; left; reflexivity | apply F2; exact Hx].
      + intros k Hk. destruct (F3 k Hk) as [H | H]; [|right; exact H]. simpl in H.
        destruct (T3 k H) as [H' | H']; [left; exact H' | right].
        apply complete_mono with (s := s1'); [split; assumption|].
        apply complete_mono with (s := s1); assumption.
      + intros k Hk. destruct (F4 k Hk) as [H | [y [Hy Hr]]].
        * simpl in H. destruct (T4 k H) as [H' | H']; [left; exact H' | right].
          exists x. split; [left; reflexivity | exact H'].
        * right. exists y. split; [right; exact Hy | exact Hr].
      + intros ev Hev. destruct (F5 ev Hev) as [H | [[y [Hy E]] | H]].
        * simpl in H. apply in_app_or in H as [H | [<- | []]].
          -- destruct (T5 ev H) as [H' | H']; [left; exact H' | right; right].
             eapply sound_mono; [|exact H']. intros k Hk. apply N1. exact Hk.
          -- right. left. exists x. split; [left|]; reflexivity.
        * right. left. exists y. split; [right; exact Hy | exact E].
        * right. right. exact H.
  Qed.

  Lemma trim_dfs_post : forall f v s, In v U -> unvis (fst s) < f -> tpost v s (trim_dfs K FB L f v s).
  Proof.
    induction f as [|f IH]; intros v s HvU Hf; [lia|].
    cbn [trim_dfs]. destruct (mem v (fst s)) eqn:Em.
    - apply mem_In in Em. unfold tpost, mono. repeat split; auto.
    - apply mem_false in Em.
      set (s1 := (fst s ++ [v], snd s)).
      assert (M01 : mono s s1) by (split; simpl; auto; intros; apply in_or_app; left; assumption).
      assert (Hf1 : unvis (fst s1) < f) by (simpl; pose proof (unvis_lt (fst s) v HvU Em); lia).
      fold (tfold (fun x => EFb (trim L v) (trim L x)) f (FB v) s1).
      set (s2 := tfold (fun x => EFb (trim L v) (trim L x)) f (FB v) s1).
      destruct (tfold_post (fun x => EFb (trim L v) (trim L x)) f IH (FB v) s1
                           (fun x Hx => UF v x HvU Hx) Hf1) as ([A1 A2] & A3 & A4 & A5 & A6).
      fold s2 in A1, A2, A3, A4, A5, A6.
      assert (Hf2 : unvis (fst s2) < f) by (pose proof (unvis_mono _ _ A1); lia).
      fold (tfold (fun c => EKid (trim L v) (trim L c)) f (K v) s2).
      set (s3 := tfold (fun c => EKid (trim L v) (trim L c)) f (K v) s2).
      destruct (tfold_post (fun c => EKid (trim L v) (trim L c)) f IH (K v) s2
                           (fun x Hx => UK v x HvU Hx) Hf2) as ([B1 B2] & B3 & B4 & B5 & B6).
      fold s3 in B1, B2, B3, B4, B5, B6.
      assert (Hv3 : In v (fst s3)) by (apply B1, A1; simpl; apply in_or_app; right; left; reflexivity).
      unfold tpost, mono. repeat split.
      + intros k Hk. apply B1, A1. simpl. apply in_or_app. left. exact Hk.
      + intros ev Hev. apply B2, A2. exact Hev.
      + exact Hv3.
      + intros k Hk. destruct (B4 k Hk) as [H | H]; [|right; exact H].
        destruct (A4 k H) as [H' | H'].
        * simpl in H'. apply in_app_or in H' as [H' | [<- | []]]; [left; exact H' | right].
          split; intros x Hx.
          -- destruct (A3 x Hx). split; [apply B1 | apply B2]; assumption.
          -- apply B3. exact Hx.
        * right. apply complete_mono with (s := s2); [split; assumption | exact H'].
      + intros k Hk. destruct (B5 k Hk) as [H | [c [Hc Hr]]].
        * destruct (A5 k H) as [H' | [x [Hx Hr]]].
          -- simpl in H'. apply in_app_or in H' as [H' | [<- | []]]; [left; exact H' | right; apply rt_refl].
          -- right. eapply rt_trans; [apply rt_step; left; exact Hx | exact Hr].
        * right. eapply rt_trans; [apply rt_step; right; exact Hc | exact Hr].
      + intros ev Hev. destruct (B6 ev Hev) as [H | [[c [Hc E]] | H]].
        * destruct (A6 ev H) as [H' | [[x [Hx E]] | H']].
          -- left. exact H'.
          -- right. exists v. split; [exact Hv3 | left; exists x; auto].
          -- right. eapply sound_mono; [|exact H']. exact B1.
        * right. exists v. split; [exact Hv3 | right; exists c; auto].
        * right. exact H.
  Qed.

  (* _trim_trees: the loop over the roots *)
  Theorem trim_run_spec fuel rts :
    (forall r, In r rts -> In r U) -> length U < fuel ->
    let s := trim_run K FB L fuel rts in
    (forall r, In r rts -> In r (fst s)) /\
    (forall k, In k (fst s) -> complete k s) /\
    (forall k, In k (fst s) -> exists r, In r rts /\ clos_refl_trans name sedge r k) /\
    (forall ev, In ev (snd s) -> sound_ev (fst s) ev).
  Proof.
    intros HU Hfuel. unfold trim_run.
    assert (G : forall rts s0, (forall r, In r rts -> In r U) -> unvis (fst s0) < fuel ->
      let s := fold_left (fun s r => trim_dfs K FB L fuel r s) rts s0 in
      mono s0 s /\ (forall r, In r rts -> In r (fst s)) /\
      (forall k, In k (fst s) -> In k (fst s0) \/ complete k s) /\
      (forall k, In k (fst s) -> In k (fst s0) \/ exists r, In r rts /\ clos_refl_trans name sedge r k) /\
      (forall ev, In ev (snd s) -> In ev (snd s0) \/ sound_ev (fst s) ev)).
    { clear rts HU. induction rts as [|r rts IH]; intros s0 HU Hf; simpl.
      - unfold mono. repeat split; auto. intros r [].
      - destruct (trim_dfs_post fuel r s0 (HU r (or_introl eq_refl)) Hf) as ([M1 M2] & T2 & T3 & T4 & T5).
        set (s1 := trim_dfs K FB L fuel r s0) in *.
        assert (Hf1 : unvis (fst s1) < fuel) by (pose proof (unvis_mono _ _ M1); lia).
        destruct (IH s1 (fun y Hy => HU y (or_intror Hy)) Hf1) as ([N1 N2] & F2 & F3 & F4 & F5).
        set (s2 := fold_left (fun s r => trim_dfs K FB L fuel r s) rts s1) in *.
        unfold mono. repeat split; auto.
        + intros x [<- | Hx]; [apply N1; exact T2 | apply F2; exact Hx].
        + intros k Hk. destruct (F3 k Hk) as [H | H]; [|right; exact H].
          destruct (T3 k H) as [H' | H']; [left; exact H' | right].
          apply complete_mono with (s := s1); [split; assumption | exact H'].
        + intros k Hk. destruct (F4 k Hk) as [H | [y [Hy Hr]]].
          * destruct (T4 k H) as [H' | H']; [left; exact H' | right]. exists r. split; [left; reflexivity | exact H'].
          * right. exists y. split; [right; exact Hy | exact Hr].
        + intros ev Hev. destruct (F5 ev Hev) as [H | H]; [|right; exact H].
          destruct (T5 ev H) as [H' | H']; [left; exact H' | right].
          eapply sound_mono; [|exact H']. exact N1. }
    assert (H0 : unvis (fst (([], []) : tst)) < fuel).
    { unfold unvis. pose proof (filter_len_all (fun u => negb (mem u (fst (([], []) : tst)))) U). lia. }
    destruct (G rts (@nil name, @nil tev) HU H0) as (_ & G2 & G3 & G4 & G5). simpl in *.
    split; [exact G2|]. split; [|split].
    - intros k Hk. destruct (G3 k Hk) as [[] | C]. exact C.
    - intros k Hk. destruct (G4 k Hk) as [[] | Hr]. exact Hr.
    - intros ev Hev. destruct (G5 ev Hev) as [[] | Hs]. exact Hs.
  Qed.
End TrimDfs.

(* ------------------------------------------- 5. well-formed descriptors *)
Record wf_engine (e : engine) (rank : name -> nat) : Prop := mkWf {
  wf_tags : NoDup (map b_tag (build_order e));
  wf_nonempty : forall b r, In b (build_order e) -> In r (a_deps (b_alg b)) -> expand e r <> [];
  wf_ins_owned : forall b p, In b (build_order e) -> In p (b_ins e b) -> owned e p;
  wf_fb_owned : forall b p, In b (build_order e) -> In p (expands e (a_fb (b_alg b))) -> owned e p;
  wf_rank : forall b p, In b (build_order e) -> In p (b_ins e b) -> rank (trim 2 p) < rank (b_tag b);
  wf_bound : forall b, In b (build_order e) -> rank (b_tag b) < length (build_order e) }.

Lemma nodupb_spec l : nodupb l = true -> NoDup l.
Proof.
  induction l as [|x l IH]; simpl; intro H; [constructor|].
  apply andb_true_iff in H as [H1 H2]. constructor; [|apply IH; exact H2].
  apply negb_true_iff in H1. apply mem_false. exact H1.
Qed.
Lemma ownedb_spec e p : ownedb e p = true -> owned e p.
Proof.
  unfold ownedb, owned. rewrite existsb_exists. intros [b [Hb H]]. exists b. split; [exact Hb | apply mem_In; exact H].
Qed.
Lemma andb5 a b c d f : a && b && c && d && f = true ->
  a = true /\ b = true /\ c = true /\ d = true /\ f = true.
Proof. destruct a, b, c, d, f; simpl; intro H; try discriminate; auto. Qed.

Theorem wf_engineb_spec e rk : wf_engineb e rk = true -> wf_engine e (rank_of rk).
Proof.
  unfold wf_engineb. intro H. apply andb_true_iff in H as [H1 H2].
  rewrite forallb_forall in H2.
  assert (G : forall b, In b (build_order e) ->
    (forall r, In r (a_deps (b_alg b)) -> expand e r <> []) /\
    (forall p, In p (b_ins e b) -> owned e p) /\
    (forall p, In p (expands e (a_fb (b_alg b))) -> owned e p) /\
    (forall p, In p (b_ins e b) -> rank_of rk (trim 2 p) < rank_of rk (b_tag b)) /\
    rank_of rk (b_tag b) < length (build_order e)).
  { intros b Hb. apply H2 in Hb. apply andb5 in Hb as (E1 & E2 & E3 & E4 & E5).
    rewrite forallb_forall in E1, E2, E3, E4. repeat split.
    - intros r Hr. apply E1 in Hr. destruct (expand e r); [discriminate | discriminate].
    - intros p Hp. apply ownedb_spec, E2, Hp.
    - intros p Hp. apply ownedb_spec, E3, Hp.
    - intros p Hp. apply Nat.ltb_lt, E4, Hp.
    - apply Nat.ltb_lt, E5. }
  constructor.
  - apply nodupb_spec. exact H1.
  - intros b r Hb. apply (G b Hb).
  - intros b p Hb. apply (G b Hb).
  - intros b p Hb. apply (G b Hb).
  - intros b p Hb. apply (G b Hb).
  - intros b Hb. apply (G b Hb).
Qed.

Lemma find_nodup {A} (f : A -> name) l a :
  NoDup (map f l) -> In a l -> find (fun x => name_eqb (f x) (f a)) l = Some a.
Proof.
  induction l as [|a0 l IH]; simpl; intros ND Hin; [destruct Hin|].
  inversion ND as [|? ? Hn ND']; subst. destruct Hin as [<- | Hin].
  - rewrite name_eqb_refl. reflexivity.
  - destruct (name_eqb (f a0) (f a)) eqn:E.
    + apply name_eqb_eq in E. exfalso. apply Hn. rewrite E. apply in_map. exact Hin.
    + apply IH; assumption.
Qed.
Lemma crt_incl {A} (R R' : relation A) : (forall a b, R a b -> R' a b) ->
  forall a b, clos_refl_trans A R a b -> clos_refl_trans A R' a b.
Proof.
  intros H a b Hc. induction Hc; [apply rt_step; auto | apply rt_refl | eapply rt_trans; eauto].
Qed.
Lemma ct_incl {A} (R R' : relation A) : (forall a b, R a b -> R' a b) ->
  forall a b, clos_trans A R a b -> clos_trans A R' a b.
Proof.
  intros H a b Hc. induction Hc; [apply t_step; auto | eapply t_trans; eauto].
Qed.

Section Wf.
  Variable e : engine.
  Variable rank : name -> nat.
  Hypothesis W : wf_engine e rank.
  Definition rvv (n : name) : nat := rank (trim 2 n).
  Notation bo := (build_order e).
  Notation EE := (edges (events e)).
  Notation FL := (flat_order (events e)).

  Lemma owner_of b n : In b bo -> In n (b_own b) -> owner e n = Some b.
  Proof.
    intros Hb Hn. unfold owner. rewrite (b_own_tag b n Hn).
    apply (find_nodup b_tag); [apply (wf_tags _ _ W) | exact Hb].
  Qed.
  Lemma owner_In n b : owner e n = Some b -> In b bo /\ b_tag b = trim 2 n.
  Proof.
    unfold owner. intro H. apply find_some in H as [H1 H2]. split; [exact H1 | apply name_eqb_eq; exact H2].
  Qed.
  Lemma vedge_owned_l p c : vedge e p c -> owned e p.
  Proof. intros [b [Hb [_ Hp]]]. eapply (wf_ins_owned _ _ W); eauto. Qed.
  Lemma vedge_owned_r p c : vedge e p c -> owned e c.
  Proof. intros [b [Hb [Hc _]]]. exists b. auto. Qed.
  Lemma vedge_rank p c : vedge e p c -> rvv p < rvv c.
  Proof.
    intros [b [Hb [Hc Hp]]]. unfold rvv. rewrite (b_own_tag b c Hc). eapply (wf_rank _ _ W); eauto.
  Qed.
  Lemma owned_bound n : owned e n -> rvv n < length bo.
  Proof. intros [b [Hb Hn]]. unfold rvv. rewrite (b_own_tag b n Hn). apply (wf_bound _ _ W). exact Hb. Qed.
  Lemma flat_owned n : In n FL <-> owned e n.
  Proof.
    rewrite In_flat. split; [|auto]. intros [H | [c H]]; [exact H | eapply vedge_owned_l; exact H].
  Qed.
  Lemma xkids_iff p c : In c (xkids EE p) <-> vedge e p c.
  Proof.
    unfold xkids. rewrite filter_In, vedge_iff. split; [tauto|]. intro H. split; [exact H|].
    apply negb_true_iff. apply name_eqb_neq. intro Ee. apply vedge_rank in H. unfold rvv in H.
    rewrite Ee in H. lia.
  Qed.

  Lemma owned_reach : forall m n, rvv n < m -> owned e n ->
    exists r, In r (roots (events e)) /\ clos_refl_trans name (vedge e) r n.
  Proof.
    induction m as [|m IH]; intros n Hlt Hn; [lia|].
    destruct Hn as [b [Hb Hn]]. destruct (a_deps (b_alg b)) as [|r rs] eqn:Ed.
    - exists n. split; [|apply rt_refl]. apply In_roots_e. exists b. auto.
    - assert (Hr : In r (a_deps (b_alg b))) by (rewrite Ed; left; reflexivity).
      pose proof (wf_nonempty _ _ W b r Hb Hr) as Hne.
      destruct (expand e r) as [|p ps] eqn:Ex; [contradiction|].
      assert (Hp : In p (b_ins e b)).
      { unfold b_ins, expands. apply in_flat_map. exists r. split; [exact Hr|]. rewrite Ex. left. reflexivity. }
      assert (Hv : vedge e p n) by (exists b; auto).
      pose proof (vedge_rank _ _ Hv) as Hrk.
      destruct (IH p ltac:(lia) (vedge_owned_l _ _ Hv)) as [r0 [Hr0 Hpath]].
      exists r0. split; [exact Hr0|]. eapply rt_trans; [exact Hpath | apply rt_step; exact Hv].
  Qed.

  Variable ro : list name.
  Variable fo : name -> list name.
  Notation d := (construct e ro fo).
  Notation RTS := (reorder ro (roots (events e))).

  Lemma d_fields :
    d_flat d = FL /\ d_edges d = EE /\ d_roots d = RTS /\ d_fuel d = dfuel e FL /\
    d_par d = snd (par_dfs EE (dfuel e FL) RTS ([], [])).
  Proof. repeat split. Qed.

  Lemma root_owned r : In r RTS -> owned e r.
  Proof.
    rewrite In_reorder, In_roots_e. intros [b [Hb [Hn _]]]. exists b. auto.
  Qed.

  (* value-level parents: exactly the declared inputs *)
  Lemma d_par_iff c p : In (c, p) (d_par d) <-> vedge e p c.
  Proof.
    destruct d_fields as (_ & _ & _ & _ & ->).
    rewrite (par_dfs_spec EE rvv (length bo)).
    - split.
      + intros [_ H]. apply xkids_iff. exact H.
      + intro H. split; [|apply xkids_iff; exact H].
        destruct (owned_reach (S (rvv p)) p ltac:(lia) (vedge_owned_l _ _ H)) as [r [Hr Hp]].
        exists r. split; [apply In_reorder; exact Hr|].
        eapply crt_incl; [|exact Hp]. intros a b Hab. apply xkids_iff. exact Hab.
    - intros p0 c0 H. apply xkids_iff in H. apply vedge_rank. exact H.
    - intros p0 c0 H. apply xkids_iff in H. apply owned_bound. eapply vedge_owned_r. exact H.
    - intros r Hr. pose proof (owned_bound r (root_owned r Hr)). unfold dfuel. split; lia.
  Qed.

  (* the ancestry table holds what the loop computes *)
  Lemma d_anc_eq n : d_anc d n = ancestry (d_par d) (d_fuel d) n.
  Proof.
    unfold d_anc. destruct (find (fun kv => name_eqb (fst kv) n) (d_ancs d)) as [kv|] eqn:F; [|reflexivity].
    apply find_some in F as [Hin Heq].
    change (d_ancs d) with (map (fun n => (n, ancestry (d_par d) (d_fuel d) n)) FL) in Hin.
    apply in_map_iff in Hin as [n' [<- _]]. simpl in *. apply name_eqb_eq in Heq. subst. reflexivity.
  Qed.

  (* value-level ancestry: transitive closure of the declared inputs *)
  Lemma d_anc_iff n a : owned e n -> In a (d_anc d n) <-> clos_trans name (vedge e) a n.
  Proof.
    intro Hn. rewrite d_anc_eq. rewrite (ancestry_spec (d_par d) rvv).
    - split; apply ct_incl; intros x y H; [apply d_par_iff | apply d_par_iff in H]; exact H.
    - intros x y H. apply d_par_iff in H. apply vedge_rank. exact H.
    - destruct d_fields as (_ & _ & _ & -> & _). pose proof (owned_bound n Hn). unfold dfuel. lia.
  Qed.
End Wf.

(* ------------------------------------------------ 6. the trimmed trees *)
Lemma In_skids log x y : In y (skids log x) <-> In (EKid x y) log.
Proof.
  unfold skids. rewrite In_adds, in_flat_map. simpl. split.
  - intros [[] | [ev [Hev H]]]. destruct ev as [a b | a b]; simpl in H; [|destruct H].
    destruct (name_eqb a x) eqn:E; [|destruct H]. apply name_eqb_eq in E. destruct H as [<- | []]. subst. exact Hev.
  - intro H. right. exists (EKid x y). split; [exact H|]. simpl. rewrite name_eqb_refl. left. reflexivity.
Qed.
Lemma In_sfb log x y : In y (sfb log x) <-> In (EFb x y) log.
Proof.
  unfold sfb. rewrite In_adds, in_flat_map. simpl. split.
  - intros [[] | [ev [Hev H]]]. destruct ev as [a b | a b]; simpl in H; [destruct H|].
    destruct (name_eqb a x) eqn:E; [|destruct H]. apply name_eqb_eq in E. destruct H as [<- | []]. subst. exact Hev.
  - intro H. right. exists (EFb x y). split; [exact H|]. simpl. rewrite name_eqb_refl. left. reflexivity.
Qed.
Lemma In_slift vis f x a :
  In a (slift vis f x) <-> exists v, In v vis /\ trim 2 v = x /\ exists a0, In a0 (f v) /\ trim 2 a0 = a.
Proof.
  unfold slift. rewrite In_adds, in_flat_map. cbn [In]. split.
  - intros [[] | [v [Hv H]]]. destruct (name_eqb (trim 2 v) x) eqn:E; [|destruct H].
    apply name_eqb_eq in E. apply in_map_iff in H as [a0 [E0 H0]]. exists v. repeat split; auto. exists a0. auto.
  - intros [v [Hv [E [a0 [H0 E0]]]]]. right. exists v. split; [exact Hv|].
    rewrite <- E, name_eqb_refl. apply in_map_iff. exists a0. auto.
Qed.
Lemma ct_map {A B} (R : relation A) (R' : relation B) (f : A -> B) :
  (forall x y, R x y -> R' (f x) (f y)) ->
  forall x y, clos_trans A R x y -> clos_trans B R' (f x) (f y).
Proof. intros H x y Hc. induction Hc; [apply t_step; auto | eapply t_trans; eauto]. Qed.
Lemma crt_map {A B} (R : relation A) (R' : relation B) (f : A -> B) :
  (forall x y, R x y -> R' (f x) (f y)) ->
  forall x y, clos_refl_trans A R x y -> clos_refl_trans B R' (f x) (f y).
Proof. intros H x y Hc. induction Hc; [apply rt_step; auto | apply rt_refl | eapply rt_trans; eauto]. Qed.

(* the declared-input relation at granularity L (4 = value, 3 = state vector,
   2 = algorithm, 1 = package) *)
Definition ledge (e : engine) (L : nat) (X Y : name) : Prop :=
  exists p c, vedge e p c /\ trim L p = X /\ trim L c = Y.

Section WfTrim.
  Variable e : engine.
  Variable rank : name -> nat.
  Hypothesis W : wf_engine e rank.
  Variable ro : list name.
  Variable fo : name -> list name.
  Notation bo := (build_order e).
  Notation EE := (edges (events e)).
  Notation FL := (flat_order (events e)).
  Notation d := (construct e ro fo).
  Notation RTS := (reorder ro (roots (events e))).
  Definition FBf (v : name) : list name := reorder (fo v) (adds [] (fb_of e v)).

  Lemma d_trim L :
    d_vis d L = fst (trim_run (kids EE) FBf L (dfuel e FL) RTS) /\
    d_log d L = snd (trim_run (kids EE) FBf L (dfuel e FL) RTS).
  Proof. destruct L as [|[|[|[|L]]]]; split; reflexivity. Qed.
  Lemma In_FBf v x : In x (FBf v) <-> In x (fb_of e v).
  Proof. unfold FBf. rewrite In_reorder, In_adds. simpl. tauto. Qed.
  Lemma fb_of_owned v x : In x (fb_of e v) -> owned e x.
  Proof.
    unfold fb_of. destruct (owner e v) as [b|] eqn:Eo; [|intros []].
    intro H. apply (owner_In e) in Eo as [Hb _]. eapply (wf_fb_owned _ _ W); eauto.
  Qed.
  Lemma UK : forall v c, In v FL -> In c (kids EE v) -> In c FL.
  Proof. intros v c _ H. apply vedge_iff in H. apply (flat_owned e rank W). eapply vedge_owned_r; eauto. Qed.
  Lemma UF : forall v c, In v FL -> In c (FBf v) -> In c FL.
  Proof. intros v c _ H. apply In_FBf in H. apply (flat_owned e rank W). eapply fb_of_owned; eauto. Qed.

  Lemma trim_facts L :
    (forall k, In k (d_vis d L) <-> owned e k) /\
    (forall X Y, In (EKid X Y) (d_log d L) <-> ledge e L X Y) /\
    (forall X Y, In (EFb X Y) (d_log d L) <->
                 exists v f, owned e v /\ In f (fb_of e v) /\ trim L v = X /\ trim L f = Y).
  Proof.
    destruct (d_trim L) as [-> ->].
    assert (Hr : forall r, In r RTS -> In r FL).
    { intros r H. apply (flat_owned e rank W). eapply root_owned; eauto. }
    assert (Hf : length FL < dfuel e FL) by (unfold dfuel; lia).
    pose proof (trim_run_spec (kids EE) FBf L FL UK UF (dfuel e FL) RTS Hr Hf) as (S1 & S2 & S3 & S4).
    set (s := trim_run (kids EE) FBf L (dfuel e FL) RTS) in *.
    assert (V : forall k, In k (fst s) <-> owned e k).
    { intro k. split.
      - intro Hk. destruct (S3 k Hk) as [r [Hrr Hp]]. clear Hk. apply (flat_owned e rank W).
        assert (Hin : In r FL) by (apply Hr; exact Hrr). clear Hrr.
        apply clos_rt_rt1n in Hp. induction Hp as [|x y z Hxy Hyz IHp]; [exact Hin|].
        apply IHp. destruct Hxy as [Hxy | Hxy]; [eapply UF | eapply UK]; eauto.
      - intro Hk. destruct (owned_reach e rank W (S (rvv rank k)) k ltac:(lia) Hk) as [r [Hrr Hp]]. clear Hk.
        assert (Hin : In r (fst s)) by (apply S1, In_reorder; exact Hrr). clear Hrr.
        apply clos_rt_rt1n in Hp. induction Hp as [|x y z Hxy Hyz IHp]; [exact Hin|].
        apply IHp. destruct (S2 x Hin) as [_ C2]. apply C2. apply vedge_iff. exact Hxy. }
    split; [exact V|]. split.
    - intros X Y. split.
      + intro H. destruct (S4 _ H) as [k [Hk [[x [_ Ex]] | [c [Hc Ec]]]]]; [discriminate|].
        inversion Ec; subst. exists k, c. split; [apply vedge_iff; exact Hc | auto].
      + intros [p [c [Hv [<- <-]]]]. assert (Hp : In p (fst s)) by (apply V; eapply vedge_owned_l; eauto).
        destruct (S2 p Hp) as [_ C2]. apply C2. apply vedge_iff. exact Hv.
    - intros X Y. split.
      + intro H. destruct (S4 _ H) as [k [Hk [[x [Hx Ex]] | [c [_ Ec]]]]]; [|discriminate].
        inversion Ex; subst. exists k, x. repeat split; auto; [apply V; exact Hk | apply In_FBf; exact Hx].
      + intros [v [f [Hv [Hf' [<- <-]]]]]. apply V in Hv. destruct (S2 v Hv) as [C1 _]. apply C1.
        apply In_FBf. exact Hf'.
  Qed.

  (* edges of every tree: exactly the declared inputs at that granularity *)
  Theorem t_kids_iff L X Y : In Y (t_kids d L X) <-> ledge e L X Y.
  Proof. unfold t_kids. rewrite In_skids. apply trim_facts. Qed.
  Theorem t_fb_iff L X Y :
    In Y (t_fb d L X) <-> exists v f, owned e v /\ In f (fb_of e v) /\ trim L v = X /\ trim L f = Y.
  Proof. unfold t_fb. rewrite In_sfb. apply trim_facts. Qed.
  Theorem t_nodes_iff L X : In X (t_nodes d L) <-> exists v, owned e v /\ trim L v = X.
  Proof.
    unfold t_nodes. rewrite In_adds, in_map_iff. cbn [In]. destruct (trim_facts L) as [V _]. split.
    - intros [[] | [v [Ev Hv]]]. exists v. split; [apply V; exact Hv | exact Ev].
    - intros [v [Hv Ev]]. right. exists v. split; [exact Ev | apply V; exact Hv].
  Qed.
  Theorem t_nodes_nodup L : NoDup (t_nodes d L).
  Proof. unfold t_nodes. apply NoDup_adds. constructor. Qed.

  (* every node hangs below a root of its tree *)
  Theorem t_nodes_reach L X : In X (t_nodes d L) ->
    exists r, In r (t_roots d L) /\ clos_refl_trans name (fun x y => In y (t_kids d L x)) r X.
  Proof.
    intro H. apply t_nodes_iff in H as [v [Hv <-]].
    destruct (owned_reach e rank W (S (rvv rank v)) v ltac:(lia) Hv) as [r [Hrr Hp]].
    exists (trim L r). split.
    - unfold t_roots. apply in_map. destruct (d_fields e ro fo) as (_ & _ & -> & _). apply In_reorder. exact Hrr.
    - apply (crt_map (vedge e) _ (trim L)); [|exact Hp].
      intros x y Hxy. apply t_kids_iff. exists x, y. auto.
  Qed.

  (* all values of one algorithm share their declared inputs *)
  Lemma same_alg p c v : vedge e p c -> owned e v -> trim 2 v = trim 2 c -> vedge e p v.
  Proof.
    intros [b [Hb [Hc Hp]]] [b' [Hb' Hv]] Et. exists b. repeat split; auto.
    assert (Eb : b' = b).
    { pose proof (owner_of e rank W b c Hb Hc) as O1. pose proof (owner_of e rank W b' v Hb' Hv) as O2.
      unfold owner in O1, O2. rewrite Et in O2. congruence. }
    subst. exact Hv.
  Qed.

  Theorem t_par_iff X A : In A (t_par d X) <-> ledge e 2 A X.
  Proof.
    unfold t_par. rewrite In_slift. destruct (trim_facts 2) as [V _]. split.
    - intros [v [Hv [Ev [a [Ha Ea]]]]]. apply In_parents_of, (d_par_iff e rank W) in Ha. exists a, v. auto.
    - intros [p [c [Hv [Ep Ec]]]]. exists c. split; [apply V; eapply vedge_owned_r; eauto|]. split; [exact Ec|].
      exists p. split; [|exact Ep]. apply In_parents_of, (d_par_iff e rank W). exact Hv.
  Qed.

  (* ancestry of an algorithm node = transitive closure of the algorithm-level edges *)
  Lemma ledge_lift A X : clos_trans name (ledge e 2) A X ->
    (exists c, owned e c /\ trim 2 c = X) /\
    forall v, owned e v -> trim 2 v = X -> exists a, trim 2 a = A /\ clos_trans name (vedge e) a v.
  Proof.
    intro H. apply clos_trans_tn1 in H. induction H as [X [p [c [Hv [Ep Ec]]]] | Y X [p [c [Hv [Ep Ec]]]] Hc IH].
    - split; [exists c; split; [eapply vedge_owned_r; eauto | exact Ec]|].
      intros v Hov Et. exists p. split; [exact Ep|]. apply t_step. eapply same_alg; eauto. congruence.
    - split; [exists c; split; [eapply vedge_owned_r; eauto | exact Ec]|].
      intros v Hov Et. assert (Hpv : vedge e p v) by (eapply same_alg; eauto; congruence).
      destruct IH as [_ IH]. destruct (IH p (vedge_owned_l e rank W _ _ Hv) Ep) as [a [Ea Hca]].
      exists a. split; [exact Ea|]. eapply t_trans; [exact Hca | apply t_step; exact Hpv].
  Qed.
  Theorem t_anc_iff X A : In A (t_anc d X) <-> clos_trans name (ledge e 2) A X.
  Proof.
    unfold t_anc. rewrite In_slift. destruct (trim_facts 2) as [V _]. split.
    - intros [v [Hv [Ev [a [Ha Ea]]]]]. apply V in Hv. apply (d_anc_iff e rank W) in Ha; [|exact Hv].
      subst. apply (ct_map (vedge e) _ (trim 2)); [|exact Ha]. intros x y Hxy. exists x, y. auto.
    - intro H. destruct (ledge_lift A X H) as [[c [Hc Ec]] Hl]. destruct (Hl c Hc Ec) as [a [Ea Hca]].
      exists c. split; [apply V; exact Hc|]. split; [exact Ec|]. exists a. split; [|exact Ea].
      apply (d_anc_iff e rank W); assumption.
  Qed.

  (* rank strictly increases along algorithm-level edges *)
  Lemma ledge2_rank X Y : ledge e 2 X Y -> rank X < rank Y.
  Proof. intros [p [c [Hv [<- <-]]]]. apply (vedge_rank e rank W). exact Hv. Qed.
End WfTrim.

(* ------------------------------------------------------- 7. _feedbacks *)
Lemma dict_get_set_same dct k v : dict_get (dict_set dct k v) k = Some v.
Proof.
  unfold dict_get. induction dct as [|[k' v'] dct IH]; simpl.
  - rewrite name_eqb_refl. reflexivity.
  - destruct (name_eqb k' k) eqn:E; simpl; rewrite E; [reflexivity | exact IH].
Qed.
Lemma dict_get_set_other dct k v k2 : k2 <> k -> dict_get (dict_set dct k v) k2 = dict_get dct k2.
Proof.
  intro Hne. unfold dict_get. induction dct as [|[k' v'] dct IH]; simpl.
  - destruct (name_eqb k k2) eqn:E; [apply name_eqb_eq in E; congruence | reflexivity].
  - destruct (name_eqb k' k) eqn:E; simpl.
    + apply name_eqb_eq in E. subst k'. destruct (name_eqb k k2) eqn:E2; [apply name_eqb_eq in E2; congruence | reflexivity].
    + destruct (name_eqb k' k2); [reflexivity | exact IH].
Qed.
Definition dict_writes (ws : list (name * name)) (d0 : list (name * name)) :=
  fold_left (fun dct kv => dict_set dct (fst kv) (snd kv)) ws d0.
Lemma dict_writes_sound ws : forall d0 k v,
  dict_get (dict_writes ws d0) k = Some v -> dict_get d0 k = Some v \/ In (k, v) ws.
Proof.
  induction ws as [|[k1 v1] ws IH]; intros d0 k v H; simpl in *; [auto|].
  apply IH in H as [H | H]; [|auto]. destruct (name_eqb k k1) eqn:E.
  - apply name_eqb_eq in E. subst. rewrite dict_get_set_same in H. inversion H. auto.
  - apply name_eqb_neq in E. rewrite dict_get_set_other in H by exact E. auto.
Qed.
Lemma dict_writes_keeps ws : forall d0 k v0,
  dict_get d0 k = Some v0 -> exists v, dict_get (dict_writes ws d0) k = Some v.
Proof.
  induction ws as [|[k1 v1] ws IH]; intros d0 k v0 H; simpl; [eauto|].
  destruct (name_eqb k k1) eqn:E.
  - apply name_eqb_eq in E. subst. eapply IH. apply dict_get_set_same.
  - apply name_eqb_neq in E. eapply IH. rewrite dict_get_set_other by exact E. exact H.
Qed.
Lemma dict_writes_complete ws : forall d0 k v,
  In (k, v) ws -> exists v', dict_get (dict_writes ws d0) k = Some v'.
Proof.
  induction ws as [|[k1 v1] ws IH]; intros d0 k v H; simpl in *; [destruct H|].
  destruct H as [H | H].
  - inversion H; subst. eapply dict_writes_keeps. apply dict_get_set_same.
  - eapply IH. exact H.
Qed.
Lemma feedbacks_writes e ord :
  feedbacks e ord = dict_writes (flat_map (fun n => map (fun f => (f, n)) (fb_of e n)) ord) [].
Proof.
  unfold feedbacks, dict_writes. generalize (@nil (name * name)) as d0.
  induction ord as [|n ord IH]; intro d0; simpl; [reflexivity|].
  rewrite fold_left_app, IH. f_equal.
  generalize d0. induction (fb_of e n) as [|f fs IHf]; intro d1; simpl; [reflexivity | apply IHf].
Qed.

Section WfFeedback.
  Variable e : engine.
  Variable rank : name -> nat.
  Hypothesis W : wf_engine e rank.
  Variable ro : list name.
  Variable fo : name -> list name.
  Notation d := (construct e ro fo).

  Lemma fbs_writes f n :
    In (f, n) (flat_map (fun n => map (fun f => (f, n)) (fb_of e n)) (flat_order (events e))) <->
    owned e n /\ In f (fb_of e n).
  Proof.
    rewrite in_flat_map. split.
    - intros [n' [Hn H]]. apply in_map_iff in H as [f' [E Hf]]. inversion E; subst.
      split; [apply (flat_owned e rank W); exact Hn | exact Hf].
    - intros [Hn Hf]. exists n. split; [apply (flat_owned e rank W); exact Hn|].
      apply in_map_iff. exists f. auto.
  Qed.
  (* every key of feedbacks is a value some consumer declares as feedback *)
  Theorem fbs_sound f n : dict_get (d_fbs d) f = Some n -> owned e n /\ In f (fb_of e n).
  Proof.
    change (d_fbs d) with (feedbacks e (flat_order (events e))). rewrite feedbacks_writes.
    intro H. apply dict_writes_sound in H as [H | H]; [discriminate|]. apply fbs_writes. exact H.
  Qed.
  (* every fed-back value is a key, mapped to a consumer that declares it *)
  Theorem fbs_complete b f : In b (build_order e) -> b_own b <> [] ->
    In f (expands e (a_fb (b_alg b))) ->
    exists n, dict_get (d_fbs d) f = Some n /\ owned e n /\ In f (fb_of e n).
  Proof.
    intros Hb Hne Hf. destruct (b_own b) as [|n0 ns] eqn:Eo; [contradiction|].
    assert (Hn0 : In n0 (b_own b)) by (rewrite Eo; left; reflexivity).
    assert (Hw : In (f, n0) (flat_map (fun n => map (fun f => (f, n)) (fb_of e n)) (flat_order (events e)))).
    { apply fbs_writes. split; [exists b; auto|]. unfold fb_of. rewrite (owner_of e rank W b n0 Hb Hn0). exact Hf. }
    destruct (dict_writes_complete _ [] f n0 Hw) as [n Hn]. exists n.
    assert (Hd : dict_get (d_fbs d) f = Some n).
    { change (d_fbs d) with (feedbacks e (flat_order (events e))). rewrite feedbacks_writes. exact Hn. }
    split; [exact Hd | apply fbs_sound; exact Hd].
  Qed.
End WfFeedback.

(* ------------------------------------- 8. the record for the scheduler *)
Lemma NoDup_map_filter {A} (f : A -> name) (p : A -> bool) l :
  NoDup (map f l) -> NoDup (map f (filter p l)).
Proof.
  induction l as [|a l IH]; simpl; intro H; [constructor|].
  inversion H as [|? ? Hn ND]; subst. destruct (p a); simpl; [|apply IH; exact ND].
  constructor; [|apply IH; exact ND]. intro Hin. apply Hn.
  apply in_map_iff in Hin as [x [Ex Hx]]. apply filter_In in Hx as [Hx _]. apply in_map_iff. exists x. auto.
Qed.

Definition gkids (G : list gnode) (a x : name) : Prop :=
  exists g, In g G /\ g_tag g = a /\ In x (g_kids g).

Section WfGraph.
  Variable e : engine.
  Variable rank : name -> nat.
  Hypothesis W : wf_engine e rank.
  Variable ro : list name.
  Variable fo : name -> list name.
  Notation bo := (build_order e).
  Notation d := (construct e ro fo).
  Notation G := (fst (graph_of e ro fo)).

  Lemma tag_inj b b' : In b bo -> In b' bo -> b_tag b = b_tag b' -> b = b'.
  Proof.
    intros Hb Hb' Et. pose proof (find_nodup b_tag bo b (wf_tags _ _ W) Hb) as F1.
    pose proof (find_nodup b_tag bo b' (wf_tags _ _ W) Hb') as F2. rewrite Et in F1. congruence.
  Qed.
  Lemma node_iff b : In b bo -> (In (b_tag b) (t_nodes d 2) <-> b_own b <> []).
  Proof.
    intro Hb. rewrite (t_nodes_iff e rank W). split.
    - intros [v [[b' [Hb' Hv]] Et]]. rewrite (b_own_tag b' v Hv) in Et.
      rewrite <- (tag_inj b' b Hb' Hb Et). intro E. rewrite E in Hv. destruct Hv.
    - intro Hne. destruct (b_own b) as [|v vs] eqn:Eo; [contradiction|].
      assert (Hv : In v (b_own b)) by (rewrite Eo; left; reflexivity).
      exists v. split; [exists b; auto | apply b_own_tag; exact Hv].
  Qed.
  Lemma In_G g : In g G <-> exists b, In b bo /\ b_own b <> [] /\ g = gnode_of e d b.
  Proof.
    unfold graph_of. cbn [fst]. rewrite in_map_iff. split.
    - intros [b [Eg Hb]]. apply filter_In in Hb as [Hb Hm]. apply mem_In in Hm.
      exists b. repeat split; auto. apply (node_iff b Hb). exact Hm.
    - intros [b [Hb [Hne ->]]]. exists b. split; [reflexivity|]. apply filter_In. split; [exact Hb|].
      apply mem_In. apply (node_iff b Hb). exact Hne.
  Qed.
  Lemma owned_node v : owned e v -> exists g, In g G /\ g_tag g = trim 2 v /\ In v (g_outs g).
  Proof.
    intros [b [Hb Hv]]. exists (gnode_of e d b). split; [|split].
    - apply In_G. exists b. repeat split; auto. intro E. rewrite E in Hv. destruct Hv.
    - cbn [g_tag gnode_of]. symmetry. apply b_own_tag. exact Hv.
    - exact Hv.
  Qed.
  Lemma gkids_iff a x : gkids G a x <-> ledge e 2 a x.
  Proof.
    split.
    - intros [g [Hg [Et Hx]]]. apply In_G in Hg as [b [Hb [_ ->]]]. cbn [g_tag g_kids gnode_of] in *. subst a.
      apply (t_kids_iff e rank W ro fo). exact Hx.
    - intros [p [c [Hv [Ep Ec]]]]. destruct (owned_node p (vedge_owned_l e rank W _ _ Hv)) as [g [Hg [Et _]]].
      exists g. split; [exact Hg|]. split; [congruence|].
      pose proof Hg as Hg'. apply In_G in Hg' as [b [Hb [_ Eg]]]. subst g. cbn [g_tag g_kids gnode_of] in *.
      apply (t_kids_iff e rank W ro fo). exists p, c. repeat split; auto; congruence.
  Qed.

  Theorem graph_wf :
    NoDup (map g_tag G) /\
    (forall g y, In g G -> In y (g_kids g) ->
                 (exists g', In g' G /\ g_tag g' = y) /\ rank (g_tag g) < rank y) /\
    (forall g A, In g G -> (In A (g_anc g) <-> clos_trans name (gkids G) A (g_tag g))) /\
    (forall g, In g G -> g_outs g <> [] /\ forall v, In v (g_outs g) -> trim 2 v = g_tag g) /\
    (forall g y, In g G -> (In y (g_kids g) <->
                 exists g', In g' G /\ g_tag g' = y /\ exists p, In p (g_ins g') /\ In p (g_outs g))) /\
    (forall g p, In g G -> In p (g_ins g) -> exists g', In g' G /\ In p (g_outs g')).
  Proof.
    split; [|split; [|split; [|split; [|split]]]].
    - unfold graph_of. cbn [fst]. rewrite map_map. cbn [g_tag gnode_of].
      apply NoDup_map_filter. apply (wf_tags _ _ W).
    - intros g y Hg Hy. assert (Hk : gkids G (g_tag g) y) by (exists g; auto).
      apply gkids_iff in Hk. split; [|apply (ledge2_rank e rank W); exact Hk].
      destruct Hk as [p [c [Hv [_ Ec]]]].
      destruct (owned_node c (vedge_owned_r e _ _ Hv)) as [g' [Hg' [Et _]]]. exists g'. split; [exact Hg' | congruence].
    - intros g A Hg. pose proof Hg as Hg'. apply In_G in Hg' as [b [Hb [_ ->]]]. cbn [g_anc g_tag gnode_of].
      rewrite (t_anc_iff e rank W). split; apply ct_incl; intros x y H; apply gkids_iff; exact H.
    - intros g Hg. apply In_G in Hg as [b [Hb [Hne ->]]]. cbn [g_outs g_tag gnode_of].
      split; [exact Hne | intros v Hv; apply b_own_tag; exact Hv].
    - intros g y Hg. split.
      + intro Hy. assert (Hk : gkids G (g_tag g) y) by (exists g; auto).
        apply gkids_iff in Hk as [p [c [Hv [Ep Ec]]]].
        pose proof Hv as [bc [Hbc [Hc Hp]]].
        exists (gnode_of e d bc). split; [|split].
        * apply In_G. exists bc. repeat split; auto. intro E. rewrite E in Hc. destruct Hc.
        * cbn [g_tag gnode_of]. rewrite <- (b_own_tag bc c Hc). exact Ec.
        * exists p. split; [exact Hp|]. apply In_G in Hg as [b [Hb [_ ->]]]. cbn [g_outs g_tag gnode_of] in *.
          destruct (vedge_owned_l e rank W _ _ Hv) as [bp [Hbp Hpp]].
          rewrite (b_own_tag bp p Hpp) in Ep. rewrite <- (tag_inj bp b Hbp Hb Ep). exact Hpp.
      + intros [g' [Hg' [Et [p [Hp Hpo]]]]].
        assert (Hk : gkids G (g_tag g) y); [|destruct Hk as [g0 [Hg0 [Et0 Hy0]]]].
        { apply gkids_iff. apply In_G in Hg' as [b' [Hb' [Hne' ->]]]. apply In_G in Hg as [b [Hb [_ ->]]].
          cbn [g_tag g_ins g_outs gnode_of] in *. destruct (b_own b') as [|c cs] eqn:Eo; [contradiction|].
          assert (Hc : In c (b_own b')) by (rewrite Eo; left; reflexivity).
          exists p, c. split; [exists b'; auto|]. split; [apply b_own_tag; exact Hpo|].
          rewrite <- Et. apply b_own_tag. exact Hc. }
        apply In_G in Hg as [b [Hb [_ ->]]]. apply In_G in Hg0 as [b0 [Hb0 [_ ->]]].
        cbn [g_tag g_kids gnode_of] in *. rewrite <- (tag_inj b0 b Hb0 Hb Et0). exact Hy0.
    - intros g p Hg Hp. apply In_G in Hg as [b [Hb [_ ->]]]. cbn [g_ins gnode_of] in Hp.
      destruct (owned_node p (wf_ins_owned _ _ W b p Hb Hp)) as [g' [Hg' [_ Ho]]]. eauto.
  Qed.
End WfGraph.

(* ---------------------- 9. feedback references do not order anything *)
Definition strip_alg (a : algd) : algd := mkAlg (a_name a) (a_ver a) (a_svs a) (a_deps a) [].
Definition strip_pkg (p : pkgd) : pkgd :=
  mkPkg (p_name p) (map strip_alg (p_task p)) (map strip_alg (p_analysis p)) (map strip_alg (p_regress p)).
(* the same engine with every feedback reference removed *)
Definition no_fb (e : engine) : engine := map strip_pkg e.
Definition strip_b (b : balg) : balg := mkB (b_pkg b) (b_kind b) (strip_alg (b_alg b)).

Lemma find_map_strip {A} (g : A -> A) (t : A -> bool) l :
  (forall a, t (g a) = t a) -> find t (map g l) = option_map g (find t l).
Proof.
  intro H. induction l as [|a l IH]; simpl; [reflexivity|]. rewrite H. destruct (t a); [reflexivity | exact IH].
Qed.
Lemma algs_of_kind_strip k p : algs_of_kind k (strip_pkg p) = map strip_alg (algs_of_kind k p).
Proof. destruct k; reflexivity. Qed.
Lemma find_alg_no_fb e pkg k alg : find_alg (no_fb e) pkg k alg = option_map strip_alg (find_alg e pkg k alg).
Proof.
  unfold find_alg, no_fb. rewrite (find_map_strip strip_pkg) by reflexivity.
  destruct (find (fun p => p_name p =? pkg) e) as [p|]; simpl; [|reflexivity].
  rewrite algs_of_kind_strip. apply (find_map_strip strip_alg). reflexivity.
Qed.
Lemma expand_no_fb e r : expand (no_fb e) r = expand e r.
Proof.
  unfold expand. destruct (r_lvl r); rewrite ?find_alg_no_fb;
    destruct (find_alg e (r_pkg r) (r_fac r) (r_alg r)); reflexivity.
Qed.
Lemma expands_no_fb e rs : expands (no_fb e) rs = expands e rs.
Proof. unfold expands. induction rs as [|r rs IH]; simpl; [reflexivity|]. rewrite expand_no_fb, IH. reflexivity. Qed.
Lemma kind_algs_no_fb k e : kind_algs k (no_fb e) = map strip_b (kind_algs k e).
Proof.
  unfold kind_algs, no_fb. induction e as [|p e IH]; simpl; [reflexivity|].
  rewrite map_app, IH. f_equal. rewrite algs_of_kind_strip, !map_map. reflexivity.
Qed.
Lemma build_order_no_fb e : build_order (no_fb e) = map strip_b (build_order e).
Proof. unfold build_order. rewrite !kind_algs_no_fb, !map_app. reflexivity. Qed.
Lemma In_bo_no_fb e b' : In b' (build_order (no_fb e)) <-> exists b, In b (build_order e) /\ b' = strip_b b.
Proof.
  rewrite build_order_no_fb, in_map_iff. split; intros [b [H1 H2]]; exists b; auto.
Qed.
Lemma b_ins_no_fb e b : b_ins (no_fb e) (strip_b b) = b_ins e b.
Proof. unfold b_ins. apply expands_no_fb. Qed.
Lemma vedge_no_fb e p c : vedge (no_fb e) p c <-> vedge e p c.
Proof.
  unfold vedge. split.
  - intros [b' [Hb' [Hc Hp]]]. apply In_bo_no_fb in Hb' as [b [Hb ->]]. rewrite b_ins_no_fb in Hp. exists b. auto.
  - intros [b [Hb [Hc Hp]]]. exists (strip_b b). split; [apply In_bo_no_fb; eauto|].
    rewrite b_ins_no_fb. auto.
Qed.
Lemma owned_no_fb e n : owned (no_fb e) n <-> owned e n.
Proof.
  unfold owned. split.
  - intros [b' [Hb' Hn]]. apply In_bo_no_fb in Hb' as [b [Hb ->]]. exists b. auto.
  - intros [b [Hb Hn]]. exists (strip_b b). split; [apply In_bo_no_fb; eauto | exact Hn].
Qed.
Lemma wf_no_fb e rank : wf_engine e rank -> wf_engine (no_fb e) rank.
Proof.
  intro W. constructor.
  - rewrite build_order_no_fb, map_map. apply (wf_tags _ _ W).
  - intros b' r Hb' Hr. apply In_bo_no_fb in Hb' as [b [Hb ->]]. rewrite expand_no_fb.
    eapply (wf_nonempty _ _ W); eauto.
  - intros b' p Hb' Hp. apply In_bo_no_fb in Hb' as [b [Hb ->]]. rewrite b_ins_no_fb in Hp.
    apply owned_no_fb. eapply (wf_ins_owned _ _ W); eauto.
  - intros b' p Hb' Hp. apply In_bo_no_fb in Hb' as [b [Hb ->]]. destruct Hp.
  - intros b' p Hb' Hp. apply In_bo_no_fb in Hb' as [b [Hb ->]]. rewrite b_ins_no_fb in Hp.
    apply (wf_rank _ _ W b p Hb Hp).
  - intros b' Hb'. apply In_bo_no_fb in Hb' as [b [Hb ->]]. rewrite build_order_no_fb, map_length.
    apply (wf_bound _ _ W b Hb).
Qed.
Lemma ledge_no_fb e L X Y : ledge (no_fb e) L X Y <-> ledge e L X Y.
Proof.
  unfold ledge. split; intros [p [c [Hv H]]]; exists p, c; (split; [apply vedge_no_fb; exact Hv | exact H]).
Qed.

Theorem feedback_orders_nothing e rank ro fo ro' fo' : wf_engine e rank ->
  (forall L X Y, In Y (t_kids (construct e ro fo) L X) <-> In Y (t_kids (construct (no_fb e) ro' fo') L X)) /\
  (forall X A, In A (t_anc (construct e ro fo) X) <-> In A (t_anc (construct (no_fb e) ro' fo') X)) /\
  (forall L X, In X (t_nodes (construct e ro fo) L) <-> In X (t_nodes (construct (no_fb e) ro' fo') L)).
Proof.
  intro W. pose proof (wf_no_fb e rank W) as W'. split; [|split].
  - intros L X Y. rewrite (t_kids_iff e rank W), (t_kids_iff (no_fb e) rank W'). symmetry. apply ledge_no_fb.
  - intros X A. rewrite (t_anc_iff e rank W), (t_anc_iff (no_fb e) rank W').
    split; apply ct_incl; intros x y H; apply ledge_no_fb; exact H.
  - intros L X. rewrite (t_nodes_iff e rank W), (t_nodes_iff (no_fb e) rank W').
    split; intros [v [Hv Ev]]; exists v; (split; [apply owned_no_fb; exact Hv | exact Ev]).
Qed.

(* ----------------------------------------------- 10. statement helpers *)
Lemma ledge_descr e L X Y :
  ledge e L X Y <->
  exists b c p, In b (build_order e) /\ In c (b_own b) /\ In p (expands e (a_deps (b_alg b))) /\
                trim L p = X /\ trim L c = Y.
Proof.
  unfold ledge, vedge, b_ins. split.
  - intros [p [c [[b [Hb [Hc Hp]]] [E1 E2]]]]. exists b, c, p. auto.
  - intros [b [c [p [Hb [Hc [Hp [E1 E2]]]]]]]. exists p, c. split; [exists b; auto | auto].
Qed.
Lemma t_nodes2_iff e rank ro fo X : wf_engine e rank ->
  (In X (t_nodes (construct e ro fo) 2) <-> exists b, In b (build_order e) /\ b_own b <> [] /\ b_tag b = X).
Proof.
  intro W. split.
  - intro H. pose proof H as H'. apply (t_nodes_iff e rank W) in H' as [v [[b [Hb Hv]] Ev]].
    exists b. split; [exact Hb|]. split; [intro E; rewrite E in Hv; destruct Hv|].
    rewrite <- Ev. symmetry. apply b_own_tag. exact Hv.
  - intros [b [Hb [Hne <-]]]. apply (node_iff e rank W ro fo b Hb). exact Hne.
Qed.

(* the roots of every tree: the (trimmed) values of the algorithms without inputs *)
Lemma t_roots_iff e ro fo L r :
  In r (t_roots (construct e ro fo) L) <->
  exists b v, In b (build_order e) /\ a_deps (b_alg b) = [] /\ In v (b_own b) /\ trim L v = r.
Proof.
  unfold t_roots. rewrite in_map_iff.
  change (d_roots (construct e ro fo)) with (reorder ro (roots (events e))). split.
  - intros [v [E Hv]]. apply In_reorder, In_roots_e in Hv as [b [Hb [Hv Hd]]]. exists b, v. auto.
  - intros [b [v [Hb [Hd [Hv E]]]]]. exists v. split; [exact E|]. apply In_reorder, In_roots_e. exists b. auto.
Qed.
