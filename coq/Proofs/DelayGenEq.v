(* Proofs/DelayGenEq.v -- the source tie of Model/Delay.v: the definitions that
   tools/translate/delay2coq.py generates from dawgie/pl/schedule.py
   (Gen/DelayGen.v: _delay, and the due test of defer) are EQUAL to the
   hand-written model functions, for every argument -- no well-formedness guard
   is needed (valid_clockb / the ranges of dow and dom are hypotheses of the
   C20 theorems only, not of the tie).  Branch by branch: boot, day, dom, dow.

   When _delay changes, DelayGen.v changes and these proofs stop compiling:
   props/C20.py then searches for a failing input. *)
From Coq Require Import ZArith List Bool Lia.
From DV Require Import Model.Delay Gen.DelayGen.
Import ListNotations.
Local Open Scope Z_scope.

(* today = now.isoweekday() - 1 *)
Lemma gen_today : forall now,
  isoweekday now - 1 = weekday (ord (n_y now) (n_m now) (n_d now)).
Proof. intros. unfold isoweekday. lia. Qed.

(* datetime.datetime(...) has no microseconds *)
Lemma mk_dt_us0 : forall y m d t b, mk_dt y m d t = Val b -> i_us b = 0.
Proof.
  intros y m d [t|] b H; cbn in H; [|discriminate].
  destruct (valid_dateb y m d && valid_timeb t); inversion H; reflexivity.
Qed.

(* ---- boot ---- *)
Lemma gen_boot : forall booted when now b,
  m_boot (snd when) = Some b ->
  DelayGen.delay booted when now = Delay.delay booted when now.
Proof.
  intros booted [id mo] now b H. unfold DelayGen.delay, Delay.delay. cbn [fst snd] in *.
  rewrite H. destruct (existsb (event_eqb (id, mo)) booted); [reflexivity|].
  unfold dt_sub. rewrite Z.sub_diag. reflexivity.
Qed.

(* ---- day: the first `if` of the else part ---- *)
Definition gen_day_part (mo : moment) (t0 : instant) : res instant :=
  match m_day mo with
  | Some day_ =>
      match mk_dt (fst (fst day_)) (snd (fst day_)) (snd day_) (m_time mo) with
      | Fail e_ => Fail e_
      | Val then_ => Val then_
      end
  | None => Val t0
  end.
Lemma gen_day : forall mo t0,
  gen_day_part mo t0
  = match m_day mo with None => Val t0 | Some (y, m, d) => mk_dt y m d (m_time mo) end.
Proof.
  intros. unfold gen_day_part. destruct (m_day mo) as [[[y m] d]|]; [|reflexivity].
  cbn [fst snd]. destruct (mk_dt y m d (m_time mo)); reflexivity.
Qed.

(* ---- dom: the second `if` ---- *)
Definition gen_dom_part (mo : moment) (now : clock) (t1 : instant) : res instant :=
  match m_dom mo with
  | Some dom_ =>
      let nm_ := n_m now + 1 in
      match mk_dt (n_y now + (if nm_ =? 13 then 1 else 0)) (if nm_ =? 13 then 1 else nm_)
                  dom_ (m_time mo) with
      | Fail e_ => Fail e_
      | Val then_ => Val then_
      end
  | None => Val t1
  end.
Lemma gen_dom : forall mo now t1,
  gen_dom_part mo now t1
  = match m_dom mo with
    | None => Val t1
    | Some dom =>
        let nm := n_m now + 1 in
        mk_dt (n_y now + (if nm =? 13 then 1 else 0)) (if nm =? 13 then 1 else nm) dom (m_time mo)
    end.
Proof.
  intros. unfold gen_dom_part. destruct (m_dom mo) as [dom|]; [|reflexivity].
  cbv zeta. destruct (mk_dt _ _ dom (m_time mo)); reflexivity.
Qed.

(* ---- dow: the third `if` ---- *)
Definition gen_dow_part (mo : moment) (now : clock) (t2 : instant) : res instant :=
  let today_ := isoweekday now - 1 in
  match m_dow mo with
  | Some dow_ =>
      match td_days (if dow_ <? today_ then 7 + dow_ - today_ else dow_ - today_) with
      | Fail e_ => Fail e_
      | Val dd_ =>
          match mk_dt (n_y now) (n_m now) (n_d now) (m_time mo) with
          | Fail e_ => Fail e_
          | Val t_ =>
              match dt_add_days t_ dd_ with
              | Fail e_ => Fail e_
              | Val then_ => Val then_
              end
          end
      end
  | None => Val t2
  end.
Lemma gen_dow : forall mo now t2,
  gen_dow_part mo now t2
  = match m_dow mo with
    | None => Val t2
    | Some dow =>
        let today := weekday (ord (n_y now) (n_m now) (n_d now)) in
        let dd := if dow <? today then 7 + dow - today else dow - today in
        if (dd <? - MAXTD) || (MAXTD <? dd) then Fail OverflowError
        else
          match mk_dt (n_y now) (n_m now) (n_d now) (m_time mo) with
          | Fail e => Fail e
          | Val b =>
              let o := i_ord b + dd in
              if (1 <=? o) && (o <=? MAXORD) then Val (mkI o (i_sod b) 0)
              else Fail OverflowError
          end
    end.
Proof.
  intros. unfold gen_dow_part. rewrite gen_today. cbv zeta.
  destruct (m_dow mo) as [dow|]; [|reflexivity].
  unfold td_days.
  destruct ((_ <? - MAXTD) || (MAXTD <? _)); [reflexivity|].
  destruct (mk_dt (n_y now) (n_m now) (n_d now) (m_time mo)) as [b|e] eqn:E; [|reflexivity].
  unfold dt_add_days. cbv zeta. rewrite (mk_dt_us0 _ _ _ _ _ E).
  destruct ((1 <=? _) && (_ <=? MAXORD)); reflexivity.
Qed.

(* ---- the else part as a whole = Delay.delay_then ---- *)
Lemma gen_then : forall mo now,
  match gen_day_part mo (now_inst now) with
  | Fail e => Fail e
  | Val t1 =>
      match gen_dom_part mo now t1 with
      | Fail e => Fail e
      | Val t2 => gen_dow_part mo now t2
      end
  end = delay_then mo now.
Proof.
  intros. unfold delay_then. rewrite gen_day.
  destruct (match m_day mo with None => _ | Some _ => _ end) as [t1|e]; [|reflexivity].
  rewrite gen_dom.
  destruct (match m_dom mo with None => _ | Some _ => _ end) as [t2|e]; [|reflexivity].
  rewrite gen_dow. reflexivity.
Qed.

Lemma gen_noboot : forall booted when now,
  m_boot (snd when) = None ->
  DelayGen.delay booted when now = Delay.delay booted when now.
Proof.
  intros booted [id mo] now H. unfold Delay.delay. cbn [fst snd] in *. rewrite H.
  rewrite <- gen_then.
  unfold DelayGen.delay. cbn [fst snd]. rewrite H.
  fold (gen_day_part mo (now_inst now)).
  destruct (gen_day_part mo (now_inst now)) as [t1|e]; [|reflexivity].
  fold (gen_dom_part mo now t1).
  destruct (gen_dom_part mo now t1) as [t2|e]; [|reflexivity].
  change (match m_dow mo with
          | Some dow_ => _
          | None => Val t2 end) with (gen_dow_part mo now t2).
  destruct (gen_dow_part mo now t2) as [t3|e]; reflexivity.
Qed.

Theorem delay_gen_eq : forall booted when now,
  DelayGen.delay booted when now = Delay.delay booted when now.
Proof.
  intros. destruct (m_boot (snd when)) eqn:B.
  - eapply gen_boot; eassumption.
  - apply gen_noboot; assumption.
Qed.

(* the due test of defer(): ts <= 300.0 on the float seconds = the integer
   test of Delay.run_period on microseconds *)
Theorem due_gen_eq : forall d, DelayGen.due d = (d <=? WINDOW_US).
Proof. intros. reflexivity. Qed.

(* consequence: defer's loop body, written with the generated functions *)
Corollary run_period_is_source : forall now targets id p ps st delays,
  run_period now targets id (p :: ps) st delays
  = match DelayGen.delay (s_booted st) p now with
    | (Err e, _) => (st, delays, Some e)
    | (NotKnowable, _) => run_period now targets id ps st delays
    | (Ok _ d, b') =>
        let st1 := set_booted b' st in
        if DelayGen.due d then run_period now targets id ps (enqueue targets id st1) delays
        else run_period now targets id ps st1 (delays ++ [d])
    end.
Proof.
  intros. rewrite delay_gen_eq. cbn [run_period].
  destruct (Delay.delay (s_booted st) p now) as [[t d| |e] b']; try reflexivity.
Qed.
