(* Proofs/DelayProofs.v -- lemmas about Model/Delay.v (pl.schedule._delay,
   defer, booted). *)
From Coq Require Import ZArith List Bool Lia Permutation.
From DV Require Import Model.Delay.
Import ListNotations.
Local Open Scope Z_scope.

(* ---------------- calendar ---------------- *)
Lemma dl_weekday_range : forall o, 0 <= weekday o < 7.
Proof. intro o. unfold weekday. apply Z.mod_pos_bound. lia. Qed.

Lemma dl_dby_bounds : forall y, 1 <= y <= 9998 ->
  0 <= days_before_year y <= 3651428.
Proof.
  intros y H. unfold days_before_year. cbv zeta.
  pose proof (Z.div_mod (y - 1) 4 ltac:(lia)).
  pose proof (Z.div_mod (y - 1) 100 ltac:(lia)).
  pose proof (Z.div_mod (y - 1) 400 ltac:(lia)).
  pose proof (Z.mod_pos_bound (y - 1) 4 ltac:(lia)).
  pose proof (Z.mod_pos_bound (y - 1) 100 ltac:(lia)).
  pose proof (Z.mod_pos_bound (y - 1) 400 ltac:(lia)).
  lia.
Qed.

Ltac month_cases m :=
  let H := fresh in
  assert (H : m = 1 \/ m = 2 \/ m = 3 \/ m = 4 \/ m = 5 \/ m = 6 \/ m = 7 \/
              m = 8 \/ m = 9 \/ m = 10 \/ m = 11 \/ m = 12) by lia;
  repeat (destruct H as [H|H]); subst m.

Ltac zc := cbn [Z.eqb Pos.eqb Z.ltb Z.leb Z.compare Pos.compare Pos.compare_cont
                  andb orb negb] in *.

Lemma dl_valid_date : forall y m d, valid_dateb y m d = true ->
  1 <= y <= 9999 /\ 1 <= m <= 12 /\ 1 <= d <= days_in_month y m.
Proof.
  intros y m d H. unfold valid_dateb in H.
  repeat (apply andb_true_iff in H; destruct H as [H ?]).
  repeat match goal with K : (_ <=? _) = true |- _ => apply Z.leb_le in K end. lia.
Qed.

Lemma dl_valid_date_intro : forall y m d,
  1 <= y <= 9999 -> 1 <= m <= 12 -> 1 <= d <= days_in_month y m ->
  valid_dateb y m d = true.
Proof.
  intros. unfold valid_dateb.
  repeat (apply andb_true_iff; split); apply Z.leb_le; lia.
Qed.

Lemma dl_dim_bounds : forall y m, 1 <= m <= 12 -> 28 <= days_in_month y m <= 31.
Proof.
  intros y m H. month_cases m; unfold days_in_month; zc; try lia.
  destruct (is_leap y); lia.
Qed.

(* day of the year is between 1 and 366 *)
Lemma dl_doy_bounds : forall y m d, 1 <= m <= 12 -> 1 <= d <= days_in_month y m ->
  1 <= days_before_month y m + d <= 366.
Proof.
  intros y m d Hm Hd. unfold days_before_month.
  month_cases m; unfold days_in_month, dbm_common in *; zc; destruct (is_leap y); zc; lia.
Qed.

Lemma dl_ord_bounds : forall y m d, valid_dateb y m d = true -> y <= 9998 ->
  1 <= ord y m d <= 3651794.
Proof.
  intros y m d V Hy. apply dl_valid_date in V. destruct V as [Y [M D]].
  pose proof (dl_dby_bounds y ltac:(lia)). pose proof (dl_doy_bounds y m d M D).
  unfold ord. lia.
Qed.

(* the year step: days_before_year (y+1) = days_before_year y + 365 (+1) *)
Lemma dl_dby_succ : forall y, 1 <= y ->
  days_before_year (y + 1) = days_before_year y + (if is_leap y then 366 else 365).
Proof.
  intros y Hy. unfold days_before_year, is_leap. cbv zeta.
  replace (y + 1 - 1) with y by lia.
  pose proof (Z.div_mod y 4 ltac:(lia)). pose proof (Z.div_mod y 100 ltac:(lia)).
  pose proof (Z.div_mod y 400 ltac:(lia)).
  pose proof (Z.div_mod (y - 1) 4 ltac:(lia)).
  pose proof (Z.div_mod (y - 1) 100 ltac:(lia)).
  pose proof (Z.div_mod (y - 1) 400 ltac:(lia)).
  pose proof (Z.mod_pos_bound y 4 ltac:(lia)). pose proof (Z.mod_pos_bound y 100 ltac:(lia)).
  pose proof (Z.mod_pos_bound y 400 ltac:(lia)).
  pose proof (Z.mod_pos_bound (y - 1) 4 ltac:(lia)).
  pose proof (Z.mod_pos_bound (y - 1) 100 ltac:(lia)).
  pose proof (Z.mod_pos_bound (y - 1) 400 ltac:(lia)).
  destruct (y mod 4 =? 0) eqn:E4; destruct (y mod 100 =? 0) eqn:E100;
    destruct (y mod 400 =? 0) eqn:E400; cbn [andb orb negb];
    repeat match goal with
           | K : (_ =? _) = true |- _ => apply Z.eqb_eq in K
           | K : (_ =? _) = false |- _ => apply Z.eqb_neq in K
           end; lia.
Qed.

(* the first day of the next month follows the last day of this month *)
Definition next_y (y m : Z) : Z := y + (if m + 1 =? 13 then 1 else 0).
Definition next_m (m : Z) : Z := if m + 1 =? 13 then 1 else m + 1.

Lemma dl_next_month : forall y m, 1 <= y -> 1 <= m <= 12 ->
  ord (next_y y m) (next_m m) 1 = ord y m 1 + days_in_month y m.
Proof.
  intros y m Hy Hm. unfold next_y, next_m, ord.
  month_cases m; cbn [Z.add Pos.add Pos.succ Pos.add_carry]; zc; rewrite ?Z.add_0_r;
    try (unfold days_before_month, days_in_month, dbm_common; zc;
         destruct (is_leap y); zc; lia).
  (* December *)
  rewrite dl_dby_succ by lia.
  unfold days_before_month, days_in_month, dbm_common; zc.
  destruct (is_leap y); destruct (is_leap (y + 1)); zc; lia.
Qed.

Lemma dl_ord_day : forall y m d, ord y m d = ord y m 1 + (d - 1).
Proof. intros. unfold ord. lia. Qed.

(* ---------------- mk_dt ---------------- *)
Lemma dl_mk_dt_ok : forall y m d t,
  valid_dateb y m d = true -> valid_timeb t = true ->
  mk_dt y m d (Some t) = Val (mkI (ord y m d) (sod_of t) 0).
Proof. intros y m d t V T. unfold mk_dt. rewrite V, T. reflexivity. Qed.

Lemma dl_sod_bounds : forall t, valid_timeb t = true -> 0 <= sod_of t < 86400.
Proof.
  intros [[h mi] s] H. unfold valid_timeb in H. unfold sod_of.
  repeat (apply andb_true_iff in H; destruct H as [H ?]).
  repeat match goal with
         | K : (_ <=? _) = true |- _ => apply Z.leb_le in K
         | K : (_ <? _) = true |- _ => apply Z.ltb_lt in K
         end. lia.
Qed.

Lemma dl_valid_clock : forall c, valid_clockb c = true ->
  valid_dateb (n_y c) (n_m c) (n_d c) = true /\ 0 <= n_sod c < 86400 /\ 0 <= n_us c < US.
Proof.
  intros c H. unfold valid_clockb in H.
  apply andb_true_iff in H. destruct H as [H H4].
  apply andb_true_iff in H. destruct H as [H H3].
  apply andb_true_iff in H. destruct H as [H H2].
  apply andb_true_iff in H. destruct H as [H H1].
  apply Z.leb_le in H1. apply Z.ltb_lt in H2. apply Z.leb_le in H3. apply Z.ltb_lt in H4.
  split; [exact H|]. lia.
Qed.

(* ---------------- day of week ---------------- *)
Lemma dl_dow_shift : forall o dow, 0 <= dow <= 6 ->
  let today := weekday o in
  let dd := if dow <? today then 7 + dow - today else dow - today in
  0 <= dd <= 6 /\ weekday (o + dd) = dow.
Proof.
  intros o dow H today dd. pose proof (dl_weekday_range o) as R. fold today in R.
  assert (D : 0 <= dd <= 6).
  { unfold dd. destruct (dow <? today) eqn:E;
      [apply Z.ltb_lt in E | apply Z.ltb_ge in E]; lia. }
  split; [exact D|].
  unfold weekday. unfold today, weekday in *.
  pose proof (Z.div_mod (o + 6) 7 ltac:(lia)) as E1.
  assert (E2 : o + dd + 6 = 7 * ((o + 6) / 7 + (if dow <? (o + 6) mod 7 then 1 else 0)) + dow).
  { unfold dd. destruct (dow <? (o + 6) mod 7) eqn:E; lia. }
  rewrite E2. rewrite Z.add_comm, Z.mul_comm, Z.mod_add by lia. apply Z.mod_small. lia.
Qed.

(* two days with the same weekday less than a week apart are the same day *)
Lemma dl_weekday_inj : forall a b, weekday a = weekday b -> a <= b < a + 7 -> a = b.
Proof.
  intros a b H R. unfold weekday in H.
  pose proof (Z.div_mod (a + 6) 7 ltac:(lia)). pose proof (Z.div_mod (b + 6) 7 ltac:(lia)).
  pose proof (Z.mod_pos_bound (a + 6) 7 ltac:(lia)).
  pose proof (Z.mod_pos_bound (b + 6) 7 ltac:(lia)). lia.
Qed.

Definition dow_moment (dow : Z) (t : Z * Z * Z) : moment :=
  mkM None None None (Some dow) (Some t).
Definition dom_moment (dom : Z) (t : Z * Z * Z) : moment :=
  mkM None None (Some dom) None (Some t).
Definition day_moment (day : Z * Z * Z) (t : Z * Z * Z) : moment :=
  mkM None (Some day) None None (Some t).
Definition boot_moment (b : bool) : moment := mkM (Some b) None None None None.

Theorem dl_dow : forall (id : nat) dow t now booted,
  valid_clockb now = true -> n_y now <= 9998 -> 0 <= dow <= 6 -> valid_timeb t = true ->
  exists dd, 0 <= dd <= 6 /\
    let o := ord (n_y now) (n_m now) (n_d now) + dd in
    let then_ := mkI o (sod_of t) 0 in
    let delta := inst_us then_ - inst_us (now_inst now) in
    delay booted (id, dow_moment dow t) now = (Ok then_ delta, booted) /\
    weekday o = dow /\
    - DAYUS < delta <= 7 * DAYUS /\
    (forall o', weekday o' = dow ->
       ~ (inst_us (now_inst now) <= inst_us (mkI o' (sod_of t) 0) < inst_us then_)).
Proof.
  intros id dow t now booted Vc Hy Hd Vt.
  apply dl_valid_clock in Vc. destruct Vc as [Vd [Hs Hu]].
  pose proof (dl_ord_bounds _ _ _ Vd Hy) as Ho.
  pose proof (dl_dow_shift (ord (n_y now) (n_m now) (n_d now)) dow Hd) as [Dd Wd].
  pose proof (dl_sod_bounds t Vt) as St.
  set (dd := if dow <? weekday (ord (n_y now) (n_m now) (n_d now))
             then 7 + dow - weekday (ord (n_y now) (n_m now) (n_d now))
             else dow - weekday (ord (n_y now) (n_m now) (n_d now))) in *.
  exists dd. split; [exact Dd|]. cbv zeta.
  split; [|split; [exact Wd|split]].
  - unfold delay, dow_moment. cbn [snd m_boot]. unfold delay_then. cbn [m_day m_dom m_dow m_time].
    fold dd.
    assert (B : ((dd <? - MAXTD) || (MAXTD <? dd)) = false).
    { unfold MAXTD. apply orb_false_iff. split; apply Z.ltb_ge; lia. }
    rewrite B. rewrite (dl_mk_dt_ok _ _ _ _ Vd Vt). cbn [i_ord i_sod].
    assert (R : ((1 <=? ord (n_y now) (n_m now) (n_d now) + dd) &&
                 (ord (n_y now) (n_m now) (n_d now) + dd <=? MAXORD)) = true).
    { unfold MAXORD. apply andb_true_iff. split; apply Z.leb_le; lia. }
    rewrite R. reflexivity.
  - unfold inst_us, now_inst, DAYUS, US in *. cbn [i_ord i_sod i_us]. lia.
  - intros o' Wo' [L U]. unfold inst_us, now_inst, DAYUS, US in *.
    cbn [i_ord i_sod i_us] in *.
    assert (A : ord (n_y now) (n_m now) (n_d now) <= o' < ord (n_y now) (n_m now) (n_d now) + dd) by lia.
    assert (E : o' = ord (n_y now) (n_m now) (n_d now) + dd).
    { apply dl_weekday_inj; [rewrite Wo', Wd; reflexivity | lia]. }
    lia.
Qed.

(* ---------------- date ---------------- *)
Theorem dl_day : forall (id : nat) y m d t now booted,
  valid_dateb y m d = true -> valid_timeb t = true ->
  let then_ := mkI (ord y m d) (sod_of t) 0 in
  delay booted (id, day_moment (y, m, d) t) now
  = (Ok then_ (inst_us then_ - inst_us (now_inst now)), booted).
Proof.
  intros id y m d t now booted V T. cbv zeta.
  unfold delay, day_moment. cbn [snd m_boot]. unfold delay_then.
  cbn [m_day m_dom m_dow m_time]. rewrite (dl_mk_dt_ok _ _ _ _ V T). reflexivity.
Qed.

(* ---------------- day of month ---------------- *)
Lemma dl_dom_eval : forall (id : nat) dom t now booted,
  delay booted (id, dom_moment dom t) now
  = match mk_dt (next_y (n_y now) (n_m now)) (next_m (n_m now)) dom (Some t) with
    | Val th => (Ok th (inst_us th - inst_us (now_inst now)), booted)
    | Fail e => (Err e, booted)
    end.
Proof.
  intros. unfold delay, dom_moment. cbn [snd m_boot]. unfold delay_then.
  cbn [m_day m_dom m_dow m_time]. unfold next_y, next_m.
  destruct (mk_dt _ _ dom (Some t)); reflexivity.
Qed.

Lemma dl_next_valid : forall y m, 1 <= y <= 9998 -> 1 <= m <= 12 ->
  1 <= next_y y m <= 9999 /\ 1 <= next_m m <= 12.
Proof.
  intros y m Hy Hm. unfold next_y, next_m.
  destruct (m + 1 =? 13) eqn:E; [apply Z.eqb_eq in E | apply Z.eqb_neq in E]; lia.
Qed.

Theorem dl_dom_partial : forall (id : nat) dom t now booted,
  valid_clockb now = true -> n_y now <= 9998 -> 1 <= dom <= 28 -> valid_timeb t = true ->
  let y' := next_y (n_y now) (n_m now) in
  let m' := next_m (n_m now) in
  let then_ := mkI (ord y' m' dom) (sod_of t) 0 in
  let delta := inst_us then_ - inst_us (now_inst now) in
  valid_dateb y' m' dom = true /\
  delay booted (id, dom_moment dom t) now = (Ok then_ delta, booted) /\
  0 < delta.
Proof.
  intros id dom t now booted Vc Hy Hd Vt. cbv zeta.
  apply dl_valid_clock in Vc. destruct Vc as [Vd [Hs Hu]].
  pose proof (dl_valid_date _ _ _ Vd) as [Y [M D]].
  pose proof (dl_next_valid (n_y now) (n_m now) ltac:(lia) M) as [Y' M'].
  pose proof (dl_dim_bounds (next_y (n_y now) (n_m now)) (next_m (n_m now)) M') as B.
  assert (V' : valid_dateb (next_y (n_y now) (n_m now)) (next_m (n_m now)) dom = true).
  { apply dl_valid_date_intro; lia. }
  split; [exact V'|]. split.
  - rewrite dl_dom_eval, (dl_mk_dt_ok _ _ _ _ V' Vt). reflexivity.
  - pose proof (dl_next_month (n_y now) (n_m now) ltac:(lia) M) as N.
    pose proof (dl_sod_bounds t Vt).
    unfold inst_us, now_inst, DAYUS, US in *. cbn [i_ord i_sod i_us].
    rewrite (dl_ord_day (next_y _ _) (next_m _) dom), N.
    rewrite (dl_ord_day (n_y now) (n_m now) (n_d now)). lia.
Qed.

(* whenever a day-of-month event with dom >= 2 is computable it is more than
   a day away: it is never inside the 300 s firing window *)
Theorem dl_dom_never_due : forall (id : nat) dom t now booted th delta b',
  valid_clockb now = true -> 2 <= dom ->
  delay booted (id, dom_moment dom t) now = (Ok th delta, b') ->
  WINDOW_US < delta.
Proof.
  intros id dom t now booted th delta b' Vc Hd E.
  rewrite dl_dom_eval in E. unfold mk_dt in E.
  destruct (valid_dateb _ _ dom && valid_timeb t) eqn:V; [|discriminate].
  apply andb_true_iff in V. destruct V as [V Vt].
  inversion E; subst; clear E.
  apply dl_valid_clock in Vc. destruct Vc as [Vd [Hs Hu]].
  pose proof (dl_valid_date _ _ _ Vd) as [Y [M D]].
  pose proof (dl_next_month (n_y now) (n_m now) ltac:(lia) M) as N.
  pose proof (dl_sod_bounds t Vt).
  unfold inst_us, now_inst, WINDOW_US, DAYUS, US in *. cbn [i_ord i_sod i_us].
  rewrite (dl_ord_day (next_y _ _) (next_m _) dom), N.
  rewrite (dl_ord_day (n_y now) (n_m now) (n_d now)). lia.
Qed.

(* ---------------- boot ---------------- *)
Lemma dl_opt_eqb_refl : forall (A : Type) (eqb : A -> A -> bool),
  (forall x, eqb x x = true) -> forall o, opt_eqb eqb o o = true.
Proof. intros A eqb R [x|]; cbn; auto. Qed.

Lemma dl_z3_eqb_refl : forall x, z3_eqb x x = true.
Proof. intros [[a b] c]. unfold z3_eqb. rewrite !Z.eqb_refl. reflexivity. Qed.

Lemma dl_event_eqb_refl : forall e, event_eqb e e = true.
Proof.
  intros [id mo]. unfold event_eqb, moment_eqb. cbn [fst snd].
  rewrite Nat.eqb_refl.
  rewrite (dl_opt_eqb_refl _ Bool.eqb eqb_reflx).
  rewrite !(dl_opt_eqb_refl _ z3_eqb dl_z3_eqb_refl).
  rewrite !(dl_opt_eqb_refl _ Z.eqb Z.eqb_refl). reflexivity.
Qed.

Lemma dl_booted_grows : forall booted e now x,
  In x booted -> In x (snd (delay booted e now)).
Proof.
  intros booted e now x I. unfold delay.
  destruct (m_boot (snd e)).
  - destruct (existsb (event_eqb e) booted); cbn; [exact I|apply in_or_app; left; exact I].
  - destruct (delay_then (snd e) now); exact I.
Qed.

Definition is_booted (e : event) (booted : list event) : bool :=
  existsb (event_eqb e) booted.

Lemma dl_is_booted_grows : forall e booted e' now,
  is_booted e booted = true -> is_booted e (snd (delay booted e' now)) = true.
Proof.
  intros e booted e' now H. unfold is_booted in *. apply existsb_exists in H.
  destruct H as [x [I Q]]. apply existsb_exists. exists x. split; [|exact Q].
  apply dl_booted_grows. exact I.
Qed.

Theorem dl_boot : forall e now booted, m_boot (snd e) <> None ->
  (is_booted e booted = false ->
   delay booted e now = (Ok (now_inst now) 0, booted ++ [e])) /\
  (is_booted e booted = true -> delay booted e now = (NotKnowable, booted)) /\
  is_booted e (snd (delay booted e now)) = true /\
  (forall b' now', is_booted e b' = true -> delay b' e now' = (NotKnowable, b')).
Proof.
  intros e now booted H. destruct (m_boot (snd e)) as [b|] eqn:B; [clear H|congruence].
  unfold is_booted. repeat split.
  - intro X. unfold delay. rewrite B, X. reflexivity.
  - intro X. unfold delay. rewrite B, X. reflexivity.
  - unfold delay. rewrite B. destruct (existsb (event_eqb e) booted) eqn:X; cbn [snd].
    + exact X.
    + rewrite existsb_app. cbn. rewrite dl_event_eqb_refl. apply orb_true_r.
  - intros b' now' X. unfold delay. rewrite B, X. reflexivity.
Qed.

(* ---------------- defer ---------------- *)
Lemma dl_insert_perm : forall lv x l, Permutation (insert_level lv x l) (x :: l).
Proof.
  induction l as [|y l IH]; cbn; [apply Permutation_refl|].
  destruct (lv x <? lv y); [apply Permutation_refl|].
  eapply Permutation_trans; [apply perm_skip; exact IH|apply perm_swap].
Qed.

Lemma dl_sort_perm_aux : forall lv l acc,
  Permutation (fold_left (fun a x => insert_level lv x a) l acc) (acc ++ l).
Proof.
  induction l as [|x l IH]; intro acc; cbn.
  - rewrite app_nil_r. apply Permutation_refl.
  - eapply Permutation_trans; [apply IH|].
    eapply Permutation_trans; [apply Permutation_app_tail; apply dl_insert_perm|].
    cbn. apply Permutation_middle.
Qed.

Lemma dl_sort_perm : forall lv l, Permutation (sort_level lv l) l.
Proof. intros. unfold sort_level. apply (dl_sort_perm_aux lv l []). Qed.

Lemma dl_set_add_in : forall x y l, In x l -> In x (set_add y l).
Proof.
  induction l as [|z l IH]; intro H.
  - destruct H.
  - simpl. destruct (Nat.eqb y z); [exact H|]. destruct (Nat.ltb y z); [right; exact H|].
    destruct H as [H|H]; [left; exact H|right; apply IH; exact H].
Qed.

Lemma dl_set_add_self : forall y l, In y (set_add y l).
Proof.
  induction l as [|z l IH].
  - left. reflexivity.
  - simpl. destruct (Nat.eqb y z) eqn:E.
    + apply Nat.eqb_eq in E. subst. left. reflexivity.
    + destruct (Nat.ltb y z); [left; reflexivity|right; exact IH].
Qed.

Lemma dl_set_union_in : forall xs l x, In x l \/ In x xs -> In x (set_union xs l).
Proof.
  unfold set_union. induction xs as [|y xs IH]; intros l x H.
  - destruct H as [H|[]]; exact H.
  - simpl. apply IH. destruct H as [H|[H|H]].
    + left. apply dl_set_add_in. exact H.
    + subst. left. apply dl_set_add_self.
    + right. exact H.
Qed.

(* "node id is queued as a due periodic": what C20_due_queues promises *)
Definition queued (targets : list nat) (id : nat) (st : sched) : Prop :=
  In id (s_que st) /\ nd_status (s_node st id) = St_waiting /\
  (nd_asp (s_node st id) = true -> In ALL (nd_todo (s_node st id))) /\
  (nd_asp (s_node st id) = false -> incl targets (nd_todo (s_node st id))).

Lemma dl_enqueue_que_in : forall targets id st x,
  In x (s_que st) \/ x = id -> In x (s_que (enqueue targets id st)).
Proof.
  intros targets id st x H. unfold enqueue. cbn [s_que upd set_que].
  eapply Permutation_in; [apply Permutation_sym; apply dl_sort_perm|].
  destruct (existsb (Nat.eqb id) (s_que st)) eqn:E.
  - destruct H as [H|H]; [exact H|]. subst. apply existsb_exists in E.
    destruct E as [y [I Q]]. apply Nat.eqb_eq in Q. subst. exact I.
  - apply in_or_app. destruct H as [H|H]; [left; exact H|right; left; congruence].
Qed.

Lemma dl_enqueue_node_other : forall targets id st k,
  k <> id -> s_node (enqueue targets id st) k = s_node st k.
Proof.
  intros targets id st k H. unfold enqueue. cbn [s_node upd set_que].
  destruct (Nat.eqb k id) eqn:E; [apply Nat.eqb_eq in E; contradiction|reflexivity].
Qed.

Lemma dl_enqueue_queued : forall targets id st, queued targets id (enqueue targets id st).
Proof.
  intros targets id st. unfold queued. split; [apply dl_enqueue_que_in; right; reflexivity|].
  unfold enqueue. cbn [s_node upd set_que]. rewrite Nat.eqb_refl.
  cbn [nd_status nd_asp nd_todo with_todo with_status with_timer_event].
  split; [reflexivity|]. split; intro A; rewrite A.
  - apply dl_set_add_self.
  - intros x I. apply dl_set_union_in. right. exact I.
Qed.

Lemma dl_enqueue_keeps : forall targets id id' st,
  queued targets id st -> queued targets id (enqueue targets id' st).
Proof.
  intros targets id id' st [Q [S [A1 A2]]].
  destruct (Nat.eq_dec id id') as [->|N]; [apply dl_enqueue_queued|].
  unfold queued. rewrite (dl_enqueue_node_other targets id' st id N).
  split; [apply dl_enqueue_que_in; left; exact Q|]. repeat split; assumption.
Qed.

Lemma dl_set_booted_keeps : forall targets id b st,
  queued targets id st -> queued targets id (set_booted b st).
Proof. intros targets id b st H. exact H. Qed.

Lemma dl_run_period_keeps : forall now targets id' ps st dl st' dl' e id,
  run_period now targets id' ps st dl = (st', dl', e) ->
  queued targets id st -> queued targets id st'.
Proof.
  induction ps as [|p ps IH]; cbn [run_period]; intros st dl st' dl' e id R Q.
  - inversion R; subst. exact Q.
  - destruct (delay (s_booted st) p now) as [[th d| |er] b'].
    + destruct (d <=? WINDOW_US).
      * eapply IH; [exact R|]. apply dl_enqueue_keeps. exact Q.
      * eapply IH; [exact R|]. exact Q.
    + eapply IH; [exact R|exact Q].
    + inversion R; subst. exact Q.
Qed.

(* a run over a period list that contains a due, computable, non-boot event
   and meets no exception leaves the node queued *)
Lemma dl_delay_nonboot : forall b p now,
  m_boot (snd p) = None -> delay b p now = (fst (delay [] p now), b).
Proof.
  intros b p now H. unfold delay. rewrite H.
  destruct (delay_then (snd p) now); reflexivity.
Qed.

Lemma dl_run_period_due : forall now targets id ps st dl st' dl' p th d,
  run_period now targets id ps st dl = (st', dl', None) ->
  In p ps -> m_boot (snd p) = None -> fst (delay [] p now) = Ok th d -> d <= WINDOW_US ->
  queued targets id st'.
Proof.
  induction ps as [|q ps IH]; cbn [run_period]; intros st dl st' dl' p th d R I B E W; [contradiction|].
  destruct I as [->|I].
  - rewrite (dl_delay_nonboot _ _ _ B), E in R.
    apply Z.leb_le in W. rewrite W in R.
    eapply dl_run_period_keeps; [exact R|]. apply dl_enqueue_queued.
  - destruct (delay (s_booted st) q now) as [[th' d'| |er] b'].
    + destruct (d' <=? WINDOW_US); eapply IH; eauto.
    + eapply IH; eauto.
    + discriminate.
Qed.

Lemma dl_run_period_node_other : forall now targets id ps st dl st' dl' e k,
  run_period now targets id ps st dl = (st', dl', e) -> k <> id ->
  s_node st' k = s_node st k.
Proof.
  induction ps as [|p ps IH]; cbn [run_period]; intros st dl st' dl' e k R N.
  - inversion R; subst. reflexivity.
  - destruct (delay (s_booted st) p now) as [[th d| |er] b'].
    + destruct (d <=? WINDOW_US).
      * rewrite (IH _ _ _ _ _ _ R N). rewrite dl_enqueue_node_other by exact N. reflexivity.
      * rewrite (IH _ _ _ _ _ _ R N). reflexivity.
    + apply (IH _ _ _ _ _ _ R N).
    + inversion R; subst. reflexivity.
Qed.

Lemma dl_run_per_keeps : forall now targets ids st dl st' dl' e id,
  run_per now targets ids st dl = (st', dl', e) ->
  queued targets id st -> queued targets id st'.
Proof.
  induction ids as [|k ids IH]; cbn [run_per]; intros st dl st' dl' e id R Q.
  - inversion R; subst. exact Q.
  - destruct (skipped (nd_status (s_node st k))) eqn:S; [eapply IH; eauto|].
    assert (N : id <> k).
    { intro X. subst. destruct Q as [_ [W _]]. rewrite W in S. discriminate. }
    set (st1 := upd k (with_status St_delayed) st) in *.
    assert (Q1 : queued targets id st1).
    { destruct Q as [Q [W [A1 A2]]]. unfold queued, st1. cbn [s_que s_node upd].
      destruct (Nat.eqb id k) eqn:E; [apply Nat.eqb_eq in E; contradiction|].
      repeat split; assumption. }
    destruct (run_period now targets k (nd_period (s_node st1 k)) st1 dl)
      as [[st2 dl2] [er|]] eqn:P.
    + inversion R; subst. eapply dl_run_period_keeps; eauto.
    + eapply IH; [exact R|]. eapply dl_run_period_keeps; eauto.
Qed.

Lemma dl_run_per_due : forall now targets ids st dl st' dl' id p th d,
  run_per now targets ids st dl = (st', dl', None) ->
  In id ids -> skipped (nd_status (s_node st id)) = false ->
  In p (nd_period (s_node st id)) -> m_boot (snd p) = None ->
  fst (delay [] p now) = Ok th d -> d <= WINDOW_US ->
  queued targets id st'.
Proof.
  induction ids as [|k ids IH]; cbn [run_per]; intros st dl st' dl' id p th d R I S P B E W;
    [contradiction|].
  destruct (Nat.eq_dec k id) as [->|N].
  - rewrite S in R.
    set (st1 := upd id (with_status St_delayed) st) in *.
    assert (P1 : nd_period (s_node st1 id) = nd_period (s_node st id)).
    { unfold st1. cbn [s_node upd]. rewrite Nat.eqb_refl. reflexivity. }
    destruct (run_period now targets id (nd_period (s_node st1 id)) st1 dl)
      as [[st2 dl2] [er|]] eqn:RP; [discriminate|].
    eapply dl_run_per_keeps; [exact R|].
    eapply dl_run_period_due; [exact RP|rewrite P1; exact P|exact B|exact E|exact W].
  - destruct I as [I|I]; [contradiction|].
    destruct (skipped (nd_status (s_node st k))) eqn:S'; [eapply IH; eauto|].
    set (st1 := upd k (with_status St_delayed) st) in *.
    destruct (run_period now targets k (nd_period (s_node st1 k)) st1 dl)
      as [[st2 dl2] [er|]] eqn:RP; [discriminate|].
    assert (K : s_node st2 id = s_node st id).
    { rewrite (dl_run_period_node_other _ _ _ _ _ _ _ _ _ id RP) by congruence.
      unfold st1. cbn [s_node upd].
      destruct (Nat.eqb id k) eqn:X; [apply Nat.eqb_eq in X; congruence|reflexivity]. }
    eapply IH; [exact R|exact I| | | | |]; try rewrite K; eauto.
Qed.

Lemma dl_add_timer_keeps : forall targets id d st,
  queued targets id st -> queued targets id (add_timer d st).
Proof. intros targets id d st H. exact H. Qed.

Theorem dl_due_queues : forall now targets st st' id p th d,
  s_paused st = false ->
  defer now targets st = (st', None) ->
  In id (s_per st) -> skipped (nd_status (s_node st id)) = false ->
  In p (nd_period (s_node st id)) -> m_boot (snd p) = None ->
  fst (delay [] p now) = Ok th d -> d <= WINDOW_US ->
  queued targets id st'.
Proof.
  intros now targets st st' id p th d Pz D I S P B E W. unfold defer in D. rewrite Pz in D.
  destruct (run_per now targets (s_per st) st []) as [[st2 dl2] [er|]] eqn:R; [discriminate|].
  assert (Q : queued targets id st2) by (eapply dl_run_per_due; eauto).
  inversion D; subst. destruct dl2; [exact Q|apply dl_add_timer_keeps; exact Q].
Qed.

(* ---- a due node is in the queue once ---- *)
Lemma dl_enqueue_nodup : forall targets id st,
  NoDup (s_que st) -> NoDup (s_que (enqueue targets id st)).
Proof.
  intros targets id st H. unfold enqueue. cbn [s_que upd set_que].
  eapply Permutation_NoDup; [apply Permutation_sym; apply dl_sort_perm|].
  destruct (existsb (Nat.eqb id) (s_que st)) eqn:E; [exact H|].
  eapply Permutation_NoDup; [apply Permutation_cons_append|].
  constructor; [|exact H]. intro I. assert (X : existsb (Nat.eqb id) (s_que st) = true).
    { apply existsb_exists. exists id. split; [exact I|apply Nat.eqb_refl]. }
    rewrite X in E. discriminate.
Qed.

Lemma dl_run_period_nodup : forall now targets id ps st dl st' dl' e,
  run_period now targets id ps st dl = (st', dl', e) ->
  NoDup (s_que st) -> NoDup (s_que st').
Proof.
  induction ps as [|p ps IH]; cbn [run_period]; intros st dl st' dl' e R H.
  - inversion R; subst. exact H.
  - destruct (delay (s_booted st) p now) as [[th d| |er] b'].
    + destruct (d <=? WINDOW_US).
      * eapply IH; [exact R|]. apply dl_enqueue_nodup. exact H.
      * eapply IH; [exact R|exact H].
    + eapply IH; [exact R|exact H].
    + inversion R; subst. exact H.
Qed.

Lemma dl_run_per_nodup : forall now targets ids st dl st' dl' e,
  run_per now targets ids st dl = (st', dl', e) ->
  NoDup (s_que st) -> NoDup (s_que st').
Proof.
  induction ids as [|k ids IH]; cbn [run_per]; intros st dl st' dl' e R H.
  - inversion R; subst. exact H.
  - destruct (skipped (nd_status (s_node st k))); [eapply IH; eauto|].
    destruct (run_period now targets k _ (upd k (with_status St_delayed) st) dl)
      as [[st2 dl2] [er|]] eqn:P.
    + inversion R; subst. eapply dl_run_period_nodup; [exact P|exact H].
    + eapply IH; [exact R|]. eapply dl_run_period_nodup; [exact P|exact H].
Qed.

Theorem dl_due_once : forall now targets st st' e,
  defer now targets st = (st', e) -> NoDup (s_que st) -> NoDup (s_que st').
Proof.
  intros now targets st st' e D H. unfold defer in D.
  destruct (s_paused st); [inversion D; subst; exact H|].
  destruct (run_per now targets (s_per st) st []) as [[st2 dl2] [er|]] eqn:R;
    inversion D; subst.
  - eapply dl_run_per_nodup; eauto.
  - assert (Q : NoDup (s_que st2)) by (eapply dl_run_per_nodup; eauto).
    destruct dl2; exact Q.
Qed.

(* ---- recurrence: once every periodic node is waiting (or running) defer()
   does nothing at all, at any later instant ---- *)
Lemma dl_run_per_noop : forall now targets ids st dl,
  Forall (fun id => skipped (nd_status (s_node st id)) = true) ids ->
  run_per now targets ids st dl = (st, dl, None).
Proof.
  induction ids as [|k ids IH]; cbn [run_per]; intros st dl F; [reflexivity|].
  inversion F; subst. rewrite H1. apply IH. exact H2.
Qed.

Theorem dl_defer_noop : forall now targets st,
  s_paused st = false ->
  Forall (fun id => skipped (nd_status (s_node st id)) = true) (s_per st) ->
  defer now targets st = (st, None).
Proof.
  intros now targets st P F. unfold defer. rewrite P.
  rewrite (dl_run_per_noop now targets (s_per st) st [] F). reflexivity.
Qed.

(* the same with a computable hypothesis *)
Theorem dl_defer_noop_b : forall now targets st,
  s_paused st = false ->
  forallb (fun id => skipped (nd_status (s_node st id))) (s_per st) = true ->
  defer now targets st = (st, None).
Proof.
  intros now targets st P F. apply dl_defer_noop; [exact P|].
  apply Forall_forall. intros x I. rewrite forallb_forall in F. apply F. exact I.
Qed.

(* ---------------- boot events are queued too ---------------- *)
Lemma dl_opt_eqb_eq : forall (A : Type) (eqb : A -> A -> bool),
  (forall x y, eqb x y = true -> x = y) ->
  forall a b, opt_eqb eqb a b = true -> a = b.
Proof.
  intros A eqb H [x|] [y|] E; cbn in E; try discriminate; [|reflexivity].
  rewrite (H x y E). reflexivity.
Qed.

Lemma dl_z3_eqb_eq : forall x y, z3_eqb x y = true -> x = y.
Proof.
  intros [[a b] c] [[d e] f] H. unfold z3_eqb in H.
  apply andb_true_iff in H. destruct H as [H H3].
  apply andb_true_iff in H. destruct H as [H1 H2].
  apply Z.eqb_eq in H1, H2, H3. subst. reflexivity.
Qed.

Lemma dl_event_eqb_eq : forall a b, event_eqb a b = true -> a = b.
Proof.
  intros [i1 [a1 a2 a3 a4 a5]] [i2 [b1 b2 b3 b4 b5]] H.
  unfold event_eqb, moment_eqb in H. cbn [fst snd m_boot m_day m_dom m_dow m_time] in H.
  apply andb_true_iff in H. destruct H as [Hi H].
  apply andb_true_iff in H. destruct H as [H H5].
  apply andb_true_iff in H. destruct H as [H H4].
  apply andb_true_iff in H. destruct H as [H H3].
  apply andb_true_iff in H. destruct H as [H1 H2].
  apply Nat.eqb_eq in Hi.
  apply (dl_opt_eqb_eq _ Bool.eqb eqb_prop) in H1.
  apply (dl_opt_eqb_eq _ z3_eqb dl_z3_eqb_eq) in H2.
  apply (dl_opt_eqb_eq _ Z.eqb (fun x y => proj1 (Z.eqb_eq x y))) in H3.
  apply (dl_opt_eqb_eq _ Z.eqb (fun x y => proj1 (Z.eqb_eq x y))) in H4.
  apply (dl_opt_eqb_eq _ z3_eqb dl_z3_eqb_eq) in H5.
  subst. reflexivity.
Qed.

Lemma dl_is_booted_in : forall e b, is_booted e b = true <-> In e b.
Proof.
  intros e b. unfold is_booted. rewrite existsb_exists. split.
  - intros [x [I Q]]. apply dl_event_eqb_eq in Q. subst. exact I.
  - intro I. exists e. split; [exact I|apply dl_event_eqb_refl].
Qed.

(* delay only ever adds the evaluated event to booted *)
Lemma dl_booted_adds : forall booted e now x,
  In x (snd (delay booted e now)) -> In x booted \/ x = e.
Proof.
  intros booted e now x. unfold delay. destruct (m_boot (snd e)).
  - destruct (existsb (event_eqb e) booted); cbn [snd]; intro I; [left; exact I|].
    apply in_app_or in I. destruct I as [I|[I|[]]]; [left; exact I|right; congruence].
  - destruct (delay_then (snd e) now); cbn [snd]; intro I; left; exact I.
Qed.

Lemma dl_enqueue_booted : forall targets id st, s_booted (enqueue targets id st) = s_booted st.
Proof. reflexivity. Qed.

Lemma dl_run_period_booted : forall now targets id ps st dl st' dl' e x,
  run_period now targets id ps st dl = (st', dl', e) ->
  In x (s_booted st') -> In x (s_booted st) \/ In x ps.
Proof.
  induction ps as [|p ps IH]; cbn [run_period]; intros st dl st' dl' e x R I.
  - inversion R; subst. left. exact I.
  - destruct (delay (s_booted st) p now) as [r b'] eqn:D.
    assert (B : forall y, In y b' -> In y (s_booted st) \/ y = p).
    { intros y Iy. apply (dl_booted_adds (s_booted st) p now y). rewrite D. exact Iy. }
    destruct r as [th d| |er].
    + destruct (d <=? WINDOW_US); apply (IH _ _ _ _ _ x R) in I;
        (destruct I as [I|I]; [|right; right; exact I]);
        cbn [s_booted enqueue set_booted upd set_que] in I;
        (destruct (B x I) as [K|K]; [left; exact K|right; left; congruence]).
    + (* NotKnowable: booted unchanged in the continuation *)
      apply (IH _ _ _ _ _ x R) in I. destruct I as [I|I]; [left; exact I|right; right; exact I].
    + inversion R; subst. left. exact I.
Qed.

Lemma dl_run_period_boot_due : forall now targets id ps st dl st' dl' p,
  run_period now targets id ps st dl = (st', dl', None) ->
  In p ps -> m_boot (snd p) <> None -> ~ In p (s_booted st) ->
  queued targets id st'.
Proof.
  induction ps as [|q ps IH]; cbn [run_period]; intros st dl st' dl' p R I B NB; [contradiction|].
  destruct (event_eqb p q) eqn:PQ.
  - apply dl_event_eqb_eq in PQ. subst q.
    assert (X : is_booted p (s_booted st) = false).
    { destruct (is_booted p (s_booted st)) eqn:E; [|reflexivity].
      apply dl_is_booted_in in E. contradiction. }
    destruct (dl_boot p now (s_booted st) B) as [A _]. rewrite (A X) in R.
    assert (W : (0 <=? WINDOW_US) = true) by reflexivity. rewrite W in R.
    eapply dl_run_period_keeps; [exact R|]. apply dl_enqueue_queued.
  - destruct I as [I|I]; [subst; rewrite dl_event_eqb_refl in PQ; discriminate|].
    destruct (delay (s_booted st) q now) as [r b'] eqn:D.
    assert (NB' : ~ In p b').
    { intro K. destruct (dl_booted_adds (s_booted st) q now p) as [K1|K1];
        [rewrite D; exact K|contradiction|].
      subst. rewrite dl_event_eqb_refl in PQ. discriminate. }
    destruct r as [th d| |er].
    + destruct (d <=? WINDOW_US); eapply IH; eauto.
    + (* NotKnowable leaves booted as it was *)
      eapply IH; eauto.
    + discriminate.
Qed.

Lemma dl_enqueue_period : forall targets id st k,
  nd_period (s_node (enqueue targets id st) k) = nd_period (s_node st k).
Proof.
  intros. unfold enqueue. cbn [s_node upd set_que]. destruct (Nat.eqb k id); reflexivity.
Qed.

Lemma dl_run_period_period : forall now targets id ps st dl st' dl' e k,
  run_period now targets id ps st dl = (st', dl', e) ->
  nd_period (s_node st' k) = nd_period (s_node st k).
Proof.
  induction ps as [|p ps IH]; cbn [run_period]; intros st dl st' dl' e k R.
  - inversion R; subst. reflexivity.
  - destruct (delay (s_booted st) p now) as [[th d| |er] b'].
    + destruct (d <=? WINDOW_US); rewrite (IH _ _ _ _ _ k R);
        [rewrite dl_enqueue_period|]; reflexivity.
    + apply (IH _ _ _ _ _ k R).
    + inversion R; subst. reflexivity.
Qed.

Lemma dl_run_per_boot_due : forall now targets ids st dl st' dl' id p,
  run_per now targets ids st dl = (st', dl', None) ->
  In id ids -> skipped (nd_status (s_node st id)) = false ->
  In p (nd_period (s_node st id)) -> m_boot (snd p) <> None ->
  ~ In p (s_booted st) ->
  (forall k, k <> id -> ~ In p (nd_period (s_node st k))) ->
  queued targets id st'.
Proof.
  induction ids as [|k ids IH]; cbn [run_per]; intros st dl st' dl' id p R I S P B NB O;
    [contradiction|].
  destruct (Nat.eq_dec k id) as [->|N].
  - rewrite S in R.
    set (st1 := upd id (with_status St_delayed) st) in *.
    assert (P1 : nd_period (s_node st1 id) = nd_period (s_node st id)).
    { unfold st1. cbn [s_node upd]. rewrite Nat.eqb_refl. reflexivity. }
    destruct (run_period now targets id (nd_period (s_node st1 id)) st1 dl)
      as [[st2 dl2] [er|]] eqn:RP; [discriminate|].
    eapply dl_run_per_keeps; [exact R|].
    eapply dl_run_period_boot_due; [exact RP|rewrite P1; exact P|exact B|exact NB].
  - destruct I as [I|I]; [contradiction|].
    destruct (skipped (nd_status (s_node st k))) eqn:S'; [eapply IH; eauto|].
    set (st1 := upd k (with_status St_delayed) st) in *.
    assert (PK : forall j, nd_period (s_node st1 j) = nd_period (s_node st j)).
    { intro j. unfold st1. cbn [s_node upd]. destruct (Nat.eqb j k); reflexivity. }
    destruct (run_period now targets k (nd_period (s_node st1 k)) st1 dl)
      as [[st2 dl2] [er|]] eqn:RP; [discriminate|].
    assert (K : s_node st2 id = s_node st id).
    { rewrite (dl_run_period_node_other _ _ _ _ _ _ _ _ _ id RP) by congruence.
      unfold st1. cbn [s_node upd].
      destruct (Nat.eqb id k) eqn:X; [apply Nat.eqb_eq in X; congruence|reflexivity]. }
    assert (P2 : forall j, nd_period (s_node st2 j) = nd_period (s_node st j)).
    { intro j. rewrite (dl_run_period_period _ _ _ _ _ _ _ _ _ j RP). apply PK. }
    eapply IH; [exact R|exact I| | |exact B| |].
    + rewrite K. exact S.
    + rewrite K. exact P.
    + intro X. destruct (dl_run_period_booted _ _ _ _ _ _ _ _ _ p RP X) as [Y|Y].
      * apply NB. exact Y.
      * rewrite PK in Y. apply (O k N). exact Y.
    + intros j Nj. rewrite P2. apply O. exact Nj.
Qed.

(* a boot event that has not fired yet queues its node (the event belongs to
   that node only) *)
Theorem dl_due_queues_boot : forall now targets st st' id p,
  s_paused st = false ->
  defer now targets st = (st', None) ->
  In id (s_per st) -> skipped (nd_status (s_node st id)) = false ->
  In p (nd_period (s_node st id)) -> m_boot (snd p) <> None ->
  ~ In p (s_booted st) ->
  (forall k, k <> id -> ~ In p (nd_period (s_node st k))) ->
  queued targets id st'.
Proof.
  intros now targets st st' id p Pz D I S P B NB O. unfold defer in D. rewrite Pz in D.
  destruct (run_per now targets (s_per st) st []) as [[st2 dl2] [er|]] eqn:R; [discriminate|].
  assert (Q : queued targets id st2) by (eapply dl_run_per_boot_due; eauto).
  inversion D; subst. destruct dl2; [exact Q|apply dl_add_timer_keeps; exact Q].
Qed.
