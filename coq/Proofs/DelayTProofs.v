From Coq Require Import List ZArith.
From DV Require Import Model.Delay Model.DelayT.
Import ListNotations.

(* with one target list throughout, run_steps_t is run_steps: every theorem
   about do_step / defer (quantified over the target list of the moment) speaks
   about both *)
Lemma run_steps_t_const : forall tg ids ss st,
  run_steps_t ids st (map (fun s => (tg, s)) ss) = run_steps tg ids st ss.
Proof.
  intros tg ids ss. induction ss as [|s ss IH]; intros st; cbn [map run_steps_t run_steps]; [reflexivity|].
  destruct (do_step tg st s) as [st' e]. rewrite IH. reflexivity.
Qed.
