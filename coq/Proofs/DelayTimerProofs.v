(* Proofs/DelayTimerProofs.v -- the re-arm half of defer(): when an examined
   event is not yet due, one timer is armed, for the (rounded) smallest
   pending delay. *)
From Coq Require Import ZArith List Bool Lia.
From DV Require Import Model.Delay Proofs.DelayProofs.
Import ListNotations.
Local Open Scope Z_scope.

Lemma dt_min_list_le : forall r d x, In x (d :: r) -> min_list d r <= x.
Proof.
  induction r as [|y r IH]; intros d x I.
  - destruct I as [<-|[]]. cbn. lia.
  - cbn [min_list]. destruct I as [<-|[<-|I]].
    + specialize (IH (Z.min d y) (Z.min d y) (or_introl eq_refl)). lia.
    + specialize (IH (Z.min d y) (Z.min d y) (or_introl eq_refl)). lia.
    + apply IH. right. exact I.
Qed.

Lemma dt_min_list_in : forall r d, In (min_list d r) (d :: r).
Proof.
  induction r as [|y r IH]; intro d; cbn [min_list]; [left; reflexivity|].
  destruct (IH (Z.min d y)) as [E|I].
  - rewrite <- E. destruct (Z.min_spec d y) as [[_ M]|[_ M]]; rewrite M.
    + left. reflexivity.
    + right. left. reflexivity.
  - right. right. exact I.
Qed.

Definition all_late (dl : list Z) : Prop := Forall (fun x => WINDOW_US < x) dl.

Lemma dt_run_period_timers : forall now targets id ps st dl st' dl' e,
  run_period now targets id ps st dl = (st', dl', e) -> s_timers st' = s_timers st.
Proof.
  induction ps as [|p ps IH]; cbn [run_period]; intros st dl st' dl' e R.
  - inversion R; subst. reflexivity.
  - destruct (delay (s_booted st) p now) as [[th d| |er] b'].
    + destruct (d <=? WINDOW_US); rewrite (IH _ _ _ _ _ R); reflexivity.
    + apply (IH _ _ _ _ _ R).
    + inversion R; subst. reflexivity.
Qed.

Lemma dt_run_per_timers : forall now targets ids st dl st' dl' e,
  run_per now targets ids st dl = (st', dl', e) -> s_timers st' = s_timers st.
Proof.
  induction ids as [|k ids IH]; cbn [run_per]; intros st dl st' dl' e R.
  - inversion R; subst. reflexivity.
  - destruct (skipped (nd_status (s_node st k))); [apply (IH _ _ _ _ _ R)|].
    destruct (run_period now targets k _ (upd k (with_status St_delayed) st) dl)
      as [[st2 dl2] [er|]] eqn:P.
    + inversion R; subst. rewrite (dt_run_period_timers _ _ _ _ _ _ _ _ _ P). reflexivity.
    + rewrite (IH _ _ _ _ _ R). rewrite (dt_run_period_timers _ _ _ _ _ _ _ _ _ P). reflexivity.
Qed.

(* the delay list only grows, by delays outside the window *)
Lemma dt_run_period_delays : forall now targets id ps st dl st' dl' e,
  run_period now targets id ps st dl = (st', dl', e) ->
  (forall x, In x dl -> In x dl') /\ (all_late dl -> all_late dl').
Proof.
  induction ps as [|p ps IH]; cbn [run_period]; intros st dl st' dl' e R.
  - inversion R; subst. split; auto.
  - destruct (delay (s_booted st) p now) as [[th d| |er] b'].
    + destruct (d <=? WINDOW_US) eqn:W.
      * apply (IH _ _ _ _ _ R).
      * destruct (IH _ _ _ _ _ R) as [A B]. split.
        -- intros x I. apply A. apply in_or_app. left. exact I.
        -- intro L. apply B. unfold all_late in *. apply Forall_app. split; [exact L|].
           constructor; [|constructor]. apply Z.leb_gt in W. exact W.
    + apply (IH _ _ _ _ _ R).
    + inversion R; subst. split; auto.
Qed.

Lemma dt_run_period_pending : forall now targets id ps st dl st' dl' p th d,
  run_period now targets id ps st dl = (st', dl', None) ->
  In p ps -> m_boot (snd p) = None -> fst (delay [] p now) = Ok th d -> WINDOW_US < d ->
  In d dl'.
Proof.
  induction ps as [|q ps IH]; cbn [run_period]; intros st dl st' dl' p th d R I B E W;
    [contradiction|].
  destruct I as [->|I].
  - rewrite (dl_delay_nonboot _ _ _ B), E in R.
    assert (X : (d <=? WINDOW_US) = false) by (apply Z.leb_gt; exact W).
    rewrite X in R. destruct (dt_run_period_delays _ _ _ _ _ _ _ _ _ R) as [A _].
    apply A. apply in_or_app. right. left. reflexivity.
  - destruct (delay (s_booted st) q now) as [[th' d'| |er] b'].
    + destruct (d' <=? WINDOW_US); eapply IH; eauto.
    + eapply IH; eauto.
    + discriminate.
Qed.

Lemma dt_run_per_delays : forall now targets ids st dl st' dl' e,
  run_per now targets ids st dl = (st', dl', e) ->
  (forall x, In x dl -> In x dl') /\ (all_late dl -> all_late dl').
Proof.
  induction ids as [|k ids IH]; cbn [run_per]; intros st dl st' dl' e R.
  - inversion R; subst. split; auto.
  - destruct (skipped (nd_status (s_node st k))); [apply (IH _ _ _ _ _ R)|].
    destruct (run_period now targets k _ (upd k (with_status St_delayed) st) dl)
      as [[st2 dl2] [er|]] eqn:P.
    + inversion R; subst. apply (dt_run_period_delays _ _ _ _ _ _ _ _ _ P).
    + destruct (dt_run_period_delays _ _ _ _ _ _ _ _ _ P) as [A1 B1].
      destruct (IH _ _ _ _ _ R) as [A2 B2]. split; auto.
Qed.

Lemma dt_run_per_pending : forall now targets ids st dl st' dl' id p th d,
  run_per now targets ids st dl = (st', dl', None) ->
  In id ids -> skipped (nd_status (s_node st id)) = false ->
  In p (nd_period (s_node st id)) -> m_boot (snd p) = None ->
  fst (delay [] p now) = Ok th d -> WINDOW_US < d ->
  In d dl'.
Proof.
  induction ids as [|k ids IH]; cbn [run_per]; intros st dl st' dl' id p th d R I S P B E W;
    [contradiction|].
  destruct (Nat.eq_dec k id) as [->|N].
  - rewrite S in R.
    set (st1 := upd id (with_status St_delayed) st) in *.
    assert (P1 : nd_period (s_node st1 id) = nd_period (s_node st id)).
    { unfold st1. cbn [s_node upd]. rewrite Nat.eqb_refl. reflexivity. }
    destruct (run_period now targets id (nd_period (s_node st1 id)) st1 dl)
      as [[st2 dl2] [er|]] eqn:RP; [discriminate|].
    destruct (dt_run_per_delays _ _ _ _ _ _ _ _ R) as [A _]. apply A.
    eapply dt_run_period_pending; [exact RP|rewrite P1; exact P|exact B|exact E|exact W].
  - destruct I as [I|I]; [contradiction|].
    destruct (skipped (nd_status (s_node st k))) eqn:S'; [eapply IH; eauto|].
    set (st1 := upd k (with_status St_delayed) st) in *.
    destruct (run_period now targets k (nd_period (s_node st1 k)) st1 dl)
      as [[st2 dl2] [er|]] eqn:RP; [discriminate|].
    assert (K : s_node st2 id = s_node st id).
    { rewrite (dl_run_period_node_other _ _ _ _ _ _ _ _ _ id RP) by congruence.
      unfold st1. cbn [s_node upd].
      destruct (Nat.eqb id k) eqn:X; [apply Nat.eqb_eq in X; congruence|reflexivity]. }
    eapply IH; [exact R|exact I| | | | |]; try rewrite K; eauto.
Qed.

(* an examined event that is not yet due makes defer() arm exactly one timer,
   for the rounded smallest pending delay m: outside the window and not later
   than that event *)
Theorem dt_rearm : forall now targets st st' id p th d,
  s_paused st = false ->
  defer now targets st = (st', None) ->
  In id (s_per st) -> skipped (nd_status (s_node st id)) = false ->
  In p (nd_period (s_node st id)) -> m_boot (snd p) = None ->
  fst (delay [] p now) = Ok th d -> WINDOW_US < d ->
  exists m, s_timers st' = s_timers st ++ [round_seconds m] /\ WINDOW_US < m <= d.
Proof.
  intros now targets st st' id p th d Pz D I S P B E W. unfold defer in D. rewrite Pz in D.
  destruct (run_per now targets (s_per st) st []) as [[st2 dl2] [er|]] eqn:R; [discriminate|].
  pose proof (dt_run_per_pending _ _ _ _ _ _ _ _ _ _ _ R I S P B E W) as In2.
  destruct (dt_run_per_delays _ _ _ _ _ _ _ _ R) as [_ L]. specialize (L (Forall_nil _)).
  pose proof (dt_run_per_timers _ _ _ _ _ _ _ _ R) as T.
  destruct dl2 as [|d0 r]; [contradiction|]. inversion D; subst. clear D.
  exists (min_list d0 r). split.
  - unfold add_timer. cbn [s_timers]. rewrite T. reflexivity.
  - split.
    + unfold all_late in L. rewrite Forall_forall in L. apply L. apply dt_min_list_in.
    + apply dt_min_list_le. exact In2.
Qed.

(* a paused pipeline looks again in 10 s and touches nothing else *)
Theorem dt_paused : forall now targets st,
  s_paused st = true -> defer now targets st = (add_timer 10 st, None).
Proof. intros now targets st P. unfold defer. rewrite P. reflexivity. Qed.

(* rounding is within half a second *)
Lemma dt_round_close : forall us, -US <= 2 * (round_seconds us * US - us) <= US.
Proof.
  intro us. unfold round_seconds. cbv zeta.
  pose proof (Z.div_mod us US ltac:(unfold US; lia)) as E.
  pose proof (Z.mod_pos_bound us US ltac:(unfold US; lia)) as B.
  destruct (2 * (us mod US) <? US) eqn:A; [apply Z.ltb_lt in A|apply Z.ltb_ge in A].
  - unfold US in *. lia.
  - destruct (US <? 2 * (us mod US)) eqn:C; [apply Z.ltb_lt in C|apply Z.ltb_ge in C].
    + unfold US in *. lia.
    + destruct (Z.even (us / US)); unfold US in *; lia.
Qed.
