(* util.dissect inverts util.construct on catalogue names
   (Model/Catalogue.v): for a plain name n (no ':'), a parent id p and a
   version v,   dissect (construct n (Some p) (Some v)) = Some (Some p, n, Some v).
   Consequence for shelve.versions(): the row registered for an identity is
   listed with exactly its names and versions. *)
From Coq Require Import List Arith ZArith Bool Lia DecimalNat DecimalZ DecimalPos.
From DV Require Import Model.Catalogue Proofs.CatalogueProofs.
Import ListNotations.

(* ---- find_sep: specification ---- *)
Lemma find_sep_spec sep : forall s acc a r,
  find_sep sep s acc = Some (a, r) -> exists x, a = rev acc ++ x /\ s = x ++ sep ++ r.
Proof.
  induction s as [|c s IH]; intros acc a r H; cbn [find_sep] in H; [discriminate|].
  destruct (prefixb sep (c :: s)) eqn:P.
  - inversion H; subst. apply CP_prefixb_iff in P. destruct P as [t Ht].
    exists []. rewrite app_nil_r. split; [reflexivity|]. cbn [app]. rewrite Ht.
    rewrite skipn_app, skipn_all, Nat.sub_diag. reflexivity.
  - apply IH in H. destruct H as (x & Ea & Es). exists (c :: x). split.
    + rewrite Ea. cbn [rev]. rewrite <- app_assoc. reflexivity.
    + cbn [app]. rewrite Es. reflexivity.
Qed.

Lemma find_sep_none sep : forall s acc,
  (forall x r, s <> x ++ sep ++ r) -> find_sep sep s acc = None.
Proof.
  intros s acc H. destruct (find_sep sep s acc) as [[a r]|] eqn:E; [|reflexivity].
  apply find_sep_spec in E. destruct E as (x & _ & Es). exfalso. apply (H x r). exact Es.
Qed.

(* the first occurrence: nothing matches inside the part before it *)
Lemma find_sep_first sep : forall x r acc,
  sep <> [] ->
  (forall i, i < length x -> prefixb sep (skipn i (x ++ sep ++ r)) = false) ->
  find_sep sep (x ++ sep ++ r) acc = Some (rev acc ++ x, r).
Proof.
  induction x as [|c x IH]; intros r acc Hne H.
  - cbn [app]. destruct sep as [|s0 sep']; [congruence|]. cbn [app find_sep].
    assert (P : prefixb (s0 :: sep') (s0 :: sep' ++ r) = true)
      by (apply CP_prefixb_iff; exists r; reflexivity).
    rewrite P. rewrite app_nil_r. f_equal. f_equal.
    change (s0 :: sep' ++ r) with ((s0 :: sep') ++ r).
    rewrite skipn_app, skipn_all, Nat.sub_diag. reflexivity.
  - cbn [app find_sep]. specialize (H 0 ltac:(cbn; lia)) as H0. cbn [skipn app] in H0. rewrite H0.
    rewrite IH; [|exact Hne|].
    + cbn [rev]. rewrite <- app_assoc. reflexivity.
    + intros i Hi. specialize (H (S i) ltac:(cbn; lia)). cbn [skipn app] in H. exact H.
Qed.

Lemma skipn_In_ {A} k (l : list A) x : In x (skipn k l) -> In x l.
Proof. revert l; induction k as [|k IH]; intros [|a l]; cbn; auto. Qed.

(* ---- counting the colon ---- *)
Lemma count_notin (x : nat) l : ~ In x l -> count_occ Nat.eq_dec l x = 0.
Proof. apply count_occ_not_In. Qed.

Definition colons (l : name) : nat := count_occ Nat.eq_dec l 58.

Lemma colons_app a b : colons (a ++ b) = colons a + colons b.
Proof. apply count_occ_app. Qed.

Lemma colons_plain a : ~ In 58 a -> colons a = 0.
Proof. apply count_notin. Qed.

Lemma colons_sepv : colons SEP_V = 1. Proof. reflexivity. Qed.
Lemma colons_sepp : colons SEP_P = 1. Proof. reflexivity. Qed.

(* ---- the version suffix ---- *)
Lemma prefix_sepv_colon t : prefixb SEP_V t = true -> exists r, t = SEP_V' ++ 58 :: r.
Proof.
  intros P. apply CP_prefixb_iff in P. destruct P as [r E]. exists r. rewrite E, CP_sepv.
  rewrite <- app_assoc. reflexivity.
Qed.

Lemma dissect_version_part n v : plain n ->
  find_sep SEP_V (n ++ SEP_V ++ ver_str v) [] = Some (n, ver_str v) /\
  contains SEP_V (ver_str v) = false /\
  contains SEP_P (n ++ SEP_V ++ ver_str v) = false.
Proof.
  intros Pn. pose proof (CP_ver_no_colon v) as Pv. split; [|split].
  - rewrite (find_sep_first SEP_V n (ver_str v) []); [reflexivity|discriminate|].
    intros i Hi. destruct (prefixb SEP_V (skipn i (n ++ SEP_V ++ ver_str v))) eqn:P; [|reflexivity].
    exfalso. apply prefix_sepv_colon in P. destruct P as [r E].
    rewrite skipn_app in E. replace (i - length n) with 0 in E by lia. cbn [skipn] in E.
    rewrite CP_sepv in E. rewrite <- !app_assoc in E. cbn [app] in E.
    (* skipn i n ++ SEP_V' ++ 58 :: ver  =  SEP_V' ++ 58 :: r *)
    assert (N1 : ~ In 58 (skipn i n ++ SEP_V')).
    { intros Hin. apply in_app_or in Hin. destruct Hin as [Hin|Hin].
      - apply Pn. eapply skipn_In_. exact Hin.
      - apply CP_sepv'_plain. exact Hin. }
    rewrite app_assoc in E.
    destruct (CP_split_first 58 (skipn i n ++ SEP_V') SEP_V' (ver_str v) r N1 CP_sepv'_plain E) as [E1 _].
    apply (f_equal (@length nat)) in E1. rewrite app_length, skipn_length in E1. lia.
  - unfold contains. rewrite find_sep_none; [reflexivity|]. intros x r E. apply Pv. rewrite E.
    apply in_or_app. right. apply in_or_app. left. rewrite CP_sepv. apply in_or_app. right. left. reflexivity.
  - unfold contains. rewrite find_sep_none; [reflexivity|]. intros x r E.
    (* count the colons: the left side has exactly one, the right at least one in
       SEP_P and then the 'p' after it must be the head of the version *)
    assert (C1 : colons (n ++ SEP_V ++ ver_str v) = 1).
    { rewrite !colons_app, colons_sepv, (colons_plain n Pn), (colons_plain _ Pv). reflexivity. }
    rewrite E in C1. rewrite !colons_app, colons_sepp in C1.
    assert (Cx : colons x = 0) by lia. assert (Cr : colons r = 0) by lia.
    assert (Nx : ~ In 58 x) by (intros Hin; apply (count_occ_In Nat.eq_dec) in Hin; unfold colons in Cx; lia).
    (* n ++ SEP_V' ++ 58 :: ver = x ++ 58 :: SEP_P' ++ r *)
    rewrite CP_sepv, CP_sepp in E. rewrite <- !app_assoc in E. cbn [app] in E.
    rewrite app_assoc in E.
    assert (N1 : ~ In 58 (n ++ SEP_V')).
    { intros Hin. apply in_app_or in Hin. destruct Hin as [Hin|Hin]; [apply Pn; exact Hin|apply CP_sepv'_plain; exact Hin]. }
    destruct (CP_split_first 58 (n ++ SEP_V') x (ver_str v) (SEP_P' ++ r) N1 Nx E) as [_ E2].
    (* the version string starts with 'p' = 112: not a version character *)
    pose proof (CP_ver_str_chars v) as Hc. rewrite E2 in Hc. cbn [SEP_P' app] in Hc.
    inversion Hc as [|? ? H1 _]. destruct H1 as [H1|[H1|H1]]; try discriminate. unfold isdigit in H1. lia.
Qed.

(* ---- decimal strings parse back ---- *)
Lemma codes_uint_codes d : codes_uint (uint_codes d) = Some d.
Proof. induction d; cbn [uint_codes codes_uint digit_of Nat.eqb]; rewrite ?IHd; reflexivity. Qed.

Lemma uint_codes_nil d : uint_codes d = [] -> d = Decimal.Nil.
Proof. destruct d; cbn; try discriminate. reflexivity. Qed.

Lemma dec_nat_nonnil p : dec_nat p <> [].
Proof.
  unfold dec_nat. intros E. apply uint_codes_nil in E.
  pose proof (DecimalNat.Unsigned.of_to p) as H. rewrite E in H. cbn in H. subst p. discriminate E.
Qed.

Lemma int_nat_dec p : int_nat (dec_nat p) = Some p.
Proof.
  unfold int_nat. destruct (dec_nat p) eqn:E; [exfalso; apply (dec_nat_nonnil p E)|].
  rewrite <- E. unfold dec_nat. rewrite codes_uint_codes. cbn [option_map].
  rewrite DecimalNat.Unsigned.of_to. reflexivity.
Qed.

Lemma int_Z_dec z : int_Z (dec_Z z) = Some z.
Proof.
  unfold dec_Z. destruct (Z.to_int z) as [d|d] eqn:E.
  - (* Pos: starts with a digit, not '-' *)
    assert (Hd : d <> Decimal.Nil).
    { destruct z; cbn in E; inversion E; subst;
        [discriminate|apply DecimalPos.Unsigned.to_uint_nonnil]. }
    unfold int_Z. destruct (uint_codes d) as [|c s] eqn:Ec; [apply uint_codes_nil in Ec; congruence|].
    assert (Hc : c <> 45).
    { pose proof (CP_uint_digits d) as F. rewrite Ec in F. inversion F as [|? ? H1 _]. unfold isdigit in H1. lia. }
    apply Nat.eqb_neq in Hc. rewrite Hc. rewrite <- Ec, codes_uint_codes. cbn [option_map].
    rewrite <- E, DecimalZ.of_to. reflexivity.
  - unfold int_Z. cbn [Nat.eqb]. assert (Hd : d <> Decimal.Nil).
    { destruct z; cbn in E; inversion E; subst. apply DecimalPos.Unsigned.to_uint_nonnil. }
    destruct (uint_codes d) as [|c s] eqn:Ec; [apply uint_codes_nil in Ec; congruence|].
    rewrite <- Ec, codes_uint_codes. cbn [option_map]. rewrite <- E, DecimalZ.of_to. reflexivity.
Qed.

Lemma dec_Z_no46 z : ~ In 46 (dec_Z z).
Proof.
  intros Hin. pose proof (CP_dec_Z_num z) as F. rewrite Forall_forall in F.
  destruct (F _ Hin) as [E|E]; [discriminate|]. unfold isdigit in E. lia.
Qed.

Lemma split_chr_plain c : forall s acc, ~ In c s -> split_chr c s acc = [rev acc ++ s].
Proof.
  induction s as [|x s IH]; intros acc N; cbn [split_chr].
  - rewrite app_nil_r. reflexivity.
  - destruct (x =? c) eqn:E; [apply Nat.eqb_eq in E; subst x; exfalso; apply N; left; reflexivity|].
    rewrite IH by (intros H; apply N; right; exact H). cbn [rev]. rewrite <- app_assoc. reflexivity.
Qed.

Lemma split_chr_app c : forall a r acc, ~ In c a ->
  split_chr c (a ++ c :: r) acc = (rev acc ++ a) :: split_chr c r [].
Proof.
  induction a as [|x a IH]; intros r acc N; cbn [app split_chr].
  - rewrite Nat.eqb_refl, app_nil_r. reflexivity.
  - destruct (x =? c) eqn:E; [apply Nat.eqb_eq in E; subst x; exfalso; apply N; left; reflexivity|].
    rewrite IH by (intros H; apply N; right; exact H). cbn [rev]. rewrite <- app_assoc. reflexivity.
Qed.

Lemma parse_ver_str v : parse_ver (ver_str v) = Some v.
Proof.
  destruct v as [[d i] b]. unfold parse_ver, ver_str. cbn [app].
  rewrite (split_chr_app 46 (dec_Z d)) by apply dec_Z_no46.
  rewrite (split_chr_app 46 (dec_Z i)) by apply dec_Z_no46.
  rewrite (split_chr_plain 46 (dec_Z b)) by apply dec_Z_no46.
  cbn [rev app]. rewrite !int_Z_dec. reflexivity.
Qed.

(* ---- the round trip ---- *)
Theorem dissect_construct n p v : plain n ->
  dissect (construct n (Some p) (Some v)) = Some (Some p, n, Some v).
Proof.
  intros Pn. destruct (dissect_version_part n v Pn) as (FV & CV & CP).
  unfold construct. rewrite <- !app_assoc.
  set (rest := n ++ SEP_V ++ ver_str v) in *.
  assert (FP : find_sep SEP_P (dec_nat p ++ SEP_P ++ rest) [] = Some (dec_nat p, rest)).
  { rewrite (find_sep_first SEP_P (dec_nat p) rest []); [reflexivity|discriminate|].
    intros i Hi. destruct (prefixb SEP_P (skipn i (dec_nat p ++ SEP_P ++ rest))) eqn:P; [|reflexivity].
    exfalso. apply CP_prefixb_iff in P. destruct P as [r E].
    rewrite skipn_app in E. destruct (skipn i (dec_nat p)) as [|c s] eqn:Es.
    - apply (f_equal (@length nat)) in Es. rewrite skipn_length in Es. cbn in Es. lia.
    - cbn [app] in E. rewrite CP_sepp in E. cbn [app] in E. inversion E; subst c.
      assert (In 58 (dec_nat p)) by (eapply skipn_In_; rewrite Es; left; reflexivity).
      apply (CP_dec_nat_no_colon p). exact H. }
  unfold dissect. unfold contains at 1. rewrite FP. unfold split2 at 1. rewrite FP, CP.
  rewrite int_nat_dec. unfold contains at 1. rewrite FV.
  unfold split2. rewrite FV, CV. rewrite parse_ver_str. reflexivity.
Qed.

Lemma dissect_plain n : plain n -> dissect n = Some (None, n, None).
Proof.
  intros Pn. unfold dissect.
  assert (CP : contains SEP_P n = false).
  { unfold contains. rewrite find_sep_none; [reflexivity|]. intros x r E. apply Pn. rewrite E.
    apply in_or_app. right. apply in_or_app. left. rewrite CP_sepp. left. reflexivity. }
  assert (CV : contains SEP_V n = false).
  { unfold contains. rewrite find_sep_none; [reflexivity|]. intros x r E. apply Pn. rewrite E.
    apply in_or_app. right. apply in_or_app. left. rewrite CP_sepv. apply in_or_app. right. left. reflexivity. }
  rewrite CP, CV. reflexivity.
Qed.

(* ---- shelve.versions(): a value row whose chain of parent ids resolves is
   listed with exactly the names and versions it was registered with ---- *)
Theorem version_row_chain c vn s vv sn a sv an k av tn :
  plain vn -> plain sn -> plain an -> plain tn ->
  nth_error (i_state c) s = Some (construct sn (Some a) (Some sv)) ->
  nth_error (i_alg c) a = Some (construct an (Some k) (Some av)) ->
  nth_error (i_task c) k = Some tn ->
  version_row c (construct vn (Some s) (Some vv)) = Some (tn, an, sn, vn, av, sv, vv).
Proof.
  intros Pv Ps Pa Pt Hs Ha Hk. unfold version_row.
  rewrite (dissect_construct vn s vv Pv), Hs, (dissect_construct sn a sv Ps), Ha,
          (dissect_construct an k av Pa), Hk, (dissect_plain tn Pt). reflexivity.
Qed.

Corollary versions_lists c vk x vn s vv sn a sv an k av tn :
  In (vk, x) (t_value c) -> vk = construct vn (Some s) (Some vv) ->
  plain vn -> plain sn -> plain an -> plain tn ->
  nth_error (i_state c) s = Some (construct sn (Some a) (Some sv)) ->
  nth_error (i_alg c) a = Some (construct an (Some k) (Some av)) ->
  nth_error (i_task c) k = Some tn ->
  In (Some (tn, an, sn, vn, av, sv, vv)) (versions c).
Proof.
  intros Hin -> Pv Ps Pa Pt Hs Ha Hk. unfold versions. apply in_map_iff.
  exists (construct vn (Some s) (Some vv), x). split; [|exact Hin]. cbn [fst].
  apply (version_row_chain c vn s vv sn a sv an k av tn); assumption.
Qed.
