(* Proofs/FarmGenEq.v -- the eligibility tests and the queue order of
   dawgie/pl/farm.py, regenerated from the python source (Gen/FarmGen.v, by
   tools/translate/farm2coq.py), are what the farm part of Model/Sched.v does:

     Hand._reg                  = Sched.reg
     Hand._process (status)     = Sched.poll
     something_to_do            = the guard of Sched.dispatch (`active`); the
                                  conjunct `waiting_on_crew() and not _agency`
                                  is dead: `_agency` is the list [None], always
                                  true, so waiting on the crew never holds a
                                  dispatch back (proved from the source text)
     _cluster_sort              = Sched.cluster_sort when the insights do not
                                  separate the queued messages (the model's
                                  "empty insights"; no guard on the list)  *)
From Coq Require Import List ZArith Bool Lia.
From DV Require Import Model.Sched.
From DV Require Gen.FarmGen.
Import ListNotations.

(* what an effect list of a Hand means in the model's observable outputs:
   OAbort = abort response + loseConnection, OProceed = proceed + loseConnection *)
Definition reply_of (w : wid) (e : list FarmGen.eff) : option out :=
  match e with
  | [FarmGen.ESendAbort; FarmGen.EClose] => Some (OAbort w)
  | [FarmGen.ESendProceed; FarmGen.EClose] => Some (OProceed w)
  | _ => None
  end.

Definition registers (e : list FarmGen.eff) : bool :=
  match e with [FarmGen.ERegister] => true | _ => false end.

Theorem reg_gen_eq : forall w h rev_ok s,
  Sched.reg w h rev_ok s =
  if registers (FarmGen.hand_reg rev_ok)
  then (set_farm s (jobs s) (cluster s) (busy s) (workers s ++ [(w, h)]) (inflight s), [])
  else (s, match reply_of w (FarmGen.hand_reg rev_ok) with Some o => [o] | None => [] end).
Proof. intros w h [|] s; reflexivity. Qed.

Theorem reg_gen_total : forall w rev_ok,
  registers (FarmGen.hand_reg rev_ok) = rev_ok /\
  (rev_ok = false -> reply_of w (FarmGen.hand_reg rev_ok) = Some (OAbort w)).
Proof. intros w [|]; split; try reflexivity; discriminate. Qed.

Theorem poll_gen_eq : forall w rev_ok s,
  exists o, reply_of w (FarmGen.hand_status rev_ok (active s)) = Some o /\
            Sched.poll w rev_ok s = (s, [o]).
Proof.
  intros w rev_ok s. unfold Sched.poll, FarmGen.hand_status.
  destruct rev_ok, (active s); cbn; eexists; split; reflexivity.
Qed.

Theorem something_to_do_gen_eq : forall crew a, FarmGen.something_to_do crew a = a.
Proof. intros [|] [|]; reflexivity. Qed.

Theorem dispatch_guard_gen_eq : forall c s crew,
  FarmGen.something_to_do crew (active s) = false -> dispatch c s = (s, []).
Proof.
  intros c s crew H. rewrite something_to_do_gen_eq in H. unfold dispatch. rewrite H. reflexivity.
Qed.

Lemma comparator_lt cpu a b : cpu a = cpu b ->
  (FarmGen.comparator cpu a b <? 0)%Z = (m_rid a <? m_rid b)%Z.
Proof.
  intro E. unfold FarmGen.comparator, FarmGen.b2z. rewrite E.
  destruct (Z.ltb_spec (m_rid b) (m_rid a)), (Z.ltb_spec (m_rid a) (m_rid b));
    cbn; rewrite ?Z.ltb_irrefl; try reflexivity; lia.
Qed.

Lemma ins_cmp_eq cpu : (forall a b, cpu a = cpu b) ->
  forall m l, FarmGen.ins_cmp (FarmGen.comparator cpu) m l = ins_msg m l.
Proof.
  intros E m l. induction l as [|y l IH]; cbn [FarmGen.ins_cmp ins_msg]; [reflexivity|].
  rewrite comparator_lt by apply E. rewrite IH. reflexivity.
Qed.

Theorem cluster_sort_gen_eq : forall cpu l, (forall a b, cpu a = cpu b) ->
  FarmGen.cluster_sort cpu l = Sched.cluster_sort l.
Proof.
  intros cpu l E. unfold FarmGen.cluster_sort, Sched.cluster_sort.
  generalize (@nil msg). induction l as [|m l IH]; intro acc; cbn [fold_left]; [reflexivity|].
  rewrite ins_cmp_eq by exact E. apply IH.
Qed.

(* the comparator is a three-way comparison by (run id, cpu insight) *)
Theorem comparator_spec : forall cpu a b,
  FarmGen.comparator cpu a b =
  match (m_rid a ?= m_rid b)%Z with
  | Lt => (-1)%Z | Gt => 1%Z
  | Eq => match (cpu a ?= cpu b)%Z with Lt => (-1)%Z | Gt => 1%Z | Eq => 0%Z end
  end.
Proof.
  intros cpu a b. unfold FarmGen.comparator, FarmGen.b2z.
  destruct (Z.compare_spec (m_rid a) (m_rid b)) as [E|L|G].
  - rewrite E, Z.ltb_irrefl. cbn.
    destruct (Z.compare_spec (cpu a) (cpu b)) as [E2|L2|G2].
    + rewrite E2, Z.ltb_irrefl. reflexivity.
    + assert (X : (cpu b <? cpu a)%Z = false) by (apply Z.ltb_ge; lia).
      apply Z.ltb_lt in L2 as ->. rewrite X. reflexivity.
    + assert (X : (cpu a <? cpu b)%Z = false) by (apply Z.ltb_ge; lia).
      apply Z.ltb_lt in G2 as ->. rewrite X. reflexivity.
  - assert (X : (m_rid b <? m_rid a)%Z = false) by (apply Z.ltb_ge; lia).
      apply Z.ltb_lt in L as ->. rewrite X. reflexivity.
  - assert (X : (m_rid a <? m_rid b)%Z = false) by (apply Z.ltb_ge; lia).
      apply Z.ltb_lt in G as ->. rewrite X. reflexivity.
Qed.

(* ---- _workers_sort: bounded equality -------------------------------------------
   The full statement `forall w, NoDup (map fst w) ->
   FarmGen.workers_sort w = Some (Sched.workers_sort w)` is proved in
   Proofs/FarmSortEq.v (loop invariant + scan lemma).  Kept here as an
   independent cross-check by evaluation inside Coq: every pool of at most 6
   workers on at most 3 hosts (worker ids = positions; the function only
   compares ids for equality), 1093 pools. *)
Fixpoint host_lists (n k : nat) : list (list nat) :=
  match n with
  | 0 => [[]]
  | S n' => flat_map (fun l => map (fun h => h :: l) (seq 0 k)) (host_lists n' k)
  end.
Definition pool (hs : list nat) : list (wid * nat) := combine (seq 0 (length hs)) hs.

Fixpoint leqb (a b : list (nat * nat)) : bool :=
  match a, b with
  | [], [] => true
  | (x, y) :: a', (x', y') :: b' => Nat.eqb x x' && Nat.eqb y y' && leqb a' b'
  | _, _ => false
  end.
Lemma leqb_eq : forall a b, leqb a b = true -> a = b.
Proof.
  induction a as [|[x y] a IH]; intros [|[x' y'] b] H; cbn in H; try discriminate; [reflexivity|].
  apply andb_true_iff in H. destruct H as [H H3]. apply andb_true_iff in H. destruct H as [H1 H2].
  apply Nat.eqb_eq in H1, H2. subst. f_equal. now apply IH.
Qed.

Definition ws_agree (hs : list nat) : bool :=
  match FarmGen.workers_sort (pool hs) with
  | Some r => leqb r (Sched.workers_sort (pool hs))
  | None => false
  end.

Lemma ws_bounded : forallb (fun n => forallb ws_agree (host_lists n 3)) (seq 0 7) = true.
Proof. vm_compute. reflexivity. Qed.

Lemma host_lists_complete k : forall hs, Forall (fun h => h < k) hs -> In hs (host_lists (length hs) k).
Proof.
  induction hs as [|h l IH]; intro F; cbn [length host_lists]; [now left|].
  inversion F; subst. apply in_flat_map. exists l. split; [now apply IH|].
  apply in_map_iff. exists h. split; [reflexivity|apply in_seq; lia].
Qed.

Theorem workers_sort_gen_eq_partial : forall hs,
  length hs <= 6 -> Forall (fun h => h < 3) hs ->
  FarmGen.workers_sort (pool hs) = Some (Sched.workers_sort (pool hs)).
Proof.
  intros hs L F. pose proof ws_bounded as B. rewrite forallb_forall in B.
  specialize (B (length hs)). rewrite forallb_forall in B.
  assert (I : In (length hs) (seq 0 7)) by (apply in_seq; lia).
  specialize (B I hs (host_lists_complete 3 hs F)). unfold ws_agree in B.
  destruct (FarmGen.workers_sort (pool hs)) as [r|]; [|discriminate].
  f_equal. now apply leqb_eq.
Qed.
