(* Proofs/FarmSortEq.v -- farm._workers_sort as regenerated from the python
   source (Gen/FarmGen.v: workers_sort, a dictionary of per-host lists with the
   FIXED sorted key list of the hosts seen at entry, `longest` found by a scan
   over all keys, pop(0) from the aliased list, results appended) is the
   function of the model (Model/Sched.v: workers_sort, which recomputes the
   hosts of the REMAINING workers at every round and filters the flat list),
   for EVERY pool with one registration per connection:

     forall w, NoDup (map fst w) ->
       FarmGen.workers_sort w = Some (Sched.workers_sort w)

   (Some: the python never raises IndexError and the while loop ends).

   Pieces:
     ws_groups_eq      after the grouping loop  wg = [ (k, of_host w k) | k <- keys ]
     ws_pop_G          pop(0) of the list of host k keeps that shape for the
                       pool without the popped worker (needs NoDup of the ids:
                       the model removes by id)
     ws_longest_pick   the scan over ALL keys (emptied lists included) finds the
                       host pick_host finds over the hosts that still have a
                       worker: an empty list never replaces `longest`, and
                       hosts w' = filter (non-empty) keys  because both are
                       strictly increasing lists with the same members
     ws_loop_eq        the while loop, by induction on the number of workers *)
From Coq Require Import List Arith Bool Lia Sorting.Sorted.
From DV Require Import Model.Sched Proofs.SchedLib Proofs.SchedSort.
From DV Require Gen.FarmGen.
Import ListNotations.

Definition G (K : list nat) (w : list (wid * nat)) : list (nat * list (wid * nat)) :=
  map (fun k => (k, of_host w k)) K.

(* ---- strictly increasing lists ------------------------------------------------ *)
Lemma fse_ssorted_nodup l : StronglySorted lt l -> NoDup l.
Proof.
  induction 1 as [|x l S IH F]; constructor; [|exact IH].
  intro I. rewrite Forall_forall in F. specialize (F x I). lia.
Qed.

Lemma fse_ssorted_unique : forall a b, StronglySorted lt a -> StronglySorted lt b ->
  (forall x, In x a <-> In x b) -> a = b.
Proof.
  induction a as [|x a IH]; intros [|y b] Sa Sb E.
  - reflexivity.
  - exfalso. apply (proj2 (E y)). left. reflexivity.
  - exfalso. apply (proj1 (E x)). left. reflexivity.
  - apply StronglySorted_inv in Sa. destruct Sa as [Sa Fa].
    apply StronglySorted_inv in Sb. destruct Sb as [Sb Fb].
    rewrite Forall_forall in Fa, Fb.
    assert (x = y).
    { destruct (proj1 (E x) (or_introl eq_refl)) as [H|H]; [congruence|].
      destruct (proj2 (E y) (or_introl eq_refl)) as [H'|H']; [congruence|].
      specialize (Fa _ H'). specialize (Fb _ H). lia. }
    subst y. f_equal. apply IH; try assumption.
    intro z. split; intro I.
    + destruct (proj1 (E z) (or_intror I)) as [H|H]; [|exact H].
      subst z. specialize (Fa _ I). lia.
    + destruct (proj2 (E z) (or_intror I)) as [H|H]; [|exact H].
      subst z. specialize (Fb _ I). lia.
Qed.

Lemma fse_ssorted_filter (f : nat -> bool) l : StronglySorted lt l -> StronglySorted lt (filter f l).
Proof.
  induction 1 as [|x l S IH F]; cbn [filter]; [constructor|].
  destruct (f x); [|exact IH]. constructor; [exact IH|].
  rewrite Forall_forall in *. intros y I. apply filter_In in I. apply F. tauto.
Qed.

Lemma fse_ins_nat_sorted x l : StronglySorted lt l -> ~ In x l -> StronglySorted lt (ins_nat x l).
Proof.
  induction 1 as [|y l S IH F]; intro N; cbn [ins_nat].
  - constructor; constructor.
  - destruct (x <? y) eqn:L.
    + apply Nat.ltb_lt in L. constructor; [constructor; assumption|].
      constructor; [exact L|]. rewrite Forall_forall in *. intros z I. specialize (F z I). lia.
    + apply Nat.ltb_ge in L. constructor.
      * apply IH. intro I. apply N. right. exact I.
      * rewrite Forall_forall in *. intros z I. apply In_ins_nat in I. destruct I as [I|I].
        -- subst z. assert (x <> y) by (intro; subst; apply N; left; reflexivity). lia.
        -- apply F. exact I.
Qed.

Lemma fse_sort_nat_sorted_aux : forall l acc, NoDup l -> StronglySorted lt acc ->
  (forall x, In x l -> ~ In x acc) ->
  StronglySorted lt (fold_left (fun a x => ins_nat x a) l acc).
Proof.
  induction l as [|x l IH]; intros acc N S D; cbn [fold_left]; [exact S|].
  apply NoDup_cons_iff in N. destruct N as [Nx N]. apply IH.
  - exact N.
  - apply fse_ins_nat_sorted; [exact S|]. apply D. left. reflexivity.
  - intros y I J. apply In_ins_nat in J. destruct J as [J|J].
    + subst y. contradiction.
    + apply (D y); [right; exact I|exact J].
Qed.

Lemma fse_sort_nat_sorted l : NoDup l -> StronglySorted lt (sort_nat l).
Proof.
  intro N. unfold sort_nat. apply fse_sort_nat_sorted_aux; [exact N|constructor|].
  intros x _ [].
Qed.

Lemma fse_nodup_add t l : NoDup l -> NoDup (add t l).
Proof.
  intro N. unfold add. destruct (mem t l) eqn:E; [exact N|].
  apply mem_false_In in E.
  assert (P : NoDup (t :: l)) by (constructor; assumption).
  eapply Permutation.Permutation_NoDup; [|exact P].
  apply Permutation.Permutation_cons_append.
Qed.

Lemma fse_hostset_nodup : forall (l : list (wid * nat)) acc, NoDup acc ->
  NoDup (fold_left (fun acc p => add (snd p) acc) l acc).
Proof.
  induction l as [|p l IH]; intros acc N; cbn [fold_left]; [exact N|].
  apply IH. apply fse_nodup_add. exact N.
Qed.

Lemma fse_hostset_in h : forall (l : list (wid * nat)) acc,
  In h (fold_left (fun acc p => add (snd p) acc) l acc) <->
  In h acc \/ exists p, In p l /\ snd p = h.
Proof.
  induction l as [|q l IH]; intros acc; cbn [fold_left].
  - split; [tauto|]. intros [H|[p [[] _]]]. exact H.
  - rewrite IH, In_add. split.
    + intros [[H|H]|[p [I E]]].
      * right. exists q. split; [left; reflexivity|congruence].
      * left. exact H.
      * right. exists p. split; [right; exact I|exact E].
    + intros [H|[p [[I|I] E]]].
      * left. right. exact H.
      * subst q. left. left. congruence.
      * right. exists p. split; assumption.
Qed.

Lemma fse_hosts_sorted w : StronglySorted lt (hosts w).
Proof. unfold hosts. apply fse_sort_nat_sorted. apply fse_hostset_nodup. constructor. Qed.

Lemma fse_of_host_in w h p : In p (of_host w h) <-> In p w /\ snd p = h.
Proof. unfold of_host. rewrite filter_In, Nat.eqb_eq. reflexivity. Qed.

Lemma fse_in_hosts w h : In h (hosts w) <-> of_host w h <> [].
Proof.
  unfold hosts. rewrite In_sort_nat, fse_hostset_in. split.
  - intros [[]|[p [I E]]] Z.
    assert (J : In p (of_host w h)) by (apply fse_of_host_in; split; assumption).
    rewrite Z in J. exact J.
  - intro N. right. destruct (of_host w h) as [|p r] eqn:E; [congruence|].
    exists p. apply fse_of_host_in. rewrite E. left. reflexivity.
Qed.

Definition nonempty_at (w : list (wid * nat)) (k : nat) : bool := 0 <? length (of_host w k).

Lemma fse_nonempty_at w k : nonempty_at w k = true <-> of_host w k <> [].
Proof.
  unfold nonempty_at. rewrite Nat.ltb_lt. destruct (of_host w k); cbn [length]; split; intro H;
    first [lia | congruence | discriminate].
Qed.

(* the hosts of the remaining workers are the keys whose list is not empty *)
Lemma fse_hosts_filter K w : StronglySorted lt K -> (forall p, In p w -> In (snd p) K) ->
  hosts w = filter (nonempty_at w) K.
Proof.
  intros S C. apply fse_ssorted_unique.
  - apply fse_hosts_sorted.
  - apply fse_ssorted_filter. exact S.
  - intro h. rewrite fse_in_hosts, filter_In, fse_nonempty_at. split; [|tauto].
    intro N. split; [|exact N]. destruct (of_host w h) as [|p r] eqn:E; [congruence|].
    assert (J : In p (of_host w h)) by (rewrite E; left; reflexivity).
    apply fse_of_host_in in J. destruct J as [J1 J2]. rewrite <- J2. apply C. exact J1.
Qed.

(* ---- the grouping loop ----------------------------------------------------------- *)
Lemma fse_ws_append (g : nat -> list (wid * nat)) h x : forall K, NoDup K ->
  FarmGen.ws_append h x (map (fun k => (k, g k)) K) =
  map (fun k => (k, if Nat.eqb k h then g k ++ [x] else g k)) K.
Proof.
  induction K as [|k K IH]; intro N; cbn [map FarmGen.ws_append]; [reflexivity|].
  apply NoDup_cons_iff in N. destruct N as [Nk N].
  destruct (Nat.eqb k h) eqn:E.
  - f_equal. apply map_ext_in. intros k' I. destruct (Nat.eqb k' h) eqn:E'; [|reflexivity].
    apply Nat.eqb_eq in E, E'. subst. contradiction.
  - f_equal. apply IH. exact N.
Qed.

Lemma fse_of_host_snoc w x k :
  of_host (w ++ [x]) k = if Nat.eqb k (snd x) then of_host w k ++ [x] else of_host w k.
Proof.
  unfold of_host. rewrite filter_app. cbn [filter]. rewrite (Nat.eqb_sym k).
  destruct (Nat.eqb (snd x) k); [reflexivity|apply app_nil_r].
Qed.

Lemma fse_groups_fold K : NoDup K -> forall l pre,
  fold_left (fun wg worker => FarmGen.ws_append (snd worker) worker wg) l (G K pre) = G K (pre ++ l).
Proof.
  intros N. induction l as [|x l IH]; intro pre; cbn [fold_left].
  - rewrite app_nil_r. reflexivity.
  - unfold G at 1. rewrite fse_ws_append by exact N.
    replace (map _ K) with (G K (pre ++ [x])).
    + rewrite IH, <- app_assoc. reflexivity.
    + unfold G. apply map_ext. intro k. rewrite fse_of_host_snoc. reflexivity.
Qed.

Lemma ws_groups_eq w : FarmGen.ws_groups w = G (hosts w) w.
Proof.
  unfold FarmGen.ws_groups. change (FarmGen.ws_keys w) with (hosts w).
  replace (map (fun k => (k, [])) (hosts w)) with (G (hosts w) []) by reflexivity.
  rewrite fse_groups_fold; [reflexivity|]. apply fse_ssorted_nodup, fse_hosts_sorted.
Qed.

(* ---- sum(len(v) for v in wg.values()) ------------------------------------------- *)
Lemma fse_total_fold : forall (wg : list (nat * list (wid * nat))) a,
  fold_left (fun a kv => a + length (snd kv)) wg a = 0 <->
  a = 0 /\ Forall (fun kv => snd kv = []) wg.
Proof.
  induction wg as [|kv wg IH]; intro a; cbn [fold_left].
  - split; [intro; split; [assumption|constructor]|tauto].
  - rewrite IH. split.
    + intros [H F]. assert (length (snd kv) = 0) by lia. split; [lia|].
      constructor; [|exact F]. destruct (snd kv); [reflexivity|discriminate].
    + intros [H F]. inversion F; subst. rewrite H2. cbn. split; [reflexivity|assumption].
Qed.

Lemma fse_total_zero K w : (forall p, In p w -> In (snd p) K) ->
  (FarmGen.ws_total (G K w) = 0 <-> w = []).
Proof.
  intro C. unfold FarmGen.ws_total. rewrite fse_total_fold. split.
  - intros [_ F]. destruct w as [|p w]; [reflexivity|exfalso].
    rewrite Forall_forall in F.
    assert (I : In (snd p, of_host (p :: w) (snd p)) (G K (p :: w))).
    { unfold G. apply in_map_iff. exists (snd p). split; [reflexivity|]. apply C. left. reflexivity. }
    specialize (F _ I). cbn [snd] in F.
    apply (of_host_nonempty (p :: w) p); [left; reflexivity|exact F].
  - intro E. subst w. split; [reflexivity|]. apply Forall_forall. intros kv I.
    unfold G in I. apply in_map_iff in I. destruct I as [k [E _]]. subst kv. reflexivity.
Qed.

(* ---- the scan for `longest` ------------------------------------------------------ *)
Definition gen_step (best : option nat * list (wid * nat)) (kv : nat * list (wid * nat)) :=
  if length (snd best) <? length (snd kv) then (Some (fst kv), snd kv) else best.
Definition mod_step (w : list (wid * nat)) (best : option nat) (h : nat) : option nat :=
  match best with
  | None => if 0 <? length (of_host w h) then Some h else None
  | Some b => if length (of_host w b) <? length (of_host w h) then Some h else Some b
  end.
Definition scan_rel (w : list (wid * nat)) (bg : option nat * list (wid * nat)) (bm : option nat) : Prop :=
  match bm with
  | None => bg = (None, [])
  | Some b => bg = (Some b, of_host w b)
  end.

Lemma fse_scan w : forall K bg bm, scan_rel w bg bm ->
  scan_rel w (fold_left gen_step (G K w) bg) (fold_left (mod_step w) (filter (nonempty_at w) K) bm).
Proof.
  induction K as [|k K IH]; intros bg bm R; cbn [G map fold_left filter]; [exact R|].
  fold (G K w). destruct (nonempty_at w k) eqn:Ne.
  - cbn [fold_left]. apply IH. unfold nonempty_at in Ne.
    unfold gen_step, mod_step. cbn [fst snd]. destruct bm as [b|]; cbn [scan_rel] in R; subst bg; cbn [snd length].
    + destruct (length (of_host w b) <? length (of_host w k)); reflexivity.
    + rewrite Ne. reflexivity.
  - apply IH. unfold nonempty_at in Ne. apply Nat.ltb_ge in Ne.
    assert (Z : length (of_host w k) = 0) by lia.
    unfold gen_step. cbn [snd]. rewrite Z. cbn. exact R.
Qed.

Lemma ws_longest_pick K w : StronglySorted lt K -> (forall p, In p w -> In (snd p) K) ->
  fst (FarmGen.ws_longest (G K w)) = pick_host w.
Proof.
  intros S C. unfold pick_host. rewrite (fse_hosts_filter K w S C).
  pose proof (fse_scan w K (None, []) None eq_refl) as R.
  change (FarmGen.ws_longest (G K w)) with (fold_left gen_step (G K w) (None, [])).
  change (fold_left _ (filter (nonempty_at w) K) None)
    with (fold_left (mod_step w) (filter (nonempty_at w) K) None).
  destruct (fold_left (mod_step w) _ None) as [b|]; cbn [scan_rel] in R; rewrite R; reflexivity.
Qed.

(* ---- longest.pop(0) ---------------------------------------------------------------- *)
Lemma fse_of_host_remove : forall w k p g, NoDup (map fst w) -> of_host w k = p :: g ->
  forall k', of_host (remove_first (fst p) w) k' = if Nat.eqb k' k then g else of_host w k'.
Proof.
  induction w as [|q r IH]; intros k p g N E k'; [discriminate|].
  cbn [map] in N. apply NoDup_cons_iff in N. destruct N as [Nq N].
  unfold of_host in E. cbn [filter] in E. fold (of_host r k) in E.
  destruct (Nat.eqb (snd q) k) eqn:Q.
  - inversion E; subst p g. cbn [remove_first]. rewrite Nat.eqb_refl.
    destruct (Nat.eqb k' k) eqn:K'.
    + apply Nat.eqb_eq in K'. subst k'. reflexivity.
    + unfold of_host at 2. cbn [filter]. apply Nat.eqb_eq in Q. rewrite Q, (Nat.eqb_sym k k'), K'. reflexivity.
  - assert (Ip : In p r).
    { assert (J : In p (of_host r k)) by (rewrite E; left; reflexivity).
      apply fse_of_host_in in J. tauto. }
    assert (D : Nat.eqb (fst q) (fst p) = false).
    { apply Nat.eqb_neq. intro X. apply Nq. rewrite X. apply in_map. exact Ip. }
    cbn [remove_first]. rewrite D. unfold of_host at 1. cbn [filter].
    fold (of_host (remove_first (fst p) r) k'). rewrite (IH k p g N E k').
    unfold of_host at 3. cbn [filter]. fold (of_host r k').
    destruct (Nat.eqb k' k) eqn:K'.
    + apply Nat.eqb_eq in K'. subst k'. rewrite Q. reflexivity.
    + reflexivity.
Qed.

Lemma ws_pop_G w k p g : NoDup (map fst w) -> of_host w k = p :: g ->
  forall K, NoDup K -> In k K ->
  FarmGen.ws_pop k (G K w) = Some (p, G K (remove_first (fst p) w)).
Proof.
  intros N E. induction K as [|k' K IH]; intros NK I; [destruct I|].
  apply NoDup_cons_iff in NK. destruct NK as [Nk NK].
  cbn [G map FarmGen.ws_pop]. fold (G K w). fold (G K (remove_first (fst p) w)).
  rewrite (fse_of_host_remove w k p g N E k').
  destruct (Nat.eqb k' k) eqn:Q.
  - apply Nat.eqb_eq in Q. subst k'. rewrite E. do 3 f_equal.
    unfold G. apply map_ext_in. intros k'' I'. rewrite (fse_of_host_remove w k p g N E k'').
    destruct (Nat.eqb k'' k) eqn:Q'; [|reflexivity]. apply Nat.eqb_eq in Q'. subst. contradiction.
  - destruct I as [I|I]; [subst k'; rewrite Nat.eqb_refl in Q; discriminate|].
    rewrite (IH NK I). reflexivity.
Qed.

Lemma fse_remove_first_incl x : forall w p, In p (remove_first x w) -> In p w.
Proof.
  induction w as [|q w IH]; intros p I; cbn [remove_first] in I; [exact I|].
  destruct (Nat.eqb (fst q) x); [right; exact I|].
  destruct I as [I|I]; [left; exact I|right; apply IH; exact I].
Qed.

(* ---- the while loop --------------------------------------------------------------- *)
Theorem ws_loop_eq K : StronglySorted lt K -> forall n w acc,
  length w = n -> NoDup (map fst w) -> (forall p, In p w -> In (snd p) K) ->
  FarmGen.ws_loop n (G K w) acc = Some (acc ++ workers_sort_aux n w).
Proof.
  intros S. induction n as [|f IH]; intros w acc L N C.
  - destruct w; [|discriminate]. cbn [FarmGen.ws_loop workers_sort_aux].
    rewrite (proj2 (fse_total_zero K [] C) eq_refl). cbn. rewrite app_nil_r. reflexivity.
  - assert (T : Nat.eqb (FarmGen.ws_total (G K w)) 0 = false).
    { apply Nat.eqb_neq. intro Z. apply (fse_total_zero K w C) in Z. subst w. discriminate. }
    cbn [FarmGen.ws_loop workers_sort_aux]. rewrite T.
    rewrite (ws_longest_pick K w S C).
    assert (exists p0, In p0 w) as [p0 Hp0] by (destruct w; [discriminate|eexists; left; reflexivity]).
    destruct (pick_host_some w p0 Hp0) as (h & Ph & Nh). rewrite Ph.
    destruct (of_host w h) as [|p g] eqn:E; [congruence|].
    assert (J : In p w /\ snd p = h).
    { apply fse_of_host_in. rewrite E. left. reflexivity. }
    destruct J as [Ip Hp].
    rewrite (ws_pop_G w h p g N E K (fse_ssorted_nodup K S)) by (rewrite <- Hp; apply C; exact Ip).
    rewrite IH.
    + rewrite <- app_assoc. reflexivity.
    + rewrite remove_first_length by exact Ip. lia.
    + apply remove_first_nodup'. exact N.
    + intros q Iq. apply C. eapply fse_remove_first_incl. exact Iq.
Qed.

Theorem workers_sort_gen_eq : forall w, NoDup (map fst w) ->
  FarmGen.workers_sort w = Some (Sched.workers_sort w).
Proof.
  intros w N. unfold FarmGen.workers_sort, Sched.workers_sort. rewrite ws_groups_eq.
  rewrite (ws_loop_eq (hosts w) (fse_hosts_sorted w) (length w) w [] eq_refl N).
  - reflexivity.
  - intros p I. apply In_hosts. exact I.
Qed.

(* the hypothesis is needed: the model removes the chosen worker BY ID, the
   source pops it from its host's list *)
Example workers_sort_gen_eq_needs_nodup :
  FarmGen.workers_sort [(0, 1); (0, 0); (9, 0)] <> Some (Sched.workers_sort [(0, 1); (0, 0); (9, 0)]).
Proof. vm_compute. discriminate. Qed.
