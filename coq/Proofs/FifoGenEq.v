(* Proofs/FifoGenEq.v -- dawgie.util.fifo.Unique, regenerated from the python
   source (Gen/FifoGen.v, by tools/translate/fifo2coq.py), IS the list-set
   library the scheduler model (Model/Sched.v) uses for every node's `todo`:

       Unique.add      = Sched.add       Unique.update   = Sched.addl
       Unique.discard  = Sched.rem       v in Unique     = Sched.mem
       list(Unique)    = the list        len(Unique)     = length
       Unique(it)      = Sched.addl it []

   The python object keeps TWO containers (the list __order and the set
   __unique); the equalities hold under the class invariant `uinv` (the two
   hold the same elements, without duplicates), which is established by the
   constructor and preserved by every method (proved below) -- so they hold
   for every Unique object a program can build.  Under the invariant discard
   never raises (list.remove / set.remove find their element). *)
From Coq Require Import List Arith Bool Lia Permutation.
From DV Require Model.Sched Gen.FifoGen.
Import ListNotations.

Definition uinv (st : FifoGen.ustate) : Prop :=
  NoDup (fst st) /\ NoDup (snd st) /\ forall x, In x (snd st) <-> In x (fst st).

Lemma py_in_mem v s : FifoGen.py_in v s = Sched.mem v s.
Proof. reflexivity. Qed.

Lemma py_in_iff v s : FifoGen.py_in v s = true <-> In v s.
Proof.
  unfold FifoGen.py_in. rewrite existsb_exists. split.
  - intros (x & Hx & E). apply Nat.eqb_eq in E. now subst.
  - intro H. exists v. split; [exact H|apply Nat.eqb_refl].
Qed.

Lemma py_in_false v s : FifoGen.py_in v s = false <-> ~ In v s.
Proof. rewrite <- py_in_iff. destruct (FifoGen.py_in v s); split; congruence. Qed.

Lemma filter_notin_ v (l : list nat) :
  ~ In v l -> filter (fun u => negb (Nat.eqb u v)) l = l.
Proof.
  induction l as [|x l IH]; intro H; cbn [filter]; [reflexivity|].
  destruct (Nat.eqb x v) eqn:E.
  - apply Nat.eqb_eq in E. subst. exfalso. apply H. now left.
  - cbn [negb]. rewrite IH; [reflexivity|]. intro K. apply H. now right.
Qed.

Lemma list_remove_nodup v : forall l,
  NoDup l -> In v l ->
  FifoGen.list_remove v l = Some (filter (fun u => negb (Nat.eqb u v)) l).
Proof.
  induction l as [|x l IH]; intros N I; [destruct I|].
  inversion N as [|? ? Hx Nl]; subst. cbn [FifoGen.list_remove filter].
  destruct (Nat.eqb x v) eqn:E.
  - apply Nat.eqb_eq in E. subst. cbn [negb]. rewrite filter_notin_; [reflexivity|exact Hx].
  - cbn [negb]. destruct I as [->|I]; [rewrite Nat.eqb_refl in E; discriminate|].
    rewrite (IH Nl I). reflexivity.
Qed.

Lemma filter_ne_In v (l : list nat) x :
  In x (filter (fun u => negb (Nat.eqb u v)) l) <-> In x l /\ x <> v.
Proof.
  rewrite filter_In. split; intros [A B]; split; auto.
  - intro E. subst. rewrite Nat.eqb_refl in B. discriminate.
  - apply negb_true_iff. now apply Nat.eqb_neq.
Qed.

(* ---- the constructor's empty object ---- *)
Lemma uinv_empty : uinv ([], []).
Proof. repeat split; try constructor; cbn; tauto. Qed.

(* ---- Unique.add ---- *)
Theorem add_gen_eq : forall st v, uinv st ->
  fst (FifoGen.add st v) = Sched.add v (fst st) /\ uinv (FifoGen.add st v).
Proof.
  intros [o u] v (No & Nu & M). cbn [fst snd] in *. unfold FifoGen.add, Sched.add.
  change Sched.mem with FifoGen.py_in.
  destruct (FifoGen.py_in v u) eqn:E; cbn [negb].
  - assert (Eo : FifoGen.py_in v o = true) by (apply py_in_iff, M, py_in_iff, E).
    rewrite Eo. cbn [fst]. split; [reflexivity|]. repeat split; cbn [fst snd]; auto; apply M.
  - assert (Hu : ~ In v u) by (apply py_in_false, E).
    assert (Ho : ~ In v o) by (intro K; apply Hu, M, K).
    apply py_in_false in Ho as Eo. rewrite Eo. cbn [fst]. split; [reflexivity|].
    unfold FifoGen.set_add. rewrite E. repeat split; cbn [fst snd].
    + apply Permutation_NoDup with (l := v :: o); [|constructor; assumption].
      apply Permutation_cons_append.
    + constructor; assumption.
    + intros [<-|H]; apply in_or_app; [right; now left|left; now apply M].
    + intro H. apply in_app_or in H. destruct H as [H|[<-|[]]]; [right; now apply M|now left].
Qed.

(* ---- Unique.discard: never raises on a well-formed object ---- *)
Theorem discard_gen_eq : forall st v, uinv st ->
  exists st', FifoGen.discard st v = Some st' /\
              fst st' = Sched.rem v (fst st) /\ uinv st'.
Proof.
  intros [o u] v (No & Nu & M). cbn [fst snd] in *. unfold FifoGen.discard, Sched.rem.
  destruct (FifoGen.py_in v u) eqn:E.
  - assert (Iu : In v u) by (apply py_in_iff, E). assert (Io : In v o) by (apply M, Iu).
    rewrite (list_remove_nodup v o No Io). unfold FifoGen.set_remove. rewrite E.
    eexists. split; [reflexivity|]. cbn [fst snd]. split; [reflexivity|].
    repeat split; cbn [fst snd]; try (apply NoDup_filter; assumption).
    + intro H. apply filter_ne_In in H. apply filter_ne_In. split; [apply M|]; tauto.
    + intro H. apply filter_ne_In in H. apply filter_ne_In. split; [apply M|]; tauto.
  - assert (Hu : ~ In v u) by (apply py_in_false, E).
    assert (Ho : ~ In v o) by (intro K; apply Hu, M, K).
    eexists. split; [reflexivity|]. cbn [fst snd]. rewrite filter_notin_ by exact Ho.
    split; [reflexivity|]. repeat split; auto; apply M.
Qed.

(* ---- Unique.update / |= / the constructor ---- *)
Lemma update_fold : forall it st, FifoGen.update st it = fold_left FifoGen.add it st.
Proof.
  intros it [o u]. unfold FifoGen.update.
  assert (G : forall l s, (let '(order_, unique_) :=
                 fold_left (fun '(order_, unique_) value_ =>
                   let '(order_0, unique_0) := FifoGen.add (order_, unique_) value_ in
                   (order_0, unique_0)) l s in (order_, unique_)) = fold_left FifoGen.add l s).
  { induction l as [|x l IH]; intros [a b]; cbn [fold_left]; [reflexivity|].
    destruct (FifoGen.add (a, b) x) as [a' b'] eqn:E. apply IH. }
  destruct it as [|x it]; [reflexivity|]. apply G.
Qed.

Lemma fold_add_eq : forall it st, uinv st ->
  fst (fold_left FifoGen.add it st) = Sched.addl it (fst st) /\ uinv (fold_left FifoGen.add it st).
Proof.
  induction it as [|x it IH]; intros st I; [split; [reflexivity|exact I]|].
  cbn [fold_left]. unfold Sched.addl. cbn [fold_left].
  destruct (add_gen_eq st x I) as [E I']. rewrite <- E. apply (IH _ I').
Qed.

Theorem update_gen_eq : forall st it, uinv st ->
  fst (FifoGen.update st it) = Sched.addl it (fst st) /\ uinv (FifoGen.update st it).
Proof. intros st it I. rewrite update_fold. now apply fold_add_eq. Qed.

Lemma init_fold : forall it, FifoGen.init it = fold_left FifoGen.add it ([], []).
Proof.
  intro it. unfold FifoGen.init, FifoGen.init0, FifoGen.ior.
  destruct it as [|x it]; [reflexivity|].
  destruct (fold_left _ (x :: it) ([], [])) as [a b]. reflexivity.
Qed.

Theorem init_gen_eq : forall it,
  fst (FifoGen.init it) = Sched.addl it [] /\ uinv (FifoGen.init it).
Proof. intro it. rewrite init_fold. apply (fold_add_eq it ([], []) uinv_empty). Qed.

(* ---- observers ---- *)
Theorem contains_gen_eq : forall st v, uinv st ->
  FifoGen.contains st v = Sched.mem v (fst st).
Proof.
  intros [o u] v (_ & _ & M). cbn [fst snd] in *. unfold FifoGen.contains.
  change Sched.mem with FifoGen.py_in. apply eq_true_iff_eq. rewrite !py_in_iff. apply M.
Qed.

Theorem iter_gen_eq : forall st, FifoGen.iter st = fst st.
Proof. intros [o u]. reflexivity. Qed.

Theorem len_gen_eq : forall st, uinv st -> FifoGen.len st = length (fst st).
Proof.
  intros [o u] (No & Nu & M). cbn [fst snd] in *. unfold FifoGen.len.
  apply Permutation_length. apply NoDup_Permutation; assumption.
Qed.

Lemma addl_nodup : forall l a, NoDup (a ++ l) -> Sched.addl l a = a ++ l.
Proof.
  induction l as [|x l IH]; intros a N; unfold Sched.addl; cbn [fold_left].
  - now rewrite app_nil_r.
  - assert (Hx : ~ In x a).
    { intro K. apply NoDup_remove_2 in N. apply N. apply in_or_app. now left. }
    unfold Sched.add. change Sched.mem with FifoGen.py_in. apply py_in_false in Hx. rewrite Hx.
    change (Sched.addl l (a ++ [x]) = a ++ x :: l). rewrite IH; rewrite <- app_assoc; [reflexivity|exact N].
Qed.

(* Unique.copy: a new object with the same elements in the same order *)
Theorem copy_gen_eq : forall st, uinv st ->
  fst (FifoGen.copy st) = fst st /\ uinv (FifoGen.copy st).
Proof.
  intros [o u] (No & Nu & M). cbn [fst snd] in *. unfold FifoGen.copy.
  destruct (init_gen_eq o) as [E I]. split; [|exact I].
  rewrite E. apply (addl_nodup o []). exact No.
Qed.

Theorem difference_gen_eq : forall st other x, uinv st ->
  In x (FifoGen.difference st other) <-> In x (fst st) /\ ~ In x other.
Proof.
  intros [o u] other x (_ & _ & M). cbn [fst snd] in *. unfold FifoGen.difference, FifoGen.set_diff.
  rewrite filter_In, negb_true_iff, py_in_false, M. tauto.
Qed.

(* every object a program can build from the constructor with the translated
   mutators satisfies the invariant *)
Inductive uop := UAdd (v : nat) | UDiscard (v : nat) | UUpdate (it : list nat).
Definition uapply (st : option FifoGen.ustate) (o : uop) : option FifoGen.ustate :=
  match st with
  | None => None
  | Some st => match o with
               | UAdd v => Some (FifoGen.add st v)
               | UDiscard v => FifoGen.discard st v
               | UUpdate it => Some (FifoGen.update st it)
               end
  end.
Definition sapply (l : list nat) (o : uop) : list nat :=
  match o with UAdd v => Sched.add v l | UDiscard v => Sched.rem v l | UUpdate it => Sched.addl it l end.

Theorem unique_is_sched_lists : forall it ops,
  exists st, fold_left uapply ops (Some (FifoGen.init it)) = Some st /\
             FifoGen.iter st = fold_left sapply ops (Sched.addl it []) /\ uinv st.
Proof.
  intros it ops.
  assert (G : forall os st l, uinv st -> fst st = l ->
            exists st', fold_left uapply os (Some st) = Some st' /\
                        fst st' = fold_left sapply os l /\ uinv st').
  { induction os as [|o os IH]; intros st l I E; cbn [fold_left].
    - exists st. auto.
    - destruct o as [v|v|l']; cbn [uapply sapply].
      + destruct (add_gen_eq st v I) as [E' I']. apply IH; [exact I'|now rewrite E', E].
      + destruct (discard_gen_eq st v I) as (st' & -> & E' & I'). apply IH; [exact I'|now rewrite E', E].
      + destruct (update_gen_eq st l' I) as [E' I']. apply IH; [exact I'|now rewrite E', E]. }
  destruct (init_gen_eq it) as [E I].
  destruct (G ops _ _ I E) as (st' & A & B & C). exists st'. rewrite iter_gen_eq. auto.
Qed.
