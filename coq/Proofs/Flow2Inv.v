(* C02 end state WITH worker failures (Model/Flow2.v): the invariant of one
   propagation, now stated with LOCAL staleness (a unit is locally stale when its
   latest content is not what the algorithm computes from the latest content of
   its inputs) and the ghost list of withdrawn units; preservation by a tick, a
   change event at a quiescent pipeline, a successful run and a FAILED run. *)
From Coq Require Import List Arith ZArith Bool Lia Permutation.
From DV Require Import Model.Sched Model.Flow Model.Flow2 Proofs.SchedLib Proofs.SchedOrg Proofs.SchedC02
     Proofs.SchedC05 Proofs.SchedC11 Proofs.SchedBatch Proofs.SchedExact Proofs.FlowProofs Proofs.FlowInv
     Proofs.FlowSteps.
Import ListNotations.

(* a is upstream of x along declared inputs (reflexive) *)
Inductive reach (C : cfg) : node -> node -> Prop :=
| reach_refl x : reach C x x
| reach_step a p x : reach C a p -> In p (ins (gi C x)) -> reach C a x.

Definition wdp (g : fstate2) (x : node) (t : tgt) : Prop := wd_has (wd g) x t = true.
Definition lstale (c : fcfg) (f : fstate) (t : tgt) (x : node) : Prop := latest (sto f) t x <> lev c f t x x.

(* ---- the ghost list ---- *)
Lemma wd_has_In w x t : wd_has w x t = true <-> exists k, In (x, t, k) w.
Proof.
  unfold wd_has. rewrite existsb_exists. split.
  - intros ([[y u] k] & H & K). unfold wd_key in K. cbn in K. apply andb_true_iff in K. destruct K as [K1 K2].
    apply Nat.eqb_eq in K1. apply Nat.eqb_eq in K2. subst. exists k. exact H.
  - intros (k & H). exists (x, t, k). split; [exact H|]. unfold wd_key. cbn. rewrite !Nat.eqb_refl. reflexivity.
Qed.

Lemma wd_add_In c st t w y p :
  In p (wd_add c st t w y) -> In p w \/ p = (y, t, map (latest st t) (outs c y)).
Proof.
  unfold wd_add. destruct (wd_has w y t); [auto|]. intros H. apply in_app_or in H.
  destruct H as [H|[H|[]]]; [left; exact H|right; symmetry; exact H].
Qed.

Lemma wd_fold_In c st t L : forall w p, In p (fold_left (wd_add c st t) L w) ->
  In p w \/ exists y, In y L /\ p = (y, t, map (latest st t) (outs c y)).
Proof.
  induction L as [|y L IH]; intros w p H; cbn [fold_left] in H; [left; exact H|].
  apply IH in H. destruct H as [H|(z & Hz & E)].
  - apply wd_add_In in H. destruct H as [H|H]; [left; exact H|right; exists y; split; [left; reflexivity|exact H]].
  - right. exists z. split; [right; exact Hz|exact E].
Qed.

Lemma wd_add_mono c st t w y a u : wd_has w a u = true -> wd_has (wd_add c st t w y) a u = true.
Proof.
  unfold wd_add. destruct (wd_has w y t); [auto|]. intros H. unfold wd_has in *. rewrite existsb_app, H. reflexivity.
Qed.

Lemma wd_fold_mono c st t L : forall w a u, wd_has w a u = true -> wd_has (fold_left (wd_add c st t) L w) a u = true.
Proof.
  induction L as [|y L IH]; intros w a u H; cbn [fold_left]; [exact H|]. apply IH. apply wd_add_mono. exact H.
Qed.

Lemma wd_add_self c st t w y : wd_has (wd_add c st t w y) y t = true.
Proof.
  unfold wd_add. destruct (wd_has w y t) eqn:E; [exact E|]. unfold wd_has. rewrite existsb_app. cbn.
  unfold wd_key. cbn. rewrite !Nat.eqb_refl. cbn. apply orb_true_r.
Qed.

Lemma wd_fold_adds c st t L : forall w y, In y L -> wd_has (fold_left (wd_add c st t) L w) y t = true.
Proof.
  induction L as [|z L IH]; intros w y H; [destruct H|]. destruct H as [->|H]; cbn [fold_left].
  - apply wd_fold_mono. apply wd_add_self.
  - apply IH. exact H.
Qed.

Lemma wd_filter_In x t (w : wdl) a u k :
  In (a, u, k) (filter (fun p => negb (wd_key x t p)) w) <-> In (a, u, k) w /\ (a, u) <> (x, t).
Proof.
  rewrite filter_In. unfold wd_key. cbn [fst snd]. rewrite negb_true_iff, andb_false_iff, !Nat.eqb_neq.
  split; intros [H N]; (split; [exact H|]).
  - intros E. inversion E; subst. destruct N; congruence.
  - destruct (Nat.eq_dec a x) as [->|Na]; [|left; exact Na]. right. intros ->. apply N. reflexivity.
Qed.

(* ---- upstream ---- *)
Lemma reach_first C a y : reach C a y -> a = y \/ exists z, In a (ins (gi C z)) /\ reach C z y.
Proof.
  induction 1 as [x|a p x R IH Hp]; [left; reflexivity|]. right. destruct IH as [->|(z & Hz & Rz)].
  - exists x. split; [exact Hp|constructor].
  - exists z. split; [exact Hz|]. apply (reach_step C z p x); assumption.
Qed.

Lemma reach_trans_in C a p x : reach C a p -> In p (ins (gi C x)) -> reach C a x.
Proof. intros. eapply reach_step; eassumption. Qed.

(* ================= the invariant ================= *)
Record FInv2 (c : fcfg) (b : Z) (g : fstate2) : Prop := {
  j_sched : SchedBatch.Inv (fc c) (sch (fs g));
  j_exact : exact (sch (fs g));
  j_single : single (sch (fs g));
  j_nq : NoDup (que (sch (fs g)));
  j_infl : inflight (sch (fs g)) = [];
  j_b : (b <= stored (sch (fs g)))%Z;
  j_sto : forall e, In e (sto (fs g)) -> (e_rid e <= stored (sch (fs g)))%Z;
  j_msg : forall m, In m (cluster (sch (fs g))) -> (b < m_rid m)%Z;
  j_rid : forall x t, In t (todo (getn (ns (sch (fs g))) x)) ->
            match rid (getn (ns (sch (fs g))) x) with None => True | Some r => (b < r)%Z end;
  (* a locally stale unit has something pending or withdrawn upstream (itself included) *)
  j_A : 0 < ctr (fs g) -> forall x t, x < nnodes (fc c) -> In t (gtargets (fc c)) -> lstale c (fs g) t x ->
          exists a, reach (fc c) a x /\ (pendp (sch (fs g)) a t \/ wdp g a t);
  j_B : forall x t a, In t (doing (getn (ns (sch (fs g))) x)) -> In a (anc (gi (fc c) x)) -> ~ pendp (sch (fs g)) a t;
  j_C : forall x t, fresh b (sto (fs g)) t x ->
          ~ pendp (sch (fs g)) x t /\ forall a, In a (anc (gi (fc c) x)) -> ~ pendp (sch (fs g)) a t;
  j_D : forall x t, In t (doing (getn (ns (sch (fs g))) x)) -> ~ In t (todo (getn (ns (sch (fs g))) x));
  (* what a pending unit is about to compute carries the current change counter *)
  j_T : forall x t, pendp (sch (fs g)) x t ->
          x < nnodes (fc c) /\ In t (gtargets (fc c)) /\ hasver (ctr (fs g)) (lev c (fs g) t x x) = true;
  j_N : forall x t k i, In (CVal x t k i) (blobs (fs g)) -> hasver (ctr (fs g)) (CVal x t k i) = true ->
          fresh b (sto (fs g)) t x;
  j_U : forall t v e1 e2, In e1 (sto (fs g)) -> In e2 (sto (fs g)) -> same_key e1 t v = true -> same_key e2 t v = true ->
          (b < e_rid e1)%Z -> (b < e_rid e2)%Z -> e1 = e2;
  j_Gb : forall x' k, In x' (blobs (fs g)) -> ctr (fs g) < k -> hasver k x' = false;
  j_Gs : forall e k, In e (sto (fs g)) -> ctr (fs g) < k -> hasver k (e_con e) = false;
  j_Gr : forall x t, rin_get (rin (fs g)) x t <= ctr (fs g);
  j_0 : ctr (fs g) = 0 -> sto (fs g) = [] /\ forall x t, ~ pendp (sch (fs g)) x t;
  (* a withdrawn unit holds what it held when it was withdrawn *)
  j_W : forall x t k, In (x, t, k) (wd g) -> x < nnodes (fc c) /\ k = map (latest (sto (fs g)) t) (outs c x)
}.

Lemma latest_ver st k t v : (forall e, In e st -> hasver k (e_con e) = false) -> hasver k (latest st t v) = false.
Proof.
  intros H. unfold latest. pose proof (shighest_spec st t v) as S. destruct (shighest st t v) as [b'|]; [|reflexivity].
  destruct S as (S1 & _). apply H. exact S1.
Qed.

Lemma lev_ver_bound c f : (forall x t, rin_get (rin f) x t <= ctr f) ->
  (forall e k, In e (sto f) -> ctr f < k -> hasver k (e_con e) = false) ->
  forall k, ctr f < k -> forall t x v, hasver k (lev c f t x v) = false.
Proof.
  intros Gr Gs k Hk t x v. unfold lev. cbn [hasver]. apply orb_false_iff. split.
  - apply Nat.eqb_neq. unfold base_of. destruct (ins (gi (fc c) x)); [specialize (Gr x t)|]; lia.
  - apply not_true_is_false. intros H. apply existsb_exists in H. destruct H as (y & Hy & H).
    apply in_map_iff in Hy. destruct Hy as (p & <- & _). rewrite latest_ver in H; [discriminate|].
    intros e He. apply (Gs e k He Hk).
Qed.

Section F2.
Variable c : fcfg.
Hypothesis OK : flow_ok c = true.
Local Notation C := (fc c).
Local Notation n := (nnodes (fc c)).

Lemma reach_bound a x : reach C a x -> x < n -> a < n.
Proof.
  induction 1 as [x|a p x R IH Hp]; intros Hx; [exact Hx|]. apply IH. destruct (ok_ins c OK x p Hx Hp) as (Pn & _). exact Pn.
Qed.

Lemma descend_self fuel x : In x (descend C fuel x).
Proof. destruct fuel; left; reflexivity. Qed.

Lemma desc_anc : forall fuel x y, x < n -> In y (descend C fuel x) -> y < n /\ (y = x \/ In x (anc (gi C y))).
Proof.
  induction fuel as [|fuel IH]; intros x y Hx H; cbn [descend] in H.
  - destruct H as [<-|[]]. auto.
  - destruct H as [<-|H]; [auto|]. apply in_flat_map in H. destruct H as (z & Hz & Hy).
    pose proof (ok_kids_bound c OK x z Hx Hz) as Zn.
    destruct (IH z y Zn Hy) as (Yn & E). split; [exact Yn|]. right.
    assert (Xz : In x (anc (gi C z))).
    { apply (ok_kids c OK x z Hx Zn) in Hz. destruct (ok_ins c OK z x Zn Hz) as (_ & _ & A). exact A. }
    destruct E as [->|E]; [exact Xz|].
    destruct (ok_anc c OK y z Yn E) as (_ & _ & Tr). apply Tr. exact Xz.
Qed.

(* every algorithm has an algorithm without declared inputs upstream *)
Lemma root_above : forall k x, lvl (gi C x) < k -> x < n -> exists a, reach C a x /\ a < n /\ ins (gi C a) = [].
Proof.
  induction k as [|k IH]; intros x Hk Hx; [lia|].
  destruct (ins (gi C x)) as [|p l] eqn:E.
  - exists x. split; [constructor|]. auto.
  - assert (Hp : In p (ins (gi C x))) by (rewrite E; left; reflexivity).
    destruct (ok_ins c OK x p Hx Hp) as (Pn & Pl & _).
    destruct (IH p ltac:(lia) Pn) as (a & Ra & An & Ar). exists a. split; [|auto].
    apply (reach_step C a p x); assumption.
Qed.

(* ================= a tick ================= *)
Lemma tick_FInv2 b g : FInv2 c b g -> FInv2 c b {| fs := ftick c (fs g); wd := wd g |}.
Proof.
  intros I. destruct I as [Isc Iex Isg Inq Iin Ib Isto Imsg Irid IA IB IC ID IT IN IU IGb IGs IGr I0 IW].
  set (f := fs g) in *. set (s := sch f) in *. set (sp := prep s).
  assert (Isp : SchedBatch.Inv C sp) by exact Isc.
  assert (Exsp : exact sp) by exact Iex.
  assert (Sgsp : single sp) by exact Isg.
  assert (Asp : active sp = true) by reflexivity.
  assert (Wsp : workers sp = []) by reflexivity.
  pose proof Isp as (Hl & Iq & Id & Ia).
  destruct (tick_exact C sp Isp Exsp Sgsp Inq Asp) as [Ex' Sg'].
  destruct (dispatch_flow C sp Wsp Asp Id) as (Fl' & St' & Ms').
  assert (PE : forall x t, pendp (fst (dispatch C sp)) x t <-> pendp s x t).
  { intros x t. rewrite !pendp_bool. rewrite dispatch_pend. reflexivity. }
  assert (TD : forall y u, In u (todo (getn (ns (fst (dispatch C sp))) y)) -> In u (todo (getn (ns s) y))).
  { intros y u. apply (tick_pending C sp y). }
  unfold ftick, ftick_s. fold f s sp.
  constructor; cbn [fs wd sch sto blobs ctr rin].
  - apply (step_Inv C sp Tick Isp).
  - exact Ex'.
  - exact Sg'.
  - rewrite dispatch_que. exact Inq.
  - rewrite Fl'. exact Iin.
  - rewrite St'. exact Ib.
  - intros e He. rewrite St'. apply Isto. exact He.
  - intros m Hm. destruct (Ms' m Hm) as [Hm0|Hnew]; [apply Imsg; exact Hm0|].
    assert (Hx : m_job m < n).
    { destruct (lt_dec (m_job m) n) as [L|L]; [exact L|]. exfalso.
      assert (U : In (m_job m, m_tgt m) (units (fst (dispatch C sp)))).
      { unfold units. apply in_map_iff. exists m. split; [reflexivity|]. apply in_or_app. left. exact Hm. }
      apply Ex' in U. destruct (step_Inv C sp Tick Isp) as (Hl' & _). cbn [step] in Hl'.
      rewrite getn_oob in U by (rewrite Hl'; lia). destruct U. }
    destruct (Hnew (ok_task c OK _ Hx)) as [R T]. rewrite R.
    specialize (Irid _ _ T). change (ns sp) with (ns s). change (stored sp) with (stored s).
    destruct (rid (getn (ns s) (m_job m))); lia.
  - intros x t Ht. rewrite dispatch_rid. apply (Irid x t). apply TD. exact Ht.
  - intros Hc x t Hx Ht St. destruct (IA Hc x t Hx Ht St) as (a & Ra & [P|P]).
    + exists a. split; [exact Ra|]. left. apply PE. exact P.
    + exists a. split; [exact Ra|]. right. exact P.
  - intros x t a Hd Ha P. apply PE in P.
    destruct (in_dec Nat.eq_dec t (doing (getn (ns s) x))) as [Old|New].
    + exact (IB x t a Old Ha P).
    + destruct (tick_release_safe C sp x t a Iq Hl Asp Hd New Ha) as (N1 & N2 & _).
      apply PE in P. destruct P as [P|P]; contradiction.
  - intros x t Fr. destruct (IC x t Fr) as [N1 N2]. split.
    + intros P. apply N1. apply PE. exact P.
    + intros a Ha P. apply (N2 a Ha). apply PE. exact P.
  - apply (dispatch_disjoint C sp). exact ID.
  - intros x t P. apply (IT x t). apply PE. exact P.
  - exact IN.
  - exact IU.
  - exact IGb.
  - exact IGs.
  - exact IGr.
  - intros Hc. destruct (I0 Hc) as [E N]. split; [exact E|]. intros x t P. apply (N x t). apply PE. exact P.
  - exact IW.
Qed.

(* ================= a change event at a quiescent pipeline ================= *)
Lemma chg_FInv2 b g names tgts : FInv2 c b g -> quiescent c (fs g) = true -> chg_ok c (fs g) names tgts = true ->
  FInv2 c (stored (sch (fs g))) {| fs := fchg c names tgts (fs g); wd := wd g |}.
Proof.
  intros I Q K.
  destruct I as [Isc Iex Isg Inq Iin Ib Isto Imsg Irid IA IB IC ID IT IN IU IGb IGs IGr I0 IW].
  set (f := fs g) in *. set (s := sch f) in *. pose proof Isc as (Hl & Iq & Id & Ia).
  destruct (quiescent_spec c f Hl Q) as (Cl0 & Jb0 & Np). fold s in Cl0, Jb0, Np.
  unfold chg_ok in K. rewrite !andb_true_iff in K. destruct K as [[K1 K2] K3].
  rewrite forallb_forall in K1, K2.
  assert (Kr : forall x, In x names -> x < n /\ ins (gi C x) = []).
  { intros x Hx. specialize (K1 x Hx). apply andb_true_iff in K1. destruct K1 as [A B].
    apply Nat.ltb_lt in A. destruct (ins (gi C x)); [auto|discriminate]. }
  assert (Kt : forall t, In t tgts -> In t (gtargets C)) by (intros t Ht; apply mem_In; apply K2; exact Ht).
  assert (NoAll : mem ALL tgts = false).
  { apply mem_false_In. intros H. apply (ok_all c OK). apply Kt. exact H. }
  destruct (organize_spec C names None tgts s Hl) as (Hl' & T & D & Qe).
  assert (TA : forall y t, tgt_added C y tgts t <-> In t tgts).
  { intros y t. unfold tgt_added. rewrite (ok_asp c OK), NoAll. reflexivity. }
  assert (PE : forall y t, pendp (organize C names None tgts s) y t <-> In y names /\ In t tgts).
  { intros y t. unfold pendp. rewrite T. destruct (D y) as [D1 _]. rewrite D1. split.
    - intros [[H|(H1 & H2 & H3)]|H]; [exfalso; apply (Np y t); left; exact H|split; [exact H1|apply TA in H3; exact H3]|
                                      exfalso; apply (Np y t); right; exact H].
    - intros [H1 H2]. left. right. split; [exact H1|]. split; [apply Kr; exact H1|apply TA; exact H2]. }
  destruct (organize_farm C names None tgts s) as (Fc & _ & Fj & Fi & _ & _ & _ & Fs & _).
  destruct (step_exact C s (Org names None tgts) Isc Iex Isg Inq I) as [Ex' Sg'].
  unfold fchg. fold f s.
  constructor; cbn [fs wd sch sto blobs ctr rin].
  - apply (step_Inv C s (Org names None tgts) Isc).
  - exact Ex'.
  - exact Sg'.
  - apply (step_que_nodup C s (Org names None tgts) Inq).
  - rewrite Fi. exact Iin.
  - rewrite Fs. lia.
  - intros e He. rewrite Fs. apply Isto. exact He.
  - intros m Hm. rewrite Fc, Cl0 in Hm. destruct Hm.
  - intros x t Ht. rewrite organize_rid by exact Hl.
    assert (P : pendp (organize C names None tgts s) x t) by (left; exact Ht).
    apply PE in P. destruct P as [P1 _]. destruct (Kr x P1) as [Hx _].
    apply mem_In in P1. rewrite P1. assert (L : x <? n = true) by (apply Nat.ltb_lt; exact Hx).
    rewrite L. exact Logic.I.
  - intros _ x t Hx Ht St. unfold lstale, lev in St. cbn [sto rin] in St.
    destruct (Nat.eq_dec (ctr f) 0) as [Z|NZ].
    + (* the first change event names every root for every target *)
      apply Nat.eqb_eq in Z. rewrite Z in K3. apply andb_true_iff in K3. destruct K3 as [K3 K4].
      rewrite forallb_forall in K3, K4.
      destruct (root_above (S (lvl (gi C x))) x ltac:(lia) Hx) as (a & Ra & An & Ar).
      exists a. split; [exact Ra|]. left. apply PE.
      assert (Hsa : In a (seq 0 n)) by (apply in_seq; lia). specialize (K3 a Hsa). rewrite Ar in K3.
      split; [apply mem_In; exact K3|apply mem_In; apply K4; exact Ht].
    + assert (Hc : 0 < ctr f) by lia.
      destruct (content_eq_dec (latest (sto f) t x) (lev c f t x x)) as [E|E].
      * (* consistent before: the external input of x changed *)
        exists x. split; [constructor|]. left. apply PE.
        destruct (Nat.eq_dec (base_of c (rin f) x t)
                    (base_of c (flat_map (fun x0 => map (fun t0 => (x0, t0, S (ctr f))) tgts) names ++ rin f) x t)) as [Eb|Eb].
        -- exfalso. apply St. rewrite E. unfold lev. rewrite Eb. reflexivity.
        -- unfold base_of in Eb. destruct (ins (gi C x)); [|congruence].
           rewrite rin_get_chg in Eb. destruct (mem x names && mem t tgts) eqn:M; [|congruence].
           apply andb_true_iff in M. destruct M as [M1 M2]. split; apply mem_In; assumption.
      * destruct (IA Hc x t Hx Ht E) as (a & Ra & [P|P]); [exfalso; exact (Np a t P)|].
        exists a. split; [exact Ra|]. right. exact P.
  - intros x t a Hd. destruct (D x) as [D1 _]. rewrite D1 in Hd. exfalso. apply (Np x t). right. exact Hd.
  - intros x t (e & He & _ & Hr). specialize (Isto e He). lia.
  - intros x t Hd. destruct (D x) as [D1 _]. rewrite D1 in Hd. exfalso. apply (Np x t). right. exact Hd.
  - intros x t P. apply PE in P. destruct P as [P1 P2]. destruct (Kr x P1) as [Hx Hr].
    split; [exact Hx|]. split; [apply Kt; exact P2|].
    unfold lev. cbn [sto rin]. rewrite Hr. cbn [map hasver]. unfold base_of. rewrite Hr.
    rewrite rin_get_chg. apply mem_In in P1. apply mem_In in P2. rewrite P1, P2. cbn [andb].
    rewrite Nat.eqb_refl. reflexivity.
  - intros x t k i Hb Hv. rewrite (IGb _ (S (ctr f)) Hb) in Hv by lia. discriminate.
  - intros t v e1 e2 H1 _ _ _ L _. specialize (Isto e1 H1). lia.
  - intros x' k Hb Hk. apply IGb; [exact Hb|lia].
  - intros e k He Hk. apply (IGs e k He). lia.
  - intros x t. rewrite rin_get_chg. destruct (mem x names && mem t tgts); [lia|]. specialize (IGr x t). lia.
  - intros Hc. discriminate.
  - exact IW.
Qed.

(* ================= a successful run ================= *)
Lemma run_FInv2 b g k m : FInv2 c b g -> nth_error (cluster (sch (fs g))) k = Some m ->
  FInv2 c b {| fs := frun c k (fs g); wd := filter (fun p => negb (wd_key (m_job m) (m_tgt m) p)) (wd g) |}.
Proof.
  intros I Enth. unfold frun. rewrite Enth.
  destruct I as [Isc Iex Isg Inq Iin Ib Isto Imsg Irid IA IB IC ID IT IN IU IGb IGs IGr I0 IW].
  set (f := fs g) in *. set (s := sch f) in *. set (x := m_job m). set (t := m_tgt m). set (r := m_rid m).
  pose proof Isc as (Hl & Iq & Id & Ia).
  assert (Hm : In m (cluster s)) by (apply (nth_error_In _ _ Enth)).
  assert (Un : units s = map msg_unit (cluster s)) by (unfold units; rewrite Iin, app_nil_r; reflexivity).
  assert (Hd : In t (doing (getn (ns s) x))).
  { apply Iex. rewrite Un. apply in_map_iff. exists m. split; [reflexivity|exact Hm]. }
  assert (Px : pendp s x t) by (right; exact Hd).
  destruct (IT x t Px) as (Hx & Ht & Hv).
  assert (Hr : (b < r)%Z) by (apply Imsg; exact Hm).
  assert (Hc : 0 < ctr f).
  { destruct (Nat.eq_dec (ctr f) 0) as [Z|Z]; [|lia]. destruct (I0 Z) as [_ N]. exfalso. apply (N x t Px). }
  assert (NF : ~ fresh b (sto f) t x) by (intros Fr; destruct (IC x t Fr) as [N _]; contradiction).
  assert (NA : forall a, In a (anc (gi C x)) -> ~ pendp s a t) by (intros a Ha; apply (IB x t a Hd Ha)).
  assert (TnA : t <> ALL) by (intros E; apply (ok_all c OK); rewrite <- E; exact Ht).
  assert (Hq : In x (que s)).
  { apply Iq. right. intros E. rewrite E in Hd. contradiction. }
  (* what the job loads is the latest stored content of every input *)
  assert (Ld : map (sload (sto f) r t) (ins (gi C x)) = map (latest (sto f) t) (ins (gi C x))).
  { apply map_ext_in. intros p Hp. apply (sload_latest (sto f) b r t p (IU t p) Hr). }
  rewrite Ld. rewrite (ok_outs c OK x Hx). cbn [fold_left write1].
  set (cx := CVal x t (base_of c (rin f) x t) (map (latest (sto f) t) (ins (gi C x)))).
  assert (Ecx : cx = lev c f t x x) by reflexivity.
  assert (New : cmem cx (blobs f) = false).
  { destruct (cmem cx (blobs f)) eqn:M; [|reflexivity]. exfalso. apply cmem_In in M. apply NF.
    apply (IN x t _ _ M). exact Hv. }
  rewrite New. cbn [negb app].
  set (vals := [(t, x, true)]).
  set (s1 := set_farm s (jobs s) (remove_nth k (cluster s)) (busy s) (workers s) (inflight s)).
  set (s2 := set_flags s1 (active s1) (paused s1) (Z.max r (stored s1))).
  assert (Hq2 : mem x (que s2) = true) by (apply mem_In; exact Hq).
  assert (Hl2 : length (ns s2) = n) by exact Hl.
  assert (Hv2 : vals <> []) by discriminate.
  assert (Ff : fb_consumers C vals = []) by (unfold fb_consumers; rewrite (ok_fb c OK); reflexivity).
  set (s' := fst (res C x t r Success vals s2)).
  assert (Cons : forall y, (y < n /\ consumer C x vals y) <-> (y < n /\ In x (ins (gi C y)))).
  { intros y. split.
    - intros [Hy [(_ & _ & i & Hi & [<-|[]])|Hf]]; [split; assumption|]. rewrite Ff in Hf. contradiction.
    - intros [Hy Hi]. split; [exact Hy|]. left. split; [apply (ok_kids c OK x y Hx Hy); exact Hi|].
      split; [|exists x; split; [exact Hi|left; reflexivity]].
      intros ->. destruct (ok_ins c OK x x Hx Hi) as (_ & L & _). lia. }
  assert (TA : forall y u, tgt_added C y (new_targets vals) u <-> u = t).
  { intros y u. unfold tgt_added. rewrite (ok_asp c OK). cbn. destruct t as [|t'] eqn:Et.
    - exfalso. apply TnA. reflexivity.
    - cbn. intuition. }
  assert (TD : forall y u, In u (todo (getn (ns s') y)) <->
                           In u (todo (getn (ns s) y)) \/ ((y < n /\ In x (ins (gi C y))) /\ u = t)).
  { intros y u. unfold s'. rewrite (success_todo C x t r vals s2 Hq2 Hl2 Hv2 y u). rewrite TA, <- Cons.
    change (ns s2) with (ns s). tauto. }
  assert (DG : forall y u, In u (doing (getn (ns s') y)) <-> In u (doing (getn (ns s) y)) /\ (y, u) <> (x, t)).
  { intros y u. unfold s'. rewrite (res_ns_doing C x t r Success vals s2 y Hq2 Hl2). cbn zeta.
    change (ns s2) with (ns s). destruct (Nat.eqb x y) eqn:E.
    - apply Nat.eqb_eq in E. subst y. assert (L : x <? length (ns s) = true) by (apply Nat.ltb_lt; rewrite Hl; exact Hx).
      rewrite L. cbn [andb]. assert (E0 : Nat.eqb t ALL = false) by (apply Nat.eqb_neq; exact TnA). rewrite E0.
      rewrite In_rem. split; [intros [A B]; split; [exact A|congruence]|intros [A B]; split; [exact A|congruence]].
    - cbn [andb]. apply Nat.eqb_neq in E. split; [intros A; split; [exact A|congruence]|tauto]. }
  destruct (res_success_farm C x t r vals s2 Hq2) as (Fc & Fi & Fs & Fj). fold s' in Fc, Fi, Fs, Fj.
  assert (NTx : ~ In t (todo (getn (ns s) x))) by (apply ID; exact Hd).
  assert (K1 : forall y, y < n -> In x (ins (gi C y)) -> In x (anc (gi C y)) /\ y <> x).
  { intros y Hy Hi. destruct (ok_ins c OK y x Hy Hi) as (_ & L & A). split; [exact A|]. intros ->. lia. }
  assert (PE : forall y u, pendp s' y u <->
                           (pendp s y u /\ (y, u) <> (x, t)) \/ ((y < n /\ In x (ins (gi C y))) /\ u = t)).
  { intros y u. unfold pendp. rewrite TD, DG. split.
    - intros [[H|H]|[H N]]; [left; split; [left; exact H|intros E; inversion E; subst; contradiction]|right; exact H|
                             left; split; [right; exact H|exact N]].
    - intros [[[H|H] N]|H]; [left; left; exact H|right; split; assumption|left; right; exact H]. }
  set (st' := sput (sto f) r t x cx).
  assert (L1 : forall u y, (u, y) <> (t, x) -> latest st' u y = latest (sto f) u y).
  { intros u y N. unfold latest, st'. rewrite shighest_sput_other by exact N. reflexivity. }
  assert (L2 : latest st' t x = cx).
  { unfold st'. apply latest_sput_same. intros e He K. destruct (Z_lt_dec (e_rid e) r) as [L|L]; [exact L|].
    exfalso. apply NF. exists e. split; [exact He|]. split; [exact K|]. lia. }
  assert (FR : forall u y, fresh b st' u y -> fresh b (sto f) u y \/ (u = t /\ y = x)).
  { intros u y (e & He & K & L). apply In_sput in He. destruct He as [[He _]|He].
    - left. exists e. auto.
    - right. subst e. apply same_key_iff in K. cbn in K. destruct K; auto. }
  assert (Sx : In x (ins (gi C x)) -> False).
  { intros H. destruct (ok_ins c OK x x Hx H) as (_ & L & _). lia. }
  assert (Bnd : forall y u, pendp s y u -> y < n) by (intros y u P; destruct (IT y u P) as [A _]; exact A).
  (* the state after the write *)
  set (f' := {| sch := s'; sto := st'; blobs := blobs f ++ [cx]; ctr := ctr f; rin := rin f |}).
  (* what a unit computes changes only for the consumers of x's value, on target t *)
  assert (LE : forall u y, ~ (u = t /\ In x (ins (gi C y))) -> lev c f' u y y = lev c f u y y).
  { intros u y N. unfold lev. cbn [sto rin f']. f_equal. apply map_ext_in. intros p Hp. apply L1.
    intros E. inversion E; subst. apply N. split; [reflexivity|exact Hp]. }
  assert (LV : forall y, In x (ins (gi C y)) -> hasver (ctr f) (lev c f' t y y) = true).
  { intros y Hi. unfold lev. cbn [hasver sto f']. apply orb_true_iff. right. apply existsb_exists.
    exists (latest st' t x). split; [apply in_map; exact Hi|]. rewrite L2, Ecx. exact Hv. }
  assert (WF : forall a u, wdp g a u -> (a, u) <> (x, t) ->
                 wd_has (filter (fun p => negb (wd_key x t p)) (wd g)) a u = true).
  { intros a u Wa Ne. apply wd_has_In in Wa. destruct Wa as (k0 & Hk). apply wd_has_In. exists k0.
    apply wd_filter_In. split; assumption. }
  change (FInv2 c b {| fs := f'; wd := filter (fun p => negb (wd_key x t p)) (wd g) |}).
  constructor; cbn [fs wd sch sto blobs ctr rin f'].
  - split; [|split; [|split]].
    + unfold s'. rewrite <- (rep_ns C 0 x t r Success vals s2). apply step_len. exact Hl2.
    + apply res_I_que; [exact Hl2|exact Iq].
    + apply res_I_do; [exact Hl2|]. destruct Id as [J D]. split; [exact J|exact D].
    + apply (I_aspd_ok c OK).
  - intros y u. rewrite DG. unfold units. rewrite Fi, Fc. cbn [inflight cluster set_flags set_farm s1 s2].
    rewrite Iin. cbn [map]. rewrite app_nil_r.
    destruct (remove_nth_map_nodup msg_unit (cluster s) k m ltac:(rewrite <- Un; exact Isg) Enth) as [_ R].
    rewrite R. rewrite <- Un. rewrite <- (Iex y u). reflexivity.
  - unfold single, units. rewrite Fi, Fc. cbn [inflight cluster set_flags set_farm s1 s2].
    rewrite Iin. cbn [map]. rewrite app_nil_r.
    destruct (remove_nth_map_nodup msg_unit (cluster s) k m ltac:(rewrite <- Un; exact Isg) Enth) as [R _]. exact R.
  - destruct (step_rep_fields C 0 x t r Success vals s2) as [Eq _]. unfold s'. rewrite <- Eq.
    apply step_que_nodup. exact Inq.
  - rewrite Fi. exact Iin.
  - rewrite Fs. cbn [stored set_flags s2 s1 set_farm]. lia.
  - intros e He. rewrite Fs. cbn [stored set_flags s2 s1 set_farm]. apply In_sput in He.
    destruct He as [[He _]|He]; [specialize (Isto e He); lia|subst e; cbn; lia].
  - intros m0 Hm0. rewrite Fc in Hm0. cbn [cluster set_flags s2 s1 set_farm] in Hm0.
    apply Imsg. apply (In_remove_nth _ _ _ Hm0).
  - intros y u Hu.
    destruct (res_success_rid C x t r vals s2 y Hq2 Hl2 Hv2 Ff) as [R1 R2]. fold s' in R1, R2.
    destruct (lt_dec y n) as [Hy|Hy]; [destruct (in_dec Nat.eq_dec x (ins (gi C y))) as [Hi|Hi]|].
    + rewrite R1 by (apply Cons; split; assumption). exact Hr.
    + rewrite R2 by (intros H; apply Cons in H; destruct H; contradiction).
      apply TD in Hu. destruct Hu as [Hu|[[_ Hu] _]]; [|contradiction]. apply (Irid y u Hu).
    + rewrite R2 by (intros H; apply Cons in H; destruct H; contradiction).
      apply TD in Hu. destruct Hu as [Hu|[[Hu _] _]]; [|contradiction]. apply (Irid y u Hu).
  - (* A *)
    intros _ y u Hy Hu St. unfold lstale in St. cbn [sto f'] in St.
    destruct (Nat.eq_dec u t) as [->|Nu]; [destruct (in_dec Nat.eq_dec x (ins (gi C y))) as [Hi|Hi]|].
    + exists y. split; [constructor|]. left. apply PE. right. auto.
    + destruct (Nat.eq_dec y x) as [->|Ny].
      * exfalso. apply St. rewrite L2. rewrite LE by tauto. exact Ecx.
      * rewrite L1 in St by congruence. rewrite LE in St by tauto.
        destruct (IA Hc y t Hy Hu St) as (a & Ra & Pa).
        destruct (Nat.eq_dec a x) as [->|Na].
        -- (* the unit that has just run: its consumer on the way to y is pending now *)
           destruct (reach_first C x y Ra) as [E|(z & Hz & Rz)]; [congruence|].
           exists z. split; [exact Rz|]. left. apply PE. right. split; [|reflexivity]. split; [|exact Hz].
           apply (reach_bound z y Rz Hy).
        -- exists a. split; [exact Ra|]. destruct Pa as [P|P].
           ++ left. apply PE. left. split; [exact P|congruence].
           ++ right. apply WF; [exact P|congruence].
    + rewrite L1 in St by congruence. rewrite LE in St by tauto.
      destruct (IA Hc y u Hy Hu St) as (a & Ra & Pa). exists a. split; [exact Ra|]. destruct Pa as [P|P].
      * left. apply PE. left. split; [exact P|congruence].
      * right. apply WF; [exact P|congruence].
  - (* B *)
    intros y u a Hdy Ha P. apply DG in Hdy. destruct Hdy as [Hdy _]. apply PE in P.
    destruct P as [[P _]|[[Hay Hia] ->]]; [exact (IB y u a Hdy Ha P)|].
    assert (Hy : y < n) by (apply (Bnd y t); right; exact Hdy).
    destruct (K1 a Hay Hia) as [Xa _]. destruct (ok_anc c OK y a Hy Ha) as (_ & _ & Tr).
    apply (IB y t x Hdy (Tr x Xa)). exact Px.
  - (* C *)
    intros y u Fr. apply FR in Fr. destruct Fr as [Fr|[-> ->]].
    + destruct (IC y u Fr) as [N1 N2]. split.
      * intros P. apply PE in P. destruct P as [[P _]|[[Hy Hi] ->]]; [contradiction|].
        destruct (K1 y Hy Hi) as [Xa _]. apply (N2 x Xa). exact Px.
      * intros a Ha P. apply PE in P. destruct P as [[P _]|[[Hay Hia] ->]]; [exact (N2 a Ha P)|].
        destruct (lt_dec y n) as [Hy|Hy].
        -- destruct (K1 a Hay Hia) as [Xa _]. destruct (ok_anc c OK y a Hy Ha) as (_ & _ & Tr).
           apply (N2 x (Tr x Xa)). exact Px.
        -- unfold gi in Ha. rewrite nth_overflow in Ha by (unfold nnodes in Hy; lia). destruct Ha.
    + split.
      * intros P. apply PE in P. destruct P as [[_ N]|[[_ Hi] _]]; [congruence|exact (Sx Hi)].
      * intros a Ha P. apply PE in P. destruct P as [[P _]|[[Hay Hia] _]]; [exact (NA a Ha P)|].
        destruct (K1 a Hay Hia) as [Xa _]. destruct (ok_anc c OK x a Hx Ha) as (_ & _ & Tr).
        apply (ok_anc_irrefl c OK x Hx). apply Tr. exact Xa.
  - (* D *)
    intros y u Hdy Hty. apply DG in Hdy. destruct Hdy as [Hdy Ne]. apply TD in Hty.
    destruct Hty as [Hty|[[Hy Hi] ->]]; [exact (ID y u Hdy Hty)|].
    destruct (K1 y Hy Hi) as [Xa _]. apply (IB y t x Hdy Xa). exact Px.
  - (* T *)
    intros y u P. apply PE in P. destruct P as [[P Ne]|[[Hy Hi] ->]].
    + destruct (IT y u P) as (Hy & Hu & Hvy). split; [exact Hy|]. split; [exact Hu|].
      destruct (Nat.eq_dec u t) as [->|Nu]; [destruct (in_dec Nat.eq_dec x (ins (gi C y))) as [Hi|Hi]|].
      * apply LV. exact Hi.
      * rewrite LE by tauto. exact Hvy.
      * rewrite LE by tauto. exact Hvy.
    + split; [exact Hy|]. split; [exact Ht|]. apply LV. exact Hi.
  - (* N *)
    intros y u k0 i Hb Hh. apply in_app_or in Hb. destruct Hb as [Hb|[Hb|[]]].
    + apply fresh_sput; [exact Hr|]. apply (IN y u k0 i Hb Hh).
    + unfold cx in Hb. inversion Hb; subst.
      exists {| e_rid := r; e_tgt := t; e_val := x; e_con := cx |}. split; [apply In_sput; right; reflexivity|].
      split; [apply same_key_iff; split; reflexivity|exact Hr].
  - (* U *)
    intros u v e1 e2 H1 H2 K1' K2' G1 G2. apply In_sput in H1. apply In_sput in H2.
    destruct H1 as [[H1 _]|H1]; destruct H2 as [[H2 _]|H2].
    + apply (IU u v e1 e2); assumption.
    + exfalso. subst e2. apply same_key_iff in K2'. cbn in K2'. destruct K2'; subst.
      apply NF. exists e1. auto.
    + exfalso. subst e1. apply same_key_iff in K1'. cbn in K1'. destruct K1'; subst.
      apply NF. exists e2. auto.
    + congruence.
  - intros x' k0 Hb Hk. apply in_app_or in Hb. destruct Hb as [Hb|[Hb|[]]]; [apply (IGb x' k0 Hb Hk)|].
    subst x'. rewrite Ecx. apply (lev_ver_bound c f IGr IGs k0 Hk).
  - intros e k0 He Hk. apply In_sput in He. destruct He as [[He _]|He]; [apply (IGs e k0 He Hk)|].
    subst e. cbn [e_con]. rewrite Ecx. apply (lev_ver_bound c f IGr IGs k0 Hk).
  - exact IGr.
  - intros Z. lia.
  - (* W *)
    intros y u k0 Hk. apply wd_filter_In in Hk. destruct Hk as [Hk Ne].
    destruct (IW y u k0 Hk) as [Hy E]. split; [exact Hy|]. rewrite E. rewrite (ok_outs c OK y Hy). cbn [map].
    rewrite L1; [reflexivity|]. intros E'. inversion E'; subst. apply Ne. reflexivity.
Qed.

(* ================= a FAILED run ================= *)
Lemma fail_FInv2 b g k m : FInv2 c b g -> nth_error (cluster (sch (fs g))) k = Some m ->
  FInv2 c b {| fs := ffail c k (fs g);
               wd := fold_left (wd_add c (sto (fs g)) (m_tgt m)) (descend C n (m_job m)) (wd g) |}.
Proof.
  intros I Enth. unfold ffail. rewrite Enth.
  destruct I as [Isc Iex Isg Inq Iin Ib Isto Imsg Irid IA IB IC ID IT IN IU IGb IGs IGr I0 IW].
  set (f := fs g) in *. set (s := sch f) in *. set (x := m_job m). set (t := m_tgt m). set (r := m_rid m).
  set (DD := descend C n x).
  pose proof Isc as (Hl & Iq & Id & Ia).
  assert (Hm : In m (cluster s)) by (apply (nth_error_In _ _ Enth)).
  assert (Un : units s = map msg_unit (cluster s)) by (unfold units; rewrite Iin, app_nil_r; reflexivity).
  assert (Hd : In t (doing (getn (ns s) x))).
  { apply Iex. rewrite Un. apply in_map_iff. exists m. split; [reflexivity|exact Hm]. }
  assert (Px : pendp s x t) by (right; exact Hd).
  destruct (IT x t Px) as (Hx & Ht & Hv).
  assert (Hc : 0 < ctr f).
  { destruct (Nat.eq_dec (ctr f) 0) as [Z|Z]; [|lia]. destruct (I0 Z) as [_ N]. exfalso. apply (N x t Px). }
  assert (TnA : t <> ALL) by (intros E; apply (ok_all c OK); rewrite <- E; exact Ht).
  assert (Hq : In x (que s)).
  { apply Iq. right. intros E. rewrite E in Hd. contradiction. }
  set (s1 := set_farm s (jobs s) (remove_nth k (cluster s)) (busy s) (workers s) (inflight s)).
  assert (Hq1 : mem x (que s1) = true) by (apply mem_In; exact Hq).
  assert (Hl1 : length (ns s1) = n) by exact Hl.
  assert (Ho : Failure <> Success) by discriminate.
  set (s' := fst (res C x t r Failure [] s1)).
  pose proof (ns_res_failed C x t r Failure [] s1 Ho Hq1) as NS. fold s' in NS. cbn zeta in NS.
  change (ns s1) with (ns s) in NS.
  assert (XD : mem x DD = true) by (apply mem_In; apply descend_self).
  assert (Lx : x <? length (ns s) = true) by (apply Nat.ltb_lt; rewrite Hl; exact Hx).
  assert (E0 : Nat.eqb t ALL = false) by (apply Nat.eqb_neq; exact TnA).
  assert (TD : forall y u, In u (todo (getn (ns s') y)) <-> In u (todo (getn (ns s) y)) /\ ~ (u = t /\ In y DD)).
  { intros y u. rewrite NS. destruct (Nat.eqb x y) eqn:E.
    - apply Nat.eqb_eq in E. subst y. rewrite Lx. cbn [andb]. fold DD. rewrite XD. cbn [pz cz todo].
      rewrite In_rem. split; [intros [A B]; split; [exact A|tauto]|].
      intros [A B]. split; [exact A|]. intros ->. apply B. split; [reflexivity|apply mem_In; exact XD].
    - cbn [andb]. fold DD. destruct (mem y DD) eqn:M.
      + cbn [pz todo]. rewrite In_rem. apply mem_In in M. split; [intros [A B]; split; [exact A|tauto]|].
        intros [A B]. split; [exact A|]. intros ->. apply B. auto.
      + apply mem_false_In in M. tauto. }
  assert (DG : forall y u, In u (doing (getn (ns s') y)) <-> In u (doing (getn (ns s) y)) /\ ~ (u = t /\ In y DD)).
  { intros y u. rewrite NS. destruct (Nat.eqb x y) eqn:E.
    - apply Nat.eqb_eq in E. subst y. rewrite Lx. cbn [andb]. fold DD. rewrite XD. cbn [pz cz doing]. rewrite E0.
      rewrite !In_rem. split; [intros [[A _] B]; split; [exact A|tauto]|].
      intros [A B]. assert (u <> t) by (intros ->; apply B; split; [reflexivity|apply mem_In; exact XD]). tauto.
    - cbn [andb]. fold DD. destruct (mem y DD) eqn:M.
      + cbn [pz doing]. rewrite In_rem. apply mem_In in M. split; [intros [A B]; split; [exact A|tauto]|].
        intros [A B]. split; [exact A|]. intros ->. apply B. auto.
      + apply mem_false_In in M. tauto. }
  assert (RID : forall y, rid (getn (ns s') y) = rid (getn (ns s) y)).
  { intros y. rewrite NS. destruct (Nat.eqb x y && (x <? length (ns s))) eqn:B; destruct (mem y (descend C n x));
    cbn [pz cz rid]; try reflexivity; apply andb_true_iff in B; destruct B as [B _]; apply Nat.eqb_eq in B; subst y;
    reflexivity. }
  assert (PE : forall y u, pendp s' y u <-> pendp s y u /\ ~ (u = t /\ In y DD)).
  { intros y u. unfold pendp. rewrite TD, DG. tauto. }
  assert (DA : forall y, In y DD -> y < n /\ (y = x \/ In x (anc (gi C y)))).
  { intros y Hy. apply (desc_anc n x y Hx Hy). }
  (* nothing below x is executing the target *)
  assert (ND : forall y, In y DD -> y <> x -> ~ In t (doing (getn (ns s) y))).
  { intros y Hy Ne Hdy. destruct (DA y Hy) as (_ & [E|A]); [congruence|]. apply (IB y t x Hdy A). exact Px. }
  destruct (frame_farm C x t r Failure [] s1 Ho Hq1) as (Fc & _ & Fj & _ & _ & _ & Fs & _). fold s' in Fc, Fj, Fs.
  assert (Fi : inflight s' = inflight s).
  { unfold s'. rewrite (res_failed_eq C x t r Failure [] s1 Ho Hq1). cbn [fst]. unfold purge. cbn [inflight set_ns].
    match goal with |- context [complete C x t ?s0] => destruct (farm_complete C x t s0) as (_ & _ & _ & G & _); rewrite G end.
    reflexivity. }
  constructor; cbn [fs wd sch sto blobs ctr rin]; fold f s x t r s1 s' DD.
  - split; [|split; [|split]].
    + unfold s'. rewrite <- (rep_ns C 0 x t r Failure [] s1). apply step_len. exact Hl1.
    + apply res_I_que; [exact Hl1|exact Iq].
    + apply res_I_do; [exact Hl1|]. destruct Id as [J D]. split; [exact J|exact D].
    + apply (I_aspd_ok c OK).
  - (* exact: only the message of (x, t) left, and only x was executing t among the purged *)
    intros y u. rewrite DG. unfold units. rewrite Fi, Fc. cbn [cluster s1 set_farm].
    rewrite Iin. cbn [map]. rewrite app_nil_r.
    destruct (remove_nth_map_nodup msg_unit (cluster s) k m ltac:(rewrite <- Un; exact Isg) Enth) as [_ R].
    rewrite R. rewrite <- Un. rewrite <- (Iex y u). change (msg_unit m) with (x, t). split.
    + intros [A B]. split; [exact A|]. intros E. inversion E; subst. apply B. split; [reflexivity|apply mem_In; exact XD].
    + intros [A B]. split; [exact A|]. intros [-> Hy]. destruct (Nat.eq_dec y x) as [->|Ne]; [congruence|].
      exact (ND y Hy Ne A).
  - unfold single, units. rewrite Fi, Fc. cbn [cluster s1 set_farm].
    rewrite Iin. cbn [map]. rewrite app_nil_r.
    destruct (remove_nth_map_nodup msg_unit (cluster s) k m ltac:(rewrite <- Un; exact Isg) Enth) as [R _]. exact R.
  - destruct (step_rep_fields C 0 x t r Failure [] s1) as [Eq _]. unfold s'. rewrite <- Eq.
    apply step_que_nodup. exact Inq.
  - rewrite Fi. exact Iin.
  - rewrite Fs. exact Ib.
  - intros e He. rewrite Fs. apply Isto. exact He.
  - intros m0 Hm0. rewrite Fc in Hm0. cbn [cluster s1 set_farm] in Hm0. apply Imsg. apply (In_remove_nth _ _ _ Hm0).
  - intros y u Hu. rewrite RID. apply TD in Hu. destruct Hu as [Hu _]. apply (Irid y u Hu).
  - (* A: what the purge withdrew is recorded *)
    intros _ y u Hy Hu St. destruct (IA Hc y u Hy Hu St) as (a & Ra & Pa). exists a. split; [exact Ra|].
    destruct Pa as [P|P].
    + destruct (Nat.eq_dec u t) as [->|Nu]; [destruct (in_dec Nat.eq_dec a DD) as [Ha|Ha]|].
      * right. unfold wdp. cbn [wd]. apply wd_fold_adds. exact Ha.
      * left. apply PE. split; [exact P|tauto].
      * left. apply PE. split; [exact P|tauto].
    + right. unfold wdp. cbn [wd]. apply wd_fold_mono. exact P.
  - intros y u a Hdy Ha P. apply DG in Hdy. destruct Hdy as [Hdy _]. apply PE in P. destruct P as [P _].
    exact (IB y u a Hdy Ha P).
  - intros y u Fr. destruct (IC y u Fr) as [N1 N2]. split.
    + intros P. apply PE in P. destruct P as [P _]. contradiction.
    + intros a Ha P. apply PE in P. destruct P as [P _]. exact (N2 a Ha P).
  - intros y u Hdy Hty. apply DG in Hdy. apply TD in Hty. destruct Hdy as [Hdy _]. destruct Hty as [Hty _].
    exact (ID y u Hdy Hty).
  - intros y u P. apply PE in P. destruct P as [P _]. exact (IT y u P).
  - exact IN.
  - exact IU.
  - exact IGb.
  - exact IGs.
  - exact IGr.
  - intros Z. lia.
  - intros y u k0 Hk. apply wd_fold_In in Hk. destruct Hk as [Hk|(z & Hz & E)]; [exact (IW y u k0 Hk)|].
    inversion E; subst. split; [apply (DA z Hz)|reflexivity].
Qed.
End F2.
