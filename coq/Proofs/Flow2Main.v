(* C02 end state WITH worker failures: histories, and the end-state theorem.
   Model/Flow2.v, Proofs/Flow2Inv.v. *)
From Coq Require Import List Arith ZArith Bool Lia Permutation.
From DV Require Import Model.Sched Model.Flow Model.Flow2 Proofs.SchedLib Proofs.SchedOrg Proofs.SchedC02
     Proofs.SchedC05 Proofs.SchedC11 Proofs.SchedBatch Proofs.SchedExact Proofs.FlowProofs Proofs.FlowInv
     Proofs.FlowSteps Proofs.FlowMain Proofs.Flow2Inv.
Import ListNotations.

(* ---- the extended model run on the events of Flow.v IS Flow.v; its ghost stays empty ---- *)
Lemma fstep2_embed c g e : fs (fstep2 c g (F1 e)) = fstep c (fs g) e.
Proof.
  destruct e as [nm tg| |k]; cbn [fstep2 fs fstep]; try reflexivity.
  destruct (nth_error (cluster (sch (fs g))) k) eqn:E; cbn [fs]; [reflexivity|].
  unfold frun. rewrite E. reflexivity.
Qed.

Lemma frun_all2_embed c es : forall g, fs (frun_all2 c g (map F1 es)) = frun_all c (fs g) es.
Proof.
  induction es as [|e es IH]; intros g; cbn [map frun_all2 frun_all fold_left]; [reflexivity|].
  change (fold_left (fstep2 c) (map F1 es) (fstep2 c g (F1 e))) with (frun_all2 c (fstep2 c g (F1 e)) (map F1 es)).
  rewrite IH, fstep2_embed. reflexivity.
Qed.

Lemma fstep2_nofail_wd c g e : wd g = [] -> wd (fstep2 c g (F1 e)) = [].
Proof.
  intros W. destruct e as [nm tg| |k]; cbn [fstep2 wd]; try exact W.
  destruct (nth_error (cluster (sch (fs g))) k); cbn [wd]; [rewrite W; reflexivity|exact W].
Qed.

Lemma frun_all2_nofail_wd c es : forall g, wd g = [] -> wd (frun_all2 c g (map F1 es)) = [].
Proof.
  induction es as [|e es IH]; intros g W; cbn [map frun_all2 fold_left]; [exact W|].
  apply IH. apply fstep2_nofail_wd. exact W.
Qed.

Section Main2.
Variable c : fcfg.
Hypothesis OK : flow_ok c = true.
Local Notation C := (fc c).
Local Notation n := (nnodes (fc c)).

(* histories whose change events do not overlap (as FlowMain.hist_ok); ticks,
   successful runs and FAILED runs of any waiting message in any order *)
Fixpoint hist_ok2 (g : fstate2) (es : list fev2) : bool :=
  match es with
  | [] => true
  | e :: r =>
      match e with
      | F1 (FChg names tgts) => quiescent c (fs g) && chg_ok c (fs g) names tgts
      | _ => true
      end && hist_ok2 (fstep2 c g e) r
  end.

Lemma hist_ok2_embed es : forall g, hist_ok2 g (map F1 es) = hist_ok c (fs g) es.
Proof.
  induction es as [|e es IH]; intros g; cbn [map hist_ok2 hist_ok]; [reflexivity|].
  rewrite IH, fstep2_embed. destruct e; reflexivity.
Qed.

Lemma init_FInv2 : FInv2 c 0 (finit2 c).
Proof.
  pose proof (init_FInv c) as I.
  destruct I as [Isc Iex Isg Inq Iin Ib Isto Imsg Irid IA IB IC ID IT IN IU IGb IGr I0].
  constructor; cbn [finit2 fs wd]; try assumption.
  - intros H. cbn in H. lia.
  - intros x t P. destruct (I0 eq_refl) as [_ N]. exfalso. exact (N x t P).
  - intros e k [].
  - intros x t k [].
Qed.

Lemma step_FInv2 b g e : FInv2 c b g ->
  match e with F1 (FChg names tgts) => quiescent c (fs g) = true /\ chg_ok c (fs g) names tgts = true | _ => True end ->
  exists b', FInv2 c b' (fstep2 c g e).
Proof.
  intros I H. destruct e as [[names tgts| |k]|k]; cbn [fstep2 fstep].
  - destruct H as [Q K]. exists (stored (sch (fs g))). apply (chg_FInv2 c OK b); assumption.
  - exists b. apply (tick_FInv2 c OK). exact I.
  - exists b. destruct (nth_error (cluster (sch (fs g))) k) as [m|] eqn:E.
    + apply (run_FInv2 c OK); assumption.
    + destruct g. exact I.
  - exists b. destruct (nth_error (cluster (sch (fs g))) k) as [m|] eqn:E.
    + apply (fail_FInv2 c OK); assumption.
    + destruct g. exact I.
Qed.

Lemma hist_FInv2 es : forall g b, FInv2 c b g -> hist_ok2 g es = true -> exists b', FInv2 c b' (frun_all2 c g es).
Proof.
  induction es as [|e es IH]; intros g b I H; cbn [hist_ok2 frun_all2 fold_left] in *; [exists b; exact I|].
  apply andb_true_iff in H. destruct H as [H1 H2].
  destruct (step_FInv2 b g e I) as [b1 I1].
  { destruct e as [[names tgts| |k]|k]; try exact Logic.I. apply andb_true_iff in H1. exact H1. }
  apply (IH _ b1 I1 H2).
Qed.

(* ---- the end state ---- *)
(* (1) at quiescence a unit either holds what its algorithm computes from the
       latest content of its inputs, or something upstream of it is withdrawn *)
Lemma quiescent_local b g : FInv2 c b g -> 0 < ctr (fs g) -> quiescent c (fs g) = true ->
  forall x t, x < n -> In t (gtargets C) ->
    latest (sto (fs g)) t x = lev c (fs g) t x x \/ exists a, reach C a x /\ wd_has (wd g) a t = true.
Proof.
  intros I Hc Q x t Hx Ht. destruct (j_sched c b g I) as (Hl & _).
  destruct (quiescent_spec c (fs g) Hl Q) as (_ & _ & Np).
  destruct (content_eq_dec (latest (sto (fs g)) t x) (lev c (fs g) t x x)) as [E|E]; [left; exact E|]. right.
  destruct (j_A c b g I Hc x t Hx Ht E) as (a & Ra & [P|P]); [exfalso; exact (Np a t P)|].
  exists a. split; [exact Ra|exact P].
Qed.

(* (2) a unit with nothing withdrawn upstream holds the from-scratch value *)
Lemma quiescent_clean b g : FInv2 c b g -> 0 < ctr (fs g) -> quiescent c (fs g) = true ->
  forall k x t, lvl (gi C x) < k -> x < n -> In t (gtargets C) ->
    (forall a, reach C a x -> wd_has (wd g) a t = false) ->
    latest (sto (fs g)) t x = ev c (rin (fs g)) t x.
Proof.
  intros I Hc Q. induction k as [|k IH]; intros x t Hk Hx Ht Cl; [lia|].
  destruct (quiescent_local b g I Hc Q x t Hx Ht) as [E|(a & Ra & Wa)].
  - rewrite E. unfold lev. rewrite (ev_unfold c OK (rin (fs g)) t x Hx). f_equal.
    apply map_ext_in. intros p Hp. destruct (ok_ins c OK x p Hx Hp) as (Pn & Pl & _).
    apply IH; [lia|exact Pn|exact Ht|]. intros a Ra. apply Cl. apply (reach_step C a p x); assumption.
  - rewrite (Cl a Ra) in Wa. discriminate.
Qed.

Theorem endstate_failures es :
  hist_ok2 (finit2 c) es = true ->
  let g := frun_all2 c (finit2 c) es in
  0 < ctr (fs g) -> quiescent c (fs g) = true ->
  (forall x t, x < n -> In t (gtargets C) ->
     (forall a, reach C a x -> wd_has (wd g) a t = false) ->
     latest (sto (fs g)) t x = lookup (eval_topo c (rin (fs g)) t) x) /\
  (forall x t, x < n -> In t (gtargets C) ->
     latest (sto (fs g)) t x = lev c (fs g) t x x \/ exists a, reach C a x /\ wd_has (wd g) a t = true) /\
  (forall x t k, In (x, t, k) (wd g) -> k = map (latest (sto (fs g)) t) (outs c x)).
Proof.
  intros H g Hc Q. destruct (hist_FInv2 es (finit2 c) 0%Z init_FInv2 H) as [b' I]. fold g in I.
  split; [|split].
  - intros x t Hx Ht Cl. rewrite (eval_topo_ev c OK (rin (fs g)) t x Hx).
    apply (quiescent_clean b' g I Hc Q (S (lvl (gi C x))) x t); auto.
  - intros x t Hx Ht. apply (quiescent_local b' g I Hc Q x t Hx Ht).
  - intros x t k Hk. destruct (j_W c b' g I x t k Hk) as [_ E]. exact E.
Qed.

(* no failed run in the history: nothing is withdrawn and the statement is
   that of FlowMain.endstate_nonoverlap *)
Corollary endstate_failures_none es :
  hist_ok c (finit c) es = true ->
  let g := frun_all2 c (finit2 c) (map F1 es) in
  0 < ctr (fs g) -> quiescent c (fs g) = true ->
  fs g = frun_all c (finit c) es /\ wd g = [] /\
  forall x t, x < n -> In t (gtargets C) -> latest (sto (fs g)) t x = lookup (eval_topo c (rin (fs g)) t) x.
Proof.
  intros H g Hc Q. split; [apply (frun_all2_embed c es (finit2 c))|].
  assert (W : wd g = []) by (apply frun_all2_nofail_wd; reflexivity). split; [exact W|].
  assert (H2 : hist_ok2 (finit2 c) (map F1 es) = true) by (rewrite hist_ok2_embed; exact H).
  destruct (endstate_failures (map F1 es) H2 Hc Q) as (A & _). fold g in A.
  intros x t Hx Ht. apply A; [exact Hx|exact Ht|]. intros a _. rewrite W. reflexivity.
Qed.
End Main2.
