(* C02 end state, WIDER CLASS of engines: algorithms with SEVERAL values, a child
   declaring only some of them (the model is Model/Flow2.v unchanged: worker
   failures included).  The invariant of Proofs/Flow2Inv.v restated with values
   distinct from algorithms (owner c v = the algorithm that produces value v). *)
From Coq Require Import List Arith ZArith Bool Lia Permutation.
From DV Require Import Model.Sched Model.Flow Model.Flow2 Proofs.SchedLib Proofs.SchedOrg Proofs.SchedC02
     Proofs.SchedC05 Proofs.SchedC11 Proofs.SchedBatch Proofs.SchedExact Proofs.FlowProofs Proofs.FlowInv
     Proofs.FlowSteps Proofs.Flow2Inv.
Import ListNotations.

(* ================= the class ================= *)
Fixpoint nodupb (l : list nat) : bool :=
  match l with [] => true | a :: r => negb (mem a r) && nodupb r end.

Lemma nodupb_NoDup l : nodupb l = true -> NoDup l.
Proof.
  induction l as [|a l IH]; cbn [nodupb]; intros H; [constructor|].
  apply andb_true_iff in H. destruct H as [H1 H2]. constructor; [|apply IH; exact H2].
  apply negb_true_iff in H1. apply mem_false_In. exact H1.
Qed.

(* task-only, no feedback; every algorithm produces >= 1 value, no value twice,
   no value produced by two algorithms; a declared input is a value of an
   algorithm of a lower level that is in the `ancestry`; children = the
   algorithms declaring ONE OR MORE of the node's values; ancestry transitive;
   ALL is not a target *)
Definition node_ok_mv (c : fcfg) (x : node) : bool :=
  let C := fc c in let n := nnodes C in
  match outs c x with [] => false | _ :: _ => true end
  && nodupb (outs c x)
  && forallb (fun v => Nat.eqb (owner c v) x) (outs c x)
  && fac_eqb (gfac (gi C x)) Task
  && forallb (fun i => let p := owner c i in
                       mem i (outs c p) && (p <? n) && (lvl (gi C p) <? lvl (gi C x)) && mem p (anc (gi C x)))
             (ins (gi C x))
  && forallb (fun a => (a <? n) && (lvl (gi C a) <? lvl (gi C x))
                       && forallb (fun a' => mem a' (anc (gi C x))) (anc (gi C a))) (anc (gi C x))
  && forallb (fun y => Bool.eqb (mem y (kids (gi C x))) (existsb (fun i => mem i (outs c x)) (ins (gi C y)))) (seq 0 n)
  && forallb (fun y => y <? n) (kids (gi C x)).

Definition flow_ok_mv (c : fcfg) : bool :=
  let C := fc c in
  forallb (node_ok_mv c) (seq 0 (nnodes C))
  && match gfb C with [] => true | _ :: _ => false end
  && negb (mem ALL (gtargets C)).

(* p produces a value that x declares as input *)
Definition inp (c : fcfg) (x p : node) : Prop := exists i, In i (ins (gi (fc c) x)) /\ owner c i = p.

Inductive reachv (c : fcfg) : node -> node -> Prop :=
| reachv_refl x : reachv c x x
| reachv_step a p x : reachv c a p -> inp c x p -> reachv c a x.

(* some value of the unit is not what the algorithm computes from the latest inputs *)
Definition lstalev (c : fcfg) (f : fstate) (t : tgt) (x : node) : Prop :=
  exists v, In v (outs c x) /\ latest (sto f) t v <> lev c f t x v.

Lemma reachv_first c a y : reachv c a y -> a = y \/ exists z, inp c z a /\ reachv c z y.
Proof.
  induction 1 as [x|a p x R IH Hp]; [left; reflexivity|]. right. destruct IH as [->|(z & Hz & Rz)].
  - exists x. split; [exact Hp|constructor].
  - exists z. split; [exact Hz|]. apply (reachv_step c z p x); assumption.
Qed.

Lemma forall_or_exists {A} (P : A -> Prop) (dec : forall a, {P a} + {~ P a}) (l : list A) :
  (forall a, In a l -> P a) \/ (exists a, In a l /\ ~ P a).
Proof.
  induction l as [|a l IH]; [left; intros a []|].
  destruct (dec a) as [Pa|Na]; [|right; exists a; split; [left; reflexivity|exact Na]].
  destruct IH as [IH|(b & Hb & Nb)]; [|right; exists b; split; [right; exact Hb|exact Nb]].
  left. intros b [<-|Hb]; [exact Pa|apply IH; exact Hb].
Qed.

(* ================= several writes of one run ================= *)
Definition sputs (st : store) (r : Z) (t : tgt) (vs : list vname) (g : vname -> content) : store :=
  fold_left (fun st v => sput st r t v (g v)) vs st.

Lemma sputs_cons st r t v vs g : sputs st r t (v :: vs) g = sputs (sput st r t v (g v)) r t vs g.
Proof. reflexivity. Qed.

Lemma In_sputs r t g : forall vs st e, In e (sputs st r t vs g) ->
  In e st \/ exists v, In v vs /\ e = {| e_rid := r; e_tgt := t; e_val := v; e_con := g v |}.
Proof.
  induction vs as [|w vs IH]; intros st e H; [left; exact H|]. rewrite sputs_cons in H.
  apply IH in H. destruct H as [H|(v & Hv & E)].
  - apply In_sput in H. destruct H as [[H _]|H]; [left; exact H|right; exists w; split; [left; reflexivity|exact H]].
  - right. exists v. split; [right; exact Hv|exact E].
Qed.

Lemma sputs_new_in r t g v : forall vs st,
  In {| e_rid := r; e_tgt := t; e_val := v; e_con := g v |} st \/ In v vs ->
  In {| e_rid := r; e_tgt := t; e_val := v; e_con := g v |} (sputs st r t vs g).
Proof.
  induction vs as [|w vs IH]; intros st H.
  - destruct H as [H|[]]. exact H.
  - rewrite sputs_cons. apply IH. destruct (Nat.eq_dec w v) as [->|Ne].
    + left. apply In_sput. right. reflexivity.
    + destruct H as [H|[H|H]]; [|congruence|right; exact H]. left. apply In_sput. left. split; [exact H|].
      unfold exact_key. cbn. apply andb_false_iff. right. unfold same_key. cbn. apply andb_false_iff. right.
      apply Nat.eqb_neq. congruence.
Qed.

Lemma latest_sputs_other r t g u w : forall vs st, ~ (u = t /\ In w vs) ->
  latest (sputs st r t vs g) u w = latest st u w.
Proof.
  induction vs as [|v vs IH]; intros st N; [reflexivity|]. rewrite sputs_cons.
  rewrite IH by (intros [A B]; apply N; split; [exact A|right; exact B]).
  unfold latest. rewrite shighest_sput_other; [reflexivity|].
  intros E. inversion E; subst. apply N. split; [reflexivity|left; reflexivity].
Qed.

Lemma latest_sputs_same r t g v : forall vs st, NoDup vs -> In v vs ->
  (forall e, In e st -> same_key e t v = true -> (e_rid e < r)%Z) ->
  latest (sputs st r t vs g) t v = g v.
Proof.
  induction vs as [|w vs IH]; intros st ND Hv H; [destruct Hv|]. rewrite sputs_cons.
  inversion ND as [|? ? Nw NDr]; subst. destruct (Nat.eq_dec w v) as [->|Ne].
  - rewrite latest_sputs_other by tauto. apply latest_sput_same. exact H.
  - destruct Hv as [Hv|Hv]; [congruence|]. apply (IH (sput st r t w (g w)) NDr Hv).
    intros e He K. apply In_sput in He. destruct He as [[He _]|He]; [apply H; assumption|].
    subst e. apply same_key_iff in K. cbn in K. destruct K. congruence.
Qed.

Lemma fresh_sputs_mono b r t g u y : (b < r)%Z -> forall vs st, fresh b st u y -> fresh b (sputs st r t vs g) u y.
Proof.
  intros Hr. induction vs as [|w vs IH]; intros st F; [exact F|]. rewrite sputs_cons.
  apply IH. apply fresh_sput; assumption.
Qed.

Lemma write_fold r t base loaded : forall vs st bl vals,
  NoDup vs -> (forall v, In v vs -> cmem (CVal v t base loaded) bl = false) ->
  fold_left (write1 r t base loaded) vs (st, bl, vals) =
  (sputs st r t vs (fun v => CVal v t base loaded),
   bl ++ map (fun v => CVal v t base loaded) vs,
   vals ++ map (fun v => (t, v, true)) vs).
Proof.
  induction vs as [|v vs IH]; intros st bl vals ND H.
  - cbn [fold_left map]. rewrite !app_nil_r. reflexivity.
  - rewrite sputs_cons. cbn [fold_left map]. inversion ND as [|? ? Nv NDr]; subst. cbn [write1]. rewrite (H v (or_introl eq_refl)). cbn [negb].
    rewrite IH; [|exact NDr|].
    + rewrite <- !app_assoc. reflexivity.
    + intros w Hw. unfold cmem. rewrite existsb_app. fold (cmem (CVal w t base loaded) bl).
      rewrite (H w (or_intror Hw)). cbn [existsb orb]. rewrite orb_false_r.
      destruct (content_eqb (CVal w t base loaded) (CVal v t base loaded)) eqn:E; [|reflexivity].
      apply content_eqb_eq in E. inversion E; subst. contradiction.
Qed.

Lemma new_names_all t vs : new_names (map (fun v : vname => (t, v, true)) vs) = vs.
Proof.
  unfold new_names, news. induction vs as [|v vs IH]; [reflexivity|]. cbn [map filter snd fst]. f_equal. exact IH.
Qed.

Lemma news_all t vs : news (map (fun v : vname => (t, v, true)) vs) = map (fun v => (t, v, true)) vs.
Proof. unfold news. induction vs as [|v vs IH]; [reflexivity|]. cbn [map filter snd]. f_equal. exact IH. Qed.

Lemma fb_consumers_nil c vs : gfb c = [] -> fb_consumers c vs = [].
Proof.
  intros E. unfold fb_consumers. induction (new_names vs) as [|v l IH]; [reflexivity|].
  cbn [flat_map]. rewrite IH. unfold assoc. rewrite E. reflexivity.
Qed.

(* ================= the invariant ================= *)
Record FInv3 (c : fcfg) (b : Z) (g : fstate2) : Prop := {
  k_sched : SchedBatch.Inv (fc c) (sch (fs g));
  k_exact : exact (sch (fs g));
  k_single : single (sch (fs g));
  k_nq : NoDup (que (sch (fs g)));
  k_infl : inflight (sch (fs g)) = [];
  k_b : (b <= stored (sch (fs g)))%Z;
  k_sto : forall e, In e (sto (fs g)) -> (e_rid e <= stored (sch (fs g)))%Z;
  k_msg : forall m, In m (cluster (sch (fs g))) -> (b < m_rid m)%Z;
  k_rid : forall x t, In t (todo (getn (ns (sch (fs g))) x)) ->
            match rid (getn (ns (sch (fs g))) x) with None => True | Some r => (b < r)%Z end;
  k_A : 0 < ctr (fs g) -> forall x t, x < nnodes (fc c) -> In t (gtargets (fc c)) -> lstalev c (fs g) t x ->
          exists a, reachv c a x /\ (pendp (sch (fs g)) a t \/ wdp g a t);
  k_B : forall x t a, In t (doing (getn (ns (sch (fs g))) x)) -> In a (anc (gi (fc c) x)) -> ~ pendp (sch (fs g)) a t;
  k_C : forall x t v, In v (outs c x) -> x < nnodes (fc c) -> fresh b (sto (fs g)) t v ->
          ~ pendp (sch (fs g)) x t /\ forall a, In a (anc (gi (fc c) x)) -> ~ pendp (sch (fs g)) a t;
  k_D : forall x t, In t (doing (getn (ns (sch (fs g))) x)) -> ~ In t (todo (getn (ns (sch (fs g))) x));
  k_T : forall x t, pendp (sch (fs g)) x t ->
          x < nnodes (fc c) /\ In t (gtargets (fc c)) /\ forall v, hasver (ctr (fs g)) (lev c (fs g) t x v) = true;
  k_N : forall v t k i, In (CVal v t k i) (blobs (fs g)) -> hasver (ctr (fs g)) (CVal v t k i) = true ->
          fresh b (sto (fs g)) t v;
  k_U : forall t v e1 e2, In e1 (sto (fs g)) -> In e2 (sto (fs g)) -> same_key e1 t v = true -> same_key e2 t v = true ->
          (b < e_rid e1)%Z -> (b < e_rid e2)%Z -> e1 = e2;
  k_Gb : forall x' k, In x' (blobs (fs g)) -> ctr (fs g) < k -> hasver k x' = false;
  k_Gs : forall e k, In e (sto (fs g)) -> ctr (fs g) < k -> hasver k (e_con e) = false;
  k_Gr : forall x t, rin_get (rin (fs g)) x t <= ctr (fs g);
  k_0 : ctr (fs g) = 0 -> sto (fs g) = [] /\ forall x t, ~ pendp (sch (fs g)) x t;
  k_W : forall x t k, In (x, t, k) (wd g) -> x < nnodes (fc c) /\ k = map (latest (sto (fs g)) t) (outs c x)
}.

Section F3.
Variable c : fcfg.
Hypothesis OK : flow_ok_mv c = true.
Local Notation C := (fc c).
Local Notation n := (nnodes (fc c)).

Lemma mv_fb : gfb C = [].
Proof.
  unfold flow_ok_mv in OK. apply andb_true_iff in OK. destruct OK as [H _]. apply andb_true_iff in H.
  destruct H as [_ H]. destruct (gfb C); [reflexivity|discriminate].
Qed.

Lemma mv_all : ~ In ALL (gtargets C).
Proof.
  unfold flow_ok_mv in OK. apply andb_true_iff in OK. destruct OK as [_ H]. apply negb_true_iff in H.
  apply mem_false_In. exact H.
Qed.

Lemma mv_node x : x < n -> node_ok_mv c x = true.
Proof.
  intros Hx. unfold flow_ok_mv in OK. apply andb_true_iff in OK. destruct OK as [H _]. apply andb_true_iff in H.
  destruct H as [H _]. rewrite forallb_forall in H. apply H. apply in_seq. lia.
Qed.

Lemma mv_outs x : x < n -> outs c x <> [] /\ NoDup (outs c x) /\ forall v, In v (outs c x) -> owner c v = x.
Proof.
  intros Hx. pose proof (mv_node x Hx) as H. unfold node_ok_mv in H. rewrite !andb_true_iff in H.
  destruct H as [[[[[[[H1 H2] H3] _] _] _] _] _]. split; [destruct (outs c x); [discriminate|discriminate]|].
  split; [apply nodupb_NoDup; exact H2|]. intros v Hv. rewrite forallb_forall in H3. apply Nat.eqb_eq. apply H3. exact Hv.
Qed.

Lemma mv_task x : x < n -> gfac (gi C x) = Task.
Proof.
  intros Hx. pose proof (mv_node x Hx) as H. unfold node_ok_mv in H. rewrite !andb_true_iff in H.
  destruct H as [[[[[_ H] _] _] _] _]. destruct (gfac (gi C x)); [reflexivity|discriminate|discriminate].
Qed.

Lemma mv_asp x : asp C x = false.
Proof.
  unfold asp. destruct (lt_dec x n) as [Hx|Hx]; [rewrite mv_task by exact Hx; reflexivity|].
  unfold gi. rewrite nth_overflow by (unfold nnodes in Hx; lia). reflexivity.
Qed.

Lemma mv_ins x i : x < n -> In i (ins (gi C x)) ->
  In i (outs c (owner c i)) /\ owner c i < n /\ lvl (gi C (owner c i)) < lvl (gi C x) /\ In (owner c i) (anc (gi C x)).
Proof.
  intros Hx Hp. pose proof (mv_node x Hx) as H. unfold node_ok_mv in H. rewrite !andb_true_iff in H.
  destruct H as [[[[_ H] _] _] _]. rewrite forallb_forall in H. specialize (H i Hp). cbn zeta in H.
  rewrite !andb_true_iff in H. destruct H as [[[H0 H1] H2] H3].
  apply mem_In in H0. apply Nat.ltb_lt in H1. apply Nat.ltb_lt in H2. apply mem_In in H3. auto.
Qed.

Lemma mv_anc x a : x < n -> In a (anc (gi C x)) ->
  a < n /\ lvl (gi C a) < lvl (gi C x) /\ forall a', In a' (anc (gi C a)) -> In a' (anc (gi C x)).
Proof.
  intros Hx Ha. pose proof (mv_node x Hx) as H. unfold node_ok_mv in H. rewrite !andb_true_iff in H.
  destruct H as [[[_ H] _] _]. rewrite forallb_forall in H. specialize (H a Ha).
  rewrite !andb_true_iff in H. destruct H as [[H1 H2] H3].
  apply Nat.ltb_lt in H1. apply Nat.ltb_lt in H2. split; [exact H1|]. split; [exact H2|].
  intros a' Ha'. rewrite forallb_forall in H3. apply mem_In. apply H3. exact Ha'.
Qed.

Lemma mv_kids x y : x < n -> y < n ->
  (In y (kids (gi C x)) <-> exists i, In i (ins (gi C y)) /\ In i (outs c x)).
Proof.
  intros Hx Hy. pose proof (mv_node x Hx) as H. unfold node_ok_mv in H. rewrite !andb_true_iff in H.
  destruct H as [[_ H] _]. rewrite forallb_forall in H.
  specialize (H y ltac:(apply in_seq; lia)). apply eqb_prop in H. rewrite <- mem_In, H, existsb_exists.
  split; intros (i & A & B); exists i; (split; [exact A|]); apply mem_In; exact B.
Qed.

Lemma mv_kids_bound x y : x < n -> In y (kids (gi C x)) -> y < n.
Proof.
  intros Hx Hy. pose proof (mv_node x Hx) as H. unfold node_ok_mv in H. rewrite !andb_true_iff in H.
  destruct H as [_ H]. rewrite forallb_forall in H. apply Nat.ltb_lt. apply H. exact Hy.
Qed.

Lemma mv_anc_irrefl x : x < n -> ~ In x (anc (gi C x)).
Proof. intros Hx H. destruct (mv_anc x x Hx H) as (_ & L & _). lia. Qed.

Lemma mv_inp x p : x < n -> inp c x p -> p < n /\ lvl (gi C p) < lvl (gi C x) /\ In p (anc (gi C x)).
Proof. intros Hx (i & Hi & <-). destruct (mv_ins x i Hx Hi) as (_ & A & B & D). auto. Qed.

Lemma mv_aspd s : I_aspd C s.
Proof. intros x t A. rewrite mv_asp in A. discriminate. Qed.

Lemma reachv_bound a x : reachv c a x -> x < n -> a < n.
Proof.
  induction 1 as [x|a p x R IH Hp]; intros Hx; [exact Hx|]. apply IH. destruct (mv_inp x p Hx Hp) as (Pn & _). exact Pn.
Qed.

Lemma desc_anc_mv : forall fuel x y, x < n -> In y (descend C fuel x) -> y < n /\ (y = x \/ In x (anc (gi C y))).
Proof.
  induction fuel as [|fuel IH]; intros x y Hx H; cbn [descend] in H.
  - destruct H as [<-|[]]. auto.
  - destruct H as [<-|H]; [auto|]. apply in_flat_map in H. destruct H as (z & Hz & Hy).
    pose proof (mv_kids_bound x z Hx Hz) as Zn.
    destruct (IH z y Zn Hy) as (Yn & E). split; [exact Yn|]. right.
    assert (Xz : In x (anc (gi C z))).
    { apply (mv_kids x z Hx Zn) in Hz. destruct Hz as (i & Hi & Ho). destruct (mv_ins z i Zn Hi) as (_ & _ & _ & A).
      destruct (mv_outs x Hx) as (_ & _ & Ow). rewrite (Ow i Ho) in A. exact A. }
    destruct E as [->|E]; [exact Xz|].
    destruct (mv_anc y z Yn E) as (_ & _ & Tr). apply Tr. exact Xz.
Qed.

Lemma root_above_mv : forall k x, lvl (gi C x) < k -> x < n -> exists a, reachv c a x /\ a < n /\ ins (gi C a) = [].
Proof.
  induction k as [|k IH]; intros x Hk Hx; [lia|].
  destruct (ins (gi C x)) as [|i l] eqn:E.
  - exists x. split; [constructor|]. auto.
  - assert (Hp : In i (ins (gi C x))) by (rewrite E; left; reflexivity).
    destruct (mv_ins x i Hx Hp) as (_ & Pn & Pl & _).
    destruct (IH (owner c i) ltac:(lia) Pn) as (a & Ra & An & Ar). exists a. split; [|auto].
    apply (reachv_step c a (owner c i) x); [exact Ra|]. exists i. auto.
Qed.

(* ================= a tick ================= *)
Lemma tick_FInv3 b g : FInv3 c b g -> FInv3 c b {| fs := ftick c (fs g); wd := wd g |}.
Proof.
  intros I. destruct I as [Isc Iex Isg Inq Iin Ib Isto Imsg Irid IA IB IC ID IT IN IU IGb IGs IGr I0 IW].
  set (f := fs g) in *. set (s := sch f) in *. set (sp := prep s).
  assert (Isp : SchedBatch.Inv C sp) by exact Isc.
  assert (Exsp : exact sp) by exact Iex.
  assert (Sgsp : single sp) by exact Isg.
  assert (Asp : active sp = true) by reflexivity.
  assert (Wsp : workers sp = []) by reflexivity.
  pose proof Isp as (Hl & Iq & Id & Ia).
  destruct (tick_exact C sp Isp Exsp Sgsp Inq Asp) as [Ex' Sg'].
  destruct (dispatch_flow C sp Wsp Asp Id) as (Fl' & St' & Ms').
  assert (PE : forall x t, pendp (fst (dispatch C sp)) x t <-> pendp s x t).
  { intros x t. rewrite !pendp_bool. rewrite dispatch_pend. reflexivity. }
  assert (TD : forall y u, In u (todo (getn (ns (fst (dispatch C sp))) y)) -> In u (todo (getn (ns s) y))).
  { intros y u. apply (tick_pending C sp y). }
  unfold ftick, ftick_s. fold f s sp.
  constructor; cbn [fs wd sch sto blobs ctr rin].
  - apply (step_Inv C sp Tick Isp).
  - exact Ex'.
  - exact Sg'.
  - rewrite dispatch_que. exact Inq.
  - rewrite Fl'. exact Iin.
  - rewrite St'. exact Ib.
  - intros e He. rewrite St'. apply Isto. exact He.
  - intros m Hm. destruct (Ms' m Hm) as [Hm0|Hnew]; [apply Imsg; exact Hm0|].
    assert (Hx : m_job m < n).
    { destruct (lt_dec (m_job m) n) as [L|L]; [exact L|]. exfalso.
      assert (U : In (m_job m, m_tgt m) (units (fst (dispatch C sp)))).
      { unfold units. apply in_map_iff. exists m. split; [reflexivity|]. apply in_or_app. left. exact Hm. }
      apply Ex' in U. destruct (step_Inv C sp Tick Isp) as (Hl' & _). cbn [step] in Hl'.
      rewrite getn_oob in U by (rewrite Hl'; lia). destruct U. }
    destruct (Hnew (mv_task _ Hx)) as [R T]. rewrite R.
    specialize (Irid _ _ T). change (ns sp) with (ns s). change (stored sp) with (stored s).
    destruct (rid (getn (ns s) (m_job m))); lia.
  - intros x t Ht. rewrite dispatch_rid. apply (Irid x t). apply TD. exact Ht.
  - intros Hc x t Hx Ht St. destruct (IA Hc x t Hx Ht St) as (a & Ra & [P|P]).
    + exists a. split; [exact Ra|]. left. apply PE. exact P.
    + exists a. split; [exact Ra|]. right. exact P.
  - intros x t a Hd Ha P. apply PE in P.
    destruct (in_dec Nat.eq_dec t (doing (getn (ns s) x))) as [Old|New].
    + exact (IB x t a Old Ha P).
    + destruct (tick_release_safe C sp x t a Iq Hl Asp Hd New Ha) as (N1 & N2 & _).
      apply PE in P. destruct P as [P|P]; contradiction.
  - intros x t v Hv Hx Fr. destruct (IC x t v Hv Hx Fr) as [N1 N2]. split.
    + intros P. apply N1. apply PE. exact P.
    + intros a Ha P. apply (N2 a Ha). apply PE. exact P.
  - apply (dispatch_disjoint C sp). exact ID.
  - intros x t P. apply (IT x t). apply PE. exact P.
  - exact IN.
  - exact IU.
  - exact IGb.
  - exact IGs.
  - exact IGr.
  - intros Hc. destruct (I0 Hc) as [E N]. split; [exact E|]. intros x t P. apply (N x t). apply PE. exact P.
  - exact IW.
Qed.

(* ================= a change event at a quiescent pipeline ================= *)
Lemma quiescent_spec_mv f : length (ns (sch f)) = n -> quiescent c f = true ->
  cluster (sch f) = [] /\ jobs (sch f) = [] /\ forall x t, ~ pendp (sch f) x t.
Proof.
  intros Hl Q. unfold quiescent in Q. destruct (cluster (sch f)); [|discriminate].
  destruct (jobs (sch f)); [|discriminate]. split; [reflexivity|]. split; [reflexivity|].
  intros x t P. destruct (lt_dec x n) as [Hx|Hx].
  - rewrite forallb_forall in Q. specialize (Q x ltac:(apply in_seq; lia)).
    destruct (todo (getn (ns (sch f)) x)) eqn:E1; [|discriminate].
    destruct (doing (getn (ns (sch f)) x)) eqn:E2; [|discriminate].
    destruct P as [P|P]; [rewrite E1 in P|rewrite E2 in P]; contradiction.
  - unfold pendp in P. rewrite getn_oob in P by (rewrite Hl; lia). destruct P as [[]|[]].
Qed.

Lemma chg_FInv3 b g names tgts : FInv3 c b g -> quiescent c (fs g) = true -> chg_ok c (fs g) names tgts = true ->
  FInv3 c (stored (sch (fs g))) {| fs := fchg c names tgts (fs g); wd := wd g |}.
Proof.
  intros I Q K.
  destruct I as [Isc Iex Isg Inq Iin Ib Isto Imsg Irid IA IB IC ID IT IN IU IGb IGs IGr I0 IW].
  set (f := fs g) in *. set (s := sch f) in *. pose proof Isc as (Hl & Iq & Id & Ia).
  destruct (quiescent_spec_mv f Hl Q) as (Cl0 & Jb0 & Np). fold s in Cl0, Jb0, Np.
  unfold chg_ok in K. rewrite !andb_true_iff in K. destruct K as [[K1 K2] K3].
  rewrite forallb_forall in K1, K2.
  assert (Kr : forall x, In x names -> x < n /\ ins (gi C x) = []).
  { intros x Hx. specialize (K1 x Hx). apply andb_true_iff in K1. destruct K1 as [A B].
    apply Nat.ltb_lt in A. destruct (ins (gi C x)); [auto|discriminate]. }
  assert (Kt : forall t, In t tgts -> In t (gtargets C)) by (intros t Ht; apply mem_In; apply K2; exact Ht).
  assert (NoAll : mem ALL tgts = false).
  { apply mem_false_In. intros H. apply mv_all. apply Kt. exact H. }
  destruct (organize_spec C names None tgts s Hl) as (Hl' & T & D & Qe).
  assert (TA : forall y t, tgt_added C y tgts t <-> In t tgts).
  { intros y t. unfold tgt_added. rewrite mv_asp, NoAll. reflexivity. }
  assert (PE : forall y t, pendp (organize C names None tgts s) y t <-> In y names /\ In t tgts).
  { intros y t. unfold pendp. rewrite T. destruct (D y) as [D1 _]. rewrite D1. split.
    - intros [[H|(H1 & H2 & H3)]|H]; [exfalso; apply (Np y t); left; exact H|split; [exact H1|apply TA in H3; exact H3]|
                                      exfalso; apply (Np y t); right; exact H].
    - intros [H1 H2]. left. right. split; [exact H1|]. split; [apply Kr; exact H1|apply TA; exact H2]. }
  destruct (organize_farm C names None tgts s) as (Fc & _ & Fj & Fi & _ & _ & _ & Fs & _).
  destruct (step_exact C s (Org names None tgts) Isc Iex Isg Inq I) as [Ex' Sg'].
  unfold fchg. fold f s.
  constructor; cbn [fs wd sch sto blobs ctr rin].
  - apply (step_Inv C s (Org names None tgts) Isc).
  - exact Ex'.
  - exact Sg'.
  - apply (step_que_nodup C s (Org names None tgts) Inq).
  - rewrite Fi. exact Iin.
  - rewrite Fs. lia.
  - intros e He. rewrite Fs. apply Isto. exact He.
  - intros m Hm. rewrite Fc, Cl0 in Hm. destruct Hm.
  - intros x t Ht. rewrite organize_rid by exact Hl.
    assert (P : pendp (organize C names None tgts s) x t) by (left; exact Ht).
    apply PE in P. destruct P as [P1 _]. destruct (Kr x P1) as [Hx _].
    apply mem_In in P1. rewrite P1. assert (L : x <? n = true) by (apply Nat.ltb_lt; exact Hx).
    rewrite L. exact Logic.I.
  - intros _ x t Hx Ht (v & Hv & St). unfold lev in St. cbn [sto rin] in St.
    destruct (Nat.eq_dec (ctr f) 0) as [Z|NZ].
    + apply Nat.eqb_eq in Z. rewrite Z in K3. apply andb_true_iff in K3. destruct K3 as [K3 K4].
      rewrite forallb_forall in K3, K4.
      destruct (root_above_mv (S (lvl (gi C x))) x ltac:(lia) Hx) as (a & Ra & An & Ar).
      exists a. split; [exact Ra|]. left. apply PE.
      assert (Hsa : In a (seq 0 n)) by (apply in_seq; lia). specialize (K3 a Hsa). rewrite Ar in K3.
      split; [apply mem_In; exact K3|apply mem_In; apply K4; exact Ht].
    + assert (Hc : 0 < ctr f) by lia.
      destruct (content_eq_dec (latest (sto f) t v) (lev c f t x v)) as [E|E].
      * exists x. split; [constructor|]. left. apply PE.
        destruct (Nat.eq_dec (base_of c (rin f) x t)
                    (base_of c (flat_map (fun x0 => map (fun t0 => (x0, t0, S (ctr f))) tgts) names ++ rin f) x t)) as [Eb|Eb].
        -- exfalso. apply St. rewrite E. unfold lev. rewrite Eb. reflexivity.
        -- unfold base_of in Eb. destruct (ins (gi C x)); [|congruence].
           rewrite rin_get_chg in Eb. destruct (mem x names && mem t tgts) eqn:M; [|congruence].
           apply andb_true_iff in M. destruct M as [M1 M2]. split; apply mem_In; assumption.
      * destruct (IA Hc x t Hx Ht (ex_intro _ v (conj Hv E))) as (a & Ra & [P|P]); [exfalso; exact (Np a t P)|].
        exists a. split; [exact Ra|]. right. exact P.
  - intros x t a Hd. destruct (D x) as [D1 _]. rewrite D1 in Hd. exfalso. apply (Np x t). right. exact Hd.
  - intros x t v _ _ (e & He & _ & Hr). specialize (Isto e He). lia.
  - intros x t Hd. destruct (D x) as [D1 _]. rewrite D1 in Hd. exfalso. apply (Np x t). right. exact Hd.
  - intros x t P. apply PE in P. destruct P as [P1 P2]. destruct (Kr x P1) as [Hx Hr].
    split; [exact Hx|]. split; [apply Kt; exact P2|]. intros v.
    unfold lev. cbn [sto rin]. rewrite Hr. cbn [map hasver]. unfold base_of. rewrite Hr.
    rewrite rin_get_chg. apply mem_In in P1. apply mem_In in P2. rewrite P1, P2. cbn [andb].
    rewrite Nat.eqb_refl. reflexivity.
  - intros x t k i Hb Hv. rewrite (IGb _ (S (ctr f)) Hb) in Hv by lia. discriminate.
  - intros t v e1 e2 H1 _ _ _ L _. specialize (Isto e1 H1). lia.
  - intros x' k Hb Hk. apply IGb; [exact Hb|lia].
  - intros e k He Hk. apply (IGs e k He). lia.
  - intros x t. rewrite rin_get_chg. destruct (mem x names && mem t tgts); [lia|]. specialize (IGr x t). lia.
  - intros Hc. discriminate.
  - exact IW.
Qed.

(* ================= a successful run ================= *)
Lemma run_FInv3 b g k m : FInv3 c b g -> nth_error (cluster (sch (fs g))) k = Some m ->
  FInv3 c b {| fs := frun c k (fs g); wd := filter (fun p => negb (wd_key (m_job m) (m_tgt m) p)) (wd g) |}.
Proof.
  intros I Enth. unfold frun. rewrite Enth.
  destruct I as [Isc Iex Isg Inq Iin Ib Isto Imsg Irid IA IB IC ID IT IN IU IGb IGs IGr I0 IW].
  set (f := fs g) in *. set (s := sch f) in *. set (x := m_job m). set (t := m_tgt m). set (r := m_rid m).
  pose proof Isc as (Hl & Iq & Id & Ia).
  assert (Hm : In m (cluster s)) by (apply (nth_error_In _ _ Enth)).
  assert (Un : units s = map msg_unit (cluster s)) by (unfold units; rewrite Iin, app_nil_r; reflexivity).
  assert (Hd : In t (doing (getn (ns s) x))).
  { apply Iex. rewrite Un. apply in_map_iff. exists m. split; [reflexivity|exact Hm]. }
  assert (Px : pendp s x t) by (right; exact Hd).
  destruct (IT x t Px) as (Hx & Ht & Hv).
  assert (Hr : (b < r)%Z) by (apply Imsg; exact Hm).
  assert (Hc : 0 < ctr f).
  { destruct (Nat.eq_dec (ctr f) 0) as [Z|Z]; [|lia]. destruct (I0 Z) as [_ N]. exfalso. apply (N x t Px). }
  destruct (mv_outs x Hx) as (Vne & Vnd & Vow). set (vs := outs c x) in *.
  assert (NF : forall v, In v vs -> ~ fresh b (sto f) t v).
  { intros v Hvs Fr. destruct (IC x t v Hvs Hx Fr) as [N _]. contradiction. }
  assert (NA : forall a, In a (anc (gi C x)) -> ~ pendp s a t) by (intros a Ha; apply (IB x t a Hd Ha)).
  assert (TnA : t <> ALL) by (intros E; apply mv_all; rewrite <- E; exact Ht).
  assert (Hq : In x (que s)).
  { apply Iq. right. intros E. rewrite E in Hd. contradiction. }
  assert (Ld : map (sload (sto f) r t) (ins (gi C x)) = map (latest (sto f) t) (ins (gi C x))).
  { apply map_ext_in. intros p Hp. apply (sload_latest (sto f) b r t p (IU t p) Hr). }
  rewrite Ld.
  set (base := base_of c (rin f) x t). set (loaded := map (latest (sto f) t) (ins (gi C x))).
  set (cv := fun v => CVal v t base loaded).
  assert (Ecv : forall v, cv v = lev c f t x v) by reflexivity.
  assert (New : forall v, In v vs -> cmem (cv v) (blobs f) = false).
  { intros v Hvs. destruct (cmem (cv v) (blobs f)) eqn:M; [|reflexivity]. exfalso. apply cmem_In in M.
    apply (NF v Hvs). apply (IN v t _ _ M). exact (Hv v). }
  rewrite (write_fold r t base loaded vs (sto f) (blobs f) [] Vnd New). cbn [app].
  set (vals := map (fun v : vname => (t, v, true)) vs).
  set (s1 := set_farm s (jobs s) (remove_nth k (cluster s)) (busy s) (workers s) (inflight s)).
  set (s2 := set_flags s1 (active s1) (paused s1) (Z.max r (stored s1))).
  assert (Hq2 : mem x (que s2) = true) by (apply mem_In; exact Hq).
  assert (Hl2 : length (ns s2) = n) by exact Hl.
  assert (Hv2 : vals <> []).
  { unfold vals. destruct vs; [congruence|discriminate]. }
  assert (Ff : fb_consumers C vals = []) by (apply fb_consumers_nil; apply mv_fb).
  set (s' := fst (res C x t r Success vals s2)).
  set (dep := fun y => exists i, In i (ins (gi C y)) /\ In i vs).
  assert (dep_dec : forall y, {dep y} + {~ dep y}).
  { intros y. destruct (existsb (fun i => mem i vs) (ins (gi C y))) eqn:E.
    - left. apply existsb_exists in E. destruct E as (i & A & B). exists i. split; [exact A|apply mem_In; exact B].
    - right. intros (i & A & B). assert (T : existsb (fun i => mem i vs) (ins (gi C y)) = true)
        by (apply existsb_exists; exists i; split; [exact A|apply mem_In; exact B]). congruence. }
  assert (K1 : forall y, y < n -> dep y -> In x (anc (gi C y)) /\ y <> x).
  { intros y Hy (i & Hi & Hvs). destruct (mv_ins y i Hy Hi) as (_ & _ & L & A). rewrite (Vow i Hvs) in L, A.
    split; [exact A|]. intros ->. lia. }
  assert (Sx : dep x -> False) by (intros H; destruct (K1 x Hx H) as [_ N]; congruence).
  assert (Cons : forall y, (y < n /\ consumer C x vals y) <-> (y < n /\ dep y)).
  { intros y. split.
    - intros [Hy [(_ & _ & i & Hi & Hn)|Hf]]; [|rewrite Ff in Hf; contradiction].
      split; [exact Hy|]. exists i. split; [exact Hi|]. unfold vals in Hn. rewrite new_names_all in Hn. exact Hn.
    - intros [Hy Hdp]. split; [exact Hy|]. left. destruct (K1 y Hy Hdp) as [_ Ne]. destruct Hdp as (i & Hi & Hvs).
      split; [apply (mv_kids x y Hx Hy); exists i; auto|]. split; [exact Ne|].
      exists i. split; [exact Hi|]. unfold vals. rewrite new_names_all. exact Hvs. }
  assert (NT : forall u, In u (new_targets vals) <-> u = t).
  { intros u. rewrite new_targets_In. unfold vals. rewrite news_all. split.
    - intros (p & Hp & E). apply in_map_iff in Hp. destruct Hp as (v & <- & _). cbn in E. congruence.
    - intros ->. destruct vs as [|v0 vr]; [congruence|]. exists (t, v0, true). split; [left; reflexivity|reflexivity]. }
  assert (TA : forall y u, tgt_added C y (new_targets vals) u <-> u = t).
  { intros y u. unfold tgt_added. rewrite mv_asp. destruct (mem ALL (new_targets vals)) eqn:M.
    - apply mem_In in M. apply NT in M. congruence.
    - apply NT. }
  assert (TD : forall y u, In u (todo (getn (ns s') y)) <->
                           In u (todo (getn (ns s) y)) \/ ((y < n /\ dep y) /\ u = t)).
  { intros y u. unfold s'. rewrite (success_todo C x t r vals s2 Hq2 Hl2 Hv2 y u). rewrite TA, <- Cons.
    change (ns s2) with (ns s). tauto. }
  assert (DG : forall y u, In u (doing (getn (ns s') y)) <-> In u (doing (getn (ns s) y)) /\ (y, u) <> (x, t)).
  { intros y u. unfold s'. rewrite (res_ns_doing C x t r Success vals s2 y Hq2 Hl2). cbn zeta.
    change (ns s2) with (ns s). destruct (Nat.eqb x y) eqn:E.
    - apply Nat.eqb_eq in E. subst y. assert (L : x <? length (ns s) = true) by (apply Nat.ltb_lt; rewrite Hl; exact Hx).
      rewrite L. cbn [andb]. assert (E0 : Nat.eqb t ALL = false) by (apply Nat.eqb_neq; exact TnA). rewrite E0.
      rewrite In_rem. split; [intros [A B]; split; [exact A|congruence]|intros [A B]; split; [exact A|congruence]].
    - cbn [andb]. apply Nat.eqb_neq in E. split; [intros A; split; [exact A|congruence]|tauto]. }
  destruct (res_success_farm C x t r vals s2 Hq2) as (Fc & Fi & Fs & Fj). fold s' in Fc, Fi, Fs, Fj.
  assert (NTx : ~ In t (todo (getn (ns s) x))) by (apply ID; exact Hd).
  assert (PE : forall y u, pendp s' y u <->
                           (pendp s y u /\ (y, u) <> (x, t)) \/ ((y < n /\ dep y) /\ u = t)).
  { intros y u. unfold pendp. rewrite TD, DG. split.
    - intros [[H|H]|[H N]]; [left; split; [left; exact H|intros E; inversion E; subst; contradiction]|right; exact H|
                             left; split; [right; exact H|exact N]].
    - intros [[[H|H] N]|H]; [left; left; exact H|right; split; assumption|left; right; exact H]. }
  set (st' := sputs (sto f) r t vs cv).
  assert (L1 : forall u w, ~ (u = t /\ In w vs) -> latest st' u w = latest (sto f) u w).
  { intros u w N. unfold st'. apply latest_sputs_other. exact N. }
  assert (L2 : forall v, In v vs -> latest st' t v = cv v).
  { intros v Hvs. unfold st'. apply latest_sputs_same; [exact Vnd|exact Hvs|].
    intros e He K. destruct (Z_lt_dec (e_rid e) r) as [L|L]; [exact L|].
    exfalso. apply (NF v Hvs). exists e. split; [exact He|]. split; [exact K|]. lia. }
  assert (FR : forall u w, fresh b st' u w -> fresh b (sto f) u w \/ (u = t /\ In w vs)).
  { intros u w (e & He & K & L). apply In_sputs in He. destruct He as [He|(v & Hvs & ->)].
    - left. exists e. auto.
    - right. apply same_key_iff in K. cbn in K. destruct K; subst. auto. }
  assert (Bnd : forall y u, pendp s y u -> y < n) by (intros y u P; destruct (IT y u P) as [A _]; exact A).
  (* a value of another algorithm is not one of x's *)
  assert (OV : forall y w, y < n -> In w (outs c y) -> In w vs -> y = x).
  { intros y w Hy Hw Hvs. destruct (mv_outs y Hy) as (_ & _ & Oy). rewrite <- (Oy w Hw). apply Vow. exact Hvs. }
  set (f' := {| sch := s'; sto := st'; blobs := blobs f ++ map cv vs; ctr := ctr f; rin := rin f |}).
  assert (LE : forall u y, ~ (u = t /\ dep y) -> forall v, lev c f' u y v = lev c f u y v).
  { intros u y N v. unfold lev. cbn [sto rin f']. f_equal. apply map_ext_in. intros p Hp. apply L1.
    intros [-> Hvs]. apply N. split; [reflexivity|]. exists p. auto. }
  assert (LV : forall y, dep y -> forall v, hasver (ctr f) (lev c f' t y v) = true).
  { intros y (i & Hi & Hvs) v. unfold lev. cbn [hasver sto f']. apply orb_true_iff. right. apply existsb_exists.
    exists (latest st' t i). split; [apply in_map; exact Hi|]. rewrite (L2 i Hvs), Ecv. apply Hv. }
  assert (WF : forall a u, wdp g a u -> (a, u) <> (x, t) ->
                 wd_has (filter (fun p => negb (wd_key x t p)) (wd g)) a u = true).
  { intros a u Wa Ne. apply wd_has_In in Wa. destruct Wa as (k0 & Hk). apply wd_has_In. exists k0.
    apply wd_filter_In. split; assumption. }
  change (FInv3 c b {| fs := f'; wd := filter (fun p => negb (wd_key x t p)) (wd g) |}).
  constructor; cbn [fs wd sch sto blobs ctr rin f'].
  - split; [|split; [|split]].
    + unfold s'. rewrite <- (rep_ns C 0 x t r Success vals s2). apply step_len. exact Hl2.
    + apply res_I_que; [exact Hl2|exact Iq].
    + apply res_I_do; [exact Hl2|]. destruct Id as [J D]. split; [exact J|exact D].
    + apply mv_aspd.
  - intros y u. rewrite DG. unfold units. rewrite Fi, Fc. cbn [inflight cluster set_flags set_farm s1 s2].
    rewrite Iin. cbn [map]. rewrite app_nil_r.
    destruct (remove_nth_map_nodup msg_unit (cluster s) k m ltac:(rewrite <- Un; exact Isg) Enth) as [_ R].
    rewrite R. rewrite <- Un. rewrite <- (Iex y u). reflexivity.
  - unfold single, units. rewrite Fi, Fc. cbn [inflight cluster set_flags set_farm s1 s2].
    rewrite Iin. cbn [map]. rewrite app_nil_r.
    destruct (remove_nth_map_nodup msg_unit (cluster s) k m ltac:(rewrite <- Un; exact Isg) Enth) as [R _]. exact R.
  - destruct (step_rep_fields C 0 x t r Success vals s2) as [Eq _]. unfold s'. rewrite <- Eq.
    apply step_que_nodup. exact Inq.
  - rewrite Fi. exact Iin.
  - rewrite Fs. cbn [stored set_flags s2 s1 set_farm]. lia.
  - intros e He. rewrite Fs. cbn [stored set_flags s2 s1 set_farm]. apply In_sputs in He.
    destruct He as [He|(v & _ & ->)]; [specialize (Isto e He); lia|cbn; lia].
  - intros m0 Hm0. rewrite Fc in Hm0. cbn [cluster set_flags s2 s1 set_farm] in Hm0.
    apply Imsg. apply (In_remove_nth _ _ _ Hm0).
  - intros y u Hu.
    destruct (res_success_rid C x t r vals s2 y Hq2 Hl2 Hv2 Ff) as [R1 R2]. fold s' in R1, R2.
    destruct (lt_dec y n) as [Hy|Hy]; [destruct (dep_dec y) as [Hi|Hi]|].
    + rewrite R1 by (apply Cons; split; assumption). exact Hr.
    + rewrite R2 by (intros H; apply Cons in H; destruct H; contradiction).
      apply TD in Hu. destruct Hu as [Hu|[[_ Hu] _]]; [|contradiction]. apply (Irid y u Hu).
    + rewrite R2 by (intros H; apply Cons in H; destruct H; contradiction).
      apply TD in Hu. destruct Hu as [Hu|[[Hu _] _]]; [|contradiction]. apply (Irid y u Hu).
  - (* A *)
    intros _ y u Hy Hu (v & Hvy & St). cbn [sto f'] in St.
    destruct (Nat.eq_dec u t) as [->|Nu]; [destruct (dep_dec y) as [Hi|Hi]|].
    + exists y. split; [constructor|]. left. apply PE. right. auto.
    + destruct (Nat.eq_dec y x) as [->|Ny].
      * exfalso. apply St. rewrite (L2 v Hvy). rewrite LE by tauto. apply Ecv.
      * assert (Nv : ~ (t = t /\ In v vs)) by (intros [_ Hvs]; apply Ny; apply (OV y v Hy Hvy Hvs)).
        rewrite L1 in St by exact Nv. rewrite LE in St by tauto.
        destruct (IA Hc y t Hy Hu (ex_intro _ v (conj Hvy St))) as (a & Ra & Pa).
        destruct (Nat.eq_dec a x) as [->|Na].
        -- destruct (reachv_first c x y Ra) as [E|(z & Hz & Rz)]; [congruence|].
           pose proof (reachv_bound z y Rz Hy) as Zn.
           exists z. split; [exact Rz|]. left. apply PE. right. split; [|reflexivity]. split; [exact Zn|].
           destruct Hz as (i & Hi' & Ho). exists i. split; [exact Hi'|].
           destruct (mv_ins z i Zn Hi') as (Io & _). rewrite Ho in Io. exact Io.
        -- exists a. split; [exact Ra|]. destruct Pa as [P|P].
           ++ left. apply PE. left. split; [exact P|congruence].
           ++ right. apply WF; [exact P|congruence].
    + assert (Nv : ~ (u = t /\ In v vs)) by tauto.
      rewrite L1 in St by exact Nv. rewrite LE in St by tauto.
      destruct (IA Hc y u Hy Hu (ex_intro _ v (conj Hvy St))) as (a & Ra & Pa). exists a. split; [exact Ra|].
      destruct Pa as [P|P].
      * left. apply PE. left. split; [exact P|congruence].
      * right. apply WF; [exact P|congruence].
  - (* B *)
    intros y u a Hdy Ha P. apply DG in Hdy. destruct Hdy as [Hdy _]. apply PE in P.
    destruct P as [[P _]|[[Hay Hia] ->]]; [exact (IB y u a Hdy Ha P)|].
    assert (Hy : y < n) by (apply (Bnd y t); right; exact Hdy).
    destruct (K1 a Hay Hia) as [Xa _]. destruct (mv_anc y a Hy Ha) as (_ & _ & Tr).
    apply (IB y t x Hdy (Tr x Xa)). exact Px.
  - (* C *)
    intros y u v Hvy Hy Fr. apply FR in Fr. destruct Fr as [Fr|[-> Hvs]].
    + destruct (IC y u v Hvy Hy Fr) as [N1 N2]. split.
      * intros P. apply PE in P. destruct P as [[P _]|[[_ Hi] ->]]; [contradiction|].
        destruct (K1 y Hy Hi) as [Xa _]. apply (N2 x Xa). exact Px.
      * intros a Ha P. apply PE in P. destruct P as [[P _]|[[Hay Hia] ->]]; [exact (N2 a Ha P)|].
        destruct (K1 a Hay Hia) as [Xa _]. destruct (mv_anc y a Hy Ha) as (_ & _ & Tr).
        apply (N2 x (Tr x Xa)). exact Px.
    + pose proof (OV y v Hy Hvy Hvs) as ->. split.
      * intros P. apply PE in P. destruct P as [[_ N]|[[_ Hi] _]]; [congruence|exact (Sx Hi)].
      * intros a Ha P. apply PE in P. destruct P as [[P _]|[[Hay Hia] _]]; [exact (NA a Ha P)|].
        destruct (K1 a Hay Hia) as [Xa _]. destruct (mv_anc x a Hx Ha) as (_ & _ & Tr).
        apply (mv_anc_irrefl x Hx). apply Tr. exact Xa.
  - (* D *)
    intros y u Hdy Hty. apply DG in Hdy. destruct Hdy as [Hdy Ne]. apply TD in Hty.
    destruct Hty as [Hty|[[Hy Hi] ->]]; [exact (ID y u Hdy Hty)|].
    destruct (K1 y Hy Hi) as [Xa _]. apply (IB y t x Hdy Xa). exact Px.
  - (* T *)
    intros y u P. apply PE in P. destruct P as [[P Ne]|[[Hy Hi] ->]].
    + destruct (IT y u P) as (Hy & Hu & Hvy). split; [exact Hy|]. split; [exact Hu|]. intros v.
      destruct (Nat.eq_dec u t) as [->|Nu]; [destruct (dep_dec y) as [Hi|Hi]|].
      * apply LV. exact Hi.
      * rewrite LE by tauto. apply Hvy.
      * rewrite LE by tauto. apply Hvy.
    + split; [exact Hy|]. split; [exact Ht|]. apply LV. exact Hi.
  - (* N *)
    intros w u k0 i Hb Hh. apply in_app_or in Hb. destruct Hb as [Hb|Hb].
    + unfold st'. apply fresh_sputs_mono; [exact Hr|]. apply (IN w u k0 i Hb Hh).
    + apply in_map_iff in Hb. destruct Hb as (v & E & Hvs). unfold cv in E. inversion E; subst.
      exists {| e_rid := r; e_tgt := t; e_val := w; e_con := cv w |}.
      split; [unfold st'; apply sputs_new_in; right; exact Hvs|].
      split; [apply same_key_iff; split; reflexivity|exact Hr].
  - (* U *)
    intros u w e1 e2 H1 H2 K1' K2' G1 G2. apply In_sputs in H1. apply In_sputs in H2.
    destruct H1 as [H1|(v1 & Hv1 & E1)]; destruct H2 as [H2|(v2 & Hv2' & E2)].
    + apply (IU u w e1 e2); assumption.
    + exfalso. subst e2. apply same_key_iff in K2'. cbn in K2'. destruct K2'; subst.
      apply (NF w Hv2'). exists e1. auto.
    + exfalso. subst e1. apply same_key_iff in K1'. cbn in K1'. destruct K1'; subst.
      apply (NF w Hv1). exists e2. auto.
    + subst e1 e2. apply same_key_iff in K1'. apply same_key_iff in K2'. cbn in K1', K2'.
      destruct K1', K2'. subst. reflexivity.
  - intros x' k0 Hb Hk. apply in_app_or in Hb. destruct Hb as [Hb|Hb]; [apply (IGb x' k0 Hb Hk)|].
    apply in_map_iff in Hb. destruct Hb as (v & <- & _). rewrite Ecv. apply (lev_ver_bound c f IGr IGs k0 Hk).
  - intros e k0 He Hk. apply In_sputs in He. destruct He as [He|(v & _ & ->)]; [apply (IGs e k0 He Hk)|].
    cbn [e_con]. rewrite Ecv. apply (lev_ver_bound c f IGr IGs k0 Hk).
  - exact IGr.
  - intros Z. lia.
  - (* W *)
    intros y u k0 Hk. apply wd_filter_In in Hk. destruct Hk as [Hk Ne].
    destruct (IW y u k0 Hk) as [Hy E]. split; [exact Hy|]. rewrite E. apply map_ext_in. intros w Hw.
    symmetry. apply L1. intros [-> Hvs]. apply Ne. rewrite (OV y w Hy Hw Hvs). reflexivity.
Qed.

(* ================= a FAILED run ================= *)
Lemma fail_FInv3 b g k m : FInv3 c b g -> nth_error (cluster (sch (fs g))) k = Some m ->
  FInv3 c b {| fs := ffail c k (fs g);
               wd := fold_left (wd_add c (sto (fs g)) (m_tgt m)) (descend C n (m_job m)) (wd g) |}.
Proof.
  intros I Enth. unfold ffail. rewrite Enth.
  destruct I as [Isc Iex Isg Inq Iin Ib Isto Imsg Irid IA IB IC ID IT IN IU IGb IGs IGr I0 IW].
  set (f := fs g) in *. set (s := sch f) in *. set (x := m_job m). set (t := m_tgt m). set (r := m_rid m).
  set (DD := descend C n x).
  pose proof Isc as (Hl & Iq & Id & Ia).
  assert (Hm : In m (cluster s)) by (apply (nth_error_In _ _ Enth)).
  assert (Un : units s = map msg_unit (cluster s)) by (unfold units; rewrite Iin, app_nil_r; reflexivity).
  assert (Hd : In t (doing (getn (ns s) x))).
  { apply Iex. rewrite Un. apply in_map_iff. exists m. split; [reflexivity|exact Hm]. }
  assert (Px : pendp s x t) by (right; exact Hd).
  destruct (IT x t Px) as (Hx & Ht & Hv).
  assert (Hc : 0 < ctr f).
  { destruct (Nat.eq_dec (ctr f) 0) as [Z|Z]; [|lia]. destruct (I0 Z) as [_ N]. exfalso. apply (N x t Px). }
  assert (TnA : t <> ALL) by (intros E; apply mv_all; rewrite <- E; exact Ht).
  assert (Hq : In x (que s)).
  { apply Iq. right. intros E. rewrite E in Hd. contradiction. }
  set (s1 := set_farm s (jobs s) (remove_nth k (cluster s)) (busy s) (workers s) (inflight s)).
  assert (Hq1 : mem x (que s1) = true) by (apply mem_In; exact Hq).
  assert (Hl1 : length (ns s1) = n) by exact Hl.
  assert (Ho : Failure <> Success) by discriminate.
  set (s' := fst (res C x t r Failure [] s1)).
  pose proof (ns_res_failed C x t r Failure [] s1 Ho Hq1) as NS. fold s' in NS. cbn zeta in NS.
  change (ns s1) with (ns s) in NS.
  assert (XD : mem x DD = true) by (apply mem_In; apply descend_self).
  assert (Lx : x <? length (ns s) = true) by (apply Nat.ltb_lt; rewrite Hl; exact Hx).
  assert (E0 : Nat.eqb t ALL = false) by (apply Nat.eqb_neq; exact TnA).
  assert (TD : forall y u, In u (todo (getn (ns s') y)) <-> In u (todo (getn (ns s) y)) /\ ~ (u = t /\ In y DD)).
  { intros y u. rewrite NS. destruct (Nat.eqb x y) eqn:E.
    - apply Nat.eqb_eq in E. subst y. rewrite Lx. cbn [andb]. fold DD. rewrite XD. cbn [pz cz todo].
      rewrite In_rem. split; [intros [A B]; split; [exact A|tauto]|].
      intros [A B]. split; [exact A|]. intros ->. apply B. split; [reflexivity|apply mem_In; exact XD].
    - cbn [andb]. fold DD. destruct (mem y DD) eqn:M.
      + cbn [pz todo]. rewrite In_rem. apply mem_In in M. split; [intros [A B]; split; [exact A|tauto]|].
        intros [A B]. split; [exact A|]. intros ->. apply B. auto.
      + apply mem_false_In in M. tauto. }
  assert (DG : forall y u, In u (doing (getn (ns s') y)) <-> In u (doing (getn (ns s) y)) /\ ~ (u = t /\ In y DD)).
  { intros y u. rewrite NS. destruct (Nat.eqb x y) eqn:E.
    - apply Nat.eqb_eq in E. subst y. rewrite Lx. cbn [andb]. fold DD. rewrite XD. cbn [pz cz doing]. rewrite E0.
      rewrite !In_rem. split; [intros [[A _] B]; split; [exact A|tauto]|].
      intros [A B]. assert (u <> t) by (intros ->; apply B; split; [reflexivity|apply mem_In; exact XD]). tauto.
    - cbn [andb]. fold DD. destruct (mem y DD) eqn:M.
      + cbn [pz doing]. rewrite In_rem. apply mem_In in M. split; [intros [A B]; split; [exact A|tauto]|].
        intros [A B]. split; [exact A|]. intros ->. apply B. auto.
      + apply mem_false_In in M. tauto. }
  assert (RID : forall y, rid (getn (ns s') y) = rid (getn (ns s) y)).
  { intros y. rewrite NS. destruct (Nat.eqb x y && (x <? length (ns s))) eqn:B; destruct (mem y (descend C n x));
    cbn [pz cz rid]; try reflexivity; apply andb_true_iff in B; destruct B as [B _]; apply Nat.eqb_eq in B; subst y;
    reflexivity. }
  assert (PE : forall y u, pendp s' y u <-> pendp s y u /\ ~ (u = t /\ In y DD)).
  { intros y u. unfold pendp. rewrite TD, DG. tauto. }
  assert (DA : forall y, In y DD -> y < n /\ (y = x \/ In x (anc (gi C y)))).
  { intros y Hy. apply (desc_anc_mv n x y Hx Hy). }
  assert (ND : forall y, In y DD -> y <> x -> ~ In t (doing (getn (ns s) y))).
  { intros y Hy Ne Hdy. destruct (DA y Hy) as (_ & [E|A]); [congruence|]. apply (IB y t x Hdy A). exact Px. }
  destruct (frame_farm C x t r Failure [] s1 Ho Hq1) as (Fc & _ & Fj & _ & _ & _ & Fs & _). fold s' in Fc, Fj, Fs.
  assert (Fi : inflight s' = inflight s).
  { unfold s'. rewrite (res_failed_eq C x t r Failure [] s1 Ho Hq1). cbn [fst]. unfold purge. cbn [inflight set_ns].
    match goal with |- context [complete C x t ?s0] => destruct (farm_complete C x t s0) as (_ & _ & _ & G & _); rewrite G end.
    reflexivity. }
  constructor; cbn [fs wd sch sto blobs ctr rin]; fold f s x t r s1 s' DD.
  - split; [|split; [|split]].
    + unfold s'. rewrite <- (rep_ns C 0 x t r Failure [] s1). apply step_len. exact Hl1.
    + apply res_I_que; [exact Hl1|exact Iq].
    + apply res_I_do; [exact Hl1|]. destruct Id as [J D]. split; [exact J|exact D].
    + apply mv_aspd.
  - intros y u. rewrite DG. unfold units. rewrite Fi, Fc. cbn [cluster s1 set_farm].
    rewrite Iin. cbn [map]. rewrite app_nil_r.
    destruct (remove_nth_map_nodup msg_unit (cluster s) k m ltac:(rewrite <- Un; exact Isg) Enth) as [_ R].
    rewrite R. rewrite <- Un. rewrite <- (Iex y u). change (msg_unit m) with (x, t). split.
    + intros [A B]. split; [exact A|]. intros E. inversion E; subst. apply B. split; [reflexivity|apply mem_In; exact XD].
    + intros [A B]. split; [exact A|]. intros [-> Hy]. destruct (Nat.eq_dec y x) as [->|Ne]; [congruence|].
      exact (ND y Hy Ne A).
  - unfold single, units. rewrite Fi, Fc. cbn [cluster s1 set_farm].
    rewrite Iin. cbn [map]. rewrite app_nil_r.
    destruct (remove_nth_map_nodup msg_unit (cluster s) k m ltac:(rewrite <- Un; exact Isg) Enth) as [R _]. exact R.
  - destruct (step_rep_fields C 0 x t r Failure [] s1) as [Eq _]. unfold s'. rewrite <- Eq.
    apply step_que_nodup. exact Inq.
  - rewrite Fi. exact Iin.
  - rewrite Fs. exact Ib.
  - intros e He. rewrite Fs. apply Isto. exact He.
  - intros m0 Hm0. rewrite Fc in Hm0. cbn [cluster s1 set_farm] in Hm0. apply Imsg. apply (In_remove_nth _ _ _ Hm0).
  - intros y u Hu. rewrite RID. apply TD in Hu. destruct Hu as [Hu _]. apply (Irid y u Hu).
  - intros _ y u Hy Hu St. destruct (IA Hc y u Hy Hu St) as (a & Ra & Pa). exists a. split; [exact Ra|].
    destruct Pa as [P|P].
    + destruct (Nat.eq_dec u t) as [->|Nu]; [destruct (in_dec Nat.eq_dec a DD) as [Ha|Ha]|].
      * right. unfold wdp. cbn [wd]. apply wd_fold_adds. exact Ha.
      * left. apply PE. split; [exact P|tauto].
      * left. apply PE. split; [exact P|tauto].
    + right. unfold wdp. cbn [wd]. apply wd_fold_mono. exact P.
  - intros y u a Hdy Ha P. apply DG in Hdy. destruct Hdy as [Hdy _]. apply PE in P. destruct P as [P _].
    exact (IB y u a Hdy Ha P).
  - intros y u v Hvy Hy Fr. destruct (IC y u v Hvy Hy Fr) as [N1 N2]. split.
    + intros P. apply PE in P. destruct P as [P _]. contradiction.
    + intros a Ha P. apply PE in P. destruct P as [P _]. exact (N2 a Ha P).
  - intros y u Hdy Hty. apply DG in Hdy. apply TD in Hty. destruct Hdy as [Hdy _]. destruct Hty as [Hty _].
    exact (ID y u Hdy Hty).
  - intros y u P. apply PE in P. destruct P as [P _]. exact (IT y u P).
  - exact IN.
  - exact IU.
  - exact IGb.
  - exact IGs.
  - exact IGr.
  - intros Z. lia.
  - intros y u k0 Hk. apply wd_fold_In in Hk. destruct Hk as [Hk|(z & Hz & E)]; [exact (IW y u k0 Hk)|].
    inversion E; subst. split; [apply (DA z Hz)|reflexivity].
Qed.
End F3.
