(* C02 end state, engines with several values per algorithm (class flow_ok_mv),
   worker failures included: histories, the reference evaluation, the theorem.
   Model/Flow2.v, Proofs/Flow3Inv.v. *)
From Coq Require Import List Arith ZArith Bool Lia Permutation Sorted.
From DV Require Import Model.Sched Model.Flow Model.Flow2 Proofs.SchedLib Proofs.SchedOrg Proofs.SchedC02
     Proofs.SchedC05 Proofs.SchedC11 Proofs.SchedBatch Proofs.SchedExact Proofs.FlowProofs Proofs.FlowInv
     Proofs.FlowSteps Proofs.FlowMain Proofs.Flow2Inv Proofs.Flow2Main Proofs.Flow3Inv.
Import ListNotations.

Lemma find_map_key (g : vname -> content) v : forall l, In v l ->
  find (fun p : vname * content => Nat.eqb (fst p) v) (map (fun w => (w, g w)) l) = Some (v, g v).
Proof.
  induction l as [|w l IH]; intros H; [destruct H|]. cbn [map find fst].
  destruct (Nat.eqb w v) eqn:E; [apply Nat.eqb_eq in E; subst; reflexivity|].
  destruct H as [H|H]; [apply Nat.eqb_neq in E; congruence|apply IH; exact H].
Qed.

Lemma find_map_none (g : vname -> content) v : forall l, ~ In v l ->
  find (fun p : vname * content => Nat.eqb (fst p) v) (map (fun w => (w, g w)) l) = None.
Proof.
  induction l as [|w l IH]; intros H; [reflexivity|]. cbn [map find fst].
  destruct (Nat.eqb w v) eqn:E; [apply Nat.eqb_eq in E; subst; exfalso; apply H; left; reflexivity|].
  apply IH. intros H'. apply H. right. exact H'.
Qed.

Section Main3.
Variable c : fcfg.
Hypothesis OK : flow_ok_mv c = true.
Local Notation C := (fc c).
Local Notation n := (nnodes (fc c)).

(* ---- the reference value of a value ---- *)
Definition ev3 (l : list (node * tgt * nat)) (t : tgt) (v : vname) : content :=
  eval_rec c l (S (lvl (gi C (owner c v)))) t v.
Definition realv (v : vname) : Prop := owner c v < n /\ In v (outs c (owner c v)).

Lemma eval_rec_stable3 l t : forall f v, realv v -> lvl (gi C (owner c v)) < f -> eval_rec c l f t v = ev3 l t v.
Proof.
  induction f as [f IH] using lt_wf_ind. intros v [Hx Hv] Hf. unfold ev3.
  destruct f as [|f]; [lia|]. cbn [eval_rec]. f_equal.
  apply map_ext_in. intros i Hi. destruct (mv_ins c OK (owner c v) i Hx Hi) as (Io & Pn & Pl & _).
  rewrite (IH f) by (try split; try assumption; lia).
  rewrite (IH (lvl (gi C (owner c v)))) by (try split; try assumption; lia). reflexivity.
Qed.

Lemma ev3_unfold l t x v : x < n -> In v (outs c x) ->
  ev3 l t v = CVal v t (base_of c l x t) (map (ev3 l t) (ins (gi C x))).
Proof.
  intros Hx Hv. destruct (mv_outs c OK x Hx) as (_ & _ & Ow). pose proof (Ow v Hv) as E.
  unfold ev3 at 1. cbn [eval_rec]. rewrite E. f_equal.
  apply map_ext_in. intros i Hi. destruct (mv_ins c OK x i Hx Hi) as (Io & Pn & Pl & _).
  apply eval_rec_stable3; [split; assumption|exact Pl].
Qed.

(* ---- the from-scratch run in level order computes ev3 ---- *)
Definition tinv3 (l : list (node * tgt * nat)) (t : tgt) (done : list node) (m : list (vname * content)) : Prop :=
  (forall x v, In x done -> In v (outs c x) -> lookup m v = ev3 l t v) /\
  (forall v, (forall x, In x done -> ~ In v (outs c x)) -> find (fun p => Nat.eqb (fst p) v) m = None).

Lemma lookup_app2 m m2 v :
  lookup (m ++ m2) v = match find (fun p => Nat.eqb (fst p) v) m with Some p => snd p | None => lookup m2 v end.
Proof. unfold lookup. rewrite find_app2. destruct (find (fun p => Nat.eqb (fst p) v) m); reflexivity. Qed.

Lemma eval_fold3 l t : forall rest done m,
  (forall y, In y rest -> y < n) -> (forall y, In y done -> y < n) ->
  StronglySorted (lvl_le C) rest -> NoDup rest ->
  (forall y, In y rest -> ~ In y done) -> (forall p, p < n -> In p done \/ In p rest) ->
  tinv3 l t done m -> tinv3 l t (done ++ rest) (fold_left (eval_node c l t) rest m).
Proof.
  induction rest as [|x rest IH]; intros done m H1 H1d H2 H3 H3' H4 [Ia Ib]; cbn [fold_left].
  - rewrite app_nil_r. split; assumption.
  - inversion H2 as [|? ? Sr Fx]; subst. inversion H3 as [|? ? Nx Nr]; subst.
    assert (Hx : x < n) by (apply H1; left; reflexivity).
    destruct (mv_outs c OK x Hx) as (_ & _ & Owx).
    assert (Pd : forall i, In i (ins (gi C x)) -> In (owner c i) done /\ In i (outs c (owner c i))).
    { intros i Hi. destruct (mv_ins c OK x i Hx Hi) as (Io & Pn & Pl & _). split; [|exact Io].
      destruct (H4 (owner c i) Pn) as [D|[E|R]]; [exact D|rewrite <- E in Pl; lia|].
      rewrite Forall_forall in Fx. specialize (Fx _ R). unfold lvl_le in Fx. lia. }
    assert (E1 : eval_node c l t m x = m ++ map (fun v => (v, ev3 l t v)) (outs c x)).
    { unfold eval_node. f_equal. apply map_ext_in. intros v Hv. f_equal.
      rewrite (ev3_unfold l t x v Hx Hv). f_equal. apply map_ext_in. intros i Hi.
      destruct (Pd i Hi) as [D Io]. apply (Ia (owner c i) i D Io). }
    rewrite E1. replace (done ++ x :: rest) with ((done ++ [x]) ++ rest) by (rewrite <- app_assoc; reflexivity).
    apply IH.
    + intros y Hy. apply H1. right. exact Hy.
    + intros y Hy. apply in_app_or in Hy. destruct Hy as [Hy|[<-|[]]]; [apply H1d; exact Hy|exact Hx].
    + exact Sr.
    + exact Nr.
    + intros y Hy Hd. apply in_app_or in Hd. destruct Hd as [Hd|[->|[]]]; [apply (H3' y (or_intror Hy) Hd)|contradiction].
    + intros p Hp. destruct (H4 p Hp) as [D|[->|R]]; [left; apply in_or_app; left; exact D|
                                                      left; apply in_or_app; right; left; reflexivity|right; exact R].
    + split.
      * intros x' v Hx' Hv. rewrite lookup_app2. apply in_app_or in Hx'. destruct Hx' as [Hx'|[<-|[]]].
        -- pose proof (Ia x' v Hx' Hv) as A. unfold lookup in A. revert A.
           destruct (find (fun p => Nat.eqb (fst p) v) m) as [p|]; intros A; [exact A|].
           exfalso. rewrite (ev3_unfold l t x' v (H1d x' Hx') Hv) in A. discriminate.
        -- rewrite Ib.
           ++ unfold lookup. pose proof (find_map_key (ev3 l t) v _ Hv) as FM.
              match goal with |- match ?F with _ => _ end = _ =>
                replace F with (Some (v, ev3 l t v)) by (symmetry; exact FM) end. reflexivity.
           ++ intros x'' Hd Hv'. destruct (mv_outs c OK x'' (H1d x'' Hd)) as (_ & _ & Ow'').
              rewrite <- (Ow'' v Hv'), (Owx v Hv) in Hd. apply (H3' x (or_introl eq_refl) Hd).
      * intros v Hv. rewrite find_app2. rewrite Ib by (intros x' Hd; apply Hv; apply in_or_app; left; exact Hd).
        exact (find_map_none (ev3 l t) v _ (Hv x ltac:(apply in_or_app; right; left; reflexivity))).
Qed.

Lemma eval_topo_ev3 l t x v : x < n -> In v (outs c x) -> lookup (eval_topo c l t) v = ev3 l t v.
Proof.
  intros Hx Hv. unfold eval_topo, topo_order.
  assert (T : tinv3 l t ([] ++ sort_lvl C (seq 0 n)) (fold_left (eval_node c l t) (sort_lvl C (seq 0 n)) [])).
  { apply eval_fold3.
    - intros y Hy. apply In_sort_lvl in Hy. apply in_seq in Hy. lia.
    - intros y [].
    - apply sort_lvl_sorted.
    - apply (Permutation_NoDup (Permutation_sym (sort_lvl_perm C (seq 0 n)))). apply seq_NoDup.
    - intros y _ [].
    - intros p Hp. right. apply In_sort_lvl. apply in_seq. lia.
    - split; [intros x0 v0 []|intros; reflexivity]. }
  destruct T as [Ta _]. apply (Ta x v); [|exact Hv]. cbn [app]. apply In_sort_lvl. apply in_seq. lia.
Qed.

(* ---- histories ---- *)
Lemma init_FInv3 : FInv3 c 0 (finit2 c).
Proof.
  assert (Np : forall x t, ~ pendp (init C) x t).
  { intros x t [H|H]; cbn [init ns] in H; rewrite getn_repeat in H; destruct H. }
  destruct (init_exact C) as (Ex & Sg & Nq).
  constructor; cbn [finit2 fs wd finit sch sto blobs ctr rin].
  - apply init_Inv.
  - exact Ex.
  - exact Sg.
  - exact Nq.
  - reflexivity.
  - cbn. lia.
  - intros e [].
  - intros m [].
  - intros x t H. cbn [init ns] in H. rewrite getn_repeat in H. destruct H.
  - intros H. lia.
  - intros x t a H. exfalso. apply (Np x t). right. exact H.
  - intros x t v _ _ (e & [] & _).
  - intros x t H. exfalso. apply (Np x t). right. exact H.
  - intros x t P. exfalso. apply (Np x t P).
  - intros x t k i [].
  - intros t v e1 e2 [].
  - intros x' k [].
  - intros e k [].
  - intros x t. cbn. lia.
  - intros _. split; [reflexivity|exact Np].
  - intros x t k [].
Qed.

Lemma step_FInv3 b g e : FInv3 c b g ->
  match e with F1 (FChg names tgts) => quiescent c (fs g) = true /\ chg_ok c (fs g) names tgts = true | _ => True end ->
  exists b', FInv3 c b' (fstep2 c g e).
Proof.
  intros I H. destruct e as [[names tgts| |k]|k]; cbn [fstep2 fstep].
  - destruct H as [Q K]. exists (stored (sch (fs g))). apply (chg_FInv3 c OK b); assumption.
  - exists b. apply (tick_FInv3 c OK). exact I.
  - exists b. destruct (nth_error (cluster (sch (fs g))) k) as [m|] eqn:E.
    + apply (run_FInv3 c OK); assumption.
    + destruct g. exact I.
  - exists b. destruct (nth_error (cluster (sch (fs g))) k) as [m|] eqn:E.
    + apply (fail_FInv3 c OK); assumption.
    + destruct g. exact I.
Qed.

Lemma hist_FInv3 es : forall g b, FInv3 c b g -> hist_ok2 c g es = true -> exists b', FInv3 c b' (frun_all2 c g es).
Proof.
  induction es as [|e es IH]; intros g b I H; cbn [hist_ok2 frun_all2 fold_left] in *; [exists b; exact I|].
  apply andb_true_iff in H. destruct H as [H1 H2].
  destruct (step_FInv3 b g e I) as [b1 I1].
  { destruct e as [[names tgts| |k]|k]; try exact Logic.I. apply andb_true_iff in H1. exact H1. }
  apply (IH _ b1 I1 H2).
Qed.

(* ---- the end state ---- *)
Lemma quiescent_local3 b g : FInv3 c b g -> 0 < ctr (fs g) -> quiescent c (fs g) = true ->
  forall x t, x < n -> In t (gtargets C) ->
    (forall v, In v (outs c x) -> latest (sto (fs g)) t v = lev c (fs g) t x v) \/
    exists a, reachv c a x /\ wd_has (wd g) a t = true.
Proof.
  intros I Hc Q x t Hx Ht. destruct (k_sched c b g I) as (Hl & _).
  destruct (quiescent_spec_mv c (fs g) Hl Q) as (_ & _ & Np).
  destruct (forall_or_exists (fun v => latest (sto (fs g)) t v = lev c (fs g) t x v)
              (fun v => content_eq_dec _ _) (outs c x)) as [A|(v & Hv & Nv)]; [left; exact A|]. right.
  destruct (k_A c b g I Hc x t Hx Ht (ex_intro _ v (conj Hv Nv))) as (a & Ra & [P|P]); [exfalso; exact (Np a t P)|].
  exists a. split; [exact Ra|exact P].
Qed.

Lemma quiescent_clean3 b g : FInv3 c b g -> 0 < ctr (fs g) -> quiescent c (fs g) = true ->
  forall k x t, lvl (gi C x) < k -> x < n -> In t (gtargets C) ->
    (forall a, reachv c a x -> wd_has (wd g) a t = false) ->
    forall v, In v (outs c x) -> latest (sto (fs g)) t v = ev3 (rin (fs g)) t v.
Proof.
  intros I Hc Q. induction k as [|k IH]; intros x t Hk Hx Ht Cl v Hv; [lia|].
  destruct (quiescent_local3 b g I Hc Q x t Hx Ht) as [E|(a & Ra & Wa)].
  - rewrite (E v Hv). unfold lev. rewrite (ev3_unfold (rin (fs g)) t x v Hx Hv). f_equal.
    apply map_ext_in. intros i Hi. destruct (mv_ins c OK x i Hx Hi) as (Io & Pn & Pl & _).
    apply (IH (owner c i) t); [lia|exact Pn|exact Ht| |exact Io].
    intros a Ra. apply Cl. apply (reachv_step c a (owner c i) x); [exact Ra|]. exists i. auto.
  - rewrite (Cl a Ra) in Wa. discriminate.
Qed.

Theorem endstate_failures_mv es :
  hist_ok2 c (finit2 c) es = true ->
  let g := frun_all2 c (finit2 c) es in
  0 < ctr (fs g) -> quiescent c (fs g) = true ->
  (forall x t v, x < n -> In t (gtargets C) -> In v (outs c x) ->
     (forall a, reachv c a x -> wd_has (wd g) a t = false) ->
     latest (sto (fs g)) t v = lookup (eval_topo c (rin (fs g)) t) v) /\
  (forall x t, x < n -> In t (gtargets C) ->
     (forall v, In v (outs c x) -> latest (sto (fs g)) t v = lev c (fs g) t x v) \/
     exists a, reachv c a x /\ wd_has (wd g) a t = true) /\
  (forall x t k, In (x, t, k) (wd g) -> k = map (latest (sto (fs g)) t) (outs c x)).
Proof.
  intros H g Hc Q. destruct (hist_FInv3 es (finit2 c) 0%Z init_FInv3 H) as [b' I]. fold g in I.
  split; [|split].
  - intros x t v Hx Ht Hv Cl. rewrite (eval_topo_ev3 (rin (fs g)) t x v Hx Hv).
    apply (quiescent_clean3 b' g I Hc Q (S (lvl (gi C x))) x t); auto.
  - intros x t Hx Ht. apply (quiescent_local3 b' g I Hc Q x t Hx Ht).
  - intros x t k Hk. destruct (k_W c b' g I x t k Hk) as [_ E]. exact E.
Qed.

(* no failed run: nothing withdrawn, every value of every target from scratch *)
Corollary endstate_mv_nofail es :
  hist_ok2 c (finit2 c) (map F1 es) = true ->
  let f := frun_all c (finit c) es in
  0 < ctr f -> quiescent c f = true -> consistent c f = true.
Proof.
  intros H f Hc Q. pose proof (frun_all2_embed c es (finit2 c)) as E. cbn [finit2 fs] in E. fold f in E.
  assert (W : wd (frun_all2 c (finit2 c) (map F1 es)) = []) by (apply frun_all2_nofail_wd; reflexivity).
  rewrite <- E in Hc, Q. destruct (endstate_failures_mv (map F1 es) H Hc Q) as (A & _).
  rewrite E in A. unfold consistent. apply forallb_forall. intros t Ht. apply forallb_forall. intros v Hv.
  apply content_eqb_eq. unfold all_values in Hv. apply in_flat_map in Hv. destruct Hv as (x & Hx & Hv).
  apply in_seq in Hx. apply (A x t v); [lia|exact Ht|exact Hv|]. intros a _. rewrite W. reflexivity.
Qed.
End Main3.

(* ---- the class of Proofs/FlowInv.v (one value per algorithm) is inside the wider class ---- *)
Lemma flow_ok_mv_of_flow_ok c : flow_ok c = true -> flow_ok_mv c = true.
Proof.
  intros OK. unfold flow_ok_mv. rewrite !andb_true_iff. split; [split|].
  - apply forallb_forall. intros x Hx. apply in_seq in Hx. assert (Hn : x < nnodes (fc c)) by lia.
    unfold node_ok_mv. rewrite (ok_outs c OK x Hn). rewrite !andb_true_iff. repeat split.
    + cbn. rewrite (ok_owner c OK x Hn), Nat.eqb_refl. reflexivity.
    + rewrite (ok_task c OK x Hn). reflexivity.
    + apply forallb_forall. intros i Hi. destruct (ok_ins c OK x i Hn Hi) as (Pn & Pl & Pa).
      cbn zeta. rewrite (ok_owner c OK i Pn), (ok_outs c OK i Pn). cbn [mem existsb]. rewrite Nat.eqb_refl. cbn [orb andb].
      rewrite !andb_true_iff. split; [split|]; [apply Nat.ltb_lt; exact Pn|apply Nat.ltb_lt; exact Pl|apply mem_In; exact Pa].
    + apply forallb_forall. intros a Ha. destruct (ok_anc c OK x a Hn Ha) as (An & Al & Tr).
      rewrite !andb_true_iff. split; [split|]; [apply Nat.ltb_lt; exact An|apply Nat.ltb_lt; exact Al|].
      apply forallb_forall. intros a' Ha'. apply mem_In. apply Tr. exact Ha'.
    + apply forallb_forall. intros y Hy. apply in_seq in Hy. assert (Yn : y < nnodes (fc c)) by lia.
      apply eqb_true_iff. apply eq_iff_eq_true. rewrite mem_In, existsb_exists.
      rewrite (ok_kids c OK x y Hn Yn). split.
      * intros H. exists x. split; [exact H|]. cbn. rewrite Nat.eqb_refl. reflexivity.
      * intros (i & Hi & M). cbn in M. rewrite orb_false_r in M. apply Nat.eqb_eq in M. subst. exact Hi.
    + apply forallb_forall. intros y Hy. apply Nat.ltb_lt. apply (ok_kids_bound c OK x y Hn Hy).
  - rewrite (ok_fb c OK). reflexivity.
  - apply negb_true_iff. apply mem_false_In. apply (ok_all c OK).
Qed.
