(* C02 end state, minimality over a whole propagation: between two change
   events of a non-overlapping history every (algorithm, target) completes AT
   MOST ONE successful run (class flow_ok_mv, failed runs allowed).
   Model/Flow2.v, Proofs/Flow3Inv.v. *)
From Coq Require Import List Arith ZArith Bool Lia.
From DV Require Import Model.Sched Model.Flow Model.Flow2 Proofs.SchedLib Proofs.SchedBatch Proofs.SchedExact
     Proofs.FlowProofs Proofs.FlowInv Proofs.FlowSteps Proofs.Flow2Inv Proofs.Flow2Main Proofs.Flow3Inv
     Proofs.Flow3Main.
Import ListNotations.

(* number of successful runs of (x, t) in a history *)
Fixpoint nruns (c : fcfg) (g : fstate2) (es : list fev2) (x : node) (t : tgt) : nat :=
  match es with
  | [] => 0
  | e :: r =>
      match e with
      | F1 (FRun k) => match nth_error (cluster (sch (fs g))) k with
                       | Some m => if Nat.eqb (m_job m) x && Nat.eqb (m_tgt m) t then 1 else 0
                       | None => 0
                       end
      | _ => 0
      end + nruns c (fstep2 c g e) r x t
  end.

Definition nochg (es : list fev2) : bool :=
  forallb (fun e => match e with F1 (FChg _ _) => false | _ => true end) es.

(* ---- what the writes of one run leave in the primary table ---- *)
Lemma write_fold_fresh b r t base loaded u w : (b < r)%Z -> forall vs st bl vals,
  fresh b st u w -> fresh b (fst (fst (fold_left (write1 r t base loaded) vs (st, bl, vals)))) u w.
Proof.
  intros Hr. induction vs as [|a vs IH]; intros st bl vals F; cbn [fold_left]; [exact F|].
  cbn [write1]. apply IH. apply fresh_sput; assumption.
Qed.

Lemma write_fold_self b r t base loaded v : (b < r)%Z -> forall vs st bl vals, In v vs ->
  fresh b (fst (fst (fold_left (write1 r t base loaded) vs (st, bl, vals)))) t v.
Proof.
  intros Hr. induction vs as [|a vs IH]; intros st bl vals H; [destruct H|]. cbn [fold_left write1].
  destruct (Nat.eq_dec a v) as [->|Ne].
  - apply write_fold_fresh; [exact Hr|].
    exists {| e_rid := r; e_tgt := t; e_val := v; e_con := CVal v t base loaded |}.
    split; [apply In_sput; right; reflexivity|]. split; [apply same_key_iff; split; reflexivity|exact Hr].
  - destruct H as [H|H]; [congruence|]. apply IH. exact H.
Qed.

Lemma frun_sto c k f m : nth_error (cluster (sch f)) k = Some m ->
  sto (frun c k f) =
  fst (fst (fold_left (write1 (m_rid m) (m_tgt m) (base_of c (rin f) (m_job m) (m_tgt m))
                              (map (sload (sto f) (m_rid m) (m_tgt m)) (ins (gi (fc c) (m_job m)))))
                      (outs c (m_job m)) (sto f, blobs f, []))).
Proof.
  intros E. unfold frun. rewrite E.
  destruct (fold_left _ (outs c (m_job m)) (sto f, blobs f, [])) as [[st bl] vals]. reflexivity.
Qed.

Section Min.
Variable c : fcfg.
Hypothesis OK : flow_ok_mv c = true.
Local Notation C := (fc c).
Local Notation n := (nnodes (fc c)).

(* a unit that has stored since the last change event does not run again before the next *)
Lemma fresh_no_more_runs b x t v : x < n -> In v (outs c x) -> forall es g,
  FInv3 c b g -> nochg es = true -> fresh b (sto (fs g)) t v -> nruns c g es x t = 0.
Proof.
  intros Hx Hv. induction es as [|e es IH]; intros g I N F; [reflexivity|]. cbn [nruns].
  cbn [nochg forallb] in N. apply andb_true_iff in N. destruct N as [N1 N2].
  destruct e as [[names tgts| |k]|k]; [discriminate| | |]; cbn [fstep2 fstep].
  - rewrite (IH _ (tick_FInv3 c OK b g I) N2 F). reflexivity.
  - destruct (nth_error (cluster (sch (fs g))) k) as [m|] eqn:E; [|rewrite (IH g I N2 F); reflexivity].
    assert (Hr : (b < m_rid m)%Z) by (apply (k_msg c b g I); apply (nth_error_In _ _ E)).
    destruct (Nat.eqb (m_job m) x && Nat.eqb (m_tgt m) t) eqn:B.
    + exfalso. apply andb_true_iff in B. destruct B as [B1 B2]. apply Nat.eqb_eq in B1. apply Nat.eqb_eq in B2. subst x t.
      destruct (k_C c b g I (m_job m) (m_tgt m) v Hv Hx F) as [Np _]. apply Np. right.
      apply (k_exact c b g I). unfold units. apply in_map_iff. exists m. split; [reflexivity|].
      apply in_or_app. left. apply (nth_error_In _ _ E).
    + rewrite (IH _ (run_FInv3 c OK b g k m I E) N2); [reflexivity|]. cbn [fs].
      rewrite (frun_sto c k (fs g) m E). apply write_fold_fresh; assumption.
  - destruct (nth_error (cluster (sch (fs g))) k) as [m|] eqn:E; [|rewrite (IH g I N2 F); reflexivity].
    rewrite (IH _ (fail_FInv3 c OK b g k m I E) N2); [reflexivity|]. cbn [fs]. unfold ffail. rewrite E. exact F.
Qed.

Theorem one_run_per_event b x t : forall es g,
  FInv3 c b g -> nochg es = true -> nruns c g es x t <= 1.
Proof.
  induction es as [|e es IH]; intros g I N; [cbn; lia|]. cbn [nruns].
  cbn [nochg forallb] in N. apply andb_true_iff in N. destruct N as [N1 N2].
  destruct e as [[names tgts| |k]|k]; [discriminate| | |]; cbn [fstep2 fstep].
  - apply (IH _ (tick_FInv3 c OK b g I) N2).
  - destruct (nth_error (cluster (sch (fs g))) k) as [m|] eqn:E; [|apply (IH g I N2)].
    pose proof (run_FInv3 c OK b g k m I E) as I'.
    destruct (Nat.eqb (m_job m) x && Nat.eqb (m_tgt m) t) eqn:B; [|apply (IH _ I' N2)].
    apply andb_true_iff in B. destruct B as [B1 B2]. apply Nat.eqb_eq in B1. apply Nat.eqb_eq in B2. subst x t.
    assert (Hr : (b < m_rid m)%Z) by (apply (k_msg c b g I); apply (nth_error_In _ _ E)).
    assert (Hx : m_job m < n).
    { assert (P : pendp (sch (fs g)) (m_job m) (m_tgt m)).
      { right. apply (k_exact c b g I). unfold units. apply in_map_iff. exists m. split; [reflexivity|].
        apply in_or_app. left. apply (nth_error_In _ _ E). }
      destruct (k_T c b g I _ _ P) as [A _]. exact A. }
    destruct (mv_outs c OK (m_job m) Hx) as (Vne & _ & _).
    destruct (outs c (m_job m)) as [|v vr] eqn:Eo; [congruence|].
    assert (Hv : In v (outs c (m_job m))) by (rewrite Eo; left; reflexivity).
    rewrite (fresh_no_more_runs b (m_job m) (m_tgt m) v Hx Hv es _ I' N2); [lia|]. cbn [fs].
    rewrite (frun_sto c k (fs g) m E). apply write_fold_self; [exact Hr|exact Hv].
  - destruct (nth_error (cluster (sch (fs g))) k) as [m|] eqn:E; [|apply (IH g I N2)].
    apply (IH _ (fail_FInv3 c OK b g k m I E) N2).
Qed.

Lemma hist_ok2_prefix es1 es2 : forall g, hist_ok2 c g (es1 ++ es2) = true -> hist_ok2 c g es1 = true.
Proof.
  induction es1 as [|e es1 IH]; intros g H; [reflexivity|]. cbn [app hist_ok2] in *.
  apply andb_true_iff in H. destruct H as [H1 H2]. rewrite H1. cbn [andb]. apply IH. exact H2.
Qed.

(* in a whole history: after any prefix, as long as no further change event
   arrives, every (algorithm, target) completes at most one successful run *)
Theorem one_run_per_event_hist es1 es2 x t :
  hist_ok2 c (finit2 c) (es1 ++ es2) = true -> nochg es2 = true ->
  nruns c (frun_all2 c (finit2 c) es1) es2 x t <= 1.
Proof.
  intros H N. destruct (hist_FInv3 c OK es1 (finit2 c) 0%Z (init_FInv3 c) (hist_ok2_prefix es1 es2 _ H)) as [b I].
  apply (one_run_per_event b x t es2 _ I N).
Qed.
End Min.
