(* C02 end state: the engines the theorem is about, the reference evaluation,
   the invariant of one propagation and its preservation.  Model/Flow.v. *)
From Coq Require Import List Arith ZArith Bool Lia Permutation.
From DV Require Import Model.Sched Model.Flow Proofs.SchedLib Proofs.SchedOrg Proofs.SchedC02
     Proofs.SchedC05 Proofs.SchedC11 Proofs.SchedBatch Proofs.SchedExact Proofs.FlowProofs.
Import ListNotations.

(* ================= the class of engines ================= *)
(* task-only, no feedback, one value per algorithm (value id = node id),
   children = the algorithms that declare the node's value as input, levels
   increase along declared inputs, `ancestry` contains the declared inputs and
   is transitive, ALL is not a target name *)
Definition node_ok (c : fcfg) (x : node) : bool :=
  let C := fc c in let n := nnodes C in
  match outs c x with [v] => Nat.eqb v x | _ => false end
  && fac_eqb (gfac (gi C x)) Task
  && forallb (fun p => (p <? n) && (lvl (gi C p) <? lvl (gi C x)) && mem p (anc (gi C x))) (ins (gi C x))
  && forallb (fun a => (a <? n) && (lvl (gi C a) <? lvl (gi C x))
                       && forallb (fun a' => mem a' (anc (gi C x))) (anc (gi C a))) (anc (gi C x))
  && forallb (fun y => Bool.eqb (mem y (kids (gi C x))) (mem x (ins (gi C y)))) (seq 0 n)
  && forallb (fun y => y <? n) (kids (gi C x)).

Definition flow_ok (c : fcfg) : bool :=
  let C := fc c in
  forallb (node_ok c) (seq 0 (nnodes C))
  && match gfb C with [] => true | _ :: _ => false end
  && negb (mem ALL (gtargets C)).

Section Engine.
Variable c : fcfg.
Hypothesis OK : flow_ok c = true.
Let C := fc c.
Let n := nnodes C.

Lemma ok_fb : gfb C = [].
Proof.
  unfold flow_ok in OK. apply andb_true_iff in OK. destruct OK as [H _]. apply andb_true_iff in H.
  destruct H as [_ H]. fold C in H. destruct (gfb C); [reflexivity|discriminate].
Qed.

Lemma ok_all : ~ In ALL (gtargets C).
Proof.
  unfold flow_ok in OK. apply andb_true_iff in OK. destruct OK as [_ H]. apply negb_true_iff in H.
  apply mem_false_In. exact H.
Qed.

Lemma ok_node x : x < n -> node_ok c x = true.
Proof.
  intros Hx. unfold flow_ok in OK. apply andb_true_iff in OK. destruct OK as [H _]. apply andb_true_iff in H.
  destruct H as [H _]. rewrite forallb_forall in H. apply H. apply in_seq. fold C n. lia.
Qed.

Lemma ok_outs x : x < n -> outs c x = [x].
Proof.
  intros Hx. pose proof (ok_node x Hx) as H. unfold node_ok in H. rewrite !andb_true_iff in H.
  destruct H as [[[[[H _] _] _] _] _]. destruct (outs c x) as [|v [|w l]]; try discriminate.
  apply Nat.eqb_eq in H. subst. reflexivity.
Qed.

Lemma ok_task x : x < n -> gfac (gi C x) = Task.
Proof.
  intros Hx. pose proof (ok_node x Hx) as H. unfold node_ok in H. rewrite !andb_true_iff in H.
  destruct H as [[[[[_ H] _] _] _] _]. fold C in H. destruct (gfac (gi C x)); [reflexivity|discriminate|discriminate].
Qed.

Lemma ok_asp x : asp C x = false.
Proof.
  unfold asp. destruct (lt_dec x n) as [Hx|Hx]; [rewrite ok_task by exact Hx; reflexivity|].
  unfold gi. rewrite nth_overflow by (fold C in n; unfold n, nnodes in Hx; lia). reflexivity.
Qed.

Lemma ok_ins x p : x < n -> In p (ins (gi C x)) ->
  p < n /\ lvl (gi C p) < lvl (gi C x) /\ In p (anc (gi C x)).
Proof.
  intros Hx Hp. pose proof (ok_node x Hx) as H. unfold node_ok in H. rewrite !andb_true_iff in H.
  destruct H as [[[[_ H] _] _] _]. fold C n in H. rewrite forallb_forall in H. specialize (H p Hp).
  rewrite !andb_true_iff in H. destruct H as [[H1 H2] H3].
  apply Nat.ltb_lt in H1. apply Nat.ltb_lt in H2. apply mem_In in H3. auto.
Qed.

Lemma ok_anc x a : x < n -> In a (anc (gi C x)) ->
  a < n /\ lvl (gi C a) < lvl (gi C x) /\ forall a', In a' (anc (gi C a)) -> In a' (anc (gi C x)).
Proof.
  intros Hx Ha. pose proof (ok_node x Hx) as H. unfold node_ok in H. rewrite !andb_true_iff in H.
  destruct H as [[[_ H] _] _]. fold C n in H. rewrite forallb_forall in H. specialize (H a Ha).
  rewrite !andb_true_iff in H. destruct H as [[H1 H2] H3].
  apply Nat.ltb_lt in H1. apply Nat.ltb_lt in H2. split; [exact H1|]. split; [exact H2|].
  intros a' Ha'. rewrite forallb_forall in H3. apply mem_In. apply H3. exact Ha'.
Qed.

Lemma ok_kids x y : x < n -> y < n -> (In y (kids (gi C x)) <-> In x (ins (gi C y))).
Proof.
  intros Hx Hy. pose proof (ok_node x Hx) as H. unfold node_ok in H. rewrite !andb_true_iff in H.
  destruct H as [[_ H] _]. fold C n in H. rewrite forallb_forall in H.
  specialize (H y ltac:(apply in_seq; lia)). apply eqb_prop in H. rewrite <- !mem_In, H. reflexivity.
Qed.

Lemma ok_kids_bound x y : x < n -> In y (kids (gi C x)) -> y < n.
Proof.
  intros Hx Hy. pose proof (ok_node x Hx) as H. unfold node_ok in H. rewrite !andb_true_iff in H.
  destruct H as [_ H]. fold C n in H. rewrite forallb_forall in H. apply Nat.ltb_lt. apply H. exact Hy.
Qed.

Lemma ok_anc_irrefl x : x < n -> ~ In x (anc (gi C x)).
Proof. intros Hx H. destruct (ok_anc x x Hx H) as (_ & L & _). lia. Qed.

Lemma ok_owner v : v < n -> owner c v = v.
Proof.
  intros Hv. unfold owner. fold C n.
  destruct (find (fun x => mem v (outs c x)) (seq 0 n)) as [x|] eqn:F.
  - apply find_some in F. destruct F as [Hx M]. apply in_seq in Hx. rewrite ok_outs in M by lia.
    cbn in M. rewrite orb_false_r in M. apply Nat.eqb_eq in M. auto.
  - exfalso. assert (Hin : In v (seq 0 n)) by (apply in_seq; lia).
    pose proof (find_none _ _ F v Hin) as M. cbn beta in M. rewrite ok_outs in M by exact Hv.
    cbn in M. rewrite Nat.eqb_refl in M. discriminate.
Qed.

(* ================= the reference evaluation ================= *)
Definition ev (l : list (node * tgt * nat)) (t : tgt) (x : node) : content :=
  eval_rec c l (S (lvl (gi C x))) t x.

Lemma eval_rec_stable l t : forall f x, x < n -> lvl (gi C x) < f -> eval_rec c l f t x = ev l t x.
Proof.
  induction f as [f IH] using lt_wf_ind. intros x Hx Hf. unfold ev.
  destruct f as [|f]; [lia|]. cbn [eval_rec]. rewrite ok_owner by exact Hx. fold C. f_equal.
  apply map_ext_in. intros p Hp. destruct (ok_ins x p Hx Hp) as (Pn & Pl & _).
  rewrite (IH f) by lia. rewrite (IH (lvl (gi C x))) by lia. reflexivity.
Qed.

Lemma ev_unfold l t x : x < n ->
  ev l t x = CVal x t (base_of c l x t) (map (ev l t) (ins (gi C x))).
Proof.
  intros Hx. unfold ev at 1. cbn [eval_rec]. rewrite ok_owner by exact Hx. fold C. f_equal.
  apply map_ext_in. intros p Hp. destruct (ok_ins x p Hx Hp) as (Pn & Pl & _).
  apply eval_rec_stable; assumption.
Qed.

Lemma hasver_ev_bound l V : (forall x t, rin_get l x t <= V) ->
  forall k, V < k -> forall f t x, hasver k (eval_rec c l f t x) = false.
Proof.
  intros B k Hk. induction f as [|f IH]; intros t x; cbn [eval_rec hasver]; [reflexivity|].
  apply orb_false_iff. split.
  - apply Nat.eqb_neq. unfold base_of. destruct (ins (gi (fc c) (owner c x))); [specialize (B (owner c x) t)|]; lia.
  - apply not_true_is_false. intros H. apply existsb_exists in H.
    destruct H as (y & Hy & H). apply in_map_iff in Hy. destruct Hy as (p & <- & _).
    rewrite IH in H. discriminate.
Qed.
End Engine.

(* ================= scheduler facts used below (any engine) ================= *)
Lemma organize_rid c names r tg : forall s y, length (ns s) = nnodes c ->
  rid (getn (ns (organize c names r tg s)) y) =
  if mem y names && (y <? nnodes c) then r else rid (getn (ns s) y).
Proof.
  intros s y Hl. unfold organize. cbn [ns set_que].
  revert s Hl. induction names as [|x names IH]; intros s Hl; cbn [fold_left].
  - reflexivity.
  - rewrite IH by (rewrite organize1_len; exact Hl). rewrite mem_cons.
    destruct (mem y names && (y <? nnodes c)) eqn:M.
    + apply andb_true_iff in M. destruct M as [M1 M2]. rewrite M1, M2, orb_true_r. reflexivity.
    + rewrite organize1_getn. rewrite Hl.
      destruct (Nat.eqb x y) eqn:E.
      * apply Nat.eqb_eq in E. subst x. rewrite Nat.eqb_refl. cbn [orb andb].
        destruct (y <? nnodes c); cbn [andb]; reflexivity.
      * rewrite Nat.eqb_sym, E. cbn [andb orb]. rewrite M. reflexivity.
Qed.

Lemma res_success_rid c x t r vs s y : mem x (que s) = true -> length (ns s) = nnodes c -> vs <> [] ->
  fb_consumers c vs = [] ->
  (y < nnodes c /\ consumer c x vs y -> rid (getn (ns (fst (res c x t r Success vs s))) y) = Some r) /\
  (~ (y < nnodes c /\ consumer c x vs y) ->
   rid (getn (ns (fst (res c x t r Success vs s))) y) = rid (getn (ns s) y)).
Proof.
  intros Hq Hl Hv Hf. rewrite (res_success_eq c x t r vs s Hq). cbn [fst].
  rewrite update_unfold by exact Hv. rewrite Hf.
  set (s3 := set_archive _ _).
  assert (Hl3 : length (ns s3) = nnodes c)
    by (unfold s3; cbn [ns set_archive]; rewrite ns_complete; cbn [ns set_busy]; rewrite setn_length; exact Hl).
  rewrite organize_rid by exact Hl3.
  assert (R3 : rid (getn (ns s3) y) = rid (getn (ns s) y)).
  { unfold s3. cbn [ns set_archive]. rewrite ns_complete. cbn [ns set_busy]. rewrite getn_setn.
    destruct (Nat.eqb x y && _) eqn:E; [|reflexivity].
    apply andb_true_iff in E. destruct E as [E _]. apply Nat.eqb_eq in E. subst y. reflexivity. }
  match goal with |- context [mem y ?nm] => destruct (mem y nm) eqn:M end.
  - apply mem_In in M. pose proof M as M'. rewrite <- Hf in M'. apply (update_names c vs x y Hv) in M'.
    destruct M' as [Hy Hc]. assert (L : y <? nnodes c = true) by (apply Nat.ltb_lt; exact Hy). rewrite L. cbn [andb].
    split; [reflexivity|]. intros N. exfalso. apply N. split; assumption.
  - cbn [andb]. split; [|intros _; exact R3].
    intros H. exfalso. apply (update_names c vs x y Hv) in H. rewrite Hf in H. apply mem_In in H. congruence.
Qed.

Lemma release_rid c q acc x y : rid (getn (fst (release c q acc x)) y) = rid (getn (fst acc) y).
Proof.
  destruct acc as [l rel]. cbn [fst]. unfold release. destruct (todo (getn l x)); [reflexivity|].
  cbn [fst]. rewrite getn_setn. destruct (Nat.eqb x y && _) eqn:E; [|reflexivity].
  apply andb_true_iff in E. destruct E as [E _]. apply Nat.eqb_eq in E. subst y. reflexivity.
Qed.

Lemma release_fold_rid c q xs : forall acc y,
  rid (getn (fst (fold_left (release c q) xs acc)) y) = rid (getn (fst acc) y).
Proof.
  induction xs as [|x xs IH]; intros acc y; cbn [fold_left]; [reflexivity|].
  rewrite IH. apply release_rid.
Qed.

Lemma njb_rid c s y : rid (getn (ns (fst (next_job_batch c s))) y) = rid (getn (ns s) y).
Proof.
  unfold next_job_batch. destruct (paused s); [reflexivity|].
  pose proof (release_fold_rid c (que s) (que s) (ns s, []) y) as P. cbn [fst] in P.
  destruct (fold_left (release c (que s)) (que s) (ns s, [])) as [l rel]. exact P.
Qed.

Lemma put_job_rid c acc x y :
  rid (getn (ns (fst (put_job c acc x))) y) = rid (getn (ns (fst acc)) y).
Proof.
  destruct acc as [s o]. unfold put_job. cbn [fst].
  destruct (rid (getn (ns s) x)) eqn:R; cbn [fst ns set_farm set_ns]; rewrite getn_setn;
  (destruct (Nat.eqb x y && _) eqn:B; [|reflexivity]);
  apply andb_true_iff in B; destruct B as [B _]; apply Nat.eqb_eq in B; subst y; cbn [rid]; congruence.
Qed.

Lemma put_jobs_rid_same c js : forall acc y,
  rid (getn (ns (fst (fold_left (put_job c) js acc))) y) = rid (getn (ns (fst acc)) y).
Proof.
  induction js as [|x js IH]; intros acc y; cbn [fold_left]; [reflexivity|].
  rewrite IH. apply put_job_rid.
Qed.

Lemma put_jobs_rid c js : forall s o s' o',
  fold_left (put_job c) js (s, o) = (s', o') ->
  exists ms, cluster s' = cluster s ++ ms /\
    forall m, In m ms -> gfac (gi c (m_job m)) <> Regress ->
      m_rid m = match rid (getn (ns s) (m_job m)) with Some r => r | None => (stored s + 1)%Z end.
Proof.
  induction js as [|x js IH]; intros s o s' o' H; cbn [fold_left] in H.
  - inversion H; subst. exists []. rewrite app_nil_r. split; [reflexivity|]. intros m [].
  - destruct (put_job c (s, o) x) as [s1 o1] eqn:P.
    pose proof (put_job_rid c (s, o) x) as R. rewrite P in R. cbn [fst] in R.
    apply put_job_cluster in P. destruct P as (ms & C1 & M1 & _ & _ & _ & _ & S1 & _).
    apply IH in H. destruct H as (ms2 & C2 & M2).
    exists (ms ++ ms2). split; [rewrite C2, C1, app_assoc; reflexivity|].
    intros m Hm G. apply in_app_or in Hm. destruct Hm as [Hm|Hm].
    + destruct (M1 m Hm) as (J & _ & _ & Rr). rewrite J in *. apply Rr. exact G.
    + rewrite (M2 m Hm G), R, S1. reflexivity.
Qed.

(* one tick with no hand: nothing leaves the cluster; what is added *)
Lemma dispatch_flow c s : workers s = [] -> active s = true -> I_do s ->
  let s' := fst (dispatch c s) in
  inflight s' = inflight s /\ stored s' = stored s /\
  forall m, In m (cluster s') -> In m (cluster s) \/
    (gfac (gi c (m_job m)) = Task ->
     m_rid m = match rid (getn (ns s) (m_job m)) with Some r => r | None => (stored s + 1)%Z end /\
     In (m_tgt m) (todo (getn (ns s) (m_job m)))).
Proof.
  intros Hw Ha [Hj Hd]. cbn zeta. unfold dispatch. rewrite Ha. cbn [negb].
  destruct (next_job_batch c s) as [s1 rel] eqn:N.
  destruct (njb_farm _ _ _ _ N) as (W1 & F1 & B1 & C1 & J1 & A1 & S1 & R1).
  assert (NB1 : forall y t, In t (do_ (getn (ns s1) y)) -> exists l, pend_eq l (ns s) /\ In t (avail c l (que s) y)).
  { unfold next_job_batch in N. destruct (paused s).
    - inversion N; subst. intros y t H. rewrite Hd in H. contradiction.
    - pose proof (fold_new_do c (que s) (que s) (ns s, [])) as F. cbn [fst snd] in F.
      destruct (fold_left (release c (que s)) (que s) (ns s, [])) as [l r0]. inversion N; subst.
      cbn [ns set_ns]. intros y t H. destruct (F y) as [A _]. apply A in H.
      destruct H as [H|H]; [rewrite Hd in H; contradiction|exact H]. }
  assert (Rs1 : forall y, rid (getn (ns s1) y) = rid (getn (ns s) y)).
  { intros y. pose proof (njb_rid c s y) as Q. rewrite N in Q. exact Q. }
  set (s2 := set_farm s1 (jobs s1 ++ rel) (cluster s1) (busy s1) (workers s1) (inflight s1)).
  set (o0 := if archive s2 && _ then [OArchive] else []).
  destruct (fold_left (put_job c) (jobs s2) (s2, o0)) as [s3 o1] eqn:P.
  pose proof P as P2. apply put_jobs_inv in P2. destruct P2 as (W3 & F3 & B3 & _ & S3 & _ & _).
  pose proof P as P3. apply put_jobs_msgs in P3. destruct P3 as (ms & C3 & M3).
  apply put_jobs_rid in P. destruct P as (ms' & C3' & M3').
  assert (ms' = ms) by (rewrite C3 in C3'; apply app_inv_head in C3'; auto). subst ms'.
  assert (Ws : workers s3 = []) by (rewrite W3; unfold s2; cbn; rewrite W1; exact Hw).
  rewrite Ws. cbn [workers_sort workers_sort_aux length].
  destruct (cluster_sort (cluster s3)) as [|m0 cl0] eqn:CS; cbn [hand_out].
  - assert (TI : forall b0 : bool, let r := (if b0 then (set_flags (set_farm s3 (jobs s3) [] (busy s3) [] (inflight s3)) false (paused s3) (stored s3), o1 ++ map (fun p => OAbort (fst p)) (@nil (wid * nat)))
                 else (set_farm s3 (jobs s3) [] (busy s3) [] (inflight s3), o1 ++ map (fun p => OWait (fst p)) (@nil (wid * nat)))) in
                 inflight (fst r) = inflight s3 /\ stored (fst r) = stored s3 /\ cluster (fst r) = [])
      by (intros [|]; cbn; auto).
    match goal with |- context [if ?b then _ else _] => destruct (TI b) as (T1 & T2 & T3) end.
    rewrite T1, T2, T3. split; [rewrite F3; unfold s2; cbn; exact F1|].
    split; [rewrite S3; unfold s2; cbn; exact S1|]. intros m [].
  - assert (TI : forall b0 : bool, let r := (if b0 then (set_flags (set_farm s3 (jobs s3) (m0 :: cl0) (busy s3) [] (inflight s3)) false (paused s3) (stored s3), o1 ++ map (fun p => OAbort (fst p)) (@nil (wid * nat)))
                 else (set_farm s3 (jobs s3) (m0 :: cl0) (busy s3) [] (inflight s3), o1 ++ map (fun p => OWait (fst p)) (@nil (wid * nat)))) in
                 inflight (fst r) = inflight s3 /\ stored (fst r) = stored s3 /\ cluster (fst r) = m0 :: cl0)
      by (intros [|]; cbn; auto).
    match goal with |- context [if ?b then _ else _] => destruct (TI b) as (T1 & T2 & T3) end.
    rewrite T1, T2, T3. split; [rewrite F3; unfold s2; cbn; exact F1|].
    split; [rewrite S3; unfold s2; cbn; exact S1|].
    intros m Hm. rewrite <- CS in Hm. apply (Permutation_in _ (cluster_sort_perm _)) in Hm.
    rewrite C3 in Hm. unfold s2 in Hm. cbn [cluster set_farm] in Hm. rewrite C1 in Hm.
    apply in_app_or in Hm. destruct Hm as [Hm|Hm]; [left; exact Hm|]. right. intros G.
    destruct (M3 m Hm) as (J & K & T). split.
    + rewrite (M3' m Hm) by congruence. unfold s2. cbn [ns set_farm stored]. rewrite Rs1, S1. reflexivity.
    + assert (NA : gfac (gi c (m_job m)) <> Analysis) by congruence.
      specialize (T NA). unfold s2 in T. cbn [ns set_farm] in T.
      destruct (NB1 _ _ T) as (l & [Pq Dm] & Av). apply avail_sub in Av. destruct Av as [Av1 Av2].
      assert (Pt : pend l (m_job m) (m_tgt m) = true) by (unfold pend; apply orb_true_iff; left; apply mem_In; exact Av1).
      rewrite Pq in Pt. unfold pend in Pt. apply orb_true_iff in Pt. rewrite !mem_In in Pt.
      destruct Pt as [Pt|Pt]; [exact Pt|]. exfalso. apply Av2. apply Dm. exact Pt.
Qed.

(* ================= the invariant of one propagation ================= *)
Definition pendp (s : state) (x : node) (t : tgt) : Prop :=
  In t (todo (getn (ns s) x)) \/ In t (doing (getn (ns s) x)).
Definition fresh (b : Z) (st : store) (t : tgt) (x : node) : Prop :=
  exists e, In e st /\ same_key e t x = true /\ (b < e_rid e)%Z.

Section Invariant.
Variable c : fcfg.
Hypothesis OK : flow_ok c = true.
Let C := fc c.
Let n := nnodes C.

Definition stale (f : fstate) (t : tgt) (x : node) : Prop := latest (sto f) t x <> ev c (rin f) t x.

(* b = the highest run id in the store when the current change event arrived *)
Record FInv (b : Z) (f : fstate) : Prop := {
  i_sched : SchedBatch.Inv C (sch f);
  i_exact : exact (sch f);
  i_single : single (sch f);
  i_nq : NoDup (que (sch f));
  i_infl : inflight (sch f) = [];
  i_b : (b <= stored (sch f))%Z;
  i_sto : forall e, In e (sto f) -> (e_rid e <= stored (sch f))%Z;
  i_msg : forall m, In m (cluster (sch f)) -> (b < m_rid m)%Z;
  i_rid : forall x t, In t (todo (getn (ns (sch f)) x)) ->
            match rid (getn (ns (sch f)) x) with None => True | Some r => (b < r)%Z end;
  i_A : 0 < ctr f -> forall x t, x < n -> In t (gtargets C) -> stale f t x ->
          pendp (sch f) x t \/ exists p, In p (ins (gi C x)) /\ (stale f t p \/ pendp (sch f) p t);
  i_B : forall x t a, In t (doing (getn (ns (sch f)) x)) -> In a (anc (gi C x)) -> ~ pendp (sch f) a t;
  i_C : forall x t, fresh b (sto f) t x ->
          ~ pendp (sch f) x t /\ forall a, In a (anc (gi C x)) -> ~ pendp (sch f) a t;
  i_D : forall x t, In t (doing (getn (ns (sch f)) x)) -> ~ In t (todo (getn (ns (sch f)) x));
  i_T : forall x t, pendp (sch f) x t ->
          x < n /\ In t (gtargets C) /\ hasver (ctr f) (ev c (rin f) t x) = true;
  i_N : forall x t k i, In (CVal x t k i) (blobs f) -> hasver (ctr f) (CVal x t k i) = true ->
          fresh b (sto f) t x;
  i_U : forall t v e1 e2, In e1 (sto f) -> In e2 (sto f) -> same_key e1 t v = true -> same_key e2 t v = true ->
          (b < e_rid e1)%Z -> (b < e_rid e2)%Z -> e1 = e2;
  i_Gb : forall x' k, In x' (blobs f) -> ctr f < k -> hasver k x' = false;
  i_Gr : forall x t, rin_get (rin f) x t <= ctr f;
  i_0 : ctr f = 0 -> sto f = [] /\ forall x t, ~ pendp (sch f) x t
}.

Lemma pendp_bool s x t : pendp s x t <-> pend (ns s) x t = true.
Proof. unfold pendp, pend. rewrite orb_true_iff, !mem_In. reflexivity. Qed.

(* ---- nothing pending above a node => the node is not stale ---- *)
Lemma settled_not_stale b f : FInv b f -> 0 < ctr f -> forall k x t, lvl (gi C x) < k -> x < n -> In t (gtargets C) ->
  ~ pendp (sch f) x t -> (forall a, In a (anc (gi C x)) -> ~ pendp (sch f) a t) -> ~ stale f t x.
Proof.
  intros I Hc. induction k as [|k IH]; intros x t Hk Hx Ht Np Na St; [lia|].
  destruct (i_A b f I Hc x t Hx Ht St) as [P|(p & Hp & [P|P])].
  - contradiction.
  - destruct (ok_ins c OK x p Hx Hp) as (Pn & Pl & Pa). fold C in Pl, Pa.
    apply (IH p t); try assumption; [lia|apply Na; exact Pa|].
    intros a Ha. apply Na. destruct (ok_anc c OK x p Hx Pa) as (_ & _ & Tr). apply Tr. exact Ha.
  - destruct (ok_ins c OK x p Hx Hp) as (_ & _ & Pa). apply (Na p Pa). exact P.
Qed.

Lemma quiescent_spec f : length (ns (sch f)) = n -> quiescent c f = true ->
  cluster (sch f) = [] /\ jobs (sch f) = [] /\ forall x t, ~ pendp (sch f) x t.
Proof.
  intros Hl Q. unfold quiescent in Q. destruct (cluster (sch f)); [|discriminate].
  destruct (jobs (sch f)); [|discriminate]. split; [reflexivity|]. split; [reflexivity|].
  intros x t P. destruct (lt_dec x n) as [Hx|Hx].
  - rewrite forallb_forall in Q. specialize (Q x ltac:(apply in_seq; fold C n; lia)).
    destruct (todo (getn (ns (sch f)) x)) eqn:E1; [|discriminate].
    destruct (doing (getn (ns (sch f)) x)) eqn:E2; [|discriminate].
    destruct P as [P|P]; [rewrite E1 in P|rewrite E2 in P]; contradiction.
  - unfold pendp in P. rewrite getn_oob in P by (rewrite Hl; lia). destruct P as [[]|[]].
Qed.

Lemma quiescent_consistent_prop b f : FInv b f -> 0 < ctr f -> quiescent c f = true ->
  forall x t, x < n -> In t (gtargets C) -> latest (sto f) t x = ev c (rin f) t x.
Proof.
  intros I Hc Q x t Hx Ht. destruct (i_sched b f I) as (Hl & _).
  destruct (quiescent_spec f Hl Q) as (_ & _ & Np).
  destruct (content_eq_dec (latest (sto f) t x) (ev c (rin f) t x)) as [E|E]; [exact E|].
  exfalso. apply (settled_not_stale b f I Hc (S (lvl (gi C x))) x t); auto.
Qed.
End Invariant.
