(* C02 end state: histories, and the reference evaluation in dependency order.
   Model/Flow.v. *)
From Coq Require Import List Arith ZArith Bool Lia Permutation Sorted.
From DV Require Import Model.Sched Model.Flow Proofs.SchedLib Proofs.SchedOrg Proofs.SchedC02
     Proofs.SchedC05 Proofs.SchedC11 Proofs.SchedBatch Proofs.SchedExact Proofs.FlowProofs Proofs.FlowInv
     Proofs.FlowSteps.
Import ListNotations.

(* ---- the level order ---- *)
Definition lvl_le (c : cfg) (a b : node) : Prop := lvl (gi c a) <= lvl (gi c b).

Lemma ins_lvl_sorted c x l : StronglySorted (lvl_le c) l -> StronglySorted (lvl_le c) (ins_lvl c x l).
Proof.
  induction l as [|y r IH]; intros S; cbn [ins_lvl].
  - constructor; constructor.
  - inversion S as [|? ? Sr Fy]; subst. destruct (lvl (gi c x) <? lvl (gi c y)) eqn:E.
    + apply Nat.ltb_lt in E. constructor; [exact S|]. constructor; [unfold lvl_le; lia|].
      rewrite Forall_forall in *. intros z Hz. specialize (Fy z Hz). unfold lvl_le in *. lia.
    + apply Nat.ltb_ge in E. constructor; [apply IH; exact Sr|].
      rewrite Forall_forall in *. intros z Hz. apply In_ins_lvl in Hz. destruct Hz as [->|Hz].
      * unfold lvl_le. lia.
      * apply Fy. exact Hz.
Qed.

Lemma sort_lvl_sorted c l : StronglySorted (lvl_le c) (sort_lvl c l).
Proof.
  unfold sort_lvl. assert (G : forall acc, StronglySorted (lvl_le c) acc ->
    StronglySorted (lvl_le c) (fold_left (fun a x => ins_lvl c x a) l acc)).
  { induction l as [|x l IH]; intros acc S; cbn [fold_left]; [exact S|]. apply IH. apply ins_lvl_sorted. exact S. }
  apply G. constructor.
Qed.

Section Main.
Variable c : fcfg.
Hypothesis OK : flow_ok c = true.
Local Notation C := (fc c).
Local Notation n := (nnodes (fc c)).

(* ---- the from-scratch run in dependency order computes ev ---- *)
Definition tinv (l : list (node * tgt * nat)) (t : tgt) (done : list node) (m : list (vname * content)) : Prop :=
  (forall v, In v done -> lookup m v = ev c l t v) /\
  (forall v, ~ In v done -> find (fun p => Nat.eqb (fst p) v) m = None).

Lemma lookup_app1 m x cx v :
  lookup (m ++ [(x, cx)]) v =
  match find (fun p => Nat.eqb (fst p) v) m with
  | Some p => snd p
  | None => if Nat.eqb x v then cx else CNone
  end.
Proof.
  unfold lookup. rewrite find_app2. match goal with |- context [find ?P m] => destruct (find P m) end; [reflexivity|]. cbn [find fst].
  destruct (Nat.eqb x v); reflexivity.
Qed.

Lemma eval_fold l t : forall rest done m,
  (forall y, In y rest -> y < n) -> StronglySorted (lvl_le C) rest -> NoDup rest ->
  (forall y, In y rest -> ~ In y done) -> (forall p, p < n -> In p done \/ In p rest) ->
  tinv l t done m -> tinv l t (done ++ rest) (fold_left (eval_node c l t) rest m).
Proof.
  induction rest as [|x rest IH]; intros done m H1 H2 H3 H3' H4 [Ia Ib]; cbn [fold_left].
  - rewrite app_nil_r. split; assumption.
  - inversion H2 as [|? ? Sr Fx]; subst. inversion H3 as [|? ? Nx Nr]; subst.
    assert (Hx : x < n) by (apply H1; left; reflexivity).
    assert (Pd : forall p, In p (ins (gi C x)) -> In p done).
    { intros p Hp. destruct (ok_ins c OK x p Hx Hp) as (Pn & Pl & _).
      destruct (H4 p Pn) as [D|[->|R]]; [exact D|lia|].
      rewrite Forall_forall in Fx. specialize (Fx p R). unfold lvl_le in Fx. lia. }
    assert (E1 : eval_node c l t m x = m ++ [(x, ev c l t x)]).
    { unfold eval_node. rewrite (ok_outs c OK x Hx). cbn [map]. f_equal. f_equal. f_equal.
      rewrite (ev_unfold c OK l t x Hx). f_equal. apply map_ext_in. intros p Hp. apply Ia. apply Pd. exact Hp. }
    rewrite E1. replace (done ++ x :: rest) with ((done ++ [x]) ++ rest) by (rewrite <- app_assoc; reflexivity).
    apply IH.
    + intros y Hy. apply H1. right. exact Hy.
    + exact Sr.
    + exact Nr.
    + intros y Hy Hd. apply in_app_or in Hd. destruct Hd as [Hd|[->|[]]]; [apply (H3' y (or_intror Hy) Hd)|contradiction].
    + intros p Hp. destruct (H4 p Hp) as [D|[->|R]]; [left; apply in_or_app; left; exact D|
                                                      left; apply in_or_app; right; left; reflexivity|right; exact R].
    + split.
      * intros v Hv. rewrite lookup_app1. apply in_app_or in Hv. destruct Hv as [Hv|[->|[]]].
        -- pose proof (Ia v Hv) as A. unfold lookup in A. revert A.
           match goal with |- context [find ?P m] => destruct (find P m) as [p|] end; intros A; [exact A|].
           exfalso. assert (Hvn : v < n).
           { destruct (lt_dec v n) as [L|L]; [exact L|]. exfalso. destruct (H4 x Hx) as [D|_].
             - apply (H3' x (or_introl eq_refl) D).
             - (* v in done but out of range: the reference value is still a CVal *)
               unfold ev in A. cbn [eval_rec] in A. discriminate. }
           rewrite (ev_unfold c OK l t v Hvn) in A. discriminate.
        -- rewrite Ib by (apply H3'; left; reflexivity). rewrite Nat.eqb_refl. reflexivity.
      * intros v Hv. rewrite find_app2. rewrite Ib by (intros D; apply Hv; apply in_or_app; left; exact D).
        cbn [find fst]. destruct (Nat.eqb x v) eqn:E; [|reflexivity].
        apply Nat.eqb_eq in E. subst v. exfalso. apply Hv. apply in_or_app. right. left. reflexivity.
Qed.

Lemma eval_topo_ev l t v : v < n -> lookup (eval_topo c l t) v = ev c l t v.
Proof.
  intros Hv. unfold eval_topo, topo_order.
  assert (T : tinv l t ([] ++ sort_lvl C (seq 0 n)) (fold_left (eval_node c l t) (sort_lvl C (seq 0 n)) [])).
  { apply eval_fold.
    - intros y Hy. apply In_sort_lvl in Hy. apply in_seq in Hy. lia.
    - apply sort_lvl_sorted.
    - apply (Permutation_NoDup (Permutation_sym (sort_lvl_perm C (seq 0 n)))). apply seq_NoDup.
    - intros y _ [].
    - intros p Hp. right. apply In_sort_lvl. apply in_seq. lia.
    - split; [intros v0 []|intros; reflexivity]. }
  destruct T as [Ta _]. apply Ta. cbn [app]. apply In_sort_lvl. apply in_seq. lia.
Qed.

Lemma all_values_bound v : In v (all_values c) -> v < n.
Proof.
  unfold all_values. intros H. apply in_flat_map in H. destruct H as (x & Hx & Hv). apply in_seq in Hx.
  rewrite (ok_outs c OK x) in Hv by lia. destruct Hv as [<-|[]]. lia.
Qed.

(* ---- the empty pipeline ---- *)
Lemma init_FInv : FInv c 0 (finit c).
Proof.
  assert (Np : forall x t, ~ pendp (init C) x t).
  { intros x t [H|H]; cbn [init ns] in H; rewrite getn_repeat in H; destruct H. }
  destruct (init_exact C) as (Ex & Sg & Nq).
  constructor; cbn [finit sch sto blobs ctr rin].
  - apply init_Inv.
  - exact Ex.
  - exact Sg.
  - exact Nq.
  - reflexivity.
  - cbn. lia.
  - intros e [].
  - intros m [].
  - intros x t H. cbn [init ns] in H. rewrite getn_repeat in H. destruct H.
  - intros H. lia.
  - intros x t a H. exfalso. apply (Np x t). right. exact H.
  - intros x t (e & [] & _).
  - intros x t H. exfalso. apply (Np x t). right. exact H.
  - intros x t P. exfalso. apply (Np x t P).
  - intros x t k i [].
  - intros t v e1 e2 [].
  - intros x' k [].
  - intros x t. cbn. lia.
  - intros _. split; [reflexivity|exact Np].
Qed.

(* ---- histories whose change events do not overlap ----
   every change event arrives at a quiescent pipeline, names algorithms without
   declared inputs and known targets; the first one names all of them (nothing
   has been computed before) *)
Fixpoint hist_ok (f : fstate) (es : list fev) : bool :=
  match es with
  | [] => true
  | e :: r =>
      match e with
      | FChg names tgts => quiescent c f && chg_ok c f names tgts
      | _ => true
      end && hist_ok (fstep c f e) r
  end.

Lemma hist_ok_nonoverlap es : forall f, hist_ok f es = true -> nonoverlap c f es = true.
Proof.
  induction es as [|e es IH]; intros f H; cbn [hist_ok nonoverlap] in *; [reflexivity|].
  apply andb_true_iff in H. destruct H as [H1 H2]. apply andb_true_iff. split; [|apply IH; exact H2].
  destruct e; try reflexivity. apply andb_true_iff in H1. tauto.
Qed.

Lemma hist_FInv es : forall f b, FInv c b f -> hist_ok f es = true -> exists b', FInv c b' (frun_all c f es).
Proof.
  induction es as [|e es IH]; intros f b I H; cbn [hist_ok frun_all fold_left] in *; [exists b; exact I|].
  apply andb_true_iff in H. destruct H as [H1 H2].
  destruct e as [names tgts| |k]; cbn [fstep] in *.
  - apply andb_true_iff in H1. destruct H1 as [Q K].
    apply (IH _ (stored (sch f))); [apply (chg_FInv c OK b); assumption|exact H2].
  - apply (IH _ b); [apply (tick_FInv c OK); exact I|exact H2].
  - apply (IH _ b); [apply (run_FInv c OK); exact I|exact H2].
Qed.

Lemma FInv_consistent b f : FInv c b f -> 0 < ctr f -> quiescent c f = true -> consistent c f = true.
Proof.
  intros I Hc Q. unfold consistent. apply forallb_forall. intros t Ht. apply forallb_forall. intros v Hv.
  apply content_eqb_eq. pose proof (all_values_bound v Hv) as Hn.
  rewrite (eval_topo_ev (rin f) t v Hn).
  apply (quiescent_consistent_prop c OK b f I Hc Q v t Hn Ht).
Qed.

Theorem endstate_nonoverlap es :
  hist_ok (finit c) es = true ->
  let f := frun_all c (finit c) es in
  0 < ctr f -> quiescent c f = true -> consistent c f = true.
Proof.
  intros H f Hc Q. destruct (hist_FInv es (finit c) 0%Z init_FInv H) as [b' I].
  apply (FInv_consistent b' f I Hc Q).
Qed.

(* from any state reached that way: one more change event and its propagation *)
Theorem endstate_one_event b f names tgts es :
  FInv c b f -> quiescent c f = true -> chg_ok c f names tgts = true ->
  hist_ok (fchg c names tgts f) es = true ->
  let f' := frun_all c (fchg c names tgts f) es in
  quiescent c f' = true -> consistent c f' = true.
Proof.
  intros I Q K H f' Q'.
  destruct (hist_FInv es _ _ (chg_FInv c OK b f names tgts I Q K) H) as [b' I'].
  apply (FInv_consistent b' f' I'); [|exact Q'].
  (* the counter only grows *)
  assert (G : forall es0 g, 0 < ctr g -> 0 < ctr (frun_all c g es0)).
  { induction es0 as [|e es0 IH0]; intros g Hg; cbn [frun_all fold_left]; [exact Hg|]. apply IH0.
    destruct e as [nm tg| |k]; cbn [fstep fchg ftick ctr]; try lia; try exact Hg.
    unfold frun. destruct (nth_error _ _); [|exact Hg].
    destruct (fold_left _ _ _) as [[st bl] vals]. cbn [ctr]. exact Hg. }
  apply G. cbn [fchg ctr]. lia.
Qed.
End Main.
