(* C02, end-state clause: for task-only engines with one value per algorithm and
   change events that do not overlap, the latest stored content of every
   (target, value) at quiescence is the from-scratch evaluation.  Model/Flow.v. *)
From Coq Require Import List Arith ZArith Bool Lia Permutation.
From DV Require Import Model.Sched Model.Flow Proofs.SchedLib Proofs.SchedOrg Proofs.SchedC02
     Proofs.SchedC11 Proofs.SchedBatch Proofs.SchedExact.
Import ListNotations.

(* ================= contents ================= *)
Section ContentInd.
Variable P : content -> Prop.
Hypothesis HN : P CNone.
Hypothesis HV : forall v t k l, Forall P l -> P (CVal v t k l).
Fixpoint content_ind2 (c : content) : P c :=
  match c with
  | CNone => HN
  | CVal v t k l =>
      HV v t k l ((fix F (l : list content) : Forall P l :=
                     match l with
                     | [] => Forall_nil P
                     | x :: r => Forall_cons x (content_ind2 x) (F r)
                     end) l)
  end.
End ContentInd.

Fixpoint clist_eqb (x y : list content) : bool :=
  match x, y with
  | [], [] => true
  | p :: x', q :: y' => content_eqb p q && clist_eqb x' y'
  | _, _ => false
  end.

Lemma content_eqb_unfold v t k i v' t' k' i' :
  content_eqb (CVal v t k i) (CVal v' t' k' i') =
  Nat.eqb v v' && Nat.eqb t t' && Nat.eqb k k' && clist_eqb i i'.
Proof.
  cbn [content_eqb]. f_equal.
Qed.

Lemma content_eqb_eq a : forall b, content_eqb a b = true <-> a = b.
Proof.
  induction a as [|v t k l F] using content_ind2; intros [|v' t' k' l'].
  - cbn. tauto.
  - cbn. split; discriminate.
  - cbn. split; discriminate.
  - rewrite content_eqb_unfold.
    assert (L : forall l', clist_eqb l l' = true <-> l = l').
    { clear -F. induction F as [|p l Hp F IH]; intros [|q l']; cbn [clist_eqb]; try (split; [reflexivity|reflexivity]);
        try (split; discriminate).
      rewrite andb_true_iff, Hp, IH. split; [intros [-> ->]; reflexivity|intros E; inversion E; auto]. }
    rewrite !andb_true_iff, !Nat.eqb_eq, L. split.
    + intros [[[-> ->] ->] ->]. reflexivity.
    + intros E. inversion E. auto.
Qed.

Lemma content_eq_dec (a b : content) : {a = b} + {a <> b}.
Proof.
  destruct (content_eqb a b) eqn:E.
  - left. apply content_eqb_eq. exact E.
  - right. intros H. apply content_eqb_eq in H. congruence.
Qed.

Lemma cmem_In x l : cmem x l = true <-> In x l.
Proof.
  unfold cmem. rewrite existsb_exists. split.
  - intros (y & Hy & E). apply content_eqb_eq in E. subst. exact Hy.
  - intros H. exists x. split; [exact H|]. apply content_eqb_eq. reflexivity.
Qed.

(* the version marks inside a content *)
Fixpoint hasver (V : nat) (c : content) : bool :=
  match c with
  | CNone => false
  | CVal _ _ k i => Nat.eqb k V || existsb (hasver V) i
  end.

(* ================= the primary table ================= *)
Lemma shighest_fold st t v : forall best,
  match best with None => True | Some b => same_key b t v = true end ->
  match fold_left (fun best e =>
               if same_key e t v then
                 match best with
                 | None => Some e
                 | Some b => if (e_rid b <? e_rid e)%Z then Some e else Some b
                 end
               else best) st best with
  | None => best = None /\ forall e, In e st -> same_key e t v = false
  | Some b' => (In b' st \/ best = Some b') /\ same_key b' t v = true /\
               (forall e, In e st -> same_key e t v = true -> (e_rid e <= e_rid b')%Z) /\
               (forall b0, best = Some b0 -> (e_rid b0 <= e_rid b')%Z)
  end.
Proof.
  induction st as [|e st IH]; intros best Hb; cbn [fold_left].
  - destruct best as [b|].
    + split; [right; reflexivity|]. split; [exact Hb|]. split; [intros e []|]. intros b0 E. inversion E. lia.
    + split; [reflexivity|intros e []].
  - destruct (same_key e t v) eqn:K.
    + set (nb := match best with None => Some e | Some b => if (e_rid b <? e_rid e)%Z then Some e else Some b end).
      assert (Hnb : match nb with None => True | Some b => same_key b t v = true end).
      { unfold nb. destruct best as [b|]; [destruct (e_rid b <? e_rid e)%Z|]; assumption. }
      specialize (IH nb Hnb). destruct (fold_left _ st nb) as [b'|].
      * destruct IH as (I1 & I2 & I3 & I4). split; [|split; [exact I2|split]].
        -- destruct I1 as [I1|I1]; [left; right; exact I1|].
           unfold nb in I1. destruct best as [b|].
           ++ destruct (e_rid b <? e_rid e)%Z; inversion I1; subst; [left; left; reflexivity|right; reflexivity].
           ++ inversion I1; subst. left. left. reflexivity.
        -- intros e0 [->|H0] K0; [|apply I3; assumption].
           unfold nb in I4. destruct best as [b|].
           ++ destruct (e_rid b <? e_rid e0)%Z eqn:Q.
              ** apply (I4 e0). reflexivity.
              ** apply Z.ltb_ge in Q. specialize (I4 b eq_refl). lia.
           ++ apply (I4 e0). reflexivity.
        -- intros b0 ->. unfold nb in I4. destruct (e_rid b0 <? e_rid e)%Z eqn:Q.
           ++ apply Z.ltb_lt in Q. specialize (I4 e eq_refl). lia.
           ++ apply (I4 b0). reflexivity.
      * destruct IH as [I1 _]. unfold nb in I1. destruct best as [b|]; [destruct (e_rid b <? e_rid e)%Z|]; discriminate.
    + specialize (IH best Hb). destruct (fold_left _ st best) as [b'|].
      * destruct IH as (I1 & I2 & I3 & I4). split; [|split; [exact I2|split; [|exact I4]]].
        -- destruct I1 as [I1|I1]; [left; right; exact I1|right; exact I1].
        -- intros e0 [->|H0] K0; [congruence|apply I3; assumption].
      * destruct IH as [I1 I2]. split; [exact I1|]. intros e0 [->|H0]; [exact K|apply I2; exact H0].
Qed.

Lemma shighest_spec st t v :
  match shighest st t v with
  | None => forall e, In e st -> same_key e t v = false
  | Some b' => In b' st /\ same_key b' t v = true /\
               (forall e, In e st -> same_key e t v = true -> (e_rid e <= e_rid b')%Z)
  end.
Proof.
  unfold shighest. pose proof (shighest_fold st t v None I) as H.
  destruct (fold_left _ st None) as [b'|].
  - destruct H as ([H|H] & K & M & _); [|discriminate]. auto.
  - destruct H as [_ H]. exact H.
Qed.

(* the fold only looks at the entries of the key *)
Lemma shighest_filter st t v :
  shighest st t v = shighest (filter (fun e => same_key e t v) st) t v.
Proof.
  unfold shighest. generalize (@None entry). induction st as [|e st IH]; intros best; cbn [fold_left filter]; [reflexivity|].
  destruct (same_key e t v) eqn:K; cbn [fold_left]; [rewrite K|]; apply IH.
Qed.

Lemma same_key_iff e t v : same_key e t v = true <-> e_tgt e = t /\ e_val e = v.
Proof. unfold same_key. rewrite andb_true_iff, !Nat.eqb_eq. reflexivity. Qed.

Lemma shighest_sput_other st r t v x t' v' : (t', v') <> (t, v) ->
  shighest (sput st r t v x) t' v' = shighest st t' v'.
Proof.
  intros N. rewrite shighest_filter, (shighest_filter st). f_equal. unfold sput.
  rewrite filter_app. cbn [filter].
  assert (K : same_key {| e_rid := r; e_tgt := t; e_val := v; e_con := x |} t' v' = false).
  { destruct (same_key _ t' v') eqn:K; [|reflexivity]. apply same_key_iff in K. cbn in K. destruct K; subst. congruence. }
  rewrite K, app_nil_r. induction st as [|e st IH]; cbn [filter]; [reflexivity|].
  destruct (exact_key e r t v) eqn:X; cbn [negb filter].
  - destruct (same_key e t' v') eqn:K'; [|exact IH]. exfalso.
    unfold exact_key in X. apply andb_true_iff in X. destruct X as [_ X].
    apply same_key_iff in X. apply same_key_iff in K'. destruct X, K'. apply N. congruence.
  - destruct (same_key e t' v'); [rewrite IH; reflexivity|exact IH].
Qed.

Lemma In_sput e st r t v x :
  In e (sput st r t v x) <->
  (In e st /\ exact_key e r t v = false) \/ e = {| e_rid := r; e_tgt := t; e_val := v; e_con := x |}.
Proof.
  unfold sput. rewrite in_app_iff, filter_In, negb_true_iff. cbn [In]. intuition.
Qed.

Lemma latest_sput_same st r t v x :
  (forall e, In e st -> same_key e t v = true -> (e_rid e < r)%Z) ->
  latest (sput st r t v x) t v = x.
Proof.
  intros H. unfold latest. pose proof (shighest_spec (sput st r t v x) t v) as S.
  set (e0 := {| e_rid := r; e_tgt := t; e_val := v; e_con := x |}) in *.
  assert (K0 : same_key e0 t v = true) by (apply same_key_iff; split; reflexivity).
  assert (I0 : In e0 (sput st r t v x)) by (apply In_sput; right; reflexivity).
  destruct (shighest (sput st r t v x) t v) as [b'|].
  - destruct S as (S1 & S2 & S3). apply In_sput in S1. destruct S1 as [[S1 _]|S1].
    + specialize (H b' S1 S2). specialize (S3 e0 I0 K0). cbn in S3. lia.
    + subst b'. reflexivity.
  - specialize (S e0 I0). congruence.
Qed.

Lemma sload_latest st (b r : Z) t v :
  (forall e1 e2, In e1 st -> In e2 st -> same_key e1 t v = true -> same_key e2 t v = true ->
                 (b < e_rid e1)%Z -> (b < e_rid e2)%Z -> e1 = e2) ->
  (b < r)%Z -> sload st r t v = latest st t v.
Proof.
  intros U Hr. unfold sload, latest, sexact. destruct (find _ st) as [e|] eqn:F; [|reflexivity].
  apply find_some in F. destruct F as [He X]. unfold exact_key in X. apply andb_true_iff in X.
  destruct X as [X K]. apply Z.eqb_eq in X.
  pose proof (shighest_spec st t v) as S. destruct (shighest st t v) as [b'|].
  - destruct S as (S1 & S2 & S3). specialize (S3 e He K).
    rewrite (U e b' He S1 K S2); [reflexivity|lia|lia].
  - specialize (S e He). congruence.
Qed.
