(* C02 end state: the invariant FInv is kept by a tick, by a run and (from a
   quiescent state) re-established by a change event.  Model/Flow.v. *)
From Coq Require Import List Arith ZArith Bool Lia Permutation.
From DV Require Import Model.Sched Model.Flow Proofs.SchedLib Proofs.SchedOrg Proofs.SchedC02
     Proofs.SchedC05 Proofs.SchedC11 Proofs.SchedBatch Proofs.SchedExact Proofs.FlowProofs Proofs.FlowInv.
Import ListNotations.

(* ---- two more facts about a dispatch ---- *)
Lemma dispatch_rid c s y : rid (getn (ns (fst (dispatch c s))) y) = rid (getn (ns s) y).
Proof.
  destruct (active s) eqn:A; [|rewrite dispatch_inactive by exact A; reflexivity].
  unfold dispatch. rewrite A. cbn [negb].
  pose proof (njb_rid c s y) as Q.
  destruct (next_job_batch c s) as [s1 rel] eqn:N. cbn [fst] in Q.
  set (s2 := set_farm s1 (jobs s1 ++ rel) (cluster s1) (busy s1) (workers s1) (inflight s1)).
  set (o0 := if archive s2 && _ then [OArchive] else []).
  pose proof (put_jobs_rid_same c (jobs s2) (s2, o0) y) as P.
  destruct (fold_left (put_job c) (jobs s2) (s2, o0)) as [s3 o1]. cbn [fst] in P.
  destruct (hand_out _ _ _ _ _) as [[[[cl' w'] b'] fl'] o2].
  destruct (archive s2 && _); cbn [fst ns set_farm set_flags]; rewrite P; unfold s2; cbn [ns set_farm]; exact Q.
Qed.

Definition disjoint_l (l : list nstate) : Prop :=
  forall y u, In u (doing (getn l y)) -> ~ In u (todo (getn l y)).

Lemma release_disjoint c q acc x : disjoint_l (fst acc) -> disjoint_l (fst (release c q acc x)).
Proof.
  destruct acc as [l rel]. cbn [fst]. unfold release. destruct (todo (getn l x)) as [|t0 td] eqn:E; [auto|].
  cbn [fst]. intros H y u. rewrite getn_setn. destruct (Nat.eqb x y && _) eqn:B; [|apply H].
  apply andb_true_iff in B. destruct B as [B _]. apply Nat.eqb_eq in B. subst y. cbn [todo doing].
  intros Hd Ht. apply filter_In in Ht. destruct Ht as [Ht Hm]. apply negb_true_iff in Hm.
  apply In_addl in Hd. destruct Hd as [Hd|Hd].
  - apply mem_In in Hd. congruence.
  - apply (H x u Hd). rewrite E. exact Ht.
Qed.

Lemma release_fold_disjoint c q xs : forall acc, disjoint_l (fst acc) -> disjoint_l (fst (fold_left (release c q) xs acc)).
Proof.
  induction xs as [|x xs IH]; intros acc H; cbn [fold_left]; [exact H|].
  apply IH. apply release_disjoint. exact H.
Qed.

Lemma dispatch_disjoint c s : disjoint_l (ns s) -> disjoint_l (ns (fst (dispatch c s))).
Proof.
  intros H. destruct (active s) eqn:A; [|rewrite dispatch_inactive by exact A; exact H].
  intros y u. destruct (dispatch_todo c s y A) as [E1 E2]. rewrite E1, E2.
  unfold next_job_batch. destruct (paused s); [apply H|].
  pose proof (release_fold_disjoint c (que s) (que s) (ns s, []) H) as P. cbn [fst] in P.
  destruct (fold_left (release c (que s)) (que s) (ns s, [])) as [l rel]. cbn [fst ns set_ns]. apply P.
Qed.


(* ---- lists ---- *)
Lemma In_remove_nth {A} (l : list A) : forall k a, In a (remove_nth k l) -> In a l.
Proof.
  induction l as [|b l IH]; intros [|k] a H; cbn [remove_nth] in H; try contradiction.
  - right. exact H.
  - destruct H as [H|H]; [left; exact H|right; apply (IH k); exact H].
Qed.

Lemma remove_nth_map_nodup {A B} (g : A -> B) (l : list A) : forall k m, NoDup (map g l) ->
  nth_error l k = Some m ->
  NoDup (map g (remove_nth k l)) /\
  forall z, In z (map g (remove_nth k l)) <-> In z (map g l) /\ z <> g m.
Proof.
  induction l as [|b l IH]; intros [|k] m N E; cbn [nth_error] in E; try discriminate.
  - inversion E; subst. cbn [remove_nth map] in *. inversion N as [|? ? Nb Nl]; subst. split; [exact Nl|].
    intros z. split.
    + intros H. split; [right; exact H|]. intros ->. contradiction.
    + intros [[H|H] Nz]; [congruence|exact H].
  - cbn [remove_nth map] in *. inversion N as [|? ? Nb Nl]; subst.
    destruct (IH k m Nl E) as [N' I']. split.
    + constructor; [|exact N']. intros H. apply I' in H. destruct H as [H _]. contradiction.
    + intros z. cbn [In]. rewrite I'. split.
      * intros [H|[H Nz]]; [|split; [right; exact H|exact Nz]].
        split; [left; exact H|]. intros Ez. apply Nb. rewrite H, Ez. apply in_map. apply (nth_error_In _ _ E).
      * intros [[H|H] Nz]; [left; exact H|right; split; assumption].
Qed.

Lemma fresh_sput b st r t x cx u y : (b < r)%Z -> fresh b st u y -> fresh b (sput st r t x cx) u y.
Proof.
  intros Hr (e & He & K & L). destruct (exact_key e r t x) eqn:X.
  - unfold exact_key in X. apply andb_true_iff in X. destruct X as [_ X].
    apply same_key_iff in X. apply same_key_iff in K. destruct X as [X1 X2]. destruct K as [K1 K2].
    exists {| e_rid := r; e_tgt := t; e_val := x; e_con := cx |}. split; [apply In_sput; right; reflexivity|].
    split; [apply same_key_iff; cbn; split; congruence|exact Hr].
  - exists e. split; [apply In_sput; left; split; assumption|]. split; assumption.
Qed.

Lemma step_rep_fields c w x t r o vs s :
  que (fst (step c s (Rep w x t r o vs))) = que (fst (res c x t r o vs s)) /\
  jobs (fst (step c s (Rep w x t r o vs))) = jobs (fst (res c x t r o vs s)).
Proof. cbn [step]. destruct (res c x t r o vs s) as [s' outs]. split; reflexivity. Qed.

Lemma res_success_farm c x t r vs s : mem x (que s) = true ->
  let s' := fst (res c x t r Success vs s) in
  cluster s' = cluster s /\ inflight s' = inflight s /\ stored s' = stored s /\ jobs s' = jobs s.
Proof.
  intros Hq. cbn zeta. rewrite (res_success_eq c x t r vs s Hq). cbn [fst].
  match goal with |- context [update c vs x r ?s3] =>
    destruct (update_farm c vs x r s3) as (F1 & _ & F3 & F4 & _ & _ & _ & F8 & _); rewrite F1, F3, F4, F8 end.
  cbn [cluster inflight stored jobs set_archive].
  match goal with |- context [complete c x t ?s1] =>
    destruct (complete_farm c x t s1) as (G1 & _ & G3 & G4 & _ & _ & _ & G8 & _); rewrite G1, G3, G4, G8 end.
  cbn. auto.
Qed.

Section Steps.
Variable c : fcfg.
Hypothesis OK : flow_ok c = true.
Let C := fc c.
Let n := nnodes C.

Lemma I_aspd_ok s : I_aspd C s.
Proof. intros x t A. rewrite (ok_asp c OK) in A. discriminate. Qed.

(* ================= a tick ================= *)
Lemma tick_FInv b f : FInv c b f -> FInv c b (ftick c f).
Proof.
  intros I. destruct I as [Isc Iex Isg Inq Iin Ib Isto Imsg Irid IA IB IC ID IT IN IU IGb IGr I0].
  set (s := sch f) in *. set (sp := prep s).
  assert (Isp : SchedBatch.Inv C sp) by exact Isc.
  assert (Exsp : exact sp) by exact Iex.
  assert (Sgsp : single sp) by exact Isg.
  assert (Asp : active sp = true) by reflexivity.
  assert (Wsp : workers sp = []) by reflexivity.
  pose proof Isp as (Hl & Iq & Id & Ia).
  destruct (tick_exact C sp Isp Exsp Sgsp Inq Asp) as [Ex' Sg'].
  destruct (dispatch_flow C sp Wsp Asp Id) as (Fl' & St' & Ms').
  assert (PE : forall x t, pendp (fst (dispatch C sp)) x t <-> pendp s x t).
  { intros x t. rewrite !pendp_bool. rewrite dispatch_pend. reflexivity. }
  assert (TD : forall y u, In u (todo (getn (ns (fst (dispatch C sp))) y)) -> In u (todo (getn (ns s) y))).
  { intros y u. apply (tick_pending C sp y). }
  unfold ftick, ftick_s. fold C s sp.
  constructor; cbn [sch sto blobs ctr rin].
  - apply (step_Inv C sp Tick Isp).
  - exact Ex'.
  - exact Sg'.
  - rewrite dispatch_que. exact Inq.
  - rewrite Fl'. exact Iin.
  - rewrite St'. exact Ib.
  - intros e He. rewrite St'. apply Isto. exact He.
  - intros m Hm. destruct (Ms' m Hm) as [Hm0|Hnew]; [apply Imsg; exact Hm0|].
    assert (Hx : m_job m < n).
    { destruct (lt_dec (m_job m) n) as [L|L]; [exact L|]. exfalso.
      (* the unit is in doing of its job *)
      assert (U : In (m_job m, m_tgt m) (units (fst (dispatch C sp)))).
      { unfold units. apply in_map_iff. exists m. split; [reflexivity|]. apply in_or_app. left. exact Hm. }
      apply Ex' in U. destruct (step_Inv C sp Tick Isp) as (Hl' & _). cbn [step] in Hl'.
      rewrite getn_oob in U by (rewrite Hl'; fold n; lia). destruct U. }
    destruct (Hnew (ok_task c OK _ Hx)) as [R T]. rewrite R.
    specialize (Irid _ _ T). change (ns sp) with (ns s). change (stored sp) with (stored s).
    destruct (rid (getn (ns s) (m_job m))); lia.
  - intros x t Ht. rewrite dispatch_rid. apply (Irid x t). apply TD. exact Ht.
  - intros Hc x t Hx Ht St. destruct (IA Hc x t Hx Ht St) as [P|(p & Hp & [P|P])].
    + left. apply PE. exact P.
    + right. exists p. split; [exact Hp|left; exact P].
    + right. exists p. split; [exact Hp|right; apply PE; exact P].
  - intros x t a Hd Ha P. apply PE in P.
    destruct (in_dec Nat.eq_dec t (doing (getn (ns s) x))) as [Old|New].
    + exact (IB x t a Old Ha P).
    + destruct (tick_release_safe C sp x t a Iq Hl Asp Hd New Ha) as (N1 & N2 & _).
      apply PE in P. destruct P as [P|P]; contradiction.
  - intros x t Fr. destruct (IC x t Fr) as [N1 N2]. split.
    + intros P. apply N1. apply PE. exact P.
    + intros a Ha P. apply (N2 a Ha). apply PE. exact P.
  - apply (dispatch_disjoint C sp). exact ID.
  - intros x t P. apply IT. apply PE. exact P.
  - exact IN.
  - exact IU.
  - exact IGb.
  - exact IGr.
  - intros Hc. destruct (I0 Hc) as [E N]. split; [exact E|]. intros x t P. apply (N x t). apply PE. exact P.
Qed.

(* ================= a change event ================= *)
Lemma find_app2 {A} (p : A -> bool) l1 l2 :
  find p (l1 ++ l2) = match find p l1 with Some a => Some a | None => find p l2 end.
Proof. induction l1 as [|a l1 IH]; cbn [app find]; [reflexivity|]. destruct (p a); [reflexivity|exact IH]. Qed.

Lemma rin_get_chg names tgts k old x t :
  rin_get (flat_map (fun x => map (fun t => (x, t, k)) tgts) names ++ old) x t =
  if mem x names && mem t tgts then k else rin_get old x t.
Proof.
  unfold rin_get. rewrite find_app2.
  match goal with |- context [find ?P (flat_map ?F names)] => set (p := P); set (new := flat_map F names) end.
  assert (Hin : forall q, In q new <-> In (fst (fst q)) names /\ In (snd (fst q)) tgts /\ snd q = k).
  { intros [[a u] w]. unfold new. rewrite in_flat_map. cbn [fst snd]. split.
    - intros (y & Hy & H). apply in_map_iff in H. destruct H as (u' & E & Hu). inversion E; subst. auto.
    - intros (Ha & Hu & ->). exists a. split; [exact Ha|]. apply in_map_iff. exists u. auto. }
  destruct (find p new) as [q|] eqn:F.
  - apply find_some in F. destruct F as [Hq Pq]. apply Hin in Hq. destruct Hq as (H1 & H2 & H3).
    unfold p in Pq. apply andb_true_iff in Pq. destruct Pq as [P1 P2].
    apply Nat.eqb_eq in P1. apply Nat.eqb_eq in P2.
    assert (M1 : mem x names = true) by (apply mem_In; rewrite <- P1; exact H1).
    assert (M2 : mem t tgts = true) by (apply mem_In; rewrite <- P2; exact H2).
    rewrite M1, M2. cbn [andb]. exact H3.
  - destruct (mem x names && mem t tgts) eqn:M; [|reflexivity]. exfalso.
    apply andb_true_iff in M. destruct M as [M1 M2]. apply mem_In in M1. apply mem_In in M2.
    assert (Hq : In (x, t, k) new) by (apply Hin; cbn; auto).
    pose proof (find_none _ _ F _ Hq) as N. unfold p in N. cbn in N. rewrite !Nat.eqb_refl in N. discriminate.
Qed.

Lemma map_neq_witness (g1 g2 : node -> content) l : map g1 l <> map g2 l -> exists p, In p l /\ g1 p <> g2 p.
Proof.
  induction l as [|a l IH]; cbn [map]; intros H; [congruence|].
  destruct (content_eq_dec (g1 a) (g2 a)) as [E|E].
  - destruct IH as (p & Hp & Np); [intros E'; apply H; congruence|]. exists p. split; [right; exact Hp|exact Np].
  - exists a. split; [left; reflexivity|exact E].
Qed.

Definition chg_ok (f : fstate) (names : list node) (tgts : list tgt) : bool :=
  forallb (fun x => (x <? nnodes C) && match ins (gi C x) with [] => true | _ :: _ => false end) names
  && forallb (fun t => mem t (gtargets C)) tgts
  && (if ctr f =? 0 then
        forallb (fun x => match ins (gi C x) with [] => mem x names | _ :: _ => true end) (seq 0 (nnodes C))
        && forallb (fun t => mem t tgts) (gtargets C)
      else true).

Lemma chg_FInv b f names tgts : FInv c b f -> quiescent c f = true -> chg_ok f names tgts = true ->
  FInv c (stored (sch f)) (fchg c names tgts f).
Proof.
  intros I Q K. pose proof I as I'.
  destruct I as [Isc Iex Isg Inq Iin Ib Isto Imsg Irid IA IB IC ID IT IN IU IGb IGr I0].
  set (s := sch f) in *. pose proof Isc as (Hl & Iq & Id & Ia).
  destruct (quiescent_spec c f Hl Q) as (Cl0 & Jb0 & Np). fold s in Cl0, Jb0, Np.
  unfold chg_ok in K. rewrite !andb_true_iff in K. destruct K as [[K1 K2] K3].
  rewrite forallb_forall in K1, K2.
  assert (Kr : forall x, In x names -> x < n /\ ins (gi C x) = []).
  { intros x Hx. specialize (K1 x Hx). apply andb_true_iff in K1. destruct K1 as [A B].
    apply Nat.ltb_lt in A. destruct (ins (gi C x)); [auto|discriminate]. }
  assert (Kt : forall t, In t tgts -> In t (gtargets C)) by (intros t Ht; apply mem_In; apply K2; exact Ht).
  assert (NoAll : mem ALL tgts = false).
  { apply mem_false_In. intros H. apply (ok_all c OK). apply Kt. exact H. }
  destruct (organize_spec C names None tgts s Hl) as (Hl' & T & D & Qe).
  assert (TA : forall y t, tgt_added C y tgts t <-> In t tgts).
  { intros y t. unfold tgt_added. rewrite (ok_asp c OK), NoAll. reflexivity. }
  assert (PE : forall y t, pendp (organize C names None tgts s) y t <-> In y names /\ In t tgts).
  { intros y t. unfold pendp. rewrite T. destruct (D y) as [D1 _]. rewrite D1. split.
    - intros [[H|(H1 & H2 & H3)]|H]; [exfalso; apply (Np y t); left; exact H|split; [exact H1|apply TA in H3; exact H3]|
                                      exfalso; apply (Np y t); right; exact H].
    - intros [H1 H2]. left. right. split; [exact H1|]. split; [apply Kr; exact H1|apply TA; exact H2]. }
  destruct (organize_farm C names None tgts s) as (Fc & _ & Fj & Fi & _ & _ & _ & Fs & _).
  destruct (step_exact C s (Org names None tgts) Isc Iex Isg Inq I) as [Ex' Sg'].
  unfold fchg. fold C s.
  constructor; cbn [sch sto blobs ctr rin].
  - apply (step_Inv C s (Org names None tgts) Isc).
  - exact Ex'.
  - exact Sg'.
  - apply (step_que_nodup C s (Org names None tgts) Inq).
  - rewrite Fi. exact Iin.
  - rewrite Fs. lia.
  - intros e He. rewrite Fs. apply Isto. exact He.
  - intros m Hm. rewrite Fc, Cl0 in Hm. destruct Hm.
  - intros x t Ht. rewrite organize_rid by exact Hl.
    assert (P : pendp (organize C names None tgts s) x t) by (left; exact Ht).
    apply PE in P. destruct P as [P1 _]. destruct (Kr x P1) as [Hx _].
    apply mem_In in P1. rewrite P1. fold n. assert (L : x <? n = true) by (apply Nat.ltb_lt; exact Hx).
    rewrite L. exact Logic.I.
  - intros _ x t Hx Ht St. unfold stale in St. cbn [sto rin] in St.
    destruct (Nat.eq_dec (ctr f) 0) as [Z|NZ].
    + destruct (I0 Z) as [E0 _]. rewrite E0 in St.
      apply Nat.eqb_eq in Z. rewrite Z in K3. apply andb_true_iff in K3. destruct K3 as [K3 K4].
      rewrite forallb_forall in K3, K4.
      destruct (ins (gi C x)) as [|p l] eqn:E.
      * left. apply PE. assert (Hsx : In x (seq 0 (nnodes C))) by (apply in_seq; unfold n, C in *; lia). specialize (K3 x Hsx). rewrite E in K3.
        split; [apply mem_In; exact K3|apply mem_In; apply K4; exact Ht].
      * right. exists p. split; [fold C; rewrite E; left; reflexivity|]. left. unfold stale. cbn [sto rin]. rewrite E0.
        destruct (ok_ins c OK x p Hx ltac:(fold C; rewrite E; left; reflexivity)) as (Pn & _).
        rewrite (ev_unfold c OK _ t p Pn). cbn. discriminate.
    + assert (Hc : 0 < ctr f) by lia.
      pose proof (quiescent_consistent_prop c OK b f I' Hc Q) as Cn. fold C n in Cn.
      rewrite (Cn x t Hx Ht) in St.
      rewrite (ev_unfold c OK (rin f) t x Hx), (ev_unfold c OK _ t x Hx) in St. fold C in St.
      destruct (Nat.eq_dec (base_of c (rin f) x t)
                  (base_of c (flat_map (fun x0 => map (fun t0 => (x0, t0, S (ctr f))) tgts) names ++ rin f) x t)) as [Eb|Eb].
      * rewrite Eb in St. right.
        destruct (map_neq_witness (ev c (rin f) t) (ev c (flat_map (fun x0 => map (fun t0 => (x0, t0, S (ctr f))) tgts) names ++ rin f) t)
                    (ins (gi C x))) as (p & Hp & Np'); [intros E; apply St; rewrite E; reflexivity|].
        exists p. split; [exact Hp|]. left. unfold stale. cbn [sto rin].
        destruct (ok_ins c OK x p Hx Hp) as (Pn & _). rewrite (Cn p t Pn Ht). exact Np'.
      * left. apply PE. unfold base_of in Eb. fold C in Eb. destruct (ins (gi C x)); [|congruence].
        rewrite rin_get_chg in Eb. destruct (mem x names && mem t tgts) eqn:M; [|congruence].
        apply andb_true_iff in M. destruct M as [M1 M2]. split; apply mem_In; assumption.
  - intros x t a Hd. destruct (D x) as [D1 _]. rewrite D1 in Hd. exfalso. apply (Np x t). right. exact Hd.
  - intros x t (e & He & _ & Hr). specialize (Isto e He). lia.
  - intros x t Hd. destruct (D x) as [D1 _]. rewrite D1 in Hd. exfalso. apply (Np x t). right. exact Hd.
  - intros x t P. apply PE in P. destruct P as [P1 P2]. destruct (Kr x P1) as [Hx Hr].
    split; [exact Hx|]. split; [apply Kt; exact P2|].
    rewrite (ev_unfold c OK _ t x Hx). fold C. rewrite Hr. cbn [map hasver]. unfold base_of. fold C. rewrite Hr.
    rewrite rin_get_chg. apply mem_In in P1. apply mem_In in P2. rewrite P1, P2. cbn [andb].
    rewrite Nat.eqb_refl. reflexivity.
  - intros x t k i Hb Hv. rewrite (IGb _ (S (ctr f)) Hb) in Hv by lia. discriminate.
  - intros t v e1 e2 H1 _ _ _ L _. specialize (Isto e1 H1). lia.
  - intros x' k Hb Hk. apply IGb; [exact Hb|lia].
  - intros x t. rewrite rin_get_chg. destruct (mem x names && mem t tgts); [lia|]. specialize (IGr x t). lia.
  - intros Hc. discriminate.
Qed.
End Steps.

(* ================= a run ================= *)
Section Run.
Variable c : fcfg.
Hypothesis OK : flow_ok c = true.
Local Notation C := (fc c).
Local Notation n := (nnodes (fc c)).

Lemma run_FInv b f k : FInv c b f -> FInv c b (frun c k f).
Proof.
  intros I. unfold frun. destruct (nth_error (cluster (sch f)) k) as [m|] eqn:Enth; [|exact I].
  pose proof I as I'.
  destruct I as [Isc Iex Isg Inq Iin Ib Isto Imsg Irid IA IB IC ID IT IN IU IGb IGr I0].
  set (s := sch f) in *. set (x := m_job m). set (t := m_tgt m). set (r := m_rid m).
  pose proof Isc as (Hl & Iq & Id & Ia).
  assert (Hm : In m (cluster s)) by (apply (nth_error_In _ _ Enth)).
  assert (Un : units s = map msg_unit (cluster s)) by (unfold units; rewrite Iin, app_nil_r; reflexivity).
  assert (Hd : In t (doing (getn (ns s) x))).
  { apply Iex. rewrite Un. apply in_map_iff. exists m. split; [reflexivity|exact Hm]. }
  assert (Px : pendp s x t) by (right; exact Hd).
  destruct (IT x t Px) as (Hx & Ht & Hv).
  assert (Hr : (b < r)%Z) by (apply Imsg; exact Hm).
  assert (Hc : 0 < ctr f).
  { destruct (Nat.eq_dec (ctr f) 0) as [Z|Z]; [|lia]. destruct (I0 Z) as [_ N]. exfalso. apply (N x t Px). }
  assert (NF : ~ fresh b (sto f) t x) by (intros Fr; destruct (IC x t Fr) as [N _]; contradiction).
  assert (NA : forall a, In a (anc (gi C x)) -> ~ pendp s a t) by (intros a Ha; apply (IB x t a Hd Ha)).
  assert (TnA : t <> ALL) by (intros E; apply (ok_all c OK); rewrite <- E; exact Ht).
  assert (Hq : In x (que s)).
  { apply Iq. right. intros E. rewrite E in Hd. contradiction. }
  (* what the job loads is the reference value of every input *)
  assert (Ld : map (sload (sto f) r t) (ins (gi C x)) = map (ev c (rin f) t) (ins (gi C x))).
  { apply map_ext_in. intros p Hp. destruct (ok_ins c OK x p Hx Hp) as (Pn & Pl & Pa).
    rewrite (sload_latest (sto f) b r t p (IU t p) Hr).
    destruct (content_eq_dec (latest (sto f) t p) (ev c (rin f) t p)) as [E|E]; [exact E|]. exfalso.
    apply (settled_not_stale c OK b f I' Hc (S (lvl (gi C p))) p t); auto.
    intros a Ha. apply NA. destruct (ok_anc c OK x p Hx Pa) as (_ & _ & Tr). apply Tr. exact Ha. }
  rewrite Ld. rewrite (ok_outs c OK x Hx). cbn [fold_left write1].
  set (cx := CVal x t (base_of c (rin f) x t) (map (ev c (rin f) t) (ins (gi C x)))).
  assert (Ecx : cx = ev c (rin f) t x) by (unfold cx; rewrite (ev_unfold c OK (rin f) t x Hx); reflexivity).
  assert (New : cmem cx (blobs f) = false).
  { destruct (cmem cx (blobs f)) eqn:M; [|reflexivity]. exfalso. apply cmem_In in M. apply NF.
    apply (IN x t _ _ M). fold cx. rewrite Ecx. exact Hv. }
  rewrite New. cbn [negb app].
  set (vals := [(t, x, true)]).
  set (s1 := set_farm s (jobs s) (remove_nth k (cluster s)) (busy s) (workers s) (inflight s)).
  set (s2 := set_flags s1 (active s1) (paused s1) (Z.max r (stored s1))).
  assert (Hq2 : mem x (que s2) = true) by (apply mem_In; exact Hq).
  assert (Hl2 : length (ns s2) = n) by exact Hl.
  assert (Hv2 : vals <> []) by discriminate.
  assert (Ff : fb_consumers C vals = []) by (unfold fb_consumers; rewrite (ok_fb c OK); reflexivity).
  set (s' := fst (res C x t r Success vals s2)).
  (* who is triggered: the algorithms declaring x's value as input *)
  assert (Cons : forall y, (y < n /\ consumer C x vals y) <-> (y < n /\ In x (ins (gi C y)))).
  { intros y. split.
    - intros [Hy [(_ & _ & i & Hi & [<-|[]])|Hf]]; [split; assumption|]. rewrite Ff in Hf. contradiction.
    - intros [Hy Hi]. split; [exact Hy|]. left. split; [apply (ok_kids c OK x y Hx Hy); exact Hi|].
      split; [|exists x; split; [exact Hi|left; reflexivity]].
      intros ->. destruct (ok_ins c OK x x Hx Hi) as (_ & L & _). lia. }
  assert (TA : forall y u, tgt_added C y (new_targets vals) u <-> u = t).
  { intros y u. unfold tgt_added. rewrite (ok_asp c OK). cbn. destruct t as [|t'] eqn:Et.
    - exfalso. apply TnA. reflexivity.
    - cbn. intuition. }
  assert (TD : forall y u, In u (todo (getn (ns s') y)) <->
                           In u (todo (getn (ns s) y)) \/ ((y < n /\ In x (ins (gi C y))) /\ u = t)).
  { intros y u. unfold s'. rewrite (success_todo C x t r vals s2 Hq2 Hl2 Hv2 y u). rewrite TA, <- Cons.
    change (ns s2) with (ns s). tauto. }
  assert (DG : forall y u, In u (doing (getn (ns s') y)) <-> In u (doing (getn (ns s) y)) /\ (y, u) <> (x, t)).
  { intros y u. unfold s'. rewrite (res_ns_doing C x t r Success vals s2 y Hq2 Hl2). cbn zeta.
    change (ns s2) with (ns s). destruct (Nat.eqb x y) eqn:E.
    - apply Nat.eqb_eq in E. subst y. assert (L : x <? length (ns s) = true) by (apply Nat.ltb_lt; rewrite Hl; exact Hx).
      rewrite L. cbn [andb]. assert (E0 : Nat.eqb t ALL = false) by (apply Nat.eqb_neq; exact TnA). rewrite E0.
      rewrite In_rem. split; [intros [A B]; split; [exact A|congruence]|intros [A B]; split; [exact A|congruence]].
    - cbn [andb]. apply Nat.eqb_neq in E. split; [intros A; split; [exact A|congruence]|tauto]. }
  destruct (res_success_farm C x t r vals s2 Hq2) as (Fc & Fi & Fs & Fj). fold s' in Fc, Fi, Fs, Fj.
  assert (NTx : ~ In t (todo (getn (ns s) x))) by (apply ID; exact Hd).
  (* the consumers sit below x; none of them is executing the target *)
  assert (K1 : forall y, y < n -> In x (ins (gi C y)) -> In x (anc (gi C y)) /\ y <> x).
  { intros y Hy Hi. destruct (ok_ins c OK y x Hy Hi) as (_ & L & A). split; [exact A|]. intros ->. lia. }
  assert (PE : forall y u, pendp s' y u <->
                           (pendp s y u /\ (y, u) <> (x, t)) \/ ((y < n /\ In x (ins (gi C y))) /\ u = t)).
  { intros y u. unfold pendp. rewrite TD, DG. split.
    - intros [[H|H]|[H N]]; [left; split; [left; exact H|intros E; inversion E; subst; contradiction]|right; exact H|
                             left; split; [right; exact H|exact N]].
    - intros [[[H|H] N]|H]; [left; left; exact H|right; split; assumption|left; right; exact H]. }
  (* the store after the write *)
  set (st' := sput (sto f) r t x cx).
  assert (L1 : forall u y, (u, y) <> (t, x) -> latest st' u y = latest (sto f) u y).
  { intros u y N. unfold latest, st'. rewrite shighest_sput_other by exact N. reflexivity. }
  assert (L2 : latest st' t x = cx).
  { unfold st'. apply latest_sput_same. intros e He K. destruct (Z_lt_dec (e_rid e) r) as [L|L]; [exact L|].
    exfalso. apply NF. exists e. split; [exact He|]. split; [exact K|]. lia. }
  assert (ST : forall u y, latest st' u y <> ev c (rin f) u y -> stale c f u y /\ (u, y) <> (t, x)).
  { intros u y H. destruct (Nat.eq_dec u t) as [->|Nu]; [destruct (Nat.eq_dec y x) as [->|Ny]|].
    - exfalso. apply H. rewrite L2. exact Ecx.
    - assert (N : (t, y) <> (t, x)) by congruence. rewrite L1 in H by exact N. split; assumption.
    - assert (N : (u, y) <> (t, x)) by congruence. rewrite L1 in H by exact N. split; assumption. }
  assert (FR : forall u y, fresh b st' u y -> fresh b (sto f) u y \/ (u = t /\ y = x)).
  { intros u y (e & He & K & L). apply In_sput in He. destruct He as [[He _]|He].
    - left. exists e. auto.
    - right. subst e. apply same_key_iff in K. cbn in K. destruct K; auto. }
  assert (Sx : In x (ins (gi C x)) -> False).
  { intros H. destruct (ok_ins c OK x x Hx H) as (_ & L & _). lia. }
  assert (Bnd : forall y u, pendp s y u -> y < n) by (intros y u P; destruct (IT y u P) as [A _]; exact A).
  constructor; cbn [sch sto blobs ctr rin]; change (fst (res C x t r Success [(t, x, true)] s2)) with s'.
  - (* scheduler invariants *)
    split; [|split; [|split]].
    + unfold s'. rewrite <- (rep_ns C 0 x t r Success vals s2). apply step_len. exact Hl2.
    + apply res_I_que; [exact Hl2|exact Iq].
    + apply res_I_do; [exact Hl2|]. destruct Id as [J D]. split; [exact J|exact D].
    + apply (I_aspd_ok c OK).
  - (* exact *)
    intros y u. rewrite DG. unfold units. rewrite Fi, Fc. cbn [inflight cluster set_flags set_farm s1 s2].
    rewrite Iin. cbn [map]. rewrite app_nil_r.
    destruct (remove_nth_map_nodup msg_unit (cluster s) k m ltac:(rewrite <- Un; exact Isg) Enth) as [_ R].
    rewrite R. rewrite <- Un. rewrite <- (Iex y u). reflexivity.
  - (* single *)
    unfold single, units. rewrite Fi, Fc. cbn [inflight cluster set_flags set_farm s1 s2].
    rewrite Iin. cbn [map]. rewrite app_nil_r.
    destruct (remove_nth_map_nodup msg_unit (cluster s) k m ltac:(rewrite <- Un; exact Isg) Enth) as [R _]. exact R.
  - destruct (step_rep_fields C 0 x t r Success vals s2) as [Eq _]. unfold s'. rewrite <- Eq.
    apply step_que_nodup. exact Inq.
  - rewrite Fi. exact Iin.
  - rewrite Fs. cbn [stored set_flags s2 s1 set_farm]. lia.
  - intros e He. rewrite Fs. cbn [stored set_flags s2 s1 set_farm]. apply In_sput in He.
    destruct He as [[He _]|He]; [specialize (Isto e He); lia|subst e; cbn; lia].
  - intros m0 Hm0. rewrite Fc in Hm0. cbn [cluster set_flags s2 s1 set_farm] in Hm0.
    apply Imsg. apply (In_remove_nth _ _ _ Hm0).
  - (* run ids of pending nodes *)
    intros y u Hu.
    destruct (res_success_rid C x t r vals s2 y Hq2 Hl2 Hv2 Ff) as [R1 R2]. fold s' in R1, R2.
    destruct (lt_dec y n) as [Hy|Hy]; [destruct (in_dec Nat.eq_dec x (ins (gi C y))) as [Hi|Hi]|].
    + rewrite R1 by (apply Cons; split; assumption). exact Hr.
    + rewrite R2 by (intros H; apply Cons in H; destruct H; contradiction).
      apply TD in Hu. destruct Hu as [Hu|[[_ Hu] _]]; [|contradiction]. apply (Irid y u Hu).
    + rewrite R2 by (intros H; apply Cons in H; destruct H; contradiction).
      apply TD in Hu. destruct Hu as [Hu|[[Hu _] _]]; [|contradiction]. apply (Irid y u Hu).
  - (* A *)
    intros _ y u Hy Hu St. apply ST in St. destruct St as [St Ne].
    destruct (IA Hc y u Hy Hu St) as [P|(p & Hp & [P|P])].
    + left. apply PE. left. split; [exact P|intros E; inversion E; subst; apply Ne; reflexivity].
    + destruct (Nat.eq_dec u t) as [->|Nu]; [destruct (Nat.eq_dec p x) as [->|Np]|].
      * left. apply PE. right. auto.
      * right. exists p. split; [exact Hp|]. left. unfold stale. cbn [sto rin]. fold st'. rewrite L1 by congruence. exact P.
      * right. exists p. split; [exact Hp|]. left. unfold stale. cbn [sto rin]. fold st'. rewrite L1 by congruence. exact P.
    + destruct (Nat.eq_dec u t) as [->|Nu]; [destruct (Nat.eq_dec p x) as [->|Np]|].
      * left. apply PE. right. auto.
      * right. exists p. split; [exact Hp|]. right. apply PE. left. split; [exact P|congruence].
      * right. exists p. split; [exact Hp|]. right. apply PE. left. split; [exact P|congruence].
  - (* B *)
    intros y u a Hdy Ha P. apply DG in Hdy. destruct Hdy as [Hdy _]. apply PE in P.
    destruct P as [[P _]|[[Hay Hia] ->]]; [exact (IB y u a Hdy Ha P)|].
    assert (Hy : y < n) by (apply (Bnd y t); right; exact Hdy).
    destruct (K1 a Hay Hia) as [Xa _]. destruct (ok_anc c OK y a Hy Ha) as (_ & _ & Tr).
    apply (IB y t x Hdy (Tr x Xa)). exact Px.
  - (* C *)
    intros y u Fr. apply FR in Fr. destruct Fr as [Fr|[-> ->]].
    + destruct (IC y u Fr) as [N1 N2]. split.
      * intros P. apply PE in P. destruct P as [[P _]|[[Hy Hi] ->]]; [contradiction|].
        destruct (K1 y Hy Hi) as [Xa _]. apply (N2 x Xa). exact Px.
      * intros a Ha P. apply PE in P. destruct P as [[P _]|[[Hay Hia] ->]]; [exact (N2 a Ha P)|].
        destruct (lt_dec y n) as [Hy|Hy].
        -- destruct (K1 a Hay Hia) as [Xa _]. destruct (ok_anc c OK y a Hy Ha) as (_ & _ & Tr).
           apply (N2 x (Tr x Xa)). exact Px.
        -- unfold gi in Ha. rewrite nth_overflow in Ha by (unfold nnodes in Hy; lia). destruct Ha.
    + split.
      * intros P. apply PE in P. destruct P as [[_ N]|[[_ Hi] _]]; [congruence|exact (Sx Hi)].
      * intros a Ha P. apply PE in P. destruct P as [[P _]|[[Hay Hia] _]]; [exact (NA a Ha P)|].
        destruct (K1 a Hay Hia) as [Xa _]. destruct (ok_anc c OK x a Hx Ha) as (_ & _ & Tr).
        apply (ok_anc_irrefl c OK x Hx). apply Tr. exact Xa.
  - (* D *)
    intros y u Hdy Hty. apply DG in Hdy. destruct Hdy as [Hdy Ne]. apply TD in Hty.
    destruct Hty as [Hty|[[Hy Hi] ->]]; [exact (ID y u Hdy Hty)|].
    destruct (K1 y Hy Hi) as [Xa _]. apply (IB y t x Hdy Xa). exact Px.
  - (* T *)
    intros y u P. apply PE in P. destruct P as [[P _]|[[Hy Hi] ->]]; [exact (IT y u P)|].
    split; [exact Hy|]. split; [exact Ht|]. rewrite (ev_unfold c OK (rin f) t y Hy). cbn [hasver].
    apply orb_true_iff. right. apply existsb_exists. exists (ev c (rin f) t x). split; [|exact Hv].
    apply in_map. exact Hi.
  - (* N *)
    intros y u k0 i Hb Hh. apply in_app_or in Hb. destruct Hb as [Hb|[Hb|[]]].
    + apply fresh_sput; [exact Hr|]. apply (IN y u k0 i Hb Hh).
    + unfold cx in Hb. inversion Hb; subst.
      exists {| e_rid := r; e_tgt := t; e_val := x; e_con := cx |}. split; [apply In_sput; right; reflexivity|].
      split; [apply same_key_iff; split; reflexivity|exact Hr].
  - (* U *)
    intros u v e1 e2 H1 H2 K1' K2' G1 G2. apply In_sput in H1. apply In_sput in H2.
    destruct H1 as [[H1 _]|H1]; destruct H2 as [[H2 _]|H2].
    + apply (IU u v e1 e2); assumption.
    + exfalso. subst e2. apply same_key_iff in K2'. cbn in K2'. destruct K2'; subst.
      apply NF. exists e1. auto.
    + exfalso. subst e1. apply same_key_iff in K1'. cbn in K1'. destruct K1'; subst.
      apply NF. exists e2. auto.
    + congruence.
  - (* blob versions *)
    intros x' k0 Hb Hk. apply in_app_or in Hb. destruct Hb as [Hb|[Hb|[]]]; [apply (IGb x' k0 Hb Hk)|].
    subst x'. rewrite Ecx. unfold ev. apply (hasver_ev_bound c (rin f) (ctr f) IGr k0 Hk).
  - exact IGr.
  - intros Z. lia.
Qed.
End Run.
