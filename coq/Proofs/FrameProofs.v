(* Proofs/FrameProofs.v -- C14 framing: chunk independence of the reassembly
   loop, fuel adequacy, frame/unframe round trip, connection-level traces. *)
From Coq Require Import List ZArith Bool Lia Arith.
From DV Require Import Model.Frame.
Import ListNotations.
Open Scope Z_scope.

Lemma hlen_4 : hlen = 4%nat.
Proof. reflexivity. Qed.
Local Opaque hlen.

(* ---- the loop terminates within its fuel -------------------------------- *)
Definition mu (s : fstate) : nat :=
  (2 * length (fbuf s) + match flen s with None => 0 | Some _ => 1 end)%nat.

Lemma F_iter_mu s s' o : iter s = Some (s', o) -> (mu s' < mu s)%nat.
Proof.
  unfold iter, mu, need. destruct (flen s) as [n|] eqn:E;
  destruct (_ <=? _) eqn:L; try discriminate;
  intros H; injection H as <- <-; cbn [fbuf flen];
  apply Z.leb_le in L; rewrite skipn_length; pose proof hlen_4; lia.
Qed.

Definition finished (s : fstate) : Prop := iter s = None.

Lemma F_drain_finished f s : (mu s < f)%nat -> finished (fst (drain f s)).
Proof.
  revert s. induction f as [|f IH]; intros s Hm; [lia|].
  cbn [drain]. destruct (iter s) as [[s' o]|] eqn:E.
  - pose proof (F_iter_mu _ _ _ E). specialize (IH s' ltac:(lia)).
    destruct (drain f s') as [s'' o'] eqn:D. cbn [fst] in *. exact IH.
  - cbn [fst]. exact E.
Qed.

Lemma F_drain_more f g s : (mu s < f)%nat -> (f <= g)%nat -> drain g s = drain f s.
Proof.
  revert g s. induction f as [|f IH]; intros g s Hm Hg; [lia|].
  destruct g as [|g]; [lia|]. cbn [drain].
  destruct (iter s) as [[s' o]|] eqn:E; [|reflexivity].
  pose proof (F_iter_mu _ _ _ E). rewrite (IH g s') by lia. reflexivity.
Qed.

(* normal form of the loop: enough fuel *)
Definition run (s : fstate) : fstate * list (list Z) := drain (S (mu s)) s.

Lemma F_drain_run f s : (mu s < f)%nat -> drain f s = run s.
Proof. intros H. unfold run. apply F_drain_more; lia. Qed.

Lemma F_feed_run s d : feed s d = run (app_buf s d).
Proof.
  unfold feed. apply F_drain_run. unfold mu, fuel_for.
  destruct (flen (app_buf s d)); lia.
Qed.

Lemma F_run_stop s : iter s = None -> run s = (s, []).
Proof. intros H. unfold run. cbn [drain]. rewrite H. reflexivity. Qed.

Lemma F_run_step s s' o : iter s = Some (s', o) ->
  run s = (fst (run s'), o ++ snd (run s')).
Proof.
  intros H. pose proof (F_iter_mu _ _ _ H) as Hlt. unfold run at 1. cbn [drain]. rewrite H.
  rewrite (F_drain_run (mu s) s') by lia. destruct (run s'); reflexivity.
Qed.

Lemma F_run_finished s : finished (fst (run s)).
Proof. unfold run. apply F_drain_finished. lia. Qed.

(* fuel is never exhausted: the state a dataReceived call ends in is one in
   which the while condition is false *)
Lemma F_feed_finished s d : finished (fst (feed s d)).
Proof. rewrite F_feed_run. apply F_run_finished. Qed.

(* ---- an iteration only inspects a prefix of the buffer ------------------ *)
Lemma F_iter_app s s' o d :
  iter s = Some (s', o) -> iter (app_buf s d) = Some (app_buf s' d, o).
Proof.
  unfold iter, need, app_buf. cbn [fbuf flen].
  destruct (flen s) as [n|] eqn:E; destruct (_ <=? Z.of_nat (length (fbuf s))) eqn:L;
  try discriminate; apply Z.leb_le in L; intros H; injection H as <- <-; cbn [fbuf flen];
  rewrite app_length;
  (destruct (_ <=? _) eqn:L2; [|apply Z.leb_gt in L2; lia]);
  rewrite firstn_app, skipn_app.
  - replace (Z.to_nat n - length (fbuf s))%nat with 0%nat by lia.
    cbn [firstn skipn]. rewrite app_nil_r. reflexivity.
  - replace (hlen - length (fbuf s))%nat with 0%nat by (pose proof hlen_4; lia).
    cbn [firstn skipn]. rewrite app_nil_r. reflexivity.
Qed.

Lemma F_app_buf_app s a b : app_buf s (a ++ b) = app_buf (app_buf s a) b.
Proof. unfold app_buf. cbn [fbuf flen]. rewrite app_assoc. reflexivity. Qed.

Lemma F_app_buf_nil s : app_buf s [] = s.
Proof. destruct s as [b l]. unfold app_buf. cbn [fbuf flen]. rewrite app_nil_r. reflexivity. Qed.

(* key lemma: a run that stopped on b1, continued with b2, is the run on b1++b2 *)
Lemma F_run_app d : forall s,
  run (app_buf s d) =
  (fst (run (app_buf (fst (run s)) d)), snd (run s) ++ snd (run (app_buf (fst (run s)) d))).
Proof.
  intros s. remember (mu s) as m eqn:Hm. revert s Hm.
  induction m as [m IH] using lt_wf_ind. intros s Hm.
  destruct (iter s) as [[s' o]|] eqn:E.
  - pose proof (F_iter_mu _ _ _ E) as Hlt.
    rewrite (F_run_step _ _ _ (F_iter_app _ _ _ d E)).
    rewrite (F_run_step _ _ _ E). cbn [fst snd].
    rewrite (IH (mu s') ltac:(lia) s' eq_refl). cbn [fst snd].
    rewrite app_assoc. reflexivity.
  - rewrite (F_run_stop _ E). cbn [fst snd]. destruct (run (app_buf s d)); reflexivity.
Qed.

Lemma F_feed_feed s a b :
  feed s (a ++ b) =
  (fst (feed (fst (feed s a)) b), snd (feed s a) ++ snd (feed (fst (feed s a)) b)).
Proof.
  rewrite !F_feed_run, F_app_buf_app, F_run_app. reflexivity.
Qed.

Lemma F_feed_nil s : finished s -> feed s [] = (s, []).
Proof. intros H. rewrite F_feed_run, F_app_buf_nil. apply F_run_stop, H. Qed.

(* chunk independence at the payload level: same payloads, same final state *)
Theorem F_chunking s chunks :
  finished s -> feed_all s chunks = feed s (concat chunks).
Proof.
  revert s. induction chunks as [|c cs IH]; intros s Hs; cbn [feed_all concat].
  - rewrite F_feed_nil by exact Hs. reflexivity.
  - rewrite F_feed_feed. destruct (feed s c) as [s1 o1] eqn:F. cbn [fst snd].
    assert (H1 : finished s1) by (pose proof (F_feed_finished s c) as Hf; rewrite F in Hf; exact Hf).
    rewrite (IH s1 H1). destruct (feed s1 (concat cs)); reflexivity.
Qed.

Lemma F_finit_finished : finished finit.
Proof. reflexivity. Qed.

(* ---- header round trip --------------------------------------------------- *)
Lemma F_be32_enc32 n : 0 <= n < 4294967296 -> be32 (enc32 n) = n.
Proof.
  intros H. unfold be32, enc32. cbn [fold_left].
  Z.div_mod_to_equations. lia.
Qed.

Lemma F_enc32_bytes n : Forall (fun b => 0 <= b < 256) (enc32 n).
Proof.
  unfold enc32. repeat constructor; apply Z.mod_pos_bound; lia.
Qed.

Lemma F_firstn_enc32 n x : firstn hlen (enc32 n ++ x) = enc32 n.
Proof. rewrite hlen_4. reflexivity. Qed.
Lemma F_skipn_enc32 n x : skipn hlen (enc32 n ++ x) = x.
Proof. rewrite hlen_4. reflexivity. Qed.
Lemma F_enc32_length n : length (enc32 n) = 4%nat.
Proof. reflexivity. Qed.

Lemma F_run_frame m rest :
  Z.of_nat (length m) < 4294967296 ->
  run (mkF (frame m ++ rest) None) =
  (fst (run (mkF rest None)), m :: snd (run (mkF rest None))).
Proof.
  intros Hm.
  assert (E1 : iter (mkF (frame m ++ rest) None)
               = Some (mkF (m ++ rest) (Some (Z.of_nat (length m))), [])).
  { unfold iter, need. cbn [fbuf flen].
    assert (L : Z.of_nat hlen <=? Z.of_nat (length (frame m ++ rest)) = true).
    { apply Z.leb_le. unfold frame. rewrite !app_length, F_enc32_length, hlen_4. lia. }
    rewrite L. unfold frame. rewrite <- app_assoc, F_firstn_enc32, F_skipn_enc32.
    rewrite F_be32_enc32 by lia. reflexivity. }
  assert (E2 : iter (mkF (m ++ rest) (Some (Z.of_nat (length m))))
               = Some (mkF rest None, [m])).
  { unfold iter, need. cbn [fbuf flen].
    assert (L : Z.of_nat (length m) <=? Z.of_nat (length (m ++ rest)) = true).
    { apply Z.leb_le. rewrite app_length. lia. }
    rewrite L, Nat2Z.id, firstn_app, skipn_app, Nat.sub_diag, firstn_all, skipn_all.
    cbn [firstn skipn app]. rewrite app_nil_r. reflexivity. }
  rewrite (F_run_step _ _ _ E1), (F_run_step _ _ _ E2). cbn [fst snd app]. reflexivity.
Qed.

Theorem F_roundtrip ms :
  Forall (fun m => Z.of_nat (length m) < 4294967296) ms ->
  feed finit (concat (map frame ms)) = (finit, ms).
Proof.
  intros H. rewrite F_feed_run. unfold app_buf, finit. cbn [fbuf flen app].
  induction H as [|m ms Hm _ IH]; cbn [map concat].
  - apply F_run_stop. reflexivity.
  - rewrite F_run_frame by exact Hm. fold finit in *. rewrite IH. reflexivity.
Qed.

(* ---- traces of a connection ---------------------------------------------- *)
Lemma F_emit_app_quiet ch a b :
  existsb is_stop (emit ch a) = false -> emit ch (a ++ b) = emit ch a ++ emit ch b.
Proof.
  induction a as [|p a IH]; cbn [emit app]; [reflexivity|].
  destruct (decodable ch p); [|cbn; discriminate].
  destruct (closing ch p); cbn [existsb is_stop app orb]; [discriminate|].
  intros H. rewrite IH by exact H. reflexivity.
Qed.

Lemma F_emit_app_prefix ch a b : exists t, emit ch (a ++ b) = emit ch a ++ t.
Proof.
  induction a as [|p a [t IH]]; cbn [emit app]; [eexists; reflexivity|].
  destruct (decodable ch p); [|exists []; reflexivity].
  exists t. rewrite IH. cbn [app]. rewrite <- !app_assoc. reflexivity.
Qed.

Lemma F_cut_app_quiet a b : existsb is_stop a = false -> cut (a ++ b) = a ++ cut b.
Proof.
  induction a as [|x a IH]; cbn [cut app existsb]; [reflexivity|].
  destruct (is_stop x); cbn [orb]; [discriminate|]. intros H. rewrite IH by exact H. reflexivity.
Qed.

Lemma F_cut_app_stop a b : existsb is_stop a = true -> cut (a ++ b) = cut a.
Proof.
  induction a as [|x a IH]; cbn [cut app existsb]; [discriminate|].
  destruct (is_stop x); cbn [orb]; [reflexivity|]. intros H. rewrite IH by exact H. reflexivity.
Qed.

Lemma F_quiet_exists o : quiet o = negb (existsb is_stop o).
Proof.
  unfold quiet. induction o as [|x o IH]; cbn [forallb existsb]; [reflexivity|].
  rewrite IH. destruct (is_stop x); reflexivity.
Qed.

Lemma F_removelast_app_ne (a b : list out) : b <> [] -> removelast (a ++ b) = a ++ removelast b.
Proof. intros H. apply removelast_app, H. Qed.

Lemma F_stop_last a t :
  existsb is_stop a = true -> quiet (removelast (a ++ t)) = true -> t = [].
Proof.
  intros Ha Hq. destruct t as [|x t]; [reflexivity|]. exfalso.
  rewrite F_removelast_app_ne in Hq by discriminate.
  rewrite F_quiet_exists, existsb_app, Ha in Hq. discriminate.
Qed.

Lemma F_quiet_tail a b :
  existsb is_stop a = false -> quiet (removelast (a ++ b)) = true -> quiet (removelast b) = true.
Proof.
  intros Ha Hq. destruct b as [|x b]; [reflexivity|].
  rewrite F_removelast_app_ne in Hq by discriminate.
  unfold quiet in *. rewrite forallb_app in Hq. apply andb_true_iff in Hq. apply Hq.
Qed.

Lemma F_conn_run_dead ch fs chunks : conn_run ch (mkC fs false) chunks = (mkC fs false, []).
Proof.
  induction chunks as [|d ds IH]; cbn [conn_run]; [reflexivity|].
  unfold conn_feed. cbn [clive]. rewrite IH. reflexivity.
Qed.

(* the whole-stream trace the chunked run is compared with *)
Definition whole (ch : chan) (fs : fstate) (stream : list Z) : list out :=
  emit ch (snd (feed fs stream)).

(* up to and including the first loseConnection/exception the trace does not
   depend on the chunking *)
Theorem F_conn_cut ch chunks : forall fs, finished fs ->
  cut (snd (conn_run ch (mkC fs true) chunks)) = cut (whole ch fs (concat chunks)).
Proof.
  unfold whole. induction chunks as [|d ds IH]; intros fs Hfs; cbn [conn_run concat].
  - rewrite F_feed_nil by exact Hfs. reflexivity.
  - unfold conn_feed. cbn [clive cfs]. rewrite F_feed_feed. cbn [snd].
    destruct (feed fs d) as [fs1 ps1] eqn:F. cbn [fst snd].
    assert (H1 : finished fs1) by (pose proof (F_feed_finished fs d) as Hf; rewrite F in Hf; exact Hf).
    destruct (existsb is_stop (emit ch ps1)) eqn:St; cbn [negb].
    + rewrite F_conn_run_dead. cbn [snd]. rewrite app_nil_r.
      destruct (F_emit_app_prefix ch ps1 (snd (feed fs1 (concat ds)))) as [t ->].
      rewrite F_cut_app_stop by exact St. reflexivity.
    + specialize (IH fs1 H1). destruct (conn_run ch (mkC fs1 true) ds) as [c2 o2]. cbn [snd] in *.
      rewrite F_emit_app_quiet by exact St. rewrite !F_cut_app_quiet by exact St. rewrite IH. reflexivity.
Qed.

(* when whole delivery has no stop before its last event the traces are equal *)
Theorem F_conn_full ch chunks : forall fs, finished fs ->
  quiet (removelast (whole ch fs (concat chunks))) = true ->
  snd (conn_run ch (mkC fs true) chunks) = whole ch fs (concat chunks).
Proof.
  unfold whole. induction chunks as [|d ds IH]; intros fs Hfs; cbn [conn_run concat].
  - rewrite F_feed_nil by exact Hfs. reflexivity.
  - unfold conn_feed. cbn [clive cfs]. rewrite F_feed_feed. cbn [snd].
    destruct (feed fs d) as [fs1 ps1] eqn:F. cbn [fst snd].
    assert (H1 : finished fs1) by (pose proof (F_feed_finished fs d) as Hf; rewrite F in Hf; exact Hf).
    destruct (existsb is_stop (emit ch ps1)) eqn:St; cbn [negb]; intros Hq.
    + rewrite F_conn_run_dead. cbn [snd]. rewrite app_nil_r.
      destruct (F_emit_app_prefix ch ps1 (snd (feed fs1 (concat ds)))) as [t Ht].
      rewrite Ht in *. rewrite (F_stop_last _ _ St Hq), app_nil_r. reflexivity.
    + rewrite F_emit_app_quiet in * by exact St.
      specialize (IH fs1 H1 (F_quiet_tail _ _ St Hq)).
      destruct (conn_run ch (mkC fs1 true) ds) as [c2 o2]. cbn [snd] in *. rewrite IH. reflexivity.
Qed.

(* and when it has no stop at all, the final reassembly state is equal too *)
Theorem F_conn_state ch chunks : forall fs, finished fs ->
  quiet (whole ch fs (concat chunks)) = true ->
  conn_run ch (mkC fs true) chunks
  = (mkC (fst (feed fs (concat chunks))) true, whole ch fs (concat chunks)).
Proof.
  unfold whole. induction chunks as [|d ds IH]; intros fs Hfs; cbn [conn_run concat].
  - rewrite F_feed_nil by exact Hfs. reflexivity.
  - unfold conn_feed. cbn [clive cfs]. rewrite F_feed_feed. cbn [fst snd].
    destruct (feed fs d) as [fs1 ps1] eqn:F. cbn [fst snd].
    assert (H1 : finished fs1) by (pose proof (F_feed_finished fs d) as Hf; rewrite F in Hf; exact Hf).
    intros Hq.
    assert (St : existsb is_stop (emit ch ps1) = false).
    { destruct (existsb is_stop (emit ch ps1)) eqn:St; [|reflexivity]. exfalso.
      destruct (F_emit_app_prefix ch ps1 (snd (feed fs1 (concat ds)))) as [t Ht].
      rewrite Ht, F_quiet_exists, existsb_app, St in Hq. discriminate. }
    rewrite St. cbn [negb]. rewrite F_emit_app_quiet in * by exact St.
    assert (Hq2 : quiet (emit ch (snd (feed fs1 (concat ds)))) = true).
    { unfold quiet in *. rewrite forallb_app in Hq. apply andb_true_iff in Hq. apply Hq. }
    rewrite (IH fs1 H1 Hq2). reflexivity.
Qed.

(* a channel that never closes and decodes everything: trace = the payloads *)
Lemma F_emit_plain ch ps :
  (forall p, In p ps -> decodable ch p = true /\ closing ch p = false) ->
  emit ch ps = map Deliver ps.
Proof.
  induction ps as [|p ps IH]; intros H; cbn [emit map]; [reflexivity|].
  destruct (H p (or_introl eq_refl)) as [-> ->]. cbn [app].
  rewrite IH; [reflexivity|]. intros q Hq. apply H. right. exact Hq.
Qed.

Lemma F_quiet_map_deliver ps : quiet (map Deliver ps) = true.
Proof. unfold quiet. induction ps; cbn; auto. Qed.
