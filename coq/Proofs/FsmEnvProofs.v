(* Proofs/FsmEnvProofs.v -- the life-cycle under the environment that exists
   (the call sites of Gen/TriggerSites.v with their guards): shape invariant,
   rank, return to rest (C10). *)
From Coq Require Import List Bool Arith Lia.
From DV Require Import Gen.FsmTable Gen.PriorityGen Gen.TriggerSites Model.Fsm Proofs.FsmProofs.
Import ListNotations.

(* ---- the environment that exists: shape invariant ---------------------------- *)
Definition bg_eqb (a b : bg) : bool :=
  match a, b with BgPipeline, BgPipeline | BgNavel, BgNavel | BgReload, BgReload | BgArchive, BgArchive => true | _, _ => false end.

Definition pending_is (s : fstate) (l : list bg) : bool :=
  match pending s, l with
  | [], [] => true
  | [a], [b] => bg_eqb a b
  | _, _ => false
  end.

(* which (state, transitioning, outstanding steps) combinations occur *)
Definition shape (s : fstate) : bool :=
  match st s with
  | S_starting => status_eqb (tr s) Active && pending_is s []
  | S_loading => status_eqb (tr s) Entering && pending_is s [BgPipeline]
  | S_contemplation => status_eqb (tr s) Entering && pending_is s [BgNavel]
  | S_running | S_gitting => status_eqb (tr s) Active && pending_is s []
  | S_updating => status_eqb (tr s) Exiting && pending_is s [BgReload]
  | S_archiving => status_eqb (tr s) Entering && pending_is s [BgArchive] && archive_flag s &&
                   match prior s with Some S_running | Some S_updating => true | _ => false end
  end.

(* endpoint 0 has a Process past step_1 exactly while the FSM is gitting;
   endpoint 1 (deprecated fe/submit.py) is not used *)
Definition sub_ok (s : fstate) : bool :=
  match insub (gh s) with
  | [a; 0] => match a with
              | 0 => negb (state_eqb (st s) S_gitting)
              | 1 => state_eqb (st s) S_gitting
              | _ => false
              end
  | _ => false
  end.

Definition inv (s : fstate) : bool := shape s && sub_ok s.

Definition core (s : fstate) := (st s, tr s, prior s, pending s).

Definition rank (s : fstate) : nat :=
  match st s with
  | S_updating => 6
  | S_archiving => match prior s with Some S_updating => 5 | _ => 1 end
  | S_loading => 3
  | S_contemplation => 2
  | _ => 0
  end.

Ltac shape_cases s H :=
  let st0 := fresh "st0" in let tr0 := fresh "tr0" in let pr0 := fresh "pr0" in
  let pe0 := fresh "pe0" in let af0 := fresh "af0" in let ws0 := fresh "ws0" in
  let gh0 := fresh "gh0" in let b0 := fresh "b0" in let b1 := fresh "b1" in
  let pe1 := fresh "pe1" in
  destruct s as [st0 tr0 pr0 pe0 af0 ws0 gh0]; unfold shape, pending_is in H;
  cbn [st tr pending prior archive_flag] in H;
  destruct st0, tr0; cbn in H; try discriminate H;
  destruct pe0 as [|b0 [|b1 pe1]]; cbn in H; try discriminate H;
  try (destruct b0; cbn in H; try discriminate H).

(* the triggers the environment fires, with the guard at the call site *)
Definition env_guard (s : fstate) (t : trigger) : bool :=
  match t with
  | T_update | T_starting => true
  | T_gitting => is_pipeline_active s
  | T_running => state_eqb (st s) S_gitting
  | T_archiving => is_pipeline_active s && archive_flag s
  | _ => false
  end.

Lemma shape_trigger : forall s t, shape s = true -> env_guard s t = true ->
  shape (fst (trigger_ s t)) = true /\ insub (gh (fst (trigger_ s t))) = insub (gh s).
Proof.
  intros s t H G. shape_cases s H; destruct t; unfold env_guard, is_pipeline_active in G;
  cbn in G; try discriminate G;
  destruct af0; cbn in H, G; try discriminate H; try discriminate G;
  destruct pr0 as [[]|]; cbn in H; try discriminate H;
  vm_compute; split; reflexivity.
Qed.

Lemma shape_complete : forall s b s', shape s = true -> pending s = [b] ->
  s' = set_pending s [] ->
  shape (fst (complete s' b)) = true /\ insub (gh (fst (complete s' b))) = insub (gh s) /\
  rank (fst (complete s' b)) < rank s /\ st s <> S_gitting /\ st (fst (complete s' b)) <> S_gitting.
Proof.
  intros s b s' H P ->. shape_cases s H; cbn in P; inversion P; subst;
  destruct af0; cbn in H; try discriminate H;
  destruct pr0 as [[]|]; cbn in H; try discriminate H;
  vm_compute; repeat split; try reflexivity; try discriminate; try lia.
Qed.

(* shape / sub_ok / rank / core only read some fields *)
Lemma shape_ext : forall s s', st s' = st s -> tr s' = tr s -> prior s' = prior s ->
  pending s' = pending s -> archive_flag s' = archive_flag s -> shape s' = shape s.
Proof. intros s s' A B C D E. unfold shape, pending_is. rewrite A, B, C, D, E. reflexivity. Qed.

Lemma shape_pending1 : forall s, shape s = true -> pending s = [] \/ exists b, pending s = [b].
Proof.
  intros s H. split_state s. unfold shape, pending_is in H. simpl in *.
  destruct pe0 as [|b0 [|b1 pe1]]; [left; reflexivity | right; exists b0; reflexivity |].
  destruct st0; simpl in H; rewrite ?andb_false_r in H; discriminate H.
Qed.

Lemma shape_rest_iff : forall s, shape s = true -> st s <> S_starting ->
  (at_rest s = true <-> pending s = []) /\ (rank s = 0 <-> at_rest s = true).
Proof.
  intros s H N. shape_cases s H; try (exfalso; apply N; reflexivity);
  try (destruct af0; cbn in H; try discriminate H; destruct pr0 as [[]|]; cbn in H; try discriminate H);
  vm_compute; repeat split; intros; try reflexivity; try discriminate; try lia.
Qed.

Lemma shape_active_idle : forall s, shape s = true -> is_pipeline_active s = true -> pending s = [].
Proof. intros s H A. shape_cases s H; try reflexivity; vm_compute in A; discriminate A. Qed.

(* ---- update_trigger by a waiter when the machine is busy: rejected, pure ----- *)
Lemma busy_update_pure : forall s, shape s = true -> at_rest s = false ->
  trigger_ s T_update = (s, Rejected).
Proof.
  intros s H R. shape_cases s H; try (vm_compute in R; discriminate R); reflexivity.
Qed.
Lemma gitting_update_pure : forall s, st s = S_gitting -> trigger_ s T_update = (s, Rejected).
Proof. intros s H. split_state s. simpl in H. subst. reflexivity. Qed.
Lemma busy_starting_pure : forall s, st s <> S_starting -> trigger_ s T_starting = (s, Rejected).
Proof. intros s H. split_state s. simpl in H. destruct st0; try reflexivity. exfalso; apply H; reflexivity. Qed.

(* the environment with a single submit endpoint *)
Definition env1 (e : event) : bool := is_env e && single_endpoint e.

(* ---- the environment as a relation -------------------------------------------
   one move of the environment that exists: a trigger fired at a call site under
   that site's guard (for running_trigger: a submit Process only ends after its
   own step_1, i.e. in gitting -- single endpoint), a background step completing,
   or bookkeeping that leaves (state, transitioning, prior, outstanding) alone *)
Inductive envr : fstate -> fstate -> Prop :=
| er_fire : forall s t, env_guard s t = true -> envr s (fst (trigger_ s t))
| er_done : forall s b, pending s = [b] -> envr s (fst (complete (set_pending s []) b))
| er_book : forall s s', st s' = st s -> tr s' = tr s -> prior s' = prior s ->
            pending s' = pending s ->
            (archive_flag s' = archive_flag s \/ st s <> S_archiving) -> envr s s'.

Lemma shape_book : forall s s', st s' = st s -> tr s' = tr s -> prior s' = prior s ->
  pending s' = pending s -> (archive_flag s' = archive_flag s \/ st s <> S_archiving) ->
  shape s = true -> shape s' = true.
Proof.
  intros s s' A B C D [E|E] H.
  - rewrite <- H. apply shape_ext; assumption.
  - unfold shape, pending_is in *. rewrite A, B, C, D.
    destruct (st s); try exact H. exfalso. apply E. reflexivity.
Qed.

Lemma shape_envr : forall s s', shape s = true -> envr s s' -> shape s' = true.
Proof.
  intros s s' H R. destruct R as [s t G|s b P|s s' A B C D E].
  - apply (shape_trigger s t H G).
  - apply (shape_complete s b (set_pending s []) H P eq_refl).
  - eapply shape_book; eassumption.
Qed.

Inductive envr_star : fstate -> fstate -> Prop :=
| es_refl : forall s, envr_star s s
| es_step : forall s s1 s2, envr s s1 -> envr_star s1 s2 -> envr_star s s2.

Lemma shape_envr_star : forall s s', envr_star s s' -> shape s = true -> shape s' = true.
Proof. intros s s' R. induction R as [s|s s1 s2 E R IH]; intro HS; [exact HS|]. apply IH. eapply shape_envr; eassumption. Qed.

Lemma shape_init : shape init = true.
Proof. reflexivity. Qed.

(* completing what is outstanding, n times *)
Fixpoint drain (n : nat) (s : fstate) : fstate :=
  match n with
  | 0 => s
  | S n' => match pending s with
            | [] => s
            | _ => drain n' (fst (step s (Done 0)))
            end
  end.

Lemma done0_complete : forall s b, pending s = [b] ->
  step s (Done 0) = complete (set_pending s []) b.
Proof. intros s b P. simpl. rewrite P. reflexivity. Qed.

Lemma complete_not_starting : forall s b, shape s = true -> pending s = [b] ->
  st (fst (complete (set_pending s []) b)) <> S_starting.
Proof.
  intros s b H P. shape_cases s H; cbn in P; inversion P; subst;
  destruct af0; cbn in H; try discriminate H;
  destruct pr0 as [[]|]; cbn in H; try discriminate H;
  vm_compute; discriminate.
Qed.

Lemma drain_rest : forall n s, shape s = true -> st s <> S_starting -> rank s <= n ->
  at_rest (drain n s) = true /\ shape (drain n s) = true.
Proof.
  induction n as [|n IH]; intros s H N R.
  - simpl. split; [|exact H]. destruct (shape_rest_iff s H N) as [_ [Q _]]. apply Q. lia.
  - cbn [drain]. destruct (shape_pending1 s H) as [P|[b P]]; rewrite P.
    + split; [|exact H]. destruct (shape_rest_iff s H N) as [[_ Q] _]. apply Q. exact P.
    + rewrite (done0_complete s b P).
      destruct (shape_complete s b (set_pending s []) H P eq_refl) as [S1 [_ [RK _]]].
      apply IH; [exact S1 | apply complete_not_starting; assumption | lia].
Qed.

Lemma rank_le_6 : forall s, rank s <= 6.
Proof. intros s. unfold rank. destruct (st s); try lia. destruct (prior s) as [[]|]; lia. Qed.

(* while the machine is not at rest the environment's triggers are rejected,
   purely: nothing it fires is accepted until the outstanding steps complete *)
Lemma busy_env_pure : forall s t, shape s = true -> st s <> S_starting -> at_rest s = false ->
  env_guard s t = true -> trigger_ s t = (s, Rejected).
Proof.
  intros s t H N R G. shape_cases s H; try (exfalso; apply N; reflexivity);
  try (vm_compute in R; discriminate R);
  destruct t; unfold env_guard, is_pipeline_active in G; cbn in G; try discriminate G;
  try reflexivity; destruct af0; cbn in G; try discriminate G; reflexivity.
Qed.

(* ---- the call sites of Gen/TriggerSites.v are the ones the model covers ------ *)
From Coq Require Import String.
Open Scope string_scope.

Definition kind_eqb (a b : site_kind) : bool :=
  match a, b with
  | SFire t, SFire t' => trigger_eqb t t'
  | SPrior, SPrior => true
  | SMethod n, SMethod n' => String.eqb n n'
  | _, _ => false
  end.

(* methods of FSM that only read *)
Definition read_only (n : string) : bool :=
  existsb (String.eqb n) ["is_pipeline_active"; "waiting_on_crew"; "waiting_on_doing"; "waiting_on_todo"].

(* (file, function, call) -> the event / model function that stands for it *)
Definition modelled_sites : list (string * string * site_kind) := [
  ("dawgie/pl/__main__.py", "Start.run", SFire T_starting);                 (* EBoot *)
  ("dawgie/pl/farm.py", "dispatch", SFire T_archiving);                     (* EIdleArchive *)
  ("dawgie/fe/api/submit.py", "Process.step_1", SFire T_gitting);           (* ESubStart 0 *)
  ("dawgie/fe/api/submit.py", "Process.failure", SFire T_running);          (* proc_failure *)
  ("dawgie/fe/api/submit.py", "Process.step_3", SFire T_running);           (* ESubDone 0 *)
  ("dawgie/fe/api/submit.py", "Process.step_3", SMethod "set_submit_info");
  ("dawgie/fe/api/submit.py", "Process.step_3", SMethod "submit_crossroads");
  ("dawgie/fe/submit.py", "Process.step_1", SFire T_gitting);               (* ESubStart 1 *)
  ("dawgie/fe/submit.py", "Process.failure", SFire T_running);
  ("dawgie/fe/submit.py", "Process.step_3", SFire T_running);               (* ESubStart 1 / ESubDone 1 *)
  ("dawgie/fe/submit.py", "Process.step_3", SMethod "set_submit_info");
  ("dawgie/fe/submit.py", "Process.step_3", SMethod "submit_crossroads");
  ("dawgie/fe/api/__init__.py", "cmd_reset", SMethod "wait_for_nothing");   (* ECmdReset *)
  ("dawgie/fe/app.py", "schedule_reset", SMethod "wait_for_nothing");       (* ECmdReset *)
  ("dawgie/pl/state.py", "FSM._archive_done", SPrior);                      (* archive_done *)
  ("dawgie/pl/state.py", "FSM._navel_gaze", SFire T_running);               (* complete BgNavel *)
  ("dawgie/pl/state.py", "FSM.load.done", SFire T_contemplation);           (* complete BgPipeline *)
  ("dawgie/pl/state.py", "FSM.reload.done", SFire T_archiving);             (* complete BgReload *)
  ("dawgie/pl/state.py", "FSM.wait_for_crew.done", SFire T_update);         (* done_cb KCrew *)
  ("dawgie/pl/state.py", "FSM.wait_for_doing.done", SFire T_update);        (* done_cb KDoing *)
  ("dawgie/pl/state.py", "FSM.wait_for_todo.done", SFire T_update);         (* done_cb KTodo *)
  ("dawgie/pl/state.py", "FSM.wait_for_nothing", SFire T_update)            (* wait_for_nothing *)
].

Definition site_covered (x : string * string * site_kind) : bool :=
  let '(f, fn, k) := x in
  match k with
  | SMethod n => if read_only n then true
                 else existsb (fun y => let '(f', fn', k') := y in
                                        String.eqb f f' && String.eqb fn fn' && kind_eqb k k') modelled_sites
  | _ => existsb (fun y => let '(f', fn', k') := y in
                           String.eqb f f' && String.eqb fn fn' && kind_eqb k k') modelled_sites
  end.

Lemma sites_covered : forallb site_covered trigger_sites = true.
Proof. vm_compute. reflexivity. Qed.

(* ---- the two-endpoint environment does not return to rest --------------------- *)
Definition crosstalk_witness : list event :=
  [EBoot; Done 0; Done 0;
   ESubStart 0 None; ESubDone 0 (Some P_TODO);   (* submission 1: a TODO waiter polls *)
   ESubStart 0 None;                             (* submission 2 holds gitting *)
   ESubStart 1 None;                             (* refused on the other endpoint: failure() -> running *)
   ENewData; EIdleArchive;                       (* idle archive starts *)
   ESubDone 0 (Some P_CREW);                     (* submission 2 ends: archiving -> running *)
   Poll KTodo (false, false, false); DoneCb KTodo (false, false, false);  (* waiter fires *)
   Done 0].                                      (* archive completes *)

Definition crosstalk_end : fstate := Eval vm_compute in (run init crosstalk_witness).
Lemma crosstalk_run : run init crosstalk_witness = crosstalk_end.
Proof. vm_compute. reflexivity. Qed.

Lemma crosstalk_stuck :
  forallb is_env crosstalk_witness = true /\
  let s := run init crosstalk_witness in
  st s = S_updating /\ pending s = [] /\ at_rest s = false /\ (forall n, drain n s = s).
Proof.
  split; [vm_compute; reflexivity|]. cbv zeta. rewrite crosstalk_run.
  repeat split. intro n. destruct n; reflexivity.
Qed.

(* the deprecated endpoint alone: its second step_3 (when compliance ends) *)
Definition second_step3_witness : list event :=
  [EBoot; Done 0; Done 0;
   ESubStart 1 (Some P_TODO);                    (* step_1..step_3 at once: a TODO waiter polls *)
   ENewData; EIdleArchive;                       (* idle archive starts *)
   ESubDone 1 (Some P_TODO);                     (* compliance ends: step_3 again: archiving -> running *)
   Poll KTodo (false, false, false); DoneCb KTodo (false, false, false);
   Done 0].

Definition second_step3_end : fstate := Eval vm_compute in (run init second_step3_witness).
Lemma second_step3_run : run init second_step3_witness = second_step3_end.
Proof. vm_compute. reflexivity. Qed.

Lemma second_step3_stuck :
  forallb is_env second_step3_witness = true /\
  let s := run init second_step3_witness in
  st s = S_updating /\ pending s = [] /\ at_rest s = false /\ (forall n, drain n s = s).
Proof.
  split; [vm_compute; reflexivity|]. cbv zeta. rewrite second_step3_run.
  repeat split. intro n. destruct n; reflexivity.
Qed.

Lemma active_iff : forall s, is_pipeline_active s = true <-> st s = S_running /\ tr s = Active.
Proof.
  intros s. unfold is_pipeline_active. rewrite andb_true_iff, fsm_state_eqb_eq, fsm_status_eqb_eq. tauto.
Qed.
