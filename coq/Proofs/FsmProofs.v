(* Proofs/FsmProofs.v -- lemmas and invariants over Model/Fsm.v (C10). *)
From Coq Require Import List Bool Arith Lia.
From DV Require Import Gen.FsmTable Gen.PriorityGen Gen.TriggerSites Model.Fsm.
Import ListNotations.

(* ---- equality tests of the generated enumerations ------------------------ *)
Lemma fsm_state_eqb_eq : forall a b, state_eqb a b = true <-> a = b.
Proof. intros a b; split; [destruct a, b; simpl; intro H; try reflexivity; discriminate H | intros ->; destruct b; reflexivity]. Qed.
Lemma fsm_trigger_eqb_eq : forall a b, trigger_eqb a b = true <-> a = b.
Proof. intros a b; split; [destruct a, b; simpl; intro H; try reflexivity; discriminate H | intros ->; destruct b; reflexivity]. Qed.
Lemma fsm_status_eqb_eq : forall a b, status_eqb a b = true <-> a = b.
Proof. intros a b; split; [destruct a, b; simpl; intro H; try reflexivity; discriminate H | intros ->; destruct b; reflexivity]. Qed.

(* ---- a rejected trigger is pure ------------------------------------------ *)
Lemma fsm_find_edge_none : forall t src,
  (forall e, In e edges -> ~ (e_trig e = t /\ e_src e = src)) -> find_edge t src = None.
Proof.
  intros t src H. unfold find_edge.
  destruct (find _ edges) as [e|] eqn:F; [|reflexivity].
  apply find_some in F. destruct F as [I B]. apply andb_true_iff in B. destruct B as [B1 B2].
  apply fsm_trigger_eqb_eq in B1. apply fsm_state_eqb_eq in B2. exfalso. exact (H e I (conj B1 B2)).
Qed.

Lemma fsm_reject_pure : forall s t,
  (forall e, In e edges -> ~ (e_trig e = t /\ e_src e = st s)) ->
  step s (Fire t) = (s, Rejected).
Proof.
  intros s t H. simpl. unfold trigger_, FUEL. simpl. rewrite (fsm_find_edge_none _ _ H). reflexivity.
Qed.

(* the converse: when an edge exists the trigger is not rejected at the top *)
Lemma fsm_find_edge_some : forall t src e, find_edge t src = Some e ->
  In e edges /\ e_trig e = t /\ e_src e = src.
Proof.
  intros t src e F. unfold find_edge in F. apply find_some in F. destruct F as [I B].
  apply andb_true_iff in B. destruct B as [B1 B2].
  apply fsm_trigger_eqb_eq in B1. apply fsm_state_eqb_eq in B2. auto.
Qed.

(* ---- every change of state is an edge of the table ----------------------- *)
Definition edge_ok (a b : state) : bool :=
  existsb (fun e => state_eqb (e_src e) a && state_eqb (e_dst e) b) edges.

(* the hop log is a path from s0 to the current state, every hop a table edge *)
Fixpoint chain (s0 cur : state) (h : list (state * state)) : Prop :=
  match h with
  | [] => cur = s0
  | (a, b) :: h' => b = cur /\ edge_ok a b = true /\ chain s0 a h'
  end.
Definition chain0 (s0 : state) (s : fstate) : Prop := chain s0 (st s) (hops (gh s)).

Lemma chain0_ext : forall s0 s s', st s' = st s -> hops (gh s') = hops (gh s) -> chain0 s0 s -> chain0 s0 s'.
Proof. unfold chain0. intros s0 s s' -> ->. auto. Qed.

Ltac split_state s :=
  destruct s as [st0 tr0 pr0 pe0 af0 ws0 gh0].

(* callbacks that neither fire a trigger nor change `state` *)
Definition simple_cb (c : callback) : bool :=
  match c with Cb_fire _ | Cb_archive => false | _ => true end.
Definition before_simple : bool :=
  forallb (fun e => forallb simple_cb (e_before e)) edges.
Lemma before_simple_ok : before_simple = true.
Proof. vm_compute. reflexivity. Qed.

Definition same_sh (s s' : fstate) : Prop := st s' = st s /\ hops (gh s') = hops (gh s).

Lemma same_sh_set_tr : forall s v, same_sh s (fst (set_tr s v)).
Proof. intros s v. unfold set_tr. destruct v; simpl; try (split; reflexivity);
  destruct (status_eqb (tr s) Active); simpl; split; reflexivity. Qed.

Lemma simple_cb_same : forall rec s c, simple_cb c = true -> same_sh s (fst (run_cb rec s c)).
Proof.
  intros rec s c H. destruct c; try discriminate H; simpl;
  unfold cb_start, cb_load, cb_navel_gaze, cb_save_prior_state, cb_reload, cb_reset, bind, set_tr;
  destruct (status_eqb (tr s) Active); simpl; split; reflexivity.
Qed.

Lemma simple_cbs_same : forall rec cs s, forallb simple_cb cs = true -> same_sh s (fst (run_cbs rec s cs)).
Proof.
  intros rec cs. induction cs as [|c cs IH]; intros s H; simpl; [split; reflexivity|].
  simpl in H. apply andb_true_iff in H. destruct H as [H1 H2].
  pose proof (simple_cb_same rec s c H1) as [A B].
  unfold bind. destruct (run_cb rec s c) as [s1 o]. simpl in *.
  destruct o; simpl; try (split; assumption).
  destruct (IH s1 H2) as [A2 B2]. split; congruence.
Qed.

Lemma chain_bind : forall s0 r k, chain0 s0 (fst r) -> (forall s, chain0 s0 s -> chain0 s0 (fst (k s))) ->
  chain0 s0 (fst (r >>= k)).
Proof. intros s0 [s o] k H K. unfold bind. simpl in *. destruct o; simpl; auto. Qed.

Lemma chain_set_tr : forall s0 s v, chain0 s0 s -> chain0 s0 (fst (set_tr s v)).
Proof. intros s0 s v H. destruct (same_sh_set_tr s v) as [A B]. eapply chain0_ext; eauto. Qed.

Lemma chain_run_cb : forall s0 rec, (forall s t, chain0 s0 s -> chain0 s0 (fst (rec s t))) ->
  forall s c, chain0 s0 s -> chain0 s0 (fst (run_cb rec s c)).
Proof.
  intros s0 rec R s c H. destruct (simple_cb c) eqn:S.
  - destruct (simple_cb_same rec s c S) as [A B]. eapply chain0_ext; eauto.
  - destruct c; try discriminate S; unfold run_cb.
    + apply chain_bind; [exact (chain_set_tr s0 s Entering H)|]. intros s1 H1.
      destruct (archive_flag s1); [exact H1|].
      cbn [prior set_tr_raw set_archive]. destruct (prior s1) as [p|]; [|exact H1].
      destruct (state_trigger p); [|exact H1]. apply R. exact H1.
    + apply R. exact H.
Qed.

Lemma chain_run_cbs : forall s0 rec, (forall s t, chain0 s0 s -> chain0 s0 (fst (rec s t))) ->
  forall cs s, chain0 s0 s -> chain0 s0 (fst (run_cbs rec s cs)).
Proof.
  intros s0 rec R cs. induction cs as [|c cs IH]; intros s H; simpl; [exact H|].
  apply chain_bind; [apply chain_run_cb; assumption|]. intros s1 H1. apply IH. exact H1.
Qed.

Lemma chain_fire : forall s0 fuel s t, chain0 s0 s -> chain0 s0 (fst (fire fuel s t)).
Proof.
  intros s0 fuel. induction fuel as [|f IH]; intros s t H; simpl; [exact H|].
  destruct (find_edge t (st s)) as [e|] eqn:F; [|exact H].
  apply fsm_find_edge_some in F. destruct F as [I [ET ES]].
  assert (BS : forallb simple_cb (e_before e) = true).
  { pose proof before_simple_ok as B. unfold before_simple in B.
    rewrite forallb_forall in B. apply B. exact I. }
  pose proof (simple_cbs_same (fire f) (e_before e) s BS) as [A B].
  unfold bind at 1. destruct (run_cbs (fire f) s (e_before e)) as [s1 o] eqn:RB. simpl in A, B.
  assert (H1 : chain0 s0 s1) by (eapply chain0_ext; eauto).
  destruct o; simpl; try exact H1.
  apply chain_run_cbs; [exact IH|].
  assert (E : edge_ok (st s1) (e_dst e) = true).
  { unfold edge_ok. apply existsb_exists. exists e. split; [exact I|].
    rewrite A, <- ES. apply andb_true_iff. split; apply fsm_state_eqb_eq; reflexivity. }
  unfold chain0 in *. destruct (trigger_eqb t T_update); simpl; repeat split; assumption.
Qed.

Lemma chain_trigger : forall s0 s t, chain0 s0 s -> chain0 s0 (fst (trigger_ s t)).
Proof. intros. apply chain_fire. assumption. Qed.

Lemma chain_complete : forall s0 s b, chain0 s0 s -> chain0 s0 (fst (complete s b)).
Proof.
  intros s0 s b H. destruct b; simpl; try (apply chain_trigger; exact H).
  unfold archive_done. simpl. destruct (prior s) as [p|]; [|exact H].
  destruct (state_trigger p); [|exact H]. apply chain_trigger. exact H.
Qed.

Lemma chain_crossroads : forall s0 s, chain0 s0 s -> chain0 s0 (fst (submit_crossroads s)).
Proof.
  intros s0 s H. unfold submit_crossroads.
  destruct (negb (is_pipeline_active s)); [exact H|].
  destruct (priority (ws s)) as [[]|]; simpl; try exact H.
  - unfold wait_for_nothing, update_by. simpl.
    eapply chain0_ext; [| |apply (chain_trigger s0 (set_waits s (false, false, false)) T_update); exact H]; reflexivity.
  - unfold wait_for_crew, start_poller. simpl. destruct (get3 _ _); exact H.
  - unfold wait_for_doing, start_poller. destruct (waits (ws s)) as [[c d] t0]. simpl. destruct (get3 _ _); exact H.
  - unfold wait_for_todo, start_poller. destruct (waits (ws s)) as [[c d] t0]. simpl. destruct (get3 _ _); exact H.
Qed.

Lemma chain_step : forall s0 s e, chain0 s0 s -> chain0 s0 (fst (step s e)).
Proof.
  intros s0 s e H. destruct e; simpl.
  - apply chain_trigger; exact H.
  - destruct (nth_error (pending s) i); [apply chain_complete|]; exact H.
  - apply chain_trigger; exact H.
  - destruct (nth_error (insub (gh s)) k) as [[|n]|]; try exact H.
    destruct (is_pipeline_active s).
    + apply chain_bind; [apply chain_trigger; exact H|]. intros s1 H1.
      destruct (Nat.eqb k 0); [exact H1|].
      apply chain_bind; [apply chain_trigger; exact H1|]. intros s2 H2.
      apply chain_crossroads. exact H2.
    + unfold proc_failure. destruct (state_eqb (st s) S_gitting); [apply chain_trigger|]; exact H.
  - destruct (nth_error (insub (gh s)) k) as [[|[|n]]|]; try exact H.
    unfold proc_failure. simpl. destruct (state_eqb (st s) S_gitting); [apply chain_trigger|]; exact H.
  - destruct (nth_error (insub (gh s)) k) as [[|[|n]]|]; try exact H.
    apply chain_bind; [apply chain_trigger; exact H|]. intros s1 H1.
    apply chain_crossroads. exact H1.
  - destruct (is_pipeline_active s && archive_flag s); [apply chain_trigger|]; exact H.
  - destruct (is_pipeline_active s); [|exact H].
    unfold wait_for_nothing, update_by. simpl.
    eapply chain0_ext; [| |apply (chain_trigger s0 (set_waits (set_archive s (archive_flag s || archive)) (false, false, false)) T_update); exact H]; reflexivity.
  - exact H.
  - apply chain_trigger; exact H.
  - exact H.
  - apply chain_crossroads; exact H.
  - unfold poll. destruct (get3 k (handles (ws s))) as [[]|]; try exact H.
    destruct (negb (cond_holds k e) && get3 k (waits (ws s))); exact H.
  - unfold done_cb. destruct (get3 k (handles (ws s))) as [[]|]; try exact H. simpl.
    destruct (get3 k (waits (ws s))); [|exact H].
    unfold update_by. simpl.
    eapply chain0_ext; [| |apply (chain_trigger s0 (set_handle s k None) T_update); exact H]; reflexivity.
Qed.

Lemma chain_run : forall s0 evs s, chain0 s0 s -> chain0 s0 (run s evs).
Proof.
  intros s0 evs. induction evs as [|e evs IH]; intros s H; simpl; [exact H|].
  apply IH. apply chain_step. exact H.
Qed.

Lemma edge_ok_in : forall a b, edge_ok a b = true -> exists e, In e edges /\ e_src e = a /\ e_dst e = b.
Proof.
  intros a b H. unfold edge_ok in H. apply existsb_exists in H. destruct H as [e [I B]].
  apply andb_true_iff in B. destruct B as [B1 B2].
  apply fsm_state_eqb_eq in B1. apply fsm_state_eqb_eq in B2. exists e. auto.
Qed.

(* ---- fuel ------------------------------------------------------------------ *)
Lemma fuel_enough_trigger : forall s t, snd (trigger_ s t) <> OutOfFuel.
Proof.
  intros s t. split_state s.
  destruct st0, tr0, af0, t; destruct pr0 as [[]|]; vm_compute; discriminate.
Qed.

Lemma fuel_enough_complete : forall s b, snd (complete s b) <> OutOfFuel.
Proof.
  intros s b. split_state s.
  destruct st0, tr0, af0, b; destruct pr0 as [[]|]; vm_compute; discriminate.
Qed.

