(* Proofs/FsmProofs.v -- lemmas and invariants over Model/Fsm.v (C10). *)
From Coq Require Import List Bool Arith Lia.
From DV Require Import Gen.FsmTable Gen.PriorityGen Gen.TriggerSites Model.Fsm.
Import ListNotations.

(* ---- equality tests of the generated enumerations ------------------------ *)
Lemma fsm_state_eqb_eq : forall a b, state_eqb a b = true <-> a = b.
Proof. intros a b; split; [destruct a, b; simpl; intro H; try reflexivity; discriminate H | intros ->; destruct b; reflexivity]. Qed.
Lemma fsm_trigger_eqb_eq : forall a b, trigger_eqb a b = true <-> a = b.
Proof. intros a b; split; [destruct a, b; simpl; intro H; try reflexivity; discriminate H | intros ->; destruct b; reflexivity]. Qed.
Lemma fsm_status_eqb_eq : forall a b, status_eqb a b = true <-> a = b.
Proof. intros a b; split; [destruct a, b; simpl; intro H; try reflexivity; discriminate H | intros ->; destruct b; reflexivity]. Qed.

(* ---- a rejected trigger is pure ------------------------------------------ *)
Lemma fsm_find_edge_none : forall t src,
  (forall e, In e edges -> ~ (e_trig e = t /\ e_src e = src)) -> find_edge t src = None.
Proof.
  intros t src H. unfold find_edge.
  destruct (find _ edges) as [e|] eqn:F; [|reflexivity].
  apply find_some in F. destruct F as [I B]. apply andb_true_iff in B. destruct B as [B1 B2].
  apply fsm_trigger_eqb_eq in B1. apply fsm_state_eqb_eq in B2. exfalso. exact (H e I (conj B1 B2)).
Qed.

Lemma fsm_reject_pure : forall s t,
  (forall e, In e edges -> ~ (e_trig e = t /\ e_src e = st s)) ->
  step s (Fire t) = (s, Rejected).
Proof.
  intros s t H. simpl. unfold trigger_, FUEL. simpl. rewrite (fsm_find_edge_none _ _ H). reflexivity.
Qed.

(* the converse: when an edge exists the trigger is not rejected at the top *)
Lemma fsm_find_edge_some : forall t src e, find_edge t src = Some e ->
  In e edges /\ e_trig e = t /\ e_src e = src.
Proof.
  intros t src e F. unfold find_edge in F. apply find_some in F. destruct F as [I B].
  apply andb_true_iff in B. destruct B as [B1 B2].
  apply fsm_trigger_eqb_eq in B1. apply fsm_state_eqb_eq in B2. auto.
Qed.

(* ---- every change of state is an edge of the table ----------------------- *)
Definition edge_ok (a b : state) : bool :=
  existsb (fun e => state_eqb (e_src e) a && state_eqb (e_dst e) b) edges.

(* the hop log is a path from s0 to the current state, every hop a table edge *)
Fixpoint chain (s0 cur : state) (h : list (state * state)) : Prop :=
  match h with
  | [] => cur = s0
  | (a, b) :: h' => b = cur /\ edge_ok a b = true /\ chain s0 a h'
  end.
Definition chain0 (s0 : state) (s : fstate) : Prop := chain s0 (st s) (hops (gh s)).

Lemma chain0_ext : forall s0 s s', st s' = st s -> hops (gh s') = hops (gh s) -> chain0 s0 s -> chain0 s0 s'.
Proof. unfold chain0. intros s0 s s' -> ->. auto. Qed.

Ltac split_state s :=
  destruct s as [st0 tr0 pr0 pe0 af0 ws0 gh0].

Lemma chain_trigger : forall s0 s t, chain0 s0 s -> chain0 s0 (fst (trigger_ s t)).
Proof.
  intros s0 s t H. split_state s. unfold chain0 in *.
  destruct st0, tr0, af0, t; destruct pr0 as [[]|];
    vm_compute in H |- *; try exact H; repeat split; try exact H.
Qed.

Lemma chain_complete : forall s0 s b, chain0 s0 s -> chain0 s0 (fst (complete s b)).
Proof.
  intros s0 s b H. split_state s. unfold chain0 in *.
  destruct st0, tr0, af0, b; destruct pr0 as [[]|];
    vm_compute in H |- *; try exact H; repeat split; try exact H.
Qed.

Lemma chain_bind : forall s0 r k, chain0 s0 (fst r) -> (forall s, chain0 s0 s -> chain0 s0 (fst (k s))) ->
  chain0 s0 (fst (r >>= k)).
Proof. intros s0 [s o] k H K. unfold bind. simpl in *. destruct o; simpl; auto. Qed.

Lemma chain_crossroads : forall s0 s, chain0 s0 s -> chain0 s0 (fst (submit_crossroads s)).
Proof.
  intros s0 s H. unfold submit_crossroads.
  destruct (negb (is_pipeline_active s)); [exact H|].
  destruct (priority (ws s)) as [[]|]; simpl; try exact H.
  - unfold wait_for_nothing, update_by. simpl.
    eapply chain0_ext; [| |apply (chain_trigger s0 (set_waits s (false, false, false)) T_update); exact H]; reflexivity.
  - unfold wait_for_crew, start_poller. simpl. destruct (get3 _ _); exact H.
  - unfold wait_for_doing, start_poller. destruct (waits (ws s)) as [[c d] t0]. simpl. destruct (get3 _ _); exact H.
  - unfold wait_for_todo, start_poller. destruct (waits (ws s)) as [[c d] t0]. simpl. destruct (get3 _ _); exact H.
Qed.

Lemma chain_step : forall s0 s e, chain0 s0 s -> chain0 s0 (fst (step s e)).
Proof.
  intros s0 s e H. destruct e; simpl.
  - apply chain_trigger; exact H.
  - destruct (nth_error (pending s) i); [apply chain_complete|]; exact H.
  - apply chain_trigger; exact H.
  - destruct (nth_error (insub (gh s)) k) as [[|n]|]; try exact H.
    destruct (is_pipeline_active s).
    + apply chain_bind; [apply chain_trigger; exact H|]. intros s1 H1.
      destruct (Nat.eqb k 0); [exact H1|].
      apply chain_bind; [apply chain_trigger; exact H1|]. intros s2 H2.
      apply chain_crossroads. exact H2.
    + unfold proc_failure. destruct (state_eqb (st s) S_gitting); [apply chain_trigger|]; exact H.
  - destruct (nth_error (insub (gh s)) k) as [[|[|n]]|]; try exact H.
    unfold proc_failure. simpl. destruct (state_eqb (st s) S_gitting); [apply chain_trigger|]; exact H.
  - destruct (nth_error (insub (gh s)) k) as [[|[|n]]|]; try exact H.
    apply chain_bind; [apply chain_trigger; exact H|]. intros s1 H1.
    apply chain_crossroads. exact H1.
  - destruct (is_pipeline_active s && archive_flag s); [apply chain_trigger|]; exact H.
  - destruct (is_pipeline_active s); [|exact H].
    unfold wait_for_nothing, update_by. simpl.
    eapply chain0_ext; [| |apply (chain_trigger s0 (set_waits (set_archive s (archive_flag s || archive)) (false, false, false)) T_update); exact H]; reflexivity.
  - exact H.
  - apply chain_trigger; exact H.
  - exact H.
  - apply chain_crossroads; exact H.
  - unfold poll. destruct (get3 k (handles (ws s))) as [[]|]; try exact H.
    destruct (negb (cond_holds k e) && get3 k (waits (ws s))); exact H.
  - unfold done_cb. destruct (get3 k (handles (ws s))) as [[]|]; try exact H. simpl.
    destruct (get3 k (waits (ws s))); [|exact H].
    unfold update_by. simpl.
    eapply chain0_ext; [| |apply (chain_trigger s0 (set_handle s k None) T_update); exact H]; reflexivity.
Qed.

Lemma chain_run : forall s0 evs s, chain0 s0 s -> chain0 s0 (run s evs).
Proof.
  intros s0 evs. induction evs as [|e evs IH]; intros s H; simpl; [exact H|].
  apply IH. apply chain_step. exact H.
Qed.

Lemma edge_ok_in : forall a b, edge_ok a b = true -> exists e, In e edges /\ e_src e = a /\ e_dst e = b.
Proof.
  intros a b H. unfold edge_ok in H. apply existsb_exists in H. destruct H as [e [I B]].
  apply andb_true_iff in B. destruct B as [B1 B2].
  apply fsm_state_eqb_eq in B1. apply fsm_state_eqb_eq in B2. exists e. auto.
Qed.

(* ---- fuel ------------------------------------------------------------------ *)
Lemma fuel_enough_trigger : forall s t, snd (trigger_ s t) <> OutOfFuel.
Proof.
  intros s t. split_state s.
  destruct st0, tr0, af0, t; destruct pr0 as [[]|]; vm_compute; discriminate.
Qed.

Lemma fuel_enough_complete : forall s b, snd (complete s b) <> OutOfFuel.
Proof.
  intros s b. split_state s.
  destruct st0, tr0, af0, b; destruct pr0 as [[]|]; vm_compute; discriminate.
Qed.

(* ---- the environment that exists: shape invariant ---------------------------- *)
Definition bg_eqb (a b : bg) : bool :=
  match a, b with BgPipeline, BgPipeline | BgNavel, BgNavel | BgReload, BgReload | BgArchive, BgArchive => true | _, _ => false end.

Definition pending_is (s : fstate) (l : list bg) : bool :=
  match pending s, l with
  | [], [] => true
  | [a], [b] => bg_eqb a b
  | _, _ => false
  end.

(* which (state, transitioning, outstanding steps) combinations occur *)
Definition shape (s : fstate) : bool :=
  match st s with
  | S_starting => status_eqb (tr s) Active && pending_is s []
  | S_loading => status_eqb (tr s) Entering && pending_is s [BgPipeline]
  | S_contemplation => status_eqb (tr s) Entering && pending_is s [BgNavel]
  | S_running | S_gitting => status_eqb (tr s) Active && pending_is s []
  | S_updating => status_eqb (tr s) Exiting && pending_is s [BgReload]
  | S_archiving => status_eqb (tr s) Entering && pending_is s [BgArchive] && archive_flag s &&
                   match prior s with Some S_running | Some S_updating => true | _ => false end
  end.

(* endpoint 0 has a Process past step_1 exactly while the FSM is gitting;
   endpoint 1 (deprecated fe/submit.py) is not used *)
Definition sub_ok (s : fstate) : bool :=
  match insub (gh s) with
  | [a; 0] => match a with
              | 0 => negb (state_eqb (st s) S_gitting)
              | 1 => state_eqb (st s) S_gitting
              | _ => false
              end
  | _ => false
  end.

Definition inv (s : fstate) : bool := shape s && sub_ok s.

Definition core (s : fstate) := (st s, tr s, prior s, pending s).

Definition rank (s : fstate) : nat :=
  match st s with
  | S_updating => 6
  | S_archiving => match prior s with Some S_updating => 5 | _ => 1 end
  | S_loading => 3
  | S_contemplation => 2
  | _ => 0
  end.

Ltac shape_cases s :=
  split_state s; unfold shape, pending_is in *; simpl in *;
  destruct st0, tr0; simpl in *; try discriminate;
  destruct pe0 as [|b0 [|b1 pe1]]; simpl in *; try discriminate;
  try (destruct b0; simpl in *; try discriminate).

(* the triggers the environment fires, with the guard at the call site *)
Definition env_guard (s : fstate) (t : trigger) : bool :=
  match t with
  | T_update | T_starting => true
  | T_gitting => is_pipeline_active s
  | T_running => state_eqb (st s) S_gitting
  | T_archiving => is_pipeline_active s && archive_flag s
  | _ => false
  end.

Lemma shape_trigger : forall s t, shape s = true -> env_guard s t = true ->
  shape (fst (trigger_ s t)) = true /\ insub (gh (fst (trigger_ s t))) = insub (gh s).
Proof.
  intros s t H G. shape_cases s; destruct t; simpl in G; try discriminate G;
  destruct af0; simpl in *; try discriminate;
  try (destruct pr0 as [[]|]; simpl in *; try discriminate);
  vm_compute; split; reflexivity.
Qed.

Lemma shape_complete : forall s b s', shape s = true -> pending s = [b] ->
  s' = set_pending s [] ->
  shape (fst (complete s' b)) = true /\ insub (gh (fst (complete s' b))) = insub (gh s) /\
  rank (fst (complete s' b)) < rank s /\ st s <> S_gitting /\ st (fst (complete s' b)) <> S_gitting.
Proof.
  intros s b s' H P ->. shape_cases s; inversion P; subst;
  destruct af0; simpl in *; try discriminate;
  try (destruct pr0 as [[]|]; simpl in *; try discriminate);
  vm_compute; repeat split; try reflexivity; try discriminate; try lia.
Qed.

(* shape / sub_ok / rank / core only read some fields *)
Lemma shape_ext : forall s s', st s' = st s -> tr s' = tr s -> prior s' = prior s ->
  pending s' = pending s -> archive_flag s' = archive_flag s -> shape s' = shape s.
Proof. intros s s' A B C D E. unfold shape, pending_is. rewrite A, B, C, D, E. reflexivity. Qed.

Lemma shape_pending1 : forall s, shape s = true -> pending s = [] \/ exists b, pending s = [b].
Proof.
  intros s H. split_state s. unfold shape, pending_is in H. simpl in *.
  destruct pe0 as [|b0 [|b1 pe1]]; [left; reflexivity | right; exists b0; reflexivity |].
  destruct st0; simpl in H; rewrite ?andb_false_r in H; discriminate H.
Qed.

Lemma shape_rest_iff : forall s, shape s = true -> st s <> S_starting ->
  (at_rest s = true <-> pending s = []) /\ (rank s = 0 <-> at_rest s = true).
Proof.
  intros s H N. shape_cases s; try (exfalso; apply N; reflexivity);
  vm_compute; repeat split; intros; try reflexivity; try discriminate; try lia.
  all: try (destruct pr0 as [[]|]; simpl in *; rewrite ?andb_false_r in H; try discriminate; lia).
Qed.

Lemma shape_active_idle : forall s, shape s = true -> is_pipeline_active s = true -> pending s = [].
Proof. intros s H A. shape_cases s; try reflexivity; vm_compute in A; discriminate A. Qed.

(* ---- update_trigger by a waiter when the machine is busy: rejected, pure ----- *)
Lemma busy_update_pure : forall s, shape s = true -> at_rest s = false ->
  trigger_ s T_update = (s, Rejected).
Proof.
  intros s H R. shape_cases s; try (vm_compute in R; discriminate R); reflexivity.
Qed.
Lemma gitting_update_pure : forall s, st s = S_gitting -> trigger_ s T_update = (s, Rejected).
Proof. intros s H. split_state s. simpl in H. subst. reflexivity. Qed.
Lemma busy_starting_pure : forall s, st s <> S_starting -> trigger_ s T_starting = (s, Rejected).
Proof. intros s H. split_state s. simpl in H. destruct st0; try reflexivity. exfalso; apply H; reflexivity. Qed.

(* the environment with a single submit endpoint *)
Definition env1 (e : event) : bool := is_env e && single_endpoint e.

Lemma nth_set_nth0 : forall a b v, set_nth 0 v [a; b] = [v; b].
Proof. reflexivity. Qed.

Ltac inv_split H := unfold inv in H; apply andb_true_iff in H; destruct H as [Hs Hb].

Lemma sub_cases : forall s, sub_ok s = true ->
  (insub (gh s) = [0; 0] /\ st s <> S_gitting) \/ (insub (gh s) = [1; 0] /\ st s = S_gitting).
Proof.
  intros s H. unfold sub_ok in H.
  destruct (insub (gh s)) as [|a [|b [|c l]]]; try discriminate H.
  destruct b; [|destruct a as [|[|a]]; discriminate H].
  destruct a as [|[|a]]; try discriminate H.
  - left. split; [reflexivity|]. intro E. rewrite E in H. discriminate H.
  - right. split; [reflexivity|]. apply fsm_state_eqb_eq. exact H.
Qed.

(* field-preservation facts used to transport shape/sub_ok through the
   bookkeeping updates *)
Ltac ext_shape := apply shape_ext; reflexivity.

Lemma inv_crossroads : forall s, inv s = true ->
  inv (fst (submit_crossroads s)) = true.
Proof.
  intros s H. unfold submit_crossroads.
  destruct (negb (is_pipeline_active s)) eqn:A; [exact H|].
  apply negb_false_iff in A.
  destruct (priority (ws s)) as [[]|]; simpl; try exact H.
  - (* NOW *) unfold wait_for_nothing, update_by. simpl.
    inv_split H.
    set (s1 := set_waits s (false, false, false)).
    assert (S1 : shape s1 = true) by (rewrite <- Hs; ext_shape).
    destruct (shape_trigger s1 T_update S1 eq_refl) as [S2 I2].
    unfold inv. apply andb_true_iff. split.
    + rewrite <- S2. ext_shape.
    + destruct (sub_cases s Hb) as [[I N]|[I G]].
      * unfold sub_ok. simpl. rewrite I2. simpl. rewrite I.
        assert (R : st s = S_running) by (unfold is_pipeline_active in A; apply andb_true_iff in A; destruct A as [A _]; apply fsm_state_eqb_eq in A; exact A).
        clear - R S1. subst s1. split_state s. simpl in *. subst. destruct tr0; try discriminate S1.
        destruct pe0; try discriminate S1. reflexivity.
      * unfold is_pipeline_active in A. rewrite G in A. discriminate A.
  - unfold wait_for_crew, start_poller. simpl. destruct (get3 _ _); exact H.
  - unfold wait_for_doing, start_poller. destruct (waits (ws s)) as [[c d] t0]. simpl. destruct (get3 _ _); exact H.
  - unfold wait_for_todo, start_poller. destruct (waits (ws s)) as [[c d] t0]. simpl. destruct (get3 _ _); exact H.
Qed.
