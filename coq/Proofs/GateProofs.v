(* Lemmas about the compliance-gate model (Model/Gate.v). *)
From DV Require Import Model.Gate.
From Coq Require Import List Bool Arith ZArith Lia.
Import ListNotations.

Lemma G_status_true r : status r = true <-> r = Some true.
Proof. destruct r as [[|]|]; simpl; split; congruence. Qed.
