(* Lemmas about the compliance-gate model (Model/Gate.v): the declarative
   reading [follows] of the eleven rules and its equivalence with [gate]. *)
From DV Require Import Model.Gate.
From Coq Require Import List Bool Arith ZArith Lia.
Import ListNotations.

(* ------------------------------------------------------------ basics *)
Lemma G_status_true r : status r = true <-> r = Some true.
Proof. destruct r as [[|]|]; simpl; split; congruence. Qed.

Lemma G_andr_true a b : andr a b = Some true <-> a = Some true /\ b = Some true.
Proof.
  destruct a as [[|]|], b as [[|]|]; simpl; split; intros; try tauto; try congruence;
  destruct H; congruence.
Qed.

Lemma G_allr_true {A} (f : A -> res) l :
  allr f l = Some true <-> Forall (fun x => f x = Some true) l.
Proof.
  induction l as [|x t IH]; simpl.
  - split; auto.
  - rewrite G_andr_true, IH. split.
    + intros [H1 H2]. constructor; assumption.
    + intros H. inversion H; subst. split; assumption.
Qed.

Lemma G_name_eqb_eq a b : name_eqb a b = true <-> a = b.
Proof.
  revert b. induction a as [|x a IH]; destruct b as [|y b]; simpl; split; intros H;
  try reflexivity; try discriminate.
  - apply andb_true_iff in H. destruct H as [H1 H2]. apply Nat.eqb_eq in H1.
    apply IH in H2. subst. reflexivity.
  - inversion H; subst. rewrite Nat.eqb_refl. simpl. apply IH. reflexivity.
Qed.

Lemma G_name_eqb_refl a : name_eqb a a = true.
Proof. apply G_name_eqb_eq. reflexivity. Qed.

Lemma G_name_eqb_neq a b : a <> b -> name_eqb a b = false.
Proof.
  intros H. destruct (name_eqb a b) eqn:E; [|reflexivity].
  apply G_name_eqb_eq in E. contradiction.
Qed.

(* ------------------------------------------------- what a walk visits *)
Definition alg_ok (c : cbs) (cb : alg -> res) (a : alg) : Prop :=
  cb a = Some true /\
  Forall (fun r => ifref c r = Some true) (a_fb a) /\
  a_deps a <> None /\ Forall (fun r => ifref c r = Some true) (deps_of a) /\
  a_svs a <> None /\
  Forall (fun sv => ifsv c sv = Some true /\
                    Forall (fun v => ifv c v = Some true) (s_items sv)) (svs_of a).

Definition fac_ok (c : cbs) (k : kind) (cbb : bot -> res) (cba : alg -> res)
           (o : option factory) : Prop :=
  match o with
  | None => True
  | Some f => callable (walk_nargs k) (f_params f) = true /\ cbb (f_bot f) = Some true /\
              Forall (alg_ok c cba) (b_algs (f_bot f))
  end.

Definition ev_ok (c : cbs) (o : option efactory) : Prop :=
  match o with
  | None => True
  | Some e => callable 0 (ef_params e) = true /\
              Forall (fun m => ifmom c m = Some true) (ef_events e)
  end.

Definition walk_ok (c : cbs) (p : package) : Prop :=
  fac_ok c KAnalysis (ifanl c) (ifanz c) (p_analysis p) /\ ev_ok c (p_events p) /\
  fac_ok c KRegress (ifret c) (ifrec c) (p_regress p) /\
  fac_ok c KTask (ifbot c) (ifalg c) (p_task p).

Lemma G_walk_alg_true c cb x :
  walk_alg c cb (Some x) x = Some true <-> alg_ok c cb x.
Proof.
  unfold walk_alg, alg_ok, walk_refs, walk_svs, deps_of, svs_of.
  rewrite !G_andr_true, G_allr_true.
  destruct (a_deps x) as [ds|], (a_svs x) as [svs|]; simpl;
    try (split; [intros (_ & _ & H & H'); discriminate
                | intros (_ & _ & H1 & _ & H2 & _); congruence]).
  rewrite !G_allr_true.
  assert (Hsv : forall l, Forall (fun sv => andr (ifsv c sv) (allr (ifv c) (s_items sv)) = Some true) l
                 <-> Forall (fun sv => ifsv c sv = Some true /\
                           Forall (fun v => ifv c v = Some true) (s_items sv)) l).
  { intros l. split; intros H; eapply Forall_impl; try exact H; intros sv Hs; cbv beta in *.
    - apply G_andr_true in Hs. rewrite G_allr_true in Hs. exact Hs.
    - apply G_andr_true. rewrite G_allr_true. exact Hs. }
  rewrite Hsv. split.
  - intros (H1 & H2 & H3 & H4). repeat split; try assumption; discriminate.
  - intros (H1 & H2 & _ & H3 & _ & H4). repeat split; assumption.
Qed.

Lemma G_walk_algs_fst c cb l a :
  fst (walk_algs c cb l a) = allr (fun x => walk_alg c cb (Some x) x) l.
Proof.
  revert a. induction l as [|x t IH]; intros a; simpl; [reflexivity|].
  specialize (IH (Some x)). destruct (walk_algs c cb t (Some x)) as [r a']. simpl in *.
  rewrite IH. reflexivity.
Qed.

Definition cur_rfb : option alg -> alg -> option alg := fun _ r => Some r.
Definition kres (c : cbs) (p : package) (k : kind) : res := fst (walk_kind cur_rfb c p k None).

Lemma G_walk_kind_fst c p k a : fst (walk_kind cur_rfb c p k a) = kres c p k.
Proof.
  unfold kres, walk_kind.
  destruct (negb (has_kind p k)); [reflexivity|].
  destruct (negb (callable (walk_nargs k) (params_of p k))); [reflexivity|].
  destruct k.
  - destruct (p_analysis p) as [f|]; [|reflexivity].
    pose proof (G_walk_algs_fst c (ifanz c) (b_algs (f_bot f)) a) as H1.
    pose proof (G_walk_algs_fst c (ifanz c) (b_algs (f_bot f)) None) as H2.
    destruct (walk_algs c (ifanz c) (b_algs (f_bot f)) a).
    destruct (walk_algs c (ifanz c) (b_algs (f_bot f)) None). simpl in *. congruence.
  - destruct (p_events p); reflexivity.
  - destruct (p_regress p); reflexivity.
  - destruct (p_task p) as [f|]; [|reflexivity].
    pose proof (G_walk_algs_fst c (ifalg c) (b_algs (f_bot f)) a) as H1.
    pose proof (G_walk_algs_fst c (ifalg c) (b_algs (f_bot f)) None) as H2.
    destruct (walk_algs c (ifalg c) (b_algs (f_bot f)) a).
    destruct (walk_algs c (ifalg c) (b_algs (f_bot f)) None). simpl in *. congruence.
Qed.

Lemma G_walk_kinds c p ks a : walk_kinds cur_rfb c p ks a = allr (kres c p) ks.
Proof.
  revert a. induction ks as [|k t IH]; intros a; simpl; [reflexivity|].
  pose proof (G_walk_kind_fst c p k a) as H.
  destruct (walk_kind cur_rfb c p k a) as [r a']. simpl in H. subst r.
  rewrite IH. destruct (kres c p k); reflexivity.
Qed.

Lemma G_kres_analysis c p :
  kres c p KAnalysis = Some true <-> fac_ok c KAnalysis (ifanl c) (ifanz c) (p_analysis p).
Proof.
  unfold kres, walk_kind, has_kind, params_of, fac_ok. cbn [fac_of].
  destruct (p_analysis p) as [f|]; cbn [negb fst]; [|tauto].
  destruct (callable (walk_nargs KAnalysis) (f_params f)); cbn [negb fst].
  - pose proof (G_walk_algs_fst c (ifanz c) (b_algs (f_bot f)) None) as H.
    destruct (walk_algs c (ifanz c) (b_algs (f_bot f)) None). simpl in *. subst.
    rewrite G_andr_true, G_allr_true.
    assert (E : Forall (fun x => walk_alg c (ifanz c) (Some x) x = Some true) (b_algs (f_bot f))
                <-> Forall (alg_ok c (ifanz c)) (b_algs (f_bot f))).
    { split; intros H; eapply Forall_impl; try exact H; intros x; apply G_walk_alg_true. }
    rewrite E. tauto.
  - split; [discriminate|intros [H _]; discriminate].
Qed.

Lemma G_kres_task c p :
  kres c p KTask = Some true <-> fac_ok c KTask (ifbot c) (ifalg c) (p_task p).
Proof.
  unfold kres, walk_kind, has_kind, params_of, fac_ok. cbn [fac_of].
  destruct (p_task p) as [f|]; cbn [negb fst]; [|tauto].
  destruct (callable (walk_nargs KTask) (f_params f)); cbn [negb fst].
  - pose proof (G_walk_algs_fst c (ifalg c) (b_algs (f_bot f)) None) as H.
    destruct (walk_algs c (ifalg c) (b_algs (f_bot f)) None). simpl in *. subst.
    rewrite G_andr_true, G_allr_true.
    assert (E : Forall (fun x => walk_alg c (ifalg c) (Some x) x = Some true) (b_algs (f_bot f))
                <-> Forall (alg_ok c (ifalg c)) (b_algs (f_bot f))).
    { split; intros H; eapply Forall_impl; try exact H; intros x; apply G_walk_alg_true. }
    rewrite E. tauto.
  - split; [discriminate|intros [H _]; discriminate].
Qed.

Lemma G_kres_regress c p :
  kres c p KRegress = Some true <-> fac_ok c KRegress (ifret c) (ifrec c) (p_regress p).
Proof.
  unfold kres, walk_kind, has_kind, params_of, fac_ok, cur_rfb. cbn [fac_of].
  destruct (p_regress p) as [f|]; cbn [negb fst]; [|tauto].
  destruct (callable (walk_nargs KRegress) (f_params f)); cbn [negb fst].
  - rewrite G_andr_true, G_allr_true.
    assert (E : Forall (fun x => walk_alg c (ifrec c) (Some x) x = Some true) (b_algs (f_bot f))
                <-> Forall (alg_ok c (ifrec c)) (b_algs (f_bot f))).
    { split; intros H; eapply Forall_impl; try exact H; intros x; apply G_walk_alg_true. }
    rewrite E. tauto.
  - split; [discriminate|intros [H _]; discriminate].
Qed.

Lemma G_kres_events c p : kres c p KEvents = Some true <-> ev_ok c (p_events p).
Proof.
  unfold kres, walk_kind, has_kind, params_of, ev_ok.
  destruct (p_events p) as [e|]; cbn [negb fst]; [|tauto].
  destruct (callable (walk_nargs KEvents) (ef_params e)) eqn:E; cbn [negb fst];
    simpl in E; rewrite E.
  - rewrite G_allr_true. tauto.
  - split; [discriminate|intros [H _]; discriminate].
Qed.

Lemma G_walk_true_iff c p : walk c p = Some true <-> walk_ok c p.
Proof.
  unfold walk, walk_with. fold cur_rfb. rewrite G_walk_kinds. unfold kinds, walk_ok.
  cbn [allr]. rewrite !G_andr_true.
  rewrite G_kres_analysis, G_kres_events, G_kres_regress, G_kres_task. tauto.
Qed.

(* ------------------------------------ the walk in terms of each_* *)
Definition botcb (c : cbs) (k : kind) : bot -> res :=
  match k with KAnalysis => ifanl c | KRegress => ifret c | _ => ifbot c end.
Definition algcb (c : cbs) (k : kind) : alg -> res :=
  match k with KAnalysis => ifanz c | KRegress => ifrec c | _ => ifalg c end.

Definition facprop (c : cbs) (k : kind) (f : factory) : Prop :=
  callable (walk_nargs k) (f_params f) = true /\ botcb c k (f_bot f) = Some true /\
  forall a, In a (b_algs (f_bot f)) ->
    algcb c k a = Some true /\ a_deps a <> None /\ a_svs a <> None /\
    (forall r, In r (refs_of a) -> ifref c r = Some true) /\
    (forall sv, In sv (svs_of a) -> ifsv c sv = Some true /\
       forall v, In v (s_items sv) -> ifv c v = Some true).

Lemma G_fac_ok_prop c k f :
  fac_ok c k (botcb c k) (algcb c k) (Some f) <-> facprop c k f.
Proof.
  unfold fac_ok, facprop, alg_ok, refs_of. rewrite Forall_forall.
  split; intros (H1 & H2 & H3); (split; [exact H1|split; [exact H2|]]); intros a Ha;
    specialize (H3 a Ha).
  - destruct H3 as (A1 & A2 & A3 & A4 & A5 & A6). rewrite Forall_forall in A2, A4, A6.
    repeat split; try assumption.
    + intros r Hr. apply in_app_iff in Hr. destruct Hr; auto.
    + apply (A6 sv H).
    + destruct (A6 sv H) as [_ Hv]. rewrite Forall_forall in Hv. exact Hv.
  - destruct H3 as (A1 & A2 & A3 & A4 & A5). rewrite !Forall_forall.
    repeat split; try assumption.
    + intros r Hr. apply A4. apply in_app_iff. auto.
    + intros r Hr. apply A4. apply in_app_iff. auto.
    + intros sv Hs. split; [apply (A5 sv Hs)|]. rewrite Forall_forall. apply (A5 sv Hs).
Qed.

Definition walk_each (c : cbs) (p : package) : Prop :=
  each_fac p (fun k f => callable (walk_nargs k) (f_params f) = true /\
                         botcb c k (f_bot f) = Some true) /\
  each_alg p (fun k a => algcb c k a = Some true /\ a_deps a <> None /\ a_svs a <> None) /\
  each_ref p (fun r => ifref c r = Some true) /\
  each_sv p (fun sv => ifsv c sv = Some true) /\
  each_val p (fun v => ifv c v = Some true) /\
  (forall e, p_events p = Some e -> callable 0 (ef_params e) = true) /\
  each_event p (fun m => ifmom c m = Some true).

Lemma G_walk_each c p : walk c p = Some true <-> walk_each c p.
Proof.
  rewrite G_walk_true_iff. unfold walk_ok, walk_each.
  assert (F : (fac_ok c KAnalysis (ifanl c) (ifanz c) (p_analysis p) /\
               fac_ok c KRegress (ifret c) (ifrec c) (p_regress p) /\
               fac_ok c KTask (ifbot c) (ifalg c) (p_task p))
              <-> forall k f, fac_of p k = Some f -> facprop c k f).
  { split.
    - intros (Ha & Hr & Ht) k f Hk. destruct k; simpl in Hk; try discriminate;
        rewrite Hk in *; apply G_fac_ok_prop; assumption.
    - intros H. repeat split.
      + destruct (p_analysis p) as [f|] eqn:E; [|exact I].
        apply (G_fac_ok_prop c KAnalysis). apply H. exact E.
      + destruct (p_regress p) as [f|] eqn:E; [|exact I].
        apply (G_fac_ok_prop c KRegress). apply H. exact E.
      + destruct (p_task p) as [f|] eqn:E; [|exact I].
        apply (G_fac_ok_prop c KTask). apply H. exact E. }
  assert (Ev : ev_ok c (p_events p) <->
               (forall e, p_events p = Some e -> callable 0 (ef_params e) = true) /\
               each_event p (fun m => ifmom c m = Some true)).
  { unfold ev_ok, each_event, events_of. destruct (p_events p) as [e|].
    - rewrite Forall_forall. split.
      + intros [H1 H2]. split; [intros e' He; inversion He; subst; exact H1|exact H2].
      + intros [H1 H2]. split; [apply H1; reflexivity|exact H2].
    - split; [intros _; split; [discriminate|intros e []]|auto]. }
  unfold each_alg, each_ref, each_sv, each_val, each_alg, each_fac in *. unfold facprop in F.
  split.
  - intros (Ha & He & Hr & Ht). apply Ev in He. destruct He as [He1 He2].
    assert (H := proj1 F (conj Ha (conj Hr Ht))). clear F Ev Ha Hr Ht.
    repeat split; try assumption; intros.
    + apply (H k f H0).
    + apply (H k f H0).
    + apply (H k f H0 a H1).
    + apply (H k f H0 a H1).
    + apply (H k f H0 a H1).
    + apply (H k f H0 a H1). assumption.
    + apply (H k f H0 a H1). assumption.
    + apply (H k f H0 a H1 ). assumption. assumption.
  - intros (H1 & H2 & H3 & H4 & H5 & H6 & H7).
    assert (G : forall k f, fac_of p k = Some f ->
      callable (walk_nargs k) (f_params f) = true /\ botcb c k (f_bot f) = Some true /\
      (forall a, In a (b_algs (f_bot f)) ->
         algcb c k a = Some true /\ a_deps a <> None /\ a_svs a <> None /\
         (forall r, In r (refs_of a) -> ifref c r = Some true) /\
         (forall sv, In sv (svs_of a) -> ifsv c sv = Some true /\
            (forall v, In v (s_items sv) -> ifv c v = Some true)))).
    { intros k f Hk. split; [apply (H1 k f Hk)|]. split; [apply (H1 k f Hk)|].
      intros a Ha. split; [apply (H2 k f Hk a Ha)|]. split; [apply (H2 k f Hk a Ha)|].
      split; [apply (H2 k f Hk a Ha)|]. split; [apply (H3 k f Hk a Ha)|].
      intros sv Hs. split; [apply (H4 k f Hk a Ha sv Hs)|apply (H5 k f Hk a Ha sv Hs)]. }
    apply F in G. destruct G as (Ga & Gr & Gt).
    split; [exact Ga|]. split; [apply Ev; split; assumption|]. split; assumption.
Qed.
