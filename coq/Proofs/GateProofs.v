(* Lemmas about the compliance-gate model (Model/Gate.v): the declarative
   reading [follows] of the eleven rules and its equivalence with [gate]. *)
From DV Require Import Model.Gate.
From Coq Require Import List Bool Arith ZArith Lia.
Import ListNotations.

(* ------------------------------------------------------------ basics *)
Lemma G_status_true r : status r = true <-> r = Some true.
Proof. destruct r as [[|]|]; simpl; split; congruence. Qed.

Lemma G_some_true b : Some b = Some true <-> b = true.
Proof. split; [intros H; injection H; auto|intros ->; reflexivity]. Qed.

Lemma G_andr_true a b : andr a b = Some true <-> a = Some true /\ b = Some true.
Proof.
  destruct a as [[|]|], b as [[|]|]; simpl; split; intros; try tauto; try congruence;
  destruct H; congruence.
Qed.

Lemma G_allr_true {A} (f : A -> res) l :
  allr f l = Some true <-> Forall (fun x => f x = Some true) l.
Proof.
  induction l as [|x t IH]; simpl.
  - split; auto.
  - rewrite G_andr_true, IH. split.
    + intros [H1 H2]. constructor; assumption.
    + intros H. inversion H; subst. split; assumption.
Qed.

Lemma G_name_eqb_eq a b : name_eqb a b = true <-> a = b.
Proof.
  revert b. induction a as [|x a IH]; destruct b as [|y b]; simpl; split; intros H;
  try reflexivity; try discriminate.
  - apply andb_true_iff in H. destruct H as [H1 H2]. apply Nat.eqb_eq in H1.
    apply IH in H2. subst. reflexivity.
  - inversion H; subst. rewrite Nat.eqb_refl. simpl. apply IH. reflexivity.
Qed.

Lemma G_name_eqb_refl a : name_eqb a a = true.
Proof. apply G_name_eqb_eq. reflexivity. Qed.

Lemma G_name_eqb_neq a b : a <> b -> name_eqb a b = false.
Proof.
  intros H. destruct (name_eqb a b) eqn:E; [|reflexivity].
  apply G_name_eqb_eq in E. contradiction.
Qed.

(* ------------------------------------------------- what a walk visits *)
Definition alg_ok (c : cbs) (cb : alg -> res) (a : alg) : Prop :=
  cb a = Some true /\
  Forall (fun r => ifref c r = Some true) (a_fb a) /\
  a_deps a <> None /\ Forall (fun r => ifref c r = Some true) (deps_of a) /\
  a_svs a <> None /\
  Forall (fun sv => ifsv c sv = Some true /\
                    Forall (fun v => ifv c v = Some true) (s_items sv)) (svs_of a).

Definition fac_ok (c : cbs) (k : kind) (cbb : bot -> res) (cba : alg -> res)
           (o : option factory) : Prop :=
  match o with
  | None => True
  | Some f => callable (walk_nargs k) (f_params f) = true /\ cbb (f_bot f) = Some true /\
              Forall (alg_ok c cba) (b_algs (f_bot f))
  end.

Definition ev_ok (c : cbs) (o : option efactory) : Prop :=
  match o with
  | None => True
  | Some e => callable 0 (ef_params e) = true /\
              Forall (fun m => ifmom c m = Some true) (ef_events e)
  end.

Definition walk_ok (c : cbs) (p : package) : Prop :=
  fac_ok c KAnalysis (ifanl c) (ifanz c) (p_analysis p) /\ ev_ok c (p_events p) /\
  fac_ok c KRegress (ifret c) (ifrec c) (p_regress p) /\
  fac_ok c KTask (ifbot c) (ifalg c) (p_task p).

Lemma G_walk_alg_true c cb x :
  walk_alg c cb (Some x) x = Some true <-> alg_ok c cb x.
Proof.
  unfold walk_alg, alg_ok, walk_refs, walk_svs, deps_of, svs_of.
  rewrite !G_andr_true, G_allr_true.
  destruct (a_deps x) as [ds|], (a_svs x) as [svs|]; simpl;
    try (split; [intros (_ & _ & H & H'); discriminate
                | intros (_ & _ & H1 & _ & H2 & _); congruence]).
  rewrite !G_allr_true.
  assert (Hsv : forall l, Forall (fun sv => andr (ifsv c sv) (allr (ifv c) (s_items sv)) = Some true) l
                 <-> Forall (fun sv => ifsv c sv = Some true /\
                           Forall (fun v => ifv c v = Some true) (s_items sv)) l).
  { intros l. split; intros H; eapply Forall_impl; try exact H; intros sv Hs; cbv beta in *.
    - apply G_andr_true in Hs. rewrite G_allr_true in Hs. exact Hs.
    - apply G_andr_true. rewrite G_allr_true. exact Hs. }
  rewrite Hsv. split.
  - intros (H1 & H2 & H3 & H4). repeat split; try assumption; discriminate.
  - intros (H1 & H2 & _ & H3 & _ & H4). repeat split; assumption.
Qed.

Lemma G_walk_algs_fst c cb l a :
  fst (walk_algs c cb l a) = allr (fun x => walk_alg c cb (Some x) x) l.
Proof.
  revert a. induction l as [|x t IH]; intros a; simpl; [reflexivity|].
  specialize (IH (Some x)). destruct (walk_algs c cb t (Some x)) as [r a']. simpl in *.
  rewrite IH. reflexivity.
Qed.

Definition cur_rfb : option alg -> alg -> option alg := fun _ r => Some r.
Definition kres (c : cbs) (p : package) (k : kind) : res := fst (walk_kind cur_rfb c p k None).

Lemma G_walk_kind_fst c p k a : fst (walk_kind cur_rfb c p k a) = kres c p k.
Proof.
  unfold kres, walk_kind.
  destruct (negb (has_kind p k)); [reflexivity|].
  destruct (negb (callable (walk_nargs k) (params_of p k))); [reflexivity|].
  destruct k.
  - destruct (p_analysis p) as [f|]; [|reflexivity].
    pose proof (G_walk_algs_fst c (ifanz c) (b_algs (f_bot f)) a) as H1.
    pose proof (G_walk_algs_fst c (ifanz c) (b_algs (f_bot f)) None) as H2.
    destruct (walk_algs c (ifanz c) (b_algs (f_bot f)) a).
    destruct (walk_algs c (ifanz c) (b_algs (f_bot f)) None). simpl in *. congruence.
  - destruct (p_events p); reflexivity.
  - destruct (p_regress p); reflexivity.
  - destruct (p_task p) as [f|]; [|reflexivity].
    pose proof (G_walk_algs_fst c (ifalg c) (b_algs (f_bot f)) a) as H1.
    pose proof (G_walk_algs_fst c (ifalg c) (b_algs (f_bot f)) None) as H2.
    destruct (walk_algs c (ifalg c) (b_algs (f_bot f)) a).
    destruct (walk_algs c (ifalg c) (b_algs (f_bot f)) None). simpl in *. congruence.
Qed.

Lemma G_walk_kinds c p ks a : walk_kinds cur_rfb c p ks a = allr (kres c p) ks.
Proof.
  revert a. induction ks as [|k t IH]; intros a; simpl; [reflexivity|].
  pose proof (G_walk_kind_fst c p k a) as H.
  destruct (walk_kind cur_rfb c p k a) as [r a']. simpl in H. subst r.
  rewrite IH. destruct (kres c p k); reflexivity.
Qed.

Lemma G_kres_analysis c p :
  kres c p KAnalysis = Some true <-> fac_ok c KAnalysis (ifanl c) (ifanz c) (p_analysis p).
Proof.
  unfold kres, walk_kind, has_kind, params_of, fac_ok. cbn [fac_of].
  destruct (p_analysis p) as [f|]; cbn [negb fst]; [|tauto].
  destruct (callable (walk_nargs KAnalysis) (f_params f)); cbn [negb fst].
  - pose proof (G_walk_algs_fst c (ifanz c) (b_algs (f_bot f)) None) as H.
    destruct (walk_algs c (ifanz c) (b_algs (f_bot f)) None). simpl in *. subst.
    rewrite G_andr_true, G_allr_true.
    assert (E : Forall (fun x => walk_alg c (ifanz c) (Some x) x = Some true) (b_algs (f_bot f))
                <-> Forall (alg_ok c (ifanz c)) (b_algs (f_bot f))).
    { split; intros H; eapply Forall_impl; try exact H; intros x; apply G_walk_alg_true. }
    rewrite E. tauto.
  - split; [discriminate|intros [H _]; discriminate].
Qed.

Lemma G_kres_task c p :
  kres c p KTask = Some true <-> fac_ok c KTask (ifbot c) (ifalg c) (p_task p).
Proof.
  unfold kres, walk_kind, has_kind, params_of, fac_ok. cbn [fac_of].
  destruct (p_task p) as [f|]; cbn [negb fst]; [|tauto].
  destruct (callable (walk_nargs KTask) (f_params f)); cbn [negb fst].
  - pose proof (G_walk_algs_fst c (ifalg c) (b_algs (f_bot f)) None) as H.
    destruct (walk_algs c (ifalg c) (b_algs (f_bot f)) None). simpl in *. subst.
    rewrite G_andr_true, G_allr_true.
    assert (E : Forall (fun x => walk_alg c (ifalg c) (Some x) x = Some true) (b_algs (f_bot f))
                <-> Forall (alg_ok c (ifalg c)) (b_algs (f_bot f))).
    { split; intros H; eapply Forall_impl; try exact H; intros x; apply G_walk_alg_true. }
    rewrite E. tauto.
  - split; [discriminate|intros [H _]; discriminate].
Qed.

Lemma G_kres_regress c p :
  kres c p KRegress = Some true <-> fac_ok c KRegress (ifret c) (ifrec c) (p_regress p).
Proof.
  unfold kres, walk_kind, has_kind, params_of, fac_ok, cur_rfb. cbn [fac_of].
  destruct (p_regress p) as [f|]; cbn [negb fst]; [|tauto].
  destruct (callable (walk_nargs KRegress) (f_params f)); cbn [negb fst].
  - rewrite G_andr_true, G_allr_true.
    assert (E : Forall (fun x => walk_alg c (ifrec c) (Some x) x = Some true) (b_algs (f_bot f))
                <-> Forall (alg_ok c (ifrec c)) (b_algs (f_bot f))).
    { split; intros H; eapply Forall_impl; try exact H; intros x; apply G_walk_alg_true. }
    rewrite E. tauto.
  - split; [discriminate|intros [H _]; discriminate].
Qed.

Lemma G_kres_events c p : kres c p KEvents = Some true <-> ev_ok c (p_events p).
Proof.
  unfold kres, walk_kind, has_kind, params_of, ev_ok.
  destruct (p_events p) as [e|]; cbn [negb fst]; [|tauto].
  destruct (callable (walk_nargs KEvents) (ef_params e)) eqn:E; cbn [negb fst];
    simpl in E; rewrite E.
  - rewrite G_allr_true. tauto.
  - split; [discriminate|intros [H _]; discriminate].
Qed.

Lemma G_walk_true_iff c p : walk c p = Some true <-> walk_ok c p.
Proof.
  unfold walk, walk_with. fold cur_rfb. rewrite G_walk_kinds. unfold kinds, walk_ok.
  cbn [allr]. rewrite !G_andr_true.
  rewrite G_kres_analysis, G_kres_events, G_kres_regress, G_kres_task. tauto.
Qed.

(* ------------------------------------ the walk in terms of each_* *)
Definition botcb (c : cbs) (k : kind) : bot -> res :=
  match k with KAnalysis => ifanl c | KRegress => ifret c | _ => ifbot c end.
Definition algcb (c : cbs) (k : kind) : alg -> res :=
  match k with KAnalysis => ifanz c | KRegress => ifrec c | _ => ifalg c end.

Definition facprop (c : cbs) (k : kind) (f : factory) : Prop :=
  callable (walk_nargs k) (f_params f) = true /\ botcb c k (f_bot f) = Some true /\
  forall a, In a (b_algs (f_bot f)) ->
    algcb c k a = Some true /\ a_deps a <> None /\ a_svs a <> None /\
    (forall r, In r (refs_of a) -> ifref c r = Some true) /\
    (forall sv, In sv (svs_of a) -> ifsv c sv = Some true /\
       forall v, In v (s_items sv) -> ifv c v = Some true).

Lemma G_fac_ok_prop c k f :
  fac_ok c k (botcb c k) (algcb c k) (Some f) <-> facprop c k f.
Proof.
  unfold fac_ok, facprop, alg_ok, refs_of. rewrite Forall_forall.
  split; intros (H1 & H2 & H3); (split; [exact H1|split; [exact H2|]]); intros a Ha;
    specialize (H3 a Ha).
  - destruct H3 as (A1 & A2 & A3 & A4 & A5 & A6). rewrite Forall_forall in A2, A4, A6.
    split; [exact A1|]. split; [exact A3|]. split; [exact A5|]. split.
    + intros r Hr. apply in_app_iff in Hr. destruct Hr; auto.
    + intros sv Hs. destruct (A6 sv Hs) as [Hv1 Hv2]. rewrite Forall_forall in Hv2.
      split; assumption.
  - destruct H3 as (A1 & A2 & A3 & A4 & A5).
    split; [exact A1|]. split.
    { rewrite Forall_forall. intros r Hr. apply A4. apply in_app_iff. auto. }
    split; [exact A2|]. split.
    { rewrite Forall_forall. intros r Hr. apply A4. apply in_app_iff. auto. }
    split; [exact A3|]. rewrite Forall_forall.
    intros sv Hs. split; [apply (A5 sv Hs)|]. rewrite Forall_forall. apply (A5 sv Hs).
Qed.

Definition walk_each (c : cbs) (p : package) : Prop :=
  each_fac p (fun k f => callable (walk_nargs k) (f_params f) = true /\
                         botcb c k (f_bot f) = Some true) /\
  each_alg p (fun k a => algcb c k a = Some true /\ a_deps a <> None /\ a_svs a <> None) /\
  each_ref p (fun r => ifref c r = Some true) /\
  each_sv p (fun sv => ifsv c sv = Some true) /\
  each_val p (fun v => ifv c v = Some true) /\
  (forall e, p_events p = Some e -> callable 0 (ef_params e) = true) /\
  each_event p (fun m => ifmom c m = Some true).

Lemma G_walk_each c p : walk c p = Some true <-> walk_each c p.
Proof.
  rewrite G_walk_true_iff. unfold walk_ok, walk_each.
  assert (F : (fac_ok c KAnalysis (ifanl c) (ifanz c) (p_analysis p) /\
               fac_ok c KRegress (ifret c) (ifrec c) (p_regress p) /\
               fac_ok c KTask (ifbot c) (ifalg c) (p_task p))
              <-> forall k f, fac_of p k = Some f -> facprop c k f).
  { split.
    - intros (Ha & Hr & Ht) k f Hk. destruct k; simpl in Hk; try discriminate;
        rewrite Hk in *; apply G_fac_ok_prop; assumption.
    - intros H. repeat split.
      + destruct (p_analysis p) as [f|] eqn:E; [|exact I].
        apply (G_fac_ok_prop c KAnalysis). apply H. exact E.
      + destruct (p_regress p) as [f|] eqn:E; [|exact I].
        apply (G_fac_ok_prop c KRegress). apply H. exact E.
      + destruct (p_task p) as [f|] eqn:E; [|exact I].
        apply (G_fac_ok_prop c KTask). apply H. exact E. }
  assert (Ev : ev_ok c (p_events p) <->
               (forall e, p_events p = Some e -> callable 0 (ef_params e) = true) /\
               each_event p (fun m => ifmom c m = Some true)).
  { unfold ev_ok, each_event, events_of. destruct (p_events p) as [e|].
    - rewrite Forall_forall. split.
      + intros [H1 H2]. split; [intros e' He; inversion He; subst; exact H1|exact H2].
      + intros [H1 H2]. split; [apply H1; reflexivity|exact H2].
    - split; [intros _; split; [discriminate|intros e []]|auto]. }
  unfold each_alg, each_ref, each_sv, each_val, each_alg, each_fac in *. unfold facprop in F.
  split.
  - intros (Ha & He & Hr & Ht). apply Ev in He. destruct He as [He1 He2].
    assert (H := proj1 F (conj Ha (conj Hr Ht))). clear F Ev Ha Hr Ht.
    split. { intros k f Hk. destruct (H k f Hk) as (X1 & X2 & _). split; assumption. }
    split. { intros k f Hk a Ha. destruct (H k f Hk) as (_ & _ & X).
             destruct (X a Ha) as (Y1 & Y2 & Y3 & _). auto. }
    split. { intros k f Hk a Ha r Hr. destruct (H k f Hk) as (_ & _ & X).
             destruct (X a Ha) as (_ & _ & _ & Y4 & _). auto. }
    split. { intros k f Hk a Ha sv Hs. destruct (H k f Hk) as (_ & _ & X).
             destruct (X a Ha) as (_ & _ & _ & _ & Y5). destruct (Y5 sv Hs) as [Z _]. exact Z. }
    split. { intros k f Hk a Ha sv Hs v Hv. destruct (H k f Hk) as (_ & _ & X).
             destruct (X a Ha) as (_ & _ & _ & _ & Y5). destruct (Y5 sv Hs) as [_ Z]. auto. }
    split; assumption.
  - intros (H1 & H2 & H3 & H4 & H5 & H6 & H7).
    assert (G : forall k f, fac_of p k = Some f ->
      callable (walk_nargs k) (f_params f) = true /\ botcb c k (f_bot f) = Some true /\
      (forall a, In a (b_algs (f_bot f)) ->
         algcb c k a = Some true /\ a_deps a <> None /\ a_svs a <> None /\
         (forall r, In r (refs_of a) -> ifref c r = Some true) /\
         (forall sv, In sv (svs_of a) -> ifsv c sv = Some true /\
            (forall v, In v (s_items sv) -> ifv c v = Some true)))).
    { intros k f Hk. split; [apply (H1 k f Hk)|]. split; [apply (H1 k f Hk)|].
      intros a Ha. split; [apply (H2 k f Hk a Ha)|]. split; [apply (H2 k f Hk a Ha)|].
      split; [apply (H2 k f Hk a Ha)|]. split; [apply (H3 k f Hk a Ha)|].
      intros sv Hs. split; [apply (H4 k f Hk a Ha sv Hs)|apply (H5 k f Hk a Ha sv Hs)]. }
    apply F in G. destruct G as (Ga & Gr & Gt).
    split; [exact Ga|]. split; [apply Ev; split; assumption|]. split; assumption.
Qed.

(* ------------------------------------------------------ rule 1 *)
Lemma G_default_eqb_eq a b : default_eqb a b = true <-> a = b.
Proof.
  destruct a, b; simpl; split; intros H; try reflexivity; try discriminate.
  - apply Z.eqb_eq in H. subst. reflexivity.
  - inversion H. apply Z.eqb_refl.
  - apply G_name_eqb_eq in H. subst. reflexivity.
  - inversion H. apply G_name_eqb_refl.
Qed.
Lemma G_annot_eqb_eq a b : annot_eqb a b = true <-> a = b.
Proof. destruct a, b; simpl; split; intros H; try reflexivity; try discriminate. Qed.

Lemma G_zip_params e ps :
  length ps = length e ->
  zip_all default_eqb (map p_default e) (map p_default ps) = true ->
  zip_all annot_eqb (map p_annot e) (map p_annot ps) = true -> ps = e.
Proof.
  revert ps. induction e as [|x e IH]; intros [|y ps] HL H1 H2; simpl in *; try discriminate;
    [reflexivity|].
  apply andb_true_iff in H1. destruct H1 as [D1 D2].
  apply andb_true_iff in H2. destruct H2 as [A1 A2].
  apply G_default_eqb_eq in D1. apply G_annot_eqb_eq in A1.
  f_equal; [destruct x, y; simpl in *; congruence|].
  apply IH; auto.
Qed.

Lemma G_zip_refl_d l : zip_all default_eqb l l = true.
Proof. induction l; simpl; [reflexivity|]. rewrite IHl, andb_true_r. apply G_default_eqb_eq. reflexivity. Qed.
Lemma G_zip_refl_a l : zip_all annot_eqb l l = true.
Proof. induction l; simpl; [reflexivity|]. rewrite IHl, andb_true_r. apply G_annot_eqb_eq. reflexivity. Qed.

Lemma G_sig_ok k ps : sig_ok k ps = true <-> ps = exp_sig k.
Proof.
  unfold sig_ok. split.
  - destruct (Nat.eqb (length ps) (length (exp_sig k))) eqn:L; [|discriminate].
    apply Nat.eqb_eq in L.
    destruct (zip_all default_eqb _ _) eqn:D; [|discriminate].
    intros A. apply G_zip_params; assumption.
  - intros ->. rewrite Nat.eqb_refl, G_zip_refl_d. apply G_zip_refl_a.
Qed.

Lemma G_rule_01 E p : rule_01 E p = Some true <-> F01 p.
Proof.
  unfold rule_01, F01.
  destruct (existsb (has_kind p) kinds) eqn:Ex; cbn [negb].
  - apply existsb_exists in Ex. destruct Ex as [k0 [_ Hk0]].
    split.
    + intros H0. apply (proj1 (G_some_true _)) in H0.
      pose proof (proj1 (forallb_forall _ _) H0) as H.
      split; [exists k0; exact Hk0|]. intros k Hk.
      assert (I : In k kinds) by (destruct k; simpl; tauto).
      specialize (H k I). cbv beta in H. rewrite Hk in H. simpl in H. apply G_sig_ok. exact H.
    + intros [_ H]. f_equal. apply (proj2 (forallb_forall _ _)). intros k _.
      destruct (has_kind p k) eqn:Hk; simpl; [|reflexivity].
      apply G_sig_ok. apply H. exact Hk.
  - split; [discriminate|]. intros [[k Hk] _].
    assert (existsb (has_kind p) kinds = true).
    { apply existsb_exists. exists k. split; [destruct k; simpl; tauto|exact Hk]. }
    congruence.
Qed.

Lemma G_callable_exp k : callable (walk_nargs k) (exp_sig k) = true.
Proof. destruct k; reflexivity. Qed.
Lemma G_callable_exp1 k : k <> KEvents -> callable 1 (exp_sig k) = true.
Proof. destruct k; try reflexivity. congruence. Qed.

Lemma G_fac_has p k f : fac_of p k = Some f -> has_kind p k = true /\ params_of p k = f_params f.
Proof.
  unfold has_kind, params_of. destruct k; simpl; try discriminate; intros ->; auto.
Qed.

(* the part of a walk that does not depend on the callbacks *)
Definition walk_base (p : package) : Prop :=
  each_fac p (fun k f => callable (walk_nargs k) (f_params f) = true) /\
  each_alg p (fun _ a => a_deps a <> None /\ a_svs a <> None) /\
  (forall e, p_events p = Some e -> callable 0 (ef_params e) = true).

Lemma G_base_of_follows p : F01 p -> F03 p -> walk_base p.
Proof.
  intros [_ H1] (_ & H3 & _). repeat split.
  - intros k f Hk. destruct (G_fac_has p k f Hk) as [A B].
    rewrite <- B, (H1 k A). apply G_callable_exp.
  - apply (H3 k f H a H0).
  - apply (H3 k f H a H0).
  - intros e He. specialize (H1 KEvents). unfold has_kind, params_of in H1. rewrite He in H1.
    rewrite (H1 eq_refl). reflexivity.
Qed.

Lemma G_walk_each_split c p :
  walk_each c p <->
  walk_base p /\
  each_fac p (fun k f => botcb c k (f_bot f) = Some true) /\
  each_alg p (fun k a => algcb c k a = Some true) /\
  each_ref p (fun r => ifref c r = Some true) /\
  each_sv p (fun sv => ifsv c sv = Some true) /\
  each_val p (fun v => ifv c v = Some true) /\
  each_event p (fun m => ifmom c m = Some true).
Proof.
  unfold walk_each, walk_base, each_alg, each_fac. split.
  - intros (H1 & H2 & H3 & H4 & H5 & H6 & H7).
    split; [split; [|split]|split; [|split]]; try assumption.
    + intros k f Hk. apply (H1 k f Hk).
    + intros k f Hk a Ha. split; apply (H2 k f Hk a Ha).
    + intros k f Hk. apply (H1 k f Hk).
    + intros k f Hk a Ha. apply (H2 k f Hk a Ha).
    + tauto.
  - intros ((B1 & B2 & B3) & H1 & H2 & H3 & H4 & H5 & H7).
    split; [|split; [|tauto]].
    + intros k f Hk. split; [apply (B1 k f Hk)|apply (H1 k f Hk)].
    + intros k f Hk a Ha. split; [apply (H2 k f Hk a Ha)|apply (B2 k f Hk a Ha)].
Qed.


Ltac each_unfold :=
  unfold each_val, each_sv, each_ref, each_dep, each_alg, each_fac, each_event in *.

Lemma G_kind_fac p k f : fac_of p k = Some f -> k <> KEvents.
Proof. destruct k; simpl; congruence. Qed.

(* ------------------------------------------------------ rule 2 *)
Lemma G_rule_02 E p : walk_base p -> (rule_02 E p = Some true <-> F02 p).
Proof.
  intros B. unfold rule_02. rewrite G_walk_each, G_walk_each_split. unfold F02.
  each_unfold. simpl. split.
  - intros (_ & H1 & H2 & H3 & H4 & H5 & H6).
    split; [|split; [|split; [|split; [|split]]]]; intros.
    + specialize (H1 k f H). destruct k; apply G_some_true in H1; exact H1.
    + specialize (H2 k f H a H0). destruct k; apply G_some_true in H2; exact H2.
    + apply G_some_true. eapply H4; eassumption.
    + apply G_some_true. eapply H5; eassumption.
    + specialize (H3 k f H a H0 r H7). apply G_some_true in H3. unfold is_reftuple in H3.
      destruct (r_lvl r); congruence.
    + apply G_some_true. apply H6. assumption.
  - intros (H1 & H2 & H3 & H4 & H5 & H6).
    split; [exact B|]. split; [|split; [|split; [|split; [|split]]]]; intros.
    + specialize (H1 k f H). destruct k; simpl; rewrite H1; reflexivity.
    + specialize (H2 k f H a H0). destruct k; simpl; rewrite H2; reflexivity.
    + specialize (H5 k f H a H0 r H7). unfold is_reftuple. destruct (r_lvl r); congruence.
    + erewrite H3; eauto.
    + erewrite H4; eauto.
    + rewrite H6; auto.
Qed.

(* ------------------------------------------------------ rule 3 *)
Lemma G_ver_res v : ver_res v = Some true <-> v = VerOk.
Proof. destruct v; simpl; split; congruence. Qed.

Lemma G_verify_bot b : verify_bot b = Some true <-> b_algs b <> [] /\ forallb a_isalg (b_algs b) = true.
Proof.
  unfold verify_bot. destruct (b_algs b) as [|x t].
  - split; [discriminate|intros [H _]; congruence].
  - rewrite G_some_true. split; [intros H; split; [discriminate|exact H]|tauto].
Qed.

Lemma G_cb03_alg k a :
  cb03_alg k a = Some true <->
  a_name a <> None /\ a_deps a <> None /\ a_svs a <> None /\ a_ver a = VerOk /\
  forallb (dep_lvl_ok k) (deps_of a) = true /\ forallb s_issv (svs_of a) = true.
Proof.
  unfold cb03_alg, verify_alg, deps_of, svs_of.
  destruct (a_name a), (a_deps a), (a_svs a); cbv beta iota;
    try (split; [discriminate|intros (A & B & C & _); congruence]).
  rewrite G_andr_true, G_some_true, andb_true_iff, G_ver_res.
  split; [intros [[A B] C]|intros (_ & _ & _ & A & B & C)]; repeat split; auto; discriminate.
Qed.

Lemma G_cb03_sv sv : cb03_sv sv = Some true <-> s_name sv <> None /\ s_ver sv = VerOk.
Proof.
  unfold cb03_sv. destruct (s_name sv).
  - rewrite G_ver_res. split; [intros H; split; [discriminate|exact H]|tauto].
  - split; [discriminate|intros [H _]; congruence].
Qed.

Lemma G_rule_03 E p : walk_base p -> F02 p -> (rule_03 E p = Some true <-> F03 p).
Proof.
  intros B (_ & T2 & T3 & _). unfold rule_03. rewrite G_walk_each, G_walk_each_split. unfold F03.
  each_unfold. simpl. split.
  - intros (_ & H1 & H2 & _ & H4 & H5 & _).
    split; [|split; [|split; [|split]]]; intros.
    + specialize (H1 k f H). destruct k; apply G_verify_bot in H1; apply H1.
    + specialize (H2 k f H a H0). pose proof (G_kind_fac p k f H).
      destruct k; try congruence; apply G_cb03_alg in H2; tauto.
    + specialize (H2 k f H a H0). pose proof (G_kind_fac p k f H).
      destruct k; try congruence; apply G_cb03_alg in H2;
        destruct H2 as (_ & _ & _ & _ & D & _); rewrite forallb_forall in D; auto.
    + apply G_cb03_sv. eapply H4; eassumption.
    + apply G_ver_res. eapply H5; eassumption.
  - intros (H1 & H2 & H3 & H4 & H5).
    split; [exact B|]. split; [|split; [|split; [|split; [|split]]]]; intros; try reflexivity.
    + assert (V : verify_bot (f_bot f) = Some true).
      { apply G_verify_bot. split; [apply (H1 k f H)|]. apply forallb_forall.
        intros a Ha. apply (T2 k f H a Ha). }
      destruct k; exact V.
    + assert (V : cb03_alg k a = Some true).
      { apply G_cb03_alg. destruct (H2 k f H a H0) as (A1 & A2 & A3 & A4).
        repeat split; try assumption.
        - apply forallb_forall. intros r Hr. apply (H3 k f H a H0 r Hr).
        - apply forallb_forall. intros sv Hs. apply (T3 k f H a H0 sv Hs). }
      pose proof (G_kind_fac p k f H). destruct k; try congruence; exact V.
    + apply G_cb03_sv. eapply H4; eassumption.
    + apply G_ver_res. eapply H5; eassumption.
Qed.

(* ------------------------------------------------------ rule 4 *)
Lemma G_cb04_alg a : cb04_alg a = Some true <->
  a_name a <> None /\ forall n, a_name a = Some n -> has_dot n = false.
Proof.
  unfold cb04_alg. destruct (a_name a) as [n|].
  - rewrite G_some_true, negb_true_iff. split.
    + intros H. split; [discriminate|]. intros m Hm. inversion Hm; subst. exact H.
    + intros [_ H]. apply H. reflexivity.
  - split; [discriminate|intros [H _]; congruence].
Qed.
Lemma G_cb04_sv a : cb04_sv a = Some true <->
  s_name a <> None /\ forall n, s_name a = Some n -> has_dot n = false.
Proof.
  unfold cb04_sv. destruct (s_name a) as [n|].
  - rewrite G_some_true, negb_true_iff. split.
    + intros H. split; [discriminate|]. intros m Hm. inversion Hm; subst. exact H.
    + intros [_ H]. apply H. reflexivity.
  - split; [discriminate|intros [H _]; congruence].
Qed.

Lemma G_rule_04 E p : walk_base p -> F03 p -> (rule_04 E p = Some true <-> F04 p).
Proof.
  intros B (_ & T2 & _ & T4 & _). unfold rule_04. rewrite G_walk_each, G_walk_each_split.
  unfold F04. each_unfold. simpl. split.
  - intros (_ & _ & H2 & _ & H4 & H5 & _). split; [|split]; intros.
    + specialize (H2 k f H a H0). destruct k; apply G_cb04_alg in H2; apply H2; assumption.
    + specialize (H4 k f H a H0 sv H1). apply G_cb04_sv in H4. apply H4. assumption.
    + specialize (H5 k f H a H0 sv H1 v H3). apply G_some_true in H5.
      apply negb_true_iff in H5. exact H5.
  - intros (H2 & H4 & H5).
    split; [exact B|]. split; [|split; [|split; [|split; [|split]]]]; intros; try reflexivity.
    + destruct k; reflexivity.
    + assert (V : cb04_alg a = Some true).
      { apply G_cb04_alg. split; [apply (T2 k f H a H0)|apply (H2 k f H a H0)]. }
      destruct k; exact V.
    + apply G_cb04_sv. split; [eapply T4; eassumption|eapply H4; eassumption].
    + apply G_some_true. apply negb_true_iff. eapply H5; eassumption.
Qed.

(* ------------------------------------------------------ rule 5 *)
Lemma G_rule_05 E p : walk_base p -> F03 p -> (rule_05 E p = Some true <-> F05 p).
Proof.
  intros B (_ & _ & _ & T4 & _). unfold rule_05. rewrite G_walk_each, G_walk_each_split.
  unfold F05. each_unfold. simpl. split.
  - intros (_ & _ & _ & _ & H4 & _). intros.
    specialize (H4 k f H a H0 sv H1). unfold cb05_sv in H4.
    destruct (s_items sv); [destruct (s_name sv); discriminate|discriminate].
  - intros H4.
    split; [exact B|]. split; [|split; [|split; [|split; [|split]]]]; intros; try reflexivity.
    + destruct k; reflexivity.
    + destruct k; reflexivity.
    + specialize (H4 k f H a H0 sv H1). unfold cb05_sv.
      destruct (s_items sv); [congruence|reflexivity].
Qed.

(* ------------------------------------------------------ rule 7 *)
Lemma G_rule_07 E p : walk_base p -> (rule_07 E p = Some true <-> F07 p).
Proof.
  intros B. unfold rule_07. rewrite G_walk_each, G_walk_each_split.
  unfold F07. each_unfold. simpl. split.
  - intros (_ & _ & _ & _ & _ & H5 & _). intros. apply G_some_true. eapply H5; eassumption.
  - intros H5.
    split; [exact B|]. split; [|split; [|split; [|split; [|split]]]]; intros; try reflexivity.
    + destruct k; reflexivity.
    + destruct k; reflexivity.
    + apply G_some_true. eapply H5; eassumption.
Qed.

(* ------------------------------------------------------ rule 8 *)
Lemma G_cb08_ref r : cb08_ref r = Some true <->
  r_lvl r <> LNone /\ r_fac r <> None /\ r_impl_ok r = true /\
  (r_lvl r = LSv \/ r_lvl r = LV -> r_item_ok r = true) /\ (r_lvl r = LV -> r_feat r <> None).
Proof.
  unfold cb08_ref, isSome.
  destruct (r_lvl r), (r_fac r), (r_impl_ok r), (r_item_ok r), (r_feat r); simpl;
    (split;
     [ intros H; try discriminate; repeat split; intros; try discriminate; try reflexivity;
       try congruence; try (destruct H0; discriminate)
     | intros (H0 & H1 & H2 & H3 & H4); try reflexivity;
       try (specialize (H3 (or_introl eq_refl))); try (specialize (H3 (or_intror eq_refl)));
       try (specialize (H4 eq_refl)); congruence ]).
Qed.

Lemma G_rule_08 E p : walk_base p -> F02 p -> (rule_08 E p = Some true <-> F08 p).
Proof.
  intros B (_ & _ & _ & _ & T5 & _). unfold rule_08. rewrite G_walk_each, G_walk_each_split.
  unfold F08. each_unfold. simpl. split.
  - intros (_ & _ & _ & H3 & _). intros.
    specialize (H3 k f H a H0 r H1). apply G_cb08_ref in H3. tauto.
  - intros H3.
    split; [exact B|]. split; [|split; [|split; [|split; [|split]]]]; intros; try reflexivity.
    + destruct k; reflexivity.
    + destruct k; reflexivity.
    + apply G_cb08_ref. split; [eapply T5; eassumption|eapply H3; eassumption].
Qed.

(* ------------------------------------------------------ rule 9 *)
Lemma G_cb09_alg a : a_svs a <> None -> (cb09_alg a = Some true <-> svs_of a <> []).
Proof.
  unfold cb09_alg, svs_of. destruct (a_svs a) as [[|x t]|]; intros H.
  - split; [discriminate|congruence].
  - split; [discriminate|reflexivity].
  - congruence.
Qed.

Lemma G_rule_09 E p : walk_base p -> (rule_09 E p = Some true <-> F09 p).
Proof.
  intros B. unfold rule_09. rewrite G_walk_each, G_walk_each_split.
  unfold F09. pose proof B as (_ & B2 & _). each_unfold. simpl. split.
  - intros (_ & _ & H2 & _). intros.
    specialize (H2 k f H a H0). apply G_cb09_alg; [apply (B2 k f H a H0)|].
    destruct k; exact H2.
  - intros H2.
    split; [exact B|]. split; [|split; [|split; [|split; [|split]]]]; intros; try reflexivity.
    + destruct k; reflexivity.
    + assert (V : cb09_alg a = Some true).
      { apply G_cb09_alg; [apply (B2 k f H a H0)|apply (H2 k f H a H0)]. }
      destruct k; exact V.
Qed.

(* ------------------------------------------------------ rule 10 *)
Lemma G_moment_ok m : moment_ok m = true <-> moment_follows m.
Proof.
  unfold moment_ok, moment_follows.
  destruct m as [[b|] d o w t]; destruct d, o, w, t; simpl;
    (split; [intros H; try discriminate; intuition (try congruence; try discriminate)
            |intros H; intuition (try congruence; try discriminate)]).
Qed.

Lemma G_rule_10 E p : walk_base p -> (rule_10 E p = Some true <-> F10 p).
Proof.
  intros (_ & _ & B). unfold rule_10, F10, each_event, events_of.
  destruct (p_events p) as [e|].
  - rewrite (B e eq_refl). cbn [negb]. rewrite G_some_true, forallb_forall.
    split; intros H ev Hev; apply G_moment_ok; apply H; exact Hev.
  - split; [intros _ ev []|reflexivity].
Qed.

(* ------------------------------------------------------ rule 6 *)
Lemma G_prefixb_refl n : prefixb n n = true.
Proof. induction n; simpl; [reflexivity|]. rewrite Nat.eqb_refl. exact IHn. Qed.

Lemma G_cb06_ref E r : prefix_free E -> r_lvl r <> LNone ->
  (cb06_ref E r = Some true <->
   exists i k, r_fac r = Some (i, k) /\ i < length E /\ r_impl_home r = i).
Proof.
  intros PF L. unfold cb06_ref, pkg_name.
  destruct (r_lvl r) eqn:Lv; try congruence;
  (destruct (r_fac r) as [[i k]|];
   [|split; [discriminate|intros (i & k & H & _); discriminate]];
   destruct (nth_error E i) as [pi|] eqn:Ni;
   [|split; [discriminate|intros (i' & k' & H & Hl & _); assert (Ei : i' = i) by congruence;
             rewrite Ei in *; apply nth_error_None in Ni; lia]];
   destruct (nth_error E (r_impl_home r)) as [pj|] eqn:Nj;
   [|split; [discriminate|intros (i' & k' & H & Hl & Hh); assert (Ei : i' = i) by congruence;
             rewrite Ei in *; rewrite Hh in Nj; congruence]];
   rewrite G_some_true; split;
   [intros H; exists i, k; split; [reflexivity|]; split;
    [apply nth_error_Some; congruence|symmetry; eapply PF; eassumption]
   |intros (i' & k' & H & Hl & Hh); assert (Ei : i' = i) by congruence; rewrite Ei in *;
    rewrite Hh in Nj; rewrite Ni in Nj; inversion Nj; subst; apply G_prefixb_refl]).
Qed.

Lemma G_rule_06 E p : prefix_free E -> walk_base p -> F02 p ->
  (rule_06 E p = Some true <-> F06 E p).
Proof.
  intros PF (B1 & B2 & _) (_ & _ & _ & _ & T5 & _). unfold rule_06, F06.
  destruct (p_task p) as [f|] eqn:Pt; [|split; [intros _ f Hf; discriminate|reflexivity]].
  assert (Hk : fac_of p KTask = Some f) by exact Pt.
  rewrite (B1 KTask f Hk : callable 4 (f_params f) = true). cbn [negb].
  rewrite G_allr_true, Forall_forall. split.
  - intros H f' Hf' a Ha r Hr. inversion Hf'; subst f'.
    specialize (H a Ha). unfold deps_of in Hr. destruct (a_deps a) as [ds|] eqn:D; [|destruct Hr].
    rewrite G_allr_true, Forall_forall in H.
    apply G_cb06_ref; [exact PF| |apply H; exact Hr].
    apply (T5 KTask f Hk a Ha r). unfold refs_of, deps_of. rewrite D. apply in_app_iff. auto.
  - intros H a Ha. destruct (a_deps a) as [ds|] eqn:D.
    + rewrite G_allr_true, Forall_forall. intros r Hr.
      apply G_cb06_ref; [exact PF| |].
      * apply (T5 KTask f Hk a Ha r). unfold refs_of, deps_of. rewrite D. apply in_app_iff. auto.
      * apply (H f eq_refl a Ha r). unfold deps_of. rewrite D. exact Hr.
    + destruct (B2 KTask f Hk a Ha) as [X _]. congruence.
Qed.

(* ------------------------------------------------------ rule 11: _resolve *)
Definition sv_named (n : name) (sv : svec) : bool :=
  match s_name sv with Some m => name_eqb n m | None => false end.
Definition alg_named (n : name) (a : alg) : bool :=
  match a_name a with Some m => name_eqb m n | None => false end.

Lemma G_NoDup_map_inj {A B} (f : A -> B) l x y :
  NoDup (map f l) -> In x l -> In y l -> f x = f y -> x = y.
Proof.
  induction l as [|z t IH]; simpl; intros ND Hx Hy E; [destruct Hx|].
  inversion ND as [|? ? Hn ND']; subst.
  destruct Hx as [->|Hx], Hy as [->|Hy]; auto.
  - exfalso. apply Hn. rewrite E. apply in_map. exact Hy.
  - exfalso. apply Hn. rewrite <- E. apply in_map. exact Hx.
Qed.

Lemma G_set_nth_app rs x v : set_nth (length rs) (rs ++ [x]) v = rs ++ [v].
Proof. induction rs; simpl; [reflexivity|]. rewrite IHrs. reflexivity. Qed.

Lemma G_step_sv_skip it feat st sv :
  s_name sv <> None -> sv_named (i_name it) sv = false -> step_sv it feat st sv = st.
Proof.
  unfold step_sv, sv_named. destruct st as [[rs idx]|]; [|reflexivity].
  destruct (s_name sv); [|congruence]. intros _ ->. reflexivity.
Qed.

Lemma G_fold_sv_skip it feat svs st :
  (forall sv, In sv svs -> s_name sv <> None /\ sv_named (i_name it) sv = false) ->
  fold_left (step_sv it feat) svs st = st.
Proof.
  induction svs as [|a t IH]; simpl; intros H; [reflexivity|].
  destruct (H a (or_introl eq_refl)) as [H1 H2]. rewrite G_step_sv_skip by assumption.
  apply IH. intros sv Hs. apply H. right. exact Hs.
Qed.

Lemma G_fold_sv it feat svs rs idx :
  (forall sv, In sv svs -> s_name sv <> None) -> NoDup (map s_name svs) ->
  fold_left (step_sv it feat) svs (Some (rs, idx)) =
  match find (sv_named (i_name it)) svs with
  | None => Some (rs, idx)
  | Some sv => Some (set_nth idx rs true ++ [feat_in feat sv], S idx)
  end.
Proof.
  revert rs idx. induction svs as [|a t IH]; intros rs idx Hn ND; cbn [fold_left find];
    [reflexivity|].
  inversion ND as [|? ? Hnot ND']; subst.
  destruct (sv_named (i_name it) a) eqn:M.
  - assert (S1 : step_sv it feat (Some (rs, idx)) a
                 = Some (set_nth idx rs true ++ [feat_in feat a], S idx)).
    { unfold step_sv. unfold sv_named in M. destruct (s_name a); [|discriminate].
      rewrite M. reflexivity. }
    rewrite S1. unfold sv_named in M. destruct (s_name a) as [m|] eqn:Na; [|discriminate].
    apply G_fold_sv_skip. intros sv Hs. split; [apply Hn; right; exact Hs|].
    unfold sv_named. destruct (s_name sv) as [m'|] eqn:Ns; [|reflexivity].
    destruct (name_eqb (i_name it) m') eqn:M'; [|reflexivity].
    apply G_name_eqb_eq in M. apply G_name_eqb_eq in M'. subst.
    exfalso. apply Hnot. rewrite <- Ns. apply in_map. exact Hs.
  - rewrite G_step_sv_skip; [|apply Hn; left; reflexivity|exact M].
    apply IH; [intros sv Hs; apply Hn; right; exact Hs|exact ND'].
Qed.

Definition vb (svs : list svec) (v : iteminfo * option name) : bool :=
  match find (sv_named (i_name (fst v))) svs with
  | None => false
  | Some sv => feat_in (snd v) sv
  end.

Lemma G_fold_vref svs vs : 
  (forall sv, In sv svs -> s_name sv <> None) -> NoDup (map s_name svs) ->
  forall rs idx, length rs = S idx ->
  exists rs' idx', fold_left (step_vref (Some svs)) vs (Some (rs, idx)) = Some (rs', idx') /\
    length rs' = S idx' /\
    forallb (fun b => b) rs' = forallb (fun b => b) rs && forallb (vb svs) vs.
Proof.
  intros Hn ND. induction vs as [|v t IH]; intros rs idx L; simpl.
  - exists rs, idx. rewrite andb_true_r. auto.
  - rewrite (G_fold_sv (fst v) (snd v) svs (rs ++ [false]) (S idx) Hn ND).
    unfold vb at 1. destruct (find (sv_named (i_name (fst v))) svs) as [sv|].
    + rewrite <- L, G_set_nth_app.
      destruct (IH ((rs ++ [true]) ++ [feat_in (snd v) sv]) (S (length rs))) as (rs' & idx' & F & L' & B).
      { rewrite !app_length. simpl. lia. }
      exists rs', idx'. split; [exact F|]. split; [exact L'|].
      rewrite B, !forallb_app. simpl. rewrite !andb_true_r, andb_assoc. reflexivity.
    + destruct (IH (rs ++ [false]) (S idx)) as (rs' & idx' & F & L' & B).
      { rewrite app_length. simpl. lia. }
      exists rs', idx'. split; [exact F|]. split; [exact L'|].
      rewrite B, forallb_app. simpl. rewrite andb_false_r. reflexivity.
Qed.

Lemma G_step_alg_skip r st a :
  a_name a <> None -> alg_named (r_impl_name r) a = false -> step_alg r st a = st.
Proof.
  unfold step_alg, alg_named. destruct st as [[rs idx]|]; [|reflexivity].
  destruct (a_name a); [|congruence]. intros _ ->. reflexivity.
Qed.

Lemma G_fold_alg_skip r l st :
  (forall a, In a l -> a_name a <> None /\ alg_named (r_impl_name r) a = false) ->
  fold_left (step_alg r) l st = st.
Proof.
  induction l as [|a t IH]; simpl; intros H; [reflexivity|].
  destruct (H a (or_introl eq_refl)) as [H1 H2]. rewrite G_step_alg_skip by assumption.
  apply IH. intros x Hx. apply H. right. exact Hx.
Qed.

Lemma G_fold_alg r l :
  (forall a, In a l -> a_name a <> None) -> NoDup (map a_name l) ->
  fold_left (step_alg r) l (Some ([false], 0)) =
  match find (alg_named (r_impl_name r)) l with
  | None => Some ([false], 0)
  | Some a => fold_left (step_vref (a_svs a)) (expand r) (Some ([true], 0))
  end.
Proof.
  induction l as [|a t IH]; intros Hn ND; cbn [fold_left find]; [reflexivity|].
  inversion ND as [|? ? Hnot ND']; subst.
  destruct (alg_named (r_impl_name r) a) eqn:M.
  - assert (S1 : step_alg r (Some ([false], 0)) a
                 = fold_left (step_vref (a_svs a)) (expand r) (Some ([true], 0))).
    { unfold step_alg. unfold alg_named in M. destruct (a_name a); [|discriminate].
      rewrite M. reflexivity. }
    rewrite S1. unfold alg_named in M. destruct (a_name a) as [m|] eqn:Na; [|discriminate].
    apply G_fold_alg_skip. intros x Hx. split; [apply Hn; right; exact Hx|].
    unfold alg_named. destruct (a_name x) as [m'|] eqn:Nx; [|reflexivity].
    destruct (name_eqb m' (r_impl_name r)) eqn:M'; [|reflexivity].
    apply G_name_eqb_eq in M. apply G_name_eqb_eq in M'. subst.
    exfalso. apply Hnot. rewrite <- Nx. apply in_map. exact Hx.
  - rewrite G_step_alg_skip; [|apply Hn; left; reflexivity|exact M].
    apply IH; [intros x Hx; apply Hn; right; exact Hx|exact ND'].
Qed.

Lemma G_feat_in feat sv :
  feat_in feat sv = true <-> exists ft v, feat = Some ft /\ In v (s_items sv) /\ v_key v = ft.
Proof.
  unfold feat_in. destruct feat as [k|].
  - rewrite existsb_exists. split.
    + intros (v & Hv & E). apply G_name_eqb_eq in E. exists k, v. auto.
    + intros (ft & v & E & Hv & K). inversion E; subst. exists v. split; [exact Hv|].
      apply G_name_eqb_refl.
  - split; [discriminate|intros (ft & v & E & _); discriminate].
Qed.

Lemma G_vb svs v :
  (forall sv, In sv svs -> s_name sv <> None) -> NoDup (map s_name svs) ->
  (vb svs v = true <->
   exists sv ft x, In sv svs /\ s_name sv = Some (i_name (fst v)) /\ snd v = Some ft /\
                   In x (s_items sv) /\ v_key x = ft).
Proof.
  intros Hn ND. unfold vb. split.
  - destruct (find (sv_named (i_name (fst v))) svs) as [sv|] eqn:F; [|discriminate].
    apply find_some in F. destruct F as [Hin M]. unfold sv_named in M.
    destruct (s_name sv) as [m|] eqn:Ns; [|discriminate]. apply G_name_eqb_eq in M. subst m.
    intros Hf. apply G_feat_in in Hf. destruct Hf as (ft & x & A & B & C).
    exists sv, ft, x. auto.
  - intros (sv & ft & x & Hin & Ns & A & B & C).
    destruct (find (sv_named (i_name (fst v))) svs) as [sv'|] eqn:F.
    + apply find_some in F. destruct F as [Hin' M]. unfold sv_named in M.
      destruct (s_name sv') as [m|] eqn:Ns'; [|discriminate]. apply G_name_eqb_eq in M. subst m.
      assert (sv' = sv).
      { apply (G_NoDup_map_inj s_name svs); auto. congruence. }
      subst sv'. apply G_feat_in. exists ft, x. auto.
    + exfalso. apply (find_none _ _ F sv) in Hin. unfold sv_named in Hin. rewrite Ns in Hin.
      rewrite G_name_eqb_refl in Hin. discriminate.
Qed.

Definition named_fac (f : factory) : Prop :=
  (forall a, In a (b_algs (f_bot f)) ->
     a_name a <> None /\ a_svs a <> None /\ NoDup (map s_name (svs_of a)) /\
     forall sv, In sv (svs_of a) -> s_name sv <> None) /\
  NoDup (map a_name (b_algs (f_bot f))) /\ callable 1 (f_params f) = true.

Lemma G_resolve_alg r a :
  a_svs a <> None -> NoDup (map s_name (svs_of a)) ->
  (forall sv, In sv (svs_of a) -> s_name sv <> None) ->
  exists rs idx, fold_left (step_vref (a_svs a)) (expand r) (Some ([true], 0)) = Some (rs, idx) /\
    (forallb (fun b => b) rs = true <->
     forall it feat, In (it, feat) (expand r) ->
       exists sv ft v, In sv (svs_of a) /\ s_name sv = Some (i_name it) /\
                       feat = Some ft /\ In v (s_items sv) /\ v_key v = ft).
Proof.
  intros Hs ND Hn. unfold svs_of in *. destruct (a_svs a) as [svs|]; [|congruence].
  destruct (G_fold_vref svs (expand r) Hn ND [true] 0 eq_refl) as (rs & idx & F & _ & B).
  exists rs, idx. split; [exact F|]. rewrite B. simpl. rewrite forallb_forall. split.
  - intros H it feat Hin. apply (G_vb svs (it, feat) Hn ND). apply H. exact Hin.
  - intros H [it feat] Hin. apply (G_vb svs (it, feat) Hn ND). apply H. exact Hin.
Qed.

Lemma G_resolve E r : r_lvl r <> LNone ->
  (forall i k f, factory_at E i k = Some f -> named_fac f) ->
  (resolve E r = Some true <-> resolves E r).
Proof.
  intros L NF. unfold resolve, resolves.
  destruct (r_lvl r) eqn:Lv; try congruence;
  (destruct (r_fac r) as [[i k]|];
   [|split; [discriminate|intros (i & k & f & a & H & _); discriminate]];
   destruct (factory_at E i k) as [f|] eqn:Fa;
   [|split; [discriminate|intros (i' & k' & f & a & H & H' & _); inversion H; subst; congruence]];
   destruct (NF i k f Fa) as (N1 & N2 & N3); rewrite N3; cbn [negb];
   rewrite G_fold_alg by (try exact N2; intros a Ha; apply (N1 a Ha));
   destruct (find (alg_named (r_impl_name r)) (b_algs (f_bot f))) as [a|] eqn:Fi;
   [ apply find_some in Fi; destruct Fi as [Hin M]; unfold alg_named in M;
     destruct (a_name a) as [m|] eqn:Na; [|discriminate]; apply G_name_eqb_eq in M; subst m;
     destruct (N1 a Hin) as (_ & S1 & S2 & S3);
     destruct (G_resolve_alg r a S1 S2 S3) as (rs & idx & F & B); rewrite F, G_some_true, B;
     split;
     [ intros H; exists i, k, f, a; repeat split; auto
     | intros (i' & k' & f' & a' & H1 & H2 & H3 & H4 & H5);
       assert (i' = i /\ k' = k) as [Ei Ek] by (split; congruence); rewrite Ei, Ek in *;
       assert (f' = f) by congruence; subst f';
       assert (a' = a) by (apply (G_NoDup_map_inj a_name (b_algs (f_bot f))); auto; congruence);
       subst a'; exact H5 ]
   | split; [discriminate|];
     intros (i' & k' & f' & a' & H1 & H2 & H3 & H4 & H5);
     assert (i' = i /\ k' = k) as [Ei Ek] by (split; congruence); rewrite Ei, Ek in *;
     assert (f' = f) by congruence; subst f';
     apply (find_none _ _ Fi a') in H3; unfold alg_named in H3; rewrite H4 in H3;
     rewrite G_name_eqb_refl in H3; discriminate ]).
Qed.

Lemma G_rule_11 E p :
  (forall i k f, factory_at E i k = Some f -> named_fac f) ->
  walk_base p -> F02 p -> (rule_11 E p = Some true <-> F11 E p).
Proof.
  intros NF B (_ & _ & _ & _ & T5 & _). unfold rule_11. rewrite G_walk_each, G_walk_each_split.
  unfold F11. each_unfold. simpl. split.
  - intros (_ & _ & _ & H3 & _). intros.
    apply G_resolve; [eapply T5; eassumption|exact NF|eapply H3; eassumption].
  - intros H3.
    split; [exact B|]. split; [|split; [|split; [|split; [|split]]]]; intros; try reflexivity.
    + destruct k; reflexivity.
    + destruct k; reflexivity.
    + apply G_resolve; [eapply T5; eassumption|exact NF|eapply H3; eassumption].
Qed.

Lemma G_verify_pkg_iff E p :
  verify_pkg E p = true <->
  rule_01 E p = Some true /\ rule_02 E p = Some true /\ rule_03 E p = Some true /\
  rule_04 E p = Some true /\ rule_05 E p = Some true /\ rule_06 E p = Some true /\
  rule_07 E p = Some true /\ rule_08 E p = Some true /\ rule_09 E p = Some true /\
  rule_10 E p = Some true /\ rule_11 E p = Some true.
Proof.
  unfold verify_pkg, outcomes, rules. cbn [map forallb].
  rewrite !andb_true_iff, !G_status_true. tauto.
Qed.

Lemma G_named_of E :
  (forall p, In p E -> F01 p /\ F03 p /\ uniq_pkg p) ->
  forall i k f, factory_at E i k = Some f -> named_fac f.
Proof.
  intros H i k f Fa. unfold factory_at in Fa.
  destruct (nth_error E i) as [p|] eqn:N; [|discriminate].
  apply nth_error_In in N. destruct (H p N) as ((_ & F1) & (_ & F3a & _ & F3s & _) & (U1 & U2)).
  each_unfold. split; [|split].
  - intros a Ha. destruct (F3a k f Fa a Ha) as (A1 & _ & A3 & _).
    split; [exact A1|]. split; [exact A3|]. split; [apply (U2 k f Fa a Ha)|].
    intros sv Hs. apply (F3s k f Fa a Ha sv Hs).
  - apply (U1 k f Fa).
  - destruct (G_fac_has p k f Fa) as [A B]. rewrite <- B, (F1 k A).
    apply G_callable_exp1. eapply G_kind_fac. exact Fa.
Qed.

(* what the first ten rules give for one package *)
Lemma G_sound_pkg E p : prefix_free E -> verify_pkg E p = true ->
  F01 p /\ F02 p /\ F03 p /\ F04 p /\ F05 p /\ F06 E p /\ F07 p /\ F08 p /\ F09 p /\ F10 p /\
  walk_base p.
Proof.
  intros PF V. apply G_verify_pkg_iff in V.
  destruct V as (R1 & R2 & R3 & R4 & R5 & R6 & R7 & R8 & R9 & R10 & R11).
  assert (B : walk_base p).
  { unfold rule_02 in R2. apply G_walk_each in R2. apply G_walk_each_split in R2. apply R2. }
  assert (F1 : F01 p) by (apply (G_rule_01 E); exact R1).
  assert (F2 : F02 p) by (apply (G_rule_02 E p B); exact R2).
  assert (F3 : F03 p) by (apply (G_rule_03 E p B F2); exact R3).
  split; [exact F1|]. split; [exact F2|]. split; [exact F3|].
  split; [apply (G_rule_04 E p B F3); exact R4|].
  split; [apply (G_rule_05 E p B F3); exact R5|].
  split; [apply (G_rule_06 E p PF B F2); exact R6|].
  split; [apply (G_rule_07 E p B); exact R7|].
  split; [apply (G_rule_08 E p B F2); exact R8|].
  split; [apply (G_rule_09 E p B); exact R9|].
  split; [apply (G_rule_10 E p B); exact R10|exact B].
Qed.

Theorem G_sound E : uniq E -> prefix_free E -> gate E = true -> follows_obs E.
Proof.
  intros U PF G. unfold gate in G. rewrite forallb_forall in G.
  assert (NF : forall i k f, factory_at E i k = Some f -> named_fac f).
  { apply G_named_of. intros p Hp. destruct (G_sound_pkg E p PF (G p Hp)) as (F1 & _ & F3 & _).
    split; [exact F1|]. split; [exact F3|apply U; exact Hp]. }
  intros p Hp. pose proof (G p Hp) as V.
  destruct (G_sound_pkg E p PF V) as (F1 & F2 & F3 & F4 & F5 & F6 & F7 & F8 & F9 & F10 & B).
  unfold follows_obs_pkg.
  split; [exact F1|]. split; [exact F2|]. split; [exact F3|]. split; [exact F4|].
  split; [exact F5|]. split; [exact F6|]. split; [exact F7|]. split; [exact F8|].
  split; [exact F9|]. split; [exact F10|].
  apply (G_rule_11 E p NF B F2). apply G_verify_pkg_iff in V. apply V.
Qed.

Theorem G_complete E : uniq E -> prefix_free E -> follows_obs E -> gate E = true.
Proof.
  intros U PF F. unfold gate. apply forallb_forall. intros p Hp.
  assert (NF : forall i k f, factory_at E i k = Some f -> named_fac f).
  { apply G_named_of. intros q Hq. destruct (F q Hq) as (F1 & _ & F3 & _).
    split; [exact F1|]. split; [exact F3|apply U; exact Hq]. }
  destruct (F p Hp) as (F1 & F2 & F3 & F4 & F5 & F6 & F7 & F8 & F9 & F10 & F11).
  pose proof (G_base_of_follows p F1 F3) as B.
  apply G_verify_pkg_iff.
  split; [apply G_rule_01; exact F1|].
  split; [apply (G_rule_02 E p B); exact F2|].
  split; [apply (G_rule_03 E p B F2); exact F3|].
  split; [apply (G_rule_04 E p B F3); exact F4|].
  split; [apply (G_rule_05 E p B F3); exact F5|].
  split; [apply (G_rule_06 E p PF B F2); exact F6|].
  split; [apply (G_rule_07 E p B); exact F7|].
  split; [apply (G_rule_08 E p B F2); exact F8|].
  split; [apply (G_rule_09 E p B); exact F9|].
  split; [apply (G_rule_10 E p B); exact F10|].
  apply (G_rule_11 E p NF B F2); exact F11.
Qed.

(* ------------------------------------------- consequences / witnesses *)
Theorem G_fault_rejected E : uniq E -> prefix_free E ->
  (exists p, In p E /\ ~ follows_obs_pkg E p) -> gate E = false.
Proof.
  intros U PF (p & Hp & Hn). destruct (gate E) eqn:G; [|reflexivity].
  exfalso. apply Hn. apply (G_sound E U PF G p Hp).
Qed.

(* the node Construct._feedback looks up in _flat exists: it is produced by
   _build_tree from the factory's bot *)
Definition flat_has (E : engine) (i : nat) (k : kind) (an svn ft : name) : Prop :=
  exists f a sv v, factory_at E i k = Some f /\ In a (b_algs (f_bot f)) /\
    a_name a = Some an /\ In sv (svs_of a) /\ s_name sv = Some svn /\
    In v (s_items sv) /\ v_key v = ft.

Theorem G_lookups_total E : uniq E -> prefix_free E -> gate E = true ->
  forall p, In p E -> forall k f, fac_of p k = Some f -> forall a, In a (b_algs (f_bot f)) ->
  forall r, In r (refs_of a) -> forall it feat, In (it, feat) (expand r) ->
  exists i k' ft, r_fac r = Some (i, k') /\ feat = Some ft /\
                  flat_has E i k' (r_impl_name r) (i_name it) ft.
Proof.
  intros U PF G p Hp k f Hf a Ha r Hr it feat Hin.
  destruct (G_sound E U PF G p Hp) as (_ & _ & _ & _ & _ & _ & _ & _ & _ & _ & F11).
  destruct (F11 k f Hf a Ha r Hr) as (i & k' & f' & a' & R1 & R2 & R3 & R4 & R5).
  destruct (R5 it feat Hin) as (sv & ft & v & S1 & S2 & S3 & S4 & S5).
  exists i, k', ft. split; [exact R1|]. split; [exact S3|].
  exists f', a', sv, v. auto 10.
Qed.

Module GateWitness.
  Import GateExamples.
  (* algorithm "r" of the regress-only package, run() left abstract *)
  Definition A_norun := mkAlg true (Some [114]) VerOk (Some [R_up]) [] (Some [SV]) false.
  Definition P_norun := mkPkg [114;111] None None
                       (Some (mkFac (exp_sig KRegress) (mkBot true [A_norun]))) None.
  Definition E_norun := [P_up; P_norun].

  Lemma accepted : gate E_norun = true.
  Proof. vm_compute. reflexivity. Qed.

  Lemma not_follows : ~ follows E_norun.
  Proof.
    intros [_ H]. specialize (H P_norun (or_intror (or_introl eq_refl))).
    destruct H as [H _]. specialize (H KRegress _ eq_refl A_norun (or_introl eq_refl)).
    discriminate H.
  Qed.

  Lemma uniq_E : uniq E.
  Proof.
    intros p [<-|[<-|[]]]; split; intros k f Hk; destruct k; simpl in Hk; try discriminate;
      inversion Hk; subst; simpl.
    - repeat constructor; simpl; intuition discriminate.
    - intros a [<-|[]]. simpl. repeat constructor; simpl; intuition discriminate.
    - repeat constructor; simpl; intuition discriminate.
    - intros a [<-|[]]. simpl. repeat constructor; simpl; intuition discriminate.
  Qed.

  Lemma prefix_free_E : prefix_free E.
  Proof.
    intros i j pi pj Hi Hj Hp.
    destruct i as [|[|i]], j as [|[|j]]; simpl in *; try reflexivity;
      try (destruct i; discriminate); try (destruct j; discriminate);
      inversion Hi; inversion Hj; subst; simpl in Hp; discriminate.
  Qed.

  Lemma follows_E : follows E.
  Proof.
    split.
    - apply G_sound; [exact uniq_E|exact prefix_free_E|exact now_accepts_regress_only].
    - intros p [<-|[<-|[]]]; (split; [|split]); intros k f Hk; destruct k; simpl in Hk;
        try discriminate; inversion Hk; subst; simpl;
        intros a [<-|[]]; simpl; try reflexivity;
        intros sv [<-|[]]; simpl; try reflexivity;
        intros v [<-|[]]; reflexivity.
  Qed.

  (* a single fault: the regression's name contains a "." *)
  Definition A_dot := mkAlg true (Some [114;46;120]) VerOk (Some [R_up]) [] (Some [SV]) true.
  Definition P_dot := mkPkg [114;111] None None
                       (Some (mkFac (exp_sig KRegress) (mkBot true [A_dot]))) None.
  Definition E_dot := [P_up; P_dot].

  Lemma uniq_E_dot : uniq E_dot.
  Proof.
    intros p [<-|[<-|[]]]; split; intros k f Hk; destruct k; simpl in Hk; try discriminate;
      inversion Hk; subst; simpl.
    - repeat constructor; simpl; intuition discriminate.
    - intros a [<-|[]]. simpl. repeat constructor; simpl; intuition discriminate.
    - repeat constructor; simpl; intuition discriminate.
    - intros a [<-|[]]. simpl. repeat constructor; simpl; intuition discriminate.
  Qed.

  Lemma prefix_free_E_dot : prefix_free E_dot.
  Proof.
    intros i j pi pj Hi Hj Hp.
    destruct i as [|[|i]], j as [|[|j]]; simpl in *; try reflexivity;
      try (destruct i; discriminate); try (destruct j; discriminate);
      inversion Hi; inversion Hj; subst; simpl in Hp; discriminate.
  Qed.

  Lemma breaks_rule_E_dot : exists p, In p E_dot /\ ~ follows_obs_pkg E_dot p.
  Proof.
    exists P_dot. split; [right; left; reflexivity|].
    intros (_ & _ & _ & (H & _) & _).
    specialize (H KRegress _ eq_refl A_dot (or_introl eq_refl) _ eq_refl). discriminate H.
  Qed.
End GateWitness.
