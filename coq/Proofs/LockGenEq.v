(* Proofs/LockGenEq.v -- the lock handlers of dawgie.db.shelve.comms.Worker,
   regenerated from the python source on every run (Gen/LockGen.v, by
   tools/translate/lock2coq.py), ARE the step function of Model/Lock.v over
   which the C13 theorems are proved.

   A generated handler works on one connection and the lock bit
   (LockGen.lkst); [view] cuts that out of the model state, [put] writes it
   back and turns what the handler sent into the model's outputs.  [gstep] is
   the model's event loop spelled with the generated handlers; what remains
   hand-written in it is Twisted, not DAWGIE:
     - a request is delivered only to a connection that exists, was not lost
       and on which loseConnection() was not called;
     - the LoopingCall calls its function only while it is running;
     - an exception leaving dataReceived drops the connection (connectionLost);
     - connectionLost comes once;
     - the Timer event (LoopingCall.stop, called by the reactor) is Lock.step's.
   Theorem step_gen_eq: gstep = Lock.step, for every state and event. *)
From Coq Require Import List Bool Arith.
From DV Require Import Model.Lock.
From DV Require Gen.LockGen.
Import ListNotations.

Module G := LockGen.

Definition view (c : nat) (st : lstate) : G.lkst :=
  let k := get c (conns st) in
  (lock st, has k, running k, stopped k, lost k, closed k, timers k, []).

Definition to_lout (c : nat) (s : G.sent) : lout :=
  match s with
  | G.SStatus G.Mu_unlock => ToldYours c
  | G.SStatus G.Mu_lock => ToldBusy c
  | G.SBool b => Released c b
  | G.SClose => Closed c
  end.

Definition put (c : nat) (g : G.lkst) (st : lstate) : lstate * list lout :=
  let '(l, h, r, s, lo, cl, t, out) := g in
  (mkL l (upd c (mkCst h r s lo cl t) (conns st)), map (to_lout c) out).

Definition delivered (c : nat) (st : lstate) : bool :=
  let k := get c (conns st) in
  negb (negb (c <? length (conns st)) || closed k || lost k).

Definition gstep (st : lstate) (e : event) : lstate * list lout :=
  match e with
  | Acquire c =>
      if delivered c st then
        match G.request_acquire (view c st) with
        | Some g => put c (if G.closes_after_acquire then G.lose_connection g else g) st
        | None => (fst (put c (G.connectionLost (view c st)) st), [Crashed c])
        end
      else (st, [])
  | Poll c =>
      if running (get c (conns st)) then put c (G.do_acquire (view c st)) st else (st, [])
  | Release c =>
      if delivered c st then
        put c (let g := G.request_release (view c st) in
               if G.closes_after_release then G.lose_connection g else g) st
      else (st, [])
  | Drop c =>
      if negb (c <? length (conns st)) || lost (get c (conns st)) then (st, [])
      else put c (G.connectionLost (view c st)) st
  | Timer c => step st (Timer c)
  end.

Lemma get_upd c x : forall l, c < length l -> get c (upd c x l) = x.
Proof.
  unfold get. induction c as [|c IH]; intros [|y l] H; cbn in *; try (inversion H; fail); [reflexivity|].
  apply IH. apply Nat.succ_lt_mono. exact H.
Qed.

Lemma upd_upd c x y : forall l, upd c y (upd c x l) = upd c y l.
Proof.
  induction c as [|c IH]; intros [|z l]; cbn; try reflexivity. f_equal. apply IH.
Qed.

Lemma upd_get : forall c l, upd c (get c l) l = l.
Proof.
  unfold get. induction c as [|c IH]; intros [|y l]; cbn; try reflexivity. f_equal. apply IH.
Qed.

Ltac crush k :=
  let K := fresh "K" in
  destruct k as [h r s lo cl t] eqn:K; cbn;
  destruct h, r, s, lo, cl; cbn; try reflexivity;
  try (rewrite <- K; rewrite upd_get; reflexivity).

Theorem step_gen_eq : forall st e, gstep st e = step st e.
Proof.
  intros [l cs] e. destruct e as [c|c|c|c|c]; cbn [gstep]; [| | | |reflexivity].
  - (* Acquire *)
    unfold delivered, view, G.request_acquire, G.lc_start, G.do_acquire, G.connectionLost,
      G.get_db_lock_status, G.w_lock_db, G.w_unlock_db, G.lock_db, G.unlock_db,
      G.closes_after_acquire, put, step, do_acquire, do_drop.
    cbn [conns lock].
    destruct (c <? length cs) eqn:B; cbn [negb orb]; [|reflexivity].
    apply Nat.ltb_lt in B.
    destruct (get c cs) as [h r s lo cl t] eqn:K; cbn.
    destruct cl; cbn; [reflexivity|]. destruct lo; cbn; [reflexivity|].
    destruct r; cbn; [destruct h, s; reflexivity|].
    rewrite (get_upd c _ cs B). cbn. rewrite !upd_upd.
    destruct l, h, s; cbn; reflexivity.
  - (* Poll *)
    unfold view, G.do_acquire, G.get_db_lock_status, G.w_lock_db, G.lock_db, put, step, do_acquire.
    cbn [conns lock].
    destruct l; crush (get c cs).
  - (* Release *)
    unfold delivered, view, G.request_release, G.do_release, G.w_unlock_db, G.unlock_db,
      G.closes_after_release, G.lose_connection, put, step.
    cbn [conns lock].
    destruct (c <? length cs) eqn:B; cbn [negb orb]; [|reflexivity].
    destruct l; crush (get c cs).
  - (* Drop *)
    unfold view, G.connectionLost, G.w_unlock_db, G.unlock_db, put, step, do_drop.
    cbn [conns lock].
    destruct (c <? length cs) eqn:B; cbn [negb orb]; [|reflexivity].
    destruct l; crush (get c cs).
Qed.

(* whole histories: the model's run is the run of the generated handlers *)
Fixpoint grun (st : lstate) (evs : list event) : lstate * list lout :=
  match evs with
  | [] => (st, [])
  | e :: r => let '(s1, o1) := gstep st e in let '(s2, o2) := grun s1 r in (s2, o1 ++ o2)
  end.

Theorem run_gen_eq : forall evs st, grun st evs = run st evs.
Proof.
  induction evs as [|e r IH]; intro st; [reflexivity|].
  cbn [grun run]. rewrite step_gen_eq. destruct (step st e) as [s1 o1]. rewrite IH. reflexivity.
Qed.

(* a fresh Worker is the model's fresh connection *)
Theorem fresh_gen_eq :
  mkCst G.init_has false G.init_stopped G.init_lost false 0 = fresh.
Proof. reflexivity. Qed.
